/-
  C19 — property theorems (JSON.parse / JSON.stringify model).  Every `theorem` here is one proof obligation.

  Model recap (Model.lean): texts/strings = lists of UTF-16 code units; `parseRaw` = ECMA-404 recursive descent;
  `build` = ECMAScript object building (duplicate keys, key order, canonical number text via abstract `NumCanon`);
  `parse N = build N ∘ parseRaw`; `stringify gap` = SerializeJSONProperty with indent; `quote` = QuoteJSONString.

  Number text ↔ double is C12's subject: a number is its lexeme, `NumLexOK l` ("l is re-lexed as itself in a context
  that ends a number" — proved for every lexeme of the number grammar) and `N.canon l = l` ("l is the canonical text of
  its value") are parts of `Normal`; `NumCanonOK N` is the only hypothesis about the number↔text function.
-/
import GojaModel.C19.Normalize
import GojaModel.C19.AllowList
import GojaModel.C19.Reviver
import GojaModel.C19.ReplacerThm
import GojaModel.C19.TokSound
import GojaModel.C19.ReviverMut
import GojaModel.C19.MechThm
import GojaModel.C19.Utf8Thm
import GojaModel.C19.QuoteMechThm
import GojaModel.C19.AllowListWf
import GojaModel.C19.ReviverMutThm
import GojaModel.C19.MarshalThm
import GojaModel.C19.SpaceMech
import GojaModel.C19.BoxedThm
import GojaModel.C19.CycleThm

namespace GojaModel.C19

/-- mechanism level (SpaceMech.lean: builtin_json.go:231, the processing of the `space` argument): integers, doubles (NaN, ±Infinity,
    any magnitude — in particular ≥ 2^63, where the code before bd5c535 converted to int64 before comparing), strings
    (cut to 10 code units) and everything else give exactly the gap ECMA-262 §25.5.2 steps 5–8 specify. -/
theorem space_argument_refines_spec (a : SpaceArg) : gapMech a = gapSpec a :=
  gapMech_eq_gapSpec a

/-- gap_clamped (Number): `space` = n gives exactly min(n,10) spaces. -/
theorem gap_clamped_number (n : Nat) :
    (gapOfNumber n).length = min n 10 ∧ (gapOfNumber n).length ≤ 10 ∧ ∀ c ∈ gapOfNumber n, c = 32 := by
  refine ⟨by simp [gapOfNumber], by simp [gapOfNumber]; omega, ?_⟩
  intro c hc
  simp [gapOfNumber] at hc
  exact hc.2

/-- gap_clamped (String): the gap is the first min(|s|,10) code units of `space`. -/
theorem gap_clamped_string (s : Str) :
    (gapOfString s).length = min 10 s.length ∧ (gapOfString s).length ≤ 10 ∧ gapOfString s ++ s.drop 10 = s ∧
      (s.length ≤ 10 → gapOfString s = s) := by
  refine ⟨by simp [gapOfString], by simp [gapOfString]; omega, by simp [gapOfString], ?_⟩
  intro h
  simp [gapOfString, List.take_of_length_le h]

/-- a numeric gap consists of JSON white space only -/
theorem gapOfNumber_ws (n : Nat) : AllWs (gapOfNumber n) := by
  intro c hc
  rw [(gap_clamped_number n).2.2 c hc]
  rfl

/-- mechanism level (QuoteMech.lean: builtin_json.go:493 quote() fed by string_unicode.go:81 lenientUtf16Decoder.ReadRune with
    its one unit of push-back): it REFINES QuoteJSONString for every list of code units — in particular a pushed-back
    unit is re-examined as a possible pair start (lone high surrogate followed by a valid pair). -/
theorem quote_mechanism_refines_spec (s : Str) : quoteMech s = quote s :=
  quoteMech_eq_quote s

/-- quote_escapes_sound: for EVERY list of code units (lone surrogates, controls, quotes, backslashes …) the output of
    QuoteJSONString is a string token that lexes back to exactly the same units, in any context. -/
theorem quote_escapes_sound (s rest : Str) (hs : WfStr s) :
    ∃ body, quote s ++ rest = 34 :: body ∧ parseStrBody body = some (s, rest) := by
  refine ⟨quoteBody s ++ 34 :: rest, by simp [quote], parseStrBody_quoteBody s hs rest⟩

/-- … and as a JSON value -/
theorem quote_parses_as_value (s : Str) (hs : WfStr s) : parseRaw (quote s) = some (.str s) := by
  have h := parseRaw_stringify [] (fun c hc => by cases hc) (.str s) (by simpa [WfVal] using hs)
  simpa [stringify, ser] using h

/-- quote output never contains a raw control character, and raw `"` / `\` only as part of an escape:
    stated through the lexer — the body re-lexes completely, so no unit of it is rejected. (corollary kept as the
    soundness statement above; this one gives ASCII-safety of lone surrogates:) a lone surrogate is never emitted raw
    at the end of the output. -/
theorem quote_lone_high_escaped (h : Nat) (hh : isHigh h = true) : quoteBody [h] = escU h := by
  simp [quoteBody, escOne, hh]
  have : h ≠ 34 ∧ h ≠ 92 ∧ ¬ h < 32 := isHigh_raw hh
  have h2 : h ≠ 8 ∧ h ≠ 9 ∧ h ≠ 10 ∧ h ≠ 12 ∧ h ≠ 13 := by simp [isHigh] at hh; omega
  simp [this.1, this.2.1, h2.1, h2.2.1, h2.2.2.1, h2.2.2.2.1, h2.2.2.2.2]

/-- parse_stringify (syntactic core): for every well-formed tree, EVERY white-space gap (in particular every numeric
    indent 0..10 and every string indent made of space/tab/LF/CR) — parsing the serialisation gives the tree back.
    Unbounded: mutual structural induction over the tree (RoundTrip.rt_val / rt_elems / rt_members). -/
theorem parseRaw_stringify_ws (gap : Str) (hg : AllWs gap) (v : JVal) (hv : WfVal v) :
    parseRaw (stringify gap v) = some v :=
  parseRaw_stringify gap hg v hv

/-- the same inside any context: leading white space, any indent, trailing text that cannot continue a number -/
theorem parseValue_ser_context (gap ind w rest : Str) (hg : AllWs gap) (hi : AllWs ind) (hw : AllWs w) (v : JVal)
    (hv : WfVal v) (hs : Stop rest) (f : Nat) (hf : need v ≤ f) :
    parseValue f (w ++ (ser gap ind v ++ rest)) = some (v, rest) :=
  rt_val gap hg v ind w rest f hi hw hv hs hf

/-- object building is the identity on normal forms (no duplicate keys, index keys first ascending, canonical numbers) -/
theorem build_fixed_on_normal (N : NumCanon) (v : JVal) (h : Normal N v) : build N v = v :=
  build_normal N v h

/-- parse_stringify: ∀ JSON-representable value v (normal form), parse (stringify v) = v, for every white-space gap. -/
theorem parse_stringify (N : NumCanon) (gap : Str) (hg : AllWs gap) (v : JVal) (h : Normal N v) :
    parse N (stringify gap v) = some v := by
  unfold parse
  simp only [parseRaw_stringify gap hg v (normal_wf N v h), build_normal N v h]

/-- … in particular for every Number `space` argument -/
theorem parse_stringify_numeric_indent (N : NumCanon) (n : Nat) (v : JVal) (h : Normal N v) :
    parse N (stringify (gapOfNumber n) v) = some v :=
  parse_stringify N _ (gapOfNumber_ws n) v h

/-- integers are unconditional: the decimal text of any integer satisfies the number-text hypothesis … -/
theorem int_lexeme_ok (l : Str) (hl : NatLex l) : NumLexOK l ∧ NumLexOK (45 :: l) :=
  numLexOK_of_int l hl

/-- … so values whose numbers are integers round-trip with no hypothesis about number text at all
    (canonical text of an integer below 2^53 is its decimal text: `NumCanon.id` on these lexemes) -/
theorem parse_stringify_int (gap : Str) (hg : AllWs gap) (l : Str) (hl : NatLex l) (k : Str) (hk : WfStr k) :
    parse NumCanon.id (stringify gap (.obj [(k, .arr [.num l, .num (45 :: l)])])) =
      some (.obj [(k, .arr [.num l, .num (45 :: l)])]) := by
  apply parse_stringify _ _ hg
  have h := numLexOK_of_int l hl
  by_cases hi : isIdx (k, JVal.arr [.num l, .num (45 :: l)]) = true <;>
    simp [Normal, NormalL, NormalM, NumCanon.id, h.1, h.2, hk, KeysOK, keys, IdxSorted, hi]

/-- JSON.parse returns values in normal form: well-formed strings, grammatical number lexemes in canonical text,
    no duplicate keys, array-index keys first in ascending order then the other keys (for every UTF-16 text). -/
theorem parse_yields_normal (N : NumCanon) (hN : NumCanonOK N) (t : Str) (v : JVal) (ht : WfStr t)
    (h : parse N t = some v) : Normal N v :=
  parse_normal N hN ht h

/-- stringify_parse_canonical: if `parse t = v` then the canonical text `stringify v` (i) parses back to `v`, for every
    white-space gap, and (ii) is a fixed point of stringify ∘ parse (idempotence), whatever the indentation used in
    between.  Number text under `NumCanonOK` (C12's subject): canonical text is a lexeme and canonicalising is idempotent. -/
theorem stringify_parse_canonical (N : NumCanon) (hN : NumCanonOK N) (t : Str) (v : JVal) (ht : WfStr t)
    (h : parse N t = some v) (gap : Str) (hg : AllWs gap) :
    parse N (stringify gap v) = some v ∧
      (parse N (stringify gap v)).map (stringify []) = some (stringify [] v) ∧
      (parse N (stringify [] v)).map (stringify []) = some (stringify [] v) := by
  have hn := parse_normal N hN ht h
  rw [parse_stringify N gap hg v hn, parse_stringify N [] (fun c hc => by cases hc) v hn]
  exact ⟨rfl, rfl, rfl⟩

/-- with the identity canonicaliser (what the driver runs; numbers compared as lexemes) no hypothesis is left -/
theorem stringify_parse_canonical_id (t : Str) (v : JVal) (ht : WfStr t) (h : parse NumCanon.id t = some v) :
    parse NumCanon.id (stringify [] v) = some v :=
  (stringify_parse_canonical NumCanon.id numCanonOK_id t v ht h [] (fun c hc => by cases hc)).1

/-- replacer allow-list (ECMA-262 §25.5.2 step 4.b + SerializeJSONObject step 5.a): stringify with the list is plain
    stringify of the value restricted, at every object level, to the listed keys in list order — ∀ values, lists, gaps. -/
theorem allowlist_is_projection (items : List Str) (gap : Str) (v : JVal) :
    stringifyPL items gap v = stringify gap (project (propList items) v) :=
  serP_eq_project (propList items) gap v []

/-- the PropertyList holds each listed item exactly once -/
theorem propList_spec (items : List Str) : (propList items).Nodup ∧ ∀ k, k ∈ propList items ↔ k ∈ items := by
  simpa [propList] using propList_aux items [] (by simp)

/-- and it parses back to that projection -/
theorem allowlist_roundtrip (items : List Str) (gap : Str) (hg : AllWs gap) (v : JVal)
    (hv : WfVal (project (propList items) v)) :
    parseRaw (stringifyPL items gap v) = some (project (propList items) v) := by
  rw [allowlist_is_projection]
  exact parseRaw_stringify gap hg _ hv

/-- mechanism level (Mech.lean: builtin_json.go str / ja / jo as written — one output buffer, a mutable `ctx.indent` that
    every container saves, extends and restores, separators written eagerly, `buf.Truncate` for members that turn out
    undefined and for objects that end up empty): it REFINES the specification.  For every value (with undefined /
    function leaves anywhere), every gap, every buffer content and every current indent, `str` appends exactly the text
    SerializeJSONProperty specifies for the cleaned value and leaves `ctx.indent` as it found it, or — value undefined —
    touches neither buffer nor indent and returns false.  (The indentation defect repaired by 2f63d0b falsified this.) -/
theorem stringify_mechanism_refines_spec (gap : Str) (v : MVal) (buf ind : Str) :
    strM gap v buf ind =
      match clean v with
      | some j => (buf ++ ser gap ind j, ind, true)
      | none => (buf, ind, false) :=
  mechOK gap v buf ind

/-- mechanism level (Boxed.lean: `str` with its unwrapping switch, builtin_json.go:311–353): Number / String / Boolean wrappers
    are unwrapped, a Symbol wrapper is serialised as an ordinary object ("{}", fix 149785e), non-finite numbers give
    null, and a BigInt — primitive or wrapper, at any depth — abandons the call with a TypeError; in every other case
    the result is the mechanism of Mech.lean on the unwrapped value, for every buffer and indent. -/
theorem boxed_mechanism_refines_spec (gap : Str) (v : BVal) (buf ind : Str) :
    strB gap v buf ind = if hasBig v then .typeError else okOf (strM gap (lower v) buf ind) :=
  boxOK gap v buf ind

/-- JSON.stringify on values with boxed primitives / BigInt: TypeError iff a BigInt is reachable, else undefined or the
    specified text of the unwrapped value -/
theorem stringify_boxed_bigint (gap : Str) (v : BVal) : stringifyB gap v = stringifyBSpec gap v :=
  stringifyB_eq_spec gap v

/-- mechanism level (Cycle.lean: builtin_json.go:374–381 — lookup in `ctx.stack`, push, deferred pop on every way out incl. the
    early `return false` for a callable): for every value with object identities (shared references, back-references,
    functions), every stack, buffer and indent: TypeError iff an object is reached while it is one of its own
    ancestors; otherwise the text mechanism of Mech.lean AND the stack handed back exactly as received.
    (The red-team change m2 — pop skipped for a callable — falsifies it.) -/
theorem cycle_detection_refines_spec (gap : Str) (v : CVal) (st : List Nat) (buf ind : Str) :
    strC gap v st buf ind = if cyc st v then .typeError else okC (strM gap (erase v) buf ind) st :=
  cycOK gap v st buf ind

/-- the same object twice among siblings is not a cycle (`[x, x]`) -/
theorem shared_reference_not_a_cycle (id : Nat) (x : CVal) (hx : cyc [id] x = false) :
    cyc [] (.arr id [x, x]) = false :=
  shared_reference_is_not_a_cycle id x hx

/-- Object.MarshalJSON (value.go:944: `ctx.do(o)`, "null" when `str` returned false) and JSON.stringify run the same
    mechanism: MarshalJSON's bytes are stringify's text, or "null" where stringify returns undefined … -/
theorem marshaljson_agrees_with_stringify (v : MVal) :
    marshalM v = match stringifyM [] v with | some t => t | none => [110, 117, 108, 108] :=
  marshalM_eq v

/-- … and that text is the specified one -/
theorem stringify_mechanism_top_level (gap : Str) (v : MVal) : stringifyM gap v = (clean v).map (stringify gap) :=
  stringifyM_eq gap v

/-- replacer function / toJSON, result substitution: for EVERY pair of hooks (stateful toJSON and replacer function),
    every state, holder, key, value, gap, indent and fuel, serialising with the hooks is plain serialisation of the
    rewritten value — toJSON result, then replacer result, substituted top-down; undefined members dropped, undefined
    elements → null — with exactly the same state threading (same calls in the same order). -/
theorem replacer_substitution {σ : Type} (H : Hooks σ) (gap ind : Str) (f : Nat) (s : σ) (h : JVal) (k : Str) (v : JVal) :
    serH H gap f ind s h k v = (rewH H f s h k v).map (fun p => (p.1, p.2.map (ser gap ind))) :=
  (serRew_all H gap f).1 ind s h k v

/-- replacer function, call order and arguments: the logging identity replacer `function(k,v){LOG.push([this,k]);return v}`
    is called once per property, in pre-order (a property before the properties of its value, elements by ascending
    index, members in key order), first for the root with key "" and holder `{"": value}`, every later call with the
    enclosing value as holder — and the text is the plain one.  ∀ values, gaps, initial logs, sufficient fuel. -/
theorem replacer_call_order (gap : Str) (v : JVal) (log : List (JVal × Str)) (f : Nat) (hf : need v ≤ f) :
    stringifyH logRepl gap f log v = some (log ++ preCalls (rootHolder v) [] v, some (stringify gap v)) := by
  unfold stringifyH
  rw [replacer_substitution, rew_log v (rootHolder v) [] log f hf]
  rfl

/-- without a replacer function and without toJSON the hook-aware serialiser is the plain one -/
theorem no_hooks_is_plain_stringify (gap : Str) (v : JVal) (f : Nat) (hf : need v ≤ f) :
    stringifyH noHooks gap f () v = some ((), some (stringify gap v)) := by
  unfold stringifyH
  rw [replacer_substitution, rew_none v (rootHolder v) [] f hf]
  rfl

/-- reviver walk (InternalizeJSONProperty): the identity reviver returns the parsed value unchanged … -/
theorem reviver_identity (k : Str) (v : JVal) : revive (fun _ x => some x) k v = some (emb v) :=
  revive_id_aux k v

/-- … a reviver is called exactly once per property, children before their holder (post-order), array elements by
    ascending index, members in key order, the root under the key "" last: the logging identity reviver produces
    exactly `calls k v`, for every value (unbounded nesting) and every initial log -/
theorem reviver_call_order (k : Str) (v : JVal) (log : List Str) :
    reviveS logId k v log = (log ++ calls k v, some (emb v)) :=
  reviveS_logId k v log

/-- … and the walk for a pure reviver is the stateful walk with a trivial state -/
theorem reviver_pure_is_stateless (R : Reviver) (k : Str) (v : JVal) :
    reviveS (σ := Unit) (fun _ k x => ((), R k x)) k v () = ((), revive R k v) :=
  reviveS_pure R k v

/-- revivers that edit their holder: a property that is a primitive, a hole or already deleted when its turn comes is
    handed to the reviver once with its CURRENT value (undefined if absent) -/
theorem reviver_current_value {σ : Type} (R : ReviverM σ) (f : Nat) (s : σ) (holder : RVal) (key : Str)
    (h : ∀ xs, rGet holder key ≠ some (.arr xs)) (h' : ∀ ms, rGet holder key ≠ some (.obj ms)) :
    walkM R (f + 1) s holder key = some (R s holder key (rGet holder key)) :=
  walkM_noncontainer R f s holder key h h'

/-- array-index keys are canonical: the decimal text of an index below 2^32 − 1 is recognised as that index -/
theorem index_key_canonical (n : Nat) (h : n < 4294967295) : idxOf (idxKey n) = some n :=
  idxOf_idxKey n h

/-- refinement between the two reviver models: for a reviver that never edits its holder, the editing walk
    (key snapshot, current values, write-back into the holder) gives exactly the state and the result of the stateful
    walk of Reviver.lean — for every value JSON.parse can build (distinct keys, arrays below 2^32 − 1 elements) -/
theorem reviver_editing_walk_refines_stateful_walk {σ : Type} (R : ReviverS σ) (v : JVal) (f : Nat) (s : σ)
    (hf : need v ≤ f) (ht : Tame v) : reviveRootM (liftM R) f s v = some (reviveS R [] v s) :=
  reviveRootM_lift R v f s hf ht

/-- … for every well-formed value and every list of 16-bit keys, with no further hypothesis -/
theorem allowlist_roundtrip_wf (items : List Str) (gap : Str) (hg : AllWs gap) (v : JVal) (hv : WfVal v)
    (hk : ∀ k ∈ items, WfStr k) :
    parseRaw (stringifyPL items gap v) = some (project (propList items) v) :=
  allowlist_roundtrip items gap hg v
    (project_wf (propList items) (fun k hk' => hk k ((propList_spec items).2 k |>.mp hk')) v hv)

/-- duplicate keys: the last value wins at the position of the first occurrence; "__proto__" is a key like any other -/
theorem upsert_existing (k : Str) (v v' : JVal) (pre post : List (Str × JVal)) (h : k ∉ keys pre) :
    upsert k v' (pre ++ (k, v) :: post) = pre ++ (k, v') :: post := by
  induction pre with
  | nil => simp [upsert]
  | cons p t ih =>
    obtain ⟨k', w⟩ := p
    have h1 : k' ≠ k := by intro e; apply h; simp [keys, e]
    have h2 : k ∉ keys t := by intro e; apply h; simp [keys] at e ⊢; exact Or.inr e
    simp [upsert, h1, ih h2]

/-- parse_total_decides: the parser is a total function and accepts EXACTLY the texts of the ECMA-404 grammar
    (`Text`/`Gram`: inductive relation over literals, numbers, strings, arrays, objects, white space), returning exactly
    the denoted tree.  Both directions, all value kinds, unbounded nesting. -/
theorem parse_total_decides (t : Str) (v : JVal) : parseRaw t = some v ↔ Text t v :=
  parseRaw_iff_text t v

/-- rejection is therefore exactly non-membership in the grammar -/
theorem parse_rejects_iff_not_text (t : Str) : parseRaw t = none ↔ ¬ ∃ v, Text t v := by
  constructor
  · intro h ⟨v, hv⟩
    rw [(parse_total_decides t v).mpr hv] at h
    cases h
  · intro h
    cases hp : parseRaw t with
    | none => rfl
    | some v => exact absurd ⟨v, (parse_total_decides t v).mp hp⟩ h

/-- mechanism level (Tok.lean: Go's `Decoder.Token` state machine driven by builtin_json.go's decodeValue / decodeToken /
    decodeArray / decodeObject / decodeObjectKey and the trailing-token check): it accepts exactly the grammar … -/
theorem tokenizer_delegation_accepts_exactly_grammar (t : Str) (v : JVal) : gojaParseRaw t = some v ↔ Text t v :=
  gojaParseRaw_iff_text t v

/-- … so it REFINES the spec-level parser: same result on every text (every token state, any nesting) -/
theorem tokenizer_delegation_refines_spec (t : Str) : gojaParseRaw t = parseRaw t :=
  gojaParseRaw_eq_parseRaw t

/-- which texts does the delegated tokenizer accept beyond ECMA-404?  None (on the code units it is given; the only
    difference of goja is the UTF-8 view of the text — lone surrogates become U+FFFD — handled as `fixText`) -/
theorem tokenizer_accepts_nothing_beyond_grammar : ¬ ∃ t v, gojaParseRaw t = some v ∧ ¬ Text t v := by
  rintro ⟨t, v, h, hn⟩
  exact hn (gojaParseRaw_sound h)

/-- the documented exception, formally: goja's JSON.parse (UTF-8 view of the text, token-stream parser, object building)
    IS the specified parse of the text in which raw lone surrogates and escaped surrogates outside an escaped pair are
    replaced by U+FFFD — nothing else differs -/
theorem goja_parse_is_spec_parse_of_utf8_view (N : NumCanon) (t : Str) : gojaParse N t = parse N (fixText t) :=
  gojaParse_eq N t

/-- … so on every text that the UTF-8 view leaves alone it is exactly JSON.parse -/
theorem goja_parse_exact_when_utf8_view_is_identity (N : NumCanon) (t : Str) (h : fixText t = t) :
    gojaParse N t = parse N t := by
  rw [gojaParse_eq, h]

/-- a text without surrogate code units is untouched by the first half of the view -/
theorem utf8_view_keeps_surrogate_free_units (t : Str) (h : ∀ u ∈ t, isHigh u = false ∧ isLow u = false) :
    fixLone t = t :=
  fixLone_id t h

/-- number tokens: the lexer's result is a lexeme of the number grammar and a prefix of the input … -/
theorem number_lexer_sound (s l r : Str) (h : parseNum s = some (l, r)) : NumGram l ∧ s = l ++ r :=
  parseNum_sound h

/-- … and every lexeme of the number grammar is lexed as itself in any context that ends a number -/
theorem number_lexer_complete (l rest : Str) (hl : NumGram l) (hs : Stop rest) : parseNum (l ++ rest) = some (l, rest) :=
  numGram_lexOK hl rest hs

/-- string tokens: lexer ⇔ string grammar `StrBody` (both directions) -/
theorem string_lexer_iff (s u r : Str) : parseStrBody s = some (u, r) ↔ ∃ b, StrBody b u ∧ s = b ++ 34 :: r := by
  constructor
  · exact parseStrBody_sound _ s (Nat.le_refl _) u r
  · rintro ⟨b, hb, rfl⟩
    exact strBody_complete hb r

/-- white space: only space, tab, LF, CR are skipped (NBSP, U+FEFF, form feed, vertical tab are not) -/
theorem isWs_exact (c : Nat) : isWs c = true ↔ (c = 32 ∨ c = 9 ∨ c = 10 ∨ c = 13) := by
  simp [isWs, or_assoc]

/-- raw control characters U+0000..U+001F inside a string token are rejected -/
theorem control_char_rejected (c : Nat) (r : Str) (h : c < 32) : parseStrBody (c :: r) = none := by
  have h1 : c ≠ 34 := by omega
  have h2 : c ≠ 92 := by omega
  simp [parseStrBody_cons, h1, h2, h]

/-! Hypotheses are satisfiable: concrete non-trivial normal value (tests on literals, not theorems about all inputs). -/
example : parseRaw [32, 91, 49, 44, 123, 34, 97, 34, 58, 110, 117, 108, 108, 125, 93] =
    some (.arr [.num [49], .obj [([97], .null)]]) := by rfl
example : stringify [32] (.arr [.arr [], .arr [.bool true]]) =
    [91, 10, 32, 91, 93, 44, 10, 32, 91, 10, 32, 32, 116, 114, 117, 101, 10, 32, 93, 10, 93] := by rfl
example : Normal NumCanon.id (.arr [.str [97, 0xD800], .null, .obj []]) := by
  simp [Normal, NormalL, NormalM, WfStr, KeysOK, keys, IdxSorted]

end GojaModel.C19
