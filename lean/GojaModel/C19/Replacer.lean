/-
  C19: SerializeJSONProperty with a replacer FUNCTION and toJSON (ECMA-262 §25.5.2.2 steps 2–3), as state
  transformers, so that call order, the holder / key arguments and the substitution of results are part of the model.

    builtin_json.go:289 str():  value := holder.get(key); toJSON (objects, BigInt) → replacerFunction(holder, key, value)
                                → unwrap → serialise (ja :397 / jo :435 recurse with the NEW value as holder)

  Values are plain data (`JVal`); `none` stands for undefined.  toJSON is modelled at prototype level: `hasTJ v` says
  whether GetV(v, "toJSON") is callable for the container `v` (e.g. Array.prototype.toJSON / Object.prototype.toJSON).
-/
import GojaModel.C19.AllowList
import GojaModel.C19.Reviver

namespace GojaModel.C19

structure Hooks (σ : Type) where
  /-- GetV(value, "toJSON") is callable (asked for arrays and objects only: primitives other than BigInt never are) -/
  hasTJ : JVal → Bool
  /-- Call(toJSON, value, «key») — `this` is the value -/
  toJSON : σ → Str → JVal → σ × Option JVal
  /-- Call(ReplacerFunction, holder, «key, value») — `this` is the holder; the value may be undefined -/
  repl : Option (σ → JVal → Str → Option JVal → σ × Option JVal)

def isContainer : JVal → Bool
  | .arr _ => true
  | .obj _ => true
  | _ => false

/-- steps 2 and 3 of SerializeJSONProperty: toJSON, then the replacer function -/
def pre {σ : Type} (H : Hooks σ) (s : σ) (holder : JVal) (key : Str) (value : JVal) : σ × Option JVal :=
  let a : σ × Option JVal := if isContainer value && H.hasTJ value then H.toJSON s key value else (s, some value)
  match H.repl with
  | some R => R a.1 holder key a.2
  | none => a

def nullText : Str := [110, 117, 108, 108]

def joinElems (gap ind ind' : Str) : List Str → Str
  | [] => nl gap ind ++ [93]
  | x :: t => x ++ (sepIf (!t.isEmpty) gap ind' ++ joinElems gap ind ind' t)

def assembleArr (gap ind : Str) (parts : List Str) : Str :=
  if parts.isEmpty then [91, 93] else 91 :: (nl gap (ind ++ gap) ++ joinElems gap ind (ind ++ gap) parts)

mutual
/-- SerializeJSONProperty(state, key, holder) where holder[key] = value; outer `none` = out of fuel (the walk of a
    replacer that keeps producing new containers does not terminate in JavaScript either) -/
def serH {σ : Type} (H : Hooks σ) (gap : Str) : Nat → Str → σ → JVal → Str → JVal → Option (σ × Option Str)
  | 0, _, _, _, _, _ => none
  | f + 1, ind, s, holder, key, value =>
    match (pre H s holder key value).2 with
    | none => some ((pre H s holder key value).1, none)
    | some (.arr xs) =>
      (match serElemsH H gap f (ind ++ gap) (pre H s holder key value).1 (.arr xs) 0 xs with
       | some (s3, parts) => some (s3, some (assembleArr gap ind parts))
       | none => none)
    | some (.obj ms) =>
      (match serMembersH H gap f (ind ++ gap) (pre H s holder key value).1 (.obj ms) ms with
       | some (s3, parts) => some (s3, some (assembleObj gap ind parts))
       | none => none)
    | some x => some ((pre H s holder key value).1, some (ser gap ind x))
/-- SerializeJSONArray: every index in ascending order; undefined ⇒ "null" -/
def serElemsH {σ : Type} (H : Hooks σ) (gap : Str) : Nat → Str → σ → JVal → Nat → List JVal → Option (σ × List Str)
  | _, _, s, _, _, [] => some (s, [])
  | 0, _, _, _, _, _ :: _ => none
  | f + 1, ind', s, h, i, v :: t =>
    match serH H gap f ind' s h (idxKey i) v with
    | none => none
    | some (s1, o) =>
      match serElemsH H gap f ind' s1 h (i + 1) t with
      | none => none
      | some (s2, parts) => some (s2, (match o with | some x => x | none => nullText) :: parts)
/-- SerializeJSONObject: every key in order; undefined ⇒ the member is left out -/
def serMembersH {σ : Type} (H : Hooks σ) (gap : Str) : Nat → Str → σ → JVal → List (Str × JVal) → Option (σ × List (Str × Str))
  | _, _, s, _, [] => some (s, [])
  | 0, _, _, _, _ :: _ => none
  | f + 1, ind', s, h, (k, v) :: t =>
    match serH H gap f ind' s h k v with
    | none => none
    | some (s1, o) =>
      match serMembersH H gap f ind' s1 h t with
      | none => none
      | some (s2, parts) => some (s2, match o with | some x => (k, x) :: parts | none => parts)
end

/-- the wrapper object `{"": value}` that is the holder of the root -/
def rootHolder (v : JVal) : JVal := .obj [([], v)]

/-- JSON.stringify(value, replacerFunction, gap) with toJSON hooks -/
def stringifyH {σ : Type} (H : Hooks σ) (gap : Str) (fuel : Nat) (s : σ) (v : JVal) : Option (σ × Option Str) :=
  serH H gap fuel [] s (rootHolder v) [] v

/-! the same walk producing the VALUE that ends up serialised (results substituted, undefined members dropped,
    undefined elements → null) -/

mutual
def rewH {σ : Type} (H : Hooks σ) : Nat → σ → JVal → Str → JVal → Option (σ × Option JVal)
  | 0, _, _, _, _ => none
  | f + 1, s, holder, key, value =>
    match (pre H s holder key value).2 with
    | none => some ((pre H s holder key value).1, none)
    | some (.arr xs) =>
      (match rewElemsH H f (pre H s holder key value).1 (.arr xs) 0 xs with
       | some (s3, ys) => some (s3, some (.arr ys))
       | none => none)
    | some (.obj ms) =>
      (match rewMembersH H f (pre H s holder key value).1 (.obj ms) ms with
       | some (s3, ns) => some (s3, some (.obj ns))
       | none => none)
    | some x => some ((pre H s holder key value).1, some x)
def rewElemsH {σ : Type} (H : Hooks σ) : Nat → σ → JVal → Nat → List JVal → Option (σ × List JVal)
  | _, s, _, _, [] => some (s, [])
  | 0, _, _, _, _ :: _ => none
  | f + 1, s, h, i, v :: t =>
    match rewH H f s h (idxKey i) v with
    | none => none
    | some (s1, o) =>
      match rewElemsH H f s1 h (i + 1) t with
      | none => none
      | some (s2, ys) => some (s2, (match o with | some x => x | none => .null) :: ys)
def rewMembersH {σ : Type} (H : Hooks σ) : Nat → σ → JVal → List (Str × JVal) → Option (σ × List (Str × JVal))
  | _, s, _, [] => some (s, [])
  | 0, _, _, _ :: _ => none
  | f + 1, s, h, (k, v) :: t =>
    match rewH H f s h k v with
    | none => none
    | some (s1, o) =>
      match rewMembersH H f s1 h t with
      | none => none
      | some (s2, ns) => some (s2, match o with | some x => (k, x) :: ns | none => ns)
end

/-! the calls of the replacer function, in order: (holder, key) — pre-order: a property before the properties of its value -/

mutual
def preCalls : JVal → Str → JVal → List (JVal × Str)
  | h, k, .arr xs => (h, k) :: preCallsElems (.arr xs) 0 xs
  | h, k, .obj ms => (h, k) :: preCallsMembers (.obj ms) ms
  | h, k, _ => [(h, k)]
def preCallsElems : JVal → Nat → List JVal → List (JVal × Str)
  | _, _, [] => []
  | h, i, v :: t => preCalls h (idxKey i) v ++ preCallsElems h (i + 1) t
def preCallsMembers : JVal → List (Str × JVal) → List (JVal × Str)
  | _, [] => []
  | h, (k, v) :: t => preCalls h k v ++ preCallsMembers h t
end

/-- `function(k, v){ LOG.push([this, k]); return v }` and no toJSON anywhere -/
def logRepl : Hooks (List (JVal × Str)) :=
  { hasTJ := fun _ => false
    toJSON := fun s _ v => (s, some v)
    repl := some (fun log h k v => (log ++ [(h, k)], v)) }

/-- no replacer function, no toJSON -/
def noHooks : Hooks Unit :=
  { hasTJ := fun _ => false, toJSON := fun s _ v => (s, some v), repl := none }

end GojaModel.C19
