/-
  C19, mechanism level: the cycle detection of `str` (builtin_json.go:374–381) — every *Object that reaches the final type
  switch is looked up in `ctx.stack` (TypeError "Converting circular structure to JSON" if present), pushed, and popped
  again by the deferred function on EVERY way out, including the early `return false` for a callable.

  Values carry object identities (`id`); the same identity may occur several times (shared references) and on its own
  path (a back-reference, i.e. a cycle, which the walk never enters).  Leaves carry their text.
  Specification (ECMA-262 §25.5.2.4/5 step 1): TypeError iff a container is reached while it is one of its own
  ancestors — siblings and earlier subtrees never count.
-/
import GojaModel.C19.Mech

namespace GojaModel.C19

inductive CVal where
  | undef
  | leaf (text : Str)                       -- null / boolean / number / string: `str` appends this text
  | fn (id : Nat)                           -- a callable object: pushed, `return false`, popped
  | arr (id : Nat) (xs : List CVal)
  | obj (id : Nat) (ms : List (Str × CVal))

inductive CRes where
  | ok (buf ind : Str) (b : Bool) (stack : List Nat)
  | typeError

inductive CLoop where
  | ok (buf ind : Str) (stack : List Nat)
  | typeError

inductive CLoopO where
  | ok (buf ind : Str) (empty : Bool) (stack : List Nat)
  | typeError

mutual
/-- `str` from the final type switch on: stack check, push, serialise, pop (the deferred function) -/
def strC (gap : Str) : CVal → List Nat → Str → Str → CRes
  | .undef, st, buf, ind => .ok buf ind false st
  | .leaf t, st, buf, ind => .ok (buf ++ t) ind true st
  | .fn id, st, buf, ind =>
    if st.contains id then .typeError
    else .ok buf ind false (id :: st).tail                      -- push; callable ⇒ return false; deferred pop
  | .arr id xs, st, buf, ind =>
    if st.contains id then .typeError
    else if xs.isEmpty then .ok (buf ++ [91, 93]) ind true (id :: st).tail
    else
      match jaLoopC gap (44 :: nl gap (ind ++ gap)) xs (id :: st) (buf ++ (91 :: nl gap (ind ++ gap))) (ind ++ gap) with
      | .ok b _ st' => .ok (b ++ (nl gap ind ++ [93])) ind true st'.tail
      | .typeError => .typeError
  | .obj id ms, st, buf, ind =>
    if st.contains id then .typeError
    else
      match joLoopC gap (44 :: nl gap (ind ++ gap)) ms (id :: st) (buf ++ (123 :: nl gap (ind ++ gap))) (ind ++ gap) true with
      | .ok b _ empty st' => .ok (if empty then (buf ++ [123]) ++ [125] else b ++ (nl gap ind ++ [125])) ind true st'.tail
      | .typeError => .typeError
def jaLoopC (gap sep : Str) : List CVal → List Nat → Str → Str → CLoop
  | [], st, buf, ind => .ok buf ind st
  | v :: t, st, buf, ind =>
    match strC gap v st buf ind with
    | .ok b i okv st' =>
      jaLoopC gap sep t st' ((if okv then b else b ++ [110, 117, 108, 108]) ++ (if t.isEmpty then [] else sep)) i
    | .typeError => .typeError
def joLoopC (gap sep : Str) : List (Str × CVal) → List Nat → Str → Str → Bool → CLoopO
  | [], st, buf, ind, empty => .ok buf ind empty st
  | (k, v) :: t, st, buf, ind, empty =>
    match strC gap v st (buf ++ ((if empty then [] else sep) ++ (quote k ++ colon gap))) ind with
    | .ok b i okv st' => if okv then joLoopC gap sep t st' b i false else joLoopC gap sep t st' (b.take buf.length) i empty
    | .typeError => .typeError
end

/-! specification -/

mutual
/-- is some object reached while it is among its own ancestors `anc`? -/
def cyc (anc : List Nat) : CVal → Bool
  | .fn id => anc.contains id
  | .arr id xs => anc.contains id || cycL (id :: anc) xs
  | .obj id ms => anc.contains id || cycM (id :: anc) ms
  | _ => false
def cycL (anc : List Nat) : List CVal → Bool
  | [] => false
  | v :: t => cyc anc v || cycL anc t
def cycM (anc : List Nat) : List (Str × CVal) → Bool
  | [] => false
  | (_, v) :: t => cyc anc v || cycM anc t
end

mutual
/-- forget the identities (a leaf's text is carried verbatim, as `MVal.num` does) -/
def erase : CVal → MVal
  | .undef => .undef
  | .leaf t => .num t
  | .fn _ => .undef
  | .arr _ xs => .arr (eraseL xs)
  | .obj _ ms => .obj (eraseM ms)
def eraseL : List CVal → List MVal
  | [] => []
  | v :: t => erase v :: eraseL t
def eraseM : List (Str × CVal) → List (Str × MVal)
  | [] => []
  | (k, v) :: t => (k, erase v) :: eraseM t
end

end GojaModel.C19
