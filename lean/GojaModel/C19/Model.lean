/-
  C19 — JSON.parse / JSON.stringify.  Executable spec-level model (core Lean only).

  * texts and strings are lists of UTF-16 code units (`Nat`, `< 65536` where it matters);
  * `parseRaw`  : the ECMA-404 grammar as a total recursive-descent parser producing the syntactic tree `JVal`
                  (a number is kept as its lexeme);
  * `build`     : the ECMAScript object-building semantics of JSON.parse (ECMA-262 §25.5.1, InternalizeJSONProperty
                  aside): duplicate keys — last value wins at the position of the first occurrence
                  (CreateDataProperty on an existing key keeps its position), "__proto__" is an ordinary key,
                  key order = array-index keys ascending, then the other keys in insertion order
                  (OrdinaryOwnPropertyKeys); numbers are mapped to their canonical text by an abstract `NumCanon`;
  * `ser`       : SerializeJSONProperty / SerializeJSONArray / SerializeJSONObject / QuoteJSONString of ECMA-262
                  §25.5.2 for JSON-representable values, with gap and indent;
  * `gapOfNumber`, `gapOfString` : the clamping of the `space` argument;
  * `decToBits` : exact decimal → IEEE double (round to nearest even), used by the driver to print numbers as bit
                  patterns (number text ↔ double is C12's subject; no theorem here depends on it).

  goja anchors: builtin_json.go:20 builtinJSON_parse (delegates tokenising to encoding/json),
  :190 builtinJSON_stringify, :289 str, :397 ja, :435 jo, :493 quote.
-/
namespace GojaModel.C19

abbrev Str := List Nat

inductive JVal where
  | null
  | bool (b : Bool)
  | num (lex : Str)
  | str (s : Str)
  | arr (xs : List JVal)
  | obj (ms : List (Str × JVal))

/-! ## Lexical level -/

/-- ECMA-404 white space: space, tab, LF, CR — nothing else. -/
def isWs (c : Nat) : Bool := c == 32 || c == 9 || c == 10 || c == 13

def skipWs : Str → Str
  | [] => []
  | c :: r => if isWs c then skipWs r else c :: r

def isDigit (c : Nat) : Bool := 48 ≤ c && c ≤ 57

def hexVal (c : Nat) : Option Nat :=
  if 48 ≤ c ∧ c ≤ 57 then some (c - 48)
  else if 97 ≤ c ∧ c ≤ 102 then some (c - 87)
  else if 65 ≤ c ∧ c ≤ 70 then some (c - 55)
  else none

def hex4Val (a b c d : Nat) : Option Nat :=
  match hexVal a, hexVal b, hexVal c, hexVal d with
  | some x, some y, some z, some w => some (x * 4096 + y * 256 + z * 16 + w)
  | _, _, _, _ => none

/-- single-character escapes `\" \\ \/ \b \f \n \r \t` -/
def simpleEsc (e : Nat) : Option Nat :=
  if e = 34 then some 34 else if e = 92 then some 92 else if e = 47 then some 47
  else if e = 98 then some 8 else if e = 102 then some 12 else if e = 110 then some 10
  else if e = 114 then some 13 else if e = 116 then some 9 else none

def cons1 (c : Nat) : Option (Str × Str) → Option (Str × Str)
  | some (u, r) => some (c :: u, r)
  | none => none

/-- Body of a string token after the opening quote: decoded units and the rest after the closing quote.
    Raw units below U+0020 are rejected; every other unit (including lone surrogates) stands for itself. -/
def parseStrBody : Str → Option (Str × Str)
  | [] => none
  | c :: r =>
    if c = 34 then some ([], r)
    else if c = 92 then
      match r with
      | [] => none
      | e :: r2 =>
        if e = 117 then
          match r2 with
          | a :: b :: c' :: d :: r3 =>
            match hex4Val a b c' d with
            | some u => cons1 u (parseStrBody r3)
            | none => none
          | _ => none
        else
          match simpleEsc e with
          | some u => cons1 u (parseStrBody r2)
          | none => none
    else if c < 32 then none
    else cons1 c (parseStrBody r)

/-- longest prefix of digits, and the rest -/
def takeDigits : Str → Str × Str
  | [] => ([], [])
  | c :: r => if isDigit c then (c :: (takeDigits r).1, (takeDigits r).2) else ([], c :: r)

/-- integer part: `0` or `[1-9][0-9]*` -/
def parseInt : Str → Option (Str × Str)
  | [] => none
  | c :: r =>
    if c = 48 then some ([48], r)
    else if 49 ≤ c ∧ c ≤ 57 then some (c :: (takeDigits r).1, (takeDigits r).2)
    else none

/-- optional fraction `.[0-9]+` -/
def parseFrac : Str → Option (Str × Str)
  | 46 :: r => if (takeDigits r).1 = [] then none else some (46 :: (takeDigits r).1, (takeDigits r).2)
  | s => some ([], s)

def parseExpDigits (pre : Str) (r : Str) : Option (Str × Str) :=
  if (takeDigits r).1 = [] then none else some (pre ++ (takeDigits r).1, (takeDigits r).2)

/-- optional exponent `[eE][+-]?[0-9]+` -/
def parseExp : Str → Option (Str × Str)
  | [] => some ([], [])
  | e :: r =>
    if e = 101 ∨ e = 69 then
      match r with
      | s :: r2 => if s = 43 ∨ s = 45 then parseExpDigits [e, s] r2 else parseExpDigits [e] r
      | [] => none
    else some ([], e :: r)

def parseUnsigned (s : Str) : Option (Str × Str) :=
  match parseInt s with
  | none => none
  | some (i, r1) =>
    match parseFrac r1 with
    | none => none
    | some (f, r2) =>
      match parseExp r2 with
      | none => none
      | some (e, r3) => some (i ++ f ++ e, r3)

/-- number token (maximal munch): lexeme and rest. -/
def parseNum : Str → Option (Str × Str)
  | 45 :: r => cons1 45 (parseUnsigned r)
  | s => parseUnsigned s

/-- `matchLit lit s` = rest of `s` after the literal. -/
def matchLit : Str → Str → Option Str
  | [], s => some s
  | _ :: _, [] => none
  | a :: l, c :: r => if a = c then matchLit l r else none

/-! ## The recursive-descent parser (fuel = bound on recursion depth; `parseRaw` supplies enough) -/

mutual
/-- a value, leading white space allowed, trailing white space not consumed -/
def parseValue : Nat → Str → Option (JVal × Str)
  | 0, _ => none
  | f + 1, s =>
    match skipWs s with
    | [] => none
    | c :: r =>
      if c = 110 then (match matchLit [117, 108, 108] r with | some r' => some (.null, r') | none => none)
      else if c = 116 then (match matchLit [114, 117, 101] r with | some r' => some (.bool true, r') | none => none)
      else if c = 102 then (match matchLit [97, 108, 115, 101] r with | some r' => some (.bool false, r') | none => none)
      else if c = 34 then (match parseStrBody r with | some (u, r') => some (.str u, r') | none => none)
      else if c = 91 then
        (match skipWs r with
         | 93 :: r' => some (.arr [], r')
         | _ => match parseElems f r with
                | some (xs, r') => some (.arr xs, r')
                | none => none)
      else if c = 123 then
        (match skipWs r with
         | 125 :: r' => some (.obj [], r')
         | _ => match parseMembers f r with
                | some (ms, r') => some (.obj ms, r')
                | none => none)
      else
        (match parseNum (c :: r) with
         | some (l, r') => some (.num l, r')
         | none => none)
/-- non-empty element list up to and including the closing bracket -/
def parseElems : Nat → Str → Option (List JVal × Str)
  | 0, _ => none
  | f + 1, s =>
    match parseValue f s with
    | none => none
    | some (v, r) =>
      match skipWs r with
      | c :: r2 =>
        if c = 44 then
          (match parseElems f r2 with
           | some (t, r3) => some (v :: t, r3)
           | none => none)
        else if c = 93 then some ([v], r2)
        else none
      | [] => none
/-- non-empty member list up to and including the closing brace -/
def parseMembers : Nat → Str → Option (List (Str × JVal) × Str)
  | 0, _ => none
  | f + 1, s =>
    match skipWs s with
    | 34 :: r =>
      (match parseStrBody r with
       | none => none
       | some (k, r1) =>
         match skipWs r1 with
         | 58 :: r2 =>
           (match parseValue f r2 with
            | none => none
            | some (v, r3) =>
              match skipWs r3 with
              | c :: r4 =>
                if c = 44 then
                  (match parseMembers f r4 with
                   | some (t, r5) => some ((k, v) :: t, r5)
                   | none => none)
                else if c = 125 then some ([(k, v)], r4)
                else none
              | [] => none)
         | _ => none)
    | _ => none
end

/-- JSON text → syntactic tree; `none` = SyntaxError. -/
def parseRaw (t : Str) : Option JVal :=
  match parseValue (t.length + 1) t with
  | some (v, r) => if skipWs r = [] then some v else none
  | none => none

/-! ## Object building (ECMAScript semantics of the parsed tree) -/

/-- abstract "canonical number text" (Number::toString ∘ StringToNumber on JSON number lexemes) — C12's subject. -/
structure NumCanon where
  canon : Str → Str

def NumCanon.id : NumCanon := ⟨fun l => l⟩

def digitsVal : Str → Nat → Nat
  | [], acc => acc
  | c :: r, acc => digitsVal r (acc * 10 + (c - 48))

/-- canonical array index: "0" or [1-9][0-9]* with value < 2^32 - 1 -/
def idxOf (k : Str) : Option Nat :=
  match k with
  | [] => none
  | c :: r =>
    if k.all isDigit && (c != 48 || r.isEmpty) && k.length ≤ 10 then
      (if digitsVal k 0 < 4294967295 then some (digitsVal k 0) else none)
    else none

def isIdx (p : Str × JVal) : Bool := (idxOf p.1).isSome
def idxVal (p : Str × JVal) : Nat := (idxOf p.1).getD 0

/-- CreateDataProperty in insertion order: an existing key keeps its position and gets the new value -/
def upsert (k : Str) (v : JVal) : List (Str × JVal) → List (Str × JVal)
  | [] => [(k, v)]
  | (k', v') :: t => if k' = k then (k', v) :: t else (k', v') :: upsert k v t

def dedupe (ms : List (Str × JVal)) : List (Str × JVal) :=
  ms.foldl (fun acc p => upsert p.1 p.2 acc) []

def insIdx (a : Str × JVal) : List (Str × JVal) → List (Str × JVal)
  | [] => [a]
  | b :: t => if idxVal a ≤ idxVal b then a :: b :: t else b :: insIdx a t

def sortIdx : List (Str × JVal) → List (Str × JVal)
  | [] => []
  | a :: t => insIdx a (sortIdx t)

/-- OrdinaryOwnPropertyKeys: array indices ascending, then strings in insertion order -/
def orderKeys (ms : List (Str × JVal)) : List (Str × JVal) :=
  sortIdx (ms.filter isIdx) ++ ms.filter (fun p => !isIdx p)

mutual
def build (N : NumCanon) : JVal → JVal
  | .null => .null
  | .bool b => .bool b
  | .num l => .num (N.canon l)
  | .str s => .str s
  | .arr xs => .arr (buildList N xs)
  | .obj ms => .obj (orderKeys (dedupe (buildMembers N ms)))
def buildList (N : NumCanon) : List JVal → List JVal
  | [] => []
  | v :: t => build N v :: buildList N t
def buildMembers (N : NumCanon) : List (Str × JVal) → List (Str × JVal)
  | [] => []
  | (k, v) :: t => (k, build N v) :: buildMembers N t
end

/-- JSON.parse without reviver -/
def parse (N : NumCanon) (t : Str) : Option JVal :=
  match parseRaw t with
  | some v => some (build N v)
  | none => none

/-! ## QuoteJSONString -/

def hexd (d : Nat) : Nat := if d < 10 then 48 + d else 87 + d

def escU (u : Nat) : Str :=
  [92, 117, hexd (u / 4096 % 16), hexd (u / 256 % 16), hexd (u / 16 % 16), hexd (u % 16)]

def isHigh (u : Nat) : Bool := 0xD800 ≤ u && u ≤ 0xDBFF
def isLow (u : Nat) : Bool := 0xDC00 ≤ u && u ≤ 0xDFFF

/-- one code unit that is not part of a surrogate pair -/
def escOne (c : Nat) : Str :=
  if c = 34 then [92, 34] else if c = 92 then [92, 92]
  else if c = 8 then [92, 98] else if c = 9 then [92, 116] else if c = 10 then [92, 110]
  else if c = 12 then [92, 102] else if c = 13 then [92, 114]
  else if c < 32 then escU c
  else if isHigh c || isLow c then escU c
  else [c]

def quoteBody : Str → Str
  | [] => []
  | [h] => escOne h
  | h :: l :: r =>
    if isHigh h && isLow l then h :: l :: quoteBody r else escOne h ++ quoteBody (l :: r)
termination_by s => s.length

def quote (s : Str) : Str := 34 :: (quoteBody s ++ [34])

/-! ## Serialisation with gap / indent (SerializeJSONProperty for JSON-representable values) -/

/-- "\n" ++ indent when a gap is in use, nothing otherwise -/
def nl (gap ind : Str) : Str := if gap = [] then [] else 10 :: ind
def colon (gap : Str) : Str := if gap = [] then [58] else [58, 32]

def sepIf (nonLast : Bool) (gap ind' : Str) : Str := if nonLast then 44 :: nl gap ind' else []

mutual
def ser (gap ind : Str) : JVal → Str
  | .null => [110, 117, 108, 108]
  | .bool true => [116, 114, 117, 101]
  | .bool false => [102, 97, 108, 115, 101]
  | .num l => l
  | .str s => quote s
  | .arr xs =>
    if xs.isEmpty then [91, 93]
    else 91 :: (nl gap (ind ++ gap) ++ serElems gap ind (ind ++ gap) xs)
  | .obj ms =>
    if ms.isEmpty then [123, 125]
    else 123 :: (nl gap (ind ++ gap) ++ serMembers gap ind (ind ++ gap) ms)
/-- elements at indent `ind'` separated by "," (+ newline and indent), then the closing bracket at indent `ind` -/
def serElems (gap ind ind' : Str) : List JVal → Str
  | [] => nl gap ind ++ [93]
  | v :: t => ser gap ind' v ++ (sepIf (!t.isEmpty) gap ind' ++ serElems gap ind ind' t)
def serMembers (gap ind ind' : Str) : List (Str × JVal) → Str
  | [] => nl gap ind ++ [125]
  | (k, v) :: t =>
    quote k ++ (colon gap ++ (ser gap ind' v ++ (sepIf (!t.isEmpty) gap ind' ++ serMembers gap ind ind' t)))
end

/-- `space` is a Number: min(10, ToIntegerOrInfinity(space)) spaces (argument already truncated to a Nat; negative = 0) -/
def gapOfNumber (n : Nat) : Str := List.replicate (min n 10) 32
/-- `space` is a String: its first 10 code units -/
def gapOfString (s : Str) : Str := s.take 10

def stringify (gap : Str) (v : JVal) : Str := ser gap [] v

/-! ## Replacer allow-list (PropertyList) for JSON-representable values — ECMA-262 §25.5.2 step 4.b, SerializeJSONObject step 5 -/

/-- PropertyList: the items in order, first occurrence of each only -/
def propList (items : List Str) : List Str :=
  items.foldl (fun acc k => if acc.contains k then acc else acc ++ [k]) []

def lookupText (k : Str) : List (Str × Str) → Option Str
  | [] => none
  | (k', x) :: t => if k' = k then some x else lookupText k t

/-- "__proto__" -/
def protoKey : Str := [95, 95, 112, 114, 111, 116, 111, 95, 95]

/-- SerializeJSONProperty reads the member with [[Get]], which also sees inherited properties.  For the plain objects
    of the model (prototype %Object.prototype%) the only inherited property that serialises is the accessor
    `__proto__`: it yields %Object.prototype%, an object whose own `__proto__` accessor yields null and whose other
    properties are functions (skipped).  `protoText` is the text of that object under the same allow-list. -/
def selectTexts (protoText : Str) : List Str → List (Str × Str) → List (Str × Str)
  | [], _ => []
  | k :: pl, mt =>
    match lookupText k mt with
    | some x => (k, x) :: selectTexts protoText pl mt
    | none => if k = protoKey then (k, protoText) :: selectTexts protoText pl mt else selectTexts protoText pl mt

/-- `"key":` (+ space) `text`, separated by "," (+ newline, indent), closed by the brace at indent `ind` -/
def joinMembers (gap ind ind' : Str) : List (Str × Str) → Str
  | [] => nl gap ind ++ [125]
  | (k, x) :: t => quote k ++ (colon gap ++ (x ++ (sepIf (!t.isEmpty) gap ind' ++ joinMembers gap ind ind' t)))

def assembleObj (gap ind : Str) (parts : List (Str × Str)) : Str :=
  if parts.isEmpty then [123, 125] else 123 :: (nl gap (ind ++ gap) ++ joinMembers gap ind (ind ++ gap) parts)

mutual
/-- SerializeJSONProperty with a PropertyList `pl` -/
def serP (pl : List Str) (gap ind : Str) : JVal → Str
  | .null => [110, 117, 108, 108]
  | .bool true => [116, 114, 117, 101]
  | .bool false => [102, 97, 108, 115, 101]
  | .num l => l
  | .str s => quote s
  | .arr xs =>
    if xs.isEmpty then [91, 93]
    else 91 :: (nl gap (ind ++ gap) ++ serElemsP pl gap ind (ind ++ gap) xs)
  | .obj ms =>
    assembleObj gap ind
      (selectTexts (assembleObj gap (ind ++ gap) [(protoKey, [110, 117, 108, 108])]) pl (memberTexts pl gap (ind ++ gap) ms))
def serElemsP (pl : List Str) (gap ind ind' : Str) : List JVal → Str
  | [] => nl gap ind ++ [93]
  | v :: t => serP pl gap ind' v ++ (sepIf (!t.isEmpty) gap ind' ++ serElemsP pl gap ind ind' t)
/-- text of every member value (SerializeJSONProperty(P, value) for the keys the object has) -/
def memberTexts (pl : List Str) (gap ind' : Str) : List (Str × JVal) → List (Str × Str)
  | [] => []
  | (k, v) :: t => (k, serP pl gap ind' v) :: memberTexts pl gap ind' t
end

def stringifyPL (items : List Str) (gap : Str) (v : JVal) : Str := serP (propList items) gap [] v

/-! the same as a projection of the value -/

def lookupKey (k : Str) : List (Str × JVal) → Option JVal
  | [] => none
  | (k', v) :: t => if k' = k then some v else lookupKey k t

/-- %Object.prototype% as seen through an allow-list that contains "__proto__" -/
def protoProj : JVal := .obj [(protoKey, .null)]

def selectMembers : List Str → List (Str × JVal) → List (Str × JVal)
  | [], _ => []
  | k :: pl, ms =>
    match lookupKey k ms with
    | some v => (k, v) :: selectMembers pl ms
    | none => if k = protoKey then (k, protoProj) :: selectMembers pl ms else selectMembers pl ms

mutual
/-- the value restricted, at every object level, to the keys of the list, in list order -/
def project (pl : List Str) : JVal → JVal
  | .null => .null
  | .bool b => .bool b
  | .num l => .num l
  | .str s => .str s
  | .arr xs => .arr (projectList pl xs)
  | .obj ms => .obj (selectMembers pl (projectMembers pl ms))
def projectList (pl : List Str) : List JVal → List JVal
  | [] => []
  | v :: t => project pl v :: projectList pl t
def projectMembers (pl : List Str) : List (Str × JVal) → List (Str × JVal)
  | [] => []
  | (k, v) :: t => (k, project pl v) :: projectMembers pl t
end

/-! ## Exact decimal → double (driver only) -/

structure Dec where
  neg : Bool
  mant : Nat
  exp : Int

def splitAt (p : Nat → Bool) : Str → Str × Str
  | [] => ([], [])
  | c :: r => if p c then ([], c :: r) else (c :: (splitAt p r).1, (splitAt p r).2)

/-- decode a valid number lexeme -/
def decode (l : Str) : Dec :=
  let (neg, l1) := match l with | 45 :: r => (true, r) | _ => (false, l)
  let (mantPart, expPart) := splitAt (fun c => c == 101 || c == 69) l1
  let (ip, fp0) := splitAt (fun c => c == 46) mantPart
  let fp := fp0.drop 1
  -- exponent digits without leading zeros; more than 30 significant digits: the sign of the exponent decides alone
  let expMag (ds : Str) : Int :=
    let sig := ds.dropWhile (· == 48)
    if sig.length > 30 then (10 : Int) ^ 30 else Int.ofNat (digitsVal sig 0)
  let e : Int := match expPart with
    | _ :: 45 :: ds => - expMag ds
    | _ :: 43 :: ds => expMag ds
    | _ :: ds => expMag ds
    | [] => 0
  { neg := neg, mant := digitsVal (ip ++ fp) 0, exp := e - Int.ofNat fp.length }

def numDigits (n : Nat) : Nat := (Nat.toDigits 10 n).length

/-- round-half-even quotient of a / b (b > 0) -/
def divRne (a b : Nat) : Nat :=
  let q := a / b
  let r := a % b
  if 2 * r < b then q else if 2 * r > b then q + 1 else (if q % 2 == 0 then q else q + 1)

def decToBits (d : Dec) : Nat :=
  let sign : Nat := if d.neg then 2 ^ 63 else 0
  let inf : Nat := 0x7FF0000000000000
  if d.mant == 0 then sign
  else
    let nd : Int := Int.ofNat (numDigits d.mant)
    if d.exp + nd > 320 then sign + inf
    else if d.exp + nd < -340 then sign
    else
      let num : Nat := if d.exp ≥ 0 then d.mant * 10 ^ d.exp.toNat else d.mant
      let den : Nat := if d.exp ≥ 0 then 1 else 10 ^ (-d.exp).toNat
      -- E = floor(log2(num/den))
      let est : Int := Int.ofNat num.log2 - Int.ofNat den.log2
      let ge (e : Int) : Bool := if e ≥ 0 then num ≥ den * 2 ^ e.toNat else num * 2 ^ (-e).toNat ≥ den
      let E : Int := if ge est then est else est - 1
      let ulp : Int := if E - 52 < -1074 then -1074 else E - 52
      let m : Nat := if ulp ≥ 0 then divRne num (den * 2 ^ ulp.toNat) else divRne (num * 2 ^ (-ulp).toNat) den
      let bits : Nat := (ulp + 1074).toNat * 2 ^ 52 + m
      if bits ≥ inf then sign + inf else sign + bits

def lexToBits (l : Str) : Nat := decToBits (decode l)

end GojaModel.C19
