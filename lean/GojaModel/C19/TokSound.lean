/-
  C19: mechanism ⇒ grammar for the token-stream parser of Tok.lean (`snd_all`), and the top-level results:
  `gojaParseRaw_iff_text`, `gojaParseRaw_eq_parseRaw`.
-/
import GojaModel.C19.TokComplete
set_option linter.unusedSimpArgs false

namespace GojaModel.C19

/-! ### mechanism ⇒ grammar -/

theorem tokenStep_value_inv {s : Str} {st : TState} {stk : List TState} {t : Tok} {d1 : Decoder}
    (hst : valueAllowed st = true) (h : tokenStep ⟨s, st, stk⟩ = .done (.tok t d1)) :
    ∃ w c tl, AllWs w ∧ s = w ++ c :: tl ∧
      ((c = 91 ∧ t = .delim 91 ∧ d1 = ⟨tl, .arrayStart, st :: stk⟩) ∨
       (c = 123 ∧ t = .delim 123 ∧ d1 = ⟨tl, .objectStart, st :: stk⟩) ∨
       (c = 93 ∧ st = .arrayStart ∧ t = .delim 93 ∧ d1 = popState ⟨s, st, stk⟩ tl) ∨
       (∃ v r', scanScalar (c :: tl) = some (v, r') ∧ t = .val v ∧ d1 = ⟨r', valueEnd st, stk⟩)) := by
  obtain ⟨w, hw, hs, _⟩ := skipWs_spec s
  unfold tokenStep at h
  cases hk : skipWs s with
  | nil => simp [hk] at h
  | cons c tl =>
    rw [hk] at hs
    simp only [hk] at h
    refine ⟨w, c, tl, hw, hs, ?_⟩
    have n1 : st ≠ .objectColon := by intro e; subst e; simp [valueAllowed] at hst
    have n2 : st ≠ .arrayComma := by intro e; subst e; simp [valueAllowed] at hst
    have n3 : st ≠ .objectComma := by intro e; subst e; simp [valueAllowed] at hst
    have n4 : st ≠ .objectStart := by intro e; subst e; simp [valueAllowed] at hst
    have n5 : st ≠ .objectKey := by intro e; subst e; simp [valueAllowed] at hst
    by_cases c1 : c = 91
    · simp [c1, hst] at h
      exact Or.inl ⟨c1, h.1.symm, h.2.symm⟩
    by_cases c2 : c = 93
    · simp only [c1, c2, if_false, if_true, n2, or_false] at h
      by_cases hs2 : st = .arrayStart
      · simp [hs2] at h
        exact Or.inr (Or.inr (Or.inl ⟨c2, hs2, h.1.symm, by rw [← h.2, hs2]⟩))
      · simp [hs2] at h
    by_cases c3 : c = 123
    · simp [c1, c2, c3, hst] at h
      exact Or.inr (Or.inl ⟨c3, h.1.symm, h.2.symm⟩)
    by_cases c4 : c = 125
    · simp [c1, c2, c3, c4, n3, n4] at h
    by_cases c5 : c = 58
    · simp [c1, c2, c3, c4, c5, n1] at h
    by_cases c6 : c = 44
    · simp [c1, c2, c3, c4, c5, c6, n2, n3] at h
    · simp only [c1, c2, c3, c4, c5, c6, n4, n5, or_self, and_false, if_false, hst, if_true] at h
      cases hsc : scanScalar (c :: tl) with
      | none => simp [hsc] at h
      | some q =>
        obtain ⟨v, r'⟩ := q
        simp [hsc] at h
        exact Or.inr (Or.inr (Or.inr ⟨v, r', rfl, h.1.symm, h.2.symm⟩))

def SndT (f : Nat) : Prop := ∀ t d1 v d', gToken f t d1 = some (v, d') →
  (∀ v0, t = .val v0 → v = v0 ∧ d' = d1) ∧
  (∀ s p stk, t = .delim 91 → d1 = ⟨s, .arrayStart, p :: stk⟩ →
     ∃ xs r, v = .arr xs ∧ Gram (91 :: s) (.arr xs) r ∧ d' = ⟨r, valueEnd p, stk⟩) ∧
  (∀ s p stk, t = .delim 123 → d1 = ⟨s, .objectStart, p :: stk⟩ →
     ∃ ms r, v = .obj ms ∧ Gram (123 :: s) (.obj ms) r ∧ d' = ⟨r, valueEnd p, stk⟩)

def SndA (f : Nat) : Prop := ∀ s stA p stk xs d', gArray f ⟨s, stA, p :: stk⟩ = some (xs, d') →
  (stA = .arrayStart → ∃ r, Gram (91 :: s) (.arr xs) r ∧ d' = ⟨r, valueEnd p, stk⟩) ∧
  (stA = .arrayValue → ∃ r, xs ≠ [] ∧ Gram (91 :: s) (.arr xs) r ∧ d' = ⟨r, valueEnd p, stk⟩) ∧
  (stA = .arrayComma → ∃ r, d' = ⟨r, valueEnd p, stk⟩ ∧
     ((xs = [] ∧ ∃ w, AllWs w ∧ s = w ++ 93 :: r) ∨
      (∃ w s2, AllWs w ∧ s = w ++ 44 :: s2 ∧ xs ≠ [] ∧ Gram (91 :: s2) (.arr xs) r)))

def SndO (f : Nat) : Prop := ∀ s stO p stk ms d', gObject f ⟨s, stO, p :: stk⟩ = some (ms, d') →
  (stO = .objectStart → ∃ r, Gram (123 :: s) (.obj ms) r ∧ d' = ⟨r, valueEnd p, stk⟩) ∧
  (stO = .objectKey → ∃ r, ms ≠ [] ∧ Gram (123 :: s) (.obj ms) r ∧ d' = ⟨r, valueEnd p, stk⟩) ∧
  (stO = .objectComma → ∃ r, d' = ⟨r, valueEnd p, stk⟩ ∧
     ((ms = [] ∧ ∃ w, AllWs w ∧ s = w ++ 125 :: r) ∨
      (∃ w s2, AllWs w ∧ s = w ++ 44 :: s2 ∧ ms ≠ [] ∧ Gram (123 :: s2) (.obj ms) r)))

def SndV (f : Nat) : Prop := ∀ s st stk v d', gValue f ⟨s, st, stk⟩ = some (v, d') →
  (st = .topValue → ∃ w s' r, AllWs w ∧ s = w ++ s' ∧ Gram s' v r ∧ d' = ⟨r, .topValue, stk⟩) ∧
  (st = .objectColon → ∃ w1 w2 s' r, AllWs w1 ∧ AllWs w2 ∧ s = w1 ++ 58 :: (w2 ++ s') ∧ Gram s' v r ∧ d' = ⟨r, .objectComma, stk⟩)

/-- a value token read in a value-allowed state, decoded by decodeToken -/
theorem snd_value {f : Nat} (hT : SndT f) {s : Str} {st : TState} {stk : List TState} {t : Tok} {d1 : Decoder} {v : JVal}
    {d' : Decoder} (hst : valueAllowed st = true) (ht : tokenStep ⟨s, st, stk⟩ = .done (.tok t d1))
    (hg : gToken f t d1 = some (v, d')) (h93 : t ≠ .delim 93) :
    ∃ w s' r, AllWs w ∧ s = w ++ s' ∧ Gram s' v r ∧ d' = ⟨r, valueEnd st, stk⟩ := by
  obtain ⟨w, c, tl, hw, hs, hc⟩ := tokenStep_value_inv hst ht
  obtain ⟨hval, harr, hobj⟩ := hT t d1 v d' hg
  rcases hc with ⟨_, rfl, rfl⟩ | ⟨_, rfl, rfl⟩ | ⟨_, _, rfl, _⟩ | ⟨v0, r', hsc, rfl, rfl⟩
  · obtain ⟨xs, r, rfl, hgr, rfl⟩ := harr tl st stk rfl rfl
    exact ⟨w, 91 :: tl, r, hw, by rw [hs]; rename_i h; rw [h], hgr, rfl⟩
  · obtain ⟨ms, r, rfl, hgr, rfl⟩ := hobj tl st stk rfl rfl
    exact ⟨w, 123 :: tl, r, hw, by rw [hs]; rename_i h; rw [h], hgr, rfl⟩
  · exact absurd rfl h93
  · obtain ⟨rfl, rfl⟩ := hval v0 rfl
    exact ⟨w, c :: tl, r', hw, hs, (scanScalar_sound hsc).1, rfl⟩

theorem sndT_step (f : Nat) (hA : SndA f) (hO : SndO f) : SndT (f + 1) := by
  intro t d1 v d' h
  cases t with
  | val v0 =>
    simp [gToken] at h
    refine ⟨fun v1 e => ?_, (fun _ _ _ e => by cases e), (fun _ _ _ e => by cases e)⟩
    injection e with e1; subst e1; exact ⟨h.1.symm, h.2.symm⟩
  | delim c =>
    refine ⟨(fun _ e => by cases e), ?_, ?_⟩
    · intro s p stk e hd
      injection e with e1; subst e1; subst hd
      simp only [gToken, if_true] at h
      cases hg : gArray f ⟨s, .arrayStart, p :: stk⟩ with
      | none => simp [hg] at h
      | some q =>
        obtain ⟨xs, d2⟩ := q
        simp [hg] at h
        obtain ⟨r, hgr, rfl⟩ := (hA s .arrayStart p stk xs d2 hg).1 rfl
        exact ⟨xs, r, h.1.symm, hgr, h.2.symm⟩
    · intro s p stk e hd
      injection e with e1; subst e1; subst hd
      simp only [gToken, show ¬ (123 : Nat) = 91 from by decide, if_false, if_true] at h
      cases hg : gObject f ⟨s, .objectStart, p :: stk⟩ with
      | none => simp [hg] at h
      | some q =>
        obtain ⟨ms, d2⟩ := q
        simp [hg] at h
        obtain ⟨r, hgr, rfl⟩ := (hO s .objectStart p stk ms d2 hg).1 rfl
        exact ⟨ms, r, h.1.symm, hgr, h.2.symm⟩

/-- what a successful pass of the array loop did -/
theorem gArray_inv {f : Nat} {d d1 d' : Decoder} {t : Tok} {xs : List JVal} (ht : token d = .tok t d1)
    (h : gArray (f + 1) d = some (xs, d')) :
    (t = .delim 93 ∧ xs = [] ∧ d' = d1) ∨
    (t ≠ .delim 93 ∧ ∃ v d2 xs', gToken f t d1 = some (v, d2) ∧ gArray f d2 = some (xs', d') ∧ xs = v :: xs') := by
  have key : ∀ (hne : t ≠ .delim 93), ∃ v d2 xs', gToken f t d1 = some (v, d2) ∧ gArray f d2 = some (xs', d') ∧ xs = v :: xs' := by
    intro hne
    rw [gArray_step ht hne] at h
    cases hg : gToken f t d1 with
    | none => simp [hg] at h
    | some q =>
      obtain ⟨v, d2⟩ := q
      simp only [hg] at h
      cases hg2 : gArray f d2 with
      | none => simp [hg2] at h
      | some q2 =>
        obtain ⟨xs', d3⟩ := q2
        simp [hg2] at h
        exact ⟨v, d2, xs', rfl, by rw [← h.2]; exact hg2, h.1.symm⟩
  cases t with
  | val v0 => exact Or.inr ⟨by simp, key (by simp)⟩
  | delim c =>
    by_cases hc : c = 93
    · subst hc
      rw [gArray, ht] at h
      simp at h
      exact Or.inl ⟨rfl, h.1, h.2.symm⟩
    · have hne : Tok.delim c ≠ .delim 93 := by intro e; injection e with e1; exact hc e1
      exact Or.inr ⟨hne, key hne⟩

/-- the array loop entered where an element may start (after `[`: arrayStart, after `,`: arrayValue) -/
theorem sndA_entry (f : Nat) (hT : SndT f) (hA : SndA f) (s : Str) (stA p : TState) (stk : List TState) (xs : List JVal)
    (d' : Decoder) (hst : stA = .arrayStart ∨ stA = .arrayValue) (h : gArray (f + 1) ⟨s, stA, p :: stk⟩ = some (xs, d')) :
    ∃ r, Gram (91 :: s) (.arr xs) r ∧ d' = ⟨r, valueEnd p, stk⟩ ∧ (stA = .arrayValue → xs ≠ []) := by
  obtain ⟨hal, hend⟩ := valueEnd_entry hst
  obtain ⟨res, hres⟩ := tokenStep_value_done s stA (p :: stk) hal
  have htk := token_of_done hres
  cases res with
  | eof => rw [gArray, htk] at h; simp at h
  | err => rw [gArray, htk] at h; simp at h
  | tok t d1 =>
    rcases gArray_inv htk h with ⟨rfl, rfl, rfl⟩ | ⟨hne, v, d2, xs', hg, hrest, rfl⟩
    · -- `]` right away: only in state arrayStart
      obtain ⟨w, c, tl, hw, hs, hc⟩ := tokenStep_value_inv hal hres
      rcases hc with ⟨_, e, _⟩ | ⟨_, e, _⟩ | ⟨hc93, hstart, _, hd⟩ | ⟨_, _, _, e, _⟩
      · cases e
      · cases e
      · subst hstart
        refine ⟨tl, ?_, by rw [hd]; rfl, by intro e; cases e⟩
        rw [hs, hc93]
        exact Gram.arrNil tl hw
      · cases e
    · obtain ⟨w, s', r1, hw, hs, hgr, hd2⟩ := snd_value hT hal hres hg hne
      rw [hend] at hd2
      subst hd2
      obtain ⟨r, hr, hcases⟩ := (hA r1 .arrayComma p stk xs' d' hrest).2.2 rfl
      refine ⟨r, ?_, hr, by intro _; simp⟩
      rcases hcases with ⟨rfl, w2, hw2, rfl⟩ | ⟨w2, s2, hw2, rfl, hne2, hg2⟩
      · rw [hs]; exact Gram.arrOne r hw hw2 hgr
      · cases xs' with
        | nil => exact absurd rfl hne2
        | cons x t' => rw [hs]; exact Gram.arrCons r hw hw2 hgr hg2

/-- one pass of `Token()` in a state that expects a separator or a closing bracket -/
theorem tokenStep_sep_inv (s : Str) (st : TState) (stk : List TState) (close sep : Nat) (next : TState)
    (hst : (st = .arrayComma ∧ close = 93 ∧ sep = 44 ∧ next = .arrayValue) ∨
           (st = .objectComma ∧ close = 125 ∧ sep = 44 ∧ next = .objectKey)) :
    ∃ w, AllWs w ∧
      ((∃ tl, s = w ++ close :: tl ∧ tokenStep ⟨s, st, stk⟩ = .done (.tok (.delim close) (popState ⟨s, st, stk⟩ tl))) ∨
       (∃ tl, s = w ++ sep :: tl ∧ tokenStep ⟨s, st, stk⟩ = .again ⟨tl, next, stk⟩) ∨
       tokenStep ⟨s, st, stk⟩ = .done .eof ∨ tokenStep ⟨s, st, stk⟩ = .done .err) := by
  obtain ⟨w, hw, hs, _⟩ := skipWs_spec s
  refine ⟨w, hw, ?_⟩
  unfold tokenStep
  cases hk : skipWs s with
  | nil => exact Or.inr (Or.inr (Or.inl rfl))
  | cons c tl =>
    rw [hk] at hs
    rcases hst with ⟨rfl, rfl, rfl, rfl⟩ | ⟨rfl, rfl, rfl, rfl⟩
    · by_cases c2 : c = 93
      · subst c2; exact Or.inl ⟨tl, hs, by simp⟩
      by_cases c6 : c = 44
      · subst c6; exact Or.inr (Or.inl ⟨tl, hs, by simp⟩)
      · refine Or.inr (Or.inr (Or.inr ?_))
        simp only [valueAllowed, c2, c6]
        repeat' split
        all_goals first | rfl | simp_all
    · by_cases c4 : c = 125
      · subst c4; exact Or.inl ⟨tl, hs, by simp⟩
      by_cases c6 : c = 44
      · subst c6; exact Or.inr (Or.inl ⟨tl, hs, by simp⟩)
      · refine Or.inr (Or.inr (Or.inr ?_))
        simp only [valueAllowed, c4, c6]
        repeat' split
        all_goals first | rfl | simp_all

theorem sndA_step (f : Nat) (hT : SndT f) (hA : SndA f) : SndA (f + 1) := by
  intro s stA p stk xs d' h
  refine ⟨?_, ?_, ?_⟩
  · intro e
    obtain ⟨r, hg, hd, _⟩ := sndA_entry f hT hA s stA p stk xs d' (Or.inl e) h
    exact ⟨r, hg, hd⟩
  · intro e
    obtain ⟨r, hg, hd, hne⟩ := sndA_entry f hT hA s stA p stk xs d' (Or.inr e) h
    exact ⟨r, hne e, hg, hd⟩
  · intro e
    subst e
    obtain ⟨w, hw, hc⟩ := tokenStep_sep_inv s .arrayComma (p :: stk) 93 44 .arrayValue (Or.inl ⟨rfl, rfl, rfl, rfl⟩)
    rcases hc with ⟨tl, hs, hstep⟩ | ⟨tl, hs, hstep⟩ | hstep | hstep
    · rw [gArray, token_of_done hstep] at h
      simp [popState] at h
      exact ⟨tl, h.2.symm, Or.inl ⟨h.1, w, hw, hs⟩⟩
    · have htok : token ⟨s, .arrayComma, p :: stk⟩ = token ⟨tl, .arrayValue, p :: stk⟩ := by
        rw [hs]; exact token_array_comma w tl (p :: stk) hw
      rw [gArray_of_token htok] at h
      obtain ⟨r, hg, hd, hne⟩ := sndA_entry f hT hA tl .arrayValue p stk xs d' (Or.inr rfl) h
      exact ⟨r, hd, Or.inr ⟨w, tl, hw, hs, hne rfl, hg⟩⟩
    · rw [gArray, token_of_done hstep] at h; simp at h
    · rw [gArray, token_of_done hstep] at h; simp at h

theorem tokenStep_key_inv {s : Str} {stO : TState} {stk : List TState} (hO : stO = .objectStart ∨ stO = .objectKey) :
    (∃ w tl, AllWs w ∧ s = w ++ 125 :: tl ∧ stO = .objectStart ∧
        tokenStep ⟨s, stO, stk⟩ = .done (.tok (.delim 125) (popState ⟨s, stO, stk⟩ tl))) ∨
    (∃ w tl k r1, AllWs w ∧ s = w ++ 34 :: tl ∧ parseStrBody tl = some (k, r1) ∧
        tokenStep ⟨s, stO, stk⟩ = .done (.tok (.val (.str k)) ⟨r1, .objectColon, stk⟩)) ∨
    tokenStep ⟨s, stO, stk⟩ = .done .eof ∨ tokenStep ⟨s, stO, stk⟩ = .done .err := by
  obtain ⟨w, hw, hs, _⟩ := skipWs_spec s
  unfold tokenStep
  cases hk : skipWs s with
  | nil => exact Or.inr (Or.inr (Or.inl rfl))
  | cons c tl =>
    rw [hk] at hs
    by_cases c4 : c = 125
    · subst c4
      rcases hO with rfl | rfl
      · exact Or.inl ⟨w, tl, hw, hs, rfl, by simp⟩
      · exact Or.inr (Or.inr (Or.inr (by simp)))
    by_cases c7 : c = 34
    · subst c7
      cases hp : parseStrBody tl with
      | none =>
        refine Or.inr (Or.inr (Or.inr ?_))
        rcases hO with rfl | rfl <;> simp [hp]
      | some q =>
        obtain ⟨k, r1⟩ := q
        refine Or.inr (Or.inl ⟨w, tl, k, r1, hw, hs, hp, ?_⟩)
        rcases hO with rfl | rfl <;> simp [hp]
    · refine Or.inr (Or.inr (Or.inr ?_))
      rcases hO with rfl | rfl
      · simp only [valueAllowed, c4, c7]
        repeat' split
        all_goals first | rfl | simp_all
      · simp only [valueAllowed, c4, c7]
        repeat' split
        all_goals first | rfl | simp_all

theorem gObject_inv {f : Nat} {d d1 d' : Decoder} {t : Tok} {ms : List (Str × JVal)} (ht : token d = .tok t d1)
    (h : gObject (f + 1) d = some (ms, d')) :
    (t = .delim 125 ∧ ms = [] ∧ d' = d1) ∨
    (∃ k v d2 ms', t = .val (.str k) ∧ gValue f d1 = some (v, d2) ∧ gObject f d2 = some (ms', d') ∧ ms = (k, v) :: ms') := by
  rw [gObject, ht] at h
  cases t with
  | delim c =>
    by_cases hc : c = 125
    · subst hc
      simp at h
      exact Or.inl ⟨rfl, h.1, h.2.symm⟩
    · exfalso
      split at h
      · rename_i heq; injection heq with h1 _; injection h1 with h2; exact hc h2
      · rename_i heq; injection heq with h1 _; cases h1
      · simp at h
  | val v0 =>
    cases v0 with
    | str k =>
      simp only at h
      cases hg : gValue f d1 with
      | none => simp [hg] at h
      | some q =>
        obtain ⟨v, d2⟩ := q
        simp only [hg] at h
        cases hg2 : gObject f d2 with
        | none => simp [hg2] at h
        | some q2 =>
          obtain ⟨ms', d3⟩ := q2
          simp [hg2] at h
          exact Or.inr ⟨k, v, d2, ms', rfl, rfl, by rw [← h.2]; exact hg2, h.1.symm⟩
    | null => simp at h
    | bool b => simp at h
    | num l => simp at h
    | arr xs => simp at h
    | obj m => simp at h

/-- the object loop entered where a key may start (after `{`: objectStart, after `,`: objectKey) -/
theorem sndO_entry (f : Nat) (hV : SndV f) (hO : SndO f) (s : Str) (stO p : TState) (stk : List TState)
    (ms : List (Str × JVal)) (d' : Decoder) (hst : stO = .objectStart ∨ stO = .objectKey)
    (h : gObject (f + 1) ⟨s, stO, p :: stk⟩ = some (ms, d')) :
    ∃ r, Gram (123 :: s) (.obj ms) r ∧ d' = ⟨r, valueEnd p, stk⟩ ∧ (stO = .objectKey → ms ≠ []) := by
  rcases tokenStep_key_inv (s := s) (stk := p :: stk) hst with ⟨w, tl, hw, hs, hstart, hstep⟩ | ⟨w, tl, k, r1, hw, hs, hp, hstep⟩ | hstep | hstep
  · rcases gObject_inv (token_of_done hstep) h with ⟨_, rfl, rfl⟩ | ⟨k, v, d2, ms', e, _⟩
    · subst hstart
      refine ⟨tl, ?_, by simp [popState], by intro e; cases e⟩
      rw [hs]; exact Gram.objNil tl hw
    · cases e
  · rcases gObject_inv (token_of_done hstep) h with ⟨e, _, _⟩ | ⟨k', v, d2, ms', e, hgv, hgo, rfl⟩
    · cases e
    · injection e with e1; injection e1 with e2; subst e2
      obtain ⟨b, hb, rfl⟩ := parseStrBody_sound _ tl (Nat.le_refl _) k r1 hp
      obtain ⟨w2, w3, s', r2, hw2, hw3, rfl, hgr, rfl⟩ := (hV r1 .objectColon (p :: stk) v d2 hgv).2 rfl
      obtain ⟨r, hr, hcases⟩ := (hO r2 .objectComma p stk ms' d' hgo).2.2 rfl
      refine ⟨r, ?_, hr, by intro _; simp⟩
      rcases hcases with ⟨rfl, w4, hw4, rfl⟩ | ⟨w4, s2, hw4, rfl, hne2, hg2⟩
      · rw [hs]; exact Gram.objOne r hw hw2 hw3 hw4 hb hgr
      · cases ms' with
        | nil => exact absurd rfl hne2
        | cons q t' => rw [hs]; exact Gram.objCons r hw hw2 hw3 hw4 hb hgr hg2
  · rw [gObject, token_of_done hstep] at h; simp at h
  · rw [gObject, token_of_done hstep] at h; simp at h

theorem sndO_step (f : Nat) (hV : SndV f) (hO : SndO f) : SndO (f + 1) := by
  intro s stO p stk ms d' h
  refine ⟨?_, ?_, ?_⟩
  · intro e
    obtain ⟨r, hg, hd, _⟩ := sndO_entry f hV hO s stO p stk ms d' (Or.inl e) h
    exact ⟨r, hg, hd⟩
  · intro e
    obtain ⟨r, hg, hd, hne⟩ := sndO_entry f hV hO s stO p stk ms d' (Or.inr e) h
    exact ⟨r, hne e, hg, hd⟩
  · intro e
    subst e
    obtain ⟨w, hw, hc⟩ := tokenStep_sep_inv s .objectComma (p :: stk) 125 44 .objectKey (Or.inr ⟨rfl, rfl, rfl, rfl⟩)
    rcases hc with ⟨tl, hs, hstep⟩ | ⟨tl, hs, hstep⟩ | hstep | hstep
    · rcases gObject_inv (token_of_done hstep) h with ⟨_, rfl, rfl⟩ | ⟨k, v, d2, ms', e, _⟩
      · exact ⟨tl, by simp [popState], Or.inl ⟨rfl, w, hw, hs⟩⟩
      · cases e
    · have htok : token ⟨s, .objectComma, p :: stk⟩ = token ⟨tl, .objectKey, p :: stk⟩ := by
        rw [hs]; exact token_object_comma w tl (p :: stk) hw
      rw [gObject_of_token htok] at h
      obtain ⟨r, hg, hd, hne⟩ := sndO_entry f hV hO tl .objectKey p stk ms d' (Or.inr rfl) h
      exact ⟨r, hd, Or.inr ⟨w, tl, hw, hs, hne rfl, hg⟩⟩
    · rw [gObject, token_of_done hstep] at h; simp at h
    · rw [gObject, token_of_done hstep] at h; simp at h

theorem tokenStep_value_ne93 {s : Str} {st : TState} {stk : List TState} {t : Tok} {d1 : Decoder}
    (hst : valueAllowed st = true) (hns : st ≠ .arrayStart) (h : tokenStep ⟨s, st, stk⟩ = .done (.tok t d1)) : t ≠ .delim 93 := by
  obtain ⟨w, c, tl, _, _, hc⟩ := tokenStep_value_inv hst h
  rcases hc with ⟨_, rfl, _⟩ | ⟨_, rfl, _⟩ | ⟨_, e, _, _⟩ | ⟨_, _, _, rfl, _⟩
  · simp
  · simp
  · exact absurd e hns
  · simp

theorem tokenStep_colon_inv (s : Str) (stk : List TState) :
    (∃ w tl, AllWs w ∧ s = w ++ 58 :: tl ∧ tokenStep ⟨s, .objectColon, stk⟩ = .again ⟨tl, .objectValue, stk⟩) ∨
    tokenStep ⟨s, .objectColon, stk⟩ = .done .eof ∨ tokenStep ⟨s, .objectColon, stk⟩ = .done .err := by
  obtain ⟨w, hw, hs, _⟩ := skipWs_spec s
  unfold tokenStep
  cases hk : skipWs s with
  | nil => exact Or.inr (Or.inl rfl)
  | cons c tl =>
    rw [hk] at hs
    by_cases c5 : c = 58
    · subst c5; exact Or.inl ⟨w, tl, hw, hs, by simp⟩
    · refine Or.inr (Or.inr ?_)
      simp only [valueAllowed, c5]
      repeat' split
      all_goals first | rfl | simp_all

theorem gValue_of_token {f : Nat} {d d' : Decoder} (h : token d = token d') : gValue (f + 1) d = gValue (f + 1) d' := by
  simp [gValue, h]

theorem sndV_value (f : Nat) (hT : SndT f) (s : Str) (st : TState) (stk : List TState) (v : JVal) (d' : Decoder)
    (hst : valueAllowed st = true) (hns : st ≠ .arrayStart) (h : gValue (f + 1) ⟨s, st, stk⟩ = some (v, d')) :
    ∃ w s' r, AllWs w ∧ s = w ++ s' ∧ Gram s' v r ∧ d' = ⟨r, valueEnd st, stk⟩ := by
  obtain ⟨res, hres⟩ := tokenStep_value_done s st stk hst
  rw [gValue, token_of_done hres] at h
  cases res with
  | eof => simp at h
  | err => simp at h
  | tok t d1 => exact snd_value hT hst hres h (tokenStep_value_ne93 hst hns hres)

theorem sndV_step (f : Nat) (hT : SndT f) : SndV (f + 1) := by
  intro s st stk v d' h
  refine ⟨?_, ?_⟩
  · intro e
    subst e
    exact sndV_value f hT s .topValue stk v d' rfl (by simp) h
  · intro e
    subst e
    rcases tokenStep_colon_inv s stk with ⟨w, tl, hw, hs, hstep⟩ | hstep | hstep
    · have htok : token ⟨s, .objectColon, stk⟩ = token ⟨tl, .objectValue, stk⟩ := by
        rw [hs]; exact token_colon w tl stk hw
      rw [gValue_of_token htok] at h
      obtain ⟨w2, s', r, hw2, hs2, hg, hd⟩ := sndV_value f hT tl .objectValue stk v d' rfl (by simp) h
      exact ⟨w, w2, s', r, hw, hw2, by rw [hs, hs2], hg, hd⟩
    · rw [gValue, token_of_done hstep] at h; simp at h
    · rw [gValue, token_of_done hstep] at h; simp at h

theorem snd_all : ∀ f, SndT f ∧ SndV f ∧ SndA f ∧ SndO f := by
  intro f
  induction f with
  | zero =>
    refine ⟨?_, ?_, ?_, ?_⟩
    · intro t d1 v d' h; simp [gToken] at h
    · intro s st stk v d' h; simp [gValue] at h
    · intro s stA p stk xs d' h; simp [gArray] at h
    · intro s stO p stk ms d' h; simp [gObject] at h
  | succ f ih =>
    obtain ⟨hT, hV, hA, hO⟩ := ih
    exact ⟨sndT_step f hA hO, sndV_step f hT, sndA_step f hT hA, sndO_step f hV hO⟩

/-! ### top level: goja's JSON.parse (mechanism) = the grammar = the spec parser -/

theorem token_top_eof {r : Str} {stk : List TState} (h : token ⟨r, .topValue, stk⟩ = .eof) : skipWs r = [] := by
  obtain ⟨res, hres⟩ := tokenStep_value_done r .topValue stk rfl
  rw [token_of_done hres] at h
  subst h
  unfold tokenStep at hres
  cases hk : skipWs r with
  | nil => rfl
  | cons c tl =>
    simp only [hk] at hres
    exfalso
    revert hres
    simp only [valueAllowed]
    repeat' split
    all_goals simp

theorem gojaParseRaw_sound {t : Str} {v : JVal} (h : gojaParseRaw t = some v) : Text t v := by
  unfold gojaParseRaw at h
  cases hg : gValue (4 * t.length + 4) ⟨t, .topValue, []⟩ with
  | none => simp [hg] at h
  | some q =>
    obtain ⟨v', d⟩ := q
    simp only [hg] at h
    obtain ⟨w, s', r, hw, hs, hgr, rfl⟩ := ((snd_all _).2.1 t .topValue [] v' d hg).1 rfl
    cases htk : token ⟨r, .topValue, []⟩ with
    | eof =>
      simp [htk] at h
      subst h
      exact ⟨w, r, s', hw, skipWs_nil_allWs (token_top_eof htk), hs, hgr⟩
    | err => simp [htk] at h
    | tok t1 d1 => simp [htk] at h

mutual
theorem gT_le : ∀ v : JVal, gT v ≤ 2 * need v
  | .null => by simp [gT, need]
  | .bool _ => by simp [gT, need]
  | .num _ => by simp [gT, need]
  | .str _ => by simp [gT, need]
  | .arr xs => by have := gA_le xs; simp only [gT, need]; omega
  | .obj ms => by have := gO_le ms; simp only [gT, need]; omega
theorem gA_le : ∀ xs : List JVal, gA xs ≤ 2 * needL xs + 1
  | [] => by simp [gA, needL]
  | x :: t => by have := gT_le x; have := gA_le t; simp only [gA, needL]; omega
theorem gO_le : ∀ ms : List (Str × JVal), gO ms ≤ 2 * needM ms + 1
  | [] => by simp [gO, needM]
  | (_, v) :: t => by have := gT_le v; have := gO_le t; simp only [gO, needM]; omega
end

theorem gojaParseRaw_complete {t : Str} {v : JVal} (h : Text t v) : gojaParseRaw t = some v := by
  obtain ⟨w1, w2, s, hw1, hw2, rfl, hg⟩ := h
  have hn := gram_need hg
  have hb := gT_le v
  have hlen : (w1 ++ s).length = w1.length + s.length := by simp
  obtain ⟨t1, d1, hstep, _, _, hgt⟩ := (gram_compAll hg).1 w1 .topValue [] (4 * (w1 ++ s).length + 3) hw1 rfl (follow_ws hw2)
    (by omega)
  have heof : token ⟨w2, valueEnd .topValue, []⟩ = .eof := by
    apply token_of_done
    have : skipWs w2 = [] := by simpa [skipWs] using skipWs_append_ws w2 [] hw2
    simp [tokenStep, this]
  unfold gojaParseRaw
  rw [show 4 * (w1 ++ s).length + 4 = (4 * (w1 ++ s).length + 3) + 1 from rfl]
  simp only [gValue, token_of_done hstep, hgt, heof]

/-- the mechanism-level parser (Go token stream driven by goja's decode functions) accepts exactly the texts of the
    ECMA-404 grammar and returns the denoted tree … -/
theorem gojaParseRaw_iff_text (t : Str) (v : JVal) : gojaParseRaw t = some v ↔ Text t v :=
  ⟨gojaParseRaw_sound, gojaParseRaw_complete⟩

/-- … hence it is extensionally the spec-level parser, on every text -/
theorem gojaParseRaw_eq_parseRaw (t : Str) : gojaParseRaw t = parseRaw t := by
  cases hp : parseRaw t with
  | some v => exact gojaParseRaw_complete (parseRaw_sound hp)
  | none =>
    cases hg : gojaParseRaw t with
    | none => rfl
    | some v =>
      have := parseRaw_complete (gojaParseRaw_sound hg)
      rw [hp] at this
      cases this

end GojaModel.C19
