/-
  C19: theorems about SerializeJSONProperty with replacer function / toJSON hooks (model in Replacer.lean).
-/
import GojaModel.C19.Replacer
import GojaModel.C19.RoundTrip
namespace GojaModel.C19

theorem joinElems_map (gap ind ind' : Str) (ys : List JVal) :
    joinElems gap ind ind' (ys.map (ser gap ind')) = serElems gap ind ind' ys := by
  induction ys with
  | nil => simp [joinElems, serElems]
  | cons a t ih => simp [joinElems, serElems, ih]

theorem assembleArr_map (gap ind : Str) (ys : List JVal) :
    assembleArr gap ind (ys.map (ser gap (ind ++ gap))) = ser gap ind (.arr ys) := by
  cases ys with
  | nil => simp [assembleArr, ser]
  | cons a t =>
    simp only [assembleArr, ser, List.map_cons, List.isEmpty_cons, Bool.false_eq_true, if_false]
    rw [← List.map_cons, joinElems_map]

def SerRewV {σ : Type} (H : Hooks σ) (gap : Str) (f : Nat) : Prop :=
  ∀ ind s h k v, serH H gap f ind s h k v = (rewH H f s h k v).map (fun p => (p.1, p.2.map (ser gap ind)))
def SerRewE {σ : Type} (H : Hooks σ) (gap : Str) (f : Nat) : Prop :=
  ∀ ind' s h i xs, serElemsH H gap f ind' s h i xs = (rewElemsH H f s h i xs).map (fun p => (p.1, p.2.map (ser gap ind')))
def SerRewM {σ : Type} (H : Hooks σ) (gap : Str) (f : Nat) : Prop :=
  ∀ ind' s h ms, serMembersH H gap f ind' s h ms = (rewMembersH H f s h ms).map (fun p => (p.1, p.2.map (textOf gap ind')))

theorem serRew_all {σ : Type} (H : Hooks σ) (gap : Str) : ∀ f, SerRewV H gap f ∧ SerRewE H gap f ∧ SerRewM H gap f := by
  intro f
  induction f with
  | zero =>
    refine ⟨?_, ?_, ?_⟩
    · intro ind s h k v; simp [serH, rewH]
    · intro ind s h i xs; cases xs <;> simp [serElemsH, rewElemsH]
    · intro ind s h ms; cases ms <;> simp [serMembersH, rewMembersH]
  | succ f ih =>
    obtain ⟨ihV, ihE, ihM⟩ := ih
    refine ⟨?_, ?_, ?_⟩
    · intro ind s h k v
      rw [serH, rewH]
      cases hp : (pre H s h k v).2 with
      | none => simp
      | some x =>
        cases x with
        | arr xs =>
          simp only [ihE (ind ++ gap)]
          cases rewElemsH H f (pre H s h k v).1 (.arr xs) 0 xs with
          | none => simp
          | some q => simp [assembleArr_map]
        | obj ms =>
          simp only [ihM (ind ++ gap)]
          cases rewMembersH H f (pre H s h k v).1 (.obj ms) ms with
          | none => simp
          | some q => simp [assembleObj_map]
        | null => simp
        | bool b => simp
        | num l => simp
        | str t => simp
    · intro ind' s h i xs
      cases xs with
      | nil => simp [serElemsH, rewElemsH]
      | cons v t =>
        rw [serElemsH, rewElemsH, ihV ind']
        cases rewH H f s h (idxKey i) v with
        | none => simp
        | some q =>
          obtain ⟨s1, o⟩ := q
          simp only [Option.map_some, ihE ind']
          cases rewElemsH H f s1 h (i + 1) t with
          | none => simp
          | some q2 => cases o <;> simp [ser, nullText]
    · intro ind' s h ms
      cases ms with
      | nil => simp [serMembersH, rewMembersH]
      | cons a t =>
        obtain ⟨k, v⟩ := a
        rw [serMembersH, rewMembersH, ihV ind']
        cases rewH H f s h k v with
        | none => simp
        | some q =>
          obtain ⟨s1, o⟩ := q
          simp only [Option.map_some, ihM ind']
          cases rewMembersH H f s1 h t with
          | none => simp
          | some q2 => cases o <;> simp [textOf]

theorem pre_logRepl (log : List (JVal × Str)) (h : JVal) (k : Str) (v : JVal) :
    pre logRepl log h k v = (log ++ [(h, k)], some v) := by
  simp [pre, logRepl]

theorem pre_noHooks (h : JVal) (k : Str) (v : JVal) : pre noHooks () h k v = ((), some v) := by
  simp [pre, noHooks]

mutual
theorem rew_log : ∀ (v h : JVal) (k : Str) (log : List (JVal × Str)) (f : Nat), need v ≤ f →
    rewH logRepl f log h k v = some (log ++ preCalls h k v, some v)
  | .null, h, k, log, f, hf => by
    cases f with
    | zero => simp [need] at hf
    | succ f => simp [rewH, pre_logRepl, preCalls]
  | .bool b, h, k, log, f, hf => by
    cases f with
    | zero => simp [need] at hf
    | succ f => simp [rewH, pre_logRepl, preCalls]
  | .num l, h, k, log, f, hf => by
    cases f with
    | zero => simp [need] at hf
    | succ f => simp [rewH, pre_logRepl, preCalls]
  | .str t, h, k, log, f, hf => by
    cases f with
    | zero => simp [need] at hf
    | succ f => simp [rewH, pre_logRepl, preCalls]
  | .arr xs, h, k, log, f, hf => by
    cases f with
    | zero => simp [need] at hf
    | succ f =>
      have := rewElems_log xs (.arr xs) 0 (log ++ [(h, k)]) f (by simp [need] at hf; omega)
      simp [rewH, pre_logRepl, preCalls, this]
  | .obj ms, h, k, log, f, hf => by
    cases f with
    | zero => simp [need] at hf
    | succ f =>
      have := rewMembers_log ms (.obj ms) (log ++ [(h, k)]) f (by simp [need] at hf; omega)
      simp [rewH, pre_logRepl, preCalls, this]
theorem rewElems_log : ∀ (xs : List JVal) (h : JVal) (i : Nat) (log : List (JVal × Str)) (f : Nat), needL xs ≤ f →
    rewElemsH logRepl f log h i xs = some (log ++ preCallsElems h i xs, xs)
  | [], h, i, log, f, _ => by simp [rewElemsH, preCallsElems]
  | v :: t, h, i, log, f, hf => by
    cases f with
    | zero => simp [needL] at hf
    | succ f =>
      have hfv : need v ≤ f ∧ needL t ≤ f := by simp [needL] at hf; omega
      have h1 := rew_log v h (idxKey i) log f hfv.1
      have h2 := rewElems_log t h (i + 1) (log ++ preCalls h (idxKey i) v) f hfv.2
      simp [rewElemsH, h1, h2, preCallsElems]
theorem rewMembers_log : ∀ (ms : List (Str × JVal)) (h : JVal) (log : List (JVal × Str)) (f : Nat), needM ms ≤ f →
    rewMembersH logRepl f log h ms = some (log ++ preCallsMembers h ms, ms)
  | [], h, log, f, _ => by simp [rewMembersH, preCallsMembers]
  | (k, v) :: t, h, log, f, hf => by
    cases f with
    | zero => simp [needM] at hf
    | succ f =>
      have hfv : need v ≤ f ∧ needM t ≤ f := by simp [needM] at hf; omega
      have h1 := rew_log v h k log f hfv.1
      have h2 := rewMembers_log t h (log ++ preCalls h k v) f hfv.2
      simp [rewMembersH, h1, h2, preCallsMembers]
end

mutual
theorem rew_none : ∀ (v h : JVal) (k : Str) (f : Nat), need v ≤ f → rewH noHooks f () h k v = some ((), some v)
  | .null, h, k, f, hf => by
    cases f with
    | zero => simp [need] at hf
    | succ f => simp [rewH, pre_noHooks]
  | .bool b, h, k, f, hf => by
    cases f with
    | zero => simp [need] at hf
    | succ f => simp [rewH, pre_noHooks]
  | .num l, h, k, f, hf => by
    cases f with
    | zero => simp [need] at hf
    | succ f => simp [rewH, pre_noHooks]
  | .str t, h, k, f, hf => by
    cases f with
    | zero => simp [need] at hf
    | succ f => simp [rewH, pre_noHooks]
  | .arr xs, h, k, f, hf => by
    cases f with
    | zero => simp [need] at hf
    | succ f =>
      have := rewElems_none xs (.arr xs) 0 f (by simp [need] at hf; omega)
      simp [rewH, pre_noHooks, this]
  | .obj ms, h, k, f, hf => by
    cases f with
    | zero => simp [need] at hf
    | succ f =>
      have := rewMembers_none ms (.obj ms) f (by simp [need] at hf; omega)
      simp [rewH, pre_noHooks, this]
theorem rewElems_none : ∀ (xs : List JVal) (h : JVal) (i : Nat) (f : Nat), needL xs ≤ f →
    rewElemsH noHooks f () h i xs = some ((), xs)
  | [], h, i, f, _ => by simp [rewElemsH]
  | v :: t, h, i, f, hf => by
    cases f with
    | zero => simp [needL] at hf
    | succ f =>
      have hfv : need v ≤ f ∧ needL t ≤ f := by simp [needL] at hf; omega
      simp [rewElemsH, rew_none v h (idxKey i) f hfv.1, rewElems_none t h (i + 1) f hfv.2]
theorem rewMembers_none : ∀ (ms : List (Str × JVal)) (h : JVal) (f : Nat), needM ms ≤ f →
    rewMembersH noHooks f () h ms = some ((), ms)
  | [], h, f, _ => by simp [rewMembersH]
  | (k, v) :: t, h, f, hf => by
    cases f with
    | zero => simp [needM] at hf
    | succ f =>
      have hfv : need v ≤ f ∧ needM t ≤ f := by simp [needM] at hf; omega
      simp [rewMembersH, rew_none v h k f hfv.1, rewMembers_none t h f hfv.2]
end

end GojaModel.C19
