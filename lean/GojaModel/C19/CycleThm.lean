/-
  C19: the cycle detection of `str` (Cycle.strC: stack lookup, push, deferred pop on every way out) refines the
  specification: TypeError iff an object is reached while it is its own ancestor; the stack is handed back unchanged.
-/
import GojaModel.C19.Cycle
import GojaModel.C19.MechThm
set_option linter.unusedSimpArgs false

namespace GojaModel.C19

def okC (r : Str × Str × Bool) (st : List Nat) : CRes := .ok r.1 r.2.1 r.2.2 st

/-- what `str` must do: TypeError iff an object is its own ancestor; otherwise the text mechanism of Mech.lean, and the
    stack handed back exactly as it was received -/
def CycOK (gap : Str) (v : CVal) : Prop :=
  ∀ st buf ind, strC gap v st buf ind = if cyc st v then .typeError else okC (strM gap (erase v) buf ind) st

theorem eraseL_isEmpty (xs : List CVal) : (eraseL xs).isEmpty = xs.isEmpty := by
  cases xs <;> simp [eraseL]

theorem jaLoopC_ok (gap sep : Str) (xs : List CVal) (h : ∀ v ∈ xs, CycOK gap v) :
    ∀ st buf ind, jaLoopC gap sep xs st buf ind =
      if cycL st xs then .typeError
      else .ok (jaLoop gap sep (eraseL xs) buf ind).1 (jaLoop gap sep (eraseL xs) buf ind).2 st := by
  induction xs with
  | nil => intro st buf ind; simp [jaLoopC, cycL, eraseL, jaLoop]
  | cons v t ih =>
    intro st buf ind
    have hv := h v (by simp) st buf ind
    have iht := ih (fun x hx => h x (by simp [hx]))
    rw [jaLoopC, hv]
    by_cases hb : cyc st v = true
    · simp [hb, cycL]
    · have hb' : cyc st v = false := by simpa using hb
      simp only [hb', Bool.false_eq_true, if_false, okC, cycL, Bool.false_or, eraseL, jaLoop, eraseL_isEmpty]
      rw [iht]

theorem joLoopC_ok (gap sep : Str) (ms : List (Str × CVal)) (h : ∀ p ∈ ms, CycOK gap p.2) :
    ∀ st buf ind empty, joLoopC gap sep ms st buf ind empty =
      if cycM st ms then .typeError
      else .ok (joLoop gap sep (eraseM ms) buf ind empty).1 (joLoop gap sep (eraseM ms) buf ind empty).2.1
             (joLoop gap sep (eraseM ms) buf ind empty).2.2 st := by
  induction ms with
  | nil => intro st buf ind empty; simp [joLoopC, cycM, eraseM, joLoop]
  | cons a t ih =>
    obtain ⟨k, v⟩ := a
    intro st buf ind empty
    have hv := h (k, v) (by simp) st (buf ++ ((if empty then [] else sep) ++ (quote k ++ colon gap))) ind
    have iht := ih (fun x hx => h x (by simp [hx]))
    rw [joLoopC, hv]
    by_cases hb : cyc st v = true
    · simp [hb, cycM]
    · have hb' : cyc st v = false := by simpa using hb
      simp only [hb', Bool.false_eq_true, if_false, okC, cycM, Bool.false_or, eraseM]
      rw [joLoop]
      by_cases hok : (strM gap (erase v) (buf ++ ((if empty then [] else sep) ++ (quote k ++ colon gap))) ind).2.2 = true
      · simp only [hok, if_true]
        rw [iht]
      · have hok' : (strM gap (erase v) (buf ++ ((if empty then [] else sep) ++ (quote k ++ colon gap))) ind).2.2 = false := by
          simpa using hok
        simp only [hok', Bool.false_eq_true, if_false]
        rw [iht]

mutual
theorem cycOK (gap : Str) : ∀ v : CVal, CycOK gap v
  | .undef => by intro st buf ind; simp [strC, cyc, erase, strM, okC]
  | .leaf t => by intro st buf ind; simp [strC, cyc, erase, strM, okC]
  | .fn id => by
    intro st buf ind
    by_cases hm : id ∈ st
    · simp [strC, cyc, hm]
    · have hc' : st.contains id = false := by simpa using hm
      simp [strC, cyc, hc', erase, strM, okC]
  | .arr id xs => by
    intro st buf ind
    by_cases hm : id ∈ st
    · simp [strC, cyc, hm]
    · have hc' : st.contains id = false := by simpa using hm
      cases xs with
      | nil => simp [strC, cyc, hc', cycL, erase, eraseL, strM, okC]
      | cons a t =>
        have hl := jaLoopC_ok gap (44 :: nl gap (ind ++ gap)) (a :: t) (cycOK_list gap (a :: t)) (id :: st)
          (buf ++ (91 :: nl gap (ind ++ gap))) (ind ++ gap)
        simp only [strC, hc', Bool.false_eq_true, if_false, List.isEmpty_cons, hl, cyc, Bool.false_or]
        by_cases hb : cycL (id :: st) (a :: t) = true
        · simp [hb]
        · have hb' : cycL (id :: st) (a :: t) = false := by simpa using hb
          simp [hb', erase, strM, okC, eraseL]
  | .obj id ms => by
    intro st buf ind
    by_cases hm : id ∈ st
    · simp [strC, cyc, hm]
    · have hc' : st.contains id = false := by simpa using hm
      have hl := joLoopC_ok gap (44 :: nl gap (ind ++ gap)) ms (cycOK_members gap ms) (id :: st)
        (buf ++ (123 :: nl gap (ind ++ gap))) (ind ++ gap) true
      simp only [strC, hc', Bool.false_eq_true, if_false, hl, cyc, Bool.false_or]
      by_cases hb : cycM (id :: st) ms = true
      · simp [hb]
      · have hb' : cycM (id :: st) ms = false := by simpa using hb
        simp [hb', erase, strM, okC]
theorem cycOK_list (gap : Str) : ∀ xs : List CVal, ∀ v ∈ xs, CycOK gap v
  | [], _, h => by cases h
  | a :: t, v, h => by
    cases h with
    | head => exact cycOK gap a
    | tail _ h' => exact cycOK_list gap t v h'
theorem cycOK_members (gap : Str) : ∀ ms : List (Str × CVal), ∀ p ∈ ms, CycOK gap p.2
  | [], _, h => by cases h
  | (k, a) :: t, p, h => by
    cases h with
    | head => exact cycOK gap a
    | tail _ h' => exact cycOK_members gap t p h'
end

/-- the same object twice among siblings is not a cycle: `[f, f]` and `{a: x, c: x}` serialise (red-team change m2) -/
theorem shared_reference_is_not_a_cycle (id : Nat) (x : CVal) (hx : cyc [id] x = false) :
    cyc [] (.arr id [x, x]) = false := by
  simp [cyc, cycL, hx]

end GojaModel.C19
