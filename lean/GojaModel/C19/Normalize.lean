/-
  C19: parser output is well-formed, object building yields normal forms (`build_normalizes`), hence
  `parse_normal : parse N t = some v → Normal N v`.
-/
import GojaModel.C19.Complete
namespace GojaModel.C19

/-! ### well-formedness of parser output -/

theorem wfStr_append {a b : Str} : WfStr (a ++ b) ↔ WfStr a ∧ WfStr b := by
  constructor
  · intro h; exact ⟨fun u hu => h u (by simp [hu]), fun u hu => h u (by simp [hu])⟩
  · intro h u hu
    rcases List.mem_append.mp hu with h1 | h1
    · exact h.1 u h1
    · exact h.2 u h1

theorem wfStr_cons {c : Nat} {b : Str} : WfStr (c :: b) ↔ c < 65536 ∧ WfStr b := by
  constructor
  · intro h; exact ⟨h c (by simp), fun u hu => h u (by simp [hu])⟩
  · intro h u hu
    cases hu with
    | head => exact h.1
    | tail _ h1 => exact h.2 u h1

theorem gram_wf {s : Str} {v : JVal} {r : Str} (h : Gram s v r) : WfStr s → WfVal v ∧ WfStr r := by
  induction h with
  | null r => intro hs; simp only [wfStr_cons] at hs; exact ⟨by simp [WfVal], hs.2.2.2.2⟩
  | tru r => intro hs; simp only [wfStr_cons] at hs; exact ⟨by simp [WfVal], hs.2.2.2.2⟩
  | fls r => intro hs; simp only [wfStr_cons] at hs; exact ⟨by simp [WfVal], hs.2.2.2.2.2⟩
  | num r hl => intro hs; exact ⟨by simpa [WfVal] using numGram_lexOK hl, (wfStr_append.mp hs).2⟩
  | str r hb =>
    intro hs
    simp only [wfStr_cons, wfStr_append] at hs
    exact ⟨by simpa [WfVal] using strBody_wf hb hs.2.1, hs.2.2.2⟩
  | arrNil r _ =>
    intro hs
    simp only [wfStr_cons, wfStr_append] at hs
    exact ⟨by simp [WfVal, WfList], hs.2.2.2⟩
  | arrOne r _ _ _ ih =>
    intro hs
    simp only [wfStr_cons, wfStr_append] at hs
    have a := ih hs.2.2
    simp only [wfStr_cons, wfStr_append] at a
    exact ⟨by simp [WfVal, WfList, a.1], a.2.2.2⟩
  | arrCons r _ _ _ _ ih1 ih2 =>
    intro hs
    simp only [wfStr_cons, wfStr_append] at hs
    have a := ih1 hs.2.2
    simp only [wfStr_cons, wfStr_append] at a
    have b := ih2 (wfStr_cons.mpr ⟨by decide, a.2.2.2⟩)
    exact ⟨by simpa [WfVal, WfList, a.1] using b.1, b.2⟩
  | objNil r _ =>
    intro hs
    simp only [wfStr_cons, wfStr_append] at hs
    exact ⟨by simp [WfVal, WfMembers], hs.2.2.2⟩
  | objOne r _ _ _ _ hb _ ih =>
    intro hs
    simp only [wfStr_cons, wfStr_append] at hs
    have a := ih hs.2.2.2.2.2.2.2.2
    simp only [wfStr_cons, wfStr_append] at a
    exact ⟨by simp [WfVal, WfMembers, a.1, strBody_wf hb hs.2.2.2.1], a.2.2.2⟩
  | objCons r _ _ _ _ hb _ _ ih1 ih2 =>
    intro hs
    simp only [wfStr_cons, wfStr_append] at hs
    have a := ih1 hs.2.2.2.2.2.2.2.2
    simp only [wfStr_cons, wfStr_append] at a
    have b := ih2 (wfStr_cons.mpr ⟨by decide, a.2.2.2⟩)
    refine ⟨?_, b.2⟩
    have b1 := b.1
    simp only [WfVal] at b1 ⊢
    simp only [WfMembers]
    exact ⟨strBody_wf hb hs.2.2.2.1, a.1, b1⟩

/-- what the parser returns is a well-formed tree (valid number lexemes, 16-bit string units) -/
theorem parseRaw_wf {t : Str} {v : JVal} (ht : WfStr t) (h : parseRaw t = some v) : WfVal v := by
  obtain ⟨w1, w2, s, _, _, rfl, hg⟩ := parseRaw_sound h
  exact (gram_wf hg (wfStr_append.mp ht).2).1

/-! ### object building produces normal forms -/

/-- what the theorems need to know about the canonical number text (C12's subject): it is again a number lexeme and
    canonicalising twice changes nothing -/
structure NumCanonOK (N : NumCanon) : Prop where
  valid : ∀ l, NumLexOK l → NumLexOK (N.canon l)
  idem : ∀ l, NumLexOK l → N.canon (N.canon l) = N.canon l

theorem numCanonOK_id : NumCanonOK NumCanon.id := ⟨fun _ h => h, fun _ _ => rfl⟩

theorem normalM_iff (N : NumCanon) (ms : List (Str × JVal)) :
    NormalM N ms ↔ ∀ p ∈ ms, WfStr p.1 ∧ Normal N p.2 := by
  induction ms with
  | nil => simp [NormalM]
  | cons a t ih =>
    obtain ⟨k, v⟩ := a
    simp only [NormalM, ih, List.mem_cons, forall_eq_or_imp]
    constructor
    · intro h; exact ⟨⟨h.1, h.2.1⟩, h.2.2⟩
    · intro h; exact ⟨h.1.1, h.1.2, h.2⟩

theorem mem_upsert {k : Str} {v : JVal} {acc : List (Str × JVal)} {p : Str × JVal} (h : p ∈ upsert k v acc) :
    p = (k, v) ∨ p ∈ acc := by
  induction acc with
  | nil => simp [upsert] at h; exact Or.inl h
  | cons a t ih =>
    obtain ⟨k', v'⟩ := a
    by_cases hk : k' = k
    · simp [upsert, hk] at h
      rcases h with h | h
      · exact Or.inl h
      · exact Or.inr (by simp [h])
    · simp [upsert, hk] at h
      rcases h with h | h
      · exact Or.inr (by simp [h])
      · rcases ih h with h' | h'
        · exact Or.inl h'
        · exact Or.inr (by simp [h'])

theorem keys_upsert (k : Str) (v : JVal) (acc : List (Str × JVal)) :
    keys (upsert k v acc) = if k ∈ keys acc then keys acc else keys acc ++ [k] := by
  induction acc with
  | nil => simp [upsert, keys]
  | cons a t ih =>
    obtain ⟨k', v'⟩ := a
    by_cases hk : k' = k
    · simp [upsert, hk, keys]
    · have hk' : ¬ k = k' := fun e => hk e.symm
      have ih' := ih
      simp only [keys] at ih'
      by_cases hm : k ∈ List.map Prod.fst t
      · simp [upsert, hk, keys, hk', hm, ih']
      · simp [upsert, hk, keys, hk', hm, ih']

theorem mem_foldl_upsert (ms : List (Str × JVal)) : ∀ (acc : List (Str × JVal)) (p : Str × JVal),
    p ∈ ms.foldl (fun acc q => upsert q.1 q.2 acc) acc → p ∈ acc ∨ p ∈ ms := by
  induction ms with
  | nil => intro acc p h; exact Or.inl h
  | cons q t ih =>
    intro acc p h
    simp only [List.foldl_cons] at h
    rcases ih _ p h with h1 | h1
    · rcases mem_upsert h1 with h2 | h2
      · exact Or.inr (by simp [h2])
      · exact Or.inl h2
    · exact Or.inr (by simp [h1])

theorem nodup_foldl_upsert (ms : List (Str × JVal)) : ∀ (acc : List (Str × JVal)), (keys acc).Nodup →
    (keys (ms.foldl (fun acc q => upsert q.1 q.2 acc) acc)).Nodup := by
  induction ms with
  | nil => intro acc h; exact h
  | cons q t ih =>
    intro acc h
    simp only [List.foldl_cons]
    apply ih
    rw [keys_upsert]
    split
    · exact h
    · rename_i hn
      rw [List.nodup_append]
      refine ⟨h, by simp, ?_⟩
      intro a ha b hb
      simp at hb
      subst hb
      intro e; subst e; exact hn ha

theorem mem_dedupe {ms : List (Str × JVal)} {p : Str × JVal} (h : p ∈ dedupe ms) : p ∈ ms := by
  rcases mem_foldl_upsert ms [] p h with h1 | h1
  · cases h1
  · exact h1

theorem nodup_dedupe (ms : List (Str × JVal)) : (keys (dedupe ms)).Nodup :=
  nodup_foldl_upsert ms [] (by simp [keys])

theorem insIdx_perm (a : Str × JVal) (l : List (Str × JVal)) : (insIdx a l).Perm (a :: l) := by
  induction l with
  | nil => exact List.Perm.refl _
  | cons b t ih =>
    by_cases h : idxVal a ≤ idxVal b
    · simp [insIdx, h]
    · simp only [insIdx, h, if_false]
      exact ((List.Perm.cons b ih).trans (List.Perm.swap a b t))

theorem sortIdx_perm (l : List (Str × JVal)) : (sortIdx l).Perm l := by
  induction l with
  | nil => exact List.Perm.refl _
  | cons a t ih => exact (insIdx_perm a (sortIdx t)).trans (List.Perm.cons a ih)

theorem insIdx_sorted (a : Str × JVal) (l : List (Str × JVal)) (h : IdxSorted l) : IdxSorted (insIdx a l) := by
  induction l with
  | nil => simp [insIdx, IdxSorted]
  | cons b t ih =>
    have hb := List.pairwise_cons.mp h
    by_cases hab : idxVal a ≤ idxVal b
    · simp only [insIdx, hab, if_true]
      refine List.pairwise_cons.mpr ⟨?_, h⟩
      intro y hy
      cases hy with
      | head => exact hab
      | tail _ hy' => exact Nat.le_trans hab (hb.1 y hy')
    · simp only [insIdx, hab, if_false]
      refine List.pairwise_cons.mpr ⟨?_, ih hb.2⟩
      intro y hy
      have := (insIdx_perm a t).mem_iff.mp hy
      cases this with
      | head => omega
      | tail _ hy' => exact hb.1 y hy'

theorem sortIdx_idxSorted (l : List (Str × JVal)) : IdxSorted (sortIdx l) := by
  induction l with
  | nil => simp [sortIdx, IdxSorted]
  | cons a t ih => exact insIdx_sorted a _ ih

theorem orderKeys_perm (l : List (Str × JVal)) : (orderKeys l).Perm l := by
  unfold orderKeys
  exact ((sortIdx_perm _).append (List.Perm.refl _)).trans (List.filter_append_perm isIdx l)

theorem orderKeys_keysOK (l : List (Str × JVal)) (h : (keys l).Nodup) : KeysOK (orderKeys l) := by
  have hA : ∀ p ∈ sortIdx (l.filter isIdx), isIdx p = true := by
    intro p hp
    have := (sortIdx_perm _).mem_iff.mp hp
    exact (List.mem_filter.mp this).2
  have hB : ∀ p ∈ l.filter (fun p => !isIdx p), isIdx p = false := by
    intro p hp
    simpa using (List.mem_filter.mp hp).2
  have e1 : (sortIdx (l.filter isIdx)).filter isIdx = sortIdx (l.filter isIdx) := List.filter_eq_self.mpr hA
  have e2 : (l.filter (fun p => !isIdx p)).filter isIdx = [] :=
    List.filter_eq_nil_iff.mpr (fun a ha => by simp [hB a ha])
  have e3 : (sortIdx (l.filter isIdx)).filter (fun p => !isIdx p) = [] :=
    List.filter_eq_nil_iff.mpr (fun a ha => by simp [hA a ha])
  have e4 : (l.filter (fun p => !isIdx p)).filter (fun p => !isIdx p) = l.filter (fun p => !isIdx p) :=
    List.filter_eq_self.mpr (fun a ha => by simp [hB a ha])
  have f1 : (orderKeys l).filter isIdx = sortIdx (l.filter isIdx) := by
    unfold orderKeys
    rw [List.filter_append, e1, e2]
    simp
  have f2 : (orderKeys l).filter (fun p => !isIdx p) = l.filter (fun p => !isIdx p) := by
    unfold orderKeys
    rw [List.filter_append, e3, e4]
    simp
  refine ⟨?_, ?_, ?_⟩
  · exact (((orderKeys_perm l).map Prod.fst).nodup_iff).mpr h
  · rw [f1, f2]; rfl
  · rw [f1]; exact sortIdx_idxSorted _

mutual
theorem build_normalizes (N : NumCanon) (hN : NumCanonOK N) : ∀ v : JVal, WfVal v → Normal N (build N v)
  | .null, _ => by simp [build, Normal]
  | .bool _, _ => by simp [build, Normal]
  | .num l, h => by
    have hl : NumLexOK l := by simpa [WfVal] using h
    simp only [build, Normal]
    exact ⟨hN.valid l hl, hN.idem l hl⟩
  | .str s, h => by simpa [build, Normal, WfVal] using h
  | .arr xs, h => by
    simp only [build, Normal]
    exact buildList_normalizes N hN xs (by simpa [WfVal] using h)
  | .obj ms, h => by
    have hm := buildMembers_normalizes N hN ms (by simpa [WfVal] using h)
    simp only [build, Normal]
    refine ⟨?_, orderKeys_keysOK _ (nodup_dedupe _)⟩
    rw [normalM_iff] at hm ⊢
    intro p hp
    exact hm p (mem_dedupe ((orderKeys_perm _).mem_iff.mp hp))
theorem buildList_normalizes (N : NumCanon) (hN : NumCanonOK N) : ∀ xs : List JVal, WfList xs → NormalL N (buildList N xs)
  | [], _ => by simp [buildList, NormalL]
  | v :: t, h => by
    simp only [WfList] at h
    simp only [buildList, NormalL]
    exact ⟨build_normalizes N hN v h.1, buildList_normalizes N hN t h.2⟩
theorem buildMembers_normalizes (N : NumCanon) (hN : NumCanonOK N) : ∀ ms : List (Str × JVal), WfMembers ms →
    NormalM N (buildMembers N ms)
  | [], _ => by simp [buildMembers, NormalM]
  | (k, v) :: t, h => by
    simp only [WfMembers] at h
    simp only [buildMembers, NormalM]
    exact ⟨h.1, build_normalizes N hN v h.2.1, buildMembers_normalizes N hN t h.2.2⟩
end

/-- JSON.parse returns values in normal form -/
theorem parse_normal (N : NumCanon) (hN : NumCanonOK N) {t : Str} {v : JVal} (ht : WfStr t) (h : parse N t = some v) :
    Normal N v := by
  unfold parse at h
  cases hp : parseRaw t with
  | none => simp [hp] at h
  | some raw =>
    simp [hp] at h
    subst h
    exact build_normalizes N hN raw (parseRaw_wf ht hp)

end GojaModel.C19
