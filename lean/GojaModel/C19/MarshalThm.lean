/-
  C19: Object.MarshalJSON and JSON.stringify through the mechanism-level serialiser.
-/
import GojaModel.C19.MechThm
namespace GojaModel.C19

/-- value.go:944 Object.MarshalJSON: `ctx.do(o)` with an empty gap, no replacer; "null" when `str` returned false -/
def marshalM (v : MVal) : Str :=
  if (strM [] v [] []).2.2 then (strM [] v [] []).1 else [110, 117, 108, 108]

/-- JSON.stringify(v) through the same mechanism: the text, or undefined -/
def stringifyM (gap : Str) (v : MVal) : Option Str :=
  if (strM gap v [] []).2.2 then some (strM gap v [] []).1 else none

theorem marshalM_eq (v : MVal) : marshalM v = match stringifyM [] v with | some t => t | none => [110, 117, 108, 108] := by
  unfold marshalM stringifyM
  split <;> simp_all

theorem stringifyM_eq (gap : Str) (v : MVal) : stringifyM gap v = (clean v).map (stringify gap) := by
  unfold stringifyM
  rw [mechOK gap v [] []]
  cases clean v <;> simp [stringify]

end GojaModel.C19
