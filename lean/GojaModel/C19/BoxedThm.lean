/-
  C19: `str` with its unwrapping switch (Boxed.strB) refines the specification: TypeError exactly when a BigInt is
  reached; otherwise the mechanism of Mech.lean on the unwrapped value, hence the specified text.
-/
import GojaModel.C19.Boxed
import GojaModel.C19.MechThm
namespace GojaModel.C19

def okOf (r : Str × Str × Bool) : BRes := .ok r.1 r.2.1 r.2.2

/-- what `strB` must do for a value -/
def BoxOK (gap : Str) (v : BVal) : Prop :=
  ∀ buf ind, strB gap v buf ind = if hasBig v then .typeError else okOf (strM gap (lower v) buf ind)

theorem lowerL_isEmpty (xs : List BVal) : (lowerL xs).isEmpty = xs.isEmpty := by
  cases xs <;> simp [lowerL]

theorem jaLoopB_ok (gap sep : Str) (xs : List BVal) (h : ∀ v ∈ xs, BoxOK gap v) :
    ∀ buf ind, jaLoopB gap sep xs buf ind =
      if hasBigL xs then .typeError else .ok (jaLoop gap sep (lowerL xs) buf ind).1 (jaLoop gap sep (lowerL xs) buf ind).2 := by
  induction xs with
  | nil => intro buf ind; simp [jaLoopB, hasBigL, lowerL, jaLoop]
  | cons v t ih =>
    intro buf ind
    have hv := h v (by simp) buf ind
    have iht := ih (fun x hx => h x (by simp [hx]))
    rw [jaLoopB, hv]
    by_cases hb : hasBig v = true
    · simp [hb, hasBigL]
    · have hb' : hasBig v = false := by simpa using hb
      simp only [hb', Bool.false_eq_true, if_false, okOf, hasBigL, Bool.false_or, lowerL, jaLoop, lowerL_isEmpty]
      rw [iht]

theorem joLoopB_ok (gap sep : Str) (ms : List (Str × BVal)) (h : ∀ p ∈ ms, BoxOK gap p.2) :
    ∀ buf ind empty, joLoopB gap sep ms buf ind empty =
      if hasBigM ms then .typeError
      else .ok (joLoop gap sep (lowerM ms) buf ind empty).1 (joLoop gap sep (lowerM ms) buf ind empty).2.1
             (joLoop gap sep (lowerM ms) buf ind empty).2.2 := by
  induction ms with
  | nil => intro buf ind empty; simp [joLoopB, hasBigM, lowerM, joLoop]
  | cons a t ih =>
    obtain ⟨k, v⟩ := a
    intro buf ind empty
    have hv := h (k, v) (by simp) (buf ++ ((if empty then [] else sep) ++ (quote k ++ colon gap))) ind
    have iht := ih (fun x hx => h x (by simp [hx]))
    rw [joLoopB, hv]
    by_cases hb : hasBig v = true
    · simp [hb, hasBigM]
    · have hb' : hasBig v = false := by simpa using hb
      simp only [hb', Bool.false_eq_true, if_false, okOf, hasBigM, Bool.false_or, lowerM]
      rw [joLoop]
      by_cases hok : (strM gap (lower v) (buf ++ ((if empty then [] else sep) ++ (quote k ++ colon gap))) ind).2.2 = true
      · simp only [hok, if_true]
        rw [iht]
      · have hok' : (strM gap (lower v) (buf ++ ((if empty then [] else sep) ++ (quote k ++ colon gap))) ind).2.2 = false := by
          simpa using hok
        simp only [hok', Bool.false_eq_true, if_false]
        rw [iht]

mutual
/-- the mechanism with its unwrapping switch REFINES the specification: TypeError exactly when a BigInt is reached,
    otherwise the mechanism of Mech.lean on the unwrapped value -/
theorem boxOK (gap : Str) : ∀ v : BVal, BoxOK gap v
  | .undef => by intro buf ind; simp [strB, hasBig, lower, strM, okOf]
  | .null => by intro buf ind; simp [strB, hasBig, lower, strM, okOf]
  | .bool b => by intro buf ind; cases b <;> simp [strB, hasBig, lower, strM, okOf]
  | .num l => by intro buf ind; simp [strB, hasBig, lower, strM, okOf]
  | .nonfin => by intro buf ind; simp [strB, hasBig, lower, strM, okOf]
  | .str s => by intro buf ind; simp [strB, hasBig, lower, strM, okOf]
  | .big => by intro buf ind; simp [strB, hasBig]
  | .boxNum l => by intro buf ind; simp [strB, hasBig, lower, strM, okOf]
  | .boxNonfin => by intro buf ind; simp [strB, hasBig, lower, strM, okOf]
  | .boxStr s => by intro buf ind; simp [strB, hasBig, lower, strM, okOf]
  | .boxBool b => by intro buf ind; cases b <;> simp [strB, hasBig, lower, strM, okOf]
  | .boxBig => by intro buf ind; simp [strB, hasBig]
  | .boxSym => by intro buf ind; simp [strB, hasBig, lower, strM, okOf, joLoop]
  | .arr xs => by
    intro buf ind
    cases xs with
    | nil => simp [strB, hasBig, hasBigL, lower, lowerL, strM, okOf]
    | cons a t =>
      have hl := jaLoopB_ok gap (44 :: nl gap (ind ++ gap)) (a :: t) (boxOK_list gap (a :: t))
        (buf ++ (91 :: nl gap (ind ++ gap))) (ind ++ gap)
      simp only [strB, List.isEmpty_cons, Bool.false_eq_true, if_false, hl, hasBig]
      by_cases hb : hasBigL (a :: t) = true
      · simp [hb]
      · have hb' : hasBigL (a :: t) = false := by simpa using hb
        simp [hb', lower, strM, okOf, lowerL]
  | .obj ms => by
    intro buf ind
    have hl := joLoopB_ok gap (44 :: nl gap (ind ++ gap)) ms (boxOK_members gap ms)
      (buf ++ (123 :: nl gap (ind ++ gap))) (ind ++ gap) true
    simp only [strB, hl, hasBig]
    by_cases hb : hasBigM ms = true
    · simp [hb]
    · have hb' : hasBigM ms = false := by simpa using hb
      simp [hb', lower, strM, okOf]
theorem boxOK_list (gap : Str) : ∀ xs : List BVal, ∀ v ∈ xs, BoxOK gap v
  | [], _, h => by cases h
  | a :: t, v, h => by
    cases h with
    | head => exact boxOK gap a
    | tail _ h' => exact boxOK_list gap t v h'
theorem boxOK_members (gap : Str) : ∀ ms : List (Str × BVal), ∀ p ∈ ms, BoxOK gap p.2
  | [], _, h => by cases h
  | (k, a) :: t, p, h => by
    cases h with
    | head => exact boxOK gap a
    | tail _ h' => exact boxOK_members gap t p h'
end

/-- the specification: a reachable BigInt throws; otherwise the specified text of the unwrapped, cleaned value -/
def stringifyBSpec (gap : Str) (v : BVal) : SRes :=
  if hasBig v then .typeError
  else match clean (lower v) with
    | some j => .text (stringify gap j)
    | none => .undef

theorem stringifyB_eq_spec (gap : Str) (v : BVal) : stringifyB gap v = stringifyBSpec gap v := by
  unfold stringifyB stringifyBSpec
  rw [boxOK gap v [] []]
  by_cases hb : hasBig v = true
  · simp [hb]
  · have hb' : hasBig v = false := by simpa using hb
    simp only [hb', Bool.false_eq_true, if_false, okOf, mechOK gap (lower v) [] []]
    cases clean (lower v) <;> simp [stringify]

end GojaModel.C19
