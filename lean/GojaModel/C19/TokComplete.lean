/-
  C19: grammar ⇒ mechanism: every derivable value text is accepted by the token-stream parser of Tok.lean with the
  denoted tree (`gram_compAll`), for every entry state and stack, with an explicit fuel bound.
-/
import GojaModel.C19.TokScalar
namespace GojaModel.C19

mutual
def gT : JVal → Nat
  | .arr xs => gA xs + 1
  | .obj ms => gO ms + 1
  | _ => 1
def gA : List JVal → Nat
  | [] => 1
  | x :: t => max (gT x) (gA t) + 1
def gO : List (Str × JVal) → Nat
  | [] => 1
  | (_, v) :: t => max (gT v + 1) (gO t) + 1
end

theorem gT_pos (v : JVal) : 1 ≤ gT v := by cases v <;> simp [gT]

theorem tokenStep_ws (w s : Str) (st : TState) (stk : List TState) (hw : AllWs w) :
    tokenStep ⟨w ++ s, st, stk⟩ = tokenStep ⟨s, st, stk⟩ := by
  unfold tokenStep
  simp only [skipWs_append_ws w s hw, popState]

/-- in a state in which a value may start, one pass of the loop always finishes (no `continue`) -/
theorem tokenStep_value_done (s : Str) (st : TState) (stk : List TState) (hv : valueAllowed st = true) :
    ∃ r, tokenStep ⟨s, st, stk⟩ = .done r := by
  unfold tokenStep
  cases skipWs s with
  | nil => exact ⟨_, rfl⟩
  | cons c r =>
    have h1 : st ≠ .objectColon := by intro e; subst e; simp [valueAllowed] at hv
    have h2 : st ≠ .arrayComma := by intro e; subst e; simp [valueAllowed] at hv
    have h3 : st ≠ .objectComma := by intro e; subst e; simp [valueAllowed] at hv
    simp only [h1, h2, h3, hv, if_true, if_false]
    repeat' split
    all_goals exact ⟨_, rfl⟩

theorem token_of_done {d : Decoder} {r : TRes} (h : tokenStep d = .done r) : token d = r := by
  simp [token, h]

/-- `,` between array elements: consumed, then the token of the next element in state arrayValue -/
theorem token_array_comma (w s2 : Str) (stk : List TState) (hw : AllWs w) :
    token ⟨w ++ 44 :: s2, .arrayComma, stk⟩ = token ⟨s2, .arrayValue, stk⟩ := by
  obtain ⟨r, hr⟩ := tokenStep_value_done s2 .arrayValue stk rfl
  have h1 : tokenStep ⟨w ++ 44 :: s2, .arrayComma, stk⟩ = .again ⟨s2, .arrayValue, stk⟩ := by
    rw [tokenStep_ws _ _ _ _ hw]
    simp [tokenStep, skipWs, isWs]
  simp [token, h1, hr]

/-- `:` after a key: consumed, then the token of the member value in state objectValue -/
theorem token_colon (w s2 : Str) (stk : List TState) (hw : AllWs w) :
    token ⟨w ++ 58 :: s2, .objectColon, stk⟩ = token ⟨s2, .objectValue, stk⟩ := by
  obtain ⟨r, hr⟩ := tokenStep_value_done s2 .objectValue stk rfl
  have h1 : tokenStep ⟨w ++ 58 :: s2, .objectColon, stk⟩ = .again ⟨s2, .objectValue, stk⟩ := by
    rw [tokenStep_ws _ _ _ _ hw]
    simp [tokenStep, skipWs, isWs]
  simp [token, h1, hr]

/-- in state objectKey a pass never continues either -/
theorem tokenStep_key_done (s : Str) (stk : List TState) : ∃ r, tokenStep ⟨s, .objectKey, stk⟩ = .done r := by
  unfold tokenStep
  cases skipWs s with
  | nil => exact ⟨_, rfl⟩
  | cons c r =>
    simp only [valueAllowed]
    repeat' split
    all_goals first | exact ⟨_, rfl⟩ | simp_all

theorem token_object_comma (w s2 : Str) (stk : List TState) (hw : AllWs w) :
    token ⟨w ++ 44 :: s2, .objectComma, stk⟩ = token ⟨s2, .objectKey, stk⟩ := by
  obtain ⟨r, hr⟩ := tokenStep_key_done s2 stk
  have h1 : tokenStep ⟨w ++ 44 :: s2, .objectComma, stk⟩ = .again ⟨s2, .objectKey, stk⟩ := by
    rw [tokenStep_ws _ _ _ _ hw]
    simp [tokenStep, skipWs, isWs]
  simp [token, h1, hr]

/-! ### grammar ⇒ mechanism -/

def CompV (s : Str) (v : JVal) (r : Str) : Prop :=
  ∀ (w : Str) (st : TState) (stk : List TState) (f : Nat), AllWs w → valueAllowed st = true → Follow r → gT v ≤ f →
    ∃ t d1, tokenStep ⟨w ++ s, st, stk⟩ = .done (.tok t d1) ∧ t ≠ .delim 93 ∧ t ≠ .delim 125 ∧
      gToken f t d1 = some (v, ⟨r, valueEnd st, stk⟩)

/-- the loop of decodeArray started on the text after `[` (state arrayStart) or after `,` (state arrayValue) -/
def CompA (s2 : Str) (xs : List JVal) (r : Str) : Prop :=
  ∀ (stA p : TState) (stk : List TState) (f : Nat), (stA = .arrayStart ∨ stA = .arrayValue) → gA xs ≤ f →
    gArray f ⟨s2, stA, p :: stk⟩ = some (xs, ⟨r, valueEnd p, stk⟩)

/-- the loop of decodeObject started on the text after `{` (state objectStart) or after `,` (state objectKey) -/
def CompO (s2 : Str) (ms : List (Str × JVal)) (r : Str) : Prop :=
  ∀ (stO p : TState) (stk : List TState) (f : Nat), (stO = .objectStart ∨ stO = .objectKey) → gO ms ≤ f →
    gObject f ⟨s2, stO, p :: stk⟩ = some (ms, ⟨r, valueEnd p, stk⟩)

def CompAll (s : Str) (v : JVal) (r : Str) : Prop :=
  CompV s v r ∧
  (∀ s2 x t, s = 91 :: s2 → v = .arr (x :: t) → CompA s2 (x :: t) r) ∧
  (∀ s2 p t, s = 123 :: s2 → v = .obj (p :: t) → CompO s2 (p :: t) r)

theorem compV_scalar {s : Str} {v : JVal} {r : Str} (hg : Gram s v r) (hv : IsScalar v)
    (hne : ∀ c tl, s = c :: tl → c ≠ 91 ∧ c ≠ 93 ∧ c ≠ 123 ∧ c ≠ 125 ∧ c ≠ 58 ∧ c ≠ 44) : CompV s v r := by
  intro w st stk f hw hst hfo hf
  obtain ⟨c, tl, rfl, hcw, _, _⟩ := gram_head hg
  obtain ⟨h1, h2, h3, h4, h5, h6⟩ := hne c tl rfl
  have hsc := scanScalar_complete hg hv hfo
  have hkey : ¬ (st = .objectStart ∨ st = .objectKey) := by
    rintro (e | e) <;> (subst e; simp [valueAllowed] at hst)
  refine ⟨.val v, ⟨r, valueEnd st, stk⟩, ?_, by simp, by simp, ?_⟩
  · rw [tokenStep_ws _ _ _ _ hw]
    unfold tokenStep
    simp only [skipWs_nonws hcw, h1, h2, h3, h4, h5, h6, hkey, and_false, if_false, hst, if_true, hsc]
  · cases f with
    | zero => have := gT_pos v; omega
    | succ f => simp [gToken]

theorem gArray_of_token {f : Nat} {d d' : Decoder} (h : token d = token d') : gArray (f + 1) d = gArray (f + 1) d' := by
  simp [gArray, h]

theorem gObject_of_token {f : Nat} {d d' : Decoder} (h : token d = token d') : gObject (f + 1) d = gObject (f + 1) d' := by
  simp [gObject, h]

theorem compA_to_V {s2 : Str} {x : JVal} {t : List JVal} {r : Str} (h : CompA s2 (x :: t) r) :
    CompV (91 :: s2) (.arr (x :: t)) r := by
  intro w st stk f hw hst _ hf
  refine ⟨.delim 91, ⟨s2, .arrayStart, st :: stk⟩, ?_, by simp, by simp, ?_⟩
  · rw [tokenStep_ws _ _ _ _ hw]
    simp [tokenStep, skipWs, isWs, hst]
  · cases f with
    | zero => simp [gT] at hf
    | succ f =>
      have := h .arrayStart st stk f (Or.inl rfl) (by simp [gT] at hf; omega)
      simp [gToken, this]

theorem compO_to_V {s2 : Str} {p : Str × JVal} {t : List (Str × JVal)} {r : Str} (h : CompO s2 (p :: t) r) :
    CompV (123 :: s2) (.obj (p :: t)) r := by
  intro w st stk f hw hst _ hf
  refine ⟨.delim 123, ⟨s2, .objectStart, st :: stk⟩, ?_, by simp, by simp, ?_⟩
  · rw [tokenStep_ws _ _ _ _ hw]
    simp [tokenStep, skipWs, isWs, hst]
  · cases f with
    | zero => simp [gT] at hf
    | succ f =>
      have := h .objectStart st stk f (Or.inl rfl) (by simp [gT] at hf; omega)
      simp [gToken, this]

theorem gArray_step {f : Nat} {d d1 : Decoder} {t : Tok} (ht : token d = .tok t d1) (hne : t ≠ .delim 93) :
    gArray (f + 1) d =
      match gToken f t d1 with
      | some (v, d2) => (match gArray f d2 with
                         | some (xs, d3) => some (v :: xs, d3)
                         | none => none)
      | none => none := by
  rw [gArray, ht]
  cases t with
  | val v => rfl
  | delim c =>
    by_cases hc : c = 93
    · subst hc; exact absurd rfl hne
    · split
      · rename_i heq; injection heq with h1 _; injection h1 with h2; exact absurd h2 hc
      · rename_i heq; injection heq with h1 h2; subst h1; subst h2; rfl
      · rename_i _ h; exact (h _ _ rfl).elim

theorem gArray_close (f : Nat) (w r : Str) (p : TState) (stk : List TState) (hw : AllWs w) :
    gArray (f + 1) ⟨w ++ 93 :: r, .arrayComma, p :: stk⟩ = some ([], ⟨r, valueEnd p, stk⟩) := by
  have h1 : tokenStep ⟨w ++ 93 :: r, .arrayComma, p :: stk⟩ = .done (.tok (.delim 93) ⟨r, valueEnd p, stk⟩) := by
    rw [tokenStep_ws _ _ _ _ hw]
    simp [tokenStep, skipWs, isWs, popState]
  simp [gArray, token_of_done h1]

theorem gObject_close (f : Nat) (w r : Str) (p : TState) (stk : List TState) (hw : AllWs w) :
    gObject (f + 1) ⟨w ++ 125 :: r, .objectComma, p :: stk⟩ = some ([], ⟨r, valueEnd p, stk⟩) := by
  have h1 : tokenStep ⟨w ++ 125 :: r, .objectComma, p :: stk⟩ = .done (.tok (.delim 125) ⟨r, valueEnd p, stk⟩) := by
    rw [tokenStep_ws _ _ _ _ hw]
    simp [tokenStep, skipWs, isWs, popState]
  simp [gObject, token_of_done h1]

theorem valueEnd_entry {stA : TState} (h : stA = .arrayStart ∨ stA = .arrayValue) :
    valueAllowed stA = true ∧ valueEnd stA = .arrayComma := by
  rcases h with rfl | rfl <;> exact ⟨rfl, rfl⟩

/-- first element of the array loop -/
theorem compA_head {w1 s : Str} {v : JVal} {rest : Str} (hw1 : AllWs w1) (hv : CompV s v rest) (hfo : Follow rest)
    (stA p : TState) (stk : List TState) (f : Nat) (hA : stA = .arrayStart ∨ stA = .arrayValue) (hf : gT v ≤ f) :
    gArray (f + 1) ⟨w1 ++ s, stA, p :: stk⟩ =
      match gArray f ⟨rest, .arrayComma, p :: stk⟩ with
      | some (xs, d3) => some (v :: xs, d3)
      | none => none := by
  obtain ⟨hal, hend⟩ := valueEnd_entry hA
  obtain ⟨t, d1, ht, hne, _, hg⟩ := hv w1 stA (p :: stk) f hw1 hal hfo hf
  rw [gArray_step (token_of_done ht) hne, hg, hend]

theorem key_token {w1 b k rest : Str} (hw1 : AllWs w1) (hb : StrBody b k) (stO : TState) (stk : List TState)
    (hO : stO = .objectStart ∨ stO = .objectKey) :
    token ⟨w1 ++ 34 :: (b ++ 34 :: rest), stO, stk⟩ = .tok (.val (.str k)) ⟨rest, .objectColon, stk⟩ := by
  apply token_of_done
  rw [tokenStep_ws _ _ _ _ hw1]
  unfold tokenStep
  simp only [skipWs_nonws (show isWs 34 = false by decide), show ¬ (34 : Nat) = 91 from by decide,
    show ¬ (34 : Nat) = 93 from by decide, show ¬ (34 : Nat) = 123 from by decide, show ¬ (34 : Nat) = 125 from by decide,
    show ¬ (34 : Nat) = 58 from by decide, show ¬ (34 : Nat) = 44 from by decide, if_false, hO, and_self, if_true,
    strBody_complete hb rest]

/-- one member of the object loop: key, colon, value -/
theorem compO_head {w1 w2 w3 b k s : Str} {v : JVal} {rest : Str} (hw1 : AllWs w1) (hw2 : AllWs w2) (hw3 : AllWs w3)
    (hb : StrBody b k) (hv : CompV s v rest) (hfo : Follow rest)
    (stO p : TState) (stk : List TState) (f : Nat) (hO : stO = .objectStart ∨ stO = .objectKey) (hf : gT v + 1 ≤ f) :
    gObject (f + 1) ⟨w1 ++ 34 :: (b ++ 34 :: (w2 ++ 58 :: (w3 ++ s))), stO, p :: stk⟩ =
      match gObject f ⟨rest, .objectComma, p :: stk⟩ with
      | some (ms, d3) => some ((k, v) :: ms, d3)
      | none => none := by
  rw [gObject, key_token hw1 hb stO (p :: stk) hO]
  cases f with
  | zero => omega
  | succ f' =>
    obtain ⟨t, d1, ht, _, _, hg⟩ := hv w3 .objectValue (p :: stk) f' hw3 rfl hfo (by omega)
    have hval : gValue (f' + 1) ⟨w2 ++ 58 :: (w3 ++ s), .objectColon, p :: stk⟩ = some (v, ⟨rest, .objectComma, p :: stk⟩) := by
      rw [gValue, token_colon _ _ _ hw2, token_of_done ht]
      exact hg
    simp only [hval]
    rfl

theorem gram_compAll {s : Str} {v : JVal} {r : Str} (h : Gram s v r) : CompAll s v r := by
  induction h with
  | null r =>
    exact ⟨compV_scalar (Gram.null r) trivial (by intro c tl h; injection h with h1 _; subst h1; decide),
      (fun _ _ _ _ hv => by cases hv), (fun _ _ _ _ hv => by cases hv)⟩
  | tru r =>
    exact ⟨compV_scalar (Gram.tru r) trivial (by intro c tl h; injection h with h1 _; subst h1; decide),
      (fun _ _ _ _ hv => by cases hv), (fun _ _ _ _ hv => by cases hv)⟩
  | fls r =>
    exact ⟨compV_scalar (Gram.fls r) trivial (by intro c tl h; injection h with h1 _; subst h1; decide),
      (fun _ _ _ _ hv => by cases hv), (fun _ _ _ _ hv => by cases hv)⟩
  | @num l r hl =>
    refine ⟨compV_scalar (Gram.num r hl) trivial ?_, (fun _ _ _ _ hv => by cases hv), (fun _ _ _ _ hv => by cases hv)⟩
    intro c tl h
    obtain ⟨c', tl', rfl, hc⟩ := numLex_head (numGram_lexOK hl)
    simp only [List.cons_append] at h
    injection h with h1 _
    subst h1
    rcases hc with rfl | hd
    · decide
    · simp [isDigit] at hd; omega
  | @str b u r hb =>
    exact ⟨compV_scalar (Gram.str r hb) trivial (by intro c tl h; injection h with h1 _; subst h1; decide),
      (fun _ _ _ _ hv => by cases hv), (fun _ _ _ _ hv => by cases hv)⟩
  | @arrNil w0 r hw0 =>
    refine ⟨?_, (fun _ _ _ _ hv => by cases hv), (fun _ _ _ _ hv => by cases hv)⟩
    intro w st stk f hw hst _ hf
    refine ⟨.delim 91, ⟨w0 ++ 93 :: r, .arrayStart, st :: stk⟩, ?_, by simp, by simp, ?_⟩
    · rw [tokenStep_ws _ _ _ _ hw]
      simp [tokenStep, skipWs, isWs, hst]
    · match f, hf with
      | f' + 2, _ =>
        have h1 : tokenStep ⟨w0 ++ 93 :: r, .arrayStart, st :: stk⟩ = .done (.tok (.delim 93) ⟨r, valueEnd st, stk⟩) := by
          rw [tokenStep_ws _ _ _ _ hw0]
          simp [tokenStep, skipWs, isWs, popState]
        simp [gToken, gArray, token_of_done h1]
      | 0, hf => simp [gT, gA] at hf
      | 1, hf => simp [gT, gA] at hf
  | @arrOne w1 w2 s v r hw1 hw2 hg ih =>
    have hA : CompA (w1 ++ s) [v] r := by
      intro stA p stk f hA hf
      match f, hf with
      | f' + 2, hf =>
        have hfv : gT v ≤ f' + 1 := by simp [gA] at hf; omega
        rw [compA_head hw1 ih.1 (follow_ws_then hw2 93 r (by simp)) stA p stk (f' + 1) hA hfv, gArray_close f' w2 r p stk hw2]
      | 0, hf => simp [gA] at hf
      | 1, hf => have := gT_pos v; simp only [gA] at hf; omega
    exact ⟨compA_to_V hA, (fun s2 x t hs hv => by injection hs with _ h2; injection hv with h3; subst h2; rw [← h3]; exact hA),
      (fun _ _ _ _ hv => by cases hv)⟩
  | @arrCons w1 w2 s s2 v x t r hw1 hw2 hg hgt ih1 ih2 =>
    have hRest : CompA s2 (x :: t) r := ih2.2.1 s2 x t rfl rfl
    have hA : CompA (w1 ++ s) (v :: x :: t) r := by
      intro stA p stk f hA hf
      match f, hf with
      | f' + 2, hf =>
        have hfv : gT v ≤ f' + 1 ∧ gA (x :: t) ≤ f' + 1 := by simp only [gA] at hf ⊢; omega
        rw [compA_head hw1 ih1.1 (follow_ws_then hw2 44 s2 (by simp)) stA p stk (f' + 1) hA hfv.1,
          gArray_of_token (token_array_comma w2 s2 (p :: stk) hw2), hRest .arrayValue p stk (f' + 1) (Or.inr rfl) hfv.2]
      | 0, hf => simp [gA] at hf
      | 1, hf => have := gT_pos v; simp only [gA] at hf; omega
    exact ⟨compA_to_V hA, (fun s2' x' t' hs hv => by injection hs with _ h2; injection hv with h3; subst h2; rw [← h3]; exact hA),
      (fun _ _ _ _ hv => by cases hv)⟩
  | @objNil w0 r hw0 =>
    refine ⟨?_, (fun _ _ _ _ hv => by cases hv), (fun _ _ _ _ hv => by cases hv)⟩
    intro w st stk f hw hst _ hf
    refine ⟨.delim 123, ⟨w0 ++ 125 :: r, .objectStart, st :: stk⟩, ?_, by simp, by simp, ?_⟩
    · rw [tokenStep_ws _ _ _ _ hw]
      simp [tokenStep, skipWs, isWs, hst]
    · match f, hf with
      | f' + 2, _ =>
        have h1 : tokenStep ⟨w0 ++ 125 :: r, .objectStart, st :: stk⟩ = .done (.tok (.delim 125) ⟨r, valueEnd st, stk⟩) := by
          rw [tokenStep_ws _ _ _ _ hw0]
          simp [tokenStep, skipWs, isWs, popState]
        simp [gToken, gObject, token_of_done h1]
      | 0, hf => simp [gT, gO] at hf
      | 1, hf => simp [gT, gO] at hf
  | @objOne w1 w2 w3 w4 b k s v r hw1 hw2 hw3 hw4 hb hg ih =>
    have hO : CompO (w1 ++ 34 :: (b ++ 34 :: (w2 ++ 58 :: (w3 ++ s)))) [(k, v)] r := by
      intro stO p stk f hO hf
      match f, hf with
      | f' + 2, hf =>
        have hfv : gT v + 1 ≤ f' + 1 := by simp [gO] at hf; omega
        rw [compO_head hw1 hw2 hw3 hb ih.1 (follow_ws_then hw4 125 r (by simp)) stO p stk (f' + 1) hO hfv,
          gObject_close f' w4 r p stk hw4]
      | 0, hf => simp [gO] at hf
      | 1, hf => simp [gO] at hf
    exact ⟨compO_to_V hO, (fun _ _ _ _ hv => by cases hv),
      (fun s2 p t hs hv => by injection hs with _ h2; injection hv with h3; subst h2; rw [← h3]; exact hO)⟩
  | @objCons w1 w2 w3 w4 b k s s2 v p t r hw1 hw2 hw3 hw4 hb hg hgt ih1 ih2 =>
    have hRest : CompO s2 (p :: t) r := ih2.2.2 s2 p t rfl rfl
    have hO : CompO (w1 ++ 34 :: (b ++ 34 :: (w2 ++ 58 :: (w3 ++ s)))) ((k, v) :: p :: t) r := by
      intro stO q stk f hO hf
      match f, hf with
      | f' + 2, hf =>
        have hfv : gT v + 1 ≤ f' + 1 ∧ gO (p :: t) ≤ f' + 1 := by
          obtain ⟨pk, pv⟩ := p
          simp only [gO] at hf ⊢; omega
        rw [compO_head hw1 hw2 hw3 hb ih1.1 (follow_ws_then hw4 44 s2 (by simp)) stO q stk (f' + 1) hO hfv.1,
          gObject_of_token (token_object_comma w4 s2 (q :: stk) hw4), hRest .objectKey q stk (f' + 1) (Or.inr rfl) hfv.2]
      | 0, hf => simp [gO] at hf
      | 1, hf => simp [gO] at hf
    exact ⟨compO_to_V hO, (fun _ _ _ _ hv => by cases hv),
      (fun s2' p' t' hs hv => by injection hs with _ h2; injection hv with h3; subst h2; rw [← h3]; exact hO)⟩

end GojaModel.C19
