/-
  C19: array-index keys are canonical (`idxOf (idxKey i) = some i`), and the refinement between the two reviver models:
  for a reviver that never edits its holder the editing walk (ReviverMut.walkM) IS the stateful walk of Reviver.lean.
-/
import GojaModel.C19.ReviverMut
import GojaModel.C19.RoundTrip
set_option linter.unusedSimpArgs false

namespace GojaModel.C19

theorem digitsVal_append (a b : Str) (acc : Nat) : digitsVal (a ++ b) acc = digitsVal b (digitsVal a acc) := by
  induction a generalizing acc with
  | nil => rfl
  | cons c t ih => simp [digitsVal, ih]

theorem idxKey_lt10 (n : Nat) (h : n < 10) : idxKey n = [48 + n] := by
  simp [idxKey, Nat.toDigits_of_lt_base h, Nat.toNat_digitChar_of_lt_ten h]

theorem idxKey_ge10 (n : Nat) (h : 10 ≤ n) : idxKey n = idxKey (n / 10) ++ [48 + n % 10] := by
  simp [idxKey, Nat.toDigits_of_base_le (by decide) h, Nat.toNat_digitChar_of_lt_ten (Nat.mod_lt n (by decide))]

/-- shape of the decimal text of an index: digits only, value n, first digit non-zero unless n = 0, length bound -/
theorem idxKey_spec : ∀ (m n : Nat), n < 10 ^ (m + 1) →
    (idxKey n).all isDigit = true ∧ digitsVal (idxKey n) 0 = n ∧ (idxKey n).length ≤ m + 1 ∧
      ∃ c r, idxKey n = c :: r ∧ (c = 48 → n = 0 ∧ r = []) := by
  intro m
  induction m with
  | zero =>
    intro n h
    have h10 : n < 10 := by simpa using h
    rw [idxKey_lt10 n h10]
    refine ⟨by simp [isDigit]; omega, by simp [digitsVal], by simp, 48 + n, [], rfl, by intro e; exact ⟨by omega, rfl⟩⟩
  | succ m ih =>
    intro n h
    by_cases h10 : n < 10
    · rw [idxKey_lt10 n h10]
      refine ⟨by simp [isDigit]; omega, by simp [digitsVal], by simp, 48 + n, [], rfl, by intro e; exact ⟨by omega, rfl⟩⟩
    · have hge : 10 ≤ n := by omega
      have hq : n / 10 < 10 ^ (m + 1) := by
        have : 10 ^ (m + 1 + 1) = 10 * 10 ^ (m + 1) := by rw [Nat.pow_succ]; omega
        omega
      obtain ⟨a1, a2, a3, c, r, a4, a5⟩ := ih (n / 10) hq
      rw [idxKey_ge10 n hge]
      refine ⟨?_, ?_, ?_, c, r ++ [48 + n % 10], by rw [a4]; rfl, ?_⟩
      · simp only [List.all_append, a1, Bool.true_and]
        simp [isDigit]; omega
      · rw [digitsVal_append, a2]
        simp [digitsVal]; omega
      · simp; omega
      · intro e
        have := (a5 e).1
        omega

theorem idxOf_idxKey (n : Nat) (h : n < 4294967295) : idxOf (idxKey n) = some n := by
  obtain ⟨a1, a2, a3, c, r, a4, a5⟩ := idxKey_spec 9 n (by omega)
  unfold idxOf
  rw [a4]
  simp only []
  rw [← a4]
  have hlead : (c != 48 || r.isEmpty) = true := by
    by_cases hc : c = 48
    · simp [(a5 hc).2]
    · simp [hc]
  simp [a1, hlead, a3, a2, h]

/-! ### a reviver that never edits its holder: the editing walk is the stateless-holder walk of Reviver.lean -/

def liftM {σ : Type} (R : ReviverS σ) : ReviverM σ := fun s h k v =>
  match v with
  | some x => ((R s k x).1, (R s k x).2, h)
  | none => (s, none, h)

theorem emb_ne_hole (v : JVal) : emb v ≠ .hole := by cases v <;> simp [emb]

theorem embList_length (xs : List JVal) : (embList xs).length = xs.length := by
  induction xs with
  | nil => rfl
  | cons a t ih => simp [embList, ih]

theorem ownKeys_embMembers (ms : List (Str × JVal)) : ownKeys (embMembers ms) = ms.map Prod.fst := by
  induction ms with
  | nil => rfl
  | cons a t ih => obtain ⟨k, v⟩ := a; simp [embMembers, ownKeys, ih]

/-- array content `done ++ a :: tail`, position `done.length` -/
theorem arr_get (done tail : List RVal) (a : RVal) (hi : done.length < 4294967295) (ha : a ≠ .hole) :
    rGet (.arr (done ++ a :: tail)) (idxKey done.length) = some a := by
  simp only [rGet, idxOf_idxKey _ hi]
  have : (done ++ a :: tail)[done.length]? = some a := by simp
  rw [this]
  cases a <;> simp_all

theorem arr_define (done tail : List RVal) (a b : RVal) (hi : done.length < 4294967295) :
    rDefine (.arr (done ++ a :: tail)) (idxKey done.length) b = .arr (done ++ b :: tail) := by
  simp only [rDefine, idxOf_idxKey _ hi]
  have : done.length < (done ++ a :: tail).length := by simp
  simp [this]

theorem arr_delete (done tail : List RVal) (a : RVal) (hi : done.length < 4294967295) :
    rDelete (.arr (done ++ a :: tail)) (idxKey done.length) = .arr (done ++ .hole :: tail) := by
  simp only [rDelete, idxOf_idxKey _ hi]
  have : done.length < (done ++ a :: tail).length := by simp
  simp [this]

def rkeys (ms : List (Str × RVal)) : List Str := ms.map Prod.fst

theorem lookupR_none {k : Str} {ms : List (Str × RVal)} (h : k ∉ rkeys ms) : lookupR k ms = none := by
  induction ms with
  | nil => rfl
  | cons a t ih =>
    obtain ⟨k', v⟩ := a
    have h1 : k' ≠ k := by intro e; apply h; simp [rkeys, e]
    have h2 : k ∉ rkeys t := by intro e; apply h; simp [rkeys] at e ⊢; exact Or.inr e
    simp [lookupR, h1, ih h2]

theorem obj_get (done tail : List (Str × RVal)) (k : Str) (a : RVal) (hd : k ∉ rkeys done) :
    rGet (.obj (done ++ (k, a) :: tail)) k = some a := by
  simp only [rGet]
  induction done with
  | nil => simp [lookupR]
  | cons p t ih =>
    obtain ⟨k', v⟩ := p
    have h1 : k' ≠ k := by intro e; apply hd; simp [rkeys, e]
    have h2 : k ∉ rkeys t := by intro e; apply hd; simp [rkeys] at e ⊢; exact Or.inr e
    simp [lookupR, h1, ih h2]

theorem obj_define (done tail : List (Str × RVal)) (k : Str) (a b : RVal) (hd : k ∉ rkeys done) (ht : k ∉ rkeys tail) :
    rDefine (.obj (done ++ (k, a) :: tail)) k b = .obj (done ++ (k, b) :: tail) := by
  have hg := obj_get done tail k a hd
  simp only [rGet] at hg
  simp only [rDefine, hg, Option.isSome_some, if_true]
  congr 1
  have m1 : ∀ l : List (Str × RVal), k ∉ rkeys l → l.map (fun p => if p.1 = k then (p.1, b) else p) = l := by
    intro l hl
    induction l with
    | nil => rfl
    | cons p t ih =>
      have h1 : p.1 ≠ k := by intro e; apply hl; simp [rkeys, e]
      have h2 : k ∉ rkeys t := by intro e; apply hl; simp [rkeys] at e ⊢; exact Or.inr e
      simp [h1, ih h2]
  simp [m1 done hd, m1 tail ht]

theorem obj_delete (done tail : List (Str × RVal)) (k : Str) (a : RVal) (hd : k ∉ rkeys done) (ht : k ∉ rkeys tail) :
    rDelete (.obj (done ++ (k, a) :: tail)) k = .obj (done ++ tail) := by
  have m1 : ∀ l : List (Str × RVal), k ∉ rkeys l → l.filter (fun p => p.1 != k) = l := by
    intro l hl
    induction l with
    | nil => rfl
    | cons p t ih =>
      have h1 : p.1 ≠ k := by intro e; apply hl; simp [rkeys, e]
      have h2 : k ∉ rkeys t := by intro e; apply hl; simp [rkeys] at e ⊢; exact Or.inr e
      simp [h1, ih h2]
  simp [rDelete, m1 done hd, m1 tail ht]

mutual
/-- arrays shorter than 2^32-1 (every index is an array index), objects with distinct keys — what JSON.parse builds -/
def Tame : JVal → Prop
  | .arr xs => xs.length < 4294967295 ∧ TameL xs
  | .obj ms => (ms.map Prod.fst).Nodup ∧ TameM ms
  | _ => True
def TameL : List JVal → Prop
  | [] => True
  | v :: t => Tame v ∧ TameL t
def TameM : List (Str × JVal) → Prop
  | [] => True
  | (_, v) :: t => Tame v ∧ TameM t
end

/-- the holder after the walk of `holder[key] = v`: a container has been replaced by its revived content -/
def afterWalk {σ : Type} (R : ReviverS σ) (holder : RVal) (key : Str) (v : JVal) (s : σ) : RVal :=
  match v with
  | .arr xs => rDefine holder key (.arr (reviveElemsS R 0 xs s).2)
  | .obj ms => rDefine holder key (.obj (reviveMembersS R ms s).2)
  | _ => holder

theorem afterWalk_arr_shape {σ : Type} (R : ReviverS σ) (done tail : List RVal) (x : JVal) (s : σ)
    (hi : done.length < 4294967295) :
    ∃ a', afterWalk R (.arr (done ++ emb x :: tail)) (idxKey done.length) x s = .arr (done ++ a' :: tail) := by
  cases x with
  | arr xs => exact ⟨_, arr_define done tail _ _ hi⟩
  | obj ms => exact ⟨_, arr_define done tail _ _ hi⟩
  | null => exact ⟨_, rfl⟩
  | bool b => exact ⟨_, rfl⟩
  | num l => exact ⟨_, rfl⟩
  | str t => exact ⟨_, rfl⟩

theorem afterWalk_obj_shape {σ : Type} (R : ReviverS σ) (done tail : List (Str × RVal)) (k : Str) (x : JVal) (s : σ)
    (hd : k ∉ rkeys done) (ht : k ∉ rkeys tail) :
    ∃ a', afterWalk R (.obj (done ++ (k, emb x) :: tail)) k x s = .obj (done ++ (k, a') :: tail) := by
  cases x with
  | arr xs => exact ⟨_, obj_define done tail k _ _ hd ht⟩
  | obj ms => exact ⟨_, obj_define done tail k _ _ hd ht⟩
  | null => exact ⟨_, rfl⟩
  | bool b => exact ⟨_, rfl⟩
  | num l => exact ⟨_, rfl⟩
  | str t => exact ⟨_, rfl⟩

theorem rkeys_embMembers (ms : List (Str × JVal)) : rkeys (embMembers ms) = ms.map Prod.fst := by
  induction ms with
  | nil => rfl
  | cons a t ih => obtain ⟨k, v⟩ := a; simp [embMembers, rkeys] at ih ⊢; exact ih

mutual
theorem walkM_lift {σ : Type} (R : ReviverS σ) : ∀ (v : JVal) (f : Nat) (s : σ) (holder : RVal) (key : Str),
    need v ≤ f → Tame v → rGet holder key = some (emb v) →
    walkM (liftM R) f s holder key = some ((reviveS R key v s).1, (reviveS R key v s).2, afterWalk R holder key v s)
  | .null, f, s, holder, key, hf, _, hg => by
    cases f with
    | zero => simp [need] at hf
    | succ f => rw [walkM]; simp [hg, emb, liftM, reviveS, afterWalk]
  | .bool b, f, s, holder, key, hf, _, hg => by
    cases f with
    | zero => simp [need] at hf
    | succ f => rw [walkM]; simp [hg, emb, liftM, reviveS, afterWalk]
  | .num l, f, s, holder, key, hf, _, hg => by
    cases f with
    | zero => simp [need] at hf
    | succ f => rw [walkM]; simp [hg, emb, liftM, reviveS, afterWalk]
  | .str t, f, s, holder, key, hf, _, hg => by
    cases f with
    | zero => simp [need] at hf
    | succ f => rw [walkM]; simp [hg, emb, liftM, reviveS, afterWalk]
  | .arr xs, f, s, holder, key, hf, ht, hg => by
    cases f with
    | zero => simp [need] at hf
    | succ f =>
      simp only [Tame] at ht
      have hw := walkIdx_lift R xs [] f s (by simp [need] at hf; omega) ht.2 (by simpa using ht.1)
      simp only [List.nil_append, List.length_nil] at hw
      rw [walkM]
      simp only [hg, emb, embList_length, hw, liftM, reviveS, afterWalk]
  | .obj ms, f, s, holder, key, hf, ht, hg => by
    cases f with
    | zero => simp [need] at hf
    | succ f =>
      simp only [Tame] at ht
      have hw := walkKeys_lift R ms [] f s (by simp [need] at hf; omega) ht.2 (by simpa [rkeys] using ht.1)
      simp only [List.nil_append] at hw
      rw [walkM]
      simp only [hg, emb, ownKeys_embMembers, hw, liftM, reviveS, afterWalk]
theorem walkIdx_lift {σ : Type} (R : ReviverS σ) : ∀ (rest : List JVal) (done : List RVal) (f : Nat) (s : σ),
    needL rest ≤ f → TameL rest → done.length + rest.length < 4294967295 →
    walkIdx (liftM R) f s (.arr (done ++ embList rest)) done.length rest.length =
      some ((reviveElemsS R done.length rest s).1, .arr (done ++ (reviveElemsS R done.length rest s).2))
  | [], done, f, s, _, _, _ => by
    cases f <;> simp [walkIdx, embList, reviveElemsS]
  | x :: t, done, f, s, hf, ht, hl => by
    cases f with
    | zero => simp [needL] at hf
    | succ f =>
      simp only [TameL] at ht
      have hfv : need x ≤ f ∧ needL t ≤ f := by simp [needL] at hf; omega
      have hi : done.length < 4294967295 := by simp at hl; omega
      have hget := arr_get done (embList t) (emb x) hi (emb_ne_hole x)
      have hx := walkM_lift R x f s (.arr (done ++ emb x :: embList t)) (idxKey done.length) hfv.1 ht.1 hget
      obtain ⟨a', ha'⟩ := afterWalk_arr_shape R done (embList t) x s hi
      rw [ha'] at hx
      simp only [embList, List.length_cons]
      rw [walkIdx, hx]
      simp only []
      cases hres : (reviveS R (idxKey done.length) x s).2 with
      | none =>
        simp only [arr_delete done (embList t) a' hi]
        have ih := walkIdx_lift R t (done ++ [.hole]) f (reviveS R (idxKey done.length) x s).1 hfv.2 ht.2
          (by simp at hl ⊢; omega)
        simp only [List.length_append, List.length_cons, List.length_nil, List.append_assoc, List.singleton_append,
          Nat.zero_add] at ih
        rw [ih]
        simp [reviveElemsS, hres]
      | some y =>
        simp only [arr_define done (embList t) a' y hi]
        have ih := walkIdx_lift R t (done ++ [y]) f (reviveS R (idxKey done.length) x s).1 hfv.2 ht.2
          (by simp at hl ⊢; omega)
        simp only [List.length_append, List.length_cons, List.length_nil, List.append_assoc, List.singleton_append,
          Nat.zero_add] at ih
        rw [ih]
        simp [reviveElemsS, hres]
theorem walkKeys_lift {σ : Type} (R : ReviverS σ) : ∀ (rest : List (Str × JVal)) (done : List (Str × RVal)) (f : Nat) (s : σ),
    needM rest ≤ f → TameM rest → (rkeys done ++ rest.map Prod.fst).Nodup →
    walkKeys (liftM R) f s (.obj (done ++ embMembers rest)) (rest.map Prod.fst) =
      some ((reviveMembersS R rest s).1, .obj (done ++ (reviveMembersS R rest s).2))
  | [], done, f, s, _, _, _ => by
    cases f <;> simp [walkKeys, embMembers, reviveMembersS]
  | (k, x) :: t, done, f, s, hf, ht, hnd => by
    cases f with
    | zero => simp [needM] at hf
    | succ f =>
      simp only [TameM] at ht
      have hfv : need x ≤ f ∧ needM t ≤ f := by simp [needM] at hf; omega
      simp only [List.map_cons] at hnd
      have hnd' := List.nodup_append.mp hnd
      have hkd : k ∉ rkeys done := by
        intro hm; exact hnd'.2.2 k hm k (by simp) rfl
      have hkt : k ∉ rkeys (embMembers t) := by
        rw [rkeys_embMembers]
        exact (List.nodup_cons.mp hnd'.2.1).1
      have hget := obj_get done (embMembers t) k (emb x) hkd
      have hx := walkM_lift R x f s (.obj (done ++ (k, emb x) :: embMembers t)) k hfv.1 ht.1 hget
      obtain ⟨a', ha'⟩ := afterWalk_obj_shape R done (embMembers t) k x s hkd hkt
      rw [ha'] at hx
      simp only [embMembers, List.map_cons]
      rw [walkKeys, hx]
      simp only []
      cases hres : (reviveS R k x s).2 with
      | none =>
        simp only [obj_delete done (embMembers t) k a' hkd hkt]
        have hnd2 : (rkeys done ++ t.map Prod.fst).Nodup := by
          rw [List.nodup_append] at hnd ⊢
          refine ⟨hnd.1, (List.nodup_cons.mp hnd.2.1).2, ?_⟩
          intro a ha b hb
          exact hnd.2.2 a ha b (by simp [hb])
        rw [walkKeys_lift R t done f (reviveS R k x s).1 hfv.2 ht.2 hnd2]
        simp [reviveMembersS, hres]
      | some y =>
        simp only [obj_define done (embMembers t) k a' y hkd hkt]
        have hnd2 : (rkeys (done ++ [(k, y)]) ++ t.map Prod.fst).Nodup := by
          simpa [rkeys] using hnd
        have := walkKeys_lift R t (done ++ [(k, y)]) f (reviveS R k x s).1 hfv.2 ht.2 hnd2
        simp only [List.append_assoc, List.singleton_append] at this
        rw [this]
        simp [reviveMembersS, hres]
end

/-- a reviver that never edits its holder: the editing walk (ReviverMut) gives exactly the result and the state of the
    stateful walk of Reviver.lean, for every value JSON.parse can build -/
theorem reviveRootM_lift {σ : Type} (R : ReviverS σ) (v : JVal) (f : Nat) (s : σ) (hf : need v ≤ f) (ht : Tame v) :
    reviveRootM (liftM R) f s v = some (reviveS R [] v s) := by
  unfold reviveRootM
  rw [walkM_lift R v f s (.obj [([], emb v)]) [] hf ht (by simp [rGet, lookupR])]

end GojaModel.C19
