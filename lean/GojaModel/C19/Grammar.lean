/-
  C19: the ECMA-404 grammar as an inductive relation (`Gram`, `Text`) and soundness of the recursive-descent parser
  for it (`parseRaw_sound`); string-lexer soundness (`parseStrBody_sound`).
-/
import GojaModel.C19.NumGram
namespace GojaModel.C19

/-- FOLLOW set of a JSON value inside a complete text: end of text, white space, `,`, `]`, `}` -/
def Follow : Str → Prop
  | [] => True
  | c :: _ => isWs c = true ∨ c = 44 ∨ c = 93 ∨ c = 125

theorem follow_stop {r : Str} (h : Follow r) : Stop r := by
  cases r with
  | nil => trivial
  | cons c t =>
    have h' : c = 32 ∨ c = 9 ∨ c = 10 ∨ c = 13 ∨ c = 44 ∨ c = 93 ∨ c = 125 := by
      simp [Follow, isWs] at h; omega
    simp only [Stop, isDigit]
    rcases h' with rfl | rfl | rfl | rfl | rfl | rfl | rfl <;> decide

/-- The ECMA-404 grammar as an inductive relation: `Gram s v r` — a value token sequence denoting `v` is a prefix of
    `s`, and `r` is what follows it (no leading white space; white space inside arrays/objects as the grammar allows).
    "remaining elements after a comma" are expressed as the array `[` … of the remaining elements. -/
inductive Gram : Str → JVal → Str → Prop
  | null (r : Str) : Gram (110 :: 117 :: 108 :: 108 :: r) .null r
  | tru (r : Str) : Gram (116 :: 114 :: 117 :: 101 :: r) (.bool true) r
  | fls (r : Str) : Gram (102 :: 97 :: 108 :: 115 :: 101 :: r) (.bool false) r
  | num {l : Str} (r : Str) : NumGram l → Gram (l ++ r) (.num l) r
  | str {b u : Str} (r : Str) : StrBody b u → Gram (34 :: (b ++ 34 :: r)) (.str u) r
  | arrNil {w : Str} (r : Str) : AllWs w → Gram (91 :: (w ++ 93 :: r)) (.arr []) r
  | arrOne {w1 w2 s : Str} {v : JVal} (r : Str) : AllWs w1 → AllWs w2 → Gram s v (w2 ++ 93 :: r) →
      Gram (91 :: (w1 ++ s)) (.arr [v]) r
  | arrCons {w1 w2 s s2 : Str} {v x : JVal} {t : List JVal} (r : Str) : AllWs w1 → AllWs w2 →
      Gram s v (w2 ++ 44 :: s2) → Gram (91 :: s2) (.arr (x :: t)) r → Gram (91 :: (w1 ++ s)) (.arr (v :: x :: t)) r
  | objNil {w : Str} (r : Str) : AllWs w → Gram (123 :: (w ++ 125 :: r)) (.obj []) r
  | objOne {w1 w2 w3 w4 b k s : Str} {v : JVal} (r : Str) : AllWs w1 → AllWs w2 → AllWs w3 → AllWs w4 → StrBody b k →
      Gram s v (w4 ++ 125 :: r) →
      Gram (123 :: (w1 ++ 34 :: (b ++ 34 :: (w2 ++ 58 :: (w3 ++ s))))) (.obj [(k, v)]) r
  | objCons {w1 w2 w3 w4 b k s s2 : Str} {v : JVal} {p : Str × JVal} {t : List (Str × JVal)} (r : Str) :
      AllWs w1 → AllWs w2 → AllWs w3 → AllWs w4 → StrBody b k →
      Gram s v (w4 ++ 44 :: s2) → Gram (123 :: s2) (.obj (p :: t)) r →
      Gram (123 :: (w1 ++ 34 :: (b ++ 34 :: (w2 ++ 58 :: (w3 ++ s))))) (.obj ((k, v) :: p :: t)) r

/-- a complete JSON text -/
def Text (t : Str) (v : JVal) : Prop := ∃ w1 w2 s, AllWs w1 ∧ AllWs w2 ∧ t = w1 ++ s ∧ Gram s v w2

/-! ### small facts -/

theorem skipWs_spec (s : Str) : ∃ w, AllWs w ∧ s = w ++ skipWs s ∧ (∀ c t, skipWs s = c :: t → isWs c = false) := by
  induction s with
  | nil => exact ⟨[], (fun c hc => by cases hc), rfl, (fun c t h => by cases h)⟩
  | cons a r ih =>
    by_cases ha : isWs a = true
    · obtain ⟨w, hw, he, hh⟩ := ih
      refine ⟨a :: w, ?_, ?_, ?_⟩
      · intro c hc
        cases hc with
        | head => exact ha
        | tail _ h => exact hw c h
      · simp only [skipWs, ha, if_true, List.cons_append]; rw [← he]
      · simpa [skipWs, ha] using hh
    · have ha' : isWs a = false := by simpa using ha
      refine ⟨[], (fun c hc => by cases hc), by simp [skipWs, ha'], ?_⟩
      intro c t h
      simp [skipWs, ha'] at h
      rw [← h.1]; exact ha'

theorem matchLit_sound {lit s r : Str} (h : matchLit lit s = some r) : s = lit ++ r := by
  induction lit generalizing s with
  | nil => cases s <;> simp [matchLit] at h <;> simp [h]
  | cons a l ih =>
    cases s with
    | nil => simp [matchLit] at h
    | cons c t =>
      by_cases hac : a = c
      · subst hac
        simp [matchLit] at h
        simp [ih h]
      · simp [matchLit, hac] at h

theorem cons1_some {c : Nat} {o : Option (Str × Str)} {u r : Str} (h : cons1 c o = some (u, r)) :
    ∃ u', o = some (u', r) ∧ u = c :: u' := by
  cases o with
  | none => simp [cons1] at h
  | some p =>
    obtain ⟨a, b⟩ := p
    simp [cons1] at h
    exact ⟨a, by simp [h.2], h.1.symm⟩

/-- soundness of the string lexer: what it accepts is derivable in the string grammar -/
theorem parseStrBody_sound : ∀ (n : Nat) (s : Str), s.length ≤ n → ∀ u r, parseStrBody s = some (u, r) →
    ∃ b, StrBody b u ∧ s = b ++ 34 :: r := by
  intro n
  induction n with
  | zero =>
    intro s hs u r h
    cases s with
    | nil => simp [parseStrBody] at h
    | cons c t => simp at hs
  | succ n ih =>
    intro s hs u r h
    cases s with
    | nil => simp [parseStrBody] at h
    | cons c t =>
      rw [parseStrBody_cons] at h
      simp only [List.length_cons] at hs
      by_cases h34 : c = 34
      · simp [h34] at h
        obtain ⟨rfl, rfl⟩ := h
        exact ⟨[], StrBody.nil, by simp [h34]⟩
      · by_cases h92 : c = 92
        · subst h92
          simp only [h34, if_false, if_true] at h
          cases t with
          | nil => simp at h
          | cons e r2 =>
            simp only at h
            by_cases hu : e = 117
            · subst hu
              simp only [if_true] at h
              match r2, h, hs with
              | a :: b :: c' :: d :: r3, h, hs =>
                simp only at h
                cases hx : hex4Val a b c' d with
                | none => simp [hx] at h
                | some x =>
                  simp only [hx] at h
                  obtain ⟨u', h', rfl⟩ := cons1_some h
                  obtain ⟨bb, hb, rfl⟩ := ih r3 (by simp at hs; omega) u' r h'
                  exact ⟨92 :: 117 :: a :: b :: c' :: d :: bb, StrBody.uni hx hb, by simp⟩
              | [], h, _ => simp at h
              | [_], h, _ => simp at h
              | [_, _], h, _ => simp at h
              | [_, _, _], h, _ => simp at h
            · simp only [hu, if_false] at h
              cases hx : simpleEsc e with
              | none => simp [hx] at h
              | some x =>
                simp only [hx] at h
                obtain ⟨u', h', rfl⟩ := cons1_some h
                obtain ⟨bb, hb, rfl⟩ := ih r2 (by simp at hs; omega) u' r h'
                exact ⟨92 :: e :: bb, StrBody.esc hx hb, by simp⟩
        · simp only [h34, h92, if_false] at h
          by_cases h32 : c < 32
          · simp [h32] at h
          · simp only [h32, if_false] at h
            obtain ⟨u', h', rfl⟩ := cons1_some h
            obtain ⟨bb, hb, rfl⟩ := ih t (by omega) u' r h'
            exact ⟨c :: bb, StrBody.raw h34 h92 h32 hb, by simp⟩

theorem strBody_wf {b u : Str} (h : StrBody b u) (hb : WfStr b) : WfStr u := by
  induction h with
  | nil => exact fun c hc => by cases hc
  | raw _ _ _ _ ih =>
    intro x hx
    cases hx with
    | head => exact hb _ (by simp)
    | tail _ h' => exact ih (fun y hy => hb y (by simp [hy])) x h'
  | @esc e x b u he _ ih =>
    intro y hy
    cases hy with
    | head =>
      unfold simpleEsc at he
      repeat (split at he; · (simp at he; omega))
      simp at he
    | tail _ h' => exact ih (fun y hy => hb y (by simp [hy])) y h'
  | @uni a b c d x t u hx _ ih =>
    intro y hy
    cases hy with
    | head =>
      unfold hex4Val at hx
      split at hx
      · rename_i p q r s h1 h2 h3 h4
        simp at hx
        have b1 : ∀ {k v}, hexVal k = some v → v < 16 := by
          intro k v hk; unfold hexVal at hk
          split at hk
          · simp at hk; omega
          · split at hk
            · simp at hk; omega
            · split at hk
              · simp at hk; omega
              · simp at hk
        have := b1 h1; have := b1 h2; have := b1 h3; have := b1 h4
        omega
      · simp at hx
    | tail _ h' => exact ih (fun y hy => hb y (by simp [hy])) y h'

/-! ### soundness of the recursive-descent parser: every result is derivable -/

def SoundV (f : Nat) : Prop := ∀ s v r, parseValue f s = some (v, r) → ∃ w s', AllWs w ∧ s = w ++ s' ∧ Gram s' v r
def SoundE (f : Nat) : Prop := ∀ s xs r, parseElems f s = some (xs, r) → xs ≠ [] ∧ Gram (91 :: s) (.arr xs) r
def SoundM (f : Nat) : Prop := ∀ s ms r, parseMembers f s = some (ms, r) → ms ≠ [] ∧ Gram (123 :: s) (.obj ms) r

theorem soundV_step (f : Nat) (hE : SoundE f) (hM : SoundM f) : SoundV (f + 1) := by
  intro s v r h
  rw [parseValue_succ] at h
  obtain ⟨w, hw, hs, hhead⟩ := skipWs_spec s
  cases hk : skipWs s with
  | nil => simp [hk] at h
  | cons c t =>
    rw [hk] at hs
    simp only [hk] at h
    refine ⟨w, c :: t, hw, hs, ?_⟩
    by_cases h1 : c = 110
    · subst h1
      simp only [if_true] at h
      cases hm : matchLit [117, 108, 108] t with
      | none => simp [hm] at h
      | some r' =>
        simp [hm] at h
        obtain ⟨rfl, rfl⟩ := h
        rw [matchLit_sound hm]
        exact Gram.null r'
    by_cases h2 : c = 116
    · subst h2
      simp only [h1, if_false, if_true] at h
      cases hm : matchLit [114, 117, 101] t with
      | none => simp [hm] at h
      | some r' =>
        simp [hm] at h
        obtain ⟨rfl, rfl⟩ := h
        rw [matchLit_sound hm]
        exact Gram.tru r'
    by_cases h3 : c = 102
    · subst h3
      simp only [h1, h2, if_false, if_true] at h
      cases hm : matchLit [97, 108, 115, 101] t with
      | none => simp [hm] at h
      | some r' =>
        simp [hm] at h
        obtain ⟨rfl, rfl⟩ := h
        rw [matchLit_sound hm]
        exact Gram.fls r'
    by_cases h4 : c = 34
    · subst h4
      simp only [h1, h2, h3, if_false, if_true] at h
      cases hp : parseStrBody t with
      | none => simp [hp] at h
      | some p =>
        obtain ⟨u, r'⟩ := p
        simp [hp] at h
        obtain ⟨rfl, rfl⟩ := h
        obtain ⟨b, hb, rfl⟩ := parseStrBody_sound _ t (Nat.le_refl _) u r' hp
        exact Gram.str r' hb
    by_cases h5 : c = 91
    · subst h5
      simp only [h1, h2, h3, h4, if_false, if_true] at h
      obtain ⟨w2, hw2, hs2, _⟩ := skipWs_spec t
      split at h
      · rename_i r' heq
        simp at h
        obtain ⟨rfl, rfl⟩ := h
        rw [hs2, heq]
        exact Gram.arrNil r' hw2
      · cases hp : parseElems f t with
        | none => simp [hp] at h
        | some p =>
          obtain ⟨xs, r'⟩ := p
          simp [hp] at h
          obtain ⟨rfl, rfl⟩ := h
          exact (hE t xs r' hp).2
    by_cases h6 : c = 123
    · subst h6
      simp only [h1, h2, h3, h4, h5, if_false, if_true] at h
      obtain ⟨w2, hw2, hs2, _⟩ := skipWs_spec t
      split at h
      · rename_i r' heq
        simp at h
        obtain ⟨rfl, rfl⟩ := h
        rw [hs2, heq]
        exact Gram.objNil r' hw2
      · cases hp : parseMembers f t with
        | none => simp [hp] at h
        | some p =>
          obtain ⟨ms, r'⟩ := p
          simp [hp] at h
          obtain ⟨rfl, rfl⟩ := h
          exact (hM t ms r' hp).2
    · simp only [h1, h2, h3, h4, h5, h6, if_false] at h
      cases hp : parseNum (c :: t) with
      | none => simp [hp] at h
      | some p =>
        obtain ⟨l, r'⟩ := p
        simp [hp] at h
        obtain ⟨rfl, rfl⟩ := h
        have a := parseNum_sound hp
        rw [a.2]
        exact Gram.num r' a.1

theorem soundE_step (f : Nat) (hV : SoundV f) (hE : SoundE f) : SoundE (f + 1) := by
  intro s xs r h
  rw [parseElems_succ] at h
  cases hp : parseValue f s with
  | none => simp [hp] at h
  | some p =>
    obtain ⟨v, r1⟩ := p
    simp only [hp] at h
    obtain ⟨w, s', hw, rfl, hg⟩ := hV s v r1 hp
    obtain ⟨w2, hw2, hs2, _⟩ := skipWs_spec r1
    cases hk : skipWs r1 with
    | nil => simp [hk] at h
    | cons c r2 =>
      rw [hk] at hs2
      simp only [hk] at h
      by_cases h44 : c = 44
      · subst h44
        simp only [if_true] at h
        cases hq : parseElems f r2 with
        | none => simp [hq] at h
        | some q =>
          obtain ⟨t, r3⟩ := q
          simp [hq] at h
          obtain ⟨rfl, rfl⟩ := h
          obtain ⟨hne, hgt⟩ := hE r2 t r3 hq
          refine ⟨by simp, ?_⟩
          cases t with
          | nil => exact absurd rfl hne
          | cons x t' =>
            rw [hs2] at hg
            exact Gram.arrCons r3 hw hw2 hg hgt
      · by_cases h93 : c = 93
        · subst h93
          simp [h44] at h
          obtain ⟨rfl, rfl⟩ := h
          refine ⟨by simp, ?_⟩
          rw [hs2] at hg
          exact Gram.arrOne r2 hw hw2 hg
        · simp [h44, h93] at h

theorem soundM_step (f : Nat) (hV : SoundV f) (hM : SoundM f) : SoundM (f + 1) := by
  intro s ms r h
  rw [parseMembers_succ] at h
  obtain ⟨w1, hw1, hs1, _⟩ := skipWs_spec s
  split at h
  · rename_i rq heq
    rw [heq] at hs1
    cases hp : parseStrBody rq with
    | none => simp [hp] at h
    | some p =>
      obtain ⟨k, r1⟩ := p
      simp only [hp] at h
      obtain ⟨b, hb, rfl⟩ := parseStrBody_sound _ rq (Nat.le_refl _) k r1 hp
      obtain ⟨w2, hw2, hs2, _⟩ := skipWs_spec r1
      split at h
      · rename_i r2 heq2
        rw [heq2] at hs2
        cases hv : parseValue f r2 with
        | none => simp [hv] at h
        | some q =>
          obtain ⟨v, r3⟩ := q
          simp only [hv] at h
          obtain ⟨w3, s', hw3, rfl, hg⟩ := hV r2 v r3 hv
          obtain ⟨w4, hw4, hs4, _⟩ := skipWs_spec r3
          cases hk : skipWs r3 with
          | nil => simp [hk] at h
          | cons c r4 =>
            rw [hk] at hs4
            simp only [hk] at h
            rw [hs4] at hg
            by_cases h44 : c = 44
            · subst h44
              simp only [if_true] at h
              cases hq : parseMembers f r4 with
              | none => simp [hq] at h
              | some q2 =>
                obtain ⟨t, r5⟩ := q2
                simp [hq] at h
                obtain ⟨rfl, rfl⟩ := h
                obtain ⟨hne, hgt⟩ := hM r4 t r5 hq
                refine ⟨by simp, ?_⟩
                cases t with
                | nil => exact absurd rfl hne
                | cons x t' =>
                  rw [hs1, hs2]
                  exact Gram.objCons r5 hw1 hw2 hw3 hw4 hb hg hgt
            · by_cases h125 : c = 125
              · subst h125
                simp [h44] at h
                obtain ⟨rfl, rfl⟩ := h
                refine ⟨by simp, ?_⟩
                rw [hs1, hs2]
                exact Gram.objOne r4 hw1 hw2 hw3 hw4 hb hg
              · simp [h44, h125] at h
      · simp at h
  · simp at h

theorem sound_all : ∀ f, SoundV f ∧ SoundE f ∧ SoundM f := by
  intro f
  induction f with
  | zero =>
    refine ⟨?_, ?_, ?_⟩
    · intro s v r h; simp [parseValue] at h
    · intro s v r h; simp [parseElems] at h
    · intro s v r h; simp [parseMembers] at h
  | succ f ih =>
    exact ⟨soundV_step f ih.2.1 ih.2.2, soundE_step f ih.1 ih.2.1, soundM_step f ih.1 ih.2.2⟩

theorem skipWs_nil_allWs {r : Str} (h : skipWs r = []) : AllWs r := by
  obtain ⟨w, hw, hs, _⟩ := skipWs_spec r
  rw [h] at hs
  simp at hs
  rw [hs]; exact hw

/-- parser ⇒ grammar: whatever `parseRaw` accepts is a JSON text of the grammar denoting the returned tree -/
theorem parseRaw_sound {t : Str} {v : JVal} (h : parseRaw t = some v) : Text t v := by
  unfold parseRaw at h
  cases hp : parseValue (t.length + 1) t with
  | none => simp [hp] at h
  | some p =>
    obtain ⟨v', r⟩ := p
    simp only [hp] at h
    by_cases hr : skipWs r = []
    · simp [hr] at h
      subst h
      obtain ⟨w, s', hw, hs, hg⟩ := (sound_all _).1 t v' r hp
      exact ⟨w, r, s', hw, skipWs_nil_allWs hr, hs, hg⟩
    · simp [hr] at h

end GojaModel.C19
