/-
  C19: the mechanism-level quote (push-back rune reader + escape switch) refines QuoteJSONString.
-/
import GojaModel.C19.QuoteMech
namespace GojaModel.C19

theorem quoteLoop_unfold (st : RState) :
    quoteLoop st = match readRune st with
      | none => []
      | some (r, st') => emitRune r ++ quoteLoop st' := by
  rw [quoteLoop]
  split <;> simp_all

def stUnits : RState → Str
  | (none, s) => s
  | (some c, s) => c :: s

theorem quoteBody_cons2 (h l : Nat) (r : Str) :
    quoteBody (h :: l :: r) = if isHigh h && isLow l then h :: l :: quoteBody r else escOne h ++ quoteBody (l :: r) := by
  rw [quoteBody]

theorem quoteBody_one (h : Nat) : quoteBody [h] = escOne h := by rw [quoteBody]

/-- the common part of the two entry forms of ReadRune: current unit `c`, unread `rest` -/
theorem quoteLoop_step (n : Nat) (ih : ∀ st, rmeasure st ≤ n → quoteLoop st = quoteBody (stUnits st))
    (c : Nat) (rest : Str) (hn : rest.length ≤ n) (st : RState)
    (hr : readRune st =
      if isHigh c then
        (match rest with
         | [] => some (.unit c, (none, []))
         | second :: r => if isLow second then some (.pair c second, (none, r)) else some (.unit c, (some second, r)))
      else some (.unit c, (none, rest))) :
    quoteLoop st = quoteBody (c :: rest) := by
  rw [quoteLoop_unfold, hr]
  by_cases hc : isHigh c = true
  · simp only [hc, if_true]
    cases rest with
    | nil =>
      simp only [emitRune]
      rw [ih (none, []) (by simp [rmeasure]), quoteBody_one]
      simp [stUnits, quoteBody]
    | cons second r =>
      by_cases hl : isLow second = true
      · simp only [hl, if_true, emitRune]
        rw [ih (none, r) (by simp [rmeasure] at hn ⊢; omega), quoteBody_cons2]
        simp [hc, hl, stUnits]
      · simp only [hl, Bool.false_eq_true, if_false, emitRune]
        rw [ih (some second, r) (by simp [rmeasure] at hn ⊢; omega), quoteBody_cons2]
        simp [hc, hl, stUnits]
  · simp only [hc, Bool.false_eq_true, if_false, emitRune]
    rw [ih (none, rest) (by simpa [rmeasure] using hn)]
    cases rest with
    | nil => simp [stUnits, quoteBody, quoteBody_one]
    | cons l r => rw [quoteBody_cons2]; simp [hc, stUnits]

theorem quoteLoop_eq : ∀ (n : Nat) (st : RState), rmeasure st ≤ n → quoteLoop st = quoteBody (stUnits st) := by
  intro n
  induction n with
  | zero =>
    intro st h
    obtain ⟨p, s⟩ := st
    cases p with
    | none =>
      cases s with
      | nil => rw [quoteLoop_unfold]; simp [readRune, stUnits, quoteBody]
      | cons c t => simp [rmeasure] at h
    | some c => simp [rmeasure] at h
  | succ n ih =>
    intro st h
    obtain ⟨p, s⟩ := st
    cases p with
    | none =>
      cases s with
      | nil => rw [quoteLoop_unfold]; simp [readRune, stUnits, quoteBody]
      | cons c rest =>
        exact quoteLoop_step n ih c rest (by simp [rmeasure] at h; omega) (none, c :: rest) (by simp only [readRune]; rfl)
    | some c =>
      exact quoteLoop_step n ih c s (by simp [rmeasure] at h; omega) (some c, s) (by simp only [readRune]; rfl)

/-- the mechanism (push-back rune reader + escape switch) REFINES QuoteJSONString, for every list of code units -/
theorem quoteMech_eq_quote (s : Str) : quoteMech s = quote s := by
  unfold quoteMech quote
  rw [quoteLoop_eq s.length (none, s) (by simp [rmeasure])]
  rfl

end GojaModel.C19
