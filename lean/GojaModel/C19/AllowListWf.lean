/-
  C19: the allow-list projection preserves well-formedness, so its text always parses back.
-/
import GojaModel.C19.AllowList
import GojaModel.C19.RoundTrip
namespace GojaModel.C19

theorem wfMembers_iff (ms : List (Str × JVal)) : WfMembers ms ↔ ∀ p ∈ ms, WfStr p.1 ∧ WfVal p.2 := by
  induction ms with
  | nil => simp [WfMembers]
  | cons a t ih =>
    obtain ⟨k, v⟩ := a
    simp only [WfMembers, ih, List.mem_cons, forall_eq_or_imp]
    constructor
    · intro h; exact ⟨⟨h.1, h.2.1⟩, h.2.2⟩
    · intro h; exact ⟨h.1.1, h.1.2, h.2⟩

theorem lookupKey_mem {k : Str} {ms : List (Str × JVal)} {v : JVal} (h : lookupKey k ms = some v) : (k, v) ∈ ms := by
  induction ms with
  | nil => simp [lookupKey] at h
  | cons a t ih =>
    obtain ⟨k', v'⟩ := a
    by_cases hk : k' = k
    · simp [lookupKey, hk] at h; simp [hk, h]
    · simp [lookupKey, hk] at h; simp [ih h]

theorem protoKey_wf : WfStr protoKey := by
  intro u hu
  simp [protoKey] at hu
  omega

theorem protoProj_wf : WfVal protoProj := by
  simp [protoProj, WfVal, WfMembers, protoKey_wf]

theorem selectMembers_wf (pl : List Str) (ms : List (Str × JVal)) (hpl : ∀ k ∈ pl, WfStr k)
    (hms : ∀ p ∈ ms, WfStr p.1 ∧ WfVal p.2) : ∀ p ∈ selectMembers pl ms, WfStr p.1 ∧ WfVal p.2 := by
  induction pl with
  | nil => intro p hp; simp [selectMembers] at hp
  | cons k t ih =>
    have iht := ih (fun x hx => hpl x (by simp [hx]))
    intro p hp
    simp only [selectMembers] at hp
    cases hl : lookupKey k ms with
    | some v =>
      simp only [hl, List.mem_cons] at hp
      rcases hp with rfl | hp
      · exact ⟨hpl k (by simp), (hms _ (lookupKey_mem hl)).2⟩
      · exact iht p hp
    | none =>
      simp only [hl] at hp
      by_cases hk : k = protoKey
      · simp only [hk, if_true, List.mem_cons] at hp
        rcases hp with rfl | hp
        · exact ⟨protoKey_wf, protoProj_wf⟩
        · exact iht p hp
      · simp only [hk, if_false] at hp
        exact iht p hp

mutual
theorem project_wf (pl : List Str) (hpl : ∀ k ∈ pl, WfStr k) : ∀ v : JVal, WfVal v → WfVal (project pl v)
  | .null, _ => by simp [project, WfVal]
  | .bool _, _ => by simp [project, WfVal]
  | .num l, h => by simpa [project, WfVal] using h
  | .str s, h => by simpa [project, WfVal] using h
  | .arr xs, h => by
    simp only [project, WfVal] at h ⊢
    exact projectList_wf pl hpl xs h
  | .obj ms, h => by
    simp only [project, WfVal] at h ⊢
    rw [wfMembers_iff]
    exact selectMembers_wf pl _ hpl ((wfMembers_iff _).mp (projectMembers_wf pl hpl ms h))
theorem projectList_wf (pl : List Str) (hpl : ∀ k ∈ pl, WfStr k) : ∀ xs : List JVal, WfList xs → WfList (projectList pl xs)
  | [], _ => by simp [projectList, WfList]
  | v :: t, h => by
    simp only [WfList] at h
    simp only [projectList, WfList]
    exact ⟨project_wf pl hpl v h.1, projectList_wf pl hpl t h.2⟩
theorem projectMembers_wf (pl : List Str) (hpl : ∀ k ∈ pl, WfStr k) : ∀ ms : List (Str × JVal), WfMembers ms →
    WfMembers (projectMembers pl ms)
  | [], _ => by simp [projectMembers, WfMembers]
  | (k, v) :: t, h => by
    simp only [WfMembers] at h
    simp only [projectMembers, WfMembers]
    exact ⟨h.1, project_wf pl hpl v h.2.1, projectMembers_wf pl hpl t h.2.2⟩
end

end GojaModel.C19
