/-
  C19, mechanism level: `str` of builtin_json.go:289 with its unwrapping switch (:311) and the final type switch (:353),
  on plain data extended with boxed primitives, BigInt and non-finite numbers (no toJSON, no replacer, default
  valueOf / toString on the wrappers):

      primitiveValueObject  Number → ToNumber, String (stringObject) → toString, Boolean / BigInt → the primitive,
                            Symbol → NOT unwrapped: serialised as an ordinary object (fix 149785e)
      *valueBigInt          → TypeError "Do not know how to serialize a BigInt" (the whole call is abandoned)
      valueFloat NaN / ±Inf → "null"

  `strB` threads the buffer and `ctx.indent` like Mech.strM and can fail with a TypeError.
  Specification (ECMA-262 §25.5.2.2 steps 4, 8–10): `lower` unwraps; a BigInt reached by the traversal — every element
  and member is reached — throws.
-/
import GojaModel.C19.Mech

namespace GojaModel.C19

inductive BVal where
  | undef
  | null
  | bool (b : Bool)
  | num (lex : Str)
  | nonfin                       -- NaN, +Infinity, −Infinity
  | str (s : Str)
  | big                          -- a BigInt primitive
  | boxNum (lex : Str)           -- new Number(finite)
  | boxNonfin                    -- new Number(NaN / ±Infinity)
  | boxStr (s : Str)             -- new String(s)
  | boxBool (b : Bool)           -- new Boolean(b)
  | boxBig                       -- Object(1n)
  | boxSym                       -- Object(Symbol()): an ordinary object without enumerable own string keys
  | arr (xs : List BVal)
  | obj (ms : List (Str × BVal))

/-- result of the mechanism: buffer, indent, `str`'s boolean — or the TypeError that abandons the call -/
inductive BRes where
  | ok (buf ind : Str) (b : Bool)
  | typeError

inductive BLoop where
  | ok (buf ind : Str)
  | typeError

inductive BLoopO where
  | ok (buf ind : Str) (empty : Bool)
  | typeError

mutual
def strB (gap : Str) : BVal → Str → Str → BRes
  | .undef, buf, ind => .ok buf ind false
  | .null, buf, ind => .ok (buf ++ [110, 117, 108, 108]) ind true
  | .bool true, buf, ind => .ok (buf ++ [116, 114, 117, 101]) ind true
  | .bool false, buf, ind => .ok (buf ++ [102, 97, 108, 115, 101]) ind true
  | .num l, buf, ind => .ok (buf ++ l) ind true
  | .nonfin, buf, ind => .ok (buf ++ [110, 117, 108, 108]) ind true
  | .str s, buf, ind => .ok (buf ++ quote s) ind true
  | .big, _, _ => .typeError
  | .boxNum l, buf, ind => .ok (buf ++ l) ind true                    -- value = o.ToNumber(); case valueInt/valueFloat
  | .boxNonfin, buf, ind => .ok (buf ++ [110, 117, 108, 108]) ind true
  | .boxStr s, buf, ind => .ok (buf ++ quote s) ind true              -- value = o.toString(); case String
  | .boxBool true, buf, ind => .ok (buf ++ [116, 114, 117, 101]) ind true     -- value = pValue; case valueBool
  | .boxBool false, buf, ind => .ok (buf ++ [102, 97, 108, 115, 101]) ind true
  | .boxBig, _, _ => .typeError                                       -- value = pValue; case *valueBigInt
  | .boxSym, buf, ind => .ok ((buf ++ [123]) ++ [125]) ind true           -- not unwrapped; jo over no keys: Truncate(mark); '}'
  | .arr xs, buf, ind =>
    if xs.isEmpty then .ok (buf ++ [91, 93]) ind true
    else
      match jaLoopB gap (44 :: nl gap (ind ++ gap)) xs (buf ++ (91 :: nl gap (ind ++ gap))) (ind ++ gap) with
      | .ok b _ => .ok (b ++ (nl gap ind ++ [93])) ind true
      | .typeError => .typeError
  | .obj ms, buf, ind =>
    match joLoopB gap (44 :: nl gap (ind ++ gap)) ms (buf ++ (123 :: nl gap (ind ++ gap))) (ind ++ gap) true with
    | .ok b _ empty => .ok (if empty then (buf ++ [123]) ++ [125] else b ++ (nl gap ind ++ [125])) ind true
    | .typeError => .typeError
def jaLoopB (gap sep : Str) : List BVal → Str → Str → BLoop
  | [], buf, ind => .ok buf ind
  | v :: t, buf, ind =>
    match strB gap v buf ind with
    | .ok b i okv => jaLoopB gap sep t ((if okv then b else b ++ [110, 117, 108, 108]) ++ (if t.isEmpty then [] else sep)) i
    | .typeError => .typeError
def joLoopB (gap sep : Str) : List (Str × BVal) → Str → Str → Bool → BLoopO
  | [], buf, ind, empty => .ok buf ind empty
  | (k, v) :: t, buf, ind, empty =>
    match strB gap v (buf ++ ((if empty then [] else sep) ++ (quote k ++ colon gap))) ind with
    | .ok b i okv => if okv then joLoopB gap sep t b i false else joLoopB gap sep t (b.take buf.length) i empty
    | .typeError => .typeError
end

/-! the specification side -/

mutual
/-- does the traversal reach a BigInt (primitive or wrapper)? -/
def hasBig : BVal → Bool
  | .big => true
  | .boxBig => true
  | .arr xs => hasBigL xs
  | .obj ms => hasBigM ms
  | _ => false
def hasBigL : List BVal → Bool
  | [] => false
  | v :: t => hasBig v || hasBigL t
def hasBigM : List (Str × BVal) → Bool
  | [] => false
  | (_, v) :: t => hasBig v || hasBigM t
end

mutual
/-- SerializeJSONProperty step 4 (unwrap) and step 9 (non-finite → null), everywhere -/
def lower : BVal → MVal
  | .undef => .undef
  | .null => .null
  | .bool b => .bool b
  | .num l => .num l
  | .nonfin => .null
  | .str s => .str s
  | .big => .undef          -- never reached by `stringifyB` (hasBig)
  | .boxNum l => .num l
  | .boxNonfin => .null
  | .boxStr s => .str s
  | .boxBool b => .bool b
  | .boxBig => .undef       -- never reached
  | .boxSym => .obj []
  | .arr xs => .arr (lowerL xs)
  | .obj ms => .obj (lowerM ms)
def lowerL : List BVal → List MVal
  | [] => []
  | v :: t => lower v :: lowerL t
def lowerM : List (Str × BVal) → List (Str × MVal)
  | [] => []
  | (k, v) :: t => (k, lower v) :: lowerM t
end

/-- JSON.stringify(v, undefined, gap) on values with boxed primitives / BigInt: TypeError, undefined, or the text -/
inductive SRes where
  | typeError
  | undef
  | text (t : Str)

def stringifyB (gap : Str) (v : BVal) : SRes :=
  match strB gap v [] [] with
  | .typeError => .typeError
  | .ok b _ true => .text b
  | .ok _ _ false => .undef

end GojaModel.C19
