/-
  C19: the UTF-8 view of a JSON text — the documented exception of goja (README §JSON: "JSON.parse() uses the standard Go
  library which operates in UTF-8. Therefore, it cannot correctly parse broken UTF-16 surrogate pairs").

  builtin_json.go:21 converts the argument with `toString().String()`: every raw lone surrogate of the text becomes U+FFFD;
  encoding/json's unquote then turns every `\uXXXX` escape that denotes a surrogate and is not part of an escaped
  high+low pair into U+FFFD as well.  `fixText` performs exactly these two substitutions on the text; goja's JSON.parse
  is `gojaParse N t = (token-stream parser on fixText t) then object building`.
-/
import GojaModel.C19.Tok

namespace GojaModel.C19

/-- raw lone surrogates → U+FFFD -/
def fixLone : Str → Str
  | [] => []
  | [h] => if isHigh h || isLow h then [0xFFFD] else [h]
  | h :: l :: r =>
    if isHigh h && isLow l then h :: l :: fixLone r
    else (if isHigh h || isLow h then 0xFFFD else h) :: fixLone (l :: r)
termination_by s => s.length

/-- a `\uXXXX` escape denoting a surrogate at the head: its value and the text after it -/
def surrEsc? : Str → Option (Nat × Str)
  | 92 :: 117 :: a :: b :: c :: d :: r =>
    match hex4Val a b c d with
    | some u => if isHigh u || isLow u then some (u, r) else none
    | none => none
  | _ => none

theorem surrEsc?_length {s : Str} {u : Nat} {r : Str} (h : surrEsc? s = some (u, r)) : r.length + 6 = s.length := by
  unfold surrEsc? at h
  split at h
  · rename_i a b c d r'
    split at h
    · split at h
      · injection h with h1; injection h1 with _ h2; subst h2; simp
      · cases h
    · cases h
  · cases h

def fffdEsc : Str := [92, 117, 102, 102, 102, 100]

/-- escaped surrogates outside an escaped high+low pair → `�`; backslash pairs are skipped as units -/
def fixEsc (s : Str) : Str :=
  match s with
  | [] => []
  | c :: t =>
    if c = 92 then
      match h1 : surrEsc? (c :: t) with
      | some (u, r) =>
        if isHigh u then
          match h2 : surrEsc? r with
          | some (l, r2) => if isLow l then (c :: t).take 12 ++ fixEsc r2 else fffdEsc ++ fixEsc r
          | none => fffdEsc ++ fixEsc r
        else fffdEsc ++ fixEsc r
      | none =>
        match t with
        | e :: r => c :: e :: fixEsc r
        | [] => [c]
    else c :: fixEsc t
termination_by s.length
decreasing_by
  all_goals simp_wf
  all_goals first
    | (have := surrEsc?_length h1; have := surrEsc?_length h2; simp at *; omega)
    | (have := surrEsc?_length h1; simp at *; omega)
    | (simp at *; omega)
    | omega

/-- the text as goja's UTF-8 based tokenizer sees it -/
def fixText (t : Str) : Str := fixEsc (fixLone t)

/-- goja's JSON.parse without reviver: UTF-8 view, token-stream parser, object building -/
def gojaParse (N : NumCanon) (t : Str) : Option JVal :=
  match gojaParseRaw (fixText t) with
  | some v => some (build N v)
  | none => none

end GojaModel.C19
