/-
  C19: scalars of the mechanism-level token stream (`scanScalar`) ⇔ grammar.
-/
import GojaModel.C19.Tok
import GojaModel.C19.Complete
namespace GojaModel.C19

def IsScalar : JVal → Prop
  | .arr _ => False
  | .obj _ => False
  | _ => True

theorem scanScalar_sound {s : Str} {v : JVal} {r : Str} (h : scanScalar s = some (v, r)) : Gram s v r ∧ IsScalar v := by
  cases s with
  | nil => simp [scanScalar] at h
  | cons c t =>
    unfold scanScalar at h
    by_cases h1 : c = 110
    · subst h1
      simp only [if_true] at h
      cases hm : matchLit [117, 108, 108] t with
      | none => simp [hm] at h
      | some r' =>
        simp [hm] at h
        obtain ⟨rfl, rfl⟩ := h
        rw [matchLit_sound hm]
        exact ⟨Gram.null r', trivial⟩
    by_cases h2 : c = 116
    · subst h2
      simp only [h1, if_false, if_true] at h
      cases hm : matchLit [114, 117, 101] t with
      | none => simp [hm] at h
      | some r' =>
        simp [hm] at h
        obtain ⟨rfl, rfl⟩ := h
        rw [matchLit_sound hm]
        exact ⟨Gram.tru r', trivial⟩
    by_cases h3 : c = 102
    · subst h3
      simp only [h1, h2, if_false, if_true] at h
      cases hm : matchLit [97, 108, 115, 101] t with
      | none => simp [hm] at h
      | some r' =>
        simp [hm] at h
        obtain ⟨rfl, rfl⟩ := h
        rw [matchLit_sound hm]
        exact ⟨Gram.fls r', trivial⟩
    by_cases h4 : c = 34
    · subst h4
      simp only [h1, h2, h3, if_false, if_true] at h
      cases hp : parseStrBody t with
      | none => simp [hp] at h
      | some p =>
        obtain ⟨u, r'⟩ := p
        simp [hp] at h
        obtain ⟨rfl, rfl⟩ := h
        obtain ⟨b, hb, rfl⟩ := parseStrBody_sound _ t (Nat.le_refl _) u r' hp
        exact ⟨Gram.str r' hb, trivial⟩
    · simp only [h1, h2, h3, h4, if_false] at h
      cases hp : parseNum (c :: t) with
      | none => simp [hp] at h
      | some p =>
        obtain ⟨l, r'⟩ := p
        simp [hp] at h
        obtain ⟨rfl, rfl⟩ := h
        have a := parseNum_sound hp
        rw [a.2]
        exact ⟨Gram.num r' a.1, trivial⟩

/-- scalar values of the grammar are read by `scanScalar` (in a context that ends a number) -/
theorem scanScalar_complete {s : Str} {v : JVal} {r : Str} (h : Gram s v r) (hv : IsScalar v) (hf : Follow r) :
    scanScalar s = some (v, r) := by
  cases h with
  | null => simp [scanScalar, matchLit]
  | tru => simp [scanScalar, matchLit]
  | fls => simp [scanScalar, matchLit]
  | @num l _ hl =>
    obtain ⟨c, tl, rfl, hc⟩ := numLex_head (numGram_lexOK hl)
    have hp := numGram_lexOK hl r (follow_stop hf)
    have h1 : c ≠ 110 ∧ c ≠ 116 ∧ c ≠ 102 ∧ c ≠ 34 := by
      rcases hc with rfl | hd
      · decide
      · simp [isDigit] at hd; omega
    simp only [List.cons_append] at hp ⊢
    simp [scanScalar, h1.1, h1.2.1, h1.2.2.1, h1.2.2.2, hp]
  | @str b u _ hb => simp [scanScalar, strBody_complete hb r]
  | arrNil => exact absurd hv (by simp [IsScalar])
  | arrOne => exact absurd hv (by simp [IsScalar])
  | arrCons => exact absurd hv (by simp [IsScalar])
  | objNil => exact absurd hv (by simp [IsScalar])
  | objOne => exact absurd hv (by simp [IsScalar])
  | objCons => exact absurd hv (by simp [IsScalar])

end GojaModel.C19
