/-
  C19 — tie to the Go text.  `Generated.C19.shapes` is regenerated on every run by extract/c19.go from /repo: the
  canonical source (comments dropped, white space collapsed, message-like string literals elided) of the parse-side
  functions of builtin_json.go that Tok.lean (decodeValue / decodeToken / decodeArray / decodeObject / decodeObjectKey and
  the trailing-token check of builtinJSON_parse) and Reviver.lean / ReviverMut.lean (builtinJSON_reviveWalk) transcribe.
  `expectedShapes` is the text those transcriptions were made from.  If the equality fails, a decision of the parse
  path changed: the mechanism model must be re-transcribed (and the correspondence says whether behaviour changed).
-/
import GojaModel.Generated.C19_ParseGo

namespace GojaModel.C19.Tie

def expectedShapes : List (String × String) := [
  ("Runtime.builtinJSON_parse", "func (r *Runtime) builtinJSON_parse(call FunctionCall) Value { d := json.NewDecoder(strings.NewReader(call.Argument(0).toString().String())) d.UseNumber() value, err := r.builtinJSON_decodeValue(d) if errors.Is(err, io.EOF) { panic(r.newErrorf(r.getSyntaxError(), \"…\", err.Error())) } if err != nil { panic(r.newError(r.getSyntaxError(), err.Error())) } if tok, err := d.Token(); err != io.EOF { panic(r.newErrorf(r.getSyntaxError(), \"…\", tok)) } var reviver func(FunctionCall) Value if arg1, ok := call.Argument(1).(*Object); ok { reviver, _ = arg1.self.assertCallable() } if reviver != nil { root := r.NewObject() createDataPropertyOrThrow(root, stringEmpty, value) return r.builtinJSON_reviveWalk(reviver, root, stringEmpty) } return value }"),
  ("Runtime.builtinJSON_decodeToken", "func (r *Runtime) builtinJSON_decodeToken(d *json.Decoder, tok json.Token) (Value, error) { switch tok := tok.(type) { case json.Delim: switch tok { case '{': return r.builtinJSON_decodeObject(d) case '[': return r.builtinJSON_decodeArray(d) } case nil: return _null, nil case string: return newStringValue(tok), nil case float64: return floatToValue(tok), nil case json.Number: f, err := strconv.ParseFloat(string(tok), 64) if err != nil && !errors.Is(err, strconv.ErrRange) { return nil, err } return floatToValue(f), nil case bool: if tok { return valueTrue, nil } return valueFalse, nil } return nil, fmt.Errorf(\"…\", tok, tok) }"),
  ("Runtime.builtinJSON_decodeValue", "func (r *Runtime) builtinJSON_decodeValue(d *json.Decoder) (Value, error) { tok, err := d.Token() if err != nil { return nil, err } return r.builtinJSON_decodeToken(d, tok) }"),
  ("Runtime.builtinJSON_decodeObject", "func (r *Runtime) builtinJSON_decodeObject(d *json.Decoder) (*Object, error) { object := r.NewObject() for { key, end, err := r.builtinJSON_decodeObjectKey(d) if err != nil { return nil, err } if end { break } value, err := r.builtinJSON_decodeValue(d) if err != nil { return nil, err } object.self._putProp(unistring.NewFromString(key), value, true, true, true) } return object, nil }"),
  ("Runtime.builtinJSON_decodeObjectKey", "func (r *Runtime) builtinJSON_decodeObjectKey(d *json.Decoder) (string, bool, error) { tok, err := d.Token() if err != nil { return \"\", false, err } switch tok := tok.(type) { case json.Delim: if tok == '}' { return \"\", true, nil } case string: return tok, false, nil } return \"\", false, fmt.Errorf(\"…\", tok, tok) }"),
  ("Runtime.builtinJSON_decodeArray", "func (r *Runtime) builtinJSON_decodeArray(d *json.Decoder) (*Object, error) { var arrayValue []Value for { tok, err := d.Token() if err != nil { return nil, err } if delim, ok := tok.(json.Delim); ok { if delim == ']' { break } } value, err := r.builtinJSON_decodeToken(d, tok) if err != nil { return nil, err } arrayValue = append(arrayValue, value) } return r.newArrayValues(arrayValue), nil }"),
  ("Runtime.builtinJSON_reviveWalk", "func (r *Runtime) builtinJSON_reviveWalk(reviver func(FunctionCall) Value, holder *Object, name Value) Value { value := nilSafe(holder.get(name, nil)) if object, ok := value.(*Object); ok { if isArray(object) { length := toLength(object.self.getStr(\"length\", nil)) for index := int64(0); index < length; index++ { name := asciiString(strconv.FormatInt(index, 10)) value := r.builtinJSON_reviveWalk(reviver, object, name) if value == _undefined { object.delete(name, false) } else { createDataProperty(object, name, value) } } } else { for _, name := range object.self.stringKeys(false, nil) { value := r.builtinJSON_reviveWalk(reviver, object, name) if value == _undefined { object.self.deleteStr(name.string(), false) } else { createDataProperty(object, name, value) } } } } return reviver(FunctionCall{ This: holder, Arguments: []Value{name, value}, }) }")
]

theorem parse_go_is_the_transcribed_source : GojaModel.Generated.C19.shapes = expectedShapes := by rfl

end GojaModel.C19.Tie
