/-
  C19: completeness of the recursive-descent parser for the grammar relation (`gram_complete`, `parseRaw_complete`) and
  the equivalence `parseRaw_iff_text`.
-/
import GojaModel.C19.Grammar
namespace GojaModel.C19

theorem gram_head {s : Str} {v : JVal} {r : Str} (h : Gram s v r) :
    ∃ c tl, s = c :: tl ∧ isWs c = false ∧ c ≠ 93 ∧ c ≠ 125 := by
  cases h with
  | null => exact ⟨110, _, rfl, by decide, by decide, by decide⟩
  | tru => exact ⟨116, _, rfl, by decide, by decide, by decide⟩
  | fls => exact ⟨102, _, rfl, by decide, by decide, by decide⟩
  | num _ hl =>
    obtain ⟨c, tl, rfl, hc⟩ := numLex_head (numGram_lexOK hl)
    refine ⟨c, tl ++ r, rfl, ?_⟩
    rcases hc with rfl | hd
    · decide
    · simp [isDigit] at hd
      simp [isWs]; omega
  | str => exact ⟨34, _, rfl, by decide, by decide, by decide⟩
  | arrNil => exact ⟨91, _, rfl, by decide, by decide, by decide⟩
  | arrOne => exact ⟨91, _, rfl, by decide, by decide, by decide⟩
  | arrCons => exact ⟨91, _, rfl, by decide, by decide, by decide⟩
  | objNil => exact ⟨123, _, rfl, by decide, by decide, by decide⟩
  | objOne => exact ⟨123, _, rfl, by decide, by decide, by decide⟩
  | objCons => exact ⟨123, _, rfl, by decide, by decide, by decide⟩

theorem gram_need {s : Str} {v : JVal} {r : Str} (h : Gram s v r) : need v + r.length ≤ s.length := by
  induction h with
  | null => simp [need]; omega
  | tru => simp [need]; omega
  | fls => simp [need]; omega
  | num r hl =>
    obtain ⟨c, tl, rfl, _⟩ := numLex_head (numGram_lexOK hl)
    simp [need]; omega
  | str => simp [need]; omega
  | arrNil => simp [need, needL]; omega
  | arrOne r _ _ _ ih => simp [need, needL] at ih ⊢; omega
  | arrCons r _ _ _ _ ih1 ih2 => simp [need, needL] at ih1 ih2 ⊢; omega
  | objNil => simp [need, needM]; omega
  | objOne r _ _ _ _ _ _ ih => simp [need, needM] at ih ⊢; omega
  | objCons r _ _ _ _ _ _ _ ih1 ih2 => simp [need, needM] at ih1 ih2 ⊢; omega

theorem follow_ws_then {w : Str} (hw : AllWs w) (c : Nat) (r : Str) (hc : c = 44 ∨ c = 93 ∨ c = 125) :
    Follow (w ++ c :: r) := by
  cases w with
  | nil => simp [Follow]; right; exact hc
  | cons a t => simp [Follow]; left; simpa [isWs] using hw a (by simp)

theorem follow_ws {w : Str} (hw : AllWs w) : Follow w := by
  cases w with
  | nil => trivial
  | cons a t => simp [Follow]; left; simpa [isWs] using hw a (by simp)

theorem pv_arr_inv {f : Nat} {s2 : Str} {x : JVal} {t : List JVal} {r : Str}
    (h : parseValue (f + 1) (91 :: s2) = some (.arr (x :: t), r)) : parseElems f s2 = some (x :: t, r) := by
  rw [parseValue_succ, skipWs_nonws (by decide)] at h
  simp only [show ¬ (91 : Nat) = 110 from by decide, show ¬ (91 : Nat) = 116 from by decide,
    show ¬ (91 : Nat) = 102 from by decide, show ¬ (91 : Nat) = 34 from by decide, if_false, if_true] at h
  split at h
  · simp at h
  · cases hp : parseElems f s2 with
    | none => simp [hp] at h
    | some p =>
      obtain ⟨xs, r'⟩ := p
      simp [hp] at h
      simp [h.1, h.2]

theorem pv_obj_inv {f : Nat} {s2 : Str} {p : Str × JVal} {t : List (Str × JVal)} {r : Str}
    (h : parseValue (f + 1) (123 :: s2) = some (.obj (p :: t), r)) : parseMembers f s2 = some (p :: t, r) := by
  rw [parseValue_succ, skipWs_nonws (by decide)] at h
  simp only [show ¬ (123 : Nat) = 110 from by decide, show ¬ (123 : Nat) = 116 from by decide,
    show ¬ (123 : Nat) = 102 from by decide, show ¬ (123 : Nat) = 34 from by decide,
    show ¬ (123 : Nat) = 91 from by decide, if_false, if_true] at h
  split at h
  · simp at h
  · cases hp : parseMembers f s2 with
    | none => simp [hp] at h
    | some q =>
      obtain ⟨ms, r'⟩ := q
      simp [hp] at h
      simp [h.1, h.2]

/-- grammar ⇒ parser: a derivable value text is parsed to the denoted tree, in any context that can follow a value,
    after any leading white space, with any fuel ≥ `need v` -/
theorem gram_complete {s : Str} {v : JVal} {r : Str} (h : Gram s v r) :
    ∀ (w : Str) (f : Nat), AllWs w → Follow r → need v ≤ f → parseValue f (w ++ s) = some (v, r) := by
  induction h with
  | null r =>
    intro w f hw _ hf
    cases f with
    | zero => simp [need] at hf
    | succ f => rw [parseValue_succ, skipWs_head w hw (by decide)]; simp [matchLit]
  | tru r =>
    intro w f hw _ hf
    cases f with
    | zero => simp [need] at hf
    | succ f => rw [parseValue_succ, skipWs_head w hw (by decide)]; simp [matchLit]
  | fls r =>
    intro w f hw _ hf
    cases f with
    | zero => simp [need] at hf
    | succ f => rw [parseValue_succ, skipWs_head w hw (by decide)]; simp [matchLit]
  | @num l r hl =>
    intro w f hw hfo hf
    have hv : WfVal (.num l) := by simpa [WfVal] using numGram_lexOK hl
    have := rt_val [] (fun c hc => by cases hc) (.num l) [] w r f (fun c hc => by cases hc) hw hv (follow_stop hfo) hf
    simpa [ser] using this
  | @str b u r hb =>
    intro w f hw _ hf
    cases f with
    | zero => simp [need] at hf
    | succ f =>
      rw [parseValue_succ, skipWs_head w hw (by decide)]
      simp [strBody_complete hb r]
  | @arrNil w0 r hw0 =>
    intro w f hw _ hf
    cases f with
    | zero => simp [need] at hf
    | succ f =>
      rw [parseValue_succ, skipWs_head w hw (by decide)]
      simp [skipWs_head w0 hw0 (show isWs 93 = false by decide)]
  | @arrOne w1 w2 s v r hw1 hw2 hg ih =>
    intro w f hw _ hf
    obtain ⟨c, tl, rfl, hcw, hc93, _⟩ := gram_head hg
    match f, hf with
    | f2 + 2, hf =>
      have hfv : need v ≤ f2 := by simp [need, needL] at hf; omega
      have hv := ih w1 f2 hw1 (follow_ws_then hw2 93 r (by simp)) hfv
      rw [parseValue_succ, skipWs_head w hw (by decide)]
      simp only [show ¬ (91 : Nat) = 110 from by decide, show ¬ (91 : Nat) = 116 from by decide,
        show ¬ (91 : Nat) = 102 from by decide, show ¬ (91 : Nat) = 34 from by decide, if_false, if_true]
      split
      · rename_i r' heq
        rw [skipWs_head w1 hw1 hcw] at heq
        injection heq with h1 _
        exact absurd h1 hc93
      · rw [parseElems_succ, hv]
        simp [skipWs_head w2 hw2 (show isWs 93 = false by decide)]
    | 0, hf => simp [need] at hf
    | 1, hf => simp [need, needL] at hf
  | @arrCons w1 w2 s s2 v x t r hw1 hw2 hg hgt ih1 ih2 =>
    intro w f hw hfo hf
    obtain ⟨c, tl, rfl, hcw, hc93, _⟩ := gram_head hg
    match f, hf with
    | f2 + 2, hf =>
      have hfv : need v ≤ f2 ∧ needL (x :: t) ≤ f2 := by simp [need, needL] at hf ⊢; omega
      have hv := ih1 w1 f2 hw1 (follow_ws_then hw2 44 s2 (by simp)) hfv.1
      have hrest : parseElems f2 s2 = some (x :: t, r) := by
        apply pv_arr_inv
        have := ih2 [] (f2 + 1) (fun c hc => by cases hc) hfo (by simp [need]; exact hfv.2)
        simpa using this
      rw [parseValue_succ, skipWs_head w hw (by decide)]
      simp only [show ¬ (91 : Nat) = 110 from by decide, show ¬ (91 : Nat) = 116 from by decide,
        show ¬ (91 : Nat) = 102 from by decide, show ¬ (91 : Nat) = 34 from by decide, if_false, if_true]
      split
      · rename_i r' heq
        rw [skipWs_head w1 hw1 hcw] at heq
        injection heq with h1 _
        exact absurd h1 hc93
      · rw [parseElems_succ, hv]
        simp [skipWs_head w2 hw2 (show isWs 44 = false by decide), hrest]
    | 0, hf => simp [need] at hf
    | 1, hf => simp [need, needL] at hf
  | @objNil w0 r hw0 =>
    intro w f hw _ hf
    cases f with
    | zero => simp [need] at hf
    | succ f =>
      rw [parseValue_succ, skipWs_head w hw (by decide)]
      simp [skipWs_head w0 hw0 (show isWs 125 = false by decide)]
  | @objOne w1 w2 w3 w4 b k s v r hw1 hw2 hw3 hw4 hb hg ih =>
    intro w f hw _ hf
    match f, hf with
    | f2 + 2, hf =>
      have hfv : need v ≤ f2 := by simp [need, needM] at hf; omega
      have hv := ih w3 f2 hw3 (follow_ws_then hw4 125 r (by simp)) hfv
      rw [parseValue_succ, skipWs_head w hw (by decide)]
      simp only [show ¬ (123 : Nat) = 110 from by decide, show ¬ (123 : Nat) = 116 from by decide,
        show ¬ (123 : Nat) = 102 from by decide, show ¬ (123 : Nat) = 34 from by decide,
        show ¬ (123 : Nat) = 91 from by decide, if_false, if_true]
      split
      · rename_i r' heq
        rw [skipWs_head w1 hw1 (by decide)] at heq
        injection heq with h1 _
        exact absurd h1 (by decide)
      · rw [parseMembers_succ, skipWs_head w1 hw1 (by decide)]
        simp only [strBody_complete hb]
        rw [skipWs_head w2 hw2 (by decide)]
        simp only [hv]
        simp [skipWs_head w4 hw4 (show isWs 125 = false by decide)]
    | 0, hf => simp [need] at hf
    | 1, hf => simp [need, needM] at hf
  | @objCons w1 w2 w3 w4 b k s s2 v p t r hw1 hw2 hw3 hw4 hb hg hgt ih1 ih2 =>
    intro w f hw hfo hf
    match f, hf with
    | f2 + 2, hf =>
      have hfv : need v ≤ f2 ∧ needM (p :: t) ≤ f2 := by
        obtain ⟨pk, pv⟩ := p
        simp [need, needM] at hf ⊢; omega
      have hv := ih1 w3 f2 hw3 (follow_ws_then hw4 44 s2 (by simp)) hfv.1
      have hrest : parseMembers f2 s2 = some (p :: t, r) := by
        apply pv_obj_inv
        have := ih2 [] (f2 + 1) (fun c hc => by cases hc) hfo (by simp [need]; exact hfv.2)
        simpa using this
      rw [parseValue_succ, skipWs_head w hw (by decide)]
      simp only [show ¬ (123 : Nat) = 110 from by decide, show ¬ (123 : Nat) = 116 from by decide,
        show ¬ (123 : Nat) = 102 from by decide, show ¬ (123 : Nat) = 34 from by decide,
        show ¬ (123 : Nat) = 91 from by decide, if_false, if_true]
      split
      · rename_i r' heq
        rw [skipWs_head w1 hw1 (by decide)] at heq
        injection heq with h1 _
        exact absurd h1 (by decide)
      · rw [parseMembers_succ, skipWs_head w1 hw1 (by decide)]
        simp only [strBody_complete hb]
        rw [skipWs_head w2 hw2 (by decide)]
        simp only [hv]
        simp [skipWs_head w4 hw4 (show isWs 44 = false by decide), hrest]
    | 0, hf => simp [need] at hf
    | 1, hf => simp [need, needM] at hf

/-- grammar ⇒ parser at top level -/
theorem parseRaw_complete {t : Str} {v : JVal} (h : Text t v) : parseRaw t = some v := by
  obtain ⟨w1, w2, s, hw1, hw2, rfl, hg⟩ := h
  have hn := gram_need hg
  have := gram_complete hg w1 ((w1 ++ s).length + 1) hw1 (follow_ws hw2) (by simp; omega)
  unfold parseRaw
  rw [this]
  have : skipWs w2 = [] := by simpa [skipWs] using skipWs_append_ws w2 [] hw2
  simp [this]

/-- parse_total_decides: the (total) parser accepts exactly the texts of the grammar, with exactly the denoted tree -/
theorem parseRaw_iff_text (t : Str) (v : JVal) : parseRaw t = some v ↔ Text t v :=
  ⟨parseRaw_sound, parseRaw_complete⟩

end GojaModel.C19
