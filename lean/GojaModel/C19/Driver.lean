/-
  C19 model driver.  Line protocol (one op per line, one answer line per op):

    P <hex>                  JSON.parse of the text whose UTF-16 units are <hex> (4 hex digits per unit)
                             -> "ok <dump>"  |  "ok <dump> L <dump'>"  |  "err"
                             (<dump'> = result for the text in which every raw lone surrogate and every escaped
                              surrogate that is not part of an escaped high+low pair is replaced by U+FFFD — the
                              documented exception of goja, README §JSON; only printed when that text differs)
    S <gap> <tok>*           JSON.stringify of the value described by the tokens
                             gap: n<k> (Number k ≥ 0, already truncated)  |  s<hex> (String)
                             tok: z | t | f | n<hex lexeme> | s<hex> | a<count> | o<count> (then key s<hex>, value)
                             -> "ok <hex>"  |  "bad"
    SM <gap> <tok>*          mechanism-level serialiser Mech.strM; extra tokens u (undefined) and F (function)
    SC <gap> <tok>*          Cycle.strC; tokens u z t f n<hex> s<hex> F<id> A<id>:<n> O<id>:<n> R<id> (identities, shared / back references)
    SB <gap> <tok>*          Boxed.strB; extra tokens I g Xn<hex> Xi Xs<hex> Xt Xf Xg Xy (boxed primitives, BigInt, non-finite)
    SL <gap> <n> <item>*n <tok>*   the same with a replacer allow-list of n items (s<hex> | n<hex canonical text>)
    SR <gap> <mode> D <s-key>* Z <s-key>* W <s-key>* V <tok>*   stringify with toJSON hooks / a replacer function from the
                             catalogue `catHooks` -> "ok <hex text> C <log>" | "undef C <log>"
    RM <hex text> T <k>* X <k>* S <k>? C <hex const> D <k>*   JSON.parse with a reviver that edits its holder (ReviverMut.lean)
    RV <hex text> D <s-key>* Z <s-key>*   JSON.parse with a pure reviver (undefined for D keys, null for Z keys)
                             -> "ok <dump with h = hole> C <hex keys of the calls joined by '.'>" | "undef C …" | "err"
    Q <hex>                  QuoteJSONString -> "ok <hex>"

  dump: z | t | f | n<16 hex: IEEE bits> | s<hex> | [d,d,…] | {<hex key>:d,…}
-/
import GojaModel.Base.Proto
import GojaModel.C19.Model
import GojaModel.C19.Reviver
import GojaModel.C19.Replacer
import GojaModel.C19.Tok
import GojaModel.C19.ReviverMut
import GojaModel.C19.Mech
import GojaModel.C19.Utf8View
import GojaModel.C19.Boxed
import GojaModel.C19.Cycle

namespace GojaModel.C19.Driver
open GojaModel.Proto GojaModel.C19

def unhex (s : String) : Option Str :=
  let rec go : List Char → Str → Option Str
    | a :: b :: c :: d :: r, acc =>
      match hexDigit? a, hexDigit? b, hexDigit? c, hexDigit? d with
      | some x, some y, some z, some w => go r ((x * 4096 + y * 256 + z * 16 + w) :: acc)
      | _, _, _, _ => none
    | [], acc => some acc.reverse
    | _, _ => none
  go s.toList []

def hexU (u : Nat) : List Char := [hexChar (u / 4096 % 16), hexChar (u / 256 % 16), hexChar (u / 16 % 16), hexChar (u % 16)]
def hexS (s : Str) : List Char := s.flatMap hexU   -- List.flatMap

mutual
partial def dump : JVal → List Char
  | .null => ['z']
  | .bool true => ['t']
  | .bool false => ['f']
  | .num l => 'n' :: (toHexW 16 (lexToBits l)).toList
  | .str s => 's' :: hexS s
  | .arr xs => '[' :: (dumpL xs ++ [']'])
  | .obj ms => '{' :: (dumpM ms ++ ['}'])
partial def dumpL : List JVal → List Char
  | [] => []
  | [v] => dump v
  | v :: t => dump v ++ (',' :: dumpL t)
partial def dumpM : List (Str × JVal) → List Char
  | [] => []
  | [(k, v)] => hexS k ++ (':' :: dump v)
  | (k, v) :: t => hexS k ++ (':' :: dump v) ++ (',' :: dumpM t)
end

/-- raw dump of a syntactic tree (before object building): lexemes, not bits -/
def rawKey (o : Option JVal) : String :=
  match o with
  | none => "err"
  | some v => String.ofList (dump v)

def doParse (h : String) : String :=
  match unhex h with
  | none => "bad"
  | some t =>
    -- mechanism-level model (Go token stream + goja's decode functions) must agree with the spec-level parser
    let mech := if rawKey (gojaParseRaw t) == rawKey (parseRaw t) then "" else " MECHDIFF " ++ rawKey (gojaParseRaw t)
    match parseRaw t with
    | none => "err" ++ mech
    | some raw =>
      let v := build NumCanon.id raw
      let base := "ok " ++ String.ofList (dump v)
      let t' := fixText t
      (if t' != t then
        match parseRaw t' with
        | some raw' => base ++ " L " ++ String.ofList (dump (build NumCanon.id raw'))
        | none => base ++ " L err"
      else base) ++ mech

/-- value tokens → JVal (insertion-ordered members), rest of tokens -/
partial def readVal : List String → Option (JVal × List String)
  | [] => none
  | tok :: rest =>
    match tok.toList with
    | ['z'] => some (.null, rest)
    | ['t'] => some (.bool true, rest)
    | ['f'] => some (.bool false, rest)
    | 'n' :: h => (unhex (String.ofList h)).map fun l => (.num l, rest)
    | 's' :: h => (unhex (String.ofList h)).map fun s => (.str s, rest)
    | 'a' :: n =>
      let rec elems : Nat → List String → List JVal → Option (List JVal × List String)
        | 0, r, acc => some (acc.reverse, r)
        | k + 1, r, acc => match readVal r with
          | some (v, r') => elems k r' (v :: acc)
          | none => none
      (String.ofList n).toNat?.bind fun k => (elems k rest []).map fun (xs, r) => (.arr xs, r)
    | 'o' :: n =>
      let rec mems : Nat → List String → List (Str × JVal) → Option (List (Str × JVal) × List String)
        | 0, r, acc => some (acc.reverse, r)
        | k + 1, r, acc => match r with
          | key :: r1 =>
            match key.toList with
            | 's' :: h =>
              match unhex (String.ofList h), readVal r1 with
              | some ks, some (v, r') => mems k r' ((ks, v) :: acc)
              | _, _ => none
            | _ => none
          | [] => none
      (String.ofList n).toNat?.bind fun k => (mems k rest []).map fun (ms, r) => (.obj ms, r)
    | _ => none

def readGap (g : String) : Option Str :=
  match g.toList with
  | 'n' :: k => (String.ofList k).toNat?.map gapOfNumber
  | 's' :: h => (unhex (String.ofList h)).map gapOfString
  | _ => none

def doStringify (ws : List String) : String :=
  match ws with
  | g :: toks =>
    match readGap g, readVal toks with
    | some gap, some (v, []) =>
      -- a JS object holding these members in this insertion order = build of the tree
      "ok " ++ String.ofList (hexS (stringify gap (build NumCanon.id v)))
    | _, _ => "bad"
  | [] => "bad"

/-- `SL <gap> <n> <item>*n <tok>*` : stringify with a replacer allow-list (items: s<hex> strings, n<hex> numbers given by
    their canonical text) -/
def doStringifyPL (ws : List String) : String :=
  match ws with
  | g :: n :: rest =>
    match readGap g, n.toNat? with
    | some gap, some k =>
      let items := (rest.take k).filterMap fun t =>
        match t.toList with
        | 's' :: h => unhex (String.ofList h)
        | 'n' :: h => unhex (String.ofList h)
        | _ => none
      if items.length != k then "bad" else
      match readVal (rest.drop k) with
      | some (v, []) => "ok " ++ String.ofList (hexS (stringifyPL items gap (build NumCanon.id v)))
      | _ => "bad"
    | _, _ => "bad"
  | _ => "bad"

mutual
partial def rdump : RVal → List Char
  | .null => ['z']
  | .bool true => ['t']
  | .bool false => ['f']
  | .hole => ['h']
  | .num l => 'n' :: (toHexW 16 (lexToBits l)).toList
  | .str s => 's' :: hexS s
  | .arr xs => '[' :: (rdumpL xs ++ [']'])
  | .obj ms => '{' :: (rdumpM ms ++ ['}'])
partial def rdumpL : List RVal → List Char
  | [] => []
  | [v] => rdump v
  | v :: t => rdump v ++ (',' :: rdumpL t)
partial def rdumpM : List (Str × RVal) → List Char
  | [] => []
  | [(k, v)] => hexS k ++ (':' :: rdump v)
  | (k, v) :: t => hexS k ++ (':' :: rdump v) ++ (',' :: rdumpM t)
end

/-- `RV <hex text> D <s-key>* Z <s-key>*` : JSON.parse(text, reviver) where the reviver returns undefined for the keys after
    D, null for the keys after Z and its value otherwise; answer: result dump (h = hole) and the keys of the calls -/
def doRevive (ws : List String) : String :=
  match ws with
  | h :: "D" :: rest =>
    let ds := rest.takeWhile (· != "Z")
    let zs := (rest.dropWhile (· != "Z")).drop 1
    let keysOf (l : List String) : List Str := l.filterMap fun t =>
      match t.toList with
      | 's' :: x => unhex (String.ofList x)
      | _ => none
    let D := keysOf ds
    let Z := keysOf zs
    match unhex h with
    | none => "bad"
    | some t =>
      match parse NumCanon.id t with
      | none => "err"
      | some v =>
        let R : Reviver := fun k x => if D.contains k then none else if Z.contains k then some .null else some x
        let res := match revive R [] v with
          | some y => "ok " ++ String.ofList (rdump y)
          | none => "undef"
        res ++ " C " ++ ".".intercalate ((calls [] v).map fun k => String.ofList (hexS k))
  | _ => "bad"

def hexStr (k : Str) : String := String.ofList (hexS k)

def kindOf : Option RVal → String
  | none => "u"
  | some .hole => "u"
  | some (.num _) => "number"
  | some (.str _) => "string"
  | some (.bool _) => "boolean"
  | some _ => "object"

/-- `RM <hex text> T <s-key>* X <s-key>* S <s-key>? C <hex const text> D <s-key>*` : JSON.parse with a reviver that, when called
    for a key in T, deletes the keys X from `this` and assigns the parsed constant C to `this[S]`; it returns undefined
    for the keys in D and its value otherwise; every call is logged as <hex key>:<typeof value | u> -/
def doReviveM (ws : List String) : String :=
  match ws with
  | h :: "T" :: rest =>
    let keysOf (l : List String) : List Str := l.filterMap fun t =>
      match t.toList with
      | 's' :: x => unhex (String.ofList x)
      | _ => none
    let ts := rest.takeWhile (· != "X")
    let r1 := (rest.dropWhile (· != "X")).drop 1
    let xs := r1.takeWhile (· != "S")
    let r2 := (r1.dropWhile (· != "S")).drop 1
    let ss := r2.takeWhile (· != "C")
    let r3 := (r2.dropWhile (· != "C")).drop 1
    let cs := r3.takeWhile (· != "D")
    let dsl := (r3.dropWhile (· != "D")).drop 1
    let T := keysOf ts
    let X := keysOf xs
    let S := (keysOf ss).head?
    let D := keysOf dsl
    let C : Option RVal := match cs with
      | c :: _ => (match unhex c with
                   | some ct => (parse NumCanon.id ct).map emb
                   | none => none)
      | [] => none
    match unhex h with
    | none => "bad"
    | some t =>
      match parse NumCanon.id t with
      | none => "err"
      | some v =>
        let R : ReviverM (List String) := fun log holder k x =>
          let h1 := if T.contains k then
              let hd := X.foldl (fun acc d => rDelete acc d) holder
              (match S, C with
               | some sk, some c => rDefine hd sk c
               | _, _ => hd)
            else holder
          (log ++ [hexStr k ++ ":" ++ kindOf x], if D.contains k then none else (match x with | some .hole => none | o => o), h1)
        match reviveRootM R (4000 + 8 * t.length) [] v with
        | some (log, some y) => "ok " ++ String.ofList (rdump y) ++ " C " ++ ".".intercalate log
        | some (log, none) => "undef C " ++ ".".intercalate log
        | none => "fuel"
  | _ => "bad"

/-- fingerprint of a holder as the JS side logs it: A / O and the own enumerable keys -/
def holderFp : JVal → String
  | .arr xs => "A" ++ "/".intercalate ((List.range xs.length).map fun i => hexStr (idxKey i))
  | .obj ms => "O" ++ "/".intercalate (ms.map fun p => hexStr p.1)
  | _ => "?"

def isArr : JVal → Bool
  | .arr _ => true
  | _ => false

/-- the hook catalogue of the correspondence (state = log lines).
    mode letters: a = Array.prototype.toJSON = k ↦ k ; o = Object.prototype.toJSON = k ↦ (array ? this : [k]) ;
                  b = both ; r = replacer function present: undefined for D keys, null for Z keys, [v] for W keys -/
def catHooks (mode : String) (D Z W : List Str) : Hooks (List String) :=
  let a := mode.contains 'a' || mode.contains 'b'
  let o := mode.contains 'o' || mode.contains 'b'
  { hasTJ := fun v => if isArr v then a || o else o
    toJSON := fun log k v =>
      (log ++ ["t:" ++ hexStr k],
       some (if isArr v then (if a then .str k else v) else .arr [.str k]))
    repl := if mode.contains 'r' then
        some (fun log h k v =>
          (log ++ ["r:" ++ hexStr k ++ "@" ++ holderFp h],
           if D.contains k then none else if Z.contains k then some .null
           else if W.contains k then (match v with | some x => some (.arr [x]) | none => none) else v))
      else none }

/-- `SR <gap> <mode> D <s-key>* Z <s-key>* W <s-key>* V <tok>*` -/
def doStringifyH (ws : List String) : String :=
  match ws with
  | g :: mode :: "D" :: rest =>
    let keysOf (l : List String) : List Str := l.filterMap fun t =>
      match t.toList with
      | 's' :: x => unhex (String.ofList x)
      | _ => none
    let ds := rest.takeWhile (· != "Z")
    let r1 := (rest.dropWhile (· != "Z")).drop 1
    let zs := r1.takeWhile (· != "W")
    let r2 := (r1.dropWhile (· != "W")).drop 1
    let wsk := r2.takeWhile (· != "V")
    let toks := (r2.dropWhile (· != "V")).drop 1
    match readGap g, readVal toks with
    | some gap, some (v, []) =>
      let bv := build NumCanon.id v
      match stringifyH (catHooks mode (keysOf ds) (keysOf zs) (keysOf wsk)) gap (2000 + 4 * toks.length) [] bv with
      | some (log, some txt) => "ok " ++ hexStr txt ++ " C " ++ ".".intercalate log
      | some (log, none) => "undef C " ++ ".".intercalate log
      | none => "fuel"
    | _, _ => "bad"
  | _ => "bad"

/-- value tokens with undefined leaves (`u` undefined, `F` a function) → MVal -/
partial def readMVal : List String → Option (MVal × List String)
  | [] => none
  | tok :: rest =>
    match tok.toList with
    | ['u'] => some (.undef, rest)
    | ['F'] => some (.undef, rest)
    | ['z'] => some (.null, rest)
    | ['t'] => some (.bool true, rest)
    | ['f'] => some (.bool false, rest)
    | 'n' :: h => (unhex (String.ofList h)).map fun l => (.num l, rest)
    | 's' :: h => (unhex (String.ofList h)).map fun s => (.str s, rest)
    | 'a' :: n =>
      let rec elems : Nat → List String → List MVal → Option (List MVal × List String)
        | 0, r, acc => some (acc.reverse, r)
        | k + 1, r, acc => match readMVal r with
          | some (v, r') => elems k r' (v :: acc)
          | none => none
      (String.ofList n).toNat?.bind fun k => (elems k rest []).map fun (xs, r) => (.arr xs, r)
    | 'o' :: n =>
      let rec mems : Nat → List String → List (Str × MVal) → Option (List (Str × MVal) × List String)
        | 0, r, acc => some (acc.reverse, r)
        | k + 1, r, acc => match r with
          | key :: r1 =>
            match key.toList with
            | 's' :: h =>
              match unhex (String.ofList h), readMVal r1 with
              | some ks, some (v, r') => mems k r' ((ks, v) :: acc)
              | _, _ => none
            | _ => none
          | [] => none
      (String.ofList n).toNat?.bind fun k => (mems k rest []).map fun (ms, r) => (.obj ms, r)
    | _ => none

/-- `SM <gap> <tok>*` : the mechanism-level serialiser (Mech.strM: buffer, ctx.indent, Truncate) on a value with
    undefined leaves; keys must be distinct non-index strings in insertion order -/
def doStringifyM (ws : List String) : String :=
  match ws with
  | g :: toks =>
    match readGap g, readMVal toks with
    | some gap, some (v, []) =>
      let r := strM gap v [] []
      if r.2.2 then "ok " ++ String.ofList (hexS r.1) ++ (if r.2.1 == [] then "" else " INDENT-NOT-RESTORED") else "undef"
    | _, _ => "bad"
  | [] => "bad"

/-- value tokens with boxed primitives / BigInt / non-finite numbers → BVal
    (I non-finite number, g BigInt, Xn<hex> new Number, Xi new Number(Infinity), Xs<hex> new String, Xt / Xf new Boolean,
     Xg Object(1n), Xy Object(Symbol())) -/
partial def readBVal : List String → Option (BVal × List String)
  | [] => none
  | tok :: rest =>
    match tok.toList with
    | ['u'] => some (.undef, rest)
    | ['F'] => some (.undef, rest)
    | ['z'] => some (.null, rest)
    | ['t'] => some (.bool true, rest)
    | ['f'] => some (.bool false, rest)
    | ['I'] => some (.nonfin, rest)
    | ['g'] => some (.big, rest)
    | ['X', 'i'] => some (.boxNonfin, rest)
    | ['X', 't'] => some (.boxBool true, rest)
    | ['X', 'f'] => some (.boxBool false, rest)
    | ['X', 'g'] => some (.boxBig, rest)
    | ['X', 'y'] => some (.boxSym, rest)
    | 'X' :: 'n' :: h => (unhex (String.ofList h)).map fun l => (.boxNum l, rest)
    | 'X' :: 's' :: h => (unhex (String.ofList h)).map fun x => (.boxStr x, rest)
    | 'n' :: h => (unhex (String.ofList h)).map fun l => (.num l, rest)
    | 's' :: h => (unhex (String.ofList h)).map fun x => (.str x, rest)
    | 'a' :: n =>
      let rec elems : Nat → List String → List BVal → Option (List BVal × List String)
        | 0, r, acc => some (acc.reverse, r)
        | k + 1, r, acc => match readBVal r with
          | some (v, r') => elems k r' (v :: acc)
          | none => none
      (String.ofList n).toNat?.bind fun k => (elems k rest []).map fun (xs, r) => (.arr xs, r)
    | 'o' :: n =>
      let rec mems : Nat → List String → List (Str × BVal) → Option (List (Str × BVal) × List String)
        | 0, r, acc => some (acc.reverse, r)
        | k + 1, r, acc => match r with
          | key :: r1 =>
            match key.toList with
            | 's' :: h =>
              match unhex (String.ofList h), readBVal r1 with
              | some ks, some (v, r') => mems k r' ((ks, v) :: acc)
              | _, _ => none
            | _ => none
          | [] => none
      (String.ofList n).toNat?.bind fun k => (mems k rest []).map fun (ms, r) => (.obj ms, r)
    | _ => none

/-- `SB <gap> <tok>*` : Boxed.strB (str with its unwrapping switch; TypeError for BigInt) -/
def doStringifyB (ws : List String) : String :=
  match ws with
  | g :: toks =>
    match readGap g, readBVal toks with
    | some gap, some (v, []) =>
      (match stringifyB gap v with
       | .typeError => "throw:TypeError"
       | .undef => "undef"
       | .text t => "ok " ++ String.ofList (hexS t))
    | _, _ => "bad"
  | [] => "bad"

/-- reader state for values with identities: finished objects by id, and the ids (with kind: true = array) that are open -/
structure CEnv where
  closed : List (Nat × CVal)
  opened : List (Nat × Bool)

def CEnv.find (e : CEnv) (id : Nat) : Option CVal := (e.closed.find? fun p => p.1 == id).map (·.2)

/-- tokens: u | z t f n<hex> s<hex> (leaves) | F<id> function | A<id>:<n> array | O<id>:<n> object | R<id> reference to an
    identity introduced earlier: the same object again if it is finished, a back-reference (cycle) if it is still open -/
partial def readCVal : List String → CEnv → Option (CVal × List String × CEnv)
  | [], _ => none
  | tok :: rest, e =>
    match tok.toList with
    | ['u'] => some (.undef, rest, e)
    | ['z'] => some (.leaf [110, 117, 108, 108], rest, e)
    | ['t'] => some (.leaf [116, 114, 117, 101], rest, e)
    | ['f'] => some (.leaf [102, 97, 108, 115, 101], rest, e)
    | 'n' :: h => (unhex (String.ofList h)).map fun l => (.leaf l, rest, e)
    | 's' :: h => (unhex (String.ofList h)).map fun x => (.leaf (quote x), rest, e)
    | 'F' :: d => (String.ofList d).toNat?.map fun id => (.fn id, rest, { e with closed := (id, .fn id) :: e.closed })
    | 'R' :: d =>
      (String.ofList d).toNat?.bind fun id =>
        match e.opened.find? fun p => p.1 == id with
        | some (_, true) => some (.arr id [], rest, e)
        | some (_, false) => some (.obj id [], rest, e)
        | none => (e.find id).map fun v => (v, rest, e)
    | 'A' :: d =>
      match (String.ofList d).splitOn ":" with
      | [a, b] =>
        match a.toNat?, b.toNat? with
        | some id, some n =>
          let rec elems : Nat → List String → CEnv → List CVal → Option (List CVal × List String × CEnv)
            | 0, r, e1, acc => some (acc.reverse, r, e1)
            | k + 1, r, e1, acc => match readCVal r e1 with
              | some (v, r', e2) => elems k r' e2 (v :: acc)
              | none => none
          (elems n rest { e with opened := (id, true) :: e.opened } []).map fun (xs, r, e1) =>
            (.arr id xs, r, { closed := (id, .arr id xs) :: e1.closed, opened := e.opened })
        | _, _ => none
      | _ => none
    | 'O' :: d =>
      match (String.ofList d).splitOn ":" with
      | [a, b] =>
        match a.toNat?, b.toNat? with
        | some id, some n =>
          let rec mems : Nat → List String → CEnv → List (Str × CVal) → Option (List (Str × CVal) × List String × CEnv)
            | 0, r, e1, acc => some (acc.reverse, r, e1)
            | k + 1, r, e1, acc => match r with
              | key :: r1 =>
                match key.toList with
                | 's' :: h =>
                  match unhex (String.ofList h) with
                  | some ks => (match readCVal r1 e1 with
                                | some (v, r', e2) => mems k r' e2 ((ks, v) :: acc)
                                | none => none)
                  | none => none
                | _ => none
              | [] => none
          (mems n rest { e with opened := (id, false) :: e.opened } []).map fun (ms, r, e1) =>
            (.obj id ms, r, { closed := (id, .obj id ms) :: e1.closed, opened := e.opened })
        | _, _ => none
      | _ => none
    | _ => none

/-- `SC <gap> <tok>*` : Cycle.strC (stack lookup, push, pop) on a value with object identities -/
def doStringifyC (ws : List String) : String :=
  match ws with
  | g :: toks =>
    match readGap g, readCVal toks { closed := [], opened := [] } with
    | some gap, some (v, [], _) =>
      (match strC gap v [] [] [] with
       | .typeError => "throw:TypeError"
       | .ok b _ true st => "ok " ++ String.ofList (hexS b) ++ (if st.isEmpty then "" else " STACK-NOT-RESTORED")
       | .ok _ _ false _ => "undef")
    | _, _ => "bad"
  | [] => "bad"

def step (line : String) : String :=
  match words line with
  | ["P"] => doParse ""
  | ["P", h] => doParse h
  | "S" :: rest => doStringify rest
  | "SL" :: rest => doStringifyPL rest
  | "SM" :: rest => doStringifyM rest
  | "SB" :: rest => doStringifyB rest
  | "SC" :: rest => doStringifyC rest
  | "RV" :: rest => doRevive rest
  | "SR" :: rest => doStringifyH rest
  | "RM" :: rest => doReviveM rest
  | ["Q", h] => match unhex h with
    | some s => "ok " ++ String.ofList (hexS (quote s))
    | none => "bad"
  | ["Q"] => "ok " ++ String.ofList (hexS (quote []))
  | _ => "bad"

def main : IO Unit := lineMap step

end GojaModel.C19.Driver
