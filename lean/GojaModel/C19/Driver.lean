/-
  C19 model driver.  Line protocol (one op per line, one answer line per op):

    P <hex>                  JSON.parse of the text whose UTF-16 units are <hex> (4 hex digits per unit)
                             -> "ok <dump>"  |  "ok <dump> L <dump'>"  |  "err"
                             (<dump'> = result for the text in which every raw lone surrogate and every escaped
                              surrogate that is not part of an escaped high+low pair is replaced by U+FFFD — the
                              documented exception of goja, README §JSON; only printed when that text differs)
    S <gap> <tok>*           JSON.stringify of the value described by the tokens
                             gap: n<k> (Number k ≥ 0, already truncated)  |  s<hex> (String)
                             tok: z | t | f | n<hex lexeme> | s<hex> | a<count> | o<count> (then key s<hex>, value)
                             -> "ok <hex>"  |  "bad"
    SL <gap> <n> <item>*n <tok>*   the same with a replacer allow-list of n items (s<hex> | n<hex canonical text>)
    RV <hex text> D <s-key>* Z <s-key>*   JSON.parse with a pure reviver (undefined for D keys, null for Z keys)
                             -> "ok <dump with h = hole> C <hex keys of the calls joined by '.'>" | "undef C …" | "err"
    Q <hex>                  QuoteJSONString -> "ok <hex>"

  dump: z | t | f | n<16 hex: IEEE bits> | s<hex> | [d,d,…] | {<hex key>:d,…}
-/
import GojaModel.Base.Proto
import GojaModel.C19.Model
import GojaModel.C19.Reviver

namespace GojaModel.C19.Driver
open GojaModel.Proto GojaModel.C19

def unhex (s : String) : Option Str :=
  let rec go : List Char → Str → Option Str
    | a :: b :: c :: d :: r, acc =>
      match hexDigit? a, hexDigit? b, hexDigit? c, hexDigit? d with
      | some x, some y, some z, some w => go r ((x * 4096 + y * 256 + z * 16 + w) :: acc)
      | _, _, _, _ => none
    | [], acc => some acc.reverse
    | _, _ => none
  go s.toList []

def hexU (u : Nat) : List Char := [hexChar (u / 4096 % 16), hexChar (u / 256 % 16), hexChar (u / 16 % 16), hexChar (u % 16)]
def hexS (s : Str) : List Char := s.flatMap hexU   -- List.flatMap

mutual
partial def dump : JVal → List Char
  | .null => ['z']
  | .bool true => ['t']
  | .bool false => ['f']
  | .num l => 'n' :: (toHexW 16 (lexToBits l)).toList
  | .str s => 's' :: hexS s
  | .arr xs => '[' :: (dumpL xs ++ [']'])
  | .obj ms => '{' :: (dumpM ms ++ ['}'])
partial def dumpL : List JVal → List Char
  | [] => []
  | [v] => dump v
  | v :: t => dump v ++ (',' :: dumpL t)
partial def dumpM : List (Str × JVal) → List Char
  | [] => []
  | [(k, v)] => hexS k ++ (':' :: dump v)
  | (k, v) :: t => hexS k ++ (':' :: dump v) ++ (',' :: dumpM t)
end

/-- raw lone surrogates of the text → U+FFFD (what a conversion of the text to UTF-8 does) -/
partial def fixLone : Str → Str
  | [] => []
  | h :: t =>
    if isHigh h then
      match t with
      | l :: r => if isLow l then h :: l :: fixLone r else 0xFFFD :: fixLone t
      | [] => [0xFFFD]
    else if isLow h then 0xFFFD :: fixLone t
    else h :: fixLone t

def surrEsc? : Str → Option (Nat × Str)
  | 92 :: 117 :: a :: b :: c :: d :: r =>
    match hex4Val a b c d with
    | some u => if isHigh u || isLow u then some (u, r) else none
    | none => none
  | _ => none

/-- `\uXXXX` escapes that denote a surrogate and are not part of an escaped high+low pair → `\ufffd`
    (what a UTF-8 based tokenizer such as encoding/json produces).  Backslash pairs are skipped as units. -/
partial def fixEsc : Str → Str
  | [] => []
  | 92 :: t =>
    match surrEsc? (92 :: t) with
    | some (u, r) =>
      if isHigh u then
        match surrEsc? r with
        | some (l, r2) =>
          if isLow l then (92 :: t).take 12 ++ fixEsc r2
          else [92, 117, 102, 102, 102, 100] ++ fixEsc r
        | none => [92, 117, 102, 102, 102, 100] ++ fixEsc r
      else [92, 117, 102, 102, 102, 100] ++ fixEsc r
    | none =>
      match t with
      | c :: r => 92 :: c :: fixEsc r
      | [] => [92]
  | c :: t => c :: fixEsc t

/-- the text as goja's UTF-8 based tokenizer sees it (documented exception, README §JSON) -/
def fixText (t : Str) : Str := fixEsc (fixLone t)

def doParse (h : String) : String :=
  match unhex h with
  | none => "bad"
  | some t =>
    match parseRaw t with
    | none => "err"
    | some raw =>
      let v := build NumCanon.id raw
      let base := "ok " ++ String.ofList (dump v)
      let t' := fixText t
      if t' != t then
        match parseRaw t' with
        | some raw' => base ++ " L " ++ String.ofList (dump (build NumCanon.id raw'))
        | none => base ++ " L err"
      else base

/-- value tokens → JVal (insertion-ordered members), rest of tokens -/
partial def readVal : List String → Option (JVal × List String)
  | [] => none
  | tok :: rest =>
    match tok.toList with
    | ['z'] => some (.null, rest)
    | ['t'] => some (.bool true, rest)
    | ['f'] => some (.bool false, rest)
    | 'n' :: h => (unhex (String.ofList h)).map fun l => (.num l, rest)
    | 's' :: h => (unhex (String.ofList h)).map fun s => (.str s, rest)
    | 'a' :: n =>
      let rec elems : Nat → List String → List JVal → Option (List JVal × List String)
        | 0, r, acc => some (acc.reverse, r)
        | k + 1, r, acc => match readVal r with
          | some (v, r') => elems k r' (v :: acc)
          | none => none
      (String.ofList n).toNat?.bind fun k => (elems k rest []).map fun (xs, r) => (.arr xs, r)
    | 'o' :: n =>
      let rec mems : Nat → List String → List (Str × JVal) → Option (List (Str × JVal) × List String)
        | 0, r, acc => some (acc.reverse, r)
        | k + 1, r, acc => match r with
          | key :: r1 =>
            match key.toList with
            | 's' :: h =>
              match unhex (String.ofList h), readVal r1 with
              | some ks, some (v, r') => mems k r' ((ks, v) :: acc)
              | _, _ => none
            | _ => none
          | [] => none
      (String.ofList n).toNat?.bind fun k => (mems k rest []).map fun (ms, r) => (.obj ms, r)
    | _ => none

def readGap (g : String) : Option Str :=
  match g.toList with
  | 'n' :: k => (String.ofList k).toNat?.map gapOfNumber
  | 's' :: h => (unhex (String.ofList h)).map gapOfString
  | _ => none

def doStringify (ws : List String) : String :=
  match ws with
  | g :: toks =>
    match readGap g, readVal toks with
    | some gap, some (v, []) =>
      -- a JS object holding these members in this insertion order = build of the tree
      "ok " ++ String.ofList (hexS (stringify gap (build NumCanon.id v)))
    | _, _ => "bad"
  | [] => "bad"

/-- `SL <gap> <n> <item>*n <tok>*` : stringify with a replacer allow-list (items: s<hex> strings, n<hex> numbers given by
    their canonical text) -/
def doStringifyPL (ws : List String) : String :=
  match ws with
  | g :: n :: rest =>
    match readGap g, n.toNat? with
    | some gap, some k =>
      let items := (rest.take k).filterMap fun t =>
        match t.toList with
        | 's' :: h => unhex (String.ofList h)
        | 'n' :: h => unhex (String.ofList h)
        | _ => none
      if items.length != k then "bad" else
      match readVal (rest.drop k) with
      | some (v, []) => "ok " ++ String.ofList (hexS (stringifyPL items gap (build NumCanon.id v)))
      | _ => "bad"
    | _, _ => "bad"
  | _ => "bad"

mutual
partial def rdump : RVal → List Char
  | .null => ['z']
  | .bool true => ['t']
  | .bool false => ['f']
  | .hole => ['h']
  | .num l => 'n' :: (toHexW 16 (lexToBits l)).toList
  | .str s => 's' :: hexS s
  | .arr xs => '[' :: (rdumpL xs ++ [']'])
  | .obj ms => '{' :: (rdumpM ms ++ ['}'])
partial def rdumpL : List RVal → List Char
  | [] => []
  | [v] => rdump v
  | v :: t => rdump v ++ (',' :: rdumpL t)
partial def rdumpM : List (Str × RVal) → List Char
  | [] => []
  | [(k, v)] => hexS k ++ (':' :: rdump v)
  | (k, v) :: t => hexS k ++ (':' :: rdump v) ++ (',' :: rdumpM t)
end

/-- `RV <hex text> D <s-key>* Z <s-key>*` : JSON.parse(text, reviver) where the reviver returns undefined for the keys after
    D, null for the keys after Z and its value otherwise; answer: result dump (h = hole) and the keys of the calls -/
def doRevive (ws : List String) : String :=
  match ws with
  | h :: "D" :: rest =>
    let ds := rest.takeWhile (· != "Z")
    let zs := (rest.dropWhile (· != "Z")).drop 1
    let keysOf (l : List String) : List Str := l.filterMap fun t =>
      match t.toList with
      | 's' :: x => unhex (String.ofList x)
      | _ => none
    let D := keysOf ds
    let Z := keysOf zs
    match unhex h with
    | none => "bad"
    | some t =>
      match parse NumCanon.id t with
      | none => "err"
      | some v =>
        let R : Reviver := fun k x => if D.contains k then none else if Z.contains k then some .null else some x
        let res := match revive R [] v with
          | some y => "ok " ++ String.ofList (rdump y)
          | none => "undef"
        res ++ " C " ++ ".".intercalate ((calls [] v).map fun k => String.ofList (hexS k))
  | _ => "bad"

def step (line : String) : String :=
  match words line with
  | ["P"] => doParse ""
  | ["P", h] => doParse h
  | "S" :: rest => doStringify rest
  | "SL" :: rest => doStringifyPL rest
  | "RV" :: rest => doRevive rest
  | ["Q", h] => match unhex h with
    | some s => "ok " ++ String.ofList (hexS (quote s))
    | none => "bad"
  | ["Q"] => "ok " ++ String.ofList (hexS (quote []))
  | _ => "bad"

def main : IO Unit := lineMap step

end GojaModel.C19.Driver
