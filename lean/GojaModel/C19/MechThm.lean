/-
  C19: the mechanism-level serialiser (Mech.lean: one buffer, mutable ctx.indent, eager separators, Truncate) refines the
  specification: `mechOK`.
-/
import GojaModel.C19.Mech
namespace GojaModel.C19

/-- the joined element texts (no brackets) -/
def joinOnly (gap ind' : Str) : List JVal → Str
  | [] => []
  | v :: t => ser gap ind' v ++ (sepIf (!t.isEmpty) gap ind' ++ joinOnly gap ind' t)

theorem serElems_joinOnly (gap ind ind' : Str) (ys : List JVal) :
    serElems gap ind ind' ys = joinOnly gap ind' ys ++ (nl gap ind ++ [93]) := by
  induction ys with
  | nil => simp [serElems, joinOnly]
  | cons a t ih => simp [serElems, joinOnly, ih]

/-- the joined member texts; `first` = no separator in front of the first one -/
def joinM (gap ind' : Str) : Bool → List (Str × JVal) → Str
  | _, [] => []
  | first, (k, j) :: t =>
    (if first then [] else 44 :: nl gap ind') ++ (quote k ++ (colon gap ++ (ser gap ind' j ++ joinM gap ind' false t)))

theorem serMembers_joinM_tail (gap ind ind' : Str) (t : List (Str × JVal)) :
    sepIf (!t.isEmpty) gap ind' ++ serMembers gap ind ind' t = joinM gap ind' false t ++ (nl gap ind ++ [125]) := by
  induction t with
  | nil => simp [sepIf, serMembers, joinM]
  | cons a t ih =>
    obtain ⟨k, j⟩ := a
    have ih' : (if (!t.isEmpty) = true then 44 :: nl gap ind' else []) ++ serMembers gap ind ind' t =
        joinM gap ind' false t ++ (nl gap ind ++ [125]) := by simpa [sepIf] using ih
    simp only [List.isEmpty_cons, Bool.not_false, sepIf, if_true, serMembers, joinM, Bool.false_eq_true, if_false,
      List.cons_append, List.append_assoc, ih']

theorem serMembers_joinM (gap ind ind' : Str) (k : Str) (j : JVal) (t : List (Str × JVal)) :
    serMembers gap ind ind' ((k, j) :: t) = joinM gap ind' true ((k, j) :: t) ++ (nl gap ind ++ [125]) := by
  simp only [serMembers, joinM, if_true, List.nil_append, List.append_assoc]
  rw [serMembers_joinM_tail]

theorem cleanElems_isEmpty (xs : List MVal) : (cleanElems xs).isEmpty = xs.isEmpty := by
  cases xs <;> simp [cleanElems]

/-- what `str` must do for a value: append its text and leave `ctx.indent` as it was, or touch nothing and say false -/
def MechOK (gap : Str) (v : MVal) : Prop :=
  ∀ buf ind, strM gap v buf ind =
    match clean v with
    | some j => (buf ++ ser gap ind j, ind, true)
    | none => (buf, ind, false)

theorem jaLoop_ok (gap ind' : Str) (xs : List MVal) (h : ∀ v ∈ xs, MechOK gap v) :
    ∀ buf, jaLoop gap (44 :: nl gap ind') xs buf ind' = (buf ++ joinOnly gap ind' (cleanElems xs), ind') := by
  induction xs with
  | nil => intro buf; simp [jaLoop, cleanElems, joinOnly]
  | cons v t ih =>
    intro buf
    have hv := h v (by simp) buf ind'
    have iht := ih (fun x hx => h x (by simp [hx]))
    rw [jaLoop]
    cases hc : clean v with
    | some j =>
      simp only [hc] at hv
      simp only [hv, if_true, iht, cleanElems, hc, joinOnly, cleanElems_isEmpty, sepIf]
      cases t <;> simp
    | none =>
      simp only [hc] at hv
      simp only [hv, Bool.false_eq_true, if_false, iht, cleanElems, hc, joinOnly, cleanElems_isEmpty, sepIf, ser]
      cases t <;> simp

theorem joLoop_ok (gap ind' : Str) (ms : List (Str × MVal)) (h : ∀ p ∈ ms, MechOK gap p.2) :
    ∀ buf empty, joLoop gap (44 :: nl gap ind') ms buf ind' empty =
      (buf ++ joinM gap ind' empty (cleanMembers ms), ind', empty && (cleanMembers ms).isEmpty) := by
  induction ms with
  | nil => intro buf empty; simp [joLoop, cleanMembers, joinM]
  | cons a t ih =>
    obtain ⟨k, v⟩ := a
    intro buf empty
    have hv := h (k, v) (by simp)
    have iht := ih (fun x hx => h x (by simp [hx]))
    rw [joLoop]
    cases hc : clean v with
    | some j =>
      have := hv (buf ++ ((if empty then [] else 44 :: nl gap ind') ++ (quote k ++ colon gap))) ind'
      simp only [hc] at this
      simp only [this, if_true, iht, cleanMembers, hc, joinM, List.isEmpty_cons, Bool.and_false, List.append_assoc,
        Bool.false_and]
    | none =>
      have := hv (buf ++ ((if empty then [] else 44 :: nl gap ind') ++ (quote k ++ colon gap))) ind'
      simp only [hc] at this
      simp only [this, Bool.false_eq_true, if_false, List.take_left, iht, cleanMembers, hc]

mutual
/-- the mechanism REFINES the specification: for every value, every buffer and every current indent, `str` appends
    exactly the specified text and restores `ctx.indent`, or (undefined) leaves buffer and indent untouched -/
theorem mechOK (gap : Str) : ∀ v : MVal, MechOK gap v
  | .undef => by intro buf ind; simp [strM, clean]
  | .null => by intro buf ind; simp [strM, clean, ser]
  | .bool b => by intro buf ind; cases b <;> simp [strM, clean, ser]
  | .num l => by intro buf ind; simp [strM, clean, ser]
  | .str s => by intro buf ind; simp [strM, clean, ser]
  | .arr xs => by
    intro buf ind
    cases xs with
    | nil => simp [strM, clean, cleanElems, ser]
    | cons a t =>
      have hl := jaLoop_ok gap (ind ++ gap) (a :: t) (mechOK_list gap (a :: t)) (buf ++ (91 :: nl gap (ind ++ gap)))
      have hne : (cleanElems (a :: t)).isEmpty = false := by simp [cleanElems]
      simp only [strM, List.isEmpty_cons, Bool.false_eq_true, if_false, hl, clean, ser, hne, serElems_joinOnly]
      simp
  | .obj ms => by
    intro buf ind
    have hl := joLoop_ok gap (ind ++ gap) ms (mechOK_members gap ms) (buf ++ (123 :: nl gap (ind ++ gap))) true
    simp only [strM, hl, clean, Bool.true_and]
    cases hcm : cleanMembers ms with
    | nil => simp [ser]
    | cons p t =>
      obtain ⟨k, j⟩ := p
      simp only [List.isEmpty_cons, Bool.false_eq_true, if_false, ser, serMembers_joinM]
      simp
theorem mechOK_list (gap : Str) : ∀ xs : List MVal, ∀ v ∈ xs, MechOK gap v
  | [], _, h => by cases h
  | a :: t, v, h => by
    cases h with
    | head => exact mechOK gap a
    | tail _ h' => exact mechOK_list gap t v h'
theorem mechOK_members (gap : Str) : ∀ ms : List (Str × MVal), ∀ p ∈ ms, MechOK gap p.2
  | [], _, h => by cases h
  | (k, a) :: t, p, h => by
    cases h with
    | head => exact mechOK gap a
    | tail _ h' => exact mechOK_members gap t p h'
end

end GojaModel.C19
