/-
  C19: goja's JSON.parse = the spec parser on the UTF-8 view of the text.
-/
import GojaModel.C19.Utf8View
import GojaModel.C19.TokSound
namespace GojaModel.C19

theorem gojaParse_eq (N : NumCanon) (t : Str) : gojaParse N t = parse N (fixText t) := by
  unfold gojaParse parse
  rw [gojaParseRaw_eq_parseRaw]
  rfl

theorem fixLone_id : ∀ (t : Str), (∀ u ∈ t, isHigh u = false ∧ isLow u = false) → fixLone t = t
  | [], _ => by simp [fixLone]
  | [h], hh => by
    have := hh h (by simp)
    simp [fixLone, this.1, this.2]
  | h :: l :: r, hh => by
    have hx := hh h (by simp)
    have ih := fixLone_id (l :: r) (fun u hu => hh u (List.mem_cons_of_mem _ hu))
    rw [fixLone]
    simp [hx.1, hx.2, ih]

end GojaModel.C19
