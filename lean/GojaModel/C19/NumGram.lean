/-
  C19: the ECMA-404 number grammar (`NumGram`) and the number lexer: soundness (`parseNum_sound`) and completeness
  (`numGram_lexOK`: every grammatical lexeme satisfies the number-text hypothesis `NumLexOK`).
-/
import GojaModel.C19.Build
namespace GojaModel.C19

def AllDigits (ds : Str) : Prop := ∀ c ∈ ds, isDigit c = true

def NonDigitHead : Str → Prop
  | [] => True
  | c :: _ => isDigit c = false

theorem takeDigits_spec (s : Str) :
    s = (takeDigits s).1 ++ (takeDigits s).2 ∧ AllDigits (takeDigits s).1 ∧ NonDigitHead (takeDigits s).2 := by
  induction s with
  | nil => exact ⟨rfl, (fun c hc => by cases hc), trivial⟩
  | cons c r ih =>
    by_cases hc : isDigit c = true
    · simp only [takeDigits, hc, if_true]
      refine ⟨by simp [← ih.1], ?_, ih.2.2⟩
      intro d hd
      cases hd with
      | head => exact hc
      | tail _ h => exact ih.2.1 d h
    · simp only [takeDigits, hc]
      refine ⟨rfl, (fun c hc => by cases hc), ?_⟩
      simpa [NonDigitHead] using hc

theorem takeDigits_append (ds x : Str) (hd : AllDigits ds) (hx : NonDigitHead x) : takeDigits (ds ++ x) = (ds, x) := by
  induction ds with
  | nil =>
    cases x with
    | nil => rfl
    | cons c r => simp [NonDigitHead] at hx; simp [takeDigits, hx]
  | cons d t ih =>
    have h1 : isDigit d = true := hd d (by simp)
    have h2 := ih (fun c hc => hd c (by simp [hc]))
    simp [takeDigits, h1, h2]

/-- ECMA-404 number grammar, fraction part: empty or `.` digit+ -/
def FracLex (f : Str) : Prop := f = [] ∨ ∃ ds, f = 46 :: ds ∧ ds ≠ [] ∧ AllDigits ds
/-- exponent part: empty or (e|E) (+|-)? digit+ -/
def ExpLex (e : Str) : Prop :=
  e = [] ∨ ∃ c sg ds, e = c :: (sg ++ ds) ∧ (c = 101 ∨ c = 69) ∧ (sg = [] ∨ sg = [43] ∨ sg = [45]) ∧ ds ≠ [] ∧ AllDigits ds
/-- unsigned number: int frac exp -/
def UNumGram (l : Str) : Prop := ∃ i f e, l = i ++ (f ++ e) ∧ NatLex i ∧ FracLex f ∧ ExpLex e
/-- number: `-`? int frac exp -/
def NumGram (l : Str) : Prop := UNumGram l ∨ ∃ u, l = 45 :: u ∧ UNumGram u


/-! soundness of the number lexer -/

theorem parseInt_sound {s i r : Str} (h : parseInt s = some (i, r)) :
    NatLex i ∧ s = i ++ r ∧ (i = [48] ∨ NonDigitHead r) := by
  cases s with
  | nil => simp [parseInt] at h
  | cons c t =>
    unfold parseInt at h
    by_cases h48 : c = 48
    · subst h48
      simp at h
      obtain ⟨rfl, rfl⟩ := h
      exact ⟨Or.inl rfl, rfl, Or.inl rfl⟩
    · by_cases hr : 49 ≤ c ∧ c ≤ 57
      · simp [h48, hr] at h
        obtain ⟨rfl, rfl⟩ := h
        have sp := takeDigits_spec t
        refine ⟨Or.inr ⟨c, _, rfl, hr.1, hr.2, sp.2.1⟩, ?_, Or.inr sp.2.2⟩
        simp [← sp.1]
      · simp [h48, hr] at h

theorem parseFrac_sound {s f r : Str} (h : parseFrac s = some (f, r)) :
    FracLex f ∧ s = f ++ r ∧ (f = [] → ∀ t, s ≠ 46 :: t) ∧ (f ≠ [] → NonDigitHead r) := by
  unfold parseFrac at h
  split at h
  · rename_i t
    have sp := takeDigits_spec t
    by_cases he : (takeDigits t).1 = []
    · simp [he] at h
    · simp [he] at h
      obtain ⟨rfl, rfl⟩ := h
      refine ⟨Or.inr ⟨_, rfl, he, sp.2.1⟩, by simp [← sp.1], by simp, fun _ => sp.2.2⟩
  · rename_i hne
    simp at h
    obtain ⟨rfl, rfl⟩ := h
    exact ⟨Or.inl rfl, rfl, fun _ t ht => hne t ht, fun h => absurd rfl h⟩

theorem parseExpDigits_sound {pre s e r : Str} (h : parseExpDigits pre s = some (e, r)) :
    ∃ ds, e = pre ++ ds ∧ ds ≠ [] ∧ AllDigits ds ∧ s = ds ++ r ∧ NonDigitHead r := by
  unfold parseExpDigits at h
  have sp := takeDigits_spec s
  by_cases he : (takeDigits s).1 = []
  · simp [he] at h
  · simp [he] at h
    obtain ⟨rfl, rfl⟩ := h
    exact ⟨_, rfl, he, sp.2.1, sp.1, sp.2.2⟩

theorem parseExp_sound {s e r : Str} (h : parseExp s = some (e, r)) :
    ExpLex e ∧ s = e ++ r ∧ (e = [] → ∀ c t, s = c :: t → c ≠ 101 ∧ c ≠ 69) ∧ (e ≠ [] → NonDigitHead r) := by
  cases s with
  | nil =>
    simp [parseExp] at h
    obtain ⟨rfl, rfl⟩ := h
    exact ⟨Or.inl rfl, rfl, (fun _ c t ht => by cases ht), fun h => absurd rfl h⟩
  | cons c t =>
    unfold parseExp at h
    by_cases hc : c = 101 ∨ c = 69
    · simp only [hc, if_true] at h
      cases t with
      | nil => simp at h
      | cons sg t2 =>
        simp only at h
        by_cases hs : sg = 43 ∨ sg = 45
        · simp only [hs, if_true] at h
          obtain ⟨ds, rfl, hne, hd, rfl, hr⟩ := parseExpDigits_sound h
          refine ⟨Or.inr ⟨c, [sg], ds, by simp, hc, ?_, hne, hd⟩, by simp, by simp, fun _ => hr⟩
          rcases hs with rfl | rfl <;> simp
        · simp only [hs, if_false] at h
          obtain ⟨ds, rfl, hne, hd, hs2, hr⟩ := parseExpDigits_sound h
          refine ⟨Or.inr ⟨c, [], ds, by simp, hc, Or.inl rfl, hne, hd⟩, by simp [hs2], by simp, fun _ => hr⟩
    · simp only [hc, if_false] at h
      simp at h
      obtain ⟨rfl, rfl⟩ := h
      refine ⟨Or.inl rfl, rfl, ?_, fun h => absurd rfl h⟩
      intro _ c' t' ht
      cases ht
      exact ⟨fun e => hc (Or.inl e), fun e => hc (Or.inr e)⟩

theorem parseUnsigned_sound {s l r : Str} (h : parseUnsigned s = some (l, r)) : UNumGram l ∧ s = l ++ r := by
  unfold parseUnsigned at h
  split at h
  · simp at h
  · rename_i i r1 hi
    split at h
    · simp at h
    · rename_i f r2 hf
      split at h
      · simp at h
      · rename_i e r3 he
        simp at h
        obtain ⟨rfl, rfl⟩ := h
        have a := parseInt_sound hi
        have b := parseFrac_sound hf
        have c := parseExp_sound he
        refine ⟨⟨i, f, e, by simp, a.1, b.1, c.1⟩, ?_⟩
        rw [a.2.1, b.2.1, c.2.1]; simp

theorem parseNum_sound {s l r : Str} (h : parseNum s = some (l, r)) : NumGram l ∧ s = l ++ r := by
  unfold parseNum at h
  split at h
  · rename_i t
    cases hu : parseUnsigned t with
    | none => simp [hu, cons1] at h
    | some p =>
      obtain ⟨u, r'⟩ := p
      simp [hu, cons1] at h
      obtain ⟨rfl, rfl⟩ := h
      have a := parseUnsigned_sound hu
      exact ⟨Or.inr ⟨u, rfl, a.1⟩, by simp [a.2]⟩
  · have a := parseUnsigned_sound h
    exact ⟨Or.inl a.1, a.2⟩

/-! completeness of the number lexer -/

theorem stop_nonDigit {r : Str} (h : Stop r) : NonDigitHead r := by
  cases r with
  | nil => trivial
  | cons c t => exact h.1

theorem expLex_head {e r : Str} (he : ExpLex e) (hr : Stop r) :
    NonDigitHead (e ++ r) ∧ ∀ t, e ++ r ≠ 46 :: t := by
  rcases he with rfl | ⟨c, sg, ds, rfl, hc, _, _, _⟩
  · refine ⟨by simpa using stop_nonDigit hr, ?_⟩
    intro t ht
    cases r with
    | nil => cases ht
    | cons a b => simp at ht; exact hr.2.1 ht.1
  · refine ⟨?_, ?_⟩
    · rcases hc with rfl | rfl <;> simp [NonDigitHead, isDigit]
    · intro t ht; simp at ht; rcases hc with rfl | rfl <;> omega

theorem fracExp_head {f e r : Str} (hf : FracLex f) (he : ExpLex e) (hr : Stop r) : NonDigitHead (f ++ (e ++ r)) := by
  rcases hf with rfl | ⟨ds, rfl, _, _⟩
  · simpa using (expLex_head he hr).1
  · simp [NonDigitHead, isDigit]

theorem parseInt_complete {i x : Str} (hi : NatLex i) (hx : NonDigitHead x) : parseInt (i ++ x) = some (i, x) := by
  rcases hi with rfl | ⟨d, ds, rfl, h1, h2, hd⟩
  · simp [parseInt]
  · have hd48 : d ≠ 48 := by omega
    simp [parseInt, hd48, h1, h2, takeDigits_append ds x hd hx]

theorem parseFrac_complete {f x : Str} (hf : FracLex f) (hx : NonDigitHead x) (h46 : ∀ t, x ≠ 46 :: t) :
    parseFrac (f ++ x) = some (f, x) := by
  rcases hf with rfl | ⟨ds, rfl, hne, hd⟩
  · simp only [List.nil_append]
    unfold parseFrac
    split
    · rename_i t; exact absurd rfl (h46 t)
    · rfl
  · simp [parseFrac, takeDigits_append ds x hd hx, hne]

theorem parseExpDigits_complete {pre ds x : Str} (hne : ds ≠ []) (hd : AllDigits ds) (hx : NonDigitHead x) :
    parseExpDigits pre (ds ++ x) = some (pre ++ ds, x) := by
  simp [parseExpDigits, takeDigits_append ds x hd hx, hne]

theorem parseExp_complete {e x : Str} (he : ExpLex e) (hx : Stop x) : parseExp (e ++ x) = some (e, x) := by
  rcases he with rfl | ⟨c, sg, ds, rfl, hc, hsg, hne, hd⟩
  · simpa using parseExp_stop x hx
  · have hx' := stop_nonDigit hx
    cases ds with
    | nil => exact absurd rfl hne
    | cons d ds' =>
      have hdd : isDigit d = true := hd d (by simp)
      have hd43 : ¬ (d = 43 ∨ d = 45) := by simp [isDigit] at hdd; omega
      rcases hsg with rfl | rfl | rfl
      · have := parseExpDigits_complete (pre := [c]) (x := x) hne hd hx'
        simp only [List.nil_append, List.cons_append] at this ⊢
        simp [parseExp, hc, hd43, this]
      · have := parseExpDigits_complete (pre := [c, 43]) (x := x) hne hd hx'
        simp only [List.cons_append, List.nil_append] at this ⊢
        simp [parseExp, hc, this]
      · have := parseExpDigits_complete (pre := [c, 45]) (x := x) hne hd hx'
        simp only [List.cons_append, List.nil_append] at this ⊢
        simp [parseExp, hc, this]

theorem parseUnsigned_complete {l r : Str} (hl : UNumGram l) (hr : Stop r) : parseUnsigned (l ++ r) = some (l, r) := by
  obtain ⟨i, f, e, rfl, hi, hf, he⟩ := hl
  have h1 : parseInt (i ++ (f ++ (e ++ r))) = some (i, f ++ (e ++ r)) := parseInt_complete hi (fracExp_head hf he hr)
  have h2 : parseFrac (f ++ (e ++ r)) = some (f, e ++ r) :=
    parseFrac_complete hf (expLex_head he hr).1 (expLex_head he hr).2
  have h3 := parseExp_complete he hr
  unfold parseUnsigned
  simp only [List.append_assoc, h1, h2, h3]

theorem natLex_head_ne_minus {i : Str} (hi : NatLex i) (x t : Str) : i ++ x ≠ 45 :: t := by
  rcases hi with rfl | ⟨d, ds, rfl, h1, _, _⟩
  · simp
  · simp; omega

/-- every lexeme of the ECMA-404 number grammar is re-lexed as itself in any context that ends a number -/
theorem numGram_lexOK {l : Str} (hl : NumGram l) : NumLexOK l := by
  intro rest hs
  rcases hl with hu | ⟨u, rfl, hu⟩
  · obtain ⟨i, f, e, rfl, hi, _, _⟩ := id hu
    unfold parseNum
    split
    · rename_i t heq
      simp only [List.append_assoc] at heq
      exact absurd heq (natLex_head_ne_minus hi _ t)
    · exact parseUnsigned_complete hu hs
  · simp [parseNum, parseUnsigned_complete hu hs, cons1]

end GojaModel.C19
