/-
  C19: InternalizeJSONProperty (ECMA-262 §25.5.1.1; builtin_json.go:148 builtinJSON_reviveWalk) for revivers that EDIT THEIR
  HOLDER (`this`): the keys (or the length) of a container are taken once, when its walk starts, but every property
  is read when its turn comes — so a sibling deleted meanwhile is visited with the value undefined, a sibling replaced
  meanwhile is visited (and walked) with its new value, and a property added meanwhile is not visited at all.

  The object graph is a tree here (a reviver reaches only `this`), so sharing is modelled by threading the current
  content of the container being walked: `walkM` returns the holder as it is after the call.
-/
import GojaModel.C19.Reviver

namespace GojaModel.C19

def lookupR (k : Str) : List (Str × RVal) → Option RVal
  | [] => none
  | (k', v) :: t => if k' = k then some v else lookupR k t

/-- [[Get]] of an own property of the holder (`none` = undefined; a hole reads as undefined) -/
def rGet : RVal → Str → Option RVal
  | .obj ms, k => lookupR k ms
  | .arr xs, k =>
    (match idxOf k with
     | some i => (match xs[i]? with
                  | some .hole => none
                  | some x => some x
                  | none => none)
     | none => none)
  | _, _ => none

/-- [[Delete]]: a member disappears, an array element becomes a hole (the length stays) -/
def rDelete : RVal → Str → RVal
  | .obj ms, k => .obj (ms.filter fun p => p.1 != k)
  | .arr xs, k =>
    (match idxOf k with
     | some i => if i < xs.length then .arr (xs.set i .hole) else .arr xs
     | none => .arr xs)
  | v, _ => v

/-- position of a new key among the members: array-index keys ascending first, every other key at the end -/
def insertOrdered (k : Str) (v : RVal) : List (Str × RVal) → List (Str × RVal)
  | [] => [(k, v)]
  | (k', v') :: t =>
    match idxOf k, idxOf k' with
    | some n, some m => if n < m then (k, v) :: (k', v') :: t else (k', v') :: insertOrdered k v t
    | some _, none => (k, v) :: (k', v') :: t
    | none, _ => (k', v') :: insertOrdered k v t

/-- CreateDataProperty / a plain assignment of a data property: in place if the key exists; arrays grow with holes;
    a non-index key on an array is an expando the walk never looks at (not represented) -/
def rDefine : RVal → Str → RVal → RVal
  | .obj ms, k, v =>
    if (lookupR k ms).isSome then .obj (ms.map fun p => if p.1 = k then (p.1, v) else p)
    else .obj (insertOrdered k v ms)
  | .arr xs, k, v =>
    (match idxOf k with
     | some i => if i < xs.length then .arr (xs.set i v)
                 else .arr (xs ++ List.replicate (i - xs.length) .hole ++ [v])
     | none => .arr xs)
  | h, _, _ => h

/-- a reviver that may edit `this`: state, holder, key, value ↦ state, result, holder afterwards -/
abbrev ReviverM (σ : Type) := σ → RVal → Str → Option RVal → σ × Option RVal × RVal

def ownKeys : List (Str × RVal) → List Str
  | [] => []
  | (k, _) :: t => k :: ownKeys t

mutual
/-- InternalizeJSONProperty(holder, key): state, result, and the holder as the call leaves it -/
def walkM {σ : Type} (R : ReviverM σ) : Nat → σ → RVal → Str → Option (σ × Option RVal × RVal)
  | 0, _, _, _ => none
  | f + 1, s, holder, key =>
    match rGet holder key with
    | some (.arr xs) =>
      (match walkIdx R f s (.arr xs) 0 xs.length with
       | some (s1, cur) => some (R s1 (rDefine holder key cur) key (some cur))
       | none => none)
    | some (.obj ms) =>
      (match walkKeys R f s (.obj ms) (ownKeys ms) with
       | some (s1, cur) => some (R s1 (rDefine holder key cur) key (some cur))
       | none => none)
    | v => some (R s holder key v)
/-- indices i, i+1, … (n of them: the length taken when the walk of the array started) over the CURRENT content -/
def walkIdx {σ : Type} (R : ReviverM σ) : Nat → σ → RVal → Nat → Nat → Option (σ × RVal)
  | _, s, cur, _, 0 => some (s, cur)
  | 0, _, _, _, _ + 1 => none
  | f + 1, s, cur, i, n + 1 =>
    match walkM R f s cur (idxKey i) with
    | some (s1, res, cur1) =>
      walkIdx R f s1 (match res with
                      | none => rDelete cur1 (idxKey i)
                      | some y => rDefine cur1 (idxKey i) y) (i + 1) n
    | none => none
/-- the keys taken when the walk of the object started, over the CURRENT content -/
def walkKeys {σ : Type} (R : ReviverM σ) : Nat → σ → RVal → List Str → Option (σ × RVal)
  | _, s, cur, [] => some (s, cur)
  | 0, _, _, _ :: _ => none
  | f + 1, s, cur, k :: ks =>
    match walkM R f s cur k with
    | some (s1, res, cur1) =>
      walkKeys R f s1 (match res with
                       | none => rDelete cur1 k
                       | some y => rDefine cur1 k y) ks
    | none => none
end

/-- JSON.parse(text, reviver): the root holder is `{"": value}` -/
def reviveRootM {σ : Type} (R : ReviverM σ) (fuel : Nat) (s : σ) (v : JVal) : Option (σ × Option RVal) :=
  match walkM R fuel s (.obj [([], emb v)]) [] with
  | some (s1, res, _) => some (s1, res)
  | none => none

/-- a property that is a primitive, a hole, or no longer there when its turn comes (deleted by an earlier reviver call)
    is handed to the reviver exactly once, with that value (undefined if absent), and the holder untouched by the walk -/
theorem walkM_noncontainer {σ : Type} (R : ReviverM σ) (f : Nat) (s : σ) (holder : RVal) (key : Str)
    (h : ∀ xs, rGet holder key ≠ some (.arr xs)) (h' : ∀ ms, rGet holder key ≠ some (.obj ms)) :
    walkM R (f + 1) s holder key = some (R s holder key (rGet holder key)) := by
  rw [walkM]
  split
  · rename_i xs heq; exact absurd heq (h xs)
  · rename_i ms heq; exact absurd heq (h' ms)
  · rfl

/-- the walk of an object visits exactly the keys it was started with: none left ⇒ the content is returned as it is -/
theorem walkKeys_nil {σ : Type} (R : ReviverM σ) (f : Nat) (s : σ) (cur : RVal) : walkKeys R f s cur [] = some (s, cur) := by
  cases f <;> simp [walkKeys]

/-- one step of the object walk: the CURRENT content `cur` is consulted for the key, the result is written (or the key
    deleted) in the content as the call left it, and the walk goes on with the remaining keys of the snapshot -/
theorem walkKeys_cons {σ : Type} (R : ReviverM σ) (f : Nat) (s : σ) (cur : RVal) (k : Str) (ks : List Str) :
    walkKeys R (f + 1) s cur (k :: ks) =
      match walkM R f s cur k with
      | some (s1, res, cur1) =>
        walkKeys R f s1 (match res with
                         | none => rDelete cur1 k
                         | some y => rDefine cur1 k y) ks
      | none => none := by
  rw [walkKeys]

end GojaModel.C19
