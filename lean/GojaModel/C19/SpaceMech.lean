/-
  C19, mechanism level: how builtin_json.go:231 turns the (already unwrapped) `space` argument into `ctx.gap`, and the
  specification (ECMA-262 §25.5.2 steps 5–8).  A double is seen through what the code looks at: NaN, sign, infinite,
  and its truncated magnitude `ip` (so `f >= 10 ⇔ ¬neg ∧ (inf ∨ ip ≥ 10)`, `int64(f) = ip` for `1 ≤ f < 10`).
-/
import GojaModel.C19.Model

namespace GojaModel.C19

inductive SpaceArg where
  | int (i : Int)                                  -- valueInt
  | flt (nan neg inf : Bool) (ip : Nat)            -- valueFloat: NaN / sign / ±Infinity / ⌊|f|⌋
  | str (s : Str)                                  -- String
  | other                                          -- anything else (undefined, null, booleans, objects …)

/-- the code: `num` from the switch, then `if num > 0 { if num > 10 { num = 10 }; gap = repeat(" ", num) }` -/
def gapMech : SpaceArg → Str
  | .int i => if i > 0 then List.replicate (if i > 10 then 10 else i.toNat) 32 else []
  | .flt nan neg inf ip =>
    let ge10 := !nan && !neg && (inf || decide (ip ≥ 10))     -- float64(f) >= 10
    let ge1 := !nan && !neg && (inf || decide (ip ≥ 1))       -- float64(f) >= 1
    let num : Nat := if ge10 then 10 else if ge1 then ip else 0
    if num > 0 then List.replicate (if num > 10 then 10 else num) 32 else []
  | .str s => if s.length > 10 then s.take 10 else s
  | .other => []

/-- ToIntegerOrInfinity of the Number, as an extended integer: none = −∞ … we only need min(10, ·) and the test < 1 -/
def toIntegerClamped : SpaceArg → Int
  | .int i => if i > 10 then 10 else i
  | .flt nan neg inf ip =>
    if nan then 0                                    -- NaN → 0
    else if neg then (if inf then -1 else - (ip : Int))   -- negative: anything < 1 behaves alike; −∞ ↦ a negative
    else if inf then 10                              -- +∞: min(10, +∞)
    else if ip > 10 then 10 else (ip : Int)
  | _ => 0

/-- the specification: Number → min(10, ToIntegerOrInfinity(space)) spaces if ≥ 1; String → first 10 code units -/
def gapSpec : SpaceArg → Str
  | .str s => s.take 10
  | .other => []
  | a => if toIntegerClamped a < 1 then [] else List.replicate (toIntegerClamped a).toNat 32

/-- the argument processing REFINES the specification (in particular for doubles ≥ 2^63 and +Infinity, where the code
    before bd5c535 converted first and compared afterwards) -/
theorem gapMech_eq_gapSpec (a : SpaceArg) : gapMech a = gapSpec a := by
  cases a with
  | int i =>
    simp only [gapMech, gapSpec, toIntegerClamped]
    by_cases h10 : i > 10
    · simp [h10]; omega
    · by_cases h0 : i > 0
      · have : ¬ i < 1 := by omega
        simp [h10, h0, this]
      · have : i < 1 := by omega
        simp [h10, h0, this]
  | flt nan neg inf ip =>
    cases nan <;> cases neg <;> cases inf <;> simp [gapMech, gapSpec, toIntegerClamped]
    · by_cases h10 : ip ≥ 10
      · by_cases h11 : ip > 10
        · simp [h10, h11]
        · have : ip = 10 := by omega
          subst this; simp
      · by_cases h1 : ip ≥ 1
        · have a1 : ¬ ip > 10 := by omega
          have a2 : ¬ (ip : Int) < 1 := by omega
          have a3 : ip > 0 := by omega
          simp [h10, h1, a1, a2, a3]
        · have : ip = 0 := by omega
          subst this; simp
  | str s =>
    simp only [gapMech, gapSpec]
    split
    · rfl
    · rw [List.take_of_length_le (by omega)]
  | other => rfl

/-- and the specification agrees with the clamp used by the round-trip theorems -/
theorem gapSpec_int_nat (n : Nat) : gapSpec (.int n) = gapOfNumber n := by
  simp only [gapSpec, toIntegerClamped, gapOfNumber]
  by_cases h10 : (n : Int) > 10
  · have : min n 10 = 10 := by omega
    simp [h10, this]
  · by_cases h0 : n = 0
    · subst h0; simp
    · have a1 : ¬ (n : Int) < 1 := by omega
      have a2 : min n 10 = n := by omega
      simp [h10, a1, a2]

end GojaModel.C19
