/-
  C19 helper lemmas: lexical level (white space, hex, QuoteJSONString ↔ string-token parser).
-/
import GojaModel.C19.Model

namespace GojaModel.C19

/-! ### white space -/

theorem skipWs_nonws {c : Nat} {s : Str} (h : isWs c = false) : skipWs (c :: s) = c :: s := by
  simp [skipWs, h]

theorem skipWs_append_ws (w s : Str) (hw : ∀ c ∈ w, isWs c = true) : skipWs (w ++ s) = skipWs s := by
  induction w with
  | nil => rfl
  | cons c t ih =>
    have hc : isWs c = true := hw c (by simp)
    have ht : ∀ c ∈ t, isWs c = true := fun c hc => hw c (by simp [hc])
    simp [skipWs, hc, ih ht]

/-! ### hex digits -/

theorem hexVal_hexd {d : Nat} (h : d < 16) : hexVal (hexd d) = some d := by
  unfold hexd hexVal
  split
  · rw [if_pos (by omega)]; congr 1; omega
  · rw [if_neg (by omega), if_pos (by omega)]; congr 1; omega

theorem hex4Val_escU {u : Nat} (h : u < 65536) :
    hex4Val (hexd (u / 4096 % 16)) (hexd (u / 256 % 16)) (hexd (u / 16 % 16)) (hexd (u % 16)) = some u := by
  unfold hex4Val
  rw [hexVal_hexd (Nat.mod_lt _ (by decide)), hexVal_hexd (Nat.mod_lt _ (by decide)),
      hexVal_hexd (Nat.mod_lt _ (by decide)), hexVal_hexd (Nat.mod_lt _ (by decide))]
  simp only []
  congr 1
  omega

/-! ### QuoteJSONString output is read back by the string-token parser -/

theorem parseStrBody_cons (c : Nat) (r : Str) : parseStrBody (c :: r) =
    if c = 34 then some ([], r)
    else if c = 92 then
      match r with
      | [] => none
      | e :: r2 =>
        if e = 117 then
          match r2 with
          | a :: b :: c' :: d :: r3 =>
            match hex4Val a b c' d with
            | some u => cons1 u (parseStrBody r3)
            | none => none
          | _ => none
        else
          match simpleEsc e with
          | some u => cons1 u (parseStrBody r2)
          | none => none
    else if c < 32 then none
    else cons1 c (parseStrBody r) := by
  rw [parseStrBody.eq_def]
  rfl

theorem parseStrBody_escU {u : Nat} (h : u < 65536) (s : Str) :
    parseStrBody (escU u ++ s) = cons1 u (parseStrBody s) := by
  simp [escU, parseStrBody_cons, hex4Val_escU h]

theorem parseStrBody_raw {c : Nat} (s : Str) (h1 : c ≠ 34) (h2 : c ≠ 92) (h3 : ¬ c < 32) :
    parseStrBody (c :: s) = cons1 c (parseStrBody s) := by
  simp [parseStrBody_cons, h1, h2, h3]

theorem parseStrBody_escOne {c : Nat} (h : c < 65536) (s : Str) :
    parseStrBody (escOne c ++ s) = cons1 c (parseStrBody s) := by
  unfold escOne
  split
  · subst_vars; simp [parseStrBody_cons, simpleEsc]
  split
  · subst_vars; simp [parseStrBody_cons, simpleEsc]
  split
  · subst_vars; simp [parseStrBody_cons, simpleEsc]
  split
  · subst_vars; simp [parseStrBody_cons, simpleEsc]
  split
  · subst_vars; simp [parseStrBody_cons, simpleEsc]
  split
  · subst_vars; simp [parseStrBody_cons, simpleEsc]
  split
  · subst_vars; simp [parseStrBody_cons, simpleEsc]
  split
  · exact parseStrBody_escU h s
  split
  · exact parseStrBody_escU h s
  · rename_i h1 h2 h3 h4 h5 h6 h7 h8 h9
    exact parseStrBody_raw s h1 h2 h8

theorem isHigh_raw {h : Nat} (hh : isHigh h = true) : h ≠ 34 ∧ h ≠ 92 ∧ ¬ h < 32 := by
  simp [isHigh] at hh; omega

theorem isLow_raw {h : Nat} (hh : isLow h = true) : h ≠ 34 ∧ h ≠ 92 ∧ ¬ h < 32 := by
  simp [isLow] at hh; omega

/-- `quote_escapes_sound`, body form: for every list of code units (lone surrogates, controls, anything below
    2^16) the escaped body followed by the closing quote lexes back to exactly the same units. -/
theorem parseStrBody_quoteBody (s : Str) (hs : ∀ u ∈ s, u < 65536) (rest : Str) :
    parseStrBody (quoteBody s ++ 34 :: rest) = some (s, rest) := by
  fun_induction quoteBody s with
  | case1 => simp [parseStrBody_cons]
  | case2 h =>
    rw [parseStrBody_escOne (hs h (by simp))]
    simp [parseStrBody_cons, cons1]
  | case3 h l r hp ih =>
    have hp' : isHigh h = true ∧ isLow l = true := by simpa using hp
    obtain ⟨a1, a2, a3⟩ := isHigh_raw hp'.1
    obtain ⟨b1, b2, b3⟩ := isLow_raw hp'.2
    have ihr := ih (fun u hu => hs u (by simp [hu]))
    simp only [List.cons_append]
    rw [parseStrBody_raw _ a1 a2 a3, parseStrBody_raw _ b1 b2 b3, ihr]
    rfl
  | case4 h l r hp ih =>
    have ihr := ih (fun u hu => hs u (List.mem_cons_of_mem _ hu))
    rw [List.append_assoc, parseStrBody_escOne (hs h (by simp)), ihr]
    rfl

end GojaModel.C19
