/-
  C19: the structural round trip  parseValue (ser gap ind v ++ rest) = (v, rest)  for every well-formed syntactic
  tree, every white-space gap / indent, by mutual structural recursion over the tree.
-/
import GojaModel.C19.Lemmas

namespace GojaModel.C19

def AllWs (w : Str) : Prop := ∀ c ∈ w, isWs c = true

/-- a context in which a number token ends: end of text or a unit that cannot continue a number -/
def Stop : Str → Prop
  | [] => True
  | c :: _ => isDigit c = false ∧ c ≠ 46 ∧ c ≠ 101 ∧ c ≠ 69

/-- `l` is re-lexed as exactly itself whenever the context stops the number (hypothesis on number text; see
    `numLexOK_of_int` for the unconditional integer case) -/
def NumLexOK (l : Str) : Prop := ∀ rest, Stop rest → parseNum (l ++ rest) = some (l, rest)

def WfStr (s : Str) : Prop := ∀ u ∈ s, u < 65536

mutual
def WfVal : JVal → Prop
  | .null => True
  | .bool _ => True
  | .num l => NumLexOK l
  | .str s => WfStr s
  | .arr xs => WfList xs
  | .obj ms => WfMembers ms
def WfList : List JVal → Prop
  | [] => True
  | v :: t => WfVal v ∧ WfList t
def WfMembers : List (Str × JVal) → Prop
  | [] => True
  | (k, v) :: t => WfStr k ∧ WfVal v ∧ WfMembers t
end

mutual
def need : JVal → Nat
  | .arr xs => needL xs + 1
  | .obj ms => needM ms + 1
  | _ => 1
def needL : List JVal → Nat
  | [] => 0
  | v :: t => max (need v) (needL t) + 1
def needM : List (Str × JVal) → Nat
  | [] => 0
  | (_, v) :: t => max (need v) (needM t) + 1
end

theorem allWs_nl {gap ind : Str} (hi : AllWs ind) : AllWs (nl gap ind) := by
  unfold nl
  split
  · intro c hc; cases hc
  · intro c hc
    cases hc with
    | head => rfl
    | tail _ h => exact hi c h

theorem allWs_append {a b : Str} (ha : AllWs a) (hb : AllWs b) : AllWs (a ++ b) := by
  intro c hc
  rcases List.mem_append.mp hc with h | h
  · exact ha c h
  · exact hb c h

/-- head of a number lexeme -/
theorem numLex_head {l : Str} (h : NumLexOK l) : ∃ c tl, l = c :: tl ∧ (c = 45 ∨ isDigit c = true) := by
  have h0 := h [] trivial
  simp only [List.append_nil] at h0
  cases l with
  | nil => simp [parseNum, parseUnsigned, parseInt] at h0
  | cons c tl =>
    refine ⟨c, tl, rfl, ?_⟩
    by_cases hc : c = 45
    · exact Or.inl hc
    · right
      have : parseNum (c :: tl) = parseUnsigned (c :: tl) := by
        unfold parseNum
        split
        · rename_i r heq; cases heq; exact absurd rfl hc
        · rfl
      rw [this] at h0
      unfold parseUnsigned parseInt at h0
      by_cases h48 : c = 48
      · subst h48; decide
      · by_cases hr : 49 ≤ c ∧ c ≤ 57
        · simp [isDigit]; omega
        · simp [h48, hr] at h0

/-- first unit of a serialised value: not white space, not a closing bracket/brace -/
theorem ser_head (gap ind : Str) (v : JVal) (hv : WfVal v) :
    ∃ c tl, ser gap ind v = c :: tl ∧ isWs c = false ∧ c ≠ 93 ∧ c ≠ 125 := by
  cases v with
  | null => exact ⟨110, _, by simp [ser]; exact rfl, by decide, by decide, by decide⟩
  | bool b => cases b <;> simp [ser] <;> decide
  | num l =>
    obtain ⟨c, tl, rfl, hc⟩ := numLex_head (by simpa [WfVal] using hv)
    refine ⟨c, tl, by simp [ser], ?_⟩
    rcases hc with rfl | hd
    · decide
    · simp [isDigit] at hd
      simp [isWs]; omega
  | str s => exact ⟨34, _, by simp [ser, quote]; exact rfl, by decide, by decide, by decide⟩
  | arr xs =>
    cases xs with
    | nil => exact ⟨91, _, by simp [ser]; exact rfl, by decide, by decide, by decide⟩
    | cons a t => exact ⟨91, _, by simp [ser]; exact rfl, by decide, by decide, by decide⟩
  | obj ms =>
    cases ms with
    | nil => exact ⟨123, _, by simp [ser]; exact rfl, by decide, by decide, by decide⟩
    | cons a t => exact ⟨123, _, by simp [ser]; exact rfl, by decide, by decide, by decide⟩

theorem matchLit_append (lit rest : Str) : matchLit lit (lit ++ rest) = some rest := by
  induction lit with
  | nil => cases rest <;> rfl
  | cons a l ih => simp [matchLit, ih]

theorem stop_after_elem (gap ind ind' : Str) (t : List JVal) (rest : Str) :
    Stop (sepIf (!t.isEmpty) gap ind' ++ (serElems gap ind ind' t ++ rest)) := by
  cases t with
  | nil =>
    by_cases hg : gap = [] <;> simp [hg, Stop, isDigit, sepIf, serElems, nl]
  | cons a t => simp [sepIf, Stop, isDigit]

theorem stop_after_member (gap ind ind' : Str) (t : List (Str × JVal)) (rest : Str) :
    Stop (sepIf (!t.isEmpty) gap ind' ++ (serMembers gap ind ind' t ++ rest)) := by
  cases t with
  | nil =>
    by_cases hg : gap = [] <;> simp [hg, Stop, isDigit, sepIf, serMembers, nl]
  | cons a t => simp [sepIf, Stop, isDigit]

theorem parseValue_succ (f : Nat) (s : Str) : parseValue (f + 1) s =
    match skipWs s with
    | [] => none
    | c :: r =>
      if c = 110 then (match matchLit [117, 108, 108] r with | some r' => some (.null, r') | none => none)
      else if c = 116 then (match matchLit [114, 117, 101] r with | some r' => some (.bool true, r') | none => none)
      else if c = 102 then (match matchLit [97, 108, 115, 101] r with | some r' => some (.bool false, r') | none => none)
      else if c = 34 then (match parseStrBody r with | some (u, r') => some (.str u, r') | none => none)
      else if c = 91 then
        (match skipWs r with
         | 93 :: r' => some (.arr [], r')
         | _ => match parseElems f r with
                | some (xs, r') => some (.arr xs, r')
                | none => none)
      else if c = 123 then
        (match skipWs r with
         | 125 :: r' => some (.obj [], r')
         | _ => match parseMembers f r with
                | some (ms, r') => some (.obj ms, r')
                | none => none)
      else
        (match parseNum (c :: r) with
         | some (l, r') => some (.num l, r')
         | none => none) := by
  rw [parseValue]
  rfl

theorem parseElems_succ (f : Nat) (s : Str) : parseElems (f + 1) s =
    match parseValue f s with
    | none => none
    | some (v, r) =>
      match skipWs r with
      | c :: r2 =>
        if c = 44 then
          (match parseElems f r2 with
           | some (t, r3) => some (v :: t, r3)
           | none => none)
        else if c = 93 then some ([v], r2)
        else none
      | [] => none := by
  rw [parseElems]
  rfl

/-- value at the head of a text: scalars -/
theorem pv_scalar_null (f : Nat) (w rest : Str) (hw : AllWs w) :
    parseValue (f + 1) (w ++ ([110, 117, 108, 108] ++ rest)) = some (.null, rest) := by
  rw [parseValue_succ, skipWs_append_ws _ _ hw]
  simp [skipWs, isWs, matchLit]

theorem parseMembers_succ (f : Nat) (s : Str) : parseMembers (f + 1) s =
    match skipWs s with
    | 34 :: r =>
      (match parseStrBody r with
       | none => none
       | some (k, r1) =>
         match skipWs r1 with
         | 58 :: r2 =>
           (match parseValue f r2 with
            | none => none
            | some (v, r3) =>
              match skipWs r3 with
              | c :: r4 =>
                if c = 44 then
                  (match parseMembers f r4 with
                   | some (t, r5) => some ((k, v) :: t, r5)
                   | none => none)
                else if c = 125 then some ([(k, v)], r4)
                else none
              | [] => none)
         | _ => none)
    | _ => none := by
  rw [parseMembers]
  rfl

theorem skipWs_head {c : Nat} {tl : Str} (w : Str) (hw : AllWs w) (hc : isWs c = false) :
    skipWs (w ++ c :: tl) = c :: tl := by
  rw [skipWs_append_ws _ _ hw, skipWs_nonws hc]

theorem need_pos (v : JVal) : 1 ≤ need v := by
  cases v <;> simp [need]

mutual
theorem rt_val (gap : Str) (hg : AllWs gap) :
    ∀ (v : JVal) (ind w rest : Str) (f : Nat), AllWs ind → AllWs w → WfVal v → Stop rest → need v ≤ f →
      parseValue f (w ++ (ser gap ind v ++ rest)) = some (v, rest)
  | .null, ind, w, rest, f, _, hw, _, _, hf => by
    cases f with
    | zero => simp [need] at hf
    | succ f =>
      rw [parseValue_succ]
      simp only [ser, List.cons_append, List.nil_append]
      rw [skipWs_head w hw (by decide)]
      simp [matchLit]
  | .bool b, ind, w, rest, f, _, hw, _, _, hf => by
    cases f with
    | zero => simp [need] at hf
    | succ f =>
      rw [parseValue_succ]
      cases b
      · simp only [ser, List.cons_append, List.nil_append]
        rw [skipWs_head w hw (by decide)]
        simp [matchLit]
      · simp only [ser, List.cons_append, List.nil_append]
        rw [skipWs_head w hw (by decide)]
        simp [matchLit]
  | .num l, ind, w, rest, f, _, hw, hv, hs, hf => by
    cases f with
    | zero => simp [need] at hf
    | succ f =>
      have hl : NumLexOK l := by simpa [WfVal] using hv
      obtain ⟨c, tl, rfl, hc⟩ := numLex_head hl
      have hp := hl rest hs
      rw [parseValue_succ]
      simp only [ser, List.cons_append]
      have hcw : isWs c = false := by
        rcases hc with rfl | hd
        · decide
        · simp [isDigit] at hd; simp [isWs]; omega
      rw [skipWs_head w hw hcw]
      have h1 : c ≠ 110 ∧ c ≠ 116 ∧ c ≠ 102 ∧ c ≠ 34 ∧ c ≠ 91 ∧ c ≠ 123 := by
        rcases hc with rfl | hd
        · decide
        · simp [isDigit] at hd; omega
      simp only [List.cons_append] at hp
      simp [h1.1, h1.2.1, h1.2.2.1, h1.2.2.2.1, h1.2.2.2.2.1, h1.2.2.2.2.2, hp]
  | .str s, ind, w, rest, f, _, hw, hv, _, hf => by
    cases f with
    | zero => simp [need] at hf
    | succ f =>
      have hs' : WfStr s := by simpa [WfVal] using hv
      rw [parseValue_succ]
      simp only [ser, quote, List.cons_append, List.append_assoc, List.nil_append]
      rw [skipWs_head w hw (by decide)]
      simp [parseStrBody_quoteBody s hs' rest]
  | .arr xs, ind, w, rest, f, hi, hw, hv, _, hf => by
    cases f with
    | zero => simp [need] at hf
    | succ f =>
      rw [parseValue_succ]
      cases xs with
      | nil =>
        simp only [ser, List.isEmpty_nil, if_true, List.cons_append, List.nil_append]
        rw [skipWs_head w hw (by decide)]
        simp [skipWs, isWs]
      | cons a t =>
        have hv' : WfList (a :: t) := by simpa [WfVal] using hv
        have hf' : needL (a :: t) ≤ f := by simp [need] at hf; omega
        have hE := rt_elems gap hg (a :: t) ind (ind ++ gap) (nl gap (ind ++ gap)) rest f hi
          (allWs_append hi hg) (allWs_nl (allWs_append hi hg)) hv' (by simp) hf'
        obtain ⟨c, tl, hh, hcw, hc93, _⟩ := ser_head gap (ind ++ gap) a hv'.1
        simp only [ser, List.isEmpty_cons, Bool.false_eq_true, if_false, List.cons_append, List.append_assoc]
        rw [skipWs_head w hw (by decide)]
        have hsk : skipWs (nl gap (ind ++ gap) ++ (serElems gap ind (ind ++ gap) (a :: t) ++ rest)) =
            c :: (tl ++ (sepIf (!t.isEmpty) gap (ind ++ gap) ++ serElems gap ind (ind ++ gap) t ++ rest)) := by
          simp only [serElems, hh, List.cons_append, List.append_assoc]
          rw [skipWs_head _ (allWs_nl (allWs_append hi hg)) hcw]
        simp only [show ¬ (91 : Nat) = 110 from by decide, show ¬ (91 : Nat) = 116 from by decide,
          show ¬ (91 : Nat) = 102 from by decide, show ¬ (91 : Nat) = 34 from by decide, if_false, if_true]
        split
        · rename_i r' heq
          rw [hsk] at heq
          injection heq with h1 _
          exact absurd h1 hc93
        · rw [hE]
  | .obj ms, ind, w, rest, f, hi, hw, hv, _, hf => by
    cases f with
    | zero => simp [need] at hf
    | succ f =>
      rw [parseValue_succ]
      cases ms with
      | nil =>
        simp only [ser, List.isEmpty_nil, if_true, List.cons_append, List.nil_append]
        rw [skipWs_head w hw (by decide)]
        simp [skipWs, isWs]
      | cons a t =>
        obtain ⟨k, v⟩ := a
        have hv' : WfMembers ((k, v) :: t) := by simpa [WfVal] using hv
        have hf' : needM ((k, v) :: t) ≤ f := by simp [need] at hf; omega
        have hE := rt_members gap hg ((k, v) :: t) ind (ind ++ gap) (nl gap (ind ++ gap)) rest f hi
          (allWs_append hi hg) (allWs_nl (allWs_append hi hg)) hv' (by simp) hf'
        simp only [ser, List.isEmpty_cons, Bool.false_eq_true, if_false, List.cons_append, List.append_assoc]
        rw [skipWs_head w hw (by decide)]
        have hsk : skipWs (nl gap (ind ++ gap) ++ (serMembers gap ind (ind ++ gap) ((k, v) :: t) ++ rest)) =
            34 :: (quoteBody k ++ [34] ++ (colon gap ++ (ser gap (ind ++ gap) v ++
              (sepIf (!t.isEmpty) gap (ind ++ gap) ++ serMembers gap ind (ind ++ gap) t))) ++ rest) := by
          simp only [serMembers, quote, List.cons_append, List.append_assoc]
          rw [skipWs_head _ (allWs_nl (allWs_append hi hg)) (by decide)]
        simp only [show ¬ (123 : Nat) = 110 from by decide, show ¬ (123 : Nat) = 116 from by decide,
          show ¬ (123 : Nat) = 102 from by decide, show ¬ (123 : Nat) = 34 from by decide,
          show ¬ (123 : Nat) = 91 from by decide, if_false, if_true]
        split
        · rename_i r' heq
          rw [hsk] at heq
          injection heq with h1 _
          exact absurd h1 (by decide)
        · rw [hE]
theorem rt_elems (gap : Str) (hg : AllWs gap) :
    ∀ (xs : List JVal) (ind ind' w rest : Str) (f : Nat), AllWs ind → AllWs ind' → AllWs w → WfList xs → xs ≠ [] →
      needL xs ≤ f → parseElems f (w ++ (serElems gap ind ind' xs ++ rest)) = some (xs, rest)
  | [], _, _, _, _, _, _, _, _, _, hne, _ => absurd rfl hne
  | v :: t, ind, ind', w, rest, f, hi, hi', hw, hv, _, hf => by
    cases f with
    | zero => simp [needL] at hf
    | succ f =>
      have hv' : WfVal v ∧ WfList t := by simpa [WfList] using hv
      have hfv : need v ≤ f ∧ needL t ≤ f := by simp [needL] at hf; omega
      rw [parseElems_succ]
      simp only [serElems, List.append_assoc]
      rw [rt_val gap hg v ind' w _ f hi' hw hv'.1 (stop_after_elem gap ind ind' t rest) hfv.1]
      cases t with
      | nil =>
        simp only [List.isEmpty_nil, Bool.not_true, sepIf, serElems, List.nil_append, List.append_assoc,
          Bool.false_eq_true, if_false, List.cons_append]
        rw [skipWs_head _ (allWs_nl hi) (by decide)]
        simp
      | cons b t' =>
        have hE := rt_elems gap hg (b :: t') ind ind' (nl gap ind') rest f hi hi' (allWs_nl hi') hv'.2 (by simp) hfv.2
        simp only [List.isEmpty_cons, Bool.not_false, sepIf, if_true, List.cons_append]
        rw [skipWs_nonws (by decide)]
        simp [hE]
theorem rt_members (gap : Str) (hg : AllWs gap) :
    ∀ (ms : List (Str × JVal)) (ind ind' w rest : Str) (f : Nat), AllWs ind → AllWs ind' → AllWs w → WfMembers ms →
      ms ≠ [] → needM ms ≤ f → parseMembers f (w ++ (serMembers gap ind ind' ms ++ rest)) = some (ms, rest)
  | [], _, _, _, _, _, _, _, _, _, hne, _ => absurd rfl hne
  | (k, v) :: t, ind, ind', w, rest, f, hi, hi', hw, hv, _, hf => by
    cases f with
    | zero => simp [needM] at hf
    | succ f =>
      have hv' : WfStr k ∧ WfVal v ∧ WfMembers t := by simpa [WfMembers] using hv
      have hfv : need v ≤ f ∧ needM t ≤ f := by simp [needM] at hf; omega
      rw [parseMembers_succ]
      simp only [serMembers, quote, List.cons_append, List.append_assoc, List.nil_append]
      rw [skipWs_head w hw (by decide)]
      simp only [parseStrBody_quoteBody k hv'.1]
      have hcolon : ∃ w2, AllWs w2 ∧ colon gap = 58 :: w2 := by
        unfold colon
        split
        · exact ⟨[], ⟨(fun c hc => by cases hc), rfl⟩⟩
        · exact ⟨[32], ⟨(fun c hc => by simp at hc; subst hc; rfl), rfl⟩⟩
      obtain ⟨w2, hw2, hcol⟩ := hcolon
      rw [hcol]
      simp only [List.cons_append]
      rw [skipWs_nonws (by decide)]
      simp only []
      rw [rt_val gap hg v ind' w2 _ f hi' hw2 hv'.2.1 (stop_after_member gap ind ind' t rest) hfv.1]
      cases t with
      | nil =>
        simp only [List.isEmpty_nil, Bool.not_true, sepIf, serMembers, List.nil_append, List.append_assoc,
          Bool.false_eq_true, if_false, List.cons_append]
        rw [skipWs_head _ (allWs_nl hi) (by decide)]
        simp
      | cons b t' =>
        have hE := rt_members gap hg (b :: t') ind ind' (nl gap ind') rest f hi hi' (allWs_nl hi') hv'.2.2 (by simp) hfv.2
        simp only [List.isEmpty_cons, Bool.not_false, sepIf, if_true, List.cons_append]
        rw [skipWs_nonws (by decide)]
        simp [hE]
end

end GojaModel.C19
