/-
  C19: fuel bound for the top-level parser, syntactic round trip at top level, and the object-building
  fixed point on values in normal form.
-/
import GojaModel.C19.RoundTrip
namespace GojaModel.C19

theorem serElems_len_pos (gap ind ind' : Str) (xs : List JVal) : 1 ≤ (serElems gap ind ind' xs).length := by
  cases xs with
  | nil => simp [serElems]
  | cons a t => simp [serElems]; have := serElems_len_pos gap ind ind' t; omega

theorem serMembers_len_pos (gap ind ind' : Str) (ms : List (Str × JVal)) : 1 ≤ (serMembers gap ind ind' ms).length := by
  cases ms with
  | nil => simp [serMembers]
  | cons a t => obtain ⟨k, v⟩ := a; simp [serMembers, quote]

mutual
theorem need_le (gap : Str) : ∀ (v : JVal) (ind : Str), WfVal v → need v ≤ (ser gap ind v).length
  | .null, _, _ => by simp [need, ser]
  | .bool b, _, _ => by cases b <;> simp [need, ser]
  | .num l, _, hv => by
    obtain ⟨c, tl, rfl, _⟩ := numLex_head (by simpa [WfVal] using hv)
    simp [need, ser]
  | .str s, _, _ => by simp [need, ser, quote]
  | .arr xs, ind, hv => by
    cases xs with
    | nil => simp [need, needL, ser]
    | cons a t =>
      have h := needL_le gap (a :: t) ind (ind ++ gap) (by simpa [WfVal] using hv)
      simp only [need, ser, List.isEmpty_cons, Bool.false_eq_true, if_false, List.length_cons, List.length_append]
      omega
  | .obj ms, ind, hv => by
    cases ms with
    | nil => simp [need, needM, ser]
    | cons a t =>
      have h := needM_le gap (a :: t) ind (ind ++ gap) (by simpa [WfVal] using hv)
      simp only [need, ser, List.isEmpty_cons, Bool.false_eq_true, if_false, List.length_cons, List.length_append]
      omega
theorem needL_le (gap : Str) : ∀ (xs : List JVal) (ind ind' : Str), WfList xs → needL xs ≤ (serElems gap ind ind' xs).length
  | [], _, _, _ => by simp [needL]
  | v :: t, ind, ind', hv => by
    have hv' : WfVal v ∧ WfList t := by simpa [WfList] using hv
    have h1 := need_le gap v ind' hv'.1
    have h2 := needL_le gap t ind ind' hv'.2
    have h3 := serElems_len_pos gap ind ind' t
    have h4 := need_pos v
    simp only [needL, serElems, List.length_append]
    omega
theorem needM_le (gap : Str) : ∀ (ms : List (Str × JVal)) (ind ind' : Str), WfMembers ms → needM ms ≤ (serMembers gap ind ind' ms).length
  | [], _, _, _ => by simp [needM]
  | (k, v) :: t, ind, ind', hv => by
    have hv' : WfStr k ∧ WfVal v ∧ WfMembers t := by simpa [WfMembers] using hv
    have h1 := need_le gap v ind' hv'.2.1
    have h2 := needM_le gap t ind ind' hv'.2.2
    have h3 := serMembers_len_pos gap ind ind' t
    have h4 := need_pos v
    simp only [needM, serMembers, List.length_append]
    omega
end

/-- the syntactic round trip at top level -/
theorem parseRaw_stringify (gap : Str) (hg : AllWs gap) (v : JVal) (hv : WfVal v) :
    parseRaw (stringify gap v) = some v := by
  unfold parseRaw stringify
  have h := rt_val gap hg v [] [] [] ((ser gap [] v).length + 1) (fun c hc => by cases hc) (fun c hc => by cases hc) hv trivial
    (by have := need_le gap v [] hv; omega)
  simp only [List.nil_append, List.append_nil] at h
  rw [h]
  simp [skipWs]

/-! ### object building is the identity on values in normal form -/

def keys (ms : List (Str × JVal)) : List Str := ms.map Prod.fst

def IdxSorted (ms : List (Str × JVal)) : Prop := List.Pairwise (fun a b => idxVal a ≤ idxVal b) ms

/-- key list of an ECMAScript ordinary object: no duplicates; array-index keys first, ascending; then the rest -/
def KeysOK (ms : List (Str × JVal)) : Prop :=
  (keys ms).Nodup ∧ ms = ms.filter isIdx ++ ms.filter (fun p => !isIdx p) ∧ IdxSorted (ms.filter isIdx)

theorem upsert_fresh (k : Str) (v : JVal) (acc : List (Str × JVal)) (h : k ∉ keys acc) :
    upsert k v acc = acc ++ [(k, v)] := by
  induction acc with
  | nil => rfl
  | cons p t ih =>
    obtain ⟨k', v'⟩ := p
    have h1 : k' ≠ k := by intro e; apply h; simp [keys, e]
    have h2 : k ∉ keys t := by intro e; apply h; simp [keys] at e ⊢; exact Or.inr e
    simp [upsert, h1, ih h2]

theorem dedupe_aux (ms acc : List (Str × JVal)) (h : (keys (acc ++ ms)).Nodup) :
    ms.foldl (fun acc p => upsert p.1 p.2 acc) acc = acc ++ ms := by
  induction ms generalizing acc with
  | nil => simp
  | cons p t ih =>
    have hp : p.1 ∉ keys acc := by
      simp only [keys, List.map_append, List.map_cons] at h
      have := (List.nodup_append.mp h).2.2 
      intro hm
      simp only [keys] at hm
      exact this p.1 hm p.1 (by simp) rfl
    simp only [List.foldl_cons]
    rw [upsert_fresh _ _ _ hp, ih]
    · simp
    · simpa using h

theorem dedupe_nodup (ms : List (Str × JVal)) (h : (keys ms).Nodup) : dedupe ms = ms := by
  unfold dedupe
  simpa using dedupe_aux ms [] (by simpa using h)

theorem sortIdx_sorted (l : List (Str × JVal)) (h : IdxSorted l) : sortIdx l = l := by
  induction l with
  | nil => rfl
  | cons a t ih =>
    have ht : IdxSorted t := (List.pairwise_cons.mp h).2
    rw [sortIdx, ih ht]
    cases t with
    | nil => rfl
    | cons b t' =>
      have hab : idxVal a ≤ idxVal b := (List.pairwise_cons.mp h).1 b (by simp)
      simp [insIdx, hab]

theorem orderKeys_dedupe_fixed (ms : List (Str × JVal)) (h : KeysOK ms) : orderKeys (dedupe ms) = ms := by
  rw [dedupe_nodup ms h.1]
  unfold orderKeys
  rw [sortIdx_sorted _ h.2.2]
  exact h.2.1.symm


/-! ### normal form = what a JavaScript value built by JSON.parse looks like in the model -/

mutual
def Normal (N : NumCanon) : JVal → Prop
  | .null => True
  | .bool _ => True
  | .num l => NumLexOK l ∧ N.canon l = l
  | .str s => WfStr s
  | .arr xs => NormalL N xs
  | .obj ms => NormalM N ms ∧ KeysOK ms
def NormalL (N : NumCanon) : List JVal → Prop
  | [] => True
  | v :: t => Normal N v ∧ NormalL N t
def NormalM (N : NumCanon) : List (Str × JVal) → Prop
  | [] => True
  | (k, v) :: t => WfStr k ∧ Normal N v ∧ NormalM N t
end

mutual
theorem normal_wf (N : NumCanon) : ∀ v : JVal, Normal N v → WfVal v
  | .null, _ => by simp [WfVal]
  | .bool _, _ => by simp [WfVal]
  | .num l, h => by simp only [Normal] at h; simpa [WfVal] using h.1
  | .str s, h => by simpa [WfVal, Normal] using h
  | .arr xs, h => by simp only [Normal] at h; simpa [WfVal] using normalL_wf N xs h
  | .obj ms, h => by simp only [Normal] at h; simpa [WfVal] using normalM_wf N ms h.1
theorem normalL_wf (N : NumCanon) : ∀ xs : List JVal, NormalL N xs → WfList xs
  | [], _ => by simp [WfList]
  | v :: t, h => by
    simp only [NormalL] at h
    simp only [WfList]
    exact ⟨normal_wf N v h.1, normalL_wf N t h.2⟩
theorem normalM_wf (N : NumCanon) : ∀ ms : List (Str × JVal), NormalM N ms → WfMembers ms
  | [], _ => by simp [WfMembers]
  | (k, v) :: t, h => by
    simp only [NormalM] at h
    simp only [WfMembers]
    exact ⟨h.1, normal_wf N v h.2.1, normalM_wf N t h.2.2⟩
end

mutual
theorem build_normal (N : NumCanon) : ∀ v : JVal, Normal N v → build N v = v
  | .null, _ => by simp [build]
  | .bool _, _ => by simp [build]
  | .num l, h => by simp only [Normal] at h; simp [build, h.2]
  | .str s, _ => by simp [build]
  | .arr xs, h => by simp only [Normal] at h; simp [build, buildList_normal N xs h]
  | .obj ms, h => by
    simp only [Normal] at h
    simp only [build, buildMembers_normal N ms h.1, orderKeys_dedupe_fixed ms h.2]
theorem buildList_normal (N : NumCanon) : ∀ xs : List JVal, NormalL N xs → buildList N xs = xs
  | [], _ => by simp [buildList]
  | v :: t, h => by
    simp only [NormalL] at h
    simp [buildList, build_normal N v h.1, buildList_normal N t h.2]
theorem buildMembers_normal (N : NumCanon) : ∀ ms : List (Str × JVal), NormalM N ms → buildMembers N ms = ms
  | [], _ => by simp [buildMembers]
  | (k, v) :: t, h => by
    simp only [NormalM] at h
    simp [buildMembers, build_normal N v h.2.1, buildMembers_normal N t h.2.2]
end

/-! ### grammar of string tokens as an inductive relation, and completeness of the lexer for it -/

/-- `StrBody b u`: the token body `b` (text between the quotes) denotes the code units `u` (ECMA-404 §9) -/
inductive StrBody : Str → Str → Prop
  | nil : StrBody [] []
  | raw {c : Nat} {b u : Str} : c ≠ 34 → c ≠ 92 → ¬ c < 32 → StrBody b u → StrBody (c :: b) (c :: u)
  | esc {e x : Nat} {b u : Str} : simpleEsc e = some x → StrBody b u → StrBody (92 :: e :: b) (x :: u)
  | uni {a b c d x : Nat} {t u : Str} : hex4Val a b c d = some x → StrBody t u →
      StrBody (92 :: 117 :: a :: b :: c :: d :: t) (x :: u)

theorem simpleEsc_ne_u {e x : Nat} (h : simpleEsc e = some x) : e ≠ 117 := by
  intro he; subst he; simp [simpleEsc] at h

theorem strBody_complete {b u : Str} (h : StrBody b u) (rest : Str) :
    parseStrBody (b ++ 34 :: rest) = some (u, rest) := by
  induction h with
  | nil => simp [parseStrBody_cons]
  | raw h1 h2 h3 _ ih => simp [parseStrBody_cons, h1, h2, h3, ih, cons1]
  | esc he _ ih => simp [parseStrBody_cons, simpleEsc_ne_u he, he, ih, cons1]
  | uni hx _ ih => simp [parseStrBody_cons, hx, ih, cons1]

/-! ### integer lexemes satisfy the number-text hypothesis unconditionally -/

theorem takeDigits_all (ds rest : Str) (hd : ∀ c ∈ ds, isDigit c = true) (hs : Stop rest) :
    takeDigits (ds ++ rest) = (ds, rest) := by
  induction ds with
  | nil =>
    cases rest with
    | nil => rfl
    | cons c r => simp [Stop] at hs; simp [takeDigits, hs.1]
  | cons d t ih =>
    have h1 : isDigit d = true := hd d (by simp)
    have h2 := ih (fun c hc => hd c (by simp [hc]))
    simp [takeDigits, h1, h2]

theorem parseFrac_stop (rest : Str) (hs : Stop rest) : parseFrac rest = some ([], rest) := by
  unfold parseFrac
  split
  · simp [Stop] at hs
  · rfl

theorem parseExp_stop (rest : Str) (hs : Stop rest) : parseExp rest = some ([], rest) := by
  cases rest with
  | nil => rfl
  | cons c r =>
    simp [Stop] at hs
    simp [parseExp, hs.2.2.1, hs.2.2.2]

/-- canonical decimal text of a natural number: "0" or a non-zero digit followed by digits -/
def NatLex (l : Str) : Prop :=
  l = [48] ∨ ∃ d ds, l = d :: ds ∧ 49 ≤ d ∧ d ≤ 57 ∧ ∀ c ∈ ds, isDigit c = true

theorem parseUnsigned_nat (l rest : Str) (hl : NatLex l) (hs : Stop rest) :
    parseUnsigned (l ++ rest) = some (l, rest) := by
  rcases hl with rfl | ⟨d, ds, rfl, h1, h2, hd⟩
  · simp [parseUnsigned, parseInt, parseFrac_stop rest hs, parseExp_stop rest hs]
  · have hd48 : d ≠ 48 := by omega
    simp [parseUnsigned, parseInt, hd48, h1, h2, takeDigits_all ds rest hd hs, parseFrac_stop rest hs,
      parseExp_stop rest hs]

/-- integers are unconditional: the decimal text of every integer (optionally negative) satisfies the
    number-text hypothesis `NumLexOK` -/
theorem numLexOK_of_int (l : Str) (hl : NatLex l) : NumLexOK l ∧ NumLexOK (45 :: l) := by
  constructor
  · intro rest hs
    have hne : ∀ r, l ++ rest ≠ 45 :: r := by
      intro r
      rcases hl with rfl | ⟨d, ds, rfl, h1, _, _⟩
      · simp
      · simp; omega
    unfold parseNum
    split
    · rename_i r heq; exact absurd heq (hne r)
    · exact parseUnsigned_nat l rest hl hs
  · intro rest hs
    simp [parseNum, parseUnsigned_nat l rest hl hs, cons1]

end GojaModel.C19
