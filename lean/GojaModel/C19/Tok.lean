/-
  C19, mechanism level: JSON.parse as goja implements it — Go's encoding/json token stream (`Decoder.Token`,
  GOROOT/src/encoding/json/stream.go) driven by builtin_json.go:82 decodeValue / :51 decodeToken / :127 decodeArray /
  :90 decodeObject / :110 decodeObjectKey and the trailing-token check at :32.

  `Decoder` = the decoder: unread input, tokenState, tokenStack.  `token` transcribes `Token()` case by case (the `continue`
  after ':' and ',' is unfolded once: after a separator the state is one in which a second separator is an error).
  Scalars are read by `Decode(&x)` with UseNumber: a literal, a string token or a number token starting at the current
  position, ended by the first unit that cannot continue it (`scanScalar`; the scanner's complaint about a non-space
  unit after a top-level value is discarded by the streaming decoder).  Strings are kept as UTF-16 units here; the
  UTF-8 view of the text (lone surrogates → U+FFFD) is the documented exception handled outside (`fixText`).
-/
import GojaModel.C19.Model

namespace GojaModel.C19

inductive TState where
  | topValue | arrayStart | arrayValue | arrayComma | objectStart | objectKey | objectColon | objectValue | objectComma
  deriving DecidableEq

structure Decoder where
  inp : Str
  st : TState
  stack : List TState

inductive Tok where
  | delim (c : Nat)
  | val (v : JVal)

inductive TRes where
  | tok (t : Tok) (d : Decoder)
  | eof
  | err

/-- stream.go tokenValueAllowed -/
def valueAllowed : TState → Bool
  | .topValue | .arrayStart | .arrayValue | .objectValue => true
  | _ => false

/-- stream.go tokenValueEnd -/
def valueEnd : TState → TState
  | .arrayStart | .arrayValue => .arrayComma
  | .objectValue => .objectComma
  | s => s

/-- `Decode(&x)` for a scalar at the head of the input -/
def scanScalar : Str → Option (JVal × Str)
  | [] => none
  | c :: r =>
    if c = 110 then (match matchLit [117, 108, 108] r with | some r' => some (.null, r') | none => none)
    else if c = 116 then (match matchLit [114, 117, 101] r with | some r' => some (.bool true, r') | none => none)
    else if c = 102 then (match matchLit [97, 108, 115, 101] r with | some r' => some (.bool false, r') | none => none)
    else if c = 34 then (match parseStrBody r with | some (u, r') => some (.str u, r') | none => none)
    else (match parseNum (c :: r) with | some (l, r') => some (.num l, r') | none => none)

/-- pop the token stack (Go indexes `tokenStack[len-1]`; the states in which `]`/`}` are accepted are only entered by a push) -/
def popState (d : Decoder) (rest : Str) : Decoder :=
  match d.stack with
  | p :: stk => { inp := rest, st := valueEnd p, stack := stk }
  | [] => { inp := rest, st := valueEnd .topValue, stack := [] }

/-- one pass of the loop body of `Token()`: a token, EOF, an error, or `continue` with the new decoder -/
inductive Step where
  | done (r : TRes)
  | again (d : Decoder)

def tokenStep (d : Decoder) : Step :=
  match skipWs d.inp with
  | [] => .done .eof
  | c :: r =>
    if c = 91 then
      (if valueAllowed d.st then .done (.tok (.delim 91) { inp := r, st := .arrayStart, stack := d.st :: d.stack }) else .done .err)
    else if c = 93 then
      (if d.st = .arrayStart ∨ d.st = .arrayComma then .done (.tok (.delim 93) (popState d r)) else .done .err)
    else if c = 123 then
      (if valueAllowed d.st then .done (.tok (.delim 123) { inp := r, st := .objectStart, stack := d.st :: d.stack }) else .done .err)
    else if c = 125 then
      (if d.st = .objectStart ∨ d.st = .objectComma then .done (.tok (.delim 125) (popState d r)) else .done .err)
    else if c = 58 then
      (if d.st = .objectColon then .again { d with inp := r, st := .objectValue } else .done .err)
    else if c = 44 then
      (if d.st = .arrayComma then .again { d with inp := r, st := .arrayValue }
       else if d.st = .objectComma then .again { d with inp := r, st := .objectKey }
       else .done .err)
    else if c = 34 ∧ (d.st = .objectStart ∨ d.st = .objectKey) then
      (match parseStrBody r with
       | some (k, r') => .done (.tok (.val (.str k)) { d with inp := r', st := .objectColon })
       | none => .done .err)
    else
      (if valueAllowed d.st then
        (match scanScalar (c :: r) with
         | some (v, r') => .done (.tok (.val v) { d with inp := r', st := valueEnd d.st })
         | none => .done .err)
       else .done .err)

/-- `Token()` -/
def token (d : Decoder) : TRes :=
  match tokenStep d with
  | .done r => r
  | .again d' =>
    match tokenStep d' with
    | .done r => r
    | .again _ => .err

mutual
/-- builtin_json.go:82 decodeValue -/
def gValue : Nat → Decoder → Option (JVal × Decoder)
  | 0, _ => none
  | f + 1, d =>
    match token d with
    | .tok t d' => gToken f t d'
    | _ => none
/-- builtin_json.go:51 decodeToken -/
def gToken : Nat → Tok → Decoder → Option (JVal × Decoder)
  | 0, _, _ => none
  | f + 1, t, d =>
    match t with
    | .val v => some (v, d)
    | .delim c =>
      if c = 91 then (match gArray f d with | some (xs, d') => some (.arr xs, d') | none => none)
      else if c = 123 then (match gObject f d with | some (ms, d') => some (.obj ms, d') | none => none)
      else none
/-- builtin_json.go:127 decodeArray, the loop -/
def gArray : Nat → Decoder → Option (List JVal × Decoder)
  | 0, _ => none
  | f + 1, d =>
    match token d with
    | .tok (.delim 93) d' => some ([], d')
    | .tok t d' =>
      (match gToken f t d' with
       | some (v, d2) =>
         (match gArray f d2 with
          | some (xs, d3) => some (v :: xs, d3)
          | none => none)
       | none => none)
    | _ => none
/-- builtin_json.go:90 decodeObject with :110 decodeObjectKey, the loop -/
def gObject : Nat → Decoder → Option (List (Str × JVal) × Decoder)
  | 0, _ => none
  | f + 1, d =>
    match token d with
    | .tok (.delim 125) d' => some ([], d')
    | .tok (.val (.str k)) d' =>
      (match gValue f d' with
       | some (v, d2) =>
         (match gObject f d2 with
          | some (ms, d3) => some ((k, v) :: ms, d3)
          | none => none)
       | none => none)
    | _ => none
end

/-- builtin_json.go:20 builtinJSON_parse up to the reviver: decodeValue, then `d.Token()` must report io.EOF -/
def gojaParseRaw (t : Str) : Option JVal :=
  match gValue (4 * t.length + 4) { inp := t, st := .topValue, stack := [] } with
  | some (v, d) =>
    (match token d with
     | .eof => some v
     | _ => none)
  | none => none

end GojaModel.C19
