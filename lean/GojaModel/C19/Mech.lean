/-
  C19, mechanism level: the serialiser of builtin_json.go as it is written — one output buffer and one mutable
  `ctx.indent` that every container saves, extends and must restore; separators written eagerly; members whose value
  does not serialise are removed again with `buf.Truncate(off)`, and an object that ends up empty truncates back to
  its opening brace:

      str :289 (the final type switch)   ja :397   jo :435   (no replacer function, no toJSON, no allow-list)

  Values are plain data plus `undef` (anything for which `str` returns false: undefined, a function, a symbol).
  `strM` returns the new buffer, the new `ctx.indent` and the boolean result of `str`.
-/
import GojaModel.C19.Replacer

namespace GojaModel.C19

inductive MVal where
  | undef
  | null
  | bool (b : Bool)
  | num (lex : Str)
  | str (s : Str)
  | arr (xs : List MVal)
  | obj (ms : List (Str × MVal))


mutual
/-- ctx.str for a value already fetched (builtin_json.go:353 switch) -/
def strM (gap : Str) : MVal → Str → Str → Str × Str × Bool
  | .undef, buf, ind => (buf, ind, false)
  | .null, buf, ind => (buf ++ [110, 117, 108, 108], ind, true)
  | .bool true, buf, ind => (buf ++ [116, 114, 117, 101], ind, true)
  | .bool false, buf, ind => (buf ++ [102, 97, 108, 115, 101], ind, true)
  | .num l, buf, ind => (buf ++ l, ind, true)
  | .str s, buf, ind => (buf ++ quote s, ind, true)
  | .arr xs, buf, ind =>
    -- ja: stepback = ctx.indent; ctx.indent += ctx.gap
    if xs.isEmpty then (buf ++ [91, 93], ind, true)              -- "[]", ctx.indent = stepback
    else
      ((jaLoop gap (44 :: nl gap (ind ++ gap)) xs (buf ++ (91 :: nl gap (ind ++ gap))) (ind ++ gap)).1 ++ (nl gap ind ++ [93]),
       ind, true)                                               -- "\n" + stepback + "]", ctx.indent = stepback
  | .obj ms, buf, ind =>
    -- jo: '{', mark, "\n"+indent, loop, then Truncate(mark) if nothing was written
    ((let r := joLoop gap (44 :: nl gap (ind ++ gap)) ms (buf ++ (123 :: nl gap (ind ++ gap))) (ind ++ gap) true
      if r.2.2 then (buf ++ [123]) ++ [125]                     -- Truncate(mark); '}'
      else r.1 ++ (nl gap ind ++ [125])),
     ind, true)
/-- the element loop of ja: str, "null" if it returned false, separator unless last -/
def jaLoop (gap sep : Str) : List MVal → Str → Str → Str × Str
  | [], buf, ind => (buf, ind)
  | v :: t, buf, ind =>
    jaLoop gap sep t
      ((if (strM gap v buf ind).2.2 then (strM gap v buf ind).1 else (strM gap v buf ind).1 ++ [110, 117, 108, 108]) ++
        (if t.isEmpty then [] else sep))
      (strM gap v buf ind).2.1
/-- the member loop of jo: off := buf.Len(); separator if !empty; key; colon; str; Truncate(off) if it returned false -/
def joLoop (gap sep : Str) : List (Str × MVal) → Str → Str → Bool → Str × Str × Bool
  | [], buf, ind, empty => (buf, ind, empty)
  | (k, v) :: t, buf, ind, empty =>
    if (strM gap v (buf ++ ((if empty then [] else sep) ++ (quote k ++ colon gap))) ind).2.2 then
      joLoop gap sep t (strM gap v (buf ++ ((if empty then [] else sep) ++ (quote k ++ colon gap))) ind).1
        (strM gap v (buf ++ ((if empty then [] else sep) ++ (quote k ++ colon gap))) ind).2.1 false
    else
      joLoop gap sep t
        ((strM gap v (buf ++ ((if empty then [] else sep) ++ (quote k ++ colon gap))) ind).1.take buf.length)
        (strM gap v (buf ++ ((if empty then [] else sep) ++ (quote k ++ colon gap))) ind).2.1 empty
end

/-! the specification side: what the value denotes for SerializeJSONProperty — undefined (none), or the plain value in
    which members with an undefined value are left out and undefined elements are null -/
mutual
def clean : MVal → Option JVal
  | .undef => none
  | .null => some .null
  | .bool b => some (.bool b)
  | .num l => some (.num l)
  | .str s => some (.str s)
  | .arr xs => some (.arr (cleanElems xs))
  | .obj ms => some (.obj (cleanMembers ms))
def cleanElems : List MVal → List JVal
  | [] => []
  | v :: t => (match clean v with | some j => j | none => .null) :: cleanElems t
def cleanMembers : List (Str × MVal) → List (Str × JVal)
  | [] => []
  | (k, v) :: t => match clean v with
    | some j => (k, j) :: cleanMembers t
    | none => cleanMembers t
end

end GojaModel.C19
