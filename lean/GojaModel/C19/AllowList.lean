/-
  C19: JSON.stringify with a replacer allow-list = plain stringify of the value projected onto the list.
-/
import GojaModel.C19.Model
namespace GojaModel.C19

def textOf (gap ind' : Str) (p : Str × JVal) : Str × Str := (p.1, ser gap ind' p.2)

theorem joinMembers_map (gap ind ind' : Str) (ms : List (Str × JVal)) :
    joinMembers gap ind ind' (ms.map (textOf gap ind')) = serMembers gap ind ind' ms := by
  induction ms with
  | nil => simp [joinMembers, serMembers]
  | cons a t ih =>
    obtain ⟨k, v⟩ := a
    simp [joinMembers, serMembers, textOf, ih]

theorem lookupText_map (gap ind' : Str) (k : Str) (ms : List (Str × JVal)) :
    lookupText k (ms.map (textOf gap ind')) = (lookupKey k ms).map (ser gap ind') := by
  induction ms with
  | nil => rfl
  | cons a t ih =>
    obtain ⟨k', v⟩ := a
    by_cases h : k' = k <;> simp [lookupText, lookupKey, textOf, h]
    simpa [textOf] using ih

theorem selectTexts_map (gap ind' : Str) (pl : List Str) (ms : List (Str × JVal)) :
    selectTexts (ser gap ind' protoProj) pl (ms.map (textOf gap ind')) = (selectMembers pl ms).map (textOf gap ind') := by
  induction pl with
  | nil => rfl
  | cons k t ih =>
    simp only [selectTexts, selectMembers, lookupText_map]
    cases lookupKey k ms with
    | none =>
      by_cases hk : k = protoKey
      · simp [hk, ih, textOf]
      · simpa [hk] using ih
    | some v => simp [ih, textOf]

theorem assembleObj_map (gap ind : Str) (ms : List (Str × JVal)) :
    assembleObj gap ind (ms.map (textOf gap (ind ++ gap))) = ser gap ind (.obj ms) := by
  cases ms with
  | nil => simp [assembleObj, ser]
  | cons a t =>
    simp only [assembleObj, ser, List.map_cons, List.isEmpty_cons, Bool.false_eq_true, if_false]
    rw [← List.map_cons, joinMembers_map]

theorem protoText_eq (gap ind' : Str) :
    assembleObj gap ind' [(protoKey, [110, 117, 108, 108])] = ser gap ind' protoProj := by
  have := assembleObj_map gap ind' [(protoKey, JVal.null)]
  simpa [textOf, ser, protoProj] using this

mutual
theorem serP_eq_project (pl : List Str) (gap : Str) : ∀ (v : JVal) (ind : Str),
    serP pl gap ind v = ser gap ind (project pl v)
  | .null, _ => by simp [serP, ser, project]
  | .bool b, _ => by cases b <;> simp [serP, ser, project]
  | .num _, _ => by simp [serP, ser, project]
  | .str _, _ => by simp [serP, ser, project]
  | .arr xs, ind => by
    cases xs with
    | nil => simp [serP, ser, project, projectList]
    | cons a t =>
      have h := serElemsP_eq_project pl gap (a :: t) ind (ind ++ gap)
      simp only [serP, ser, project, List.isEmpty_cons, Bool.false_eq_true, if_false, h, projectList]
  | .obj ms, ind => by
    have h := memberTexts_eq_project pl gap ms (ind ++ gap)
    simp only [serP, project, h, protoText_eq, selectTexts_map, assembleObj_map]
theorem serElemsP_eq_project (pl : List Str) (gap : Str) : ∀ (xs : List JVal) (ind ind' : Str),
    serElemsP pl gap ind ind' xs = serElems gap ind ind' (projectList pl xs)
  | [], _, _ => by simp [serElemsP, serElems, projectList]
  | v :: t, ind, ind' => by
    have h1 := serP_eq_project pl gap v ind'
    have h2 := serElemsP_eq_project pl gap t ind ind'
    have h3 : (projectList pl t).isEmpty = t.isEmpty := by cases t <;> simp [projectList]
    simp only [serElemsP, serElems, projectList, h1, h2, h3]
theorem memberTexts_eq_project (pl : List Str) (gap : Str) : ∀ (ms : List (Str × JVal)) (ind' : Str),
    memberTexts pl gap ind' ms = (projectMembers pl ms).map (textOf gap ind')
  | [], _ => by simp [memberTexts, projectMembers]
  | (k, v) :: t, ind' => by
    have h1 := serP_eq_project pl gap v ind'
    have h2 := memberTexts_eq_project pl gap t ind'
    simp only [memberTexts, projectMembers, List.map_cons, textOf, h1, h2]
end

theorem propList_aux (items acc : List Str) (h : acc.Nodup) :
    (items.foldl (fun acc k => if acc.contains k then acc else acc ++ [k]) acc).Nodup ∧
      ∀ k, k ∈ items.foldl (fun acc k => if acc.contains k then acc else acc ++ [k]) acc ↔ k ∈ acc ∨ k ∈ items := by
  induction items generalizing acc with
  | nil => simp [h]
  | cons a t ih =>
    simp only [List.foldl_cons]
    by_cases ha : acc.contains a = true
    · simp only [ha, if_true]
      refine ⟨(ih acc h).1, ?_⟩
      intro k
      rw [(ih acc h).2 k]
      have : a ∈ acc := by simpa using ha
      constructor
      · rintro (h1 | h1); exact Or.inl h1; exact Or.inr (by simp [h1])
      · rintro (h1 | h1)
        · exact Or.inl h1
        · cases h1 with
          | head => exact Or.inl this
          | tail _ h2 => exact Or.inr h2
    · simp only [ha, Bool.false_eq_true, if_false]
      have hn : a ∉ acc := by simpa using ha
      have h' : (acc ++ [a]).Nodup := by
        rw [List.nodup_append]
        refine ⟨h, by simp, ?_⟩
        intro x hx y hy
        simp at hy; subst hy
        intro e; subst e; exact hn hx
      refine ⟨(ih _ h').1, ?_⟩
      intro k
      rw [(ih _ h').2 k]
      simp only [List.mem_append, List.mem_cons, List.not_mem_nil, or_false]
      constructor
      · rintro ((h1 | h1) | h1)
        · exact Or.inl h1
        · exact Or.inr (Or.inl h1)
        · exact Or.inr (Or.inr h1)
      · rintro (h1 | h1 | h1)
        · exact Or.inl (Or.inl h1)
        · exact Or.inl (Or.inr h1)
        · exact Or.inr h1

end GojaModel.C19
