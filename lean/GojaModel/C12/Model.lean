/-
  C12 model: number <-> string conversions.  Core Lean only (linked into the exe `model_c12`).

  There is NO model of the dtoa / Grisu digit generators of /repo/ftoa here.  This file defines
    * a minimal IEEE-754 binary64 (`F64`: sign, biased exponent, fraction, with bounds; bit codec),
      its exact value as a dyadic rational `magOrd (ord f) / 2^1074`,
    * CERTIFYING CHECKERS over exact Nat arithmetic (`isNearestMag`, `isShortest`, `isFixed`, `isExp`, …) that
      accept or reject an (input, output) pair produced by the real implementation,
    * the ECMA-262 text layer (grammar of StringNumericLiteral / parseFloat / parseInt / NumericLiteral,
      the layout rules of Number::toString, toFixed, toExponential, toPrecision) as executable definitions.
  `Props.lean` proves that whatever the checkers accept satisfies the spec-level statement (for ALL competitors,
  not sampled).  The driver runs the checkers on goja's actual outputs.
-/
namespace GojaModel.C12

/-! ## binary64 -/

structure F64 where
  neg : Bool
  exp : Nat
  man : Nat
  hexp : exp < 2048
  hman : man < 2 ^ 52

namespace F64

def ofBits (b : Nat) : F64 :=
  { neg := (b / 2 ^ 63) % 2 == 1
    exp := (b / 2 ^ 52) % 2048
    man := b % 2 ^ 52
    hexp := Nat.mod_lt _ (by decide)
    hman := Nat.mod_lt _ (Nat.two_pow_pos 52) }

def toBits (f : F64) : Nat := (if f.neg then 2 ^ 63 else 0) + f.exp * 2 ^ 52 + f.man

/-- Position in the ordered sequence of non-negative doubles: 0, minSubnormal, …, maxFinite, +Inf, NaNs. -/
def ord (f : F64) : Nat := f.exp * 2 ^ 52 + f.man

def isNaN (f : F64) : Bool := f.exp == 2047 && f.man != 0
def isInf (f : F64) : Bool := f.exp == 2047 && f.man == 0
def isFinite (f : F64) : Bool := f.exp < 2047
def isZero (f : F64) : Bool := f.exp == 0 && f.man == 0

end F64

/-- Ordinal of +Infinity (= number of finite non-negative doubles). -/
def infOrd : Nat := 2047 * 2 ^ 52

/-- Every finite double is an integer multiple of 2^-1074. -/
def scale : Nat := 2 ^ 1074

/-- `magOrd k / scale` is the exact magnitude of the k-th non-negative double.  For `k = infOrd` the same
formula gives 2^1024 (the value "one binade above maxFinite" that IEEE uses to define overflow). -/
def magOrd (k : Nat) : Nat :=
  if k < 2 ^ 52 then k else (2 ^ 52 + k % 2 ^ 52) * 2 ^ (k / 2 ^ 52 - 1)

/-- Exact magnitude numerator of a finite double (denominator `scale`). -/
def F64.mag (f : F64) : Nat := magOrd f.ord

/-! ## checker 1: round-to-nearest, ties-to-even (IEEE 754 roundTiesToEven, incl. overflow and subnormals)

`n / d` is a non-negative rational; `k` the ordinal of the magnitude of the claimed result. -/

def lowerOK (n d k : Nat) : Bool :=
  k == 0 ||
    (let l := 2 * n * scale
     let r := (magOrd (k - 1) + magOrd k) * d
     decide (r < l) || (r == l && k % 2 == 0))

def upperOK (n d k : Nat) : Bool :=
  k == infOrd ||
    (let l := 2 * n * scale
     let r := (magOrd k + magOrd (k + 1)) * d
     decide (l < r) || (l == r && k % 2 == 0))

def isNearestMag (n d k : Nat) : Bool :=
  decide (0 < d) && decide (k ≤ infOrd) && lowerOK n d k && upperOK n d k

/-! ### the rounding FUNCTION (rational → ordinal of the nearest double, ties to even)

`lowerOK n d k` is true for small `k` and false for large `k`; the nearest double is the greatest `k ≤ infOrd` for
which it is true.  Found by bisection (64 steps suffice: `infOrd + 1 ≤ 2^64`).  `Props.roundOrd_isNearest` proves that
the result satisfies the acceptance predicate, `roundOrd_complete` that nothing else does. -/

def bisect (n d : Nat) : Nat → Nat → Nat → Nat
  | 0, lo, _ => lo
  | fuel + 1, lo, hi =>
    if hi ≤ lo + 1 then lo else
    let mid := (lo + hi) / 2
    if lowerOK n d mid then bisect n d fuel mid hi else bisect n d fuel lo mid

def roundOrd (n d : Nat) : Nat := bisect n d 64 0 (infOrd + 1)

/-- Signed version: `q = (-1)^neg * n/d` rounds to `f` (sign of zero results follows the sign of the text). -/
def isNearest (neg : Bool) (n d : Nat) (f : F64) : Bool :=
  (f.neg == neg) && !f.isNaN && isNearestMag n d f.ord

/-! ## decimal values  s × 10^c  as Nat fractions -/

def decNum (s : Nat) (c : Int) : Nat := s * 10 ^ c.toNat
def decDen (c : Int) : Nat := 10 ^ (-c).toNat

/-- `s × 10^c` rounds to the double with ordinal `o`. -/
def roundsTo (s : Nat) (c : Int) (o : Nat) : Bool := isNearestMag (decNum s c) (decDen c) o

/-! ## checker 2: shortest round-trip digits (ECMA-262 Number::toString step 5)

`o` ordinal of |x| (finite, non-zero), `s` the digits as a number, `k` their count, `c = n - k` the exponent of
the last digit (value `s × 10^c`). -/

def isShortest (o s k : Nat) (c : Int) : Bool :=
  decide (1 ≤ k) && decide (10 ^ (k - 1) ≤ s) && decide (s < 10 ^ k) && roundsTo s c o &&
    (k == 1 ||
      (!lowerOK (decNum (s / 10) (c + 1)) (decDen (c + 1)) o &&
       !upperOK (decNum (s / 10 + 1) (c + 1)) (decDen (c + 1)) o))

def absDiff (a b : Nat) : Nat := (a - b) + (b - a)

/-- Scaled distance between the decimal `s × 10^c` and the double with ordinal `o`
(`|s·10^c − x| · decDen c · scale`). -/
def distTo (o s : Nat) (c : Int) : Nat := absDiff (decNum s c * scale) (magOrd o * decDen c)

/-- "If there are multiple possibilities for s, choose the value of s for which s × 10^(n−k) is closest in value
to x" (ECMA-262 Number::toString, note 2 — a recommendation; Gay's and Grisu's shortest modes both implement it).
Only decimals that parse back to x compete.  The neighbours `s ± 1` on the same grid are either outside the
rounding interval or not closer; when `s = 10^(k−1)` the neighbour below is on the ten times finer grid of the
decade below: t = (10^k − 1) × 10^(c−1), compared with v = (10·s) × 10^(c−1). -/
def isClosest (o s k : Nat) (c : Int) : Bool :=
  (!roundsTo (s + 1) c o || decide (distTo o s c ≤ distTo o (s + 1) c)) &&
  (if 10 ^ (k - 1) < s then
     !roundsTo (s - 1) c o || decide (distTo o s c ≤ distTo o (s - 1) c)
   else
     !roundsTo (10 ^ k - 1) (c - 1) o ||
       decide (distTo o (10 * s) (c - 1) ≤ distTo o (10 ^ k - 1) (c - 1)))

/-! ## checker 3: toFixed (ECMA-262 Number.prototype.toFixed step 9.a:
"Let n be an integer for which n / 10^f − x is as close to zero as possible. If there are two such n, pick the
larger n.")   `X / scale = |x|`. -/

def isFixed (X fd N : Nat) : Bool :=
  let p := N * scale
  let q := X * 10 ^ fd
  if q ≤ p then decide (2 * (p - q) ≤ scale) else decide (2 * (q - p) < scale)

/-! ## checker 4: toExponential / toPrecision digit selection (toExponential step 10.b / toPrecision step 10.a:
"Let e and n be integers such that 10^f ≤ n < 10^(f+1) and for which n × 10^(e−f) − x is as close to zero as
possible. If there are two such sets of e and n, pick the e and n for which n × 10^(e−f) is larger.")
`c = e − f`. -/

def isExp (X fd n : Nat) (c : Int) : Bool :=
  let un := 10 ^ c.toNat
  let vd := decDen c
  let p := n * un * scale       -- v·vd·scale
  let q := X * vd               -- x·vd·scale
  decide (10 ^ fd ≤ n) && decide (n < 10 ^ (fd + 1)) &&
    (if q ≤ p then decide (2 * (p - q) ≤ un * scale) else decide (2 * (q - p) < un * scale)) &&
    -- the largest candidate of the decade below, (10^(f+1) − 1) × 10^(c−1), must not be strictly closer
    (decide (n ≠ 10 ^ fd) || decide (p ≤ q) ||
      decide (10 * p + (10 ^ (fd + 1) - 1) * un * scale ≤ 20 * q))

/-! ## text layer -/

def digitVal (c : Char) : Nat :=
  if '0' ≤ c ∧ c ≤ '9' then c.toNat - '0'.toNat
  else if 'a' ≤ c ∧ c ≤ 'z' then c.toNat - 'a'.toNat + 10
  else if 'A' ≤ c ∧ c ≤ 'Z' then c.toNat - 'A'.toNat + 10
  else 36

/-- Longest prefix of digits valid in radix `r`; returns (digit values, rest). -/
def takeDigits (r : Nat) : List Char → List Nat × List Char
  | [] => ([], [])
  | c :: cs =>
    if digitVal c < r then
      let (ds, rest) := takeDigits r cs
      (digitVal c :: ds, rest)
    else ([], c :: cs)

def natOfDigits (r : Nat) (ds : List Nat) : Nat := ds.foldl (fun a d => a * r + d) 0

def dropZeros : List Nat → List Nat
  | 0 :: ds => dropZeros ds
  | ds => ds

def dropTrailingZeros (ds : List Nat) : List Nat := (dropZeros ds.reverse).reverse

def digitChar (d : Nat) : Char :=
  if d < 10 then Char.ofNat ('0'.toNat + d) else Char.ofNat ('a'.toNat + (d - 10))

def digitsStr (ds : List Nat) : List Char := ds.map digitChar

def decDigitsAux : Nat → Nat → List Nat → List Nat
  | 0, n, acc => n :: acc
  | fuel + 1, n, acc => if n < 10 then n :: acc else decDigitsAux fuel (n / 10) (n % 10 :: acc)

/-- Decimal digits of a Nat, most significant first (`0 ↦ [0]`). -/
def natDigits (n : Nat) : List Nat := decDigitsAux n n []

/-- Scanned decimal literal:  intDigits [. fracDigits] [e [+-] expDigits]. -/
structure DecLit where
  int : List Nat
  frac : List Nat
  hasDot : Bool
  exp : Int
  hasExp : Bool
  rest : List Char

/-- `[. fracDigits]` — returns (fraction digits, saw a dot, rest). -/
def scanFrac (r1 : List Char) : List Nat × Bool × List Char :=
  match r1 with
  | '.' :: r => ((takeDigits 10 r).1, true, (takeDigits 10 r).2)
  | _ => ([], false, r1)

def scanSign (r : List Char) : Int × List Char :=
  match r with
  | '+' :: r' => (1, r')
  | '-' :: r' => (-1, r')
  | _ => (1, r)

/-- `[e [+-] expDigits]` — consumed only when complete; returns (exponent, saw an exponent, rest). -/
def scanExp (r2 : List Char) : Int × Bool × List Char :=
  match r2 with
  | c :: r =>
    if c == 'e' || c == 'E' then
      let sr := scanSign r
      let t := takeDigits 10 sr.2
      if t.1.isEmpty then (0, false, r2) else (sr.1 * ((natOfDigits 10 t.1 : Nat) : Int), true, t.2)
    else (0, false, r2)
  | [] => (0, false, r2)

/-- StrUnsignedDecimalLiteral as a longest-prefix scanner (the exponent part is consumed only when complete).
`none` when there is no digit at all ("5." : the dot is part of the literal; "." alone is not a literal). -/
def scanDec (cs : List Char) : Option DecLit :=
  let t := takeDigits 10 cs
  let f := scanFrac t.2
  if t.1.isEmpty && f.1.isEmpty then none else
  let e := scanExp f.2.2
  some { int := t.1, frac := f.1, hasDot := f.2.1, exp := e.1, hasExp := e.2.1, rest := e.2.2 }

/-- What a piece of numeric text denotes. `huge`/`tiny`: non-zero magnitude ≥ 10^400 / < 10^-400 (far outside
the double range; not expanded to avoid astronomically large powers). -/
inductive Parsed where
  | nan
  | inf (neg : Bool)
  | zero (neg : Bool)
  | huge (neg : Bool)
  | tiny (neg : Bool)
  | rat (neg : Bool) (n d : Nat)

/-- The value of all digits `ds` (most significant first) times 10^e. -/
def denote (neg : Bool) (ds : List Nat) (e : Int) : Parsed :=
  let sig := dropZeros ds
  if sig.isEmpty then .zero neg else
  let p : Int := (sig.length : Nat) + e          -- value ∈ [10^(p-1), 10^p)
  if p > 400 then .huge neg
  else if p < -400 then .tiny neg
  else
    let t := dropTrailingZeros sig
    let e' : Int := e + ((sig.length - t.length : Nat) : Int)
    .rat neg (decNum (natOfDigits 10 t) e') (decDen e')

def DecLit.denote (neg : Bool) (l : DecLit) : Parsed :=
  GojaModel.C12.denote neg (l.int ++ l.frac) (l.exp - (l.frac.length : Nat))

/-- ECMA-262 StrWhiteSpaceChar: WhiteSpace (TAB, VT, FF, ZWNBSP and the Unicode category Zs: SP, NBSP, U+1680,
U+2000–U+200A, U+202F, U+205F, U+3000) and LineTerminator (LF, CR, LS, PS).  U+0085, U+180E, U+200B are not. -/
def isWhite (c : Char) : Bool :=
  let n := c.toNat
  n == 0x09 || n == 0x0a || n == 0x0b || n == 0x0c || n == 0x0d || n == 0x20 || n == 0xa0 || n == 0x1680 ||
  (0x2000 ≤ n && n ≤ 0x200a) || n == 0x2028 || n == 0x2029 || n == 0x202f || n == 0x205f || n == 0x3000 ||
  n == 0xfeff

def trimL : List Char → List Char
  | c :: cs => if isWhite c then trimL cs else c :: cs
  | [] => []

def trim (cs : List Char) : List Char := (trimL (trimL cs).reverse).reverse

def splitSign : List Char → Bool × Bool × List Char     -- (negative, had a sign, rest)
  | '-' :: r => (true, true, r)
  | '+' :: r => (false, true, r)
  | r => (false, false, r)

def infinityChars : List Char := "Infinity".toList

/-- Integer literal digits in radix r denote the integer exactly. -/
def denoteInt (neg : Bool) (r : Nat) (ds : List Nat) : Parsed :=
  let n := natOfDigits r ds
  if n == 0 then .zero neg else .rat neg n 1

/-- `0x` / `0o` / `0b` prefix (either case): the radix and what follows. -/
def radixPrefix : List Char → Option (Nat × List Char)
  | '0' :: x :: r =>
    if x == 'x' || x == 'X' then some (16, r)
    else if x == 'o' || x == 'O' then some (8, r)
    else if x == 'b' || x == 'B' then some (2, r)
    else none
  | _ => none

/-- NonDecimalIntegerLiteral after its prefix: one or more digits of the radix and nothing else. -/
def parseNonDecimal (radix : Nat) (r : List Char) : Parsed :=
  if (takeDigits radix r).1.isEmpty || !(takeDigits radix r).2.isEmpty then .nan
  else denoteInt false radix (takeDigits radix r).1

/-- StrDecimalLiteral body (sign already removed) that must match completely: `Infinity` or a
StrUnsignedDecimalLiteral. -/
def parseDecimalBody (neg : Bool) (body : List Char) : Parsed :=
  if body == infinityChars then .inf neg else
  match scanDec body with
  | none => .nan
  | some l => if l.rest.isEmpty then l.denote neg else .nan

/-- ECMA-262 StringToNumber (StringNumericLiteral grammar, after trimming). -/
def parseNumber (s : List Char) : Parsed :=
  let t := trim s
  if t.isEmpty then .zero false else
  match radixPrefix t with
  | some (radix, r) => parseNonDecimal radix r      -- NonDecimalIntegerLiteral (no sign allowed)
  | none => parseDecimalBody (splitSign t).1 (splitSign t).2.2

/-- The longest prefix of `body` that is `Infinity` or a StrUnsignedDecimalLiteral. -/
def parseFloatBody (neg : Bool) (body : List Char) : Parsed :=
  if infinityChars.isPrefixOf body then .inf neg else
  match scanDec body with
  | none => .nan
  | some l => l.denote neg

/-- parseFloat: longest prefix of the left-trimmed string that is a StrDecimalLiteral. -/
def parseFloatSpec (s : List Char) : Parsed :=
  parseFloatBody (splitSign (trimL s)).1 (splitSign (trimL s)).2.2

/-- parseInt steps 8–10: the radix actually used and the text after an optional `0x`. -/
def parseIntRadix (radix : Int) (body : List Char) : Nat × List Char :=
  let r0 : Nat := if radix == 0 then 10 else radix.toNat
  match (radix == 0 || radix == 16), body with
  | true, '0' :: x :: rest => if x == 'x' || x == 'X' then (16, rest) else (r0, body)
  | _, _ => (r0, body)

/-- parseInt steps 11–16: the longest prefix of radix-R digits; none at all gives NaN. -/
def parseIntDigits (neg : Bool) (R : Nat) (body : List Char) : Parsed :=
  if (takeDigits R body).1.isEmpty then .nan else denoteInt neg R (takeDigits R body).1

/-- parseInt(string, radix) with `radix` already ToInt32'ed. -/
def parseIntSpec (s : List Char) (radix : Int) : Parsed :=
  if radix ≠ 0 ∧ (radix < 2 ∨ radix > 36) then .nan else
  let sb := splitSign (trimL s)
  let rb := parseIntRadix radix sb.2.2
  parseIntDigits sb.1 rb.1 rb.2

/-- NumericLiteral of the source grammar (no sign, no separators, no BigInt suffix, no legacy octal). -/
def parseLiteral (s : List Char) : Parsed :=
  match radixPrefix s with
  | some (radix, r) => parseNonDecimal radix r
  | none =>
    match scanDec s with
    | some l => if l.rest.isEmpty then l.denote false else .nan
    | none => .nan

/-- Does the double `f` agree with what the text denotes?  `zeroSignFree`: accept either sign of a zero result. -/
def Parsed.accepts (p : Parsed) (f : F64) (zeroSignFree : Bool := false) : Bool :=
  match p with
  | .nan => f.isNaN
  | .inf neg => f.isInf && f.neg == neg
  | .zero neg => f.isZero && (zeroSignFree || f.neg == neg)
  | .huge neg => f.isInf && f.neg == neg
  | .tiny neg => f.isZero && (zeroSignFree || f.neg == neg)
  | .rat neg n d =>
    if f.isZero && zeroSignFree then isNearestMag n d 0 else isNearest neg n d f

/-- The bit pattern the text must convert to, computed with the proved rounding function (`none` for NaN, whose
payload is free). -/
def Parsed.expectedBits : Parsed → Option Nat
  | .nan => none
  | .inf neg => some ((if neg then 2 ^ 63 else 0) + infOrd)
  | .zero neg => some (if neg then 2 ^ 63 else 0)
  | .huge neg => some ((if neg then 2 ^ 63 else 0) + infOrd)
  | .tiny neg => some (if neg then 2 ^ 63 else 0)
  | .rat neg n d => some ((if neg then 2 ^ 63 else 0) + roundOrd n d)

/-! ### layout rules -/

def zeros (n : Nat) : List Char := List.replicate n '0'

def expSuffix (e : Int) : List Char :=
  'e' :: (if e < 0 then '-' else '+') :: digitsStr (natDigits e.natAbs)

/-- `d[.ddd]e±E` for digits `ds` and decimal point position `n` (value = 0.ds × 10^n). -/
def expFormat (ds : List Nat) (n : Int) : List Char :=
  match ds with
  | [] => []
  | [d] => digitChar d :: expSuffix (n - 1)
  | d :: rest => digitChar d :: '.' :: (digitsStr rest ++ expSuffix (n - 1))

/-- ECMA-262 Number::toString(x, 10) steps 6–10 for the digits `ds` (k = length) and point position `n`. -/
def ecmaFormat (ds : List Nat) (n : Int) : List Char :=
  let k : Int := (ds.length : Nat)
  if k ≤ n ∧ n ≤ 21 then digitsStr ds ++ zeros (n - k).toNat
  else if 0 < n ∧ n ≤ 21 then digitsStr (ds.take n.toNat) ++ '.' :: digitsStr (ds.drop n.toNat)
  else if -6 < n ∧ n ≤ 0 then '0' :: '.' :: (zeros (-n).toNat ++ digitsStr ds)
  else expFormat ds n

/-- toFixed layout: `N` with `fd` digits after the point. -/
def fixedFormat (N fd : Nat) : List Char :=
  let ds := natDigits N
  let ds := List.replicate (fd + 1 - ds.length) 0 ++ ds
  let ip := ds.take (ds.length - fd)
  if fd == 0 then digitsStr ip else digitsStr ip ++ '.' :: digitsStr (ds.drop (ds.length - fd))

/-- toPrecision layout (steps 10.c–13): `ds` has exactly `p` digits, `e` the exponent of the first digit. -/
def precFormat (ds : List Nat) (e : Int) (p : Nat) : List Char :=
  if e < -6 ∨ e ≥ (p : Int) then expFormat ds (e + 1)
  else if e = (p : Int) - 1 then digitsStr ds
  else if e ≥ 0 then digitsStr (ds.take (e.toNat + 1)) ++ '.' :: digitsStr (ds.drop (e.toNat + 1))
  else '0' :: '.' :: (zeros (-(e + 1)).toNat ++ digitsStr ds)

/-- Read a decimal text produced by a formatter back into (all significant digits incl. trailing zeros, with
leading zeros removed; point position n such that value = 0.d1d2… × 10^n).  `none` if the text is not
a complete unsigned decimal literal or is zero. -/
def readDigits (body : List Char) : Option (List Nat × Int) :=
  match scanDec body with
  | none => none
  | some l =>
    if !l.rest.isEmpty then none else
    let all := l.int ++ l.frac
    let sig := dropZeros all
    if sig.isEmpty then none else
    -- value = all × 10^(exp − |frac|) = 0.sig × 10^(|sig| + exp − |frac|)
    some (sig, (sig.length : Nat) + l.exp - (l.frac.length : Nat))

end GojaModel.C12
