/-
  C12 Tie: the decision structure of goja's number formatting, REGENERATED from /repo on every run by extract/c12.go
  (`GojaModel/Generated/C12_Layout.lean`), must equal what the Lean layout functions transcribe.

  Pinned: the ModeFixed → ModeStandard guard (|x| ≥ 1e21), the per-mode switch that decides exponential notation and
  the minimum digit count (thresholds −5 / 21 / precision), the conditions of the final layout, and the argument
  range checks and (mode, precision) arguments of the four Number.prototype front-ends.  Not pinned: buffer
  manipulation, digit generation (tied by the correspondence run only).
  The second half proves that the Lean layout functions use exactly these constants.
-/
import GojaModel.Generated.C12_Layout
import GojaModel.C12.Lemmas
import GojaModel.C12.Driver

namespace GojaModel.C12.Tie
open GojaModel.C12

def expectedFixedGuard : List String := ["mode==ModeFixed&&(d>=1e21||d<=-1e21)", "mode=ModeStandard"]

def expectedLayoutSwitch : List (String × List String) :=
  [("ModeStandard", ["if decPt<-5||decPt>21", "exponentialNotation=true", "else", "minNDigits=decPt", "end"]),
   ("ModeFixed", ["if precision>=0", "minNDigits=decPt+precision", "else", "minNDigits=decPt", "end"]),
   ("ModeExponential", ["minNDigits=precision", "fallthrough"]),
   ("ModeStandardExponential", ["exponentialNotation=true"]),
   ("ModePrecision", ["minNDigits=precision", "if decPt<-5||decPt>precision", "exponentialNotation=true", "end"])]

def expectedTailConds : List String :=
  ["exponentialNotation", "nDigits!=1", "decPt-1>=0", "decPt!=nDigits", "decPt>0"]

def expectedFrontEnds : List (String × List String × List String) :=
  [("toString", ["radix<2||radix>36", "radix==10"], ["fToStr(num,ftoa.ModeStandard,0)", "ftoa.FToBaseStr(num,radix)"]),
   ("toFixed", ["prec<0||prec>100"], ["fToStr(num,ftoa.ModeFixed,int(prec))"]),
   ("toExponential", ["prec<0||prec>100"],
     ["fToStr(num,ftoa.ModeStandardExponential,0)", "fToStr(num,ftoa.ModeExponential,int(prec+1))"]),
   ("toPrecision", ["prec<1||prec>100"], ["fToStr(num,ftoa.ModePrecision,int(prec))"])]

theorem fixedGuard_ok : Generated.C12.fixedGuard = expectedFixedGuard := by decide
theorem layoutSwitch_ok : Generated.C12.layoutSwitch = expectedLayoutSwitch := by decide
theorem tailConds_ok : Generated.C12.tailConds = expectedTailConds := by decide
theorem frontEnds_ok : Generated.C12.frontEnds = expectedFrontEnds := by decide

/-! ### skeleton of `FToBaseStr` (toString(radix)), transcribed by Radix.lean and proved correct in RadixProps.lean

`fracStep` mirrors the three exit branches (`j1==0&&even`, `j<0||(j==0&&even)`, `j1>0`) and their inner tests in
this order; `fracInit` mirrors `s2 = −E` (`−1` for `E = 0`) `+ bias + p` = `1076 − E` resp. `1075`, `mlo = mhi = 1`,
and in the power-of-two case `s2 += log2P`, `mhi = 1<<log2P = 2`. -/

def expectedRadixConds : List String :=
  ["num<0", "dfloor==float64(ldfloor)", "negative", "negative&&ldfloor==0", "exp==0", "negative", "exp>0", "exp<0",
   "num==dfloor", "s2==0", "-s2>=e",
   "(word1==0)&&((word0&bndry_mask)==0)&&((word0&(exp_mask&(exp_mask<<1)))!=0)", "mlo!=mhi", "delta.Sign()<=0",
   "j1==0&&(word1&1)==0", "j>0", "j<0||(j==0&&((word1&1)==0))", "j1>0", "j1>0", "j1>0"]

def expectedRadixInit : List String :=
  ["s2:=-int((word0>>exp_shift1)&(exp_mask>>exp_shift1))", "s2=-1", "s2+=bias+p", "mlo:=big.NewInt(1)", "mhi:=mlo",
   "s2+=log2P", "mhi=big.NewInt(1<<log2P)"]

def expectedRadixConsts : List String := ["bias=1023", "p=53", "log2P=1"]

theorem radixConds_ok : Generated.C12.radixConds = expectedRadixConds := by decide
theorem radixInit_ok : Generated.C12.radixInit = expectedRadixInit := by decide
theorem radixConsts_ok : Generated.C12.radixConsts = expectedRadixConsts := by decide

/-! ### the Lean layout functions use exactly the pinned constants (goja's `decPt` is the point position `n`) -/

/-- ModeStandard: exponential notation iff `decPt < -5 || decPt > 21`. -/
theorem ecmaFormat_thresholds (ds : List Nat) (n : Int) :
    ((n < -5 ∨ n > 21) → ecmaFormat ds n = expFormat ds n) ∧
    (¬ (n < -5 ∨ n > 21) → ecmaFormat ds n =
      if ((ds.length : Nat) : Int) ≤ n then digitsStr ds ++ zeros (n - ((ds.length : Nat) : Int)).toNat
      else if 0 < n then digitsStr (ds.take n.toNat) ++ '.' :: digitsStr (ds.drop n.toNat)
      else '0' :: '.' :: (zeros (-n).toNat ++ digitsStr ds)) := by
  constructor
  · intro h
    unfold ecmaFormat
    simp only []
    have h1 : ¬ (((ds.length : Nat) : Int) ≤ n ∧ n ≤ 21) := by omega
    have h2 : ¬ (0 < n ∧ n ≤ 21) := by omega
    have h3 : ¬ (-6 < n ∧ n ≤ 0) := by omega
    simp only [h1, h2, h3, if_false]
  · intro h
    unfold ecmaFormat
    simp only []
    by_cases c1 : ((ds.length : Nat) : Int) ≤ n
    · have : ((ds.length : Nat) : Int) ≤ n ∧ n ≤ 21 := ⟨c1, by omega⟩
      simp [this, c1]
    · have n1 : ¬ (((ds.length : Nat) : Int) ≤ n ∧ n ≤ 21) := fun hh => c1 hh.1
      by_cases c2 : 0 < n
      · have : 0 < n ∧ n ≤ 21 := ⟨c2, by omega⟩
        simp [n1, this, c1, c2]
      · have n2 : ¬ (0 < n ∧ n ≤ 21) := fun hh => c2 hh.1
        have : -6 < n ∧ n ≤ 0 := ⟨by omega, by omega⟩
        simp [n1, n2, this, c1, c2]

/-- ModePrecision: exponential notation iff `decPt < -5 || decPt > precision`, with `decPt = e + 1`. -/
theorem precFormat_thresholds (ds : List Nat) (e : Int) (p : Nat) :
    ((e + 1 < -5 ∨ e + 1 > (p : Int)) → precFormat ds e p = expFormat ds (e + 1)) ∧
    (¬ (e + 1 < -5 ∨ e + 1 > (p : Int)) → precFormat ds e p =
      if e = (p : Int) - 1 then digitsStr ds
      else if e ≥ 0 then digitsStr (ds.take (e.toNat + 1)) ++ '.' :: digitsStr (ds.drop (e.toNat + 1))
      else '0' :: '.' :: (zeros (-(e + 1)).toNat ++ digitsStr ds)) := by
  constructor
  · intro h
    unfold precFormat
    have : e < -6 ∨ e ≥ (p : Int) := by omega
    simp only [this, if_true]
  · intro h
    unfold precFormat
    have : ¬ (e < -6 ∨ e ≥ (p : Int)) := by omega
    simp only [this, if_false]

/-- ModeFixed falls back to Number::toString from 10^21 on (the checker's limit is the same constant). -/
theorem fixed_limit : Driver.tenTo21Scaled = 10 ^ 21 * scale := rfl

end GojaModel.C12.Tie
