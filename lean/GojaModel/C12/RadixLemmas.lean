/-
  C12: lemmas about the mechanism model of `ftoa.FToBaseStr` (Radix.lean): positional digits of the integer part,
  the algebraic core, one loop iteration, and the loop invariant.  Core Lean only.
-/
import GojaModel.C12.Radix
import GojaModel.C12.Lemmas

namespace GojaModel.C12

/-! ## integer part -/

theorem radixDigitsAux_value (fuel r n : Nat) (acc : List Nat) :
    natOfDigits r (radixDigitsAux fuel r n acc) = n * r ^ acc.length + natOfDigits r acc := by
  induction fuel generalizing n acc with
  | zero => simp [radixDigitsAux, natOfDigits_cons]
  | succ f ih =>
    simp only [radixDigitsAux]
    split
    · simp [natOfDigits_cons]
    · rw [ih, natOfDigits_cons, List.length_cons, Nat.pow_succ]
      have : n = r * (n / r) + n % r := (Nat.div_add_mod n r).symm
      generalize n / r = a at *
      generalize n % r = b at *
      subst this
      generalize r ^ acc.length = P
      rw [Nat.add_mul, ← Nat.add_assoc]
      congr 1
      rw [Nat.mul_comm r a, Nat.mul_assoc, Nat.mul_comm P r]

/-- The integer part printed by `FToBaseStr` denotes the integer part of the double, in every radix. -/
theorem radixDigits_value (r n : Nat) : natOfDigits r (radixDigits r n) = n := by
  unfold radixDigits
  rw [radixDigitsAux_value]
  simp [natOfDigits]

/-! ## fraction loop: algebraic core -/

theorem frac_E1 (P X ip R A gapLo sc s b0 mlo0 Ft bi : Nat)
    (hX : X = ip * sc + R) (hA : A + gapLo = X)
    (hb : b0 * sc = R * s) (hlo : mlo0 * (2 * sc) = gapLo * s)
    (hinv : b0 * P = Ft * s + bi) :
    (A + X) * P * s + 2 * (sc * (mlo0 * P)) = 2 * ip * sc * P * s + 2 * (sc * (Ft * s)) + 2 * (sc * bi) := by
  grind

theorem frac_E2 (P X ip R C gapHi sc s b0 mhi0 Ft bi : Nat)
    (hX : X = ip * sc + R) (hC : X + gapHi = C)
    (hb : b0 * sc = R * s) (hhi : mhi0 * (2 * sc) = gapHi * s)
    (hinv : b0 * P = Ft * s + bi) :
    (X + C) * P * s = 2 * ip * sc * P * s + 2 * (sc * (Ft * s)) + 2 * (sc * bi) + 2 * (sc * (mhi0 * P)) := by
  grind

theorem frac_EW (P ip sc s Ft D : Nat) :
    2 * (ip * P + (Ft + D)) * sc * s = 2 * ip * sc * P * s + 2 * (sc * (Ft * s)) + 2 * D * (sc * s) := by
  grind

/-- If the last digit is kept the remainder is below half the gap to the previous double; if it is bumped the
overshoot is below half the gap to the next double (ties only for an even fraction field): then the printed value
lies in the rounding interval of the double.  All quantities scaled; see `fracLoop_sound` for their meaning. -/
theorem frac_core (P X ip R A C gapLo gapHi sc s b0 mlo0 mhi0 Ft bi D : Nat) (even : Prop)
    (hX : X = ip * sc + R) (hA : A + gapLo = X) (hC : X + gapHi = C)
    (hb : b0 * sc = R * s) (hlo : mlo0 * (2 * sc) = gapLo * s) (hhi : mhi0 * (2 * sc) = gapHi * s)
    (hinv : b0 * P = Ft * s + bi) (hs : 0 < s) (hsc : 0 < sc) (hP : 0 < P) (hmhi : 0 < mhi0) (hbi : bi < s)
    (hfin : (D = 0 ∧ (bi < mlo0 * P ∨ (bi = mlo0 * P ∧ even))) ∨
            (D = 1 ∧ (s < bi + mhi0 * P ∨ (s = bi + mhi0 * P ∧ even)))) :
    ((A + X) * P < 2 * (ip * P + (Ft + D)) * sc ∨ ((A + X) * P = 2 * (ip * P + (Ft + D)) * sc ∧ even)) ∧
    (2 * (ip * P + (Ft + D)) * sc < (X + C) * P ∨ (2 * (ip * P + (Ft + D)) * sc = (X + C) * P ∧ even)) := by
  have e1 := frac_E1 P X ip R A gapLo sc s b0 mlo0 Ft bi hX hA hb hlo hinv
  have e2 := frac_E2 P X ip R C gapHi sc s b0 mhi0 Ft bi hX hC hb hhi hinv
  have ew := frac_EW P ip sc s Ft D
  have hh : 0 < sc * (mhi0 * P) := Nat.mul_pos hsc (Nat.mul_pos hmhi hP)
  have huv : sc * bi < sc * s := Nat.mul_lt_mul_of_pos_left hbi hsc
  -- transfer the final condition to the scaled atoms
  generalize hU : (A + X) * P * s = U at e1
  generalize hU' : (X + C) * P * s = U' at e2
  generalize hW : 2 * (ip * P + (Ft + D)) * sc * s = W at ew
  have cancel_lt : ∀ a b : Nat, a * s < b * s → a < b := fun a b h => Nat.lt_of_mul_lt_mul_right h
  have cancel_eq : ∀ a b : Nat, a * s = b * s → a = b := fun a b h => Nat.eq_of_mul_eq_mul_right hs h
  rcases hfin with ⟨hD, hc⟩ | ⟨hD, hc⟩
  · subst hD
    simp only [Nat.mul_zero, Nat.zero_mul, Nat.add_zero] at ew
    constructor
    · rcases hc with hc | ⟨hc, hev⟩
      · left
        have : sc * bi < sc * (mlo0 * P) := Nat.mul_lt_mul_of_pos_left hc hsc
        apply cancel_lt; rw [hU, hW]; omega
      · right
        have : sc * bi = sc * (mlo0 * P) := by rw [hc]
        refine ⟨?_, hev⟩
        apply cancel_eq; rw [hU, hW]; omega
    · left
      apply cancel_lt; rw [hU', hW]; omega
  · subst hD
    simp only [Nat.mul_one] at ew
    constructor
    · left
      apply cancel_lt; rw [hU, hW]; omega
    · rcases hc with hc | ⟨hc, hev⟩
      · left
        have : sc * s < sc * (bi + mhi0 * P) := Nat.mul_lt_mul_of_pos_left hc hsc
        rw [Nat.mul_add] at this
        apply cancel_lt; rw [hU', hW]; omega
      · right
        have : sc * s = sc * (bi + mhi0 * P) := by rw [← hc]
        rw [Nat.mul_add] at this
        refine ⟨?_, hev⟩
        apply cancel_eq; rw [hU', hW]; omega

/-- What one iteration of the loop does (branch conditions of ftobasestr.go:113-141 turned into arithmetic facts). -/
theorem fracStep_spec (r : Nat) (even : Bool) (st : FracState) (hs : 0 < st.s) (hmlo : 0 < st.mlo * r) :
    (fracStep r even st).2.2 = { b := st.b * r % st.s, s := st.s, mlo := st.mlo * r, mhi := st.mhi * r } ∧
    ((fracStep r even st).2.1 = false → (fracStep r even st).1 = st.b * r / st.s) ∧
    ((fracStep r even st).2.1 = true →
      ((fracStep r even st).1 = st.b * r / st.s ∧
        (st.b * r % st.s < st.mlo * r ∨ (st.b * r % st.s = st.mlo * r ∧ even = true))) ∨
      ((fracStep r even st).1 = st.b * r / st.s + 1 ∧
        (st.s < st.b * r % st.s + st.mhi * r ∨ (st.s = st.b * r % st.s + st.mhi * r ∧ even = true)))) := by
  have hb' : st.b * r % st.s < st.s := Nat.mod_lt _ hs
  unfold fracStep
  simp only []
  generalize st.b * r % st.s = b' at *
  generalize st.b * r / st.s = dg at *
  generalize st.mlo * r = mlo' at *
  generalize st.mhi * r = mhi' at *
  generalize st.s = s at *
  by_cases h1 : (decide (mhi' < s) && (b' == s - mhi') && even) = true
  · simp only [h1, if_true]
    simp only [Bool.and_eq_true, decide_eq_true_eq, beq_iff_eq] at h1
    obtain ⟨⟨h1a, h1b⟩, hev⟩ := h1
    refine ⟨(by first | rfl | trivial), by simp, fun _ => ?_⟩
    by_cases hm : mlo' < b'
    · right; simp only [hm, if_true]; exact ⟨(by first | rfl | trivial), Or.inr ⟨by omega, hev⟩⟩
    · left; simp only [hm, if_false]
      refine ⟨(by first | rfl | trivial), ?_⟩
      by_cases he : b' = mlo'
      · exact Or.inr ⟨he, hev⟩
      · left; omega
  · have h1' : (decide (mhi' < s) && (b' == s - mhi') && even) = false := by
      cases hh : (decide (mhi' < s) && (b' == s - mhi') && even) with
      | true => exact absurd hh h1
      | false => rfl
    simp only [h1', Bool.false_eq_true, if_false]
    by_cases h2 : (decide (b' < mlo') || (b' == mlo' && even)) = true
    · simp only [h2, if_true]
      simp only [Bool.or_eq_true, Bool.and_eq_true, decide_eq_true_eq, beq_iff_eq] at h2
      refine ⟨(by first | rfl | trivial), by simp, fun _ => ?_⟩
      by_cases h3 : ((decide (s ≤ mhi') || decide (s - mhi' < b')) && decide (s < 2 * b')) = true
      · right; simp only [h3, if_true]
        simp only [Bool.or_eq_true, Bool.and_eq_true, decide_eq_true_eq] at h3
        refine ⟨(by first | rfl | trivial), Or.inl ?_⟩
        omega
      · left; simp only [h3, if_false]
        exact ⟨(by first | rfl | trivial), h2⟩
    · have h2' : (decide (b' < mlo') || (b' == mlo' && even)) = false := by
        cases hh : (decide (b' < mlo') || (b' == mlo' && even)) with
        | true => exact absurd hh h2
        | false => rfl
      simp only [h2', Bool.false_eq_true, if_false]
      simp only [Bool.or_eq_false_iff, decide_eq_false_iff_not, Bool.and_eq_false_imp, beq_iff_eq] at h2'
      by_cases h3 : (decide (s ≤ mhi') || decide (s - mhi' < b')) = true
      · simp only [h3, if_true]
        simp only [Bool.or_eq_true, decide_eq_true_eq] at h3
        refine ⟨(by first | rfl | trivial), by simp, fun _ => Or.inr ⟨(by first | rfl | trivial), Or.inl ?_⟩⟩
        omega
      · simp only [h3, if_false]
        exact ⟨(by first | rfl | trivial), fun _ => (by first | rfl | trivial), by simp⟩


theorem natOfDigits_snoc (r : Nat) (acc : List Nat) (d : Nat) :
    natOfDigits r (acc ++ [d]) = natOfDigits r acc * r + d := by
  rw [natOfDigits_append]
  simp [natOfDigits]

/-- **Loop invariant and exit condition of the fraction loop.**  Started in a state where `b/s` is the fraction still
to print (scaled by `radix^i`), whatever the loop returns is `Ft + D` with: `b0·radix^n = Ft·s + bi` (the digits are
the radix expansion of the fraction, `bi/s` the unprinted remainder), and the last digit was either kept (`D = 0`)
with the remainder below `mlo0·radix^n` or bumped (`D = 1`) with the overshoot below `mhi0·radix^n` (equality only for
an even fraction field). -/
theorem fracLoop_sound (r : Nat) (hr : 0 < r) (even : Bool) (s b0 mlo0 mhi0 : Nat) (hs : 0 < s) (hmlo : 0 < mlo0) :
    ∀ (fuel : Nat) (st : FracState) (acc out : List Nat),
      st.s = s → st.mlo = mlo0 * r ^ acc.length → st.mhi = mhi0 * r ^ acc.length → st.b < s →
      b0 * r ^ acc.length = natOfDigits r acc * s + st.b →
      fracLoop r even fuel st acc = some out →
      ∃ Ft bi D, natOfDigits r out = Ft + D ∧ b0 * r ^ out.length = Ft * s + bi ∧ bi < s ∧ 0 < out.length ∧
        ((D = 0 ∧ (bi < mlo0 * r ^ out.length ∨ (bi = mlo0 * r ^ out.length ∧ even = true))) ∨
         (D = 1 ∧ (s < bi + mhi0 * r ^ out.length ∨ (s = bi + mhi0 * r ^ out.length ∧ even = true)))) := by
  intro fuel
  induction fuel with
  | zero => intro st acc out _ _ _ _ _ h; simp [fracLoop] at h
  | succ fuel ih =>
    intro st acc out hss hml hmh hb hinv h
    have hs' : 0 < st.s := by rw [hss]; exact hs
    have hP : 0 < r ^ acc.length := Nat.pow_pos hr
    have hmlo' : 0 < st.mlo * r := by rw [hml]; exact Nat.mul_pos (Nat.mul_pos hmlo hP) hr
    obtain ⟨sp1, sp2, sp3⟩ := fracStep_spec r even st hs' hmlo'
    have hdm : st.b * r = st.b * r / st.s * st.s + st.b * r % st.s := by
      have := Nat.div_add_mod (st.b * r) st.s
      rw [Nat.mul_comm st.s] at this; exact this.symm
    have hbm : st.b * r % st.s < s := by rw [← hss]; exact Nat.mod_lt _ hs'
    -- invariant for one more digit
    have hinv' : b0 * r ^ (acc.length + 1) =
        (natOfDigits r acc * r + st.b * r / st.s) * s + st.b * r % st.s := by
      rw [Nat.pow_succ, ← Nat.mul_assoc, hinv, Nat.add_mul, Nat.add_mul]
      rw [hss] at hdm ⊢
      generalize st.b * r / s = dg at *
      generalize st.b * r % s = bm at *
      generalize natOfDigits r acc = F at *
      have : F * s * r = F * r * s := by ac_rfl
      omega
    have hml' : st.mlo * r = mlo0 * r ^ (acc.length + 1) := by rw [hml, Nat.pow_succ, Nat.mul_assoc]
    have hmh' : st.mhi * r = mhi0 * r ^ (acc.length + 1) := by rw [hmh, Nat.pow_succ, Nat.mul_assoc]
    simp only [fracLoop] at h
    by_cases hd : (fracStep r even st).2.1 = true
    · simp only [hd, if_true, Option.some.injEq] at h
      have hlen : out.length = acc.length + 1 := by rw [← h]; simp
      rcases sp3 hd with ⟨hdig, hc⟩ | ⟨hdig, hc⟩
      · refine ⟨natOfDigits r acc * r + st.b * r / st.s, st.b * r % st.s, 0, ?_, ?_, hbm, by omega, Or.inl ⟨rfl, ?_⟩⟩
        · rw [← h, natOfDigits_snoc, hdig]; rfl
        · rw [hlen]; exact hinv'
        · rw [hlen, ← hml']; exact hc
      · refine ⟨natOfDigits r acc * r + st.b * r / st.s, st.b * r % st.s, 1, ?_, ?_, hbm, by omega, Or.inr ⟨rfl, ?_⟩⟩
        · rw [← h, natOfDigits_snoc, hdig]; omega
        · rw [hlen]; exact hinv'
        · rw [hlen, ← hmh', ← hss]; exact hc
    · have hd' : (fracStep r even st).2.1 = false := by
        cases hh : (fracStep r even st).2.1 with
        | true => exact absurd hh hd
        | false => rfl
      simp only [hd', Bool.false_eq_true, if_false] at h
      have hdig := sp2 hd'
      apply ih (fracStep r even st).2.2 (acc ++ [(fracStep r even st).1]) out
      · rw [sp1]; exact hss
      · rw [sp1]; simp only [List.length_append, List.length_cons, List.length_nil]; exact hml'
      · rw [sp1]; simp only [List.length_append, List.length_cons, List.length_nil]; exact hmh'
      · rw [sp1]; exact hbm
      · rw [sp1, natOfDigits_snoc, hdig]
        simp only [List.length_append, List.length_cons, List.length_nil]
        exact hinv'
      · exact h

end GojaModel.C12
