/-
  C12 property theorems: soundness of the certifying checkers of Model.lean.

  Reading guide.  A finite non-negative double with ordinal `k` (position in the ordered bit patterns) has the
  exact value `magOrd k / scale` (`scale = 2^1074`).  A non-negative rational is a pair `n / d`.  All comparisons of
  rationals are written cross-multiplied in Nat, e.g.
      |n/d − magOrd k/scale| ≤ |n/d − magOrd j/scale|   ⟺   absDiff (n*scale) (magOrd k*d) ≤ absDiff (n*scale) (magOrd j*d)
  (both sides multiplied by `d * scale > 0`), so no rational-number library is needed and the statements are
  about exactly the integers the compiled checkers compute with.
-/
import GojaModel.C12.Lemmas

namespace GojaModel.C12

/-- **Round-to-nearest, ties-to-even.**  If the checker accepts `(n/d, k)` then the double with ordinal `k` is at
least as close to `n/d` as EVERY other point `j` of the double grid (all finite doubles, and the overflow sentinel
2^1024 = `magOrd infOrd` that IEEE 754 uses to define rounding to ±Infinity), and if some other point is exactly
as close (a tie) then `k` is even, i.e. has an even fraction field.  Covers subnormals (the grid is uniform there)
and overflow (`k = infOrd` is accepted iff `n/d` ≥ (maxFinite + 2^1024)/2). -/
theorem isNearest_sound (n d k : Nat) (h : isNearestMag n d k = true) :
    ∀ j, j ≤ infOrd →
      absDiff (n * scale) (magOrd k * d) ≤ absDiff (n * scale) (magOrd j * d) ∧
      (absDiff (n * scale) (magOrd k * d) = absDiff (n * scale) (magOrd j * d) → j ≠ k → k % 2 = 0) := by
  intro j hj
  simp only [isNearestMag, Bool.and_eq_true, decide_eq_true_eq] at h
  obtain ⟨⟨⟨hd, hk⟩, hl⟩, hu⟩ := h
  have e2 : 2 * n * scale = 2 * (n * scale) := Nat.mul_assoc _ _ _
  by_cases hjk : j = k
  · subst hjk; exact ⟨Nat.le_refl _, fun _ hne => absurd rfl hne⟩
  by_cases hlt : j < k
  · -- competitor below: use the lower half of the rounding interval
    have hk0 : k ≠ 0 := by omega
    have hs := lowerOK_spec hl hk0
    have hJA : magOrd j * d ≤ magOrd (k - 1) * d := Nat.mul_le_mul_right _ (magOrd_mono (by omega))
    have hAB : magOrd (k - 1) * d < magOrd k * d :=
      Nat.mul_lt_mul_of_pos_right (magOrd_strictMono (by omega)) hd
    rw [Nat.add_mul, e2] at hs
    generalize n * scale = x at hs ⊢
    generalize magOrd j * d = c at hJA ⊢
    generalize magOrd (k - 1) * d = a at hJA hAB hs
    generalize magOrd k * d = b at hAB hs ⊢
    unfold absDiff
    omega
  · -- competitor above: use the upper half
    have hgt : k < j := by omega
    have hki : k ≠ infOrd := by omega
    have hs := upperOK_spec hu hki
    have hJA : magOrd (k + 1) * d ≤ magOrd j * d := Nat.mul_le_mul_right _ (magOrd_mono (by omega))
    have hAB : magOrd k * d < magOrd (k + 1) * d :=
      Nat.mul_lt_mul_of_pos_right (magOrd_lt_succ k) hd
    rw [Nat.add_mul, e2] at hs
    generalize n * scale = x at hs ⊢
    generalize magOrd j * d = c at hJA ⊢
    generalize magOrd (k + 1) * d = a at hJA hAB hs
    generalize magOrd k * d = b at hAB hs ⊢
    unfold absDiff
    omega

/-- The accepted result is unique: two ordinals accepted for the same rational coincide
(so "the double nearest to the value denoted" is well defined by the checker). -/
theorem isNearest_unique (n d j k : Nat) (hj : isNearestMag n d j = true) (hk : isNearestMag n d k = true) :
    j = k := by
  have hjI : j ≤ infOrd := by
    simp only [isNearestMag, Bool.and_eq_true, decide_eq_true_eq] at hj; exact hj.1.1.2
  have hkI : k ≤ infOrd := by
    simp only [isNearestMag, Bool.and_eq_true, decide_eq_true_eq] at hk; exact hk.1.1.2
  have hd : 0 < d := by
    simp only [isNearestMag, Bool.and_eq_true, decide_eq_true_eq] at hk; exact hk.1.1.1
  have a := isNearest_sound n d j hj k hkI
  have b := isNearest_sound n d k hk j hjI
  by_cases e : j = k
  · exact e
  · exfalso
    have heq : absDiff (n * scale) (magOrd j * d) = absDiff (n * scale) (magOrd k * d) := Nat.le_antisymm a.1 b.1
    have ej := a.2 heq (fun h => e h.symm)
    have ek := b.2 heq.symm e
    -- both even and equidistant on opposite sides: they are two apart at least, but then the point between is closer
    by_cases hlt : j < k
    · have hm : j + 1 < k := by omega
      have c := isNearest_sound n d j hj (j + 1) (by omega)
      have c' := isNearest_sound n d k hk (j + 1) (by omega)
      have h1 : magOrd j * d < magOrd (j + 1) * d := Nat.mul_lt_mul_of_pos_right (magOrd_lt_succ j) hd
      have h2 : magOrd (j + 1) * d < magOrd k * d := Nat.mul_lt_mul_of_pos_right (magOrd_strictMono hm) hd
      have c1 := c.1; have c2 := c'.1
      generalize n * scale = x at heq c1 c2
      generalize magOrd j * d = p at heq c1 h1
      generalize magOrd (j + 1) * d = q at c1 c2 h1 h2
      generalize magOrd k * d = r at heq c2 h2
      unfold absDiff at heq c1 c2
      omega
    · have hlt' : k < j := by omega
      have hm : k + 1 < j := by omega
      have c := isNearest_sound n d k hk (k + 1) (by omega)
      have c' := isNearest_sound n d j hj (k + 1) (by omega)
      have h1 : magOrd k * d < magOrd (k + 1) * d := Nat.mul_lt_mul_of_pos_right (magOrd_lt_succ k) hd
      have h2 : magOrd (k + 1) * d < magOrd j * d := Nat.mul_lt_mul_of_pos_right (magOrd_strictMono hm) hd
      have c1 := c.1; have c2 := c'.1
      generalize n * scale = x at heq c1 c2
      generalize magOrd k * d = p at heq c1 h1
      generalize magOrd (k + 1) * d = q at c1 c2 h1 h2
      generalize magOrd j * d = r at heq c2 h2
      unfold absDiff at heq c1 c2
      omega

/-- **toFixed** (ECMA-262 Number.prototype.toFixed step 9.a).  If the checker accepts `N` for the magnitude
`X/scale` and `fd` fraction digits, then `N / 10^fd − x` is as close to zero as for any other integer `N'`, and
among two equally close integers `N` is the larger one. -/
theorem fixed_sound (X fd N : Nat) (h : isFixed X fd N = true) :
    ∀ N' : Nat,
      absDiff (N * scale) (X * 10 ^ fd) ≤ absDiff (N' * scale) (X * 10 ^ fd) ∧
      (absDiff (N * scale) (X * 10 ^ fd) = absDiff (N' * scale) (X * 10 ^ fd) → N' ≤ N) := by
  intro N'
  unfold isFixed at h
  simp only at h
  have hcases : N' < N ∨ N' = N ∨ N < N' := by omega
  have hsc : 0 < scale := scale_pos
  rcases hcases with hlt | heq | hgt
  · have h1 : (N' + 1) * scale ≤ N * scale := Nat.mul_le_mul_right _ hlt
    rw [Nat.add_mul, Nat.one_mul] at h1
    generalize N * scale = p at h h1 ⊢
    generalize N' * scale = p' at h1 ⊢
    generalize X * 10 ^ fd = q at h ⊢
    generalize scale = D at h h1 hsc ⊢
    unfold absDiff
    split at h <;> simp only [decide_eq_true_eq] at h <;> omega
  · subst heq; exact ⟨Nat.le_refl _, fun _ => Nat.le_refl _⟩
  · have h1 : (N + 1) * scale ≤ N' * scale := Nat.mul_le_mul_right _ hgt
    rw [Nat.add_mul, Nat.one_mul] at h1
    generalize N * scale = p at h h1 ⊢
    generalize N' * scale = p' at h1 ⊢
    generalize X * 10 ^ fd = q at h ⊢
    generalize scale = D at h h1 hsc ⊢
    unfold absDiff
    split at h <;> simp only [decide_eq_true_eq] at h <;> omega

/-- **Shortest round-trip digits** (ECMA-262 Number::toString step 5: "k is as small as possible").
If the checker accepts the k digits `s` with exponent `c` (value `s × 10^c`) for the double with ordinal `o`, then
the decimal parses back to that double (`roundsTo`, certified by `isNearest_sound`), `s` has exactly `k` digits, and
NO decimal `s' × 10^c'` with fewer than `k` significant digits — for any exponent `c'` whatsoever — parses back to it. -/
theorem shortest_sound (o s k : Nat) (c : Int) (h : isShortest o s k c = true) :
    roundsTo s c o = true ∧ 10 ^ (k - 1) ≤ s ∧ s < 10 ^ k ∧
      ∀ (s' : Nat) (c' : Int), 0 < s' → s' < 10 ^ (k - 1) → roundsTo s' c' o = false := by
  simp only [isShortest, Bool.and_eq_true, decide_eq_true_eq, Bool.or_eq_true, beq_iff_eq,
    Bool.not_eq_true'] at h
  obtain ⟨⟨⟨⟨hk1, hlo⟩, hhi⟩, hrt⟩, hmin⟩ := h
  refine ⟨hrt, hlo, hhi, ?_⟩
  intro s' c' hpos hs'
  rcases hmin with hk | ⟨hA, hB⟩
  · subst hk; simp at hs'; omega
  · have hk2 : 2 ≤ k := by
      by_cases e : k = 1
      · subst e; simp at hs'; omega
      · omega
    -- suppose it did round to o
    cases hr : roundsTo s' c' o with
    | false => rfl
    | true =>
      exfalso
      simp only [roundsTo, isNearestMag, Bool.and_eq_true, decide_eq_true_eq] at hr
      obtain ⟨⟨_, hl⟩, hu⟩ := hr
      have ha : 10 ^ (k - 2) ≤ s / 10 := by
        have e2 : 10 ^ (k - 1) = 10 ^ (k - 2) * 10 := by rw [← Nat.pow_succ]; congr 1; omega
        rw [e2] at hlo
        generalize 10 ^ (k - 2) = Q at hlo ⊢
        omega
      let M : Nat := (-c').toNat + (-(c + 1)).toNat
      have hM1 : (-c').toNat ≤ M := Nat.le_add_right _ _
      have hM2 : (-(c + 1)).toNat ≤ M := Nat.le_add_left _ _
      rcases no_short_between s' (s / 10) k ((M : Int) + c').toNat ((M : Int) + (c + 1)).toNat hk2 hs' ha with hle | hge
      · have := dec_le_of_common s' (s / 10) c' (c + 1) M hM1 hM2 hle
        have hf := lowerOK_false_mono (decDen_pos _) (decDen_pos _) this hA
        rw [hf] at hl; cases hl
      · have := dec_le_of_common (s / 10 + 1) s' (c + 1) c' M hM2 hM1 hge
        have hf := upperOK_false_mono (decDen_pos _) (decDen_pos _) this hB
        rw [hf] at hu; cases hu

/-- **"closest among the shortest", same-exponent part** (Number::toString note 2).  An accepted digit string
`s` is at least as close to the double as EVERY other decimal `s' × 10^c` with the same exponent of the last digit
that also parses back to the double (only those compete).
`_partial`: k-digit competitors of the decade below (ten times finer grid; they exist only when `s = 10^(k−1)`) are
handled by the last executable test of `isClosest`, which this theorem does not cover. -/
theorem closest_sound_partial (o s k : Nat) (c : Int) (h : isClosest o s k c = true)
    (hr : roundsTo s c o = true) :
    (∀ s' : Nat, s < s' → roundsTo s' c o = true → distTo o s c ≤ distTo o s' c) ∧
    (10 ^ (k - 1) < s → ∀ s' : Nat, s' < s → roundsTo s' c o = true → distTo o s c ≤ distTo o s' c) := by
  simp only [isClosest, Bool.and_eq_true, Bool.or_eq_true, Bool.not_eq_true', decide_eq_true_eq] at h
  obtain ⟨hup, hdn⟩ := h
  have e : ∀ t : Nat, decNum t c * scale = t * (10 ^ c.toNat * scale) := fun t => by
    unfold decNum; exact Nat.mul_assoc _ _ _
  have hD : 0 < 10 ^ c.toNat * scale := Nat.mul_pos (Nat.pow_pos (by decide)) scale_pos
  constructor
  · intro s' hlt hr'
    have hmid : roundsTo (s + 1) c o = true := roundsTo_between (Nat.le_succ s) hlt hr hr'
    rcases hup with hf | hd
    · rw [hmid] at hf; cases hf
    · unfold distTo at hd ⊢
      rw [e, e] at hd
      rw [e, e]
      have h1 : (s + 1) * (10 ^ c.toNat * scale) ≤ s' * (10 ^ c.toNat * scale) := Nat.mul_le_mul_right _ hlt
      rw [Nat.add_mul, Nat.one_mul] at h1 hd
      generalize s * (10 ^ c.toNat * scale) = p at hd h1 ⊢
      generalize s' * (10 ^ c.toNat * scale) = p' at h1 ⊢
      generalize 10 ^ c.toNat * scale = D at hd h1 hD
      generalize magOrd o * decDen c = q at hd ⊢
      unfold absDiff at *
      omega
  · intro hbig s' hlt hr'
    rw [if_pos hbig] at hdn
    simp only [Bool.or_eq_true, Bool.not_eq_true', decide_eq_true_eq] at hdn
    have hmid : roundsTo (s - 1) c o = true := roundsTo_between (by omega) (Nat.sub_le s 1) hr' hr
    rcases hdn with hf | hd
    · rw [hmid] at hf; cases hf
    · unfold distTo at hd ⊢
      rw [e, e] at hd
      rw [e, e]
      have hs1 : s = (s - 1) + 1 := by omega
      have h1 : s' * (10 ^ c.toNat * scale) ≤ (s - 1) * (10 ^ c.toNat * scale) := Nat.mul_le_mul_right _ (by omega)
      have h2 : s * (10 ^ c.toNat * scale) = (s - 1) * (10 ^ c.toNat * scale) + (10 ^ c.toNat * scale) := by
        conv => lhs; rw [hs1]
        rw [Nat.add_mul, Nat.one_mul]
      generalize s * (10 ^ c.toNat * scale) = p at hd h2 ⊢
      generalize (s - 1) * (10 ^ c.toNat * scale) = p1 at hd h1 h2
      generalize s' * (10 ^ c.toNat * scale) = p' at h1 ⊢
      generalize 10 ^ c.toNat * scale = D at h2 hD
      generalize magOrd o * decDen c = q at hd ⊢
      unfold absDiff at *
      omega

/-- **toExponential / toPrecision digit selection, same-exponent part** (toExponential step 10.b, toPrecision
step 10.a).  If the checker accepts `n` (with `fd+1` digits) and exponent `c = e − fd`, then `n` has exactly `fd+1`
digits, `n × 10^c − x` is as close to zero as for any other integer `n'` at the same exponent, and of two equally
close ones `n` is the larger.  `_partial`: candidates `(n', e')` with another exponent `e'` are excluded by the
executable boundary test at the end of `isExp` (the largest candidate of the decade below must not be closer);
that part is not covered by this theorem. -/
theorem exp_sound_partial (X fd n : Nat) (c : Int) (h : isExp X fd n c = true) :
    10 ^ fd ≤ n ∧ n < 10 ^ (fd + 1) ∧
    ∀ n' : Nat,
      absDiff (n * (10 ^ c.toNat * scale)) (X * decDen c) ≤ absDiff (n' * (10 ^ c.toNat * scale)) (X * decDen c) ∧
      (absDiff (n * (10 ^ c.toNat * scale)) (X * decDen c) = absDiff (n' * (10 ^ c.toNat * scale)) (X * decDen c)
        → n' ≤ n) := by
  unfold isExp at h
  simp only [Bool.and_eq_true, decide_eq_true_eq] at h
  obtain ⟨⟨⟨hlo, hhi⟩, hmain⟩, _⟩ := h
  refine ⟨hlo, hhi, ?_⟩
  intro n'
  have e : ∀ t : Nat, t * 10 ^ c.toNat * scale = t * (10 ^ c.toNat * scale) := fun t => Nat.mul_assoc _ _ _
  rw [e] at hmain
  have hD : 0 < 10 ^ c.toNat * scale := Nat.mul_pos (Nat.pow_pos (by decide)) scale_pos
  generalize 10 ^ c.toNat * scale = D at hmain hD ⊢
  generalize X * decDen c = q at hmain ⊢
  have hcases : n' < n ∨ n' = n ∨ n < n' := by omega
  rcases hcases with hlt | heq | hgt
  · have h1 : (n' + 1) * D ≤ n * D := Nat.mul_le_mul_right _ hlt
    rw [Nat.add_mul, Nat.one_mul] at h1
    generalize n * D = p at hmain h1 ⊢
    generalize n' * D = p' at h1 ⊢
    unfold absDiff
    split at hmain <;> simp only [decide_eq_true_eq] at hmain <;> omega
  · subst heq; exact ⟨Nat.le_refl _, fun _ => Nat.le_refl _⟩
  · have h1 : (n + 1) * D ≤ n' * D := Nat.mul_le_mul_right _ hgt
    rw [Nat.add_mul, Nat.one_mul] at h1
    generalize n * D = p at hmain h1 ⊢
    generalize n' * D = p' at h1 ⊢
    unfold absDiff
    split at hmain <;> simp only [decide_eq_true_eq] at hmain <;> omega

/-- **toString(radix) parses back.**  The digit string `ip . fp` in radix `r` denotes
`(value(ip)·r^|fp| + value(fp)) / r^|fp|` (positional notation, `natOfDigits_append`); if the checker accepts it
for the double with ordinal `k`, that value rounds to the double (conclusion of `isNearest_sound`). -/
theorem radix_sound (r : Nat) (ip fp : List Nat) (k : Nat)
    (h : isNearestMag (natOfDigits r (ip ++ fp)) (r ^ fp.length) k = true) :
    natOfDigits r (ip ++ fp) = natOfDigits r ip * r ^ fp.length + natOfDigits r fp ∧
    ∀ j, j ≤ infOrd →
      absDiff (natOfDigits r (ip ++ fp) * scale) (magOrd k * r ^ fp.length)
        ≤ absDiff (natOfDigits r (ip ++ fp) * scale) (magOrd j * r ^ fp.length) ∧
      (absDiff (natOfDigits r (ip ++ fp) * scale) (magOrd k * r ^ fp.length)
        = absDiff (natOfDigits r (ip ++ fp) * scale) (magOrd j * r ^ fp.length) → j ≠ k → k % 2 = 0) :=
  ⟨natOfDigits_append r ip fp, isNearest_sound _ _ _ h⟩

/-- **String → Number.**  If the text denotes the rational `(-1)^neg · n/d` and the acceptance test passes for the
double `f`, then `f` is not NaN, carries the sign of the text, and its magnitude is the nearest point of the
double grid, ties to even (overflow to ±Infinity and underflow to ±0 included). -/
theorem parse_accepts_sound (neg : Bool) (n d : Nat) (f : F64)
    (h : (Parsed.rat neg n d).accepts f false = true) :
    f.neg = neg ∧ f.isNaN = false ∧
    ∀ j, j ≤ infOrd →
      absDiff (n * scale) (magOrd f.ord * d) ≤ absDiff (n * scale) (magOrd j * d) ∧
      (absDiff (n * scale) (magOrd f.ord * d) = absDiff (n * scale) (magOrd j * d) → j ≠ f.ord → f.ord % 2 = 0) := by
  simp only [Parsed.accepts, Bool.and_false, Bool.false_eq_true, if_false, isNearest, Bool.and_eq_true,
    beq_iff_eq, Bool.not_eq_true'] at h
  exact ⟨h.1.1, h.1.2, isNearest_sound _ _ _ h.2⟩

/-- The grid of doubles is strictly increasing in the ordered bit pattern (needed by all of the above). -/
theorem value_strictMono {j k : Nat} (h : j < k) : magOrd j < magOrd k := magOrd_strictMono h

/-- **Property-level claim (partial).**  Every conversion output that the driver's checkers accept is certified
against the specification by the theorems above: nearest/ties-to-even for text → number, round-trip + minimal
digit count for String(x), correct rounding with ties up for toFixed.
`_partial` because (1) universality over all 2^64 inputs × digit counts × radices × strings is SAMPLED by the
correspondence run, not proved — there is no model of goja's dtoa/Grisu digit generators; (2) `exp_sound_partial`
and `closest_sound_partial` cover same-exponent competitors only; (3) the text layer (grammar, layout functions)
is executable specification, not theorem. -/
theorem dtoa_certified_partial :
    (∀ n d k, isNearestMag n d k = true → ∀ j, j ≤ infOrd →
        absDiff (n * scale) (magOrd k * d) ≤ absDiff (n * scale) (magOrd j * d)) ∧
    (∀ o s k c, isShortest o s k c = true →
        roundsTo s c o = true ∧ ∀ (s' : Nat) (c' : Int), 0 < s' → s' < 10 ^ (k - 1) → roundsTo s' c' o = false) ∧
    (∀ X fd N, isFixed X fd N = true → ∀ N' : Nat,
        absDiff (N * scale) (X * 10 ^ fd) ≤ absDiff (N' * scale) (X * 10 ^ fd)) :=
  ⟨fun n d k h j hj => (isNearest_sound n d k h j hj).1,
   fun o s k c h => ⟨(shortest_sound o s k c h).1, (shortest_sound o s k c h).2.2.2⟩,
   fun X fd N h N' => (fixed_sound X fd N h N').1⟩

/-! ### the hypotheses are satisfiable (tests on literals, not proofs of the property) -/
section NonVacuity
set_option exponentiation.threshold 3000
-- 0.1 = 0x3FB999999999999A: 1/10 rounds to it, "1" with exponent −1 is its shortest digit string
example : isNearestMag 1 10 (F64.ofBits 0x3FB999999999999A).ord = true := by decide
example : isNearestMag 1 10 (F64.ofBits 0x3FB999999999999B).ord = false := by decide
example : isShortest (F64.ofBits 0x3FB999999999999A).ord 1 1 (-1) = true := by decide
-- 2^53 + 1 is a tie between 2^53 (even) and 2^53 + 2 (odd): only the even one is accepted
example : isNearestMag 9007199254740993 1 (F64.ofBits 0x4340000000000000).ord = true := by decide
example : isNearestMag 9007199254740993 1 (F64.ofBits 0x4340000000000001).ord = false := by decide
-- overflow threshold 2^1024 − 2^970 rounds to +Infinity, one less does not
example : isNearestMag (2 ^ 1024 - 2 ^ 970) 1 infOrd = true := by decide
example : isNearestMag (2 ^ 1024 - 2 ^ 970 - 1) 1 infOrd = false := by decide
-- 5e-324 is the shortest form of the smallest subnormal; 4e-324 parses back too but "5" is closer
example : isShortest 1 5 1 (-324) = true := by decide
-- (2.5).toFixed(0) is "3" (tie → larger), not "2"
example : isFixed (F64.ofBits 0x4004000000000000).mag 0 3 = true := by decide
example : isFixed (F64.ofBits 0x4004000000000000).mag 0 2 = false := by decide
-- (2.5).toExponential(0) is "3e+0"
example : isExp (F64.ofBits 0x4004000000000000).mag 0 3 0 = true := by decide
example : isExp (F64.ofBits 0x4004000000000000).mag 0 2 0 = false := by decide
end NonVacuity

end GojaModel.C12
