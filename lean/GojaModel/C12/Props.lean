/-
  C12 property theorems: soundness of the certifying checkers of Model.lean.

  Reading guide.  A finite non-negative double with ordinal `k` (position in the ordered bit patterns) has the
  exact value `magOrd k / scale` (`scale = 2^1074`).  A non-negative rational is a pair `n / d`.  All comparisons of
  rationals are written cross-multiplied in Nat, e.g.
      |n/d − magOrd k/scale| ≤ |n/d − magOrd j/scale|   ⟺   absDiff (n*scale) (magOrd k*d) ≤ absDiff (n*scale) (magOrd j*d)
  (both sides multiplied by `d * scale > 0`), so no rational-number library is needed and the statements are
  about exactly the integers the compiled checkers compute with.
-/
import GojaModel.C12.Lemmas
import GojaModel.C12.Grammar
import GojaModel.C12.RadixProps

namespace GojaModel.C12

/-- **Round-to-nearest, ties-to-even.**  If the checker accepts `(n/d, k)` then the double with ordinal `k` is at
least as close to `n/d` as EVERY other point `j` of the double grid (all finite doubles, and the overflow sentinel
2^1024 = `magOrd infOrd` that IEEE 754 uses to define rounding to ±Infinity), and if some other point is exactly
as close (a tie) then `k` is even, i.e. has an even fraction field.  Covers subnormals (the grid is uniform there)
and overflow (`k = infOrd` is accepted iff `n/d` ≥ (maxFinite + 2^1024)/2). -/
theorem isNearest_sound (n d k : Nat) (h : isNearestMag n d k = true) :
    ∀ j, j ≤ infOrd →
      absDiff (n * scale) (magOrd k * d) ≤ absDiff (n * scale) (magOrd j * d) ∧
      (absDiff (n * scale) (magOrd k * d) = absDiff (n * scale) (magOrd j * d) → j ≠ k → k % 2 = 0) := by
  intro j hj
  simp only [isNearestMag, Bool.and_eq_true, decide_eq_true_eq] at h
  obtain ⟨⟨⟨hd, hk⟩, hl⟩, hu⟩ := h
  have e2 : 2 * n * scale = 2 * (n * scale) := Nat.mul_assoc _ _ _
  by_cases hjk : j = k
  · subst hjk; exact ⟨Nat.le_refl _, fun _ hne => absurd rfl hne⟩
  by_cases hlt : j < k
  · -- competitor below: use the lower half of the rounding interval
    have hk0 : k ≠ 0 := by omega
    have hs := lowerOK_spec hl hk0
    have hJA : magOrd j * d ≤ magOrd (k - 1) * d := Nat.mul_le_mul_right _ (magOrd_mono (by omega))
    have hAB : magOrd (k - 1) * d < magOrd k * d :=
      Nat.mul_lt_mul_of_pos_right (magOrd_strictMono (by omega)) hd
    rw [Nat.add_mul, e2] at hs
    generalize n * scale = x at hs ⊢
    generalize magOrd j * d = c at hJA ⊢
    generalize magOrd (k - 1) * d = a at hJA hAB hs
    generalize magOrd k * d = b at hAB hs ⊢
    unfold absDiff
    omega
  · -- competitor above: use the upper half
    have hgt : k < j := by omega
    have hki : k ≠ infOrd := by omega
    have hs := upperOK_spec hu hki
    have hJA : magOrd (k + 1) * d ≤ magOrd j * d := Nat.mul_le_mul_right _ (magOrd_mono (by omega))
    have hAB : magOrd k * d < magOrd (k + 1) * d :=
      Nat.mul_lt_mul_of_pos_right (magOrd_lt_succ k) hd
    rw [Nat.add_mul, e2] at hs
    generalize n * scale = x at hs ⊢
    generalize magOrd j * d = c at hJA ⊢
    generalize magOrd (k + 1) * d = a at hJA hAB hs
    generalize magOrd k * d = b at hAB hs ⊢
    unfold absDiff
    omega

/-- The accepted result is unique: two ordinals accepted for the same rational coincide
(so "the double nearest to the value denoted" is well defined by the checker). -/
theorem isNearest_unique (n d j k : Nat) (hj : isNearestMag n d j = true) (hk : isNearestMag n d k = true) :
    j = k := by
  have hjI : j ≤ infOrd := by
    simp only [isNearestMag, Bool.and_eq_true, decide_eq_true_eq] at hj; exact hj.1.1.2
  have hkI : k ≤ infOrd := by
    simp only [isNearestMag, Bool.and_eq_true, decide_eq_true_eq] at hk; exact hk.1.1.2
  have hd : 0 < d := by
    simp only [isNearestMag, Bool.and_eq_true, decide_eq_true_eq] at hk; exact hk.1.1.1
  have a := isNearest_sound n d j hj k hkI
  have b := isNearest_sound n d k hk j hjI
  by_cases e : j = k
  · exact e
  · exfalso
    have heq : absDiff (n * scale) (magOrd j * d) = absDiff (n * scale) (magOrd k * d) := Nat.le_antisymm a.1 b.1
    have ej := a.2 heq (fun h => e h.symm)
    have ek := b.2 heq.symm e
    -- both even and equidistant on opposite sides: they are two apart at least, but then the point between is closer
    by_cases hlt : j < k
    · have hm : j + 1 < k := by omega
      have c := isNearest_sound n d j hj (j + 1) (by omega)
      have c' := isNearest_sound n d k hk (j + 1) (by omega)
      have h1 : magOrd j * d < magOrd (j + 1) * d := Nat.mul_lt_mul_of_pos_right (magOrd_lt_succ j) hd
      have h2 : magOrd (j + 1) * d < magOrd k * d := Nat.mul_lt_mul_of_pos_right (magOrd_strictMono hm) hd
      have c1 := c.1; have c2 := c'.1
      generalize n * scale = x at heq c1 c2
      generalize magOrd j * d = p at heq c1 h1
      generalize magOrd (j + 1) * d = q at c1 c2 h1 h2
      generalize magOrd k * d = r at heq c2 h2
      unfold absDiff at heq c1 c2
      omega
    · have hlt' : k < j := by omega
      have hm : k + 1 < j := by omega
      have c := isNearest_sound n d k hk (k + 1) (by omega)
      have c' := isNearest_sound n d j hj (k + 1) (by omega)
      have h1 : magOrd k * d < magOrd (k + 1) * d := Nat.mul_lt_mul_of_pos_right (magOrd_lt_succ k) hd
      have h2 : magOrd (k + 1) * d < magOrd j * d := Nat.mul_lt_mul_of_pos_right (magOrd_strictMono hm) hd
      have c1 := c.1; have c2 := c'.1
      generalize n * scale = x at heq c1 c2
      generalize magOrd k * d = p at heq c1 h1
      generalize magOrd (k + 1) * d = q at c1 c2 h1 h2
      generalize magOrd j * d = r at heq c2 h2
      unfold absDiff at heq c1 c2
      omega

/-- **toFixed** (ECMA-262 Number.prototype.toFixed step 9.a).  If the checker accepts `N` for the magnitude
`X/scale` and `fd` fraction digits, then `N / 10^fd − x` is as close to zero as for any other integer `N'`, and
among two equally close integers `N` is the larger one. -/
theorem fixed_sound (X fd N : Nat) (h : isFixed X fd N = true) :
    ∀ N' : Nat,
      absDiff (N * scale) (X * 10 ^ fd) ≤ absDiff (N' * scale) (X * 10 ^ fd) ∧
      (absDiff (N * scale) (X * 10 ^ fd) = absDiff (N' * scale) (X * 10 ^ fd) → N' ≤ N) := by
  intro N'
  unfold isFixed at h
  simp only at h
  have hcases : N' < N ∨ N' = N ∨ N < N' := by omega
  have hsc : 0 < scale := scale_pos
  rcases hcases with hlt | heq | hgt
  · have h1 : (N' + 1) * scale ≤ N * scale := Nat.mul_le_mul_right _ hlt
    rw [Nat.add_mul, Nat.one_mul] at h1
    generalize N * scale = p at h h1 ⊢
    generalize N' * scale = p' at h1 ⊢
    generalize X * 10 ^ fd = q at h ⊢
    generalize scale = D at h h1 hsc ⊢
    unfold absDiff
    split at h <;> simp only [decide_eq_true_eq] at h <;> omega
  · subst heq; exact ⟨Nat.le_refl _, fun _ => Nat.le_refl _⟩
  · have h1 : (N + 1) * scale ≤ N' * scale := Nat.mul_le_mul_right _ hgt
    rw [Nat.add_mul, Nat.one_mul] at h1
    generalize N * scale = p at h h1 ⊢
    generalize N' * scale = p' at h1 ⊢
    generalize X * 10 ^ fd = q at h ⊢
    generalize scale = D at h h1 hsc ⊢
    unfold absDiff
    split at h <;> simp only [decide_eq_true_eq] at h <;> omega

/-- **Shortest round-trip digits** (ECMA-262 Number::toString step 5: "k is as small as possible").
If the checker accepts the k digits `s` with exponent `c` (value `s × 10^c`) for the double with ordinal `o`, then
the decimal parses back to that double (`roundsTo`, certified by `isNearest_sound`), `s` has exactly `k` digits, and
NO decimal `s' × 10^c'` with fewer than `k` significant digits — for any exponent `c'` whatsoever — parses back to it. -/
theorem shortest_sound (o s k : Nat) (c : Int) (h : isShortest o s k c = true) :
    roundsTo s c o = true ∧ 10 ^ (k - 1) ≤ s ∧ s < 10 ^ k ∧
      ∀ (s' : Nat) (c' : Int), 0 < s' → s' < 10 ^ (k - 1) → roundsTo s' c' o = false := by
  simp only [isShortest, Bool.and_eq_true, decide_eq_true_eq, Bool.or_eq_true, beq_iff_eq,
    Bool.not_eq_true'] at h
  obtain ⟨⟨⟨⟨hk1, hlo⟩, hhi⟩, hrt⟩, hmin⟩ := h
  refine ⟨hrt, hlo, hhi, ?_⟩
  intro s' c' hpos hs'
  rcases hmin with hk | ⟨hA, hB⟩
  · subst hk; simp at hs'; omega
  · have hk2 : 2 ≤ k := by
      by_cases e : k = 1
      · subst e; simp at hs'; omega
      · omega
    -- suppose it did round to o
    cases hr : roundsTo s' c' o with
    | false => rfl
    | true =>
      exfalso
      simp only [roundsTo, isNearestMag, Bool.and_eq_true, decide_eq_true_eq] at hr
      obtain ⟨⟨_, hl⟩, hu⟩ := hr
      have ha : 10 ^ (k - 2) ≤ s / 10 := by
        have e2 : 10 ^ (k - 1) = 10 ^ (k - 2) * 10 := by rw [← Nat.pow_succ]; congr 1; omega
        rw [e2] at hlo
        generalize 10 ^ (k - 2) = Q at hlo ⊢
        omega
      let M : Nat := (-c').toNat + (-(c + 1)).toNat
      have hM1 : (-c').toNat ≤ M := Nat.le_add_right _ _
      have hM2 : (-(c + 1)).toNat ≤ M := Nat.le_add_left _ _
      rcases no_short_between s' (s / 10) k ((M : Int) + c').toNat ((M : Int) + (c + 1)).toNat hk2 hs' ha with hle | hge
      · have := dec_le_of_common s' (s / 10) c' (c + 1) M hM1 hM2 hle
        have hf := lowerOK_false_mono (decDen_pos _) (decDen_pos _) this hA
        rw [hf] at hl; cases hl
      · have := dec_le_of_common (s / 10 + 1) s' (c + 1) c' M hM2 hM1 hge
        have hf := upperOK_false_mono (decDen_pos _) (decDen_pos _) this hB
        rw [hf] at hu; cases hu

/-- **"closest among the shortest", all competitors** (Number::toString note 2).  Let `(s, k, c)` be accepted for the
double with ordinal `o`.  (1) Every k-digit decimal `s' × 10^(c+j)`, `j ≥ 0`, that parses back is the same-grid value
`(s'·10^j) × 10^c`, and `s` is at least as close.  (2) Every decimal `s' × 10^(c−j)`, `j ≥ 1`, with at most `k` digits
that parses back: on the grid of exponent `c − j` the accepted value is `(s·10^j)`, and it is at least as close.
Every integer exponent is `c + j` or `c − j`, so all k-digit competitors are covered. -/
theorem closest_sound (o s k : Nat) (c : Int) (hs : isShortest o s k c = true) (h : isClosest o s k c = true) :
    (∀ s' j : Nat, 10 ^ (k - 1) ≤ s' → roundsTo s' (c + j) o = true →
        distTo o s c ≤ distTo o (s' * 10 ^ j) c) ∧
    (∀ s' j : Nat, 1 ≤ j → s' < 10 ^ k → roundsTo s' (c - j) o = true →
        distTo o (s * 10 ^ j) (c - j) ≤ distTo o s' (c - j)) := by
  obtain ⟨hr, hlo, hhi, _⟩ := shortest_sound o s k c hs
  have hk1 : 1 ≤ k := by
    simp only [isShortest, Bool.and_eq_true, decide_eq_true_eq] at hs; exact hs.1.1.1.1
  have hcp := closest_same_grid o s k c h hr
  constructor
  · intro s' j hs' hr'
    have hr2 : roundsTo (s' * 10 ^ j) c o = true := by
      have := roundsTo_shift s' (c + j) j o
      have e : c + (j : Int) - (j : Int) = c := by omega
      rw [e] at this; rw [this]; exact hr'
    have hge : s' ≤ s' * 10 ^ j := Nat.le_mul_of_pos_right _ (Nat.pow_pos (by decide))
    rcases Nat.lt_trichotomy s (s' * 10 ^ j) with hlt | heq | hgt
    · exact hcp.1 _ hlt hr2
    · rw [← heq]; exact Nat.le_refl _
    · exact hcp.2 (by omega) _ hgt hr2
  · intro s' j hj hs' hr'
    have hrJ : roundsTo (s * 10 ^ j) (c - j) o = true := by rw [roundsTo_shift]; exact hr
    have hJ : 10 ^ j = 10 * 10 ^ (j - 1) := by
      have : j = (j - 1) + 1 := by omega
      conv => lhs; rw [this]
      rw [Nat.pow_succ, Nat.mul_comm]
    have hJ' : 0 < 10 ^ (j - 1) := Nat.pow_pos (by decide)
    have hK : 10 ^ k = 10 ^ (k - 1) * 10 := by
      have : k = (k - 1) + 1 := by omega
      conv => lhs; rw [this]
      rw [Nat.pow_succ]
    simp only [isClosest, Bool.and_eq_true] at h
    obtain ⟨_, hdn⟩ := h
    by_cases hbig : 10 ^ (k - 1) < s
    · -- neighbour below on the same grid: (s − 1) × 10^c
      rw [if_pos hbig] at hdn
      simp only [Bool.or_eq_true, Bool.not_eq_true', decide_eq_true_eq] at hdn
      have hle : s' ≤ (s - 1) * 10 ^ j := by
        have : 10 ^ (k - 1) * 10 ≤ (s - 1) * 10 ^ j := by
          rw [hJ]
          calc 10 ^ (k - 1) * 10 ≤ (s - 1) * 10 := Nat.mul_le_mul_right _ (by omega)
            _ ≤ (s - 1) * (10 * 10 ^ (j - 1)) := by
              rw [← Nat.mul_assoc]; exact Nat.le_mul_of_pos_right _ hJ'
        omega
      have hlt : (s - 1) * 10 ^ j < s * 10 ^ j :=
        Nat.mul_lt_mul_of_pos_right (by omega) (Nat.pow_pos (by decide))
      have hmid : roundsTo ((s - 1) * 10 ^ j) (c - j) o = true :=
        roundsTo_between hle (Nat.le_of_lt hlt) hr' hrJ
      rw [roundsTo_shift] at hmid
      rcases hdn with hf | hd
      · rw [hmid] at hf; cases hf
      · exact dist_below hle hlt (distTo_le_shift j hd)
    · -- s = 10^(k−1): the largest k-digit decimal of the decade below, (10^k − 1) × 10^(c−1)
      rw [if_neg hbig] at hdn
      simp only [Bool.or_eq_true, Bool.not_eq_true', decide_eq_true_eq] at hdn
      have hs0 : s = 10 ^ (k - 1) := by omega
      have ec : c - 1 - ((j - 1 : Nat) : Int) = c - j := by omega
      have hle : s' ≤ (10 ^ k - 1) * 10 ^ (j - 1) := by
        have : 10 ^ k - 1 ≤ (10 ^ k - 1) * 10 ^ (j - 1) := Nat.le_mul_of_pos_right _ hJ'
        omega
      have hlt : (10 ^ k - 1) * 10 ^ (j - 1) < s * 10 ^ j := by
        rw [hJ, hs0, ← Nat.mul_assoc, ← hK]
        apply Nat.mul_lt_mul_of_pos_right _ hJ'
        have : 0 < 10 ^ k := Nat.pow_pos (by decide)
        omega
      have hmid : roundsTo ((10 ^ k - 1) * 10 ^ (j - 1)) (c - j) o = true :=
        roundsTo_between hle (Nat.le_of_lt hlt) hr' hrJ
      have hsh := roundsTo_shift (10 ^ k - 1) (c - 1) (j - 1) o
      rw [ec] at hsh
      rw [hsh] at hmid
      rcases hdn with hf | hd
      · rw [hmid] at hf; cases hf
      · have hd2 := distTo_le_shift (j - 1) hd
        rw [ec] at hd2
        have e10 : 10 * s * 10 ^ (j - 1) = s * 10 ^ j := by rw [hJ]; ac_rfl
        rw [e10] at hd2
        exact dist_below hle hlt hd2

/-- **toExponential / toPrecision digit selection, all competitors.**  Write `W = 10^c⁺·scale` (one unit of the last
digit, scaled) and `q = X·decDen c` (the double, scaled): the accepted candidate is `n·W`.
(1) Every candidate whose last-digit exponent is `c + j` (`j ≥ 0`, any `n'`) is the same-grid value `n'·10^j·W`.
(2) Every candidate with `fd+1` digits whose last-digit exponent is `c − j` (`j ≥ 1`) is `n'·W / 10^j`; both sides are
multiplied by `10^j`.  In both cases the accepted candidate is at least as close to the double, and on a tie it is the
larger of the two (ECMA-262 toExponential step 10.b / toPrecision step 10.a: "pick the e and n for which n × 10^(e−f)
is larger").  Every integer exponent is `c + j` or `c − j`, so this covers all pairs (n', e'). -/
theorem exp_sound (X fd n : Nat) (c : Int) (h : isExp X fd n c = true) :
    10 ^ fd ≤ n ∧ n < 10 ^ (fd + 1) ∧
    (∀ n' j : Nat,
      absDiff (n * (10 ^ c.toNat * scale)) (X * decDen c)
        ≤ absDiff (n' * 10 ^ j * (10 ^ c.toNat * scale)) (X * decDen c) ∧
      (absDiff (n * (10 ^ c.toNat * scale)) (X * decDen c)
        = absDiff (n' * 10 ^ j * (10 ^ c.toNat * scale)) (X * decDen c) → n' * 10 ^ j ≤ n)) ∧
    (∀ n' j : Nat, 1 ≤ j → 10 ^ fd ≤ n' → n' < 10 ^ (fd + 1) →
      absDiff (n * (10 ^ c.toNat * scale) * 10 ^ j) (X * decDen c * 10 ^ j)
        ≤ absDiff (n' * (10 ^ c.toNat * scale)) (X * decDen c * 10 ^ j) ∧
      (absDiff (n * (10 ^ c.toNat * scale) * 10 ^ j) (X * decDen c * 10 ^ j)
        = absDiff (n' * (10 ^ c.toNat * scale)) (X * decDen c * 10 ^ j) →
          n' * (10 ^ c.toNat * scale) ≤ n * (10 ^ c.toNat * scale) * 10 ^ j)) := by
  have hp := exp_same_grid X fd n c h
  refine ⟨hp.1, hp.2.1, fun n' j => hp.2.2 (n' * 10 ^ j), ?_⟩
  intro n' j hj hlo' hhi'
  unfold isExp at h
  simp only [Bool.and_eq_true, decide_eq_true_eq, Bool.or_eq_true] at h
  obtain ⟨⟨⟨hlo, hhi⟩, hmain⟩, hbd⟩ := h
  have e : ∀ t : Nat, t * 10 ^ c.toNat * scale = t * (10 ^ c.toNat * scale) := fun t => Nat.mul_assoc _ _ _
  simp only [e] at hmain hbd
  have hW : 0 < 10 ^ c.toNat * scale := Nat.mul_pos (Nat.pow_pos (by decide)) scale_pos
  generalize 10 ^ c.toNat * scale = W at hmain hbd hW ⊢
  generalize X * decDen c = q at hmain hbd ⊢
  have hL : 10 ^ (fd + 1) = 10 * 10 ^ fd := by rw [Nat.pow_succ, Nat.mul_comm]
  rw [hL] at hhi hhi' hbd
  generalize 10 ^ fd = L at hlo hhi hlo' hhi' hbd
  -- J = 10^j = 10 * J'
  have hJ : 10 ^ j = 10 * 10 ^ (j - 1) := by
    have : j = (j - 1) + 1 := by omega
    conv => lhs; rw [this]
    rw [Nat.pow_succ, Nat.mul_comm]
  have hJ' : 0 < 10 ^ (j - 1) := Nat.pow_pos (by decide)
  rw [hJ]
  generalize 10 ^ (j - 1) = J' at hJ' ⊢
  have hJpos : 0 < 10 * J' := by omega
  obtain ⟨hm1, hm2⟩ := scale_cond hJpos hmain
  -- atoms
  have a1 : n' * W + W ≤ 10 * (L * W) := by
    have : (n' + 1) * W ≤ 10 * L * W := Nat.mul_le_mul_right _ (by omega)
    rw [Nat.add_mul, Nat.one_mul, Nat.mul_assoc] at this; exact this
  have a2 : L * W ≤ L * W * J' := Nat.le_mul_of_pos_right _ hJ'
  have a3 : L * W * (10 * J') ≤ n * W * (10 * J') :=
    Nat.mul_le_mul_right _ (Nat.mul_le_mul_right _ hlo)
  have a3' : L * W * (10 * J') = 10 * (L * W * J') := by
    rw [Nat.mul_comm 10 J', ← Nat.mul_assoc, Nat.mul_comm]
  have a4 : n ≠ L → L * W * (10 * J') + W * (10 * J') ≤ n * W * (10 * J') := by
    intro hne
    have : (L + 1) * W * (10 * J') ≤ n * W * (10 * J') :=
      Nat.mul_le_mul_right _ (Nat.mul_le_mul_right _ (by omega))
    rw [Nat.add_mul, Nat.add_mul, Nat.one_mul] at this; exact this
  have a5 : (10 * L - 1) * W ≤ (10 * L - 1) * W * J' := Nat.le_mul_of_pos_right _ hJ'
  have a6 : n' * W ≤ (10 * L - 1) * W := Nat.mul_le_mul_right _ (by omega)
  -- boundary condition scaled by J'
  have hbd' : n ≠ L ∨ n * W * (10 * J') ≤ q * (10 * J') ∨
      n * W * (10 * J') + (10 * L - 1) * W * J' ≤ 2 * (q * (10 * J')) := by
    rcases hbd with (h1 | h2) | h3
    · left; exact h1
    · right; left; exact Nat.mul_le_mul_right _ h2
    · right; right
      have := Nat.mul_le_mul_right J' h3
      have e1 : (10 * (n * W) + (10 * L - 1) * W) * J' = n * W * (10 * J') + (10 * L - 1) * W * J' := by
        rw [Nat.add_mul]; congr 1; ac_rfl
      have e2 : 20 * q * J' = 2 * (q * (10 * J')) := by
        have : (20:Nat) = 2 * 10 := rfl
        rw [this]; ac_rfl
      rw [e1, e2] at this; exact this
  generalize n * W * (10 * J') = A at *
  generalize q * (10 * J') = QJ at *
  generalize n' * W = T at *
  generalize W * (10 * J') = WJ at *
  generalize L * W * J' = B at *
  generalize (10 * L - 1) * W * J' = E at *
  generalize (10 * L - 1) * W = E0 at *
  generalize L * W = LW at *
  have hA : QJ ≤ A ∨ A < QJ := by omega
  unfold absDiff
  by_cases hne : n = L
  · rcases hbd' with h1 | h2 | h3
    · exact absurd hne h1
    · rcases hA with hA | hA
      · have := hm1 hA; omega
      · have := hm2 hA; omega
    · rcases hA with hA | hA
      · have := hm1 hA; omega
      · have := hm2 hA; omega
  · have := a4 hne
    rcases hA with hA | hA
    · have := hm1 hA; omega
    · have := hm2 hA; omega

/-- **A proved rounding function**: decimal/rational → ordinal of the nearest double, ties to even. -/
theorem roundOrd_isNearest (n d : Nat) (hd : 0 < d) : isNearestMag n d (roundOrd n d) = true := by
  have h0 : lowerOK n d 0 = true := by simp [lowerOK]
  have hs := bisect_spec n d 64 0 (infOrd + 1) (by omega) (by have := infOrd_lt; omega) (Nat.le_refl _) h0 (Or.inl rfl)
  unfold roundOrd
  generalize bisect n d 64 0 (infOrd + 1) = k at hs
  obtain ⟨h1, h2, h3⟩ := hs
  simp only [isNearestMag, Bool.and_eq_true, decide_eq_true_eq]
  refine ⟨⟨⟨hd, h2⟩, h1⟩, ?_⟩
  rcases h3 with h | h
  · subst h; simp [upperOK]
  · by_cases hk : k = infOrd
    · subst hk; simp [upperOK]
    · exact upperOK_of_lowerOK_succ_false h

/-- …and it is complete: whatever the acceptance predicate accepts IS the value of the rounding function, so
"the checker accepts (n/d, k)" and "k = roundOrd n d" are the same statement. -/
theorem roundOrd_complete (n d k : Nat) (h : isNearestMag n d k = true) : k = roundOrd n d := by
  have hd : 0 < d := by
    simp only [isNearestMag, Bool.and_eq_true, decide_eq_true_eq] at h; exact h.1.1.1
  exact isNearest_unique n d k (roundOrd n d) h (roundOrd_isNearest n d hd)

/-- **toString(radix) parses back.**  The digit string `ip . fp` in radix `r` denotes
`(value(ip)·r^|fp| + value(fp)) / r^|fp|` (positional notation, `natOfDigits_append`); if the checker accepts it
for the double with ordinal `k`, that value rounds to the double (conclusion of `isNearest_sound`). -/
theorem radix_sound (r : Nat) (ip fp : List Nat) (k : Nat)
    (h : isNearestMag (natOfDigits r (ip ++ fp)) (r ^ fp.length) k = true) :
    natOfDigits r (ip ++ fp) = natOfDigits r ip * r ^ fp.length + natOfDigits r fp ∧
    ∀ j, j ≤ infOrd →
      absDiff (natOfDigits r (ip ++ fp) * scale) (magOrd k * r ^ fp.length)
        ≤ absDiff (natOfDigits r (ip ++ fp) * scale) (magOrd j * r ^ fp.length) ∧
      (absDiff (natOfDigits r (ip ++ fp) * scale) (magOrd k * r ^ fp.length)
        = absDiff (natOfDigits r (ip ++ fp) * scale) (magOrd j * r ^ fp.length) → j ≠ k → k % 2 = 0) :=
  ⟨natOfDigits_append r ip fp, isNearest_sound _ _ _ h⟩

/-- **String → Number.**  If the text denotes the rational `(-1)^neg · n/d` and the acceptance test passes for the
double `f`, then `f` is not NaN, carries the sign of the text, and its magnitude is the nearest point of the
double grid, ties to even (overflow to ±Infinity and underflow to ±0 included). -/
theorem parse_accepts_sound (neg : Bool) (n d : Nat) (f : F64)
    (h : (Parsed.rat neg n d).accepts f false = true) :
    f.neg = neg ∧ f.isNaN = false ∧
    ∀ j, j ≤ infOrd →
      absDiff (n * scale) (magOrd f.ord * d) ≤ absDiff (n * scale) (magOrd j * d) ∧
      (absDiff (n * scale) (magOrd f.ord * d) = absDiff (n * scale) (magOrd j * d) → j ≠ f.ord → f.ord % 2 = 0) := by
  simp only [Parsed.accepts, Bool.and_false, Bool.false_eq_true, if_false, isNearest, Bool.and_eq_true,
    beq_iff_eq, Bool.not_eq_true'] at h
  exact ⟨h.1.1, h.1.2, isNearest_sound _ _ _ h.2⟩

/-- **The layout function is value-faithful** (Number::toString steps 6–10 read back).  For digits `x :: xs`
(all < 10, leading digit non-zero) and any point position `n`, reading the text produced by `ecmaFormat` with the
driver's reader gives back the same digits — followed by `m` zeros in the pure-integer layout, which denote the same
number — and the same point position `n`.  Covers all four layouts and the exponent suffix. -/
theorem ecmaFormat_read (x : Nat) (xs : List Nat) (n : Int) (hx : x ≠ 0) (hd : ∀ d ∈ x :: xs, d < 10) :
    ∃ m, readDigits (ecmaFormat (x :: xs) n) = some ((x :: xs) ++ List.replicate m 0, n) := by
  unfold ecmaFormat
  simp only []
  split
  · -- digits followed by n − k zeros
    rename_i hc
    refine ⟨(n - ((x :: xs).length : Nat)).toNat, ?_⟩
    generalize hm : (n - ((x :: xs).length : Nat)).toNat = m
    have hbody : digitsStr (x :: xs) ++ zeros m = digitsStr ((x :: xs) ++ List.replicate m 0) ++ [] := by
      rw [zeros_eq, digitsStr_append, List.append_nil]
    rw [hbody]
    have hsc := scanDec_nodot ((x :: xs) ++ List.replicate m 0) [] 0 false
      (all_lt_append hd (all_lt_replicate m)) (by simp) trivial scanFrac_nil scanExp_nil
    have := readDigits_of hsc rfl ((x :: xs) ++ List.replicate m 0)
      (by simp only [List.append_nil, List.cons_append]; exact dropZeros_cons _ hx) (by simp)
    rw [this]
    simp only [List.length_append, List.length_replicate, List.length_nil, List.length_cons] at *
    congr 2
    omega
  · split
    · -- d1…dn . dn+1…dk
      rename_i hc1 hc2
      refine ⟨0, ?_⟩
      have hA : ∀ d ∈ (x :: xs).take n.toNat, d < 10 := fun d hm => hd d (List.mem_of_mem_take hm)
      have hB : ∀ d ∈ (x :: xs).drop n.toNat, d < 10 := fun d hm => hd d (List.mem_of_mem_drop hm)
      have hpos : 0 < n.toNat := by omega
      have hAne : ((x :: xs).take n.toNat).isEmpty = false := by
        cases hn : n.toNat with
        | zero => omega
        | succ i => simp
      have hsc := scanDec_dot ((x :: xs).take n.toNat) ((x :: xs).drop n.toNat) [] 0 false hA hB hAne trivial scanExp_nil
      rw [List.append_nil] at hsc
      have := readDigits_of hsc rfl (x :: xs)
        (by simp only [List.take_append_drop]; exact dropZeros_cons _ hx) (by simp)
      rw [this]
      simp only [List.replicate_zero, List.append_nil, List.length_drop, List.length_cons] at *
      congr 2
      omega
    · split
      · -- 0.000d1…dk
        rename_i hc1 hc2 hc3
        refine ⟨0, ?_⟩
        generalize hz : (-n).toNat = z
        have hbody : ('0' :: '.' :: (zeros z ++ digitsStr (x :: xs)))
            = digitsStr [0] ++ '.' :: (digitsStr (List.replicate z 0 ++ (x :: xs)) ++ []) := by
          rw [zeros_eq, digitsStr_append, List.append_nil]; rfl
        rw [hbody]
        have hsc := scanDec_dot [0] (List.replicate z 0 ++ (x :: xs)) [] 0 false (by simp)
          (all_lt_append (all_lt_replicate z) hd) (by simp) trivial scanExp_nil
        have := readDigits_of hsc rfl (x :: xs)
          (by
            show dropZeros ([0] ++ (List.replicate z 0 ++ (x :: xs))) = x :: xs
            rw [show [0] ++ (List.replicate z 0 ++ (x :: xs)) = List.replicate (z + 1) 0 ++ (x :: xs) by
              simp [List.replicate_succ]]
            rw [dropZeros_replicate]; exact dropZeros_cons _ hx)
          (by simp)
        rw [this]
        simp only [List.replicate_zero, List.append_nil, List.length_append, List.length_replicate,
          List.length_cons] at *
        congr 2
        omega
      · -- exponent notation
        rename_i hc1 hc2 hc3
        refine ⟨0, ?_⟩
        unfold expFormat
        cases xs with
        | nil =>
          show readDigits (digitsStr [x] ++ expSuffix (n - 1)) = _
          have hsc := scanDec_nodot [x] (expSuffix (n - 1)) (n - 1) true hd (by simp)
            (stops_expSuffix _) (scanFrac_expSuffix _) (scanExp_expSuffix _)
          have := readDigits_of hsc rfl [x] (by simp only [List.append_nil]; exact dropZeros_cons _ hx) (by simp)
          rw [this]
          simp only [List.replicate_zero, List.append_nil, List.length_cons, List.length_nil]
          congr 2
          omega
        | cons y ys =>
          show readDigits (digitsStr [x] ++ '.' :: (digitsStr (y :: ys) ++ expSuffix (n - 1))) = _
          have hsc := scanDec_dot [x] (y :: ys) (expSuffix (n - 1)) (n - 1) true
            (fun d hm => hd d (by simp at hm; simp [hm]))
            (fun d hm => hd d (List.mem_cons_of_mem _ hm)) (by simp) (stops_expSuffix _) (scanExp_expSuffix _)
          have := readDigits_of hsc rfl (x :: y :: ys) (by exact dropZeros_cons _ hx) (by simp)
          rw [this]
          simp only [List.replicate_zero, List.append_nil, List.length_cons]
          congr 2
          omega

/-- **The toFixed layout is value-faithful**: the text `fixedFormat N fd` scans as a complete decimal literal without
exponent, with exactly `fd` fraction digits, whose digits (integer part followed by fraction part) denote `N` — i.e.
the text denotes `N / 10^fd`, the number the checker `isFixed` certifies. -/
theorem fixedFormat_read (N fd : Nat) :
    ∃ l, scanDec (fixedFormat N fd) = some l ∧ l.rest = [] ∧ l.hasExp = false ∧ l.frac.length = fd ∧
      natOfDigits 10 (l.int ++ l.frac) = N := by
  unfold fixedFormat
  simp only []
  generalize hP : List.replicate (fd + 1 - (natDigits N).length) 0 ++ natDigits N = P
  have hPlt : ∀ d ∈ P, d < 10 := by
    rw [← hP]; exact all_lt_append (all_lt_replicate _) (natDigits_lt N)
  have hPlen : fd + 1 ≤ P.length := by
    rw [← hP, List.length_append, List.length_replicate]; omega
  have hPval : natOfDigits 10 P = N := by
    rw [← hP, natOfDigits_append, natOfDigits_replicate_zero, natDigits_value]; simp
  have hA : ∀ d ∈ P.take (P.length - fd), d < 10 := fun d hm => hPlt d (List.mem_of_mem_take hm)
  have hB : ∀ d ∈ P.drop (P.length - fd), d < 10 := fun d hm => hPlt d (List.mem_of_mem_drop hm)
  have hAne : (P.take (P.length - fd)).isEmpty = false := by
    cases hP' : P with
    | nil => rw [hP'] at hPlen; simp at hPlen
    | cons x xs =>
      have : 0 < (x :: xs).length - fd := by rw [← hP']; omega
      cases hn : (x :: xs).length - fd with
      | zero => omega
      | succ i => simp
  by_cases h0 : fd = 0
  · subst h0
    simp only [beq_self_eq_true, if_true]
    have hsc := scanDec_nodot (P.take (P.length - 0)) [] 0 false hA hAne trivial scanFrac_nil scanExp_nil
    rw [List.append_nil] at hsc
    refine ⟨_, hsc, rfl, rfl, rfl, ?_⟩
    simp [hPval]
  · have hb : (fd == 0) = false := by simp [h0]
    simp only [hb, Bool.false_eq_true, if_false]
    have hsc := scanDec_dot (P.take (P.length - fd)) (P.drop (P.length - fd)) [] 0 false hA hB hAne trivial scanExp_nil
    rw [List.append_nil] at hsc
    refine ⟨_, hsc, rfl, rfl, ?_, ?_⟩
    · simp only [List.length_drop]; omega
    · simp only [List.take_append_drop]; exact hPval

/-- **The exponential layout is value-faithful** (toExponential, and the exponent branches of toString / toPrecision):
`d[.ddd]e±x` read back gives the same digits (trailing zeros included) and the same point position. -/
theorem expFormat_read (x : Nat) (xs : List Nat) (n : Int) (hx : x ≠ 0) (hd : ∀ d ∈ x :: xs, d < 10) :
    readDigits (expFormat (x :: xs) n) = some (x :: xs, n) := by
  unfold expFormat
  cases xs with
  | nil =>
    show readDigits (digitsStr [x] ++ expSuffix (n - 1)) = _
    have hsc := scanDec_nodot [x] (expSuffix (n - 1)) (n - 1) true hd (by simp)
      (stops_expSuffix _) (scanFrac_expSuffix _) (scanExp_expSuffix _)
    have := readDigits_of hsc rfl [x] (by simp only [List.append_nil]; exact dropZeros_cons _ hx) (by simp)
    rw [this]
    simp only [List.length_cons, List.length_nil]
    congr 2
    omega
  | cons y ys =>
    show readDigits (digitsStr [x] ++ '.' :: (digitsStr (y :: ys) ++ expSuffix (n - 1))) = _
    have hsc := scanDec_dot [x] (y :: ys) (expSuffix (n - 1)) (n - 1) true
      (fun d hm => hd d (by simp at hm; simp [hm]))
      (fun d hm => hd d (List.mem_cons_of_mem _ hm)) (by simp) (stops_expSuffix _) (scanExp_expSuffix _)
    have := readDigits_of hsc rfl (x :: y :: ys) (by exact dropZeros_cons _ hx) (by simp)
    rw [this]
    simp only [List.length_cons]
    congr 2
    omega

/-- **The toPrecision layout is value-faithful** (steps 10.c–13): for `p` digits with a non-zero leading digit and
any exponent `e` of the first digit, reading `precFormat ds e p` back gives the same `p` digits (trailing zeros
included) and the point position `e + 1`.  All four layouts (exponential, digits only, digits with a point, 0.00ddd). -/
theorem precFormat_read (x : Nat) (xs : List Nat) (e : Int) (hx : x ≠ 0) (hd : ∀ d ∈ x :: xs, d < 10) :
    readDigits (precFormat (x :: xs) e (x :: xs).length) = some (x :: xs, e + 1) := by
  unfold precFormat
  split
  · exact expFormat_read x xs (e + 1) hx hd
  · rename_i h1
    split
    · rename_i h2
      rw [read_plain x xs hx hd]
      congr 2
      omega
    · rename_i h2
      split
      · rename_i h3
        have := read_point x xs (e.toNat + 1) hx hd (by omega) (by
          simp only [List.length_cons] at *; omega)
        rw [this]
        congr 2
        omega
      · rename_i h3
        have := read_small x xs (-(e + 1)).toNat hx hd
        rw [this]
        congr 2
        omega

/-! ## input grammars (scanners of Model.lean against the declarative grammar of Grammar.lean) -/

/-- **Digit scanning = longest prefix of radix-`r` digits** (used by parseInt, `0x`/`0o`/`0b` literals and every
decimal component): the input splits into a run of valid digits, whose values are returned, and a rest at which the
scan stops. -/
theorem digits_longest_prefix (r : Nat) (cs : List Char) :
    ∃ pre, cs = pre ++ (takeDigits r cs).2 ∧ (takeDigits r cs).1 = pre.map digitVal ∧
      (∀ c ∈ pre, digitVal c < r) ∧ StopsR r (takeDigits r cs).2 := takeDigits_spec r cs

/-- **Soundness of the decimal scanner**: the consumed prefix is a well-formed StrUnsignedDecimalLiteral (`DecText`,
the ECMA-262 grammar written declaratively) whose components are exactly the returned ones. -/
theorem decimal_scanner_sound (cs : List Char) (l : DecLit) (h : scanDec cs = some l) :
    ∃ t : DecText, t.WF ∧ cs = t.text ++ l.rest ∧ l.Matches t := scanDec_sound cs l h

/-- **Completeness and maximal munch of the decimal scanner**: on input that starts with any well-formed literal `t`
the scanner succeeds and consumes at least `t`; on input that IS `t` it returns exactly `t`'s components. -/
theorem decimal_scanner_longest (t : DecText) (ht : t.WF) (rest : List Char) :
    ∃ l, scanDec (t.text ++ rest) = some l ∧ l.rest.length ≤ rest.length ∧
      (rest = [] → l.Matches t ∧ l.rest = []) := scanDec_longest t ht rest

/-- **Number(): a string in the grammar denotes its mathematical value.**  If the (trimmed, unsigned) body is a
well-formed StrUnsignedDecimalLiteral `dt`, the parser returns the denotation of its digits `I ++ F` scaled by
`10^(exponent − |F|)` (ECMA-262 StringNumericLiteral MV rules). -/
theorem decimalBody_of_grammar (neg : Bool) (dt : DecText) (h : dt.WF) :
    parseDecimalBody neg dt.text =
      denote neg (dt.I.map digitVal ++ dt.F.map digitVal) (dt.expValue - (dt.F.length : Nat)) := by
  obtain ⟨l, hs, _, hm⟩ := scanDec_longest dt h []
  rw [List.append_nil] at hs
  obtain ⟨⟨h1, h2, _, h4, _⟩, h6⟩ := hm rfl
  unfold parseDecimalBody
  simp only [decText_ne_infinity dt h, Bool.false_eq_true, if_false, hs, h6, List.isEmpty_nil, if_true,
    DecLit.denote, h1, h2, h4, List.length_map]


/-- **Number(): everything outside the grammar is NaN.** -/
theorem decimalBody_nan (neg : Bool) (body : List Char) (hinf : (body == infinityChars) = false)
    (h : ∀ dt : DecText, dt.WF → body ≠ dt.text) : parseDecimalBody neg body = .nan := by
  unfold parseDecimalBody
  simp only [hinf, Bool.false_eq_true, if_false]
  cases hs : scanDec body with
  | none => rfl
  | some l =>
    simp only []
    cases hr : l.rest with
    | nil =>
      obtain ⟨t, hw, hb, _⟩ := scanDec_sound body l hs
      rw [hr, List.append_nil] at hb
      exact absurd hb (h t hw)
    | cons c r => simp


/-- **parseFloat uses the longest literal prefix.**  If the body starts with any well-formed literal, the parser's
result is the denotation of a scanned literal `l` whose text `dt'` is itself a well-formed prefix of the body and is at
least as long as the given one; if no prefix is a literal the result is NaN. -/
theorem floatBody_longest (neg : Bool) (body : List Char) (hinf : infinityChars.isPrefixOf body = false) :
    (∀ (dt : DecText) (rest : List Char), dt.WF → body = dt.text ++ rest →
      ∃ l dt', scanDec body = some l ∧ parseFloatBody neg body = l.denote neg ∧ dt'.WF ∧
        body = dt'.text ++ l.rest ∧ l.Matches dt' ∧ l.rest.length ≤ rest.length) ∧
    ((∀ (dt : DecText) (rest : List Char), dt.WF → body ≠ dt.text ++ rest) → parseFloatBody neg body = .nan) := by
  constructor
  · intro dt rest hw hb
    obtain ⟨l, hs, hlen, _⟩ := scanDec_longest dt hw rest
    rw [← hb] at hs
    obtain ⟨dt', hw', hb', hm'⟩ := scanDec_sound body l hs
    refine ⟨l, dt', hs, ?_, hw', hb', hm', hlen⟩
    unfold parseFloatBody
    simp only [hinf, Bool.false_eq_true, if_false, hs]
  · intro h
    unfold parseFloatBody
    simp only [hinf, Bool.false_eq_true, if_false]
    cases hs : scanDec body with
    | none => rfl
    | some l =>
      obtain ⟨t, hw, hb, _⟩ := scanDec_sound body l hs
      exact absurd hb (h t l.rest hw)


/-- **NonDecimalIntegerLiteral (`0x…`, `0o…`, `0b…`)**: one or more digits of the radix and nothing else denote the
positional value; anything else is NaN. -/
theorem nonDecimal_spec (radix : Nat) (r : List Char) :
    ((r ≠ [] ∧ ∀ c ∈ r, digitVal c < radix) →
      parseNonDecimal radix r = denoteInt false radix (r.map digitVal)) ∧
    (¬ (r ≠ [] ∧ ∀ c ∈ r, digitVal c < radix) → parseNonDecimal radix r = .nan) := by
  constructor
  · rintro ⟨hne, hd⟩
    have hT := takeDigits_append radix r [] hd
    rw [List.append_nil] at hT
    unfold parseNonDecimal
    rw [hT]
    cases hr : r with
    | nil => exact absurd hr hne
    | cons c cs => simp [takeDigits]
  · intro hn
    obtain ⟨pre, h1, h2, h3, h4⟩ := takeDigits_spec radix r
    unfold parseNonDecimal
    by_cases hrest : (takeDigits radix r).2 = []
    · rw [hrest, List.append_nil] at h1
      have hpre : pre = [] := by
        apply Classical.byContradiction
        intro hp
        exact hn ⟨by rw [h1]; exact hp, by rw [h1]; exact h3⟩
      rw [h2, hpre]; simp
    · cases hh : (takeDigits radix r).2 with
      | nil => exact absurd hh hrest
      | cons a b => simp


/-- **parseInt digits**: the result is determined by the longest prefix of radix-R digits (steps 11–16). -/
theorem parseIntDigits_spec (neg : Bool) (R : Nat) (pre rest : List Char)
    (hpre : ∀ c ∈ pre, digitVal c < R) (hstop : StopsR R rest) :
    parseIntDigits neg R (pre ++ rest) =
      if pre = [] then .nan else denoteInt neg R (pre.map digitVal) := by
  unfold parseIntDigits
  rw [takeDigits_append R pre rest hpre, takeDigits_stopR hstop]
  cases pre with
  | nil => simp
  | cons c cs => simp


/-- `trimL` removes exactly the maximal run of StrWhiteSpaceChar at the front. -/
theorem trimL_spec (cs : List Char) :
    ∃ ws, cs = ws ++ trimL cs ∧ (∀ c ∈ ws, isWhite c = true) ∧
      (match trimL cs with | [] => True | c :: _ => isWhite c = false) := by
  induction cs with
  | nil => exact ⟨[], rfl, by simp, trivial⟩
  | cons c cs ih =>
    by_cases hc : isWhite c = true
    · obtain ⟨ws, h1, h2, h3⟩ := ih
      refine ⟨c :: ws, ?_, ?_, ?_⟩
      · simp only [trimL, hc, if_true, List.cons_append]; rw [← h1]
      · intro d hm
        rcases List.mem_cons.mp hm with h | h
        · subst h; exact hc
        · exact h2 d h
      · simpa only [trimL, hc, if_true] using h3
    · have hc' : isWhite c = false := by
        cases h : isWhite c with
        | true => exact absurd h hc
        | false => rfl
      refine ⟨[], ?_, by simp, ?_⟩
      · simp [trimL, hc']
      · simp [trimL, hc']



/-- **Value of `denote`, rational case**: the returned fraction `n/d` equals `natOfDigits ds × 10^e`
(cross-multiplied with the canonical fraction `decNum/decDen` of that decimal), and the sign is kept. -/
theorem denote_rat_value (neg : Bool) (ds : List Nat) (e : Int) (neg' : Bool) (n d : Nat)
    (h : denote neg ds e = .rat neg' n d) :
    neg' = neg ∧ 0 < d ∧ n * decDen e = decNum (natOfDigits 10 ds) e * d := by
  unfold denote at h
  simp only [] at h
  split at h
  · cases h
  · split at h
    · cases h
    · split at h
      · cases h
      · simp only [Parsed.rat.injEq] at h
        obtain ⟨h1, h2, h3⟩ := h
        obtain ⟨z, hz⟩ := dropTrailingZeros_spec (dropZeros ds)
        have hlen : (dropZeros ds).length - (dropTrailingZeros (dropZeros ds)).length = z := by
          have := congrArg List.length hz
          simp only [List.length_append, List.length_replicate] at this
          omega
        rw [hlen] at h2 h3
        have hval : natOfDigits 10 ds = natOfDigits 10 (dropTrailingZeros (dropZeros ds)) * 10 ^ z := by
          rw [← natOfDigits_dropZeros 10 ds]
          conv => lhs; rw [hz]
          rw [natOfDigits_append, natOfDigits_replicate_zero, List.length_replicate]; simp
        refine ⟨h1.symm, by rw [← h3]; exact decDen_pos _, ?_⟩
        rw [← h2, ← h3, hval]
        have := dec_shift_value (natOfDigits 10 (dropTrailingZeros (dropZeros ds))) (e + (z : Int)) z
        have ez : e + (z : Int) - (z : Int) = e := by omega
        rw [ez] at this
        exact this.symm


/-- **Value of `denote`, zero case.** -/
theorem denote_zero_value (neg : Bool) (ds : List Nat) (e : Int) (neg' : Bool)
    (h : denote neg ds e = .zero neg') : neg' = neg ∧ natOfDigits 10 ds = 0 := by
  unfold denote at h
  simp only [] at h
  split at h
  · rename_i hem
    simp only [Parsed.zero.injEq] at h
    refine ⟨h.symm, ?_⟩
    rw [← natOfDigits_dropZeros 10 ds]
    cases hd : dropZeros ds with
    | nil => rfl
    | cons a b => rw [hd] at hem; simp at hem
  · split at h
    · cases h
    · split at h <;> cases h



/-- **`huge` is justified**: when `denote` answers `huge` (without expanding the power of ten), the denoted value
`natOfDigits ds × 10^e` is at least 10^400 and therefore rounds to ±Infinity. -/
theorem denote_huge_sound (neg : Bool) (ds : List Nat) (e : Int) (neg' : Bool)
    (h : denote neg ds e = .huge neg') :
    neg' = neg ∧ isNearestMag (decNum (natOfDigits 10 ds) e) (decDen e) infOrd = true := by
  unfold denote at h
  simp only [] at h
  split at h
  · cases h
  · rename_i hne
    split at h
    · rename_i hp
      simp only [Parsed.huge.injEq] at h
      refine ⟨h.symm, huge_rounds_to_inf _ _ (decDen_pos _) ?_⟩
      have hh := dropZeros_head ds
      cases hs : dropZeros ds with
      | nil => rw [hs] at hne; simp at hne
      | cons x xs =>
        rw [hs] at hh hp
        simp only [List.length_cons] at hp
        have hlow := natOfDigits_lower x xs hh
        rw [← hs, natOfDigits_dropZeros] at hlow
        unfold decNum decDen
        calc 10 ^ 400 * 10 ^ (-e).toNat = 10 ^ (400 + (-e).toNat) := by rw [Nat.pow_add]
          _ ≤ 10 ^ (xs.length + e.toNat) := Nat.pow_le_pow_right (by decide) (by omega)
          _ = 10 ^ xs.length * 10 ^ e.toNat := by rw [Nat.pow_add]
          _ ≤ natOfDigits 10 ds * 10 ^ e.toNat := Nat.mul_le_mul_right _ hlow
    · split at h <;> cases h


/-- **`tiny` is justified**: when `denote` answers `tiny`, the denoted value is below 10^-400 and rounds to ±0. -/
theorem denote_tiny_sound (neg : Bool) (ds : List Nat) (e : Int) (neg' : Bool) (hlt : ∀ d ∈ ds, d < 10)
    (h : denote neg ds e = .tiny neg') :
    neg' = neg ∧ isNearestMag (decNum (natOfDigits 10 ds) e) (decDen e) 0 = true := by
  unfold denote at h
  simp only [] at h
  split at h
  · cases h
  · split at h
    · cases h
    · split at h
      · rename_i hp
        simp only [Parsed.tiny.injEq] at h
        refine ⟨h.symm, tiny_rounds_to_zero _ _ (decDen_pos _) ?_⟩
        obtain ⟨z, hz⟩ := dropZeros_spec ds
        have hsig : ∀ d ∈ dropZeros ds, d < 10 := by
          intro d hm; apply hlt; rw [hz]; exact List.mem_append_right _ hm
        have hup := natOfDigits_upper (dropZeros ds) hsig
        rw [natOfDigits_dropZeros] at hup
        unfold decNum decDen
        have hpos : 0 < 10 ^ e.toNat * 10 ^ 400 := Nat.mul_pos (Nat.pow_pos (by decide)) (Nat.pow_pos (by decide))
        calc natOfDigits 10 ds * 10 ^ e.toNat * 10 ^ 400
            = natOfDigits 10 ds * (10 ^ e.toNat * 10 ^ 400) := Nat.mul_assoc _ _ _
          _ < 10 ^ (dropZeros ds).length * (10 ^ e.toNat * 10 ^ 400) := Nat.mul_lt_mul_of_pos_right hup hpos
          _ = 10 ^ ((dropZeros ds).length + e.toNat + 400) := by rw [Nat.pow_add, Nat.pow_add, Nat.mul_assoc]
          _ ≤ 10 ^ (-e).toNat := Nat.pow_le_pow_right (by decide) (by omega)
      · cases h



/-- **`trim` is StrWhiteSpace stripping on both sides**: the input is `ws1 ++ trim cs ++ ws2` with `ws1`, `ws2` runs of
StrWhiteSpaceChar, and what is left neither starts nor ends with a StrWhiteSpaceChar (so both runs are maximal). -/
theorem trim_spec (cs : List Char) :
    ∃ ws1 ws2, cs = ws1 ++ (trim cs ++ ws2) ∧ (∀ c ∈ ws1, isWhite c = true) ∧ (∀ c ∈ ws2, isWhite c = true) ∧
      (match trim cs with | [] => True | c :: _ => isWhite c = false) ∧
      (match (trim cs).reverse with | [] => True | c :: _ => isWhite c = false) := by
  obtain ⟨ws1, h1, h2, h3⟩ := trimL_spec cs
  obtain ⟨w, g1, g2, g3⟩ := trimL_spec (trimL cs).reverse
  have hA : trimL cs = (trimL (trimL cs).reverse).reverse ++ w.reverse := by
    have := congrArg List.reverse g1
    simp only [List.reverse_reverse, List.reverse_append] at this
    exact this
  refine ⟨ws1, w.reverse, ?_, h2, ?_, ?_, ?_⟩
  · unfold trim
    rw [← hA]; exact h1
  · intro c hm
    exact g2 c (List.mem_reverse.mp hm)
  · unfold trim
    cases hB : (trimL (trimL cs).reverse).reverse with
    | nil => trivial
    | cons c r =>
      rw [hB] at hA
      rw [hA] at h3
      exact h3
  · unfold trim
    rw [List.reverse_reverse]
    exact g3


/-- **Number() on a decimal literal**: if the trimmed string is an optional sign followed by a well-formed
StrUnsignedDecimalLiteral, `parseNumber` returns the signed denotation of its digits and exponent. -/
theorem parseNumber_of_literal (s : List Char) (neg : Bool) (sg : List Char) (dt : DecText) (hw : dt.WF)
    (hsg : (sg = [] ∧ neg = false) ∨ (sg = ['+'] ∧ neg = false) ∨ (sg = ['-'] ∧ neg = true))
    (ht : trim s = sg ++ dt.text) :
    parseNumber s =
      denote neg (dt.I.map digitVal ++ dt.F.map digitVal) (dt.expValue - (dt.F.length : Nat)) := by
  obtain ⟨c, r, hc, hcd⟩ := decText_head dt hw []
  rw [List.append_nil] at hc
  have hne : (sg ++ dt.text).isEmpty = false := by rw [hc]; cases sg <;> simp
  have hrp : radixPrefix (sg ++ dt.text) = none := by
    rcases hsg with ⟨h, _⟩ | ⟨h, _⟩ | ⟨h, _⟩
    · subst h
      simp only [List.nil_append]
      cases hr : r with
      | nil => rw [hc, hr]; unfold radixPrefix; split <;> simp_all
      | cons b r' =>
        rw [hc, hr]
        exact radixPrefix_none_of_second (decText_second dt hw c b r' (by rw [hc, hr]))
    · subst h; rw [hc]; rfl
    · subst h; rw [hc]; rfl
  have hss : splitSign (sg ++ dt.text) = (neg, !sg.isEmpty, dt.text) := by
    rcases hsg with ⟨h, hn⟩ | ⟨h, hn⟩ | ⟨h, hn⟩
    · subst h; subst hn
      simp only [List.nil_append]
      rw [hc]
      have h1 : c ≠ '-' := by
        rcases hcd with h | h
        · intro e; subst e; revert h; decide
        · intro e; rw [h] at e; revert e; decide
      have h2 : c ≠ '+' := by
        rcases hcd with h | h
        · intro e; subst e; revert h; decide
        · intro e; rw [h] at e; revert e; decide
      unfold splitSign
      split
      · rename_i heq; injection heq with h' _; exact absurd h' h1
      · rename_i heq; injection heq with h' _; exact absurd h' h2
      · rfl
    · subst h; subst hn; rfl
    · subst h; subst hn; rfl
  unfold parseNumber
  simp only [ht, hne, Bool.false_eq_true, if_false, hrp, hss]
  exact decimalBody_of_grammar neg dt hw

/-- **Number() on `0x…` / `0o…` / `0b…`**: prefix, then one or more digits of the radix, denotes the integer. -/
theorem parseNumber_of_radix_literal (s : List Char) (x : Char) (R : Nat) (r : List Char)
    (hx : radixPrefix ('0' :: x :: r) = some (R, r)) (hne : r ≠ []) (hd : ∀ c ∈ r, digitVal c < R)
    (ht : trim s = '0' :: x :: r) :
    parseNumber s = denoteInt false R (r.map digitVal) := by
  unfold parseNumber
  simp only [ht, List.isEmpty_cons, Bool.false_eq_true, if_false, hx]
  exact (nonDecimal_spec R r).1 ⟨hne, hd⟩

/-! ## mechanism model of `ftoa.FToBaseStr` (Radix.lean; proofs in RadixLemmas.lean / RadixProps.lean) -/

/-- The integer part printed by `toString(radix)` (positional digits) denotes the integer part, in every radix. -/
theorem radix_int_digits_value (r n : Nat) : natOfDigits r (radixDigits r n) = n := radixDigits_value r n

/-- The initial state `FToBaseStr` computes from the exponent field (`s2`, power-of-two special case, `b = df·2^s2`)
represents the double: fraction part and half-gaps to both neighbours — for every finite non-integer double. -/
theorem radix_init_represents (f : F64) (hR : f.mag % scale ≠ 0) : InitRel f (fracInit f) := fracInit_rel f hR

/-- **toString(radix) parses back for EVERY finite double and every radix** (transcription of `FToBaseStr`; the
driver checks on every run that the transcription prints exactly goja's string).  Proviso: the loop finishes within
the fuel (termination not proved). -/
theorem radix_mechanism_sound (fuel : Nat) (f : F64) (r : Nat) (hr : 0 < r) (hfin : f.exp < 2047)
    (ipd fd : List Nat) (h : toBaseDigitsFuel fuel f r = (ipd, some fd)) :
    isNearestMag (natOfDigits r (ipd ++ fd)) (r ^ fd.length) f.ord = true :=
  toBaseStr_sound fuel f r hr hfin ipd fd h

/-- The grid of doubles is strictly increasing in the ordered bit pattern (needed by all of the above). -/
theorem value_strictMono {j k : Nat} (h : j < k) : magOrd j < magOrd k := magOrd_strictMono h

/-- **Property-level claim (partial).**  Every conversion output that the driver's checkers accept is certified
against the specification by the theorems above: nearest/ties-to-even for text → number, round-trip + minimal
digit count for String(x), correct rounding with ties up for toFixed (and `exp_sound`, `closest_sound`, `radix_sound`, `roundOrd_*` alongside).
`_partial` for ONE reason only: universality over all 2^64 inputs × digit counts × radices × strings is SAMPLED by
the correspondence run, not proved — there is no model of goja's dtoa/Grisu digit generators.  The text layer is
covered by theorems in this file: output layouts (`ecmaFormat_read`, `expFormat_read`, `fixedFormat_read`,
`precFormat_read`), input grammars (`decimal_scanner_sound`, `decimal_scanner_longest`, `parseNumber_of_literal`,
`floatBody_longest`, `parseIntDigits_spec`, `trim_spec`, …), digit denotation (`denote_rat_value`, `denote_huge_sound`, …). -/
theorem dtoa_certified_partial :
    (∀ n d k, isNearestMag n d k = true → ∀ j, j ≤ infOrd →
        absDiff (n * scale) (magOrd k * d) ≤ absDiff (n * scale) (magOrd j * d)) ∧
    (∀ o s k c, isShortest o s k c = true →
        roundsTo s c o = true ∧ ∀ (s' : Nat) (c' : Int), 0 < s' → s' < 10 ^ (k - 1) → roundsTo s' c' o = false) ∧
    (∀ X fd N, isFixed X fd N = true → ∀ N' : Nat,
        absDiff (N * scale) (X * 10 ^ fd) ≤ absDiff (N' * scale) (X * 10 ^ fd)) :=
  ⟨fun n d k h j hj => (isNearest_sound n d k h j hj).1,
   fun o s k c h => ⟨(shortest_sound o s k c h).1, (shortest_sound o s k c h).2.2.2⟩,
   fun X fd N h N' => (fixed_sound X fd N h N').1⟩

/-! ### the hypotheses are satisfiable (tests on literals, not proofs of the property) -/
section NonVacuity
set_option exponentiation.threshold 3000
-- 0.1 = 0x3FB999999999999A: 1/10 rounds to it, "1" with exponent −1 is its shortest digit string
example : isNearestMag 1 10 (F64.ofBits 0x3FB999999999999A).ord = true := by decide
example : isNearestMag 1 10 (F64.ofBits 0x3FB999999999999B).ord = false := by decide
example : isShortest (F64.ofBits 0x3FB999999999999A).ord 1 1 (-1) = true := by decide
-- 2^53 + 1 is a tie between 2^53 (even) and 2^53 + 2 (odd): only the even one is accepted
example : isNearestMag 9007199254740993 1 (F64.ofBits 0x4340000000000000).ord = true := by decide
example : isNearestMag 9007199254740993 1 (F64.ofBits 0x4340000000000001).ord = false := by decide
-- overflow threshold 2^1024 − 2^970 rounds to +Infinity, one less does not
example : isNearestMag (2 ^ 1024 - 2 ^ 970) 1 infOrd = true := by decide
example : isNearestMag (2 ^ 1024 - 2 ^ 970 - 1) 1 infOrd = false := by decide
-- 5e-324 is the shortest form of the smallest subnormal; 4e-324 parses back too but "5" is closer
example : isShortest 1 5 1 (-324) = true := by decide
-- (2.5).toFixed(0) is "3" (tie → larger), not "2"
example : isFixed (F64.ofBits 0x4004000000000000).mag 0 3 = true := by decide
example : isFixed (F64.ofBits 0x4004000000000000).mag 0 2 = false := by decide
-- (2.5).toExponential(0) is "3e+0"
example : isExp (F64.ofBits 0x4004000000000000).mag 0 3 0 = true := by decide
example : isExp (F64.ofBits 0x4004000000000000).mag 0 2 0 = false := by decide
end NonVacuity

end GojaModel.C12
