/-
  C12 mechanism model of `ftoa.FToBaseStr` (ftoa/ftobasestr.go, Number.prototype.toString(radix) for radix ≠ 10).
  Unlike the rest of C12 this is a TRANSCRIPTION OF THE CODE (same state variables, same branch order), executable,
  core Lean only.  The driver predicts goja's exact output string with it (mechanism-level correspondence);
  `RadixProps.lean` proves that whatever the fraction loop outputs parses back to the double.
-/
import GojaModel.C12.Model

namespace GojaModel.C12

/-! ### integer part: positional digits (what `strconv.FormatInt` / `big.Int.Text` print for the magnitude) -/

def radixDigitsAux : Nat → Nat → Nat → List Nat → List Nat
  | 0, _, n, acc => n :: acc
  | fuel + 1, r, n, acc => if n < r then n :: acc else radixDigitsAux fuel r (n / r) (n % r :: acc)

/-- Digits of `n` in radix `r`, most significant first (`0 ↦ [0]`). -/
def radixDigits (r n : Nat) : List Nat := radixDigitsAux n r n []

/-! ### fraction part: the `for !done` loop (ftobasestr.go:96-146) -/

/-- Loop state: `b`/`s` is the not yet printed remainder of the fraction (times radix^i), `mlo`/`s` and `mhi`/`s`
half the distance to the previous / next double (times radix^i). -/
structure FracState where
  b : Nat
  s : Nat
  mlo : Nat
  mhi : Nat

/-- One iteration.  Returns (digit, done, next state).  `even` = the fraction field of the double is even
(`(word1&1) == 0`).  Branch order as in the source:
 1. `j1 == 0 && even`                     → `if j > 0 {digit++}`; done
 2. `j < 0 || (j == 0 && even)`           → `if j1 > 0 { b <<= 1; if b > s {digit++} }`; done
 3. `j1 > 0`                              → `digit++`; done
 where `j = cmp(b, mlo)`, `j1 = (s − mhi ≤ 0) ? 1 : cmp(b, s − mhi)`. -/
def fracStep (r : Nat) (even : Bool) (st : FracState) : Nat × Bool × FracState :=
  let b1 := st.b * r
  let digit := b1 / st.s
  let b := b1 % st.s
  let mlo := st.mlo * r
  let mhi := st.mhi * r
  let st' : FracState := { b := b, s := st.s, mlo := mlo, mhi := mhi }
  let j1gt : Bool := decide (st.s ≤ mhi) || decide (st.s - mhi < b)
  let j1eq : Bool := decide (mhi < st.s) && (b == st.s - mhi)
  if j1eq && even then
    ((if mlo < b then digit + 1 else digit), true, st')
  else if decide (b < mlo) || (b == mlo && even) then
    ((if j1gt && decide (st.s < 2 * b) then digit + 1 else digit), true, st')
  else if j1gt then (digit + 1, true, st')
  else (digit, false, st')

/-- The loop with fuel (`none` = fuel exhausted; never observed, see RadixProps for what is proved). -/
def fracLoop (r : Nat) (even : Bool) : Nat → FracState → List Nat → Option (List Nat)
  | 0, _, _ => none
  | fuel + 1, st, acc =>
    let res := fracStep r even st
    if res.2.1 then some (acc ++ [res.1]) else fracLoop r even fuel res.2.2 (acc ++ [res.1])

/-- Initial state (ftobasestr.go:66-94) from the fields of the (positive, finite, non-integer) double:
`s2 = 1076 − E` (`1075` for subnormals), the power-of-two special case (`fraction = 0 ∧ E ≥ 2`: `s2 += 1`, `mhi = 2`),
`s = 2^s2`, `b = df·2^s2` where `df = (X mod 2^1074)/2^1074` is the fraction part. -/
def fracInit (f : F64) : FracState :=
  let s2 : Nat := if f.exp == 0 then 1075 else 1076 - f.exp
  let special : Bool := f.man == 0 && decide (2 ≤ f.exp)
  let s2 := if special then s2 + 1 else s2
  let R := f.mag % scale
  { b := if 1074 ≤ s2 then R * 2 ^ (s2 - 1074) else R / 2 ^ (1074 - s2)
    s := 2 ^ s2
    mlo := 1
    mhi := if special then 2 else 1 }

/-- The digits `FToBaseStr` prints for the magnitude of a finite double: integer digits and fraction digits
(`some []` when there is no fraction; `none` only if the loop does not finish within `fuel` digits). -/
def toBaseDigitsFuel (fuel : Nat) (f : F64) (r : Nat) : List Nat × Option (List Nat) :=
  if f.mag % scale == 0 then (radixDigits r (f.mag / scale), some [])
  else (radixDigits r (f.mag / scale), fracLoop r (f.man % 2 == 0) fuel (fracInit f) [])

/-- 1200 digits are more than any double needs (at most 1074 binary digits after the point). -/
def toBaseDigits (f : F64) (r : Nat) : List Nat × Option (List Nat) := toBaseDigitsFuel 1200 f r

/-- The text `FToBaseStr(x, r)` returns for a finite `x` (sign first; `-0.…` keeps its sign). -/
def toBaseStr (f : F64) (r : Nat) : Option (List Char) :=
  let (ip, fr) := toBaseDigits f r
  let sign : List Char := if f.neg && !f.isZero then ['-'] else []
  match fr with
  | none => none
  | some [] => some (sign ++ digitsStr ip)
  | some fd => some (sign ++ digitsStr ip ++ '.' :: digitsStr fd)

end GojaModel.C12
