/-
  C12: the mechanism model of `ftoa.FToBaseStr` (Radix.lean) is correct for EVERY finite double and radix:
  what it prints parses back to the double (`toBaseStr_sound`).  Ingredients: the gap structure of the double grid
  (`magOrd_gap`), the initial state computed from the exponent field represents the double (`fracInit_rel`), the loop
  invariant (`fracLoop_sound`, RadixLemmas.lean) and the algebraic core (`frac_core`).  Core Lean only.
-/
import GojaModel.C12.Radix
import GojaModel.C12.Lemmas
import GojaModel.C12.RadixLemmas

namespace GojaModel.C12

/-- The distance from a double to the next one is `2^(E−1)` units of `1/scale` (`E` the biased exponent; 1 unit for
subnormals). -/
theorem magOrd_gap (k : Nat) : magOrd (k + 1) = magOrd k + 2 ^ (k / 2 ^ 52 - 1) := by
  by_cases h1 : k + 1 < 2 ^ 52
  · rw [magOrd_small h1, magOrd_small (by omega)]
    have : k / 2 ^ 52 = 0 := by omega
    rw [this]
  · by_cases h0 : k < 2 ^ 52
    · have hk : k + 1 = 2 ^ 52 := by omega
      rw [magOrd_small h0, magOrd_big (by omega), hk]
      have : k / 2 ^ 52 = 0 := by omega
      rw [this]
      simp only [two52] at *
      omega
    · have hb : 2 ^ 52 ≤ k := Nat.le_of_not_lt h0
      rw [magOrd_big hb, magOrd_big (by omega)]
      have hq : 1 ≤ k / 2 ^ 52 := by omega
      by_cases hm : k % 2 ^ 52 + 1 < 2 ^ 52
      · have e1 : (k + 1) / 2 ^ 52 = k / 2 ^ 52 := by omega
        have e2 : (k + 1) % 2 ^ 52 = k % 2 ^ 52 + 1 := by omega
        rw [e1, e2]
        generalize 2 ^ (k / 2 ^ 52 - 1) = P
        rw [← Nat.add_assoc, Nat.add_mul, Nat.one_mul]
      · have e1 : (k + 1) / 2 ^ 52 = k / 2 ^ 52 + 1 := by omega
        have e2 : (k + 1) % 2 ^ 52 = 0 := by omega
        have e3 : k % 2 ^ 52 = 2 ^ 52 - 1 := by omega
        rw [e1, e2, e3]
        have : k / 2 ^ 52 + 1 - 1 = (k / 2 ^ 52 - 1) + 1 := by omega
        have hps : 2 ^ (k / 2 ^ 52 - 1 + 1) = 2 ^ (k / 2 ^ 52 - 1) * 2 := Nat.pow_succ _ _
        rw [this, hps]
        generalize 2 ^ (k / 2 ^ 52 - 1) = P
        simp only [two52]
        omega

/-- Doubles of biased exponent ≥ 1075 are integers (no fraction part). -/
theorem magOrd_mod_scale_big (k : Nat) (h : 1075 ≤ k / 2 ^ 52) : magOrd k % scale = 0 := by
  have hb : 2 ^ 52 ≤ k := by omega
  rw [magOrd_big hb]
  have : k / 2 ^ 52 - 1 = (k / 2 ^ 52 - 1075) + 1074 := by omega
  rw [this, Nat.pow_add, ← Nat.mul_assoc]
  unfold scale
  exact Nat.mul_mod_left _ _

/-- Every double of biased exponent `E ≥ 1` is a multiple of `2^(E−1)/scale`. -/
theorem magOrd_dvd (k j : Nat) (hj : j ≤ k / 2 ^ 52 - 1) (hb : 2 ^ 52 ≤ k) : 2 ^ j ∣ magOrd k := by
  rw [magOrd_big hb]
  have : k / 2 ^ 52 - 1 = (k / 2 ^ 52 - 1 - j) + j := by omega
  rw [this, Nat.pow_add, ← Nat.mul_assoc]
  exact Nat.dvd_mul_left _ _

/-- The initial loop state represents the double: `b/s` is its fraction part, `mlo/s` and `mhi/s` are half the
distance to the previous and to the next double (all cross-multiplied, in units of `1/scale`). -/
def InitRel (f : F64) (st : FracState) : Prop :=
  st.b * scale = (f.mag % scale) * st.s ∧
  st.mlo * (2 * scale) = (magOrd f.ord - magOrd (f.ord - 1)) * st.s ∧
  st.mhi * (2 * scale) = (magOrd (f.ord + 1) - magOrd f.ord) * st.s ∧
  0 < st.s ∧ st.b < st.s ∧ 0 < st.mlo ∧ 0 < st.mhi

theorem ord_even_of_man_even (f : F64) (h : (f.man % 2 == 0) = true) : f.ord % 2 = 0 := by
  simp only [beq_iff_eq] at h
  unfold F64.ord
  have : f.exp * 2 ^ 52 = 2 * (f.exp * 2 ^ 51) := by rw [show (2:Nat) ^ 52 = 2 * 2 ^ 51 from by decide]; ac_rfl
  omega

/-- **`toString(radix)` parses back — fraction case, for every loop state that represents the double.**
If the loop of `FToBaseStr` (started in a state satisfying `InitRel`) returns the fraction digits `fd`, and `ipd`
are radix-`r` digits of the integer part, then the number denoted by `ipd . fd` lies in the rounding interval of the
double: `isNearestMag` accepts it (and by `isNearest_sound` it rounds to the double against every competitor). -/
theorem toBase_frac_sound_of_rel (f : F64) (r : Nat) (hr : 0 < r) (hfin : f.ord < infOrd) (hk : f.ord ≠ 0)
    (st : FracState) (hrel : InitRel f st) (fuel : Nat) (fd ipd : List Nat)
    (h : fracLoop r (f.man % 2 == 0) fuel st [] = some fd) (hip : natOfDigits r ipd = f.mag / scale) :
    isNearestMag (natOfDigits r (ipd ++ fd)) (r ^ fd.length) f.ord = true := by
  obtain ⟨hb, hlo, hhi, hs, hbs, hmlo, hmhi⟩ := hrel
  obtain ⟨Ft, bi, D, hval, hinv, hbi, hlen, hfin'⟩ :=
    fracLoop_sound r hr (f.man % 2 == 0) st.s st.b st.mlo st.mhi hs hmlo fuel st [] fd rfl
      (by simp) (by simp) hbs (by simp [natOfDigits]) h
  have hP : 0 < r ^ fd.length := Nat.pow_pos hr
  have hX : magOrd f.ord = f.mag / scale * scale + f.mag % scale := by
    have := Nat.div_add_mod f.mag scale
    rw [Nat.mul_comm] at this; exact this.symm
  have hA : magOrd (f.ord - 1) + (magOrd f.ord - magOrd (f.ord - 1)) = magOrd f.ord :=
    Nat.add_sub_cancel' (magOrd_mono (Nat.sub_le _ _))
  have hC : magOrd f.ord + (magOrd (f.ord + 1) - magOrd f.ord) = magOrd (f.ord + 1) :=
    Nat.add_sub_cancel' (magOrd_mono (Nat.le_succ _))
  have hfin'' : (D = 0 ∧ (bi < st.mlo * r ^ fd.length ∨ (bi = st.mlo * r ^ fd.length ∧ f.ord % 2 = 0))) ∨
      (D = 1 ∧ (st.s < bi + st.mhi * r ^ fd.length ∨ (st.s = bi + st.mhi * r ^ fd.length ∧ f.ord % 2 = 0))) := by
    rcases hfin' with ⟨h1, h2⟩ | ⟨h1, h2⟩
    · left; refine ⟨h1, ?_⟩
      rcases h2 with h2 | ⟨h2, he⟩
      · exact Or.inl h2
      · exact Or.inr ⟨h2, ord_even_of_man_even f he⟩
    · right; refine ⟨h1, ?_⟩
      rcases h2 with h2 | ⟨h2, he⟩
      · exact Or.inl h2
      · exact Or.inr ⟨h2, ord_even_of_man_even f he⟩
  have core := frac_core (r ^ fd.length) (magOrd f.ord) (f.mag / scale) (f.mag % scale) (magOrd (f.ord - 1))
    (magOrd (f.ord + 1)) _ _ scale st.s st.b st.mlo st.mhi Ft bi D (f.ord % 2 = 0)
    hX hA hC hb hlo hhi hinv hs scale_pos hP hmhi hbi hfin''
  have hn : natOfDigits r (ipd ++ fd) = f.mag / scale * r ^ fd.length + (Ft + D) := by
    rw [natOfDigits_append, hip, hval]
  obtain ⟨cl, cu⟩ := core
  have h0 : (f.ord == 0) = false := by simp [hk]
  have hI : (f.ord == infOrd) = false := by
    have : f.ord ≠ infOrd := by omega
    simp [this]
  simp only [isNearestMag, hP, decide_true, Nat.le_of_lt hfin, Bool.true_and, lowerOK, upperOK, h0, hI,
    Bool.false_or, hn, Bool.and_eq_true, Bool.or_eq_true, decide_eq_true_eq, beq_iff_eq]
  exact ⟨cl, cu⟩


theorem pow2_split (a b c : Nat) (h : a + b = c) : 2 ^ a * 2 ^ b = 2 ^ c := by
  rw [← Nat.pow_add, h]

theorem two_scale : 2 * scale = 2 ^ 1075 := by
  unfold scale
  rw [Nat.mul_comm]
  exact (Nat.pow_succ 2 1074).symm

theorem b_times_scale (R s2 : Nat) (hd : s2 < 1074 → 2 ^ (1074 - s2) ∣ R) :
    (if 1074 ≤ s2 then R * 2 ^ (s2 - 1074) else R / 2 ^ (1074 - s2)) * scale = R * 2 ^ s2 := by
  unfold scale
  split
  · rw [Nat.mul_assoc, pow2_split _ _ s2 (by omega)]
  · have hc := Nat.div_mul_cancel (hd (by omega))
    have e : (2:Nat) ^ 1074 = 2 ^ (1074 - s2) * 2 ^ s2 := (pow2_split _ _ 1074 (by omega)).symm
    rw [e, ← Nat.mul_assoc, hc]

/-- Generic form: any `s2`, `mhi` with the right exponents give a state representing the double. -/
theorem initRel_of (f : F64) (s2 mhi gl gh : Nat)
    (hgl : magOrd f.ord - magOrd (f.ord - 1) = 2 ^ gl) (hgh : magOrd (f.ord + 1) - magOrd f.ord = 2 ^ gh)
    (h1 : gl + s2 = 1075) (h2 : (mhi = 1 ∧ gh + s2 = 1075) ∨ (mhi = 2 ∧ gh + s2 = 1076))
    (hd : s2 < 1074 → 2 ^ (1074 - s2) ∣ f.mag % scale) :
    InitRel f { b := (if 1074 ≤ s2 then f.mag % scale * 2 ^ (s2 - 1074) else f.mag % scale / 2 ^ (1074 - s2)),
                s := 2 ^ s2, mlo := 1, mhi := mhi } := by
  have hbS := b_times_scale (f.mag % scale) s2 hd
  have hlt : f.mag % scale < scale := Nat.mod_lt _ scale_pos
  refine ⟨hbS, ?_, ?_, Nat.pow_pos (by decide), ?_, Nat.one_pos, ?_⟩
  · show 1 * (2 * scale) = (magOrd f.ord - magOrd (f.ord - 1)) * 2 ^ s2
    rw [hgl, two_scale, Nat.one_mul, pow2_split _ _ 1075 h1]
  · show mhi * (2 * scale) = (magOrd (f.ord + 1) - magOrd f.ord) * 2 ^ s2
    rw [hgh, two_scale]
    rcases h2 with ⟨hm, he⟩ | ⟨hm, he⟩
    · rw [hm, Nat.one_mul, pow2_split _ _ 1075 he]
    · rw [hm, pow2_split _ _ 1076 he]
      rw [Nat.mul_comm]; exact (Nat.pow_succ 2 1075).symm
  · show (if 1074 ≤ s2 then f.mag % scale * 2 ^ (s2 - 1074) else f.mag % scale / 2 ^ (1074 - s2)) < 2 ^ s2
    have : (if 1074 ≤ s2 then f.mag % scale * 2 ^ (s2 - 1074) else f.mag % scale / 2 ^ (1074 - s2)) * scale
        < 2 ^ s2 * scale := by
      rw [hbS, Nat.mul_comm (2 ^ s2)]
      exact Nat.mul_lt_mul_of_pos_right hlt (Nat.pow_pos (by decide))
    exact Nat.lt_of_mul_lt_mul_right this
  · show 0 < mhi
    rcases h2 with ⟨hm, _⟩ | ⟨hm, _⟩ <;> omega

/-- **The initial state computed by `FToBaseStr` represents the double** (for every finite non-integer double):
`s2 = 1076 − E` resp. `1075`, the power-of-two special case, `b = df·2^s2`. -/
theorem fracInit_rel (f : F64) (hR : f.mag % scale ≠ 0) : InitRel f (fracInit f) := by
  have hm := f.hman
  have hE : f.ord / 2 ^ 52 = f.exp := by unfold F64.ord; omega
  have hEle : f.exp ≤ 1074 := by
    apply Classical.byContradiction
    intro hc
    exact hR (magOrd_mod_scale_big f.ord (by rw [hE]; omega))
  have hk0 : f.ord ≠ 0 := by
    intro h0
    apply hR
    show magOrd f.ord % scale = 0
    rw [h0, magOrd_small (by decide)]
    exact Nat.zero_mod _
  have gHi : magOrd (f.ord + 1) - magOrd f.ord = 2 ^ (f.exp - 1) := by
    rw [magOrd_gap, hE]; exact Nat.add_sub_cancel_left _ _
  have gLo : magOrd f.ord - magOrd (f.ord - 1) = 2 ^ ((f.ord - 1) / 2 ^ 52 - 1) := by
    have := magOrd_gap (f.ord - 1)
    have e : f.ord - 1 + 1 = f.ord := by omega
    rw [e] at this
    rw [this]; exact Nat.add_sub_cancel_left _ _
  by_cases hsub : f.exp = 0
  · -- subnormal: s2 = 1075, mlo = mhi = 1
    have hE' : (f.ord - 1) / 2 ^ 52 - 1 = 0 := by unfold F64.ord; rw [hsub]; omega
    have hsubB : (f.exp == 0) = true := by simp [hsub]
    have hspB : (f.man == 0 && decide (2 ≤ f.exp)) = false := by
      have : ¬ 2 ≤ f.exp := by omega
      simp [this]
    have key : fracInit f = { b := (if 1074 ≤ 1075 then f.mag % scale * 2 ^ (1075 - 1074)
          else f.mag % scale / 2 ^ (1074 - 1075)), s := 2 ^ 1075, mlo := 1, mhi := 1 } := by
      unfold fracInit
      simp only [hsubB, hspB, if_true, Bool.false_eq_true, if_false]
    rw [key]
    have hg1 : magOrd f.ord - magOrd (f.ord - 1) = 2 ^ 0 := by rw [gLo, hE']
    have hg2 : magOrd (f.ord + 1) - magOrd f.ord = 2 ^ 0 := by rw [gHi, hsub]
    exact initRel_of f 1075 1 0 0 hg1 hg2 (by omega) (Or.inl ⟨rfl, by omega⟩) (fun h => by omega)
  · have hE1 : 1 ≤ f.exp := by omega
    have hsubB : (f.exp == 0) = false := by simp [hsub]
    have hbig : 2 ^ 52 ≤ f.ord := by
      unfold F64.ord; omega
    by_cases hsp : f.man = 0 ∧ 2 ≤ f.exp
    · -- power of two, E ≥ 2: s2 = 1077 − E, mlo = 1, mhi = 2
      obtain ⟨hm0, hE2⟩ := hsp
      have hE' : (f.ord - 1) / 2 ^ 52 - 1 = f.exp - 2 := by unfold F64.ord; rw [hm0]; omega
      have hspB : (f.man == 0 && decide (2 ≤ f.exp)) = true := by simp [hm0, hE2]
      have e77 : 1076 - f.exp + 1 = 1077 - f.exp := by omega
      have key : fracInit f = { b := (if 1074 ≤ 1077 - f.exp then f.mag % scale * 2 ^ (1077 - f.exp - 1074)
            else f.mag % scale / 2 ^ (1074 - (1077 - f.exp))), s := 2 ^ (1077 - f.exp), mlo := 1, mhi := 2 } := by
        unfold fracInit
        simp only [hsubB, hspB, if_true, Bool.false_eq_true, if_false, e77]
      rw [key]
      refine initRel_of f (1077 - f.exp) 2 (f.exp - 2) (f.exp - 1) (by rw [gLo, hE']) gHi (by omega)
        (Or.inr ⟨rfl, by omega⟩) ?_
      intro _
      apply (Nat.dvd_mod_iff (Nat.pow_dvd_pow 2 (by omega))).mpr
      exact magOrd_dvd f.ord _ (by rw [hE]; omega) hbig
    · -- ordinary: s2 = 1076 − E, mlo = mhi = 1
      have hspB : (f.man == 0 && decide (2 ≤ f.exp)) = false := by
        cases hh : (f.man == 0 && decide (2 ≤ f.exp)) with
        | false => rfl
        | true =>
          simp only [Bool.and_eq_true, beq_iff_eq, decide_eq_true_eq] at hh
          exact absurd hh hsp
      have hE' : (f.ord - 1) / 2 ^ 52 - 1 = f.exp - 1 := by
        unfold F64.ord
        by_cases hm0 : f.man = 0
        · have : f.exp = 1 := by
            apply Classical.byContradiction; intro hc; exact hsp ⟨hm0, by omega⟩
          rw [hm0, this]
        · have : (f.exp * 2 ^ 52 + f.man - 1) / 2 ^ 52 = f.exp := by omega
          rw [this]
      have key : fracInit f = { b := (if 1074 ≤ 1076 - f.exp then f.mag % scale * 2 ^ (1076 - f.exp - 1074)
            else f.mag % scale / 2 ^ (1074 - (1076 - f.exp))), s := 2 ^ (1076 - f.exp), mlo := 1, mhi := 1 } := by
        unfold fracInit
        simp only [hsubB, hspB, if_true, Bool.false_eq_true, if_false]
      rw [key]
      refine initRel_of f (1076 - f.exp) 1 (f.exp - 1) (f.exp - 1) (by rw [gLo, hE']) gHi (by omega)
        (Or.inl ⟨rfl, by omega⟩) ?_
      intro _
      apply (Nat.dvd_mod_iff (Nat.pow_dvd_pow 2 (by omega))).mpr
      exact magOrd_dvd f.ord _ (by rw [hE]; omega) hbig


/-- A rational that IS the value of a finite double is accepted for that double. -/
theorem exact_isNearest (n k : Nat) (hk : k < infOrd) (h : n * scale = magOrd k) : isNearestMag n 1 k = true := by
  have hI : (k == infOrd) = false := by
    have : k ≠ infOrd := by omega
    simp [this]
  have hup : magOrd k < magOrd (k + 1) := magOrd_lt_succ k
  have e2 : 2 * n * scale = 2 * (n * scale) := Nat.mul_assoc _ _ _
  simp only [isNearestMag, Nat.lt_irrefl, Nat.one_pos, decide_true, Nat.le_of_lt hk, Bool.true_and, lowerOK, upperOK,
    hI, Bool.false_or, Nat.mul_one, Bool.and_eq_true, Bool.or_eq_true, decide_eq_true_eq, beq_iff_eq, e2, h]
  constructor
  · by_cases h0 : k = 0
    · left; exact h0
    · right; left
      have : magOrd (k - 1) < magOrd k := magOrd_strictMono (by omega)
      omega
  · left; omega

/-- **`Number.prototype.toString(radix)` parses back — for EVERY finite double and every radix** (mechanism model
of `ftoa.FToBaseStr`).  Whatever digits the transcribed algorithm prints — positional digits of the integer part, and
for non-integers the digits of the shortest-uniquely-identifying fraction loop — denote a number inside the rounding
interval of the double: the predicate of `radix_sound` / `isNearest_sound` holds.  Universally quantified over the
double, the radix and the fuel; the only proviso is that the loop finishes within the fuel (termination itself is not
proved; it is observed on every checked case). -/
theorem toBaseStr_sound (fuel : Nat) (f : F64) (r : Nat) (hr : 0 < r) (hfin : f.exp < 2047) (ipd fd : List Nat)
    (h : toBaseDigitsFuel fuel f r = (ipd, some fd)) :
    isNearestMag (natOfDigits r (ipd ++ fd)) (r ^ fd.length) f.ord = true := by
  have hm := f.hman
  have hord : f.ord < infOrd := by unfold F64.ord infOrd; omega
  unfold toBaseDigitsFuel at h
  by_cases hR : f.mag % scale = 0
  · have hRb : (f.mag % scale == 0) = true := by rw [hR]; rfl
    rw [hRb] at h
    simp only [if_true, Prod.mk.injEq, Option.some.injEq] at h
    obtain ⟨h1, h2⟩ := h
    subst h1; subst h2
    rw [List.append_nil, List.length_nil, Nat.pow_zero]
    apply exact_isNearest _ _ hord
    rw [radixDigits_value]
    have := Nat.div_add_mod f.mag scale
    rw [hR, Nat.add_zero, Nat.mul_comm] at this
    exact this
  · have hRb : (f.mag % scale == 0) = false := by
      cases hh : (f.mag % scale == 0) with
      | false => rfl
      | true => exact absurd (eq_of_beq hh) hR
    rw [hRb] at h
    simp only [Bool.false_eq_true, if_false, Prod.mk.injEq] at h
    obtain ⟨h1, h2⟩ := h
    subst h1
    have hk : f.ord ≠ 0 := by
      intro h0
      apply hR
      show magOrd f.ord % scale = 0
      rw [h0, magOrd_small (by decide)]
      exact Nat.zero_mod _
    exact toBase_frac_sound_of_rel f r hr hord hk (fracInit f) (fracInit_rel f hR) fuel fd _ h2
      (radixDigits_value r _)

end GojaModel.C12
