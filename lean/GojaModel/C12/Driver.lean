/-
  C12 driver: runs the (proved) certifying checkers of Model.lean on (input, output) pairs produced by the real
  implementation.  One line in, one line out:  `ok <tag>`  or  `bad <reason>`.

     tostr  <bits> <text>            String(x)                       / ftoa.FToStr(x, ModeStandard)
     expu   <bits> <text>            x.toExponential()               / ModeStandardExponential
     fixed  <bits> <fd> <text>       x.toFixed(fd)                   / ModeFixed
     exp    <bits> <fd> <text>       x.toExponential(fd)             / ModeExponential (precision fd+1)
     prec   <bits> <p> <text>        x.toPrecision(p)                / ModePrecision
     radix  <bits> <r> <text>        x.toString(r)  (r = 10: same as tostr)
     fbase  <bits> <r> <text>        ftoa.FToBaseStr(x, r)   (parse-back only)
     num    s:<string> <bits>        Number(string)
     pfloat s:<string> <bits>        parseFloat(string)
     pint   <radix> s:<string> <bits>  parseInt(string, radix)
     lit    s:<string> <bits>        the numeric literal evaluated by the runtime
     rt     <bits> <bits>            Number(String(x)) = x
  <bits> = 16 hex digits.  <string> has no spaces ('~' stands for a space, \\uXXXX for any other code unit).
-/
import GojaModel.Base.Proto
import GojaModel.C12.Model
import GojaModel.C12.Radix

namespace GojaModel.C12.Driver
open GojaModel GojaModel.C12

def bitsOf (s : String) : Option F64 :=
  if s.length != 16 then none else (Proto.parseHex? s).map F64.ofBits

def natOf (s : String) : Option Nat := s.toNat?

def intOf (s : String) : Option Int :=
  match s.toList with
  | '-' :: r => (String.ofList r).toNat?.map (fun n => -(n : Int))
  | _ => s.toNat?.map (fun n => (n : Int))

def ok (tag : String) : String := "ok " ++ tag
def bad (why : String) : String := "bad " ++ why

def specials (f : F64) (text : List Char) : Option String :=
  if f.isNaN then some (if text == "NaN".toList then ok "nan" else bad "nan-text")
  else if f.isInf then
    some (if text == (if f.neg then "-Infinity".toList else "Infinity".toList) then ok "inf" else bad "inf-text")
  else none

/-- Strip the sign the spec prescribes (`-` iff x < 0; −0 prints without sign). -/
def stripSign (f : F64) (text : List Char) : Option (List Char) :=
  if f.neg && !f.isZero then
    match text with
    | '-' :: r => some r
    | _ => none
  else some text

def layoutTag (k : Nat) (n : Int) : String :=
  if (k : Int) ≤ n ∧ n ≤ 21 then "int" else if 0 < n ∧ n ≤ 21 then "point"
  else if -6 < n ∧ n ≤ 0 then "small" else "expn"

/-- Shortest round-trip digits in layout `fmt`. -/
def checkShortest (f : F64) (body : List Char) (fmt : List Nat → Int → List Char) : String :=
  match readDigits body with
  | none => bad "unreadable"
  | some (sig, n) =>
    let ds := dropTrailingZeros sig
    let k := ds.length
    let s := natOfDigits 10 ds
    let c : Int := n - (k : Int)
    if fmt ds n != body then bad "layout"
    else if !roundsTo s c f.ord then bad "not-round-trip"
    else if !isShortest f.ord s k c then bad "not-shortest"
    else if !isClosest f.ord s k c then bad "not-closest"
    else ok ("short:" ++ layoutTag k n ++ (if k ≥ 17 then ":k17" else if k ≤ 3 then ":k<=3" else ""))

def checkToStr (f : F64) (text : List Char) (fmt : List Nat → Int → List Char := ecmaFormat) : String :=
  match specials f text with
  | some r => r
  | none =>
    if f.isZero then (if text == (fmt [0] 1) then ok "zero" else bad "zero-text") else
    match stripSign f text with
    | none => bad "sign"
    | some body => checkShortest f body fmt

def tenTo21Scaled : Nat := 10 ^ 21 * scale

def checkFixed (f : F64) (fd : Nat) (text : List Char) : String :=
  if f.isNaN then (if text == "NaN".toList then ok "nan" else bad "nan-text")
  else if f.isInf || f.mag ≥ tenTo21Scaled then checkToStr f text
  else
    match stripSign f text with
    | none => bad "sign"
    | some body =>
      match scanDec body with
      | none => bad "unreadable"
      | some l =>
        if !l.rest.isEmpty || l.hasExp then bad "unreadable" else
        let N := natOfDigits 10 (l.int ++ l.frac)
        if fixedFormat N fd != body then bad "layout"
        else if !isFixed f.mag fd N then bad "fixed-rounding"
        else
          let p := N * scale; let q := f.mag * 10 ^ fd
          ok ("fixed" ++ (if 2 * absDiff p q == scale then ":tie" else if p == q then ":exact" else ""))

def expTag (X _fd n : Nat) (c : Int) : String :=
  let un := 10 ^ c.toNat
  let p := n * un * scale; let q := X * decDen c
  if 2 * absDiff p q == un * scale then ":tie" else if p == q then ":exact" else ""

def checkExp (f : F64) (fd : Nat) (text : List Char) : String :=
  match specials f text with
  | some r => r
  | none =>
    match stripSign f text with
    | none => bad "sign"
    | some body =>
      if f.isZero then
        (if body == expFormat (List.replicate (fd + 1) 0) 1 then ok "zero" else bad "zero-text")
      else
      match readDigits body with
      | none => bad "unreadable"
      | some (sig, n) =>
        if sig.length != fd + 1 then bad "digit-count"
        else if expFormat sig n != body then bad "layout"
        else
          let c : Int := n - ((fd + 1 : Nat) : Int)
          if !isExp f.mag fd (natOfDigits 10 sig) c then bad "exp-rounding"
          else ok ("exp" ++ expTag f.mag fd (natOfDigits 10 sig) c)

def checkPrec (f : F64) (p : Nat) (text : List Char) : String :=
  match specials f text with
  | some r => r
  | none =>
    if p == 0 then bad "p=0" else
    match stripSign f text with
    | none => bad "sign"
    | some body =>
      if f.isZero then
        (if body == precFormat (List.replicate p 0) 0 p then ok "zero" else bad "zero-text")
      else
      match readDigits body with
      | none => bad "unreadable"
      | some (sig, n) =>
        if sig.length != p then bad "digit-count"
        else if precFormat sig (n - 1) p != body then bad "layout"
        else
          let c : Int := n - (p : Int)
          if !isExp f.mag (p - 1) (natOfDigits 10 sig) c then bad "prec-rounding"
          else ok ("prec:" ++ (if n - 1 < -6 ∨ n - 1 ≥ (p : Int) then "expn" else "plain")
                    ++ expTag f.mag (p - 1) (natOfDigits 10 sig) c)

/-- The digit string in radix `r` denotes a value that rounds to `f`. -/
def checkRadix (f : F64) (r : Nat) (text : List Char) : String :=
  match specials f text with
  | some res => res
  | none =>
    if r < 2 || r > 36 then bad "radix" else
    if f.isZero then (if text == ['0'] then ok "zero" else bad "zero-text") else
    match stripSign f text with
    | none => bad "sign"
    | some body =>
      let (ip, r1) := takeDigits r body
      let (fp, hasDot, r2) := match r1 with
        | '.' :: r' => let (fp, r2) := takeDigits r r'; (fp, true, r2)
        | _ => ([], false, r1)
      if ip.isEmpty || !r2.isEmpty || (hasDot && fp.isEmpty) then bad "unreadable"
      else if ip.length > 1 && ip.head? == some 0 then bad "leading-zero"
      else if digitsStr ip ++ (if hasDot then '.' :: digitsStr fp else []) != body then bad "charset"
      else if !isNearestMag (natOfDigits r (ip ++ fp)) (r ^ fp.length) f.ord then bad "radix-not-round-trip"
      -- mechanism model (Radix.lean, transcription of ftoa.FToBaseStr): the exact string is predicted
      else if toBaseStr f r != some text then
        bad ("radix-model-mismatch model=" ++ (match toBaseStr f r with
          | some t => String.ofList (t.take 60) | none => "<fuel>"))
      else ok ("radix" ++ (if hasDot then ":frac" else ":int"))

def parsedTag : Parsed → String
  | .nan => "nan" | .inf _ => "inf" | .zero _ => "zero" | .huge _ => "huge" | .tiny _ => "tiny"
  | .rat _ _ d => if d == 1 then "int" else "rat"

def resultTag (p : Parsed) (f : F64) : String :=
  match p with
  | .rat _ n d =>
    let k := f.ord
    let l := 2 * n * scale
    (if f.isInf then ":ovf" else if f.isZero then ":udf" else if f.exp == 0 then ":sub" else "") ++
    (if k > 0 ∧ (magOrd (k - 1) + magOrd k) * d == l then ":tie"
     else if k < infOrd ∧ (magOrd k + magOrd (k + 1)) * d == l then ":tie" else "")
  | _ => ""

def checkParsed (kind : String) (p : Parsed) (res : String) (zeroSignFree := false) : String :=
  match bitsOf res with
  | none => bad ("result:" ++ res)
  | some f =>
    -- (1) the proved acceptance predicate, (2) the proved rounding function; by `roundOrd_complete` they agree
    let viaFunction : Bool := match p.expectedBits with
      | none => f.isNaN
      | some b => f.toBits == b || (zeroSignFree && f.isZero && b % 2 ^ 63 == 0)
    let expected : String := match p.expectedBits with
      | none => "NaN"
      | some b => Proto.toHexW 16 b
    if p.accepts f zeroSignFree && viaFunction then ok (kind ++ ":" ++ parsedTag p ++ resultTag p f)
    else if p.accepts f zeroSignFree != viaFunction then bad (kind ++ "-checker-and-function-disagree expected=" ++ expected)
    else bad (kind ++ "-not-nearest:" ++ parsedTag p ++ " expected=" ++ expected)

/-- Decode `s:<text>`: `~` is a space, `\uXXXX` one code unit. -/
def unescChars : Nat → List Char → List Char
  | 0, _ => []
  | _, [] => []
  | fuel + 1, '\\' :: 'u' :: a :: b :: c :: d :: rest =>
    match Proto.parseHex? (String.ofList [a, b, c, d]) with
    | some v => Char.ofNat v :: unescChars fuel rest
    | none => '\\' :: unescChars fuel ('u' :: a :: b :: c :: d :: rest)
  | fuel + 1, '~' :: rest => ' ' :: unescChars fuel rest
  | fuel + 1, ch :: rest => ch :: unescChars fuel rest

def unesc (s : String) : List Char :=
  let cs := s.toList.drop 2
  unescChars (cs.length + 1) cs

def handle (line : String) : String :=
  match Proto.words line with
  | ["tostr", b, t] => match bitsOf b with
    | some f => checkToStr f t.toList | none => bad "args"
  | ["expu", b, t] => match bitsOf b with
    | some f => checkToStr f t.toList expFormat | none => bad "args"
  | ["fixed", b, n, t] => match bitsOf b, natOf n with
    | some f, some fd => checkFixed f fd t.toList | _, _ => bad "args"
  | ["exp", b, n, t] => match bitsOf b, natOf n with
    | some f, some fd => checkExp f fd t.toList | _, _ => bad "args"
  | ["prec", b, n, t] => match bitsOf b, natOf n with
    | some f, some p => checkPrec f p t.toList | _, _ => bad "args"
  | ["radix", b, r, t] => match bitsOf b, natOf r with
    | some f, some r => if r == 10 then checkToStr f t.toList else checkRadix f r t.toList
    | _, _ => bad "args"
  | ["fbase", b, r, t] => match bitsOf b, natOf r with
    | some f, some r => checkRadix f r t.toList | _, _ => bad "args"
  | ["num", s, res] => checkParsed "num" (parseNumber (unesc s)) res
  | ["pfloat", s, res] => checkParsed "pfloat" (parseFloatSpec (unesc s)) res
  | ["pint", r, s, res] => match intOf r with
    | some r => checkParsed "pint" (parseIntSpec (unesc s) r) res
    | none => bad "args"
  | ["lit", s, res] => checkParsed "lit" (parseLiteral (unesc s)) res
  | ["rt", b, res] => match bitsOf b, bitsOf res with
    | some f, some g =>
      -- String(-0) is "0" (Number::toString step 2), so the round trip identifies the two zeros
      if (f.isNaN && g.isNaN) || f.toBits == g.toBits || (f.isZero && g.isZero && !g.neg) then ok "rt"
      else bad "number-of-string-differs"
    | _, _ => bad ("result:" ++ res)
  | _ => bad "unknown-op"

def main : IO Unit := Proto.lineMap handle

end GojaModel.C12.Driver
