/-
  C12 grammar layer: the declarative ECMA-262 grammar of StrUnsignedDecimalLiteral (`DecText`), and theorems that tie
  the executable scanners of Model.lean (`takeDigits`, `scanFrac`, `scanExp`, `scanDec`) to it: soundness
  (what is consumed is a literal with exactly the returned components) and maximal munch / completeness.
  Core Lean only; not imported by the driver.
-/
import GojaModel.C12.Lemmas
namespace GojaModel.C12

/-! ## declarative grammar of ECMA-262 StrUnsignedDecimalLiteral (without `Infinity`) and scanner theorems -/

/-- A character list at which a radix-`r` digit scan stops. -/
def StopsR (r : Nat) : List Char → Prop
  | [] => True
  | c :: _ => ¬ digitVal c < r

theorem takeDigits_stopR {r : Nat} {rest : List Char} (h : StopsR r rest) : takeDigits r rest = ([], rest) := by
  cases rest with
  | nil => rfl
  | cons c cs =>
    have : ¬ digitVal c < r := h
    simp [takeDigits, this]

/-- Maximal munch, compositional form: a run of valid digits is consumed entirely and scanning continues after it. -/
theorem takeDigits_append (r : Nat) (pre rest : List Char) (h : ∀ c ∈ pre, digitVal c < r) :
    takeDigits r (pre ++ rest) = (pre.map digitVal ++ (takeDigits r rest).1, (takeDigits r rest).2) := by
  induction pre with
  | nil => simp
  | cons c cs ih =>
    have hc : digitVal c < r := h c List.mem_cons_self
    have ih' := ih (fun d hm => h d (List.mem_cons_of_mem _ hm))
    simp only [List.cons_append, takeDigits, hc, if_true, ih', List.map_cons]

/-- What `takeDigits` returns: the input splits into a run of valid digits (whose values are returned) and a rest
at which the scan stops — i.e. the longest prefix of radix-`r` digits. -/
theorem takeDigits_spec (r : Nat) (cs : List Char) :
    ∃ pre, cs = pre ++ (takeDigits r cs).2 ∧ (takeDigits r cs).1 = pre.map digitVal ∧
      (∀ c ∈ pre, digitVal c < r) ∧ StopsR r (takeDigits r cs).2 := by
  induction cs with
  | nil => exact ⟨[], rfl, rfl, by simp, trivial⟩
  | cons c cs ih =>
    by_cases hc : digitVal c < r
    · obtain ⟨pre, h1, h2, h3, h4⟩ := ih
      refine ⟨c :: pre, ?_, ?_, ?_, ?_⟩
      · simp only [takeDigits, hc, if_true, List.cons_append]; rw [← h1]
      · simp only [takeDigits, hc, if_true, List.map_cons, h2]
      · intro d hm
        rcases List.mem_cons.mp hm with h | h
        · subst h; exact hc
        · exact h3 d h
      · simpa only [takeDigits, hc, if_true] using h4
    · refine ⟨[], ?_, ?_, by simp, ?_⟩
      · simp [takeDigits, hc]
      · simp [takeDigits, hc]
      · simp only [takeDigits, hc, if_false]; exact hc

theorem takeDigits_len (r : Nat) (cs : List Char) : (takeDigits r cs).2.length ≤ cs.length := by
  obtain ⟨pre, h1, _, _, _⟩ := takeDigits_spec r cs
  have := congrArg List.length h1
  simp only [List.length_append] at this
  omega

/-- ExponentPart ::: (e|E) (+|-)? DecimalDigits -/
structure ExpPart where
  eChar : Char
  sign : List Char
  digits : List Char

def ExpPart.text (x : ExpPart) : List Char := x.eChar :: (x.sign ++ x.digits)

def ExpPart.WF (x : ExpPart) : Prop :=
  (x.eChar = 'e' ∨ x.eChar = 'E') ∧ (x.sign = [] ∨ x.sign = ['+'] ∨ x.sign = ['-']) ∧
  x.digits ≠ [] ∧ ∀ c ∈ x.digits, digitVal c < 10

def ExpPart.value (x : ExpPart) : Int :=
  (if x.sign = ['-'] then -1 else 1) * ((natOfDigits 10 (x.digits.map digitVal) : Nat) : Int)

/-- StrUnsignedDecimalLiteral ::: DecimalDigits . DecimalDigits? ExponentPart? | . DecimalDigits ExponentPart? |
DecimalDigits ExponentPart?   (the `Infinity` alternative is handled separately by the parsers). -/
structure DecText where
  I : List Char
  F : List Char
  dot : Bool
  ex : Option ExpPart

def DecText.exText (t : DecText) : List Char :=
  match t.ex with
  | none => []
  | some x => x.text

def DecText.text (t : DecText) : List Char :=
  t.I ++ ((if t.dot then '.' :: t.F else []) ++ t.exText)

def DecText.WF (t : DecText) : Prop :=
  (∀ c ∈ t.I, digitVal c < 10) ∧ (∀ c ∈ t.F, digitVal c < 10) ∧ (t.I ≠ [] ∨ t.F ≠ []) ∧
  (t.dot = false → t.F = []) ∧ (match t.ex with | none => True | some x => x.WF)

def DecText.expValue (t : DecText) : Int :=
  match t.ex with
  | none => 0
  | some x => x.value

/-- A scanned literal has exactly the components of the text `t`. -/
def DecLit.Matches (l : DecLit) (t : DecText) : Prop :=
  l.int = t.I.map digitVal ∧ l.frac = t.F.map digitVal ∧ l.hasDot = t.dot ∧ l.exp = t.expValue ∧
  l.hasExp = t.ex.isSome

/-! ### the three scanner stages -/

theorem scanFrac_spec (r1 : List Char) :
    ∃ F, (scanFrac r1).1 = F.map digitVal ∧ (∀ c ∈ F, digitVal c < 10) ∧
      r1 = (if (scanFrac r1).2.1 then '.' :: F else []) ++ (scanFrac r1).2.2 ∧
      ((scanFrac r1).2.1 = false → F = []) := by
  unfold scanFrac
  split
  · rename_i r
    obtain ⟨pre, h1, h2, h3, _⟩ := takeDigits_spec 10 r
    refine ⟨pre, h2, h3, ?_, by simp⟩
    simp only [if_true, List.cons_append]
    rw [← h1]
  · exact ⟨[], rfl, by simp, by simp, fun _ => rfl⟩

theorem scanSign_spec (r : List Char) :
    ∃ sg, (sg = [] ∨ sg = ['+'] ∨ sg = ['-']) ∧ r = sg ++ (scanSign r).2 ∧
      (scanSign r).1 = (if sg = ['-'] then -1 else 1) := by
  unfold scanSign
  split
  · exact ⟨['+'], by simp, rfl, by simp⟩
  · exact ⟨['-'], by simp, rfl, by simp⟩
  · exact ⟨[], by simp, rfl, by simp⟩

theorem scanExp_spec (r2 : List Char) :
    scanExp r2 = (0, false, r2) ∨
      ∃ x : ExpPart, x.WF ∧ r2 = x.text ++ (scanExp r2).2.2 ∧ (scanExp r2).1 = x.value ∧ (scanExp r2).2.1 = true := by
  cases r2 with
  | nil => left; rfl
  | cons c r =>
    by_cases hc : (c == 'e' || c == 'E') = true
    · obtain ⟨sg, hsg, hr, hv⟩ := scanSign_spec r
      obtain ⟨pre, h1, h2, h3, _⟩ := takeDigits_spec 10 (scanSign r).2
      by_cases hem : (takeDigits 10 (scanSign r).2).1.isEmpty = true
      · left
        simp only [scanExp, hc, if_true, hem]
      · right
        have hem' : (takeDigits 10 (scanSign r).2).1.isEmpty = false := by
          cases h : (takeDigits 10 (scanSign r).2).1.isEmpty with
          | true => exact absurd h hem
          | false => rfl
        have hem2 : (List.map digitVal pre).isEmpty = false := by rw [← h2]; exact hem'
        refine ⟨⟨c, sg, pre⟩, ⟨?_, hsg, ?_, h3⟩, ?_, ?_, ?_⟩
        · simp only [Bool.or_eq_true, beq_iff_eq] at hc; exact hc
        · intro hp
          simp only at hp
          subst hp
          simp at hem2
        · simp only [scanExp, hc, if_true, hem', Bool.false_eq_true, if_false, ExpPart.text, List.cons_append,
            List.append_assoc]
          rw [← h1, ← hr]
        · simp only [scanExp, hc, if_true, h2, hem2, Bool.false_eq_true, if_false, ExpPart.value, hv]
        · simp only [scanExp, hc, if_true, hem', Bool.false_eq_true, if_false]
    · left
      have hc' : (c == 'e' || c == 'E') = false := by
        cases h : (c == 'e' || c == 'E') with
        | true => exact absurd h hc
        | false => rfl
      simp only [scanExp, hc', Bool.false_eq_true, if_false]

/-- **Soundness of the decimal scanner.**  Whatever `scanDec` returns, the consumed prefix is a well-formed
StrUnsignedDecimalLiteral whose components (integer digits, fraction digits, exponent) are exactly the returned ones. -/
theorem scanDec_sound (cs : List Char) (l : DecLit) (h : scanDec cs = some l) :
    ∃ t : DecText, t.WF ∧ cs = t.text ++ l.rest ∧ l.Matches t := by
  unfold scanDec at h
  simp only [] at h
  obtain ⟨I, hI1, hI2, hI3, _⟩ := takeDigits_spec 10 cs
  obtain ⟨F, hF1, hF2, hF3, hF4⟩ := scanFrac_spec (takeDigits 10 cs).2
  split at h
  · cases h
  · rename_i hne
    simp only [Option.some.injEq] at h
    have hne' : I ≠ [] ∨ F ≠ [] := by
      by_cases hi : I = []
      · right
        intro hf
        apply hne
        rw [hI2, hF1, hi, hf]; rfl
      · left; exact hi
    rcases scanExp_spec (scanFrac (takeDigits 10 cs).2).2.2 with he | ⟨x, hx1, hx2, hx3, hx4⟩
    · refine ⟨⟨I, F, (scanFrac (takeDigits 10 cs).2).2.1, none⟩, ⟨hI3, hF2, hne', hF4, trivial⟩, ?_, ?_⟩
      · subst h
        simp only [DecText.text, DecText.exText, List.append_nil, he]
        rw [List.append_assoc, ← hF3, ← hI1]
      · subst h
        exact ⟨hI2, hF1, rfl, by simp [he, DecText.expValue], by simp [he]⟩
    · refine ⟨⟨I, F, (scanFrac (takeDigits 10 cs).2).2.1, some x⟩, ⟨hI3, hF2, hne', hF4, hx1⟩, ?_, ?_⟩
      · subst h
        simp only [DecText.text, DecText.exText]
        rw [List.append_assoc, List.append_assoc, ← hx2, ← hF3, ← hI1]
      · subst h
        exact ⟨hI2, hF1, rfl, by simp [hx3, DecText.expValue], by simp [hx4]⟩


/-! ### maximal munch -/

theorem not_digit_of {c : Char} (h : c = '.' ∨ c = 'e' ∨ c = 'E' ∨ c = '+' ∨ c = '-') : ¬ digitVal c < 10 := by
  rcases h with h | h | h | h | h <;> subst h <;> decide

theorem scanFrac_len (r : List Char) : (scanFrac r).2.2.length ≤ r.length := by
  unfold scanFrac
  split
  · rename_i r'
    have := takeDigits_len 10 r'
    simp only [List.length_cons]; omega
  · exact Nat.le_refl _

theorem scanSign_len (r : List Char) : (scanSign r).2.length ≤ r.length := by
  unfold scanSign
  split <;> simp

theorem scanExp_len (r : List Char) : (scanExp r).2.2.length ≤ r.length := by
  cases r with
  | nil => simp [scanExp]
  | cons c r =>
    simp only [scanExp]
    split
    · split
      · exact Nat.le_refl _
      · have h1 := takeDigits_len 10 (scanSign r).2
        have h2 := scanSign_len r
        simp only [List.length_cons]; omega
    · exact Nat.le_refl _

theorem scanFrac_dot (F tail : List Char) (hF : ∀ c ∈ F, digitVal c < 10) :
    scanFrac ('.' :: (F ++ tail)) = (F.map digitVal ++ (takeDigits 10 tail).1, true, (takeDigits 10 tail).2) := by
  simp only [scanFrac, takeDigits_append 10 F tail hF]

theorem scanFrac_nodot (tail : List Char) (h : ∀ r, tail ≠ '.' :: r) : scanFrac tail = ([], false, tail) := by
  unfold scanFrac
  split
  · rename_i r; exact absurd rfl (h r)
  · rfl

theorem scanSign_digit (c : Char) (r : List Char) (h : digitVal c < 10) : scanSign (c :: r) = (1, c :: r) := by
  have h1 : c ≠ '+' := fun e => not_digit_of (Or.inr (Or.inr (Or.inr (Or.inl e)))) h
  have h2 : c ≠ '-' := fun e => not_digit_of (Or.inr (Or.inr (Or.inr (Or.inr e)))) h
  unfold scanSign
  split
  · rename_i heq; cases heq; exact absurd rfl h1
  · rename_i heq; cases heq; exact absurd rfl h2
  · rfl

/-- Scanning a well-formed ExponentPart followed by anything: it is consumed, together with further digits. -/
theorem scanExp_wf (x : ExpPart) (hx : x.WF) (tail : List Char) :
    scanExp (x.text ++ tail) =
      ((if x.sign = ['-'] then -1 else 1) *
          ((natOfDigits 10 (x.digits.map digitVal ++ (takeDigits 10 tail).1) : Nat) : Int),
        true, (takeDigits 10 tail).2) := by
  obtain ⟨he, hs, hne, hd⟩ := hx
  have hc : (x.eChar == 'e' || x.eChar == 'E') = true := by
    rcases he with h | h <;> simp [h]
  have hsign : scanSign (x.sign ++ (x.digits ++ tail)) =
      ((if x.sign = ['-'] then -1 else 1), x.digits ++ tail) := by
    rcases hs with h | h | h
    · rw [h]
      cases hdg : x.digits with
      | nil => exact absurd hdg hne
      | cons d ds =>
        have : digitVal d < 10 := hd d (by rw [hdg]; exact List.mem_cons_self)
        simp only [List.nil_append, List.cons_append]
        rw [scanSign_digit d _ this]
        simp
    · rw [h]; simp [scanSign]
    · rw [h]; simp [scanSign]
  have hT := takeDigits_append 10 x.digits tail hd
  have hne2 : (x.digits.map digitVal ++ (takeDigits 10 tail).1).isEmpty = false := by
    cases hdg : x.digits with
    | nil => exact absurd hdg hne
    | cons d ds => simp
  simp only [ExpPart.text, List.cons_append, List.append_assoc, scanExp, hc, if_true, hsign, hT, hne2,
    Bool.false_eq_true, if_false]

theorem scanDec_eq (cs : List Char)
    (hne : ((takeDigits 10 cs).1.isEmpty && (scanFrac (takeDigits 10 cs).2).1.isEmpty) = false) :
    scanDec cs = some
      { int := (takeDigits 10 cs).1, frac := (scanFrac (takeDigits 10 cs).2).1,
        hasDot := (scanFrac (takeDigits 10 cs).2).2.1,
        exp := (scanExp (scanFrac (takeDigits 10 cs).2).2.2).1,
        hasExp := (scanExp (scanFrac (takeDigits 10 cs).2).2.2).2.1,
        rest := (scanExp (scanFrac (takeDigits 10 cs).2).2.2).2.2 } := by
  unfold scanDec
  simp only [hne, Bool.false_eq_true, if_false]

theorem stopsR_of_head {c : Char} {r : List Char} (h : ¬ digitVal c < 10) : StopsR 10 (c :: r) := h

/-- **Completeness and maximal munch of the decimal scanner.**  If the input starts with ANY well-formed
StrUnsignedDecimalLiteral `t`, the scanner succeeds and consumes at least that much (so, with `scanDec_sound`, the
consumed prefix is the LONGEST literal prefix — what `parseFloat` must use); and if the input IS `t` (nothing
follows) the scanner returns exactly the components of `t` and an empty rest (what `Number()` needs). -/
theorem scanDec_longest (t : DecText) (ht : t.WF) (rest : List Char) :
    ∃ l, scanDec (t.text ++ rest) = some l ∧ l.rest.length ≤ rest.length ∧
      (rest = [] → l.Matches t ∧ l.rest = []) := by
  obtain ⟨hI, hF, hne, hnd, hex⟩ := ht
  have hIne : t.I ≠ [] → (t.I.map digitVal).isEmpty = false := by
    intro h; cases hh : t.I with
    | nil => exact absurd hh h
    | cons a b => simp
  have hFne : t.F ≠ [] → (t.F.map digitVal).isEmpty = false := by
    intro h; cases hh : t.F with
    | nil => exact absurd hh h
    | cons a b => simp
  cases hdot : t.dot with
  | true =>
    -- I . F [exp] rest
    have htext : t.text ++ rest = t.I ++ ('.' :: (t.F ++ (t.exText ++ rest))) := by
      simp [DecText.text, hdot, List.append_assoc]
    have hT : takeDigits 10 (t.text ++ rest) = (t.I.map digitVal, '.' :: (t.F ++ (t.exText ++ rest))) := by
      rw [htext, takeDigits_append 10 _ _ hI,
        takeDigits_stopR (stopsR_of_head (not_digit_of (Or.inl rfl)))]
      simp
    have hFr := scanFrac_dot t.F (t.exText ++ rest) hF
    cases hx : t.ex with
    | some x =>
      have hxwf : x.WF := by rw [hx] at hex; exact hex
      have hext : t.exText = x.text := by simp [DecText.exText, hx]
      have hstop : takeDigits 10 (x.text ++ rest) = ([], x.text ++ rest) := by
        apply takeDigits_stopR
        have : ¬ digitVal x.eChar < 10 := by
          rcases hxwf.1 with h | h
          · exact not_digit_of (Or.inr (Or.inl h))
          · exact not_digit_of (Or.inr (Or.inr (Or.inl h)))
        exact this
      rw [hext, hstop] at hFr
      simp only [List.append_nil] at hFr
      have hE := scanExp_wf x hxwf rest
      have hnE : ((takeDigits 10 (t.text ++ rest)).1.isEmpty &&
          (scanFrac (takeDigits 10 (t.text ++ rest)).2).1.isEmpty) = false := by
        rw [hT]; simp only []; rw [hext, hFr]; simp only []
        rcases hne with h | h
        · rw [hIne h]; rfl
        · rw [hFne h]; simp
      refine ⟨_, scanDec_eq _ hnE, ?_, ?_⟩
      · simp only [hT, hext, hFr, hE]; exact takeDigits_len 10 rest
      · intro hr
        subst hr
        simp only [DecLit.Matches, hT, hext, hFr, hE]
        simp [hdot, hx, DecText.expValue, ExpPart.value, takeDigits]
    | none =>
      have hext : t.exText = [] := by simp [DecText.exText, hx]
      rw [hext] at hFr hT
      simp only [List.nil_append] at hFr hT
      have hnE : ((takeDigits 10 (t.text ++ rest)).1.isEmpty &&
          (scanFrac (takeDigits 10 (t.text ++ rest)).2).1.isEmpty) = false := by
        rw [hT]; simp only []; rw [hFr]; simp only []
        rcases hne with h | h
        · rw [hIne h]; rfl
        · cases hh : t.F with
          | nil => exact absurd hh h
          | cons a b => simp
      refine ⟨_, scanDec_eq _ hnE, ?_, ?_⟩
      · simp only [hT, hFr]
        have h1 := scanExp_len (takeDigits 10 rest).2
        have h2 := takeDigits_len 10 rest
        omega
      · intro hr
        subst hr
        simp only [DecLit.Matches, hT, hFr]
        simp [hdot, hx, DecText.expValue, takeDigits, scanExp]
  | false =>
    -- I [exp] rest   (no dot: F = [], I ≠ [])
    have hF0 : t.F = [] := hnd hdot
    have hI0 : t.I ≠ [] := by
      rcases hne with h | h
      · exact h
      · exact absurd hF0 h
    have htext : t.text ++ rest = t.I ++ (t.exText ++ rest) := by
      simp [DecText.text, hdot, List.append_assoc]
    cases hx : t.ex with
    | some x =>
      have hxwf : x.WF := by rw [hx] at hex; exact hex
      have hext : t.exText = x.text := by simp [DecText.exText, hx]
      have hnotdig : ¬ digitVal x.eChar < 10 := by
        rcases hxwf.1 with h | h
        · exact not_digit_of (Or.inr (Or.inl h))
        · exact not_digit_of (Or.inr (Or.inr (Or.inl h)))
      have hT : takeDigits 10 (t.text ++ rest) = (t.I.map digitVal, x.text ++ rest) := by
        rw [htext, hext, takeDigits_append 10 _ _ hI, takeDigits_stopR (show StopsR 10 (x.text ++ rest) from hnotdig)]
        simp
      have hFr : scanFrac (x.text ++ rest) = ([], false, x.text ++ rest) := by
        apply scanFrac_nodot
        intro r heq
        simp only [ExpPart.text, List.cons_append] at heq
        have h1 : x.eChar = '.' := by injection heq
        rcases hxwf.1 with h | h <;> rw [h] at h1 <;> exact absurd h1 (by decide)
      have hE := scanExp_wf x hxwf rest
      have hnE : ((takeDigits 10 (t.text ++ rest)).1.isEmpty &&
          (scanFrac (takeDigits 10 (t.text ++ rest)).2).1.isEmpty) = false := by
        rw [hT]; simp only []; rw [hIne hI0]; rfl
      refine ⟨_, scanDec_eq _ hnE, ?_, ?_⟩
      · simp only [hT, hFr, hE]; exact takeDigits_len 10 rest
      · intro hr
        subst hr
        simp only [DecLit.Matches, hT, hFr, hE]
        simp [hdot, hx, hF0, DecText.expValue, ExpPart.value, takeDigits]
    | none =>
      have hext : t.exText = [] := by simp [DecText.exText, hx]
      have hT : takeDigits 10 (t.text ++ rest) =
          (t.I.map digitVal ++ (takeDigits 10 rest).1, (takeDigits 10 rest).2) := by
        rw [htext, hext, List.nil_append, takeDigits_append 10 _ _ hI]
      have hnE : ((takeDigits 10 (t.text ++ rest)).1.isEmpty &&
          (scanFrac (takeDigits 10 (t.text ++ rest)).2).1.isEmpty) = false := by
        rw [hT]; simp only []
        cases hh : t.I with
        | nil => exact absurd hh hI0
        | cons a b => simp
      refine ⟨_, scanDec_eq _ hnE, ?_, ?_⟩
      · simp only [hT]
        have h1 := scanExp_len (scanFrac (takeDigits 10 rest).2).2.2
        have h2 := scanFrac_len (takeDigits 10 rest).2
        have h3 := takeDigits_len 10 rest
        omega
      · intro hr
        subst hr
        simp only [DecLit.Matches, hT]
        simp [hdot, hx, hF0, DecText.expValue, takeDigits, scanFrac, scanExp]

/-! ### helpers for the parser-level theorems of Props.lean -/

theorem decText_head (dt : DecText) (h : dt.WF) (rest : List Char) :
    ∃ c r, dt.text ++ rest = c :: r ∧ (digitVal c < 10 ∨ c = '.') := by
  obtain ⟨hI, hF, hne, hnd, _⟩ := h
  cases hi : dt.I with
  | cons c r =>
    refine ⟨c, r ++ ((if dt.dot = true then '.' :: dt.F else []) ++ dt.exText) ++ rest, ?_,
      Or.inl (hI c (by rw [hi]; exact List.mem_cons_self))⟩
    simp [DecText.text, hi]
  | nil =>
    have hf : dt.F ≠ [] := by
      rcases hne with h | h
      · exact absurd hi h
      · exact h
    have hd : dt.dot = true := by
      cases hdd : dt.dot with
      | true => rfl
      | false => exact absurd (hnd hdd) hf
    refine ⟨'.', dt.F ++ dt.exText ++ rest, ?_, Or.inr rfl⟩
    simp [DecText.text, hi, hd]


theorem infinityChars_eq : infinityChars = ['I', 'n', 'f', 'i', 'n', 'i', 't', 'y'] := by decide


theorem head_ne_I {c : Char} (hc : digitVal c < 10 ∨ c = '.') : c ≠ 'I' := by
  rcases hc with h | h
  · intro e; subst e; revert h; decide
  · intro e; rw [h] at e; revert e; decide


theorem decText_not_infinity (dt : DecText) (h : dt.WF) (rest : List Char) :
    infinityChars.isPrefixOf (dt.text ++ rest) = false := by
  obtain ⟨c, r, he, hc⟩ := decText_head dt h rest
  have hI := head_ne_I hc
  rw [he, infinityChars_eq]
  simp only [List.isPrefixOf, Bool.and_eq_false_imp, beq_iff_eq]
  intro e; exact absurd e.symm hI


theorem decText_ne_infinity (dt : DecText) (h : dt.WF) : (dt.text == infinityChars) = false := by
  obtain ⟨c, r, he, hc⟩ := decText_head dt h []
  rw [List.append_nil] at he
  have hI := head_ne_I hc
  rw [he, infinityChars_eq]
  cases hh : (c :: r == ['I', 'n', 'f', 'i', 'n', 'i', 't', 'y']) with
  | false => rfl
  | true =>
    have := eq_of_beq hh
    injection this with h1 _
    exact absurd h1 hI


theorem dropZeros_spec (l : List Nat) : ∃ z, l = List.replicate z 0 ++ dropZeros l := by
  induction l with
  | nil => exact ⟨0, rfl⟩
  | cons x xs ih =>
    cases x with
    | zero =>
      obtain ⟨z, hz⟩ := ih
      refine ⟨z + 1, ?_⟩
      show 0 :: xs = List.replicate (z + 1) 0 ++ dropZeros xs
      rw [List.replicate_succ, List.cons_append, ← hz]
    | succ y => exact ⟨0, rfl⟩


theorem dropZeros_head (l : List Nat) : match dropZeros l with | [] => True | x :: _ => x ≠ 0 := by
  induction l with
  | nil => trivial
  | cons x xs ih =>
    cases x with
    | zero => exact ih
    | succ y => show y + 1 ≠ 0; omega


theorem dropTrailingZeros_spec (l : List Nat) : ∃ z, l = dropTrailingZeros l ++ List.replicate z 0 := by
  obtain ⟨z, hz⟩ := dropZeros_spec l.reverse
  refine ⟨z, ?_⟩
  have := congrArg List.reverse hz
  simp only [List.reverse_reverse, List.reverse_append, List.reverse_replicate] at this
  exact this


theorem natOfDigits_dropZeros (r : Nat) (l : List Nat) : natOfDigits r (dropZeros l) = natOfDigits r l := by
  obtain ⟨z, hz⟩ := dropZeros_spec l
  conv => rhs; rw [hz]
  rw [natOfDigits_append, natOfDigits_replicate_zero]; simp


/-- A digit string with non-zero leading digit is at least 10^(length−1)… -/
theorem natOfDigits_lower (x : Nat) (xs : List Nat) (hx : x ≠ 0) :
    10 ^ xs.length ≤ natOfDigits 10 (x :: xs) := by
  rw [natOfDigits_cons]
  have : 1 * 10 ^ xs.length ≤ x * 10 ^ xs.length := Nat.mul_le_mul_right _ (by omega)
  omega


/-- …and, with digits below 10, less than 10^length. -/
theorem natOfDigits_upper (l : List Nat) (h : ∀ d ∈ l, d < 10) : natOfDigits 10 l < 10 ^ l.length := by
  induction l with
  | nil => simp [natOfDigits]
  | cons x xs ih =>
    have hx : x < 10 := h x List.mem_cons_self
    have := ih (fun d hm => h d (List.mem_cons_of_mem _ hm))
    rw [natOfDigits_cons, List.length_cons, Nat.pow_succ]
    have h2 : x * 10 ^ xs.length ≤ 9 * 10 ^ xs.length := Nat.mul_le_mul_right _ (by omega)
    omega


set_option exponentiation.threshold 3000 in
theorem magOrd_infOrd : magOrd infOrd = 2 ^ 1024 * scale := by decide


set_option exponentiation.threshold 3000 in
theorem pow_1024_le : 2 ^ 1024 ≤ 10 ^ 400 := by decide


set_option exponentiation.threshold 3000 in
theorem two_scale_le : 2 * scale ≤ 10 ^ 400 := by decide


/-- Anything of magnitude at least 10^400 rounds to ±Infinity. -/
theorem huge_rounds_to_inf (n d : Nat) (hd : 0 < d) (h : 10 ^ 400 * d ≤ n) : isNearestMag n d infOrd = true := by
  have hA : magOrd (infOrd - 1) < magOrd infOrd := magOrd_strictMono (by decide)
  rw [magOrd_infOrd] at hA
  have hl : lowerOK n d infOrd = true := by
    have h0 : (infOrd == 0) = false := by decide
    simp only [lowerOK, h0, Bool.false_or, Bool.or_eq_true, decide_eq_true_eq]
    left
    rw [magOrd_infOrd]
    have hp := pow_1024_le
    generalize scale = S at *
    generalize magOrd (infOrd - 1) = A at *
    generalize (2:Nat) ^ 1024 = T at *
    generalize (10:Nat) ^ 400 = P at *
    calc (A + T * S) * d < (T * S + T * S) * d := Nat.mul_lt_mul_of_pos_right (by omega) hd
      _ = 2 * (T * S * d) := by rw [← Nat.two_mul, Nat.mul_assoc]
      _ ≤ 2 * (P * S * d) := Nat.mul_le_mul_left _ (Nat.mul_le_mul_right _ (Nat.mul_le_mul_right _ hp))
      _ = 2 * (P * d * S) := by congr 1; ac_rfl
      _ ≤ 2 * (n * S) := Nat.mul_le_mul_left _ (Nat.mul_le_mul_right _ h)
      _ = 2 * n * S := by rw [Nat.mul_assoc]
  simp only [isNearestMag, hd, decide_true, Nat.le_refl, hl, upperOK, beq_self_eq_true, Bool.true_or, Bool.and_self]


/-- Anything of magnitude below 10^-400 rounds to ±0. -/
theorem tiny_rounds_to_zero (n d : Nat) (hd : 0 < d) (h : n * 10 ^ 400 < d) : isNearestMag n d 0 = true := by
  have hu : upperOK n d 0 = true := by
    have h0 : ((0:Nat) == infOrd) = false := by decide
    simp only [upperOK, h0, Bool.false_or, Bool.or_eq_true, decide_eq_true_eq]
    left
    rw [magOrd_small (by decide : 0 < 2 ^ 52), magOrd_small (by decide : 0 + 1 < 2 ^ 52)]
    have hp := two_scale_le
    generalize scale = S at *
    generalize (10:Nat) ^ 400 = P at *
    calc 2 * n * S = n * (2 * S) := by ac_rfl
      _ ≤ n * P := Nat.mul_le_mul_left _ hp
      _ < d := h
      _ = (0 + (0 + 1)) * d := by simp
  have h1 : (0:Nat) ≤ infOrd := Nat.zero_le _
  simp only [isNearestMag, hd, decide_true, h1, lowerOK, beq_self_eq_true, Bool.true_or, hu, Bool.and_self]


theorem radixPrefix_none_of_second {a b : Char} {r : List Char}
    (hb : digitVal b < 10 ∨ b = '.' ∨ b = 'e' ∨ b = 'E') : radixPrefix (a :: b :: r) = none := by
  have h1 : (b == 'x' || b == 'X') = false := by
    rcases hb with h | h | h | h
    · cases hx : (b == 'x' || b == 'X') with
      | false => rfl
      | true =>
        simp only [Bool.or_eq_true, beq_iff_eq] at hx
        rcases hx with e | e <;> subst e <;> revert h <;> decide
    all_goals subst h; decide
  have h2 : (b == 'o' || b == 'O') = false := by
    rcases hb with h | h | h | h
    · cases hx : (b == 'o' || b == 'O') with
      | false => rfl
      | true =>
        simp only [Bool.or_eq_true, beq_iff_eq] at hx
        rcases hx with e | e <;> subst e <;> revert h <;> decide
    all_goals subst h; decide
  have h3 : (b == 'b' || b == 'B') = false := by
    rcases hb with h | h | h | h
    · cases hx : (b == 'b' || b == 'B') with
      | false => rfl
      | true =>
        simp only [Bool.or_eq_true, beq_iff_eq] at hx
        rcases hx with e | e <;> subst e <;> revert h <;> decide
    all_goals subst h; decide
  unfold radixPrefix
  split
  · rename_i x r' heq
    injection heq with _ h'
    injection h' with hbx _
    subst hbx
    simp only [h1, h2, h3, Bool.false_eq_true, if_false]
  · rfl

/-- The second character of a well-formed decimal literal (if any) is a digit, `.`, `e` or `E`. -/
theorem decText_second (dt : DecText) (h : dt.WF) (a b : Char) (r : List Char) (he : dt.text = a :: b :: r) :
    digitVal b < 10 ∨ b = '.' ∨ b = 'e' ∨ b = 'E' := by
  obtain ⟨hI, hF, hne, hnd, hex⟩ := h
  -- head of the part after I
  have tailHead : ∀ (c : Char) (q : List Char),
      (if dt.dot = true then '.' :: dt.F else []) ++ dt.exText = c :: q → c = '.' ∨ c = 'e' ∨ c = 'E' := by
    intro c q hq
    cases hd : dt.dot with
    | true =>
      rw [hd] at hq
      simp only [if_true, List.cons_append] at hq
      injection hq with h1 _
      exact Or.inl h1.symm
    | false =>
      rw [hd] at hq
      simp only [Bool.false_eq_true, if_false, List.nil_append] at hq
      cases hx : dt.ex with
      | none => simp [DecText.exText, hx] at hq
      | some x =>
        rw [hx] at hex
        simp only [DecText.exText, hx, ExpPart.text] at hq
        injection hq with h1 _
        rcases hex.1 with e | e
        · right; left; rw [← h1]; exact e
        · right; right; rw [← h1]; exact e
  unfold DecText.text at he
  cases hi : dt.I with
  | nil =>
    rw [hi] at he
    simp only [List.nil_append] at he
    have hf : dt.F ≠ [] := by
      rcases hne with h | h
      · exact absurd hi h
      · exact h
    have hd : dt.dot = true := by
      cases hdd : dt.dot with
      | true => rfl
      | false => exact absurd (hnd hdd) hf
    rw [hd] at he
    simp only [if_true, List.cons_append] at he
    cases hf' : dt.F with
    | nil => exact absurd hf' hf
    | cons f fs =>
      rw [hf'] at he
      simp only [List.cons_append] at he
      injection he with _ h2
      injection h2 with h3 _
      left; rw [← h3]; exact hF f (by rw [hf']; exact List.mem_cons_self)
  | cons c cs =>
    rw [hi] at he
    cases cs with
    | nil =>
      simp only [List.cons_append, List.nil_append] at he
      injection he with _ h2
      rcases tailHead b r h2 with h | h | h
      · right; left; exact h
      · right; right; left; exact h
      · right; right; right; exact h
    | cons c2 cs2 =>
      simp only [List.cons_append] at he
      injection he with _ h2
      injection h2 with h3 _
      left; rw [← h3]; exact hI c2 (by rw [hi]; simp)


end GojaModel.C12
