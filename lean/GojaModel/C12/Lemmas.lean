/-
  C12 lemmas: order theory of the double grid `magOrd`, and of the interval tests `lowerOK` / `upperOK`.
  Core Lean only.
-/
import GojaModel.C12.Model

namespace GojaModel.C12

theorem two52 : (2:Nat) ^ 52 = 4503599627370496 := by decide

theorem magOrd_small {k : Nat} (h : k < 2 ^ 52) : magOrd k = k := by
  simp [magOrd, h]

theorem magOrd_big {k : Nat} (h : 2 ^ 52 ≤ k) :
    magOrd k = (2 ^ 52 + k % 2 ^ 52) * 2 ^ (k / 2 ^ 52 - 1) := by
  have : ¬ k < 2 ^ 52 := Nat.not_lt.mpr h
  simp [magOrd, this]

/-- The grid of doubles is strictly increasing in the ordered bit pattern (one step). -/
theorem magOrd_lt_succ (k : Nat) : magOrd k < magOrd (k + 1) := by
  by_cases h1 : k + 1 < 2 ^ 52
  · rw [magOrd_small h1, magOrd_small (by omega)]; omega
  · by_cases h0 : k < 2 ^ 52
    · -- k = 2^52 - 1
      have hk : k + 1 = 2 ^ 52 := by omega
      rw [magOrd_small h0, magOrd_big (by omega), hk]
      simp [two52] at *
      omega
    · have hb : 2 ^ 52 ≤ k := Nat.le_of_not_lt h0
      rw [magOrd_big hb, magOrd_big (by omega)]
      by_cases hm : k % 2 ^ 52 + 1 < 2 ^ 52
      · have e1 : (k + 1) / 2 ^ 52 = k / 2 ^ 52 := by omega
        have e2 : (k + 1) % 2 ^ 52 = k % 2 ^ 52 + 1 := by omega
        rw [e1, e2]
        apply Nat.mul_lt_mul_of_pos_right (by omega) (Nat.two_pow_pos _)
      · have e1 : (k + 1) / 2 ^ 52 = k / 2 ^ 52 + 1 := by omega
        have e2 : (k + 1) % 2 ^ 52 = 0 := by omega
        have e3 : k % 2 ^ 52 = 2 ^ 52 - 1 := by omega
        have hq : 1 ≤ k / 2 ^ 52 := by omega
        rw [e1, e2, e3]
        have : k / 2 ^ 52 + 1 - 1 = (k / 2 ^ 52 - 1) + 1 := by omega
        have hps : 2 ^ (k / 2 ^ 52 - 1 + 1) = 2 ^ (k / 2 ^ 52 - 1) * 2 := Nat.pow_succ _ _
        rw [this, hps]
        have hp : 0 < 2 ^ (k / 2 ^ 52 - 1) := Nat.two_pow_pos _
        generalize 2 ^ (k / 2 ^ 52 - 1) = P at hp ⊢
        have h3 : (2 ^ 52 + 0) * (P * 2) = (2 ^ 52 * 2) * P := by
          rw [Nat.add_zero, Nat.mul_comm P 2, Nat.mul_assoc]
        rw [h3]
        apply Nat.mul_lt_mul_of_pos_right (by omega) hp

theorem magOrd_strictMono {j k : Nat} (h : j < k) : magOrd j < magOrd k := by
  induction k with
  | zero => omega
  | succ k ih =>
    by_cases hj : j = k
    · subst hj; exact magOrd_lt_succ j
    · exact Nat.lt_trans (ih (by omega)) (magOrd_lt_succ k)

theorem magOrd_mono {j k : Nat} (h : j ≤ k) : magOrd j ≤ magOrd k := by
  by_cases e : j = k
  · subst e; exact Nat.le_refl _
  · exact Nat.le_of_lt (magOrd_strictMono (by omega))

theorem magOrd_inj {j k : Nat} (h : magOrd j = magOrd k) : j = k := by
  by_cases h1 : j < k
  · have := magOrd_strictMono h1; omega
  · by_cases h2 : k < j
    · have := magOrd_strictMono h2; omega
    · omega

end GojaModel.C12

namespace GojaModel.C12

/-! ## what the interval tests say -/

theorem lowerOK_spec {n d k : Nat} (h : lowerOK n d k = true) (hk : k ≠ 0) :
    (magOrd (k - 1) + magOrd k) * d < 2 * n * scale ∨
      ((magOrd (k - 1) + magOrd k) * d = 2 * n * scale ∧ k % 2 = 0) := by
  simp [lowerOK, hk] at h
  exact h

theorem upperOK_spec {n d k : Nat} (h : upperOK n d k = true) (hk : k ≠ infOrd) :
    2 * n * scale < (magOrd k + magOrd (k + 1)) * d ∨
      (2 * n * scale = (magOrd k + magOrd (k + 1)) * d ∧ k % 2 = 0) := by
  simp [upperOK, hk] at h
  exact h

theorem lowerOK_false_spec {n d k : Nat} (h : lowerOK n d k = false) :
    k ≠ 0 ∧ 2 * n * scale ≤ (magOrd (k - 1) + magOrd k) * d := by
  simp [lowerOK] at h
  refine ⟨h.1, ?_⟩
  have h2 := h.2
  omega

theorem upperOK_false_spec {n d k : Nat} (h : upperOK n d k = false) :
    k ≠ infOrd ∧ (magOrd k + magOrd (k + 1)) * d ≤ 2 * n * scale := by
  simp [upperOK] at h
  refine ⟨h.1, ?_⟩
  have h2 := h.2
  omega

end GojaModel.C12

namespace GojaModel.C12

set_option exponentiation.threshold 2000 in
theorem scale_pos : 0 < scale := by unfold scale; exact Nat.pow_pos (by decide)

/-! ## the interval tests are monotone in the rational (cross-multiplied order `n'/d' ≤ n/d ⟺ n'*d ≤ n*d'`) -/

theorem lowerOK_false_iff {n d k : Nat} :
    lowerOK n d k = false ↔
      k ≠ 0 ∧ (2 * n * scale < (magOrd (k - 1) + magOrd k) * d ∨
               (2 * n * scale = (magOrd (k - 1) + magOrd k) * d ∧ k % 2 = 1)) := by
  simp [lowerOK]
  intro _
  constructor
  · rintro ⟨h1, h2⟩
    by_cases e : (magOrd (k - 1) + magOrd k) * d = 2 * n * scale
    · right; exact ⟨e.symm, h2 e⟩
    · left; omega
  · intro h
    refine ⟨?_, ?_⟩
    · rcases h with h | h <;> omega
    · intro e; rcases h with h | h <;> omega

theorem upperOK_false_iff {n d k : Nat} :
    upperOK n d k = false ↔
      k ≠ infOrd ∧ ((magOrd k + magOrd (k + 1)) * d < 2 * n * scale ∨
               (2 * n * scale = (magOrd k + magOrd (k + 1)) * d ∧ k % 2 = 1)) := by
  simp [upperOK]
  intro _
  constructor
  · rintro ⟨h1, h2⟩
    by_cases e : 2 * n * scale = (magOrd k + magOrd (k + 1)) * d
    · right; exact ⟨e, h2 e⟩
    · left; omega
  · intro h
    refine ⟨?_, ?_⟩
    · rcases h with h | h <;> omega
    · intro e; rcases h with h | h <;> omega

/-- A rational below one that is already below the rounding interval is below it too. -/
theorem lowerOK_false_mono {n d n' d' k : Nat} (hd : 0 < d) (hd' : 0 < d')
    (hle : n' * d ≤ n * d') (h : lowerOK n d k = false) : lowerOK n' d' k = false := by
  rw [lowerOK_false_iff] at h ⊢
  obtain ⟨h0, h⟩ := h
  refine ⟨h0, ?_⟩
  generalize (magOrd (k - 1) + magOrd k) = C at h ⊢
  generalize scale = S at h ⊢
  have e1 : 2 * n' * S * d = 2 * S * (n' * d) := by ac_rfl
  have e2 : 2 * n * S * d' = 2 * S * (n * d') := by ac_rfl
  have h3 : 2 * n' * S * d ≤ 2 * n * S * d' := by
    rw [e1, e2]; exact Nat.mul_le_mul_left _ hle
  have e3 : C * d * d' = C * d' * d := by ac_rfl
  rcases h with h | ⟨h, hodd⟩
  · left
    have h4 : 2 * n * S * d' < C * d * d' := Nat.mul_lt_mul_of_pos_right h hd'
    rw [e3] at h4
    exact Nat.lt_of_mul_lt_mul_right (Nat.lt_of_le_of_lt h3 h4)
  · have h4 : 2 * n' * S * d ≤ C * d' * d := by rw [← e3, ← h]; exact h3
    have h5 : 2 * n' * S ≤ C * d' := Nat.le_of_mul_le_mul_right h4 hd
    by_cases e : 2 * n' * S = C * d'
    · right; exact ⟨e, hodd⟩
    · left; omega

/-- A rational above one that is already above the rounding interval is above it too. -/
theorem upperOK_false_mono {n d n' d' k : Nat} (hd : 0 < d) (hd' : 0 < d')
    (hle : n * d' ≤ n' * d) (h : upperOK n d k = false) : upperOK n' d' k = false := by
  rw [upperOK_false_iff] at h ⊢
  obtain ⟨h0, h⟩ := h
  refine ⟨h0, ?_⟩
  generalize (magOrd k + magOrd (k + 1)) = C at h ⊢
  generalize scale = S at h ⊢
  have e1 : 2 * n' * S * d = 2 * S * (n' * d) := by ac_rfl
  have e2 : 2 * n * S * d' = 2 * S * (n * d') := by ac_rfl
  have h3 : 2 * n * S * d' ≤ 2 * n' * S * d := by
    rw [e1, e2]; exact Nat.mul_le_mul_left _ hle
  have e3 : C * d * d' = C * d' * d := by ac_rfl
  rcases h with h | ⟨h, hodd⟩
  · left
    have h4 : C * d * d' < 2 * n * S * d' := Nat.mul_lt_mul_of_pos_right h hd'
    rw [e3] at h4
    exact Nat.lt_of_mul_lt_mul_right (Nat.lt_of_lt_of_le h4 h3)
  · have h4 : C * d' * d ≤ 2 * n' * S * d := by rw [← e3, ← h]; exact h3
    have h5 : C * d' ≤ 2 * n' * S := Nat.le_of_mul_le_mul_right h4 hd
    by_cases e : 2 * n' * S = C * d'
    · right; exact ⟨e, hodd⟩
    · left; omega

/-! ## decimals  s × 10^c  on a common scale -/

theorem decDen_pos (c : Int) : 0 < decDen c := by unfold decDen; exact Nat.pow_pos (by decide)

/-- For `M` large enough, `decNum s c / decDen c = s × 10^(M+c) / 10^M`. -/
theorem dec_common (s : Nat) (c : Int) (M : Nat) (hM : (-c).toNat ≤ M) :
    decNum s c * 10 ^ M = s * 10 ^ ((M : Int) + c).toNat * decDen c := by
  unfold decNum decDen
  rw [Nat.mul_assoc, Nat.mul_assoc, ← Nat.pow_add, ← Nat.pow_add]
  congr 2
  omega

/-- Order of two decimals from their order on a common scale. -/
theorem dec_le_of_common (s1 s2 : Nat) (c1 c2 : Int) (M : Nat)
    (h1 : (-c1).toNat ≤ M) (h2 : (-c2).toNat ≤ M)
    (h : s1 * 10 ^ ((M : Int) + c1).toNat ≤ s2 * 10 ^ ((M : Int) + c2).toNat) :
    decNum s1 c1 * decDen c2 ≤ decNum s2 c2 * decDen c1 := by
  have hp : 0 < 10 ^ M := Nat.pow_pos (by decide)
  apply Nat.le_of_mul_le_mul_right _ hp
  have a1 : decNum s1 c1 * decDen c2 * 10 ^ M = (decNum s1 c1 * 10 ^ M) * decDen c2 := by ac_rfl
  have a2 : decNum s2 c2 * decDen c1 * 10 ^ M = (decNum s2 c2 * 10 ^ M) * decDen c1 := by ac_rfl
  rw [a1, a2, dec_common s1 c1 M h1, dec_common s2 c2 M h2]
  have b1 : s1 * 10 ^ ((M : Int) + c1).toNat * decDen c1 * decDen c2
      = (s1 * 10 ^ ((M : Int) + c1).toNat) * (decDen c1 * decDen c2) := by ac_rfl
  have b2 : s2 * 10 ^ ((M : Int) + c2).toNat * decDen c2 * decDen c1
      = (s2 * 10 ^ ((M : Int) + c2).toNat) * (decDen c1 * decDen c2) := by ac_rfl
  rw [b1, b2]
  exact Nat.mul_le_mul_right _ h

/-- Between two consecutive multiples of 10^p2 there is no number `s' × 10^p1` with fewer digits than `a`:
the arithmetic core of "no shorter digit string lies in between". -/
theorem no_short_between (s' a k p1 p2 : Nat) (hk : 2 ≤ k) (hs' : s' < 10 ^ (k - 1)) (ha : 10 ^ (k - 2) ≤ a) :
    s' * 10 ^ p1 ≤ a * 10 ^ p2 ∨ (a + 1) * 10 ^ p2 ≤ s' * 10 ^ p1 := by
  by_cases hp : p2 ≤ p1
  · -- s' × 10^p1 is itself a multiple of 10^p2
    have e : 10 ^ p1 = 10 ^ (p1 - p2) * 10 ^ p2 := by rw [← Nat.pow_add]; congr 1; omega
    rw [e, ← Nat.mul_assoc]
    generalize s' * 10 ^ (p1 - p2) = m
    by_cases hm : m ≤ a
    · left; exact Nat.mul_le_mul_right _ hm
    · right; exact Nat.mul_le_mul_right _ (by omega)
  · left
    have e : 10 ^ p2 = 10 ^ (p2 - p1 - 1) * (10 * 10 ^ p1) := by
      rw [← Nat.pow_succ', ← Nat.pow_add]; congr 1; omega
    have e2 : 10 ^ (k - 1) = 10 ^ (k - 2) * 10 := by rw [← Nat.pow_succ]; congr 1; omega
    have hq : 1 ≤ 10 ^ (p2 - p1 - 1) := Nat.pow_pos (by decide)
    calc s' * 10 ^ p1 ≤ 10 ^ (k - 1) * 10 ^ p1 := Nat.mul_le_mul_right _ (Nat.le_of_lt hs')
      _ = 10 ^ (k - 2) * (1 * (10 * 10 ^ p1)) := by rw [e2]; ac_rfl
      _ ≤ a * (10 ^ (p2 - p1 - 1) * (10 * 10 ^ p1)) :=
          Nat.mul_le_mul ha (Nat.mul_le_mul_right _ hq)
      _ = a * 10 ^ p2 := by rw [← e]

end GojaModel.C12

namespace GojaModel.C12

/-! ## positional notation -/

theorem foldl_digits (r : Nat) (b : List Nat) (acc : Nat) :
    b.foldl (fun a d => a * r + d) acc = acc * r ^ b.length + b.foldl (fun a d => a * r + d) 0 := by
  induction b generalizing acc with
  | nil => simp
  | cons x xs ih =>
    simp only [List.foldl_cons, List.length_cons]
    rw [ih (acc * r + x), ih (0 * r + x)]
    rw [Nat.pow_succ, Nat.add_mul, Nat.add_mul, Nat.zero_mul, Nat.zero_mul, Nat.zero_add]
    have : acc * r * r ^ xs.length = acc * (r ^ xs.length * r) := by ac_rfl
    omega

/-- Horner evaluation is positional: the digits `a` followed by the digits `b`. -/
theorem natOfDigits_append (r : Nat) (a b : List Nat) :
    natOfDigits r (a ++ b) = natOfDigits r a * r ^ b.length + natOfDigits r b := by
  unfold natOfDigits
  rw [List.foldl_append, foldl_digits]

theorem natOfDigits_cons (r : Nat) (x : Nat) (b : List Nat) :
    natOfDigits r (x :: b) = x * r ^ b.length + natOfDigits r b := by
  have := natOfDigits_append r [x] b
  simpa [natOfDigits] using this

/-- Same-grid optimality: if `p` is within half a unit `D` of `q`, no other grid point `p ± m·D` is closer. -/
theorem grid_closest (N N' D q : Nat) (h : 2 * absDiff (N * D) q ≤ D) :
    absDiff (N * D) q ≤ absDiff (N' * D) q := by
  have hc : N' < N ∨ N' = N ∨ N < N' := by omega
  rcases hc with hlt | heq | hgt
  · have h1 : (N' + 1) * D ≤ N * D := Nat.mul_le_mul_right _ hlt
    rw [Nat.add_mul, Nat.one_mul] at h1
    generalize N * D = p at h h1 ⊢
    generalize N' * D = p' at h1 ⊢
    unfold absDiff at *
    omega
  · subst heq; exact Nat.le_refl _
  · have h1 : (N + 1) * D ≤ N' * D := Nat.mul_le_mul_right _ hgt
    rw [Nat.add_mul, Nat.one_mul] at h1
    generalize N * D = p at h h1 ⊢
    generalize N' * D = p' at h1 ⊢
    unfold absDiff at *
    omega

end GojaModel.C12

namespace GojaModel.C12

theorem lowerOK_true_mono {n d n' d' k : Nat} (hd : 0 < d) (hd' : 0 < d')
    (hle : n * d' ≤ n' * d) (h : lowerOK n d k = true) : lowerOK n' d' k = true := by
  cases hh : lowerOK n' d' k with
  | true => rfl
  | false =>
    have := lowerOK_false_mono hd' hd hle hh
    rw [this] at h; cases h

theorem upperOK_true_mono {n d n' d' k : Nat} (hd : 0 < d) (hd' : 0 < d')
    (hle : n' * d ≤ n * d') (h : upperOK n d k = true) : upperOK n' d' k = true := by
  cases hh : upperOK n' d' k with
  | true => rfl
  | false =>
    have := upperOK_false_mono hd' hd hle hh
    rw [this] at h; cases h

theorem roundsTo_iff {s : Nat} {c : Int} {o : Nat} :
    roundsTo s c o = true ↔
      o ≤ infOrd ∧ lowerOK (decNum s c) (decDen c) o = true ∧ upperOK (decNum s c) (decDen c) o = true := by
  simp only [roundsTo, isNearestMag, Bool.and_eq_true, decide_eq_true_eq]
  constructor
  · rintro ⟨⟨⟨_, h2⟩, h3⟩, h4⟩; exact ⟨h2, h3, h4⟩
  · rintro ⟨h2, h3, h4⟩; exact ⟨⟨⟨decDen_pos c, h2⟩, h3⟩, h4⟩

/-- The rounding interval is convex along a fixed decimal exponent. -/
theorem roundsTo_between {a m b : Nat} {c : Int} {o : Nat} (h1 : a ≤ m) (h2 : m ≤ b)
    (ha : roundsTo a c o = true) (hb : roundsTo b c o = true) : roundsTo m c o = true := by
  rw [roundsTo_iff] at ha hb ⊢
  refine ⟨ha.1, ?_, ?_⟩
  · apply lowerOK_true_mono (decDen_pos c) (decDen_pos c) _ ha.2.1
    unfold decNum
    exact Nat.mul_le_mul_right _ (Nat.mul_le_mul_right _ h1)
  · apply upperOK_true_mono (decDen_pos c) (decDen_pos c) _ hb.2.2
    unfold decNum
    exact Nat.mul_le_mul_right _ (Nat.mul_le_mul_right _ h2)

end GojaModel.C12

namespace GojaModel.C12

/-! ## bisection, scaling, same-grid part of toExponential -/

theorem bisect_spec (n d : Nat) : ∀ (fuel lo hi : Nat), lo < hi → hi - lo ≤ 2 ^ fuel → hi ≤ infOrd + 1 →
    lowerOK n d lo = true → (hi = infOrd + 1 ∨ lowerOK n d hi = false) →
    lowerOK n d (bisect n d fuel lo hi) = true ∧ bisect n d fuel lo hi ≤ infOrd ∧
      (bisect n d fuel lo hi = infOrd ∨ lowerOK n d (bisect n d fuel lo hi + 1) = false) := by
  intro fuel
  induction fuel with
  | zero =>
    intro lo hi hlt hsz hhi hlo hhiF
    have : hi = lo + 1 := by simp at hsz; omega
    subst this
    simp only [bisect]
    refine ⟨hlo, by omega, ?_⟩
    rcases hhiF with h | h
    · left; omega
    · right; exact h
  | succ fuel ih =>
    intro lo hi hlt hsz hhi hlo hhiF
    simp only [bisect]
    by_cases hc : hi ≤ lo + 1
    · have : hi = lo + 1 := by omega
      subst this
      rw [if_pos hc]
      refine ⟨hlo, by omega, ?_⟩
      rcases hhiF with h | h
      · left; omega
      · right; exact h
    · rw [if_neg hc]
      have hp : 2 ^ (fuel + 1) = 2 * 2 ^ fuel := by rw [Nat.pow_succ, Nat.mul_comm]
      rw [hp] at hsz
      generalize 2 ^ fuel = P at hsz ih
      by_cases hm : lowerOK n d ((lo + hi) / 2) = true
      · simp only [hm, if_true]
        exact ih _ _ (by omega) (by omega) hhi hm hhiF
      · have hm' : lowerOK n d ((lo + hi) / 2) = false := by
          cases h : lowerOK n d ((lo + hi) / 2) with
          | true => exact absurd h hm
          | false => rfl
        simp only [hm', Bool.false_eq_true, if_false]
        exact ih _ _ (by omega) (by omega) (by omega) hlo (Or.inr hm')

theorem infOrd_lt : infOrd + 1 ≤ 2 ^ 64 := by decide

theorem upperOK_of_lowerOK_succ_false {n d k : Nat} (h : lowerOK n d (k + 1) = false) :
    upperOK n d k = true := by
  rw [lowerOK_false_iff] at h
  obtain ⟨_, h⟩ := h
  simp only [Nat.add_sub_cancel] at h
  simp only [upperOK, Bool.or_eq_true, beq_iff_eq, decide_eq_true_eq, Bool.and_eq_true]
  right
  rcases h with h | ⟨h, ho⟩
  · left; exact h
  · right; exact ⟨h, by omega⟩

/-- Multiplying both sides of the "within half a unit, tie upward" condition by `J > 0`. -/
theorem scale_cond {p q W J : Nat} (hJ : 0 < J)
    (h : (if q ≤ p then decide (2 * (p - q) ≤ W) else decide (2 * (q - p) < W)) = true) :
    (q * J ≤ p * J → 2 * (p * J - q * J) ≤ W * J) ∧ (p * J < q * J → 2 * (q * J - p * J) < W * J) := by
  constructor
  · intro hle
    have hqp : q ≤ p := Nat.le_of_mul_le_mul_right hle hJ
    rw [if_pos hqp] at h
    simp only [decide_eq_true_eq] at h
    have := Nat.mul_le_mul_right J h
    rw [Nat.mul_assoc, Nat.sub_mul] at this
    exact this
  · intro hlt
    have hqp : ¬ q ≤ p := fun hh => by
      have := Nat.mul_le_mul_right J hh; omega
    rw [if_neg hqp] at h
    simp only [decide_eq_true_eq] at h
    have := Nat.mul_lt_mul_of_pos_right h hJ
    rw [Nat.mul_assoc, Nat.sub_mul] at this
    exact this

/-- Same-exponent part of `exp_sound`: closest among all `n'` at the same last-digit exponent, tie → larger. -/
theorem exp_same_grid (X fd n : Nat) (c : Int) (h : isExp X fd n c = true) :
    10 ^ fd ≤ n ∧ n < 10 ^ (fd + 1) ∧
    ∀ n' : Nat,
      absDiff (n * (10 ^ c.toNat * scale)) (X * decDen c) ≤ absDiff (n' * (10 ^ c.toNat * scale)) (X * decDen c) ∧
      (absDiff (n * (10 ^ c.toNat * scale)) (X * decDen c) = absDiff (n' * (10 ^ c.toNat * scale)) (X * decDen c)
        → n' ≤ n) := by
  unfold isExp at h
  simp only [Bool.and_eq_true, decide_eq_true_eq] at h
  obtain ⟨⟨⟨hlo, hhi⟩, hmain⟩, _⟩ := h
  refine ⟨hlo, hhi, ?_⟩
  intro n'
  have e : ∀ t : Nat, t * 10 ^ c.toNat * scale = t * (10 ^ c.toNat * scale) := fun t => Nat.mul_assoc _ _ _
  rw [e] at hmain
  have hD : 0 < 10 ^ c.toNat * scale := Nat.mul_pos (Nat.pow_pos (by decide)) scale_pos
  generalize 10 ^ c.toNat * scale = D at hmain hD ⊢
  generalize X * decDen c = q at hmain ⊢
  have hcases : n' < n ∨ n' = n ∨ n < n' := by omega
  rcases hcases with hlt | heq | hgt
  · have h1 : (n' + 1) * D ≤ n * D := Nat.mul_le_mul_right _ hlt
    rw [Nat.add_mul, Nat.one_mul] at h1
    generalize n * D = p at hmain h1 ⊢
    generalize n' * D = p' at h1 ⊢
    unfold absDiff
    split at hmain <;> simp only [decide_eq_true_eq] at hmain <;> omega
  · subst heq; exact ⟨Nat.le_refl _, fun _ => Nat.le_refl _⟩
  · have h1 : (n + 1) * D ≤ n' * D := Nat.mul_le_mul_right _ hgt
    rw [Nat.add_mul, Nat.one_mul] at h1
    generalize n * D = p at hmain h1 ⊢
    generalize n' * D = p' at h1 ⊢
    unfold absDiff
    split at hmain <;> simp only [decide_eq_true_eq] at hmain <;> omega

end GojaModel.C12

namespace GojaModel.C12

/-! ## value congruence, exponent shifts, closest among the shortest (same grid) -/

/-- The acceptance predicate depends only on the VALUE of the rational. -/
theorem isNearestMag_congr {n1 d1 n2 d2 k : Nat} (h1 : 0 < d1) (h2 : 0 < d2) (he : n1 * d2 = n2 * d1) :
    isNearestMag n1 d1 k = isNearestMag n2 d2 k := by
  have hl : lowerOK n1 d1 k = lowerOK n2 d2 k := by
    cases ha : lowerOK n1 d1 k with
    | true => exact (lowerOK_true_mono h1 h2 (Nat.le_of_eq he) ha).symm
    | false => exact (lowerOK_false_mono h1 h2 (Nat.le_of_eq he.symm) ha).symm
  have hu : upperOK n1 d1 k = upperOK n2 d2 k := by
    cases ha : upperOK n1 d1 k with
    | true => exact (upperOK_true_mono h1 h2 (Nat.le_of_eq he.symm) ha).symm
    | false => exact (upperOK_false_mono h1 h2 (Nat.le_of_eq he) ha).symm
  simp only [isNearestMag, hl, hu, h1, h2, decide_true]

theorem dec_shift_value (s : Nat) (c : Int) (j : Nat) :
    decNum (s * 10 ^ j) (c - j) * decDen c = decNum s c * decDen (c - j) := by
  unfold decNum decDen
  rw [Nat.mul_assoc, Nat.mul_assoc, Nat.mul_assoc, ← Nat.pow_add, ← Nat.pow_add, ← Nat.pow_add]
  congr 2
  omega

/-- `s × 10^c` and `(s·10^j) × 10^(c−j)` are the same number. -/
theorem roundsTo_shift (s : Nat) (c : Int) (j o : Nat) :
    roundsTo (s * 10 ^ j) (c - j) o = roundsTo s c o := by
  unfold roundsTo
  exact isNearestMag_congr (decDen_pos _) (decDen_pos _) (dec_shift_value s c j)

theorem absDiff_mul (a b k : Nat) : absDiff a b * k = absDiff (a * k) (b * k) := by
  unfold absDiff
  rw [Nat.add_mul, Nat.sub_mul, Nat.sub_mul]

theorem distTo_shift (o t : Nat) (c : Int) (j : Nat) :
    distTo o (t * 10 ^ j) (c - j) * decDen c = distTo o t c * decDen (c - j) := by
  unfold distTo
  rw [absDiff_mul, absDiff_mul]
  generalize scale = S
  have h1 : decNum (t * 10 ^ j) (c - ↑j) * S * decDen c = decNum t c * S * decDen (c - ↑j) := by
    have := dec_shift_value t c j
    calc decNum (t * 10 ^ j) (c - ↑j) * S * decDen c
        = (decNum (t * 10 ^ j) (c - ↑j) * decDen c) * S := by ac_rfl
      _ = (decNum t c * decDen (c - ↑j)) * S := by rw [this]
      _ = decNum t c * S * decDen (c - ↑j) := by ac_rfl
  have h2 : magOrd o * decDen (c - ↑j) * decDen c = magOrd o * decDen c * decDen (c - ↑j) := by ac_rfl
  rw [h1, h2]

/-- Order of distances is the same at exponent `c` and, after scaling the digits by 10^j, at exponent `c − j`. -/
theorem distTo_le_shift {o a b : Nat} {c : Int} (j : Nat) (h : distTo o a c ≤ distTo o b c) :
    distTo o (a * 10 ^ j) (c - j) ≤ distTo o (b * 10 ^ j) (c - j) := by
  have h1 := Nat.mul_le_mul_right (decDen (c - j)) h
  rw [← distTo_shift, ← distTo_shift] at h1
  exact Nat.le_of_mul_le_mul_right h1 (decDen_pos c)

/-- Same-exponent geometry: if `p` is at least as close as the nearer-below grid point `m < p`, then it is at least
as close as anything at or below `m`. -/
theorem dist_below {o s' m p : Nat} {c : Int} (h1 : s' ≤ m) (h2 : m < p)
    (hd : distTo o p c ≤ distTo o m c) : distTo o p c ≤ distTo o s' c := by
  unfold distTo decNum at *
  have e : ∀ t : Nat, t * 10 ^ c.toNat * scale = t * (10 ^ c.toNat * scale) := fun t => Nat.mul_assoc _ _ _
  simp only [e] at hd ⊢
  have hD : 0 < 10 ^ c.toNat * scale := Nat.mul_pos (Nat.pow_pos (by decide)) scale_pos
  have a1 : s' * (10 ^ c.toNat * scale) ≤ m * (10 ^ c.toNat * scale) := Nat.mul_le_mul_right _ h1
  have a2 : m * (10 ^ c.toNat * scale) < p * (10 ^ c.toNat * scale) := Nat.mul_lt_mul_of_pos_right h2 hD
  generalize s' * (10 ^ c.toNat * scale) = x1 at *
  generalize m * (10 ^ c.toNat * scale) = x2 at *
  generalize p * (10 ^ c.toNat * scale) = x3 at *
  generalize magOrd o * decDen c = q at *
  unfold absDiff at *
  omega

/-- Same-exponent part of `closest_sound`. -/
theorem closest_same_grid (o s k : Nat) (c : Int) (h : isClosest o s k c = true)
    (hr : roundsTo s c o = true) :
    (∀ s' : Nat, s < s' → roundsTo s' c o = true → distTo o s c ≤ distTo o s' c) ∧
    (10 ^ (k - 1) < s → ∀ s' : Nat, s' < s → roundsTo s' c o = true → distTo o s c ≤ distTo o s' c) := by
  simp only [isClosest, Bool.and_eq_true, Bool.or_eq_true, Bool.not_eq_true', decide_eq_true_eq] at h
  obtain ⟨hup, hdn⟩ := h
  have e : ∀ t : Nat, decNum t c * scale = t * (10 ^ c.toNat * scale) := fun t => by
    unfold decNum; exact Nat.mul_assoc _ _ _
  have hD : 0 < 10 ^ c.toNat * scale := Nat.mul_pos (Nat.pow_pos (by decide)) scale_pos
  constructor
  · intro s' hlt hr'
    have hmid : roundsTo (s + 1) c o = true := roundsTo_between (Nat.le_succ s) hlt hr hr'
    rcases hup with hf | hd
    · rw [hmid] at hf; cases hf
    · unfold distTo at hd ⊢
      rw [e, e] at hd
      rw [e, e]
      have h1 : (s + 1) * (10 ^ c.toNat * scale) ≤ s' * (10 ^ c.toNat * scale) := Nat.mul_le_mul_right _ hlt
      rw [Nat.add_mul, Nat.one_mul] at h1 hd
      generalize s * (10 ^ c.toNat * scale) = p at hd h1 ⊢
      generalize s' * (10 ^ c.toNat * scale) = p' at h1 ⊢
      generalize 10 ^ c.toNat * scale = D at hd h1 hD
      generalize magOrd o * decDen c = q at hd ⊢
      unfold absDiff at *
      omega
  · intro hbig s' hlt hr'
    rw [if_pos hbig] at hdn
    simp only [Bool.or_eq_true, Bool.not_eq_true', decide_eq_true_eq] at hdn
    have hmid : roundsTo (s - 1) c o = true := roundsTo_between (by omega) (Nat.sub_le s 1) hr' hr
    rcases hdn with hf | hd
    · rw [hmid] at hf; cases hf
    · unfold distTo at hd ⊢
      rw [e, e] at hd
      rw [e, e]
      have hs1 : s = (s - 1) + 1 := by omega
      have h1 : s' * (10 ^ c.toNat * scale) ≤ (s - 1) * (10 ^ c.toNat * scale) := Nat.mul_le_mul_right _ (by omega)
      have h2 : s * (10 ^ c.toNat * scale) = (s - 1) * (10 ^ c.toNat * scale) + (10 ^ c.toNat * scale) := by
        conv => lhs; rw [hs1]
        rw [Nat.add_mul, Nat.one_mul]
      generalize s * (10 ^ c.toNat * scale) = p at hd h2 ⊢
      generalize (s - 1) * (10 ^ c.toNat * scale) = p1 at hd h1 h2
      generalize s' * (10 ^ c.toNat * scale) = p' at h1 ⊢
      generalize 10 ^ c.toNat * scale = D at h2 hD
      generalize magOrd o * decDen c = q at hd ⊢
      unfold absDiff at *
      omega

end GojaModel.C12

namespace GojaModel.C12

/-! ## text layer: digit scanning, decimal printer, literal shapes -/

theorem digitVal_digitChar {d : Nat} (h : d < 10) : digitVal (digitChar d) = d := by
  have : d = 0 ∨ d = 1 ∨ d = 2 ∨ d = 3 ∨ d = 4 ∨ d = 5 ∨ d = 6 ∨ d = 7 ∨ d = 8 ∨ d = 9 := by omega
  rcases this with h | h | h | h | h | h | h | h | h | h <;> subst h <;> decide

/-- A character list at which a radix-10 digit scan stops. -/
def Stops : List Char → Prop
  | [] => True
  | c :: _ => 10 ≤ digitVal c

theorem takeDigits_stop {rest : List Char} (h : Stops rest) : takeDigits 10 rest = ([], rest) := by
  cases rest with
  | nil => rfl
  | cons c cs =>
    have : ¬ digitVal c < 10 := by simp [Stops] at h; omega
    simp [takeDigits, this]

theorem takeDigits_digits (ds : List Nat) (rest : List Char) (hd : ∀ d ∈ ds, d < 10) (h : Stops rest) :
    takeDigits 10 (digitsStr ds ++ rest) = (ds, rest) := by
  induction ds with
  | nil => simpa [digitsStr] using takeDigits_stop h
  | cons x xs ih =>
    have hx : x < 10 := hd x (List.mem_cons_self)
    have ih' := ih (fun d hm => hd d (List.mem_cons_of_mem _ hm))
    simp only [digitsStr, List.map_cons, List.cons_append, takeDigits, digitVal_digitChar hx, hx, if_true]
    simp only [digitsStr] at ih'
    rw [ih']

theorem decDigitsAux_value (fuel n : Nat) (acc : List Nat) :
    natOfDigits 10 (decDigitsAux fuel n acc) = n * 10 ^ acc.length + natOfDigits 10 acc := by
  induction fuel generalizing n acc with
  | zero => simp [decDigitsAux, natOfDigits_cons]
  | succ f ih =>
    simp only [decDigitsAux]
    split
    · simp [natOfDigits_cons]
    · rw [ih, natOfDigits_cons, List.length_cons, Nat.pow_succ]
      have : n = 10 * (n / 10) + n % 10 := (Nat.div_add_mod n 10).symm
      generalize n / 10 = a at *
      generalize n % 10 = b at *
      subst this
      generalize 10 ^ acc.length = P
      rw [Nat.add_mul, ← Nat.add_assoc]
      congr 1
      rw [Nat.mul_comm 10 a, Nat.mul_assoc, Nat.mul_comm P 10]

theorem natDigits_value (n : Nat) : natOfDigits 10 (natDigits n) = n := by
  unfold natDigits
  rw [decDigitsAux_value]
  simp [natOfDigits]

theorem decDigitsAux_lt (fuel n : Nat) (acc : List Nat) (hn : n ≤ fuel) (ha : ∀ d ∈ acc, d < 10) :
    ∀ d ∈ decDigitsAux fuel n acc, d < 10 := by
  induction fuel generalizing n acc with
  | zero =>
    have : n = 0 := by omega
    subst this
    intro d hm
    simp [decDigitsAux] at hm
    rcases hm with h | h
    · omega
    · exact ha d h
  | succ f ih =>
    simp only [decDigitsAux]
    split
    · intro d hm
      simp at hm
      rcases hm with h | h
      · omega
      · exact ha d h
    · apply ih
      · omega
      · intro d hm
        simp at hm
        rcases hm with h | h
        · omega
        · exact ha d h

theorem natDigits_lt (n : Nat) : ∀ d ∈ natDigits n, d < 10 :=
  decDigitsAux_lt n n [] (Nat.le_refl _) (by simp)

theorem decDigitsAux_ne (fuel n : Nat) (acc : List Nat) : (decDigitsAux fuel n acc).isEmpty = false := by
  induction fuel generalizing n acc with
  | zero => simp [decDigitsAux]
  | succ f ih =>
    simp only [decDigitsAux]
    split
    · simp
    · exact ih _ _

theorem scanExp_expSuffix (e : Int) : scanExp (expSuffix e) = (e, true, []) := by
  have hT : takeDigits 10 (digitsStr (natDigits e.natAbs)) = (natDigits e.natAbs, []) := by
    have := takeDigits_digits (natDigits e.natAbs) [] (natDigits_lt _) trivial
    simpa using this
  have hne : (natDigits e.natAbs).isEmpty = false := decDigitsAux_ne _ _ _
  unfold expSuffix scanExp
  by_cases hneg : e < 0
  · simp only [hneg, if_true, scanSign, hT, hne, natDigits_value]
    simp
    omega
  · simp only [hneg, if_false, scanSign, hT, hne, natDigits_value]
    simp
    omega


theorem dropZeros_cons {x : Nat} (xs : List Nat) (h : x ≠ 0) : dropZeros (x :: xs) = x :: xs := by
  cases x with
  | zero => exact absurd rfl h
  | succ y => rfl

theorem dropZeros_replicate (m : Nat) (ds : List Nat) : dropZeros (List.replicate m 0 ++ ds) = dropZeros ds := by
  induction m with
  | zero => rfl
  | succ m ih => simpa [List.replicate_succ, dropZeros] using ih

theorem zeros_eq (m : Nat) : zeros m = digitsStr (List.replicate m 0) := by
  simp [zeros, digitsStr, digitChar]

theorem digitsStr_append (a b : List Nat) : digitsStr (a ++ b) = digitsStr a ++ digitsStr b := by
  simp [digitsStr]

/-- Scanning `A tail` (no dot). -/
theorem scanDec_nodot (A : List Nat) (tail : List Char) (e : Int) (hasE : Bool)
    (hA : ∀ d ∈ A, d < 10) (hne : A.isEmpty = false) (hst : Stops tail)
    (hfr : scanFrac tail = ([], false, tail)) (hex : scanExp tail = (e, hasE, [])) :
    scanDec (digitsStr A ++ tail) =
      some { int := A, frac := [], hasDot := false, exp := e, hasExp := hasE, rest := [] } := by
  unfold scanDec
  simp only [takeDigits_digits A tail hA hst, hfr, hex, hne, Bool.false_and, Bool.false_eq_true, if_false]

/-- Scanning `A . B tail`. -/
theorem scanDec_dot (A B : List Nat) (tail : List Char) (e : Int) (hasE : Bool)
    (hA : ∀ d ∈ A, d < 10) (hB : ∀ d ∈ B, d < 10) (hne : A.isEmpty = false) (hst : Stops tail)
    (hex : scanExp tail = (e, hasE, [])) :
    scanDec (digitsStr A ++ '.' :: (digitsStr B ++ tail)) =
      some { int := A, frac := B, hasDot := true, exp := e, hasExp := hasE, rest := [] } := by
  unfold scanDec
  have hdot : Stops ('.' :: (digitsStr B ++ tail)) := by simp [Stops]; decide
  simp only [takeDigits_digits A _ hA hdot, scanFrac, takeDigits_digits B tail hB hst, hex, hne,
    Bool.false_and, Bool.false_eq_true, if_false]

theorem readDigits_of {body : List Char} {l : DecLit} (h : scanDec body = some l) (hr : l.rest = [])
    (sig : List Nat) (hs : dropZeros (l.int ++ l.frac) = sig) (hne : sig.isEmpty = false) :
    readDigits body = some (sig, (sig.length : Nat) + l.exp - (l.frac.length : Nat)) := by
  unfold readDigits
  simp only [h, hr, hs, hne, List.isEmpty_nil, Bool.not_true, Bool.false_eq_true, if_false]

theorem scanFrac_nil : scanFrac [] = ([], false, []) := rfl
theorem scanExp_nil : scanExp [] = (0, false, []) := rfl
theorem scanFrac_expSuffix (e : Int) : scanFrac (expSuffix e) = ([], false, expSuffix e) := by
  unfold expSuffix scanFrac; rfl
theorem stops_expSuffix (e : Int) : Stops (expSuffix e) := by
  unfold expSuffix; simp [Stops]; decide


theorem all_lt_append {a b : List Nat} (ha : ∀ d ∈ a, d < 10) (hb : ∀ d ∈ b, d < 10) : ∀ d ∈ a ++ b, d < 10 := by
  intro d hm
  rcases List.mem_append.mp hm with h | h
  · exact ha d h
  · exact hb d h

theorem all_lt_replicate (m : Nat) : ∀ d ∈ List.replicate m 0, d < 10 := by
  intro d hm
  have := (List.mem_replicate.mp hm).2
  omega

end GojaModel.C12

namespace GojaModel.C12

theorem natOfDigits_replicate_zero (r m : Nat) : natOfDigits r (List.replicate m 0) = 0 := by
  induction m with
  | zero => rfl
  | succ m ih =>
    rw [List.replicate_succ, natOfDigits_cons, ih]; simp

end GojaModel.C12

namespace GojaModel.C12

/-! ## literal shapes read back -/

theorem read_plain (x : Nat) (xs : List Nat) (hx : x ≠ 0) (hd : ∀ d ∈ x :: xs, d < 10) :
    readDigits (digitsStr (x :: xs)) = some (x :: xs, (((x :: xs).length : Nat) : Int)) := by
  have hsc := scanDec_nodot (x :: xs) [] 0 false hd (by simp) trivial scanFrac_nil scanExp_nil
  rw [List.append_nil] at hsc
  have := readDigits_of hsc rfl (x :: xs) (by simp only [List.append_nil]; exact dropZeros_cons _ hx) (by simp)
  rw [this]
  simp

theorem read_point (x : Nat) (xs : List Nat) (i : Nat) (hx : x ≠ 0) (hd : ∀ d ∈ x :: xs, d < 10)
    (hi : 0 < i) (hik : i ≤ (x :: xs).length) :
    readDigits (digitsStr ((x :: xs).take i) ++ '.' :: digitsStr ((x :: xs).drop i)) = some (x :: xs, (i : Int)) := by
  have hA : ∀ d ∈ (x :: xs).take i, d < 10 := fun d hm => hd d (List.mem_of_mem_take hm)
  have hB : ∀ d ∈ (x :: xs).drop i, d < 10 := fun d hm => hd d (List.mem_of_mem_drop hm)
  have hAne : ((x :: xs).take i).isEmpty = false := by
    cases i with
    | zero => omega
    | succ j => simp
  have hsc := scanDec_dot ((x :: xs).take i) ((x :: xs).drop i) [] 0 false hA hB hAne trivial scanExp_nil
  rw [List.append_nil] at hsc
  have := readDigits_of hsc rfl (x :: xs)
    (by simp only [List.take_append_drop]; exact dropZeros_cons _ hx) (by simp)
  rw [this]
  simp only [List.length_drop, List.length_cons] at *
  congr 2
  omega

theorem read_small (x : Nat) (xs : List Nat) (z : Nat) (hx : x ≠ 0) (hd : ∀ d ∈ x :: xs, d < 10) :
    readDigits ('0' :: '.' :: (zeros z ++ digitsStr (x :: xs))) = some (x :: xs, -(z : Int)) := by
  have hbody : ('0' :: '.' :: (zeros z ++ digitsStr (x :: xs)))
      = digitsStr [0] ++ '.' :: (digitsStr (List.replicate z 0 ++ (x :: xs)) ++ []) := by
    rw [zeros_eq, digitsStr_append, List.append_nil]; rfl
  rw [hbody]
  have hsc := scanDec_dot [0] (List.replicate z 0 ++ (x :: xs)) [] 0 false (by simp)
    (all_lt_append (all_lt_replicate z) hd) (by simp) trivial scanExp_nil
  have := readDigits_of hsc rfl (x :: xs)
    (by
      show dropZeros ([0] ++ (List.replicate z 0 ++ (x :: xs))) = x :: xs
      rw [show [0] ++ (List.replicate z 0 ++ (x :: xs)) = List.replicate (z + 1) 0 ++ (x :: xs) by
        simp [List.replicate_succ]]
      rw [dropZeros_replicate]; exact dropZeros_cons _ hx)
    (by simp)
  rw [this]
  simp only [List.length_append, List.length_replicate, List.length_cons] at *
  congr 2
  omega

end GojaModel.C12
