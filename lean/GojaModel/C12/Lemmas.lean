/-
  C12 lemmas: order theory of the double grid `magOrd`, and of the interval tests `lowerOK` / `upperOK`.
  Core Lean only.
-/
import GojaModel.C12.Model

namespace GojaModel.C12

theorem two52 : (2:Nat) ^ 52 = 4503599627370496 := by decide

theorem magOrd_small {k : Nat} (h : k < 2 ^ 52) : magOrd k = k := by
  simp [magOrd, h]

theorem magOrd_big {k : Nat} (h : 2 ^ 52 ≤ k) :
    magOrd k = (2 ^ 52 + k % 2 ^ 52) * 2 ^ (k / 2 ^ 52 - 1) := by
  have : ¬ k < 2 ^ 52 := Nat.not_lt.mpr h
  simp [magOrd, this]

/-- The grid of doubles is strictly increasing in the ordered bit pattern (one step). -/
theorem magOrd_lt_succ (k : Nat) : magOrd k < magOrd (k + 1) := by
  by_cases h1 : k + 1 < 2 ^ 52
  · rw [magOrd_small h1, magOrd_small (by omega)]; omega
  · by_cases h0 : k < 2 ^ 52
    · -- k = 2^52 - 1
      have hk : k + 1 = 2 ^ 52 := by omega
      rw [magOrd_small h0, magOrd_big (by omega), hk]
      simp [two52] at *
      omega
    · have hb : 2 ^ 52 ≤ k := Nat.le_of_not_lt h0
      rw [magOrd_big hb, magOrd_big (by omega)]
      by_cases hm : k % 2 ^ 52 + 1 < 2 ^ 52
      · have e1 : (k + 1) / 2 ^ 52 = k / 2 ^ 52 := by omega
        have e2 : (k + 1) % 2 ^ 52 = k % 2 ^ 52 + 1 := by omega
        rw [e1, e2]
        apply Nat.mul_lt_mul_of_pos_right (by omega) (Nat.two_pow_pos _)
      · have e1 : (k + 1) / 2 ^ 52 = k / 2 ^ 52 + 1 := by omega
        have e2 : (k + 1) % 2 ^ 52 = 0 := by omega
        have e3 : k % 2 ^ 52 = 2 ^ 52 - 1 := by omega
        have hq : 1 ≤ k / 2 ^ 52 := by omega
        rw [e1, e2, e3]
        have : k / 2 ^ 52 + 1 - 1 = (k / 2 ^ 52 - 1) + 1 := by omega
        have hps : 2 ^ (k / 2 ^ 52 - 1 + 1) = 2 ^ (k / 2 ^ 52 - 1) * 2 := Nat.pow_succ _ _
        rw [this, hps]
        have hp : 0 < 2 ^ (k / 2 ^ 52 - 1) := Nat.two_pow_pos _
        generalize 2 ^ (k / 2 ^ 52 - 1) = P at hp ⊢
        have h3 : (2 ^ 52 + 0) * (P * 2) = (2 ^ 52 * 2) * P := by
          rw [Nat.add_zero, Nat.mul_comm P 2, Nat.mul_assoc]
        rw [h3]
        apply Nat.mul_lt_mul_of_pos_right (by omega) hp

theorem magOrd_strictMono {j k : Nat} (h : j < k) : magOrd j < magOrd k := by
  induction k with
  | zero => omega
  | succ k ih =>
    by_cases hj : j = k
    · subst hj; exact magOrd_lt_succ j
    · exact Nat.lt_trans (ih (by omega)) (magOrd_lt_succ k)

theorem magOrd_mono {j k : Nat} (h : j ≤ k) : magOrd j ≤ magOrd k := by
  by_cases e : j = k
  · subst e; exact Nat.le_refl _
  · exact Nat.le_of_lt (magOrd_strictMono (by omega))

theorem magOrd_inj {j k : Nat} (h : magOrd j = magOrd k) : j = k := by
  by_cases h1 : j < k
  · have := magOrd_strictMono h1; omega
  · by_cases h2 : k < j
    · have := magOrd_strictMono h2; omega
    · omega

end GojaModel.C12

namespace GojaModel.C12

/-! ## what the interval tests say -/

theorem lowerOK_spec {n d k : Nat} (h : lowerOK n d k = true) (hk : k ≠ 0) :
    (magOrd (k - 1) + magOrd k) * d < 2 * n * scale ∨
      ((magOrd (k - 1) + magOrd k) * d = 2 * n * scale ∧ k % 2 = 0) := by
  simp [lowerOK, hk] at h
  exact h

theorem upperOK_spec {n d k : Nat} (h : upperOK n d k = true) (hk : k ≠ infOrd) :
    2 * n * scale < (magOrd k + magOrd (k + 1)) * d ∨
      (2 * n * scale = (magOrd k + magOrd (k + 1)) * d ∧ k % 2 = 0) := by
  simp [upperOK, hk] at h
  exact h

theorem lowerOK_false_spec {n d k : Nat} (h : lowerOK n d k = false) :
    k ≠ 0 ∧ 2 * n * scale ≤ (magOrd (k - 1) + magOrd k) * d := by
  simp [lowerOK] at h
  refine ⟨h.1, ?_⟩
  have h2 := h.2
  omega

theorem upperOK_false_spec {n d k : Nat} (h : upperOK n d k = false) :
    k ≠ infOrd ∧ (magOrd k + magOrd (k + 1)) * d ≤ 2 * n * scale := by
  simp [upperOK] at h
  refine ⟨h.1, ?_⟩
  have h2 := h.2
  omega

end GojaModel.C12

namespace GojaModel.C12

set_option exponentiation.threshold 2000 in
theorem scale_pos : 0 < scale := by unfold scale; exact Nat.pow_pos (by decide)

/-! ## the interval tests are monotone in the rational (cross-multiplied order `n'/d' ≤ n/d ⟺ n'*d ≤ n*d'`) -/

theorem lowerOK_false_iff {n d k : Nat} :
    lowerOK n d k = false ↔
      k ≠ 0 ∧ (2 * n * scale < (magOrd (k - 1) + magOrd k) * d ∨
               (2 * n * scale = (magOrd (k - 1) + magOrd k) * d ∧ k % 2 = 1)) := by
  simp [lowerOK]
  intro _
  constructor
  · rintro ⟨h1, h2⟩
    by_cases e : (magOrd (k - 1) + magOrd k) * d = 2 * n * scale
    · right; exact ⟨e.symm, h2 e⟩
    · left; omega
  · intro h
    refine ⟨?_, ?_⟩
    · rcases h with h | h <;> omega
    · intro e; rcases h with h | h <;> omega

theorem upperOK_false_iff {n d k : Nat} :
    upperOK n d k = false ↔
      k ≠ infOrd ∧ ((magOrd k + magOrd (k + 1)) * d < 2 * n * scale ∨
               (2 * n * scale = (magOrd k + magOrd (k + 1)) * d ∧ k % 2 = 1)) := by
  simp [upperOK]
  intro _
  constructor
  · rintro ⟨h1, h2⟩
    by_cases e : 2 * n * scale = (magOrd k + magOrd (k + 1)) * d
    · right; exact ⟨e, h2 e⟩
    · left; omega
  · intro h
    refine ⟨?_, ?_⟩
    · rcases h with h | h <;> omega
    · intro e; rcases h with h | h <;> omega

/-- A rational below one that is already below the rounding interval is below it too. -/
theorem lowerOK_false_mono {n d n' d' k : Nat} (hd : 0 < d) (hd' : 0 < d')
    (hle : n' * d ≤ n * d') (h : lowerOK n d k = false) : lowerOK n' d' k = false := by
  rw [lowerOK_false_iff] at h ⊢
  obtain ⟨h0, h⟩ := h
  refine ⟨h0, ?_⟩
  generalize (magOrd (k - 1) + magOrd k) = C at h ⊢
  generalize scale = S at h ⊢
  have e1 : 2 * n' * S * d = 2 * S * (n' * d) := by ac_rfl
  have e2 : 2 * n * S * d' = 2 * S * (n * d') := by ac_rfl
  have h3 : 2 * n' * S * d ≤ 2 * n * S * d' := by
    rw [e1, e2]; exact Nat.mul_le_mul_left _ hle
  have e3 : C * d * d' = C * d' * d := by ac_rfl
  rcases h with h | ⟨h, hodd⟩
  · left
    have h4 : 2 * n * S * d' < C * d * d' := Nat.mul_lt_mul_of_pos_right h hd'
    rw [e3] at h4
    exact Nat.lt_of_mul_lt_mul_right (Nat.lt_of_le_of_lt h3 h4)
  · have h4 : 2 * n' * S * d ≤ C * d' * d := by rw [← e3, ← h]; exact h3
    have h5 : 2 * n' * S ≤ C * d' := Nat.le_of_mul_le_mul_right h4 hd
    by_cases e : 2 * n' * S = C * d'
    · right; exact ⟨e, hodd⟩
    · left; omega

/-- A rational above one that is already above the rounding interval is above it too. -/
theorem upperOK_false_mono {n d n' d' k : Nat} (hd : 0 < d) (hd' : 0 < d')
    (hle : n * d' ≤ n' * d) (h : upperOK n d k = false) : upperOK n' d' k = false := by
  rw [upperOK_false_iff] at h ⊢
  obtain ⟨h0, h⟩ := h
  refine ⟨h0, ?_⟩
  generalize (magOrd k + magOrd (k + 1)) = C at h ⊢
  generalize scale = S at h ⊢
  have e1 : 2 * n' * S * d = 2 * S * (n' * d) := by ac_rfl
  have e2 : 2 * n * S * d' = 2 * S * (n * d') := by ac_rfl
  have h3 : 2 * n * S * d' ≤ 2 * n' * S * d := by
    rw [e1, e2]; exact Nat.mul_le_mul_left _ hle
  have e3 : C * d * d' = C * d' * d := by ac_rfl
  rcases h with h | ⟨h, hodd⟩
  · left
    have h4 : C * d * d' < 2 * n * S * d' := Nat.mul_lt_mul_of_pos_right h hd'
    rw [e3] at h4
    exact Nat.lt_of_mul_lt_mul_right (Nat.lt_of_lt_of_le h4 h3)
  · have h4 : C * d' * d ≤ 2 * n' * S * d := by rw [← e3, ← h]; exact h3
    have h5 : C * d' ≤ 2 * n' * S := Nat.le_of_mul_le_mul_right h4 hd
    by_cases e : 2 * n' * S = C * d'
    · right; exact ⟨e, hodd⟩
    · left; omega

/-! ## decimals  s × 10^c  on a common scale -/

theorem decDen_pos (c : Int) : 0 < decDen c := by unfold decDen; exact Nat.pow_pos (by decide)

/-- For `M` large enough, `decNum s c / decDen c = s × 10^(M+c) / 10^M`. -/
theorem dec_common (s : Nat) (c : Int) (M : Nat) (hM : (-c).toNat ≤ M) :
    decNum s c * 10 ^ M = s * 10 ^ ((M : Int) + c).toNat * decDen c := by
  unfold decNum decDen
  rw [Nat.mul_assoc, Nat.mul_assoc, ← Nat.pow_add, ← Nat.pow_add]
  congr 2
  omega

/-- Order of two decimals from their order on a common scale. -/
theorem dec_le_of_common (s1 s2 : Nat) (c1 c2 : Int) (M : Nat)
    (h1 : (-c1).toNat ≤ M) (h2 : (-c2).toNat ≤ M)
    (h : s1 * 10 ^ ((M : Int) + c1).toNat ≤ s2 * 10 ^ ((M : Int) + c2).toNat) :
    decNum s1 c1 * decDen c2 ≤ decNum s2 c2 * decDen c1 := by
  have hp : 0 < 10 ^ M := Nat.pow_pos (by decide)
  apply Nat.le_of_mul_le_mul_right _ hp
  have a1 : decNum s1 c1 * decDen c2 * 10 ^ M = (decNum s1 c1 * 10 ^ M) * decDen c2 := by ac_rfl
  have a2 : decNum s2 c2 * decDen c1 * 10 ^ M = (decNum s2 c2 * 10 ^ M) * decDen c1 := by ac_rfl
  rw [a1, a2, dec_common s1 c1 M h1, dec_common s2 c2 M h2]
  have b1 : s1 * 10 ^ ((M : Int) + c1).toNat * decDen c1 * decDen c2
      = (s1 * 10 ^ ((M : Int) + c1).toNat) * (decDen c1 * decDen c2) := by ac_rfl
  have b2 : s2 * 10 ^ ((M : Int) + c2).toNat * decDen c2 * decDen c1
      = (s2 * 10 ^ ((M : Int) + c2).toNat) * (decDen c1 * decDen c2) := by ac_rfl
  rw [b1, b2]
  exact Nat.mul_le_mul_right _ h

/-- Between two consecutive multiples of 10^p2 there is no number `s' × 10^p1` with fewer digits than `a`:
the arithmetic core of "no shorter digit string lies in between". -/
theorem no_short_between (s' a k p1 p2 : Nat) (hk : 2 ≤ k) (hs' : s' < 10 ^ (k - 1)) (ha : 10 ^ (k - 2) ≤ a) :
    s' * 10 ^ p1 ≤ a * 10 ^ p2 ∨ (a + 1) * 10 ^ p2 ≤ s' * 10 ^ p1 := by
  by_cases hp : p2 ≤ p1
  · -- s' × 10^p1 is itself a multiple of 10^p2
    have e : 10 ^ p1 = 10 ^ (p1 - p2) * 10 ^ p2 := by rw [← Nat.pow_add]; congr 1; omega
    rw [e, ← Nat.mul_assoc]
    generalize s' * 10 ^ (p1 - p2) = m
    by_cases hm : m ≤ a
    · left; exact Nat.mul_le_mul_right _ hm
    · right; exact Nat.mul_le_mul_right _ (by omega)
  · left
    have e : 10 ^ p2 = 10 ^ (p2 - p1 - 1) * (10 * 10 ^ p1) := by
      rw [← Nat.pow_succ', ← Nat.pow_add]; congr 1; omega
    have e2 : 10 ^ (k - 1) = 10 ^ (k - 2) * 10 := by rw [← Nat.pow_succ]; congr 1; omega
    have hq : 1 ≤ 10 ^ (p2 - p1 - 1) := Nat.pow_pos (by decide)
    calc s' * 10 ^ p1 ≤ 10 ^ (k - 1) * 10 ^ p1 := Nat.mul_le_mul_right _ (Nat.le_of_lt hs')
      _ = 10 ^ (k - 2) * (1 * (10 * 10 ^ p1)) := by rw [e2]; ac_rfl
      _ ≤ a * (10 ^ (p2 - p1 - 1) * (10 * 10 ^ p1)) :=
          Nat.mul_le_mul ha (Nat.mul_le_mul_right _ hq)
      _ = a * 10 ^ p2 := by rw [← e]

end GojaModel.C12

namespace GojaModel.C12

/-! ## positional notation -/

theorem foldl_digits (r : Nat) (b : List Nat) (acc : Nat) :
    b.foldl (fun a d => a * r + d) acc = acc * r ^ b.length + b.foldl (fun a d => a * r + d) 0 := by
  induction b generalizing acc with
  | nil => simp
  | cons x xs ih =>
    simp only [List.foldl_cons, List.length_cons]
    rw [ih (acc * r + x), ih (0 * r + x)]
    rw [Nat.pow_succ, Nat.add_mul, Nat.add_mul, Nat.zero_mul, Nat.zero_mul, Nat.zero_add]
    have : acc * r * r ^ xs.length = acc * (r ^ xs.length * r) := by ac_rfl
    omega

/-- Horner evaluation is positional: the digits `a` followed by the digits `b`. -/
theorem natOfDigits_append (r : Nat) (a b : List Nat) :
    natOfDigits r (a ++ b) = natOfDigits r a * r ^ b.length + natOfDigits r b := by
  unfold natOfDigits
  rw [List.foldl_append, foldl_digits]

theorem natOfDigits_cons (r : Nat) (x : Nat) (b : List Nat) :
    natOfDigits r (x :: b) = x * r ^ b.length + natOfDigits r b := by
  have := natOfDigits_append r [x] b
  simpa [natOfDigits] using this

/-- Same-grid optimality: if `p` is within half a unit `D` of `q`, no other grid point `p ± m·D` is closer. -/
theorem grid_closest (N N' D q : Nat) (h : 2 * absDiff (N * D) q ≤ D) :
    absDiff (N * D) q ≤ absDiff (N' * D) q := by
  have hc : N' < N ∨ N' = N ∨ N < N' := by omega
  rcases hc with hlt | heq | hgt
  · have h1 : (N' + 1) * D ≤ N * D := Nat.mul_le_mul_right _ hlt
    rw [Nat.add_mul, Nat.one_mul] at h1
    generalize N * D = p at h h1 ⊢
    generalize N' * D = p' at h1 ⊢
    unfold absDiff at *
    omega
  · subst heq; exact Nat.le_refl _
  · have h1 : (N + 1) * D ≤ N' * D := Nat.mul_le_mul_right _ hgt
    rw [Nat.add_mul, Nat.one_mul] at h1
    generalize N * D = p at h h1 ⊢
    generalize N' * D = p' at h1 ⊢
    unfold absDiff at *
    omega

end GojaModel.C12

namespace GojaModel.C12

theorem lowerOK_true_mono {n d n' d' k : Nat} (hd : 0 < d) (hd' : 0 < d')
    (hle : n * d' ≤ n' * d) (h : lowerOK n d k = true) : lowerOK n' d' k = true := by
  cases hh : lowerOK n' d' k with
  | true => rfl
  | false =>
    have := lowerOK_false_mono hd' hd hle hh
    rw [this] at h; cases h

theorem upperOK_true_mono {n d n' d' k : Nat} (hd : 0 < d) (hd' : 0 < d')
    (hle : n' * d ≤ n * d') (h : upperOK n d k = true) : upperOK n' d' k = true := by
  cases hh : upperOK n' d' k with
  | true => rfl
  | false =>
    have := upperOK_false_mono hd' hd hle hh
    rw [this] at h; cases h

theorem roundsTo_iff {s : Nat} {c : Int} {o : Nat} :
    roundsTo s c o = true ↔
      o ≤ infOrd ∧ lowerOK (decNum s c) (decDen c) o = true ∧ upperOK (decNum s c) (decDen c) o = true := by
  simp only [roundsTo, isNearestMag, Bool.and_eq_true, decide_eq_true_eq]
  constructor
  · rintro ⟨⟨⟨_, h2⟩, h3⟩, h4⟩; exact ⟨h2, h3, h4⟩
  · rintro ⟨h2, h3, h4⟩; exact ⟨⟨⟨decDen_pos c, h2⟩, h3⟩, h4⟩

/-- The rounding interval is convex along a fixed decimal exponent. -/
theorem roundsTo_between {a m b : Nat} {c : Int} {o : Nat} (h1 : a ≤ m) (h2 : m ≤ b)
    (ha : roundsTo a c o = true) (hb : roundsTo b c o = true) : roundsTo m c o = true := by
  rw [roundsTo_iff] at ha hb ⊢
  refine ⟨ha.1, ?_, ?_⟩
  · apply lowerOK_true_mono (decDen_pos c) (decDen_pos c) _ ha.2.1
    unfold decNum
    exact Nat.mul_le_mul_right _ (Nat.mul_le_mul_right _ h1)
  · apply upperOK_true_mono (decDen_pos c) (decDen_pos c) _ hb.2.2
    unfold decNum
    exact Nat.mul_le_mul_right _ (Nat.mul_le_mul_right _ h2)

end GojaModel.C12
