/-
  C05 — `asciiString.ToFloat` (string_ascii.go:238): `_toFloat` first, `_toInt` as fallback; proved to make the same
  decisions as `ToNumber` for every string.  Core Lean only.
-/
import GojaModel.C05.StrAgree
namespace GojaModel.C05.StrNum

/-- string_ascii.go `_toFloat` with its error result: `none` = an error is returned (the callers treat that differently
from a successfully parsed NaN) -/
def toFloatE (t : List Nat) : Option Res :=
  if t == str "-0" then some (.num true 0 0)
  else if t.contains 0x5F then none
  else
    let base := radixPrefix t
    if base ≠ 0 then
      (if allDigits base (t.drop 2) then some (Res.exactInt false (digitsValue base (t.drop 2))) else none)
    else
      match (splitSign t).2 with
      | 0x30 :: x :: _ => if x = 0x78 ∨ x = 0x58 then none else tailE t
      | _ => tailE t
where
  tailE (t : List Nat) : Option Res :=
    let l := t.map lower
    if (splitSign l).2 == str "inf" || (splitSign l).2 == str "infinity" then none    -- ParseFloat gives ±Inf: rejected explicitly
    else if l == str "nan" then some .nan                                            -- ParseFloat gives NaN without error
    else match parseDecimal t with
      | some d => some d.toRes                                                         -- (a range error is cleared)
      | none => none

/-- `asciiString.ToFloat` on the trimmed text: `_toFloat` first, `_toInt` only when it fails (string_ascii.go:238) -/
def mechToFloatT (t : List Nat) : Res :=
  if t.isEmpty then Res.exactInt false 0
  else if t == str "Infinity" || t == str "+Infinity" then .inf false
  else if t == str "-Infinity" then .inf true
  else match toFloatE t with
    | some f => f
    | none => match stringToInt t with
      | some i => Res.exactInt (decide (i < 0)) i.natAbs
      | none => .nan

theorem tail_getD (t : List Nat) : toFloat.tail t = (toFloatE.tailE t).getD Res.nan := by
  simp only [toFloat.tail, toFloatE.tailE, goSpecial]
  by_cases h1 : ((splitSign (t.map lower)).2 == str "inf" || (splitSign (t.map lower)).2 == str "infinity") = true
  · simp [h1]
  · have h1' : ((splitSign (t.map lower)).2 == str "inf" || (splitSign (t.map lower)).2 == str "infinity") = false := by
      simpa using h1
    by_cases h2 : (t.map lower == str "nan") = true
    · simp [h1', h2]
    · have h2' : (t.map lower == str "nan") = false := by simpa using h2
      simp only [h1', h2', Bool.or_false, Bool.false_eq_true, if_false]
      cases parseDecimal t <;> rfl

theorem toFloat_getD (t : List Nat) : toFloat t = (toFloatE t).getD Res.nan := by
  simp only [toFloat, toFloatE]
  by_cases h0 : (t == str "-0") = true
  · simp [h0]
  · simp only [h0, Bool.false_eq_true, if_false]
    by_cases h1 : t.contains 0x5F = true
    · simp only [h1, if_true]; rfl
    · simp only [h1, Bool.false_eq_true, if_false]
      by_cases h2 : radixPrefix t ≠ 0
      · simp only [h2, ne_eq, not_false_eq_true, if_true]
        cases allDigits (radixPrefix t) (List.drop 2 t) <;> simp
      · simp only [h2, if_false]
        split
        · rename_i x r heq
          by_cases hx : x = 0x78 ∨ x = 0x58
          · simp [hx, heq]
          · simp only [hx, if_false, heq]; exact tail_getD t
        · rename_i hno
          split
          · rename_i x r heq; exact absurd heq (hno x r)
          · exact tail_getD t


theorem toFloatE_of_toFloat {t : List Nat} {r : Res} (h : toFloat t = r) (hr : r ≠ Res.nan) : toFloatE t = some r := by
  rw [toFloat_getD] at h
  cases hE : toFloatE t with
  | none => rw [hE] at h; exact absurd h.symm hr
  | some x => rw [hE] at h; simp at h; rw [h]

theorem goParseInt_some {s : List Nat} {base : Nat} {i : Int} (h : goParseInt s base = some i) :
    (splitSign s).2 ≠ [] ∧ allDigits base (splitSign s).2 = true ∧
    i = (if (splitSign s).1 then -((digitsValue base (splitSign s).2 : Nat) : Int) else ((digitsValue base (splitSign s).2 : Nat) : Int)) ∧
    (if (splitSign s).1 then digitsValue base (splitSign s).2 ≤ 2 ^ 63 else digitsValue base (splitSign s).2 < 2 ^ 63) := by
  simp only [goParseInt] at h
  split at h
  · cases h
  · rename_i hc
    simp only [Bool.or_eq_true, Bool.not_eq_true', not_or] at hc
    have hne : (splitSign s).2 ≠ [] := by
      intro he; rw [he] at hc; simp at hc
    have hall : allDigits base (splitSign s).2 = true := by
      cases hx : allDigits base (splitSign s).2 with
      | true => rfl
      | false => exact absurd hx hc.2
    cases hs : (splitSign s).1
    · simp only [hs, Bool.false_eq_true, if_false] at h ⊢
      split at h
      · rename_i hr; cases h; exact ⟨hne, hall, rfl, hr⟩
      · cases h
    · simp only [hs, if_true] at h ⊢
      split at h
      · rename_i hr; cases h; exact ⟨hne, hall, rfl, hr⟩
      · cases h

/-- when the integer parse succeeds, `_toFloat` succeeds too, with the same value -/
theorem toFloatE_of_stringToInt {t : List Nat} {i : Int} (h : stringToInt t = some i) :
    toFloatE t = some (Res.exactInt (decide (i < 0)) i.natAbs) := by
  by_cases hrp : radixPrefix t = 0
  · -- decimal
    simp only [stringToInt, hrp, ne_eq, not_true_eq_false, if_false] at h
    cases hg : goParseInt t 10 with
    | none => rw [hg] at h; cases h
    | some j =>
      rw [hg] at h
      simp only at h
      split at h
      · cases h
      · rename_i hnz
        cases h
        obtain ⟨hne, hall, hj, hrange⟩ := goParseInt_some hg
        rw [allDigits10_eq] at hall
        rcases splitSign_cases t with ⟨r, h1, h2⟩ | ⟨r, h1, h2⟩ | ⟨h2, _⟩
        · rw [h2] at hne hall hj hrange; simp only at hne hall hj hrange
          cases r with
          | nil => exact absurd rfl hne
          | cons d ds =>
            subst h1
            have hn0 : digitsValue 10 (d :: ds) ≠ 0 := by
              intro h0
              apply hnz
              refine ⟨by rw [hj]; simp [h0], rfl⟩
            have := toFloat_signed true d ds hall
            unfold signed at this
            have hE := toFloatE_of_toFloat this (by simp)
            simp only [if_true, List.singleton_append] at hE
            rw [hE, hj]
            simp only [if_true, Res.exactInt]
            have : (-((digitsValue 10 (d :: ds) : Nat) : Int)) < 0 := by omega
            simp [this]; omega
        · rw [h2] at hne hall hj hrange; simp only at hne hall hj hrange
          cases r with
          | nil => exact absurd rfl hne
          | cons d ds =>
            subst h1
            have hE := toFloatE_of_toFloat (toFloat_plus d ds hall) (by simp)
            rw [hE, hj]
            simp only [Bool.false_eq_true, if_false, Res.exactInt]
            have : ¬ (((digitsValue 10 (d :: ds) : Nat) : Int) < 0) := by omega
            simp [this]
        · rw [h2] at hne hall hj hrange; simp only at hne hall hj hrange
          cases t with
          | nil => exact absurd rfl hne
          | cons d ds =>
            have := toFloat_signed false d ds hall
            unfold signed at this
            have hE := toFloatE_of_toFloat this (by simp)
            simp only [Bool.false_eq_true, if_false, List.nil_append] at hE
            rw [hE, hj]
            simp only [Bool.false_eq_true, if_false, Res.exactInt]
            have : ¬ (((digitsValue 10 (d :: ds) : Nat) : Int) < 0) := by omega
            simp [this]
  · -- radix literal within int64
    obtain ⟨p, c, rest, ht, hp⟩ := radixPrefix_shape hrp
    subst ht
    have hrp' : radixPrefix (0x30 :: p :: c :: rest) = radixOfLetter p := rfl
    simp only [stringToInt, hrp', hp, ne_eq, not_false_eq_true, if_true] at h
    split at h
    · cases h
    · rename_i hs
      have n1 : c ≠ 0x2D := by omega
      have n2 : c ≠ 0x2B := by omega
      obtain ⟨_, hall, hj, hrange⟩ := goParseInt_some h
      rw [splitSign_nosign c rest n1 n2] at hall hj hrange
      simp only [Bool.false_eq_true, if_false] at hj hrange
      have hle := radixOfLetter_le p
      have e4 : ((0x30 :: p :: c :: rest) == str "-0") = false := by rw [str_m0]; simp
      have hus : (0x30 :: p :: c :: rest).contains 0x5F = false := by
        have hp5 : p ≠ 0x5F := by intro hh; subst hh; exact hp (by decide)
        simp only [List.contains_cons, Bool.or_eq_false_iff]
        refine ⟨by decide, by simpa using fun hh => hp5 hh.symm, ?_⟩
        have := not_contains_us hle hall
        simpa [List.contains_cons] using this
      simp only [toFloatE, e4, hus, hrp', hp, Bool.false_eq_true, if_false, ne_eq, not_false_eq_true, if_true, List.drop, hall, hj]
      have : ¬ (((digitsValue (radixOfLetter p) (c :: rest) : Nat) : Int) < 0) := by omega
      simp [Res.exactInt, this]

/-- **`ToFloat` of a string is the value of its `ToNumber`**: trying `_toFloat` first and `_toInt` second (string_ascii.go
`ToFloat`) yields the same decisions as trying `_toInt` first (`ToNumber`), for every string — so `Math.*`, unary minus,
`isNaN`, … see the number that `Number(s)` denotes. -/
theorem mechToFloatT_eq_mechT (t : List Nat) : mechToFloatT t = mechT t := by
  simp only [mechToFloatT, mechT]
  split
  · rfl
  · split
    · rfl
    · split
      · rfl
      · cases hs : stringToInt t with
        | some i =>
          rw [toFloatE_of_stringToInt hs]
        | none =>
          simp only
          rw [toFloat_getD]
          cases toFloatE t <;> rfl

end GojaModel.C05.StrNum
