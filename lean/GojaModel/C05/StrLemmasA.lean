/-  C05 StringToNumber lemmas, part A: white-space table, trimming, radix literals (core Lean only). -/
import GojaModel.C05.StrNum
namespace GojaModel.C05.StrNum

theorem trimSet_eq_spec' : ∀ c, isTrimChar c = specIsStrWhiteSpace c := by
  intro c
  rw [Bool.eq_iff_iff]
  simp only [isTrimChar, trimChars, specIsStrWhiteSpace, isZs, List.contains_cons, List.contains_nil,
    Bool.or_eq_true, Bool.and_eq_true, beq_iff_eq, decide_eq_true_eq, Bool.or_false]
  constructor <;> intro h <;> omega

theorem dropWs_spec (s : List Nat) :
    ∃ pre, s = pre ++ dropWs s ∧ pre.all isTrimChar = true ∧ (∀ c rest, dropWs s = c :: rest → isTrimChar c = false) := by
  induction s with
  | nil => exact ⟨[], rfl, rfl, by intro c rest h; cases h⟩
  | cons a as ih =>
    obtain ⟨pre, h1, h2, h3⟩ := ih
    simp only [dropWs]
    by_cases ha : isTrimChar a = true
    · simp only [ha, if_true]
      refine ⟨a :: pre, by rw [List.cons_append, ← h1], by simp [ha, h2], h3⟩
    · simp only [ha, if_false]
      refine ⟨[], rfl, rfl, ?_⟩
      intro c rest h
      cases h
      simpa using ha

theorem trim_correct' (s : List Nat) :
    (∃ pre suf, s = pre ++ trim s ++ suf ∧ pre.all isTrimChar = true ∧ suf.all isTrimChar = true) ∧
    (∀ c rest, trim s = c :: rest → isTrimChar c = false) ∧
    (∀ c, (trim s).getLast? = some c → isTrimChar c = false) := by
  obtain ⟨pre, h1, h2, h3⟩ := dropWs_spec s
  obtain ⟨suf, k1, k2, k3⟩ := dropWs_spec (dropWs s).reverse
  have hrev : dropWs s = (dropWs (dropWs s).reverse).reverse ++ suf.reverse := by
    have := congrArg List.reverse k1
    simpa using this
  refine ⟨⟨pre, suf.reverse, ?_, h2, by simpa using k2⟩, ?_, ?_⟩
  · show s = pre ++ trim s ++ suf.reverse
    unfold trim
    rw [List.append_assoc, ← hrev]; exact h1
  · intro c rest hc
    unfold trim at hc
    -- the first element of trim s is the first element of dropWs s
    rw [hc] at hrev
    exact h3 c (rest ++ suf.reverse) (by rw [hrev]; simp)
  · intro c hc
    unfold trim at hc
    rw [List.getLast?_reverse] at hc
    cases hd : dropWs (dropWs s).reverse with
    | nil => rw [hd] at hc; cases hc
    | cons x xs =>
      rw [hd] at hc; simp at hc; subst hc
      exact k3 x xs hd


theorem str_Infinity : str "Infinity" = [0x49,0x6E,0x66,0x69,0x6E,0x69,0x74,0x79] := by decide
theorem str_pInfinity : str "+Infinity" = [0x2B,0x49,0x6E,0x66,0x69,0x6E,0x69,0x74,0x79] := by decide
theorem str_mInfinity : str "-Infinity" = [0x2D,0x49,0x6E,0x66,0x69,0x6E,0x69,0x74,0x79] := by decide
theorem str_m0 : str "-0" = [0x2D, 0x30] := by decide
theorem str_inf : str "inf" = [0x69,0x6E,0x66] := by decide
theorem str_infinity : str "infinity" = [0x69,0x6E,0x66,0x69,0x6E,0x69,0x74,0x79] := by decide
theorem str_nan : str "nan" = [0x6E,0x61,0x6E] := by decide

theorem radixOfLetter_le (p : Nat) : radixOfLetter p ≤ 16 := by
  unfold radixOfLetter; split <;> (try split) <;> (try split) <;> omega

theorem digitVal_sign {c : Nat} (h : c = 0x2B ∨ c = 0x2D) : digitVal c = 36 := by
  rcases h with h | h <;> subst h <;> decide

theorem digitVal_us : digitVal 0x5F = 36 := by decide

/-- a digit valid in a base ≤ 16 is not a sign and not an underscore -/
theorem valid_digit_ne {c base : Nat} (hb : base ≤ 16) (h : digitVal c < base) : c ≠ 0x2B ∧ c ≠ 0x2D ∧ c ≠ 0x5F := by
  refine ⟨?_, ?_, ?_⟩ <;> intro hc <;> subst hc <;> revert h <;> simp [digitVal] <;> omega

theorem not_contains_us {base : Nat} (hb : base ≤ 16) {ds : List Nat} (h : allDigits base ds = true) :
    ds.contains 0x5F = false := by
  induction ds with
  | nil => rfl
  | cons a as ih =>
    simp only [allDigits, List.all_cons, Bool.and_eq_true, decide_eq_true_eq] at h
    have := (valid_digit_ne hb h.1).2.2
    simp only [List.contains_cons, Bool.or_eq_false_iff]
    refine ⟨by simpa using fun h' => this h'.symm, ih (by simpa [allDigits] using h.2)⟩

/-- A sign after a radix prefix is never accepted. -/
theorem radix_sign_rejected' (p sgn : Nat) (rest : List Nat) (hp : radixOfLetter p ≠ 0)
    (hs : sgn = 0x2B ∨ sgn = 0x2D) : mechT (0x30 :: p :: sgn :: rest) = Res.nan := by
  have hrp : radixPrefix (0x30 :: p :: sgn :: rest) = radixOfLetter p := rfl
  have hsti : stringToInt (0x30 :: p :: sgn :: rest) = none := by
    simp only [stringToInt, hrp, hp, ne_eq, not_false_eq_true, if_true, hs]
  have hdv := digitVal_sign hs
  have hle := radixOfLetter_le p
  have hall : allDigits (radixOfLetter p) (sgn :: rest) = false := by
    simp only [allDigits, List.all_cons, hdv]
    have : ¬ (36 < radixOfLetter p) := by omega
    simp [this]
  simp only [mechT, hsti, str_Infinity, str_pInfinity, str_mInfinity]
  simp only [List.isEmpty_cons, Bool.false_eq_true, if_false]
  have e1 : ((0x30 :: p :: sgn :: rest) == [0x49,0x6E,0x66,0x69,0x6E,0x69,0x74,0x79]) = false := by simp
  have e2 : ((0x30 :: p :: sgn :: rest) == [0x2B,0x49,0x6E,0x66,0x69,0x6E,0x69,0x74,0x79]) = false := by simp
  have e3 : ((0x30 :: p :: sgn :: rest) == [0x2D,0x49,0x6E,0x66,0x69,0x6E,0x69,0x74,0x79]) = false := by simp
  simp only [e1, e2, e3, Bool.or_false, Bool.false_eq_true, if_false]
  simp only [toFloat, str_m0, hrp]
  have e4 : ((0x30 :: p :: sgn :: rest) == [0x2D, 0x30]) = false := by simp
  simp only [e4, Bool.false_eq_true, if_false, hp, ne_eq, not_false_eq_true, if_true, List.drop, hall]
  split <;> rfl


theorem splitSign_nosign (c : Nat) (cs : List Nat) (h1 : c ≠ 0x2D) (h2 : c ≠ 0x2B) :
    splitSign (c :: cs) = (false, c :: cs) := by
  unfold splitSign
  split
  · rename_i heq; injection heq with a b; exact absurd a h1
  · rename_i heq; injection heq with a b; exact absurd a h2
  · rfl

theorem goParseInt_nosign (c : Nat) (cs : List Nat) (base : Nat) (h1 : c ≠ 0x2D) (h2 : c ≠ 0x2B) :
    goParseInt (c :: cs) base =
      if !allDigits base (c :: cs) then none
      else if digitsValue base (c :: cs) < 2 ^ 63 then some ((digitsValue base (c :: cs) : Nat) : Int) else none := by
  simp only [goParseInt, splitSign_nosign c cs h1 h2]
  simp

theorem head_infinity_false (c : Nat) (l : List Nat) (h1 : c ≠ 0x49) (h2 : c ≠ 0x2B) (h3 : c ≠ 0x2D) :
    ((c :: l) == str "Infinity" || (c :: l) == str "+Infinity") = false ∧ ((c :: l) == str "-Infinity") = false := by
  rw [str_Infinity, str_pInfinity, str_mInfinity]
  simp [h1, h2, h3]

/-- A radix literal has no int64 limit: the value is the exact integer of the digits. -/
theorem radix_literal_exact' (p : Nat) (ds : List Nat) (hp : radixOfLetter p ≠ 0) (hne : ds ≠ [])
    (hd : ds.all (fun c => decide (digitVal c < radixOfLetter p)) = true) :
    mechT (0x30 :: p :: ds) = Res.exactInt false (digitsValue (radixOfLetter p) ds) := by
  cases ds with
  | nil => exact absurd rfl hne
  | cons d ds' =>
    have hle := radixOfLetter_le p
    have hall : allDigits (radixOfLetter p) (d :: ds') = true := hd
    have hd0 : digitVal d < radixOfLetter p := by
      simp only [List.all_cons, Bool.and_eq_true, decide_eq_true_eq] at hd; exact hd.1
    obtain ⟨n1, n2, _⟩ := valid_digit_ne hle hd0
    have hrp : radixPrefix (0x30 :: p :: d :: ds') = radixOfLetter p := rfl
    obtain ⟨i1, i2⟩ := head_infinity_false 0x30 (p :: d :: ds') (by decide) (by decide) (by decide)
    have hgp : goParseInt (d :: ds') (radixOfLetter p) =
        if digitsValue (radixOfLetter p) (d :: ds') < 2 ^ 63 then some ((digitsValue (radixOfLetter p) (d :: ds') : Nat) : Int) else none := by
      rw [goParseInt_nosign d ds' _ n2 n1]; simp [hall]
    have hsti : stringToInt (0x30 :: p :: d :: ds') = goParseInt (d :: ds') (radixOfLetter p) := by
      simp only [stringToInt, hrp, hp, ne_eq, not_false_eq_true, if_true]
      have : ¬ (d = 0x2B ∨ d = 0x2D) := by omega
      simp [this]
    simp only [mechT, List.isEmpty_cons, Bool.false_eq_true, if_false, i1, i2, hsti, hgp]
    by_cases hr : digitsValue (radixOfLetter p) (d :: ds') < 2 ^ 63
    · simp only [hr, if_true, Res.exactInt]
      have : ¬ (((digitsValue (radixOfLetter p) (d :: ds') : Nat) : Int) < 0) := by omega
      simp [this]
    · simp only [hr, if_false]
      have e4 : ((0x30 :: p :: d :: ds') == str "-0") = false := by rw [str_m0]; simp
      have hus : (0x30 :: p :: d :: ds').contains 0x5F = false := by
        have hp5 : p ≠ 0x5F := by
          intro h; subst h; exact hp (by decide)
        simp only [List.contains_cons, Bool.or_eq_false_iff]
        refine ⟨by decide, by simpa using fun h => hp5 h.symm, ?_⟩
        have := not_contains_us hle hall
        simpa [List.contains_cons] using this
      simp only [toFloat, e4, hus, hrp, hp, Bool.false_eq_true, if_false, ne_eq, not_false_eq_true, if_true,
        List.drop, hall]

end GojaModel.C05.StrNum
