/-
  C05 (deepening round 2) — unary minus and `%` on canonical ints as `floatToValue` of the IEEE result.  Core Lean only.
-/
import GojaModel.C05.Lemmas
namespace GojaModel.C05
open GojaModel GojaModel.Num

/-- IEEE negation: flip the sign bit -/
def negF (f : F64) : F64 := { f with neg := !f.neg }

theorem negF_fields (f : F64) :
    (negF f).neg = !f.neg ∧ (negF f).isFinite = f.isFinite ∧ (negF f).isIntegral = f.isIntegral ∧
    (negF f).truncNat = f.truncNat ∧ (negF f).isZero = f.isZero := by
  refine ⟨rfl, rfl, rfl, rfl, rfl⟩

/-- flipping the sign of an exactly represented non-zero integer of magnitude ≤ 2^53 is the double of the opposite sign -/
theorem negF_ofNatSign (s : Bool) {k : Nat} (hk0 : k ≠ 0) (hk : k ≤ 2 ^ 53) :
    negF (F64.ofNatSign s k) = F64.ofNatSign (!s) k := by
  have ex := ofNatSign_exact s hk
  obtain ⟨h1, h2, h3, h4, h5⟩ := negF_fields (F64.ofNatSign s k)
  have hz : (negF (F64.ofNatSign s k)).isZero = false := by
    rw [h5, ex.zero]; simp [hk0]
  have key := ofNatSign_truncNat (f := negF (F64.ofNatSign s k)) (by rw [h2]; exact ex.fin) (by rw [h3]; exact ex.integral) hz
    (by rw [h4, ex.trunc]; exact hk)
  rw [h1, h4, ex.hneg, ex.trunc] at key
  exact key.symm

theorem ofInt_neg {n : Int} (hn : n ≠ 0) (h1 : -maxInt ≤ n) (h2 : n ≤ maxInt) : F64.ofInt (-n) = negF (F64.ofInt n) := by
  have hm : maxInt = 2 ^ 53 := rfl
  rw [hm] at h1 h2
  have hk : n.natAbs ≤ 2 ^ 53 := by omega
  have hk0 : n.natAbs ≠ 0 := by omega
  unfold F64.ofInt
  by_cases h : n < 0
  · have h' : ¬ (-n < 0) := by omega
    simp only [h, h', if_true, if_false, Int.natAbs_neg]
    rw [negF_ofNatSign true hk0 hk]; rfl
  · have h' : -n < 0 := by omega
    simp only [h, h', if_true, if_false, Int.natAbs_neg]
    rw [negF_ofNatSign false hk0 hk]; rfl

/-- **unary minus on a canonical int = the canonical value of the negated double** (`-0` for `0`; the int64 corner
`-MinInt64` cannot arise: a canonical `valueInt` has magnitude ≤ 2^53) -/
theorem opNeg_int_exact {n : Int} (hc : Canon (int n)) (r : F64) :
    opNeg (int n) r = floatToValue (negF (F64.ofInt n)) := by
  by_cases h0 : n = 0
  · subst h0
    have : negF (F64.ofInt 0) = F64.negZero := by decide
    rw [this]
    simp only [opNeg, toNumeric, if_true]
    exact floatToValue_unique' canon_negZero (specSameValue_refl _)
  · simp only [opNeg, toNumeric, h0, if_false]
    rw [← ofInt_neg h0 hc.1 hc.2]
    have hc' : Canon (int (-n)) := ⟨by have := hc.2; omega, by have := hc.1; omega⟩
    exact floatToValue_unique' hc' (specSameValue_refl _)

/-- `%` on two canonical ints: NaN for a zero divisor, else the truncated remainder (sign of the dividend), `-0` when
the remainder is zero and the dividend negative — IEEE fmod on integer-valued operands — as `floatToValue` of it -/
theorem opMod_int_exact (x y : Int) (r : F64) :
    opMod (int x) (int y) r =
      if y = 0 then flt F64.canonNaN
      else if goRem x y = 0 ∧ x < 0 then flt F64.negZero
      else floatToValue (F64.ofInt (goRem x y)) := by
  simp only [opMod, toNumeric]
  by_cases hy : y = 0
  · simp [hy]
  · simp only [hy, if_false]
    by_cases hz : goRem x y = 0 ∧ x < 0
    · simp only [hz, and_self, if_true]
    · simp only [hz, if_false]; exact int_eq_floatToValue _

end GojaModel.C05
