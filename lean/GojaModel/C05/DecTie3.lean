/-
  C05 (deepening round 2) — Tie for the translated `toUint8Clamp` (runtime.go): `math.Floor`, `f + 0.5 < num` and
  `f + 0.5 > num` are given their exact meaning (`GenPrelude.floorF/halfLt/halfGt`), `uint8` arithmetic wraps.  Core Lean only.
-/
import GojaModel.C05.DecTie2
namespace GojaModel.C05.DecTie
open GojaModel GojaModel.Num GojaModel.C05 GojaModel.C05.Gen

theorem fconst_255 : fconst 255 = 255 := by decide

/-- for a finite double: `f < 0` iff negative and non-zero -/
theorem ltI_zero {f : F64} (hfin : f.isFinite = true) : ltI f 0 = (f.neg && !f.isZero) := by
  obtain ⟨hn, hi⟩ := fin_not_nan_inf hfin
  simp only [ltI, hn, hi, Bool.not_false, Bool.true_and, Bool.false_eq_true, if_false]
  rw [Bool.eq_iff_iff]
  simp only [decide_eq_true_eq, Bool.and_eq_true, Bool.not_eq_true']
  obtain ⟨s1, s2⟩ := trunc_sign f
  by_cases hs : f.neg = true
  · by_cases hint : f.isIntegral = true
    · have hfl := (floorCeil_of_integral hint).1
      rw [hfl]
      constructor
      · intro h
        refine ⟨hs, ?_⟩
        cases hz : f.isZero with
        | false => rfl
        | true =>
          have := toInt_some (toInt_of_isZero hz)
          omega
      · intro h
        have h1 := s1 hs
        by_cases h0 : f.truncInt = 0
        · have := zero_of_trunc hfin hint h0
          rw [this] at h; exact absurd h.2 (by simp)
        · omega
    · have hint' : f.isIntegral = false := by simpa using hint
      have hz : f.isZero = false := by
        cases hz : f.isZero with
        | false => rfl
        | true =>
          have := toInt_of_isZero hz
          simp only [F64.toInt?, hfin, hint', Bool.and_false] at this
          cases this
      have h1 := s1 hs
      simp only [floorInt, hs, hint', Bool.not_false, Bool.and_self, if_true, hz]
      constructor
      · intro _; exact ⟨trivial, trivial⟩
      · intro _; omega
  · have hs' : f.neg = false := by simpa using hs
    have h2 := s2 hs'
    simp only [floorInt, hs', Bool.false_and, Bool.false_eq_true, if_false]
    constructor
    · intro h; omega
    · intro h; exact absurd h.1 (by simp)


/-- `f + 0.5 < num` / `f + 0.5 > num` with `f = ⌊num⌋`, on a finite non-negative double below 2^52: the comparison of
twice the fractional part `r/d` with 1 -/
theorem half_small {f : F64} (hfin : f.isFinite = true) (hs : f.neg = false) (hb : ¬ 1075 ≤ f.eff) :
    halfLt ((f.sig / 2 ^ (1075 - f.eff) : Nat) : Int) f = decide (2 * (f.sig % 2 ^ (1075 - f.eff)) > 2 ^ (1075 - f.eff)) ∧
    halfGt ((f.sig / 2 ^ (1075 - f.eff) : Nat) : Int) f = decide (2 * (f.sig % 2 ^ (1075 - f.eff)) < 2 ^ (1075 - f.eff)) := by
  obtain ⟨hn, hi⟩ := fin_not_nan_inf hfin
  simp only [halfLt, halfGt, hn, hi, Bool.not_false, Bool.true_and, Bool.false_eq_true, if_false, twiceNum, twiceDenExp, hs]
  have hdm := Nat.div_add_mod f.sig (2 ^ (1075 - f.eff))
  have hr := Nat.mod_lt f.sig (Nat.two_pow_pos (1075 - f.eff))
  by_cases h74 : 1074 ≤ f.eff
  · -- eff = 1074: d = 2
    have he : f.eff = 1074 := by omega
    have hd : 2 ^ (1075 - f.eff) = 2 := by rw [he]
    have hk : f.eff - 1074 = 0 := by omega
    simp only [h74, if_true, hk, Nat.pow_zero, Nat.mul_one, Int.mul_one]
    rw [hd] at hdm hr ⊢
    generalize f.sig / 2 = q at *
    generalize f.sig % 2 = r at *
    constructor <;> (rw [Bool.eq_iff_iff]; simp only [decide_eq_true_eq]; omega)
  · simp only [h74, if_false]
    have hd : 2 ^ (1075 - f.eff) = 2 * 2 ^ (1074 - f.eff) := by
      have : 1075 - f.eff = (1074 - f.eff) + 1 := by omega
      rw [this, Nat.pow_succ]; omega
    have hpos := Nat.two_pow_pos (1074 - f.eff)
    have cast : ∀ q : Nat, ((2 * (q : Int) + 1) * (2 : Int) ^ (1074 - f.eff)) = (((2 * q + 1) * 2 ^ (1074 - f.eff) : Nat) : Int) := by
      intro q; push_cast; rfl
    rw [cast]
    simp only [Int.ofNat_lt, gt_iff_lt]
    rw [hd] at hdm hr ⊢
    generalize 2 ^ (1074 - f.eff) = d' at *
    generalize f.sig / (2 * d') = q at *
    generalize f.sig % (2 * d') = r at *
    have e1 : 2 * d' * q = 2 * (q * d') := by rw [Nat.mul_assoc, Nat.mul_comm d' q]
    have e2 : (2 * q + 1) * d' = 2 * (q * d') + d' := by rw [Nat.add_mul, Nat.one_mul, Nat.mul_assoc]
    rw [e1] at hdm
    rw [e2]
    generalize q * d' = p at *
    constructor <;> (rw [Bool.eq_iff_iff]; simp only [decide_eq_true_eq]; omega)


theorem wrapU8_id {i : Int} (h : 0 ≤ i ∧ i ≤ 255) : wrapU 8 i = i := by
  simp only [wrapU]; omega

/-- the float branch on a finite double that is not negative -/
theorem clamp_small {f : F64} (hfin : f.isFinite = true) (hs : f.neg = false) (hb : ¬ 1075 ≤ f.eff) :
    Generated.C05_Decisions.toUint8Clamp (flt f) = C05.toUint8Clamp (flt f) := by
  obtain ⟨hn, hi⟩ := fin_not_nan_inf hfin
  obtain ⟨hl, hg⟩ := half_small hfin hs hb
  have hdpos := Nat.two_pow_pos (1075 - f.eff)
  have hr := Nat.mod_lt f.sig hdpos
  have htr : f.truncInt = ((f.sig / 2 ^ (1075 - f.eff) : Nat) : Int) := by
    simp [F64.truncInt, hs, F64.truncNat, hb]
  have hint : f.isIntegral = decide (f.sig % 2 ^ (1075 - f.eff) = 0) := by
    simp only [F64.isIntegral, hb, if_false]; rw [Bool.eq_iff_iff]; simp
  have hfloor : floorF f = ((f.sig / 2 ^ (1075 - f.eff) : Nat) : Int) := by
    simp [floorF, floorInt, hs, htr]
  have hlt0 : ltI f (fconst 0) = false := by rw [fconst_zero, ltI_zero hfin, hs]; rfl
  have hgt : gtI f (fconst 255) = decide (f.sig / 2 ^ (1075 - f.eff) > 255 ∨ (f.sig / 2 ^ (1075 - f.eff) = 255 ∧ f.sig % 2 ^ (1075 - f.eff) > 0)) := by
    rw [fconst_255]
    simp only [gtI, hn, hi, Bool.not_false, Bool.true_and, Bool.false_eq_true, if_false, ceilInt, hs, hint, htr]
    rw [Bool.eq_iff_iff]
    simp only [decide_eq_true_eq, Bool.and_eq_true, Bool.not_eq_true', decide_eq_false_iff_not]
    by_cases h0 : f.sig % 2 ^ (1075 - f.eff) = 0
    · simp only [h0, not_true_eq_false, and_false, if_false]; omega
    · simp only [h0, not_false_eq_true, and_self, if_true]; omega
  simp only [Generated.C05_Decisions.toUint8Clamp, C05.toUint8Clamp, isNaN, hn, Bool.not_false, if_true, Bool.false_eq_true, if_false, hlt0, hgt,
    hs, Bool.false_and, hi, hb, hfloor, hl, hg, decide_eq_true_eq]
  generalize f.sig / 2 ^ (1075 - f.eff) = q at *
  generalize f.sig % 2 ^ (1075 - f.eff) = r at *
  generalize 2 ^ (1075 - f.eff) = d at *
  by_cases h1 : q > 255 ∨ (q = 255 ∧ r > 0)
  · simp only [h1, if_true]
  · simp only [h1, if_false]
    by_cases h2 : 2 * r > d
    · simp only [h2, if_true]
      rw [wrapU8_id (by omega)]; simp
    · simp only [h2, if_false]
      by_cases h3 : 2 * r < d
      · simp only [h3, if_true]
        rw [wrapU8_id (by omega)]; simp
      · simp only [h3, if_false]
        rw [wrapU8_id (i := (q : Int)) (by omega)]
        have hw : wrapU 8 ((q : Int) + 1) = (q : Int) + 1 := wrapU8_id (by omega)
        rw [hw]
        by_cases h4 : q % 2 = 1
        · have h5 : (q : Int) % 2 ≠ 0 := by omega
          rw [if_pos h5, if_pos h4]; simp
        · have h5 : ¬ ((q : Int) % 2 ≠ 0) := by omega
          rw [if_neg h5, if_neg h4]; simp


/-- **translated `toUint8Clamp` = model**, for every Number value -/
theorem toUint8Clamp_tie (v : Num) : Generated.C05_Decisions.toUint8Clamp v = C05.toUint8Clamp v := by
  cases v with
  | int i =>
    simp only [Generated.C05_Decisions.toUint8Clamp, C05.toUint8Clamp]
    by_cases h1 : i < 0
    · simp [h1]
    · by_cases h2 : i ≤ 255
      · simp only [h1, h2, decide_false, decide_true, Bool.false_eq_true, if_false, if_true]
        exact wrapU8_id (by omega)
      · simp [h1, h2]
  | flt f =>
    rcases nonfinite_cases f with hfin | hinf | hnan
    · obtain ⟨hn, hi⟩ := fin_not_nan_inf hfin
      by_cases hneg : (f.neg && !f.isZero) = true
      · -- negative: 0
        have hlt : ltI f (fconst 0) = true := by rw [fconst_zero, ltI_zero hfin]; exact hneg
        simp only [Generated.C05_Decisions.toUint8Clamp, C05.toUint8Clamp, isNaN, hn, Bool.not_false, if_true, hlt, hneg, Bool.false_eq_true, if_false]
      · by_cases hs : f.neg = true
        · -- -0
          have hz : f.isZero = true := by
            cases hz : f.isZero with
            | true => rfl
            | false => simp [hs, hz] at hneg
          obtain ⟨he, hm⟩ := zero_fields hz
          have hsig : f.sig = 0 := by simp [F64.sig, he, hm]
          have heff : f.eff = 1 := by simp [F64.eff, he]
          have hint : f.isIntegral = true := by simp [F64.isIntegral, heff, hsig]
          have ht : f.truncInt = 0 := by simp [F64.truncInt, truncNat_of_zero hz]
          have hlt : ltI f (fconst 0) = false := by rw [fconst_zero, ltI_zero hfin]; simpa using hneg
          have hgt : gtI f (fconst 255) = false := by
            rw [fconst_255]; simp [gtI, hn, hi, ceilInt, hint, ht]
          have hfl : floorF f = 0 := by simp [floorF, floorInt, hint, ht]
          have hp : (0 : Int) < 2 ^ 1073 := Int.pow_pos (by decide)
          have hl : halfLt 0 f = false := by
            simp only [halfLt, hn, hi, twiceNum, twiceDenExp, heff, hsig, hs]
            simp; omega
          have hg : halfGt 0 f = true := by
            simp only [halfGt, hn, hi, twiceNum, twiceDenExp, heff, hsig, hs]
            simp; omega
          have hb : ¬ 1075 ≤ f.eff := by omega
          simp only [Generated.C05_Decisions.toUint8Clamp, C05.toUint8Clamp, isNaN, hn, Bool.not_false, if_true, hlt, hgt, hfl, hl, hg,
            Bool.false_eq_true, if_false, hz, hs, Bool.not_true, Bool.and_false, hi, hb, hsig]
          have : wrapU 8 0 = 0 := by decide
          simp [this]
        · have hs' : f.neg = false := by simpa using hs
          by_cases hb : 1075 ≤ f.eff
          · -- ≥ 2^52: 255
            have hexp : f.exp ≠ 0 := by intro he; simp [F64.eff, he] at hb
            have hz : f.isZero = false := by simp [F64.isZero, hexp]
            have hsig : 2 ^ 52 ≤ f.sig := by simp [F64.sig, hexp]
            have hpos := Nat.two_pow_pos (f.eff - 1075)
            have hmul : f.sig * 1 ≤ f.sig * 2 ^ (f.eff - 1075) := Nat.mul_le_mul_left _ hpos
            have ht : f.truncInt = ((f.sig * 2 ^ (f.eff - 1075) : Nat) : Int) := by
              simp [F64.truncInt, hs', F64.truncNat, hb]
            have hint : f.isIntegral = true := by simp [F64.isIntegral, hb]
            have hlt : ltI f (fconst 0) = false := by rw [fconst_zero, ltI_zero hfin, hs']; rfl
            have hgt : gtI f (fconst 255) = true := by
              rw [fconst_255]
              simp only [gtI, hn, hi, ceilInt, hint, ht, Bool.not_false, Bool.true_and, Bool.false_eq_true, if_false,
                Bool.not_true, Bool.and_false, decide_eq_true_eq]
              generalize f.sig * 2 ^ (f.eff - 1075) = n at *
              omega
            simp only [Generated.C05_Decisions.toUint8Clamp, C05.toUint8Clamp, isNaN, hn, Bool.not_false, if_true, hlt, hgt, Bool.false_eq_true,
              if_false, hs', Bool.false_and, hi, hb, hz]
          · exact clamp_small hfin hs' hb
    · obtain ⟨hn, _⟩ := inf_not_nan hinf
      have hz : f.isZero = false := by
        have := inf_fields hinf
        simp [F64.isZero, this.1]
      by_cases hs : f.neg = true
      · have hlt : ltI f (fconst 0) = true := by simp [ltI, hn, hinf, hs]
        simp only [Generated.C05_Decisions.toUint8Clamp, C05.toUint8Clamp, isNaN, hn, Bool.not_false, if_true, hlt, hs, hz, Bool.not_false, Bool.and_self,
          Bool.false_eq_true, if_false]
      · have hs' : f.neg = false := by simpa using hs
        have hlt : ltI f (fconst 0) = false := by simp [ltI, hn, hinf, hs']
        have hgt : gtI f (fconst 255) = true := by simp [gtI, hn, hinf, hs']
        simp only [Generated.C05_Decisions.toUint8Clamp, C05.toUint8Clamp, isNaN, hn, Bool.not_false, if_true, hlt, hgt, hs', Bool.false_and, hinf,
          Bool.false_eq_true, if_false]
    · simp only [Generated.C05_Decisions.toUint8Clamp, C05.toUint8Clamp, isNaN, hnan, Bool.not_true, Bool.false_eq_true, if_false, if_true]

end GojaModel.C05.DecTie
