/-
  C05 model: integer/index conversions and operator result wrappers of goja, as coded (mechanism), next to
  the ECMAScript definitions (spec).  Core Lean only.

  IEEE arithmetic itself (the double `r` produced by `+ - * / %` on the operands' `ToFloat()`) is DATA here:
  it is computed natively outside and passed in.  What the model decides is what goja's code decides:
  which branch is taken, which wrapper produces the result, the representation of the result.
-/
import GojaModel.C05.Num

namespace GojaModel.C05
open GojaModel GojaModel.Num

/-! ## Go integer conversions -/

/-- Two's-complement wrap of an integer to `n` bits, signed: Go's `intN(x)` for an integer `x`. -/
def wrapS (n : Nat) (x : Int) : Int := (x + 2 ^ (n - 1)) % 2 ^ n - 2 ^ (n - 1)
/-- Go's `uintN(x)` for an integer `x`. -/
def wrapU (n : Nat) (x : Int) : Int := x % 2 ^ n

/-- `math.Mod(x, 2^64)` for an integral `x`: magnitude `|x| mod 2^64`, sign of `x` (exact). -/
def goModTwo64 (t : Int) : Int := if t ≥ 0 then t % 2 ^ 64 else -((-t) % 2 ^ 64)

/-- runtime.go `float64ToInt64Mod` (fix c5b41a6) on a finite double: `int64(f)` when `f` fits, else reduce
modulo 2^64 first (`int64(f)` is implementation-defined in Go outside the int64 range).  The comparisons
`f >= -2^63 && f < 2^63` are on the double; both bounds are integers, so they hold iff they hold for trunc(f). -/
def float64ToInt64Mod (f : F64) : Int :=
  let t := f.truncInt
  if -(2 ^ 63) ≤ t ∧ t < 2 ^ 63 then t                 -- return int64(f)
  else
    let m := goModTwo64 t                               -- f = math.Mod(f, two64)   (|f| ≥ 2^63: f is integral)
    if m ≥ 2 ^ 63 then m - 2 ^ 64                       -- f -= two64
    else if m < -(2 ^ 63) then m + 2 ^ 64               -- f += two64
    else m

/-- `int64(f)` for a finite double on amd64 (out of range: the "integer indefinite" -2^63): what the float
branch of `toInt8…toUint32` used BEFORE c5b41a6.  Regression witnesses only. -/
def goInt64Prefix (f : F64) : Int :=
  let t := f.truncInt
  if minInt64 ≤ t ∧ t ≤ maxInt64 then t else minInt64

/-- runtime.go:1009-1130: `toInt8`, `toInt16`, `toInt32` (signed, `n` bits) on a Number. -/
def toIntS (n : Nat) : Num → Int
  | int i => wrapS n i
  | flt f => if !f.isNaN && !f.isInf then wrapS n (float64ToInt64Mod f) else 0

/-- `toUint8`, `toUint16`, `toUint32`. -/
def toIntU (n : Nat) : Num → Int
  | int i => wrapU n i
  | flt f => if !f.isNaN && !f.isInf then wrapU n (float64ToInt64Mod f) else 0

/-- `toInt32` before c5b41a6 (regression witness only). -/
def toInt32Prefix : Num → Int
  | int i => wrapS 32 i
  | flt f => if !f.isNaN && !f.isInf then wrapS 32 (goInt64Prefix f) else 0

/-- value.go:570 `floatToIntClip`. -/
def floatToIntClip (f : F64) : Int :=
  if f.isNaN then 0
  else if f.isInf then (if f.neg then minInt64 else maxInt64)
  else
    let t := f.truncInt
    if t ≥ 2 ^ 63 then maxInt64              -- n >= math.MaxInt64 (the constant converts to 2^63)
    else if t ≤ -(2 ^ 63) then minInt64      -- n <= math.MinInt64
    else t

/-- `Value.ToInteger()` on a Number (value.go:178, 583). -/
def toInteger : Num → Int
  | int i => i
  | flt f => floatToIntClip f

/-- runtime.go:1202 `toLength`. -/
def toLength (a : Num) : Int :=
  let i := toInteger a
  if i < 0 then 0 else if i ≥ maxInt then maxInt - 1 else i

/-- runtime.go:1276 `toIndex` on a 64-bit host: `none` = RangeError. -/
def toIndex (a : Num) : Option Int :=
  let n := toInteger a
  if n ≥ 0 ∧ n < maxInt then some n else none

/-- runtime.go:1216 `toLengthUint32` on a Number: `none` = RangeError "Invalid array length". -/
def toLengthUint32 : Num → Option Int
  | int i => if 0 ≤ i ∧ i ≤ 4294967295 then some i else none
  | flt f =>
      if f.isZero && f.neg then some 0            -- v == _negativeZero (interface ==: float ==, so +0.0 too)
      else if f.isZero then some 0
      else match floatToInt f with
        | some i => if 0 ≤ i ∧ i ≤ 4294967295 then some i else none
        | none => none

/-- runtime.go:1047 `toUint8Clamp`. -/
def toUint8Clamp : Num → Int
  | int i => if i < 0 then 0 else if i ≤ 255 then i else 255
  | flt f =>
      if f.isNaN then 0
      else if f.neg && !f.isZero then 0                       -- num < 0
      else if f.isInf then 255
      else
        -- 0 ≤ num finite:  num = sig * 2^(eff-1075)
        if 1075 ≤ f.eff then (if f.isZero then 0 else 255)      -- num ≥ 2^52 > 255 (or 0)
        else
          let d := 2 ^ (1075 - f.eff)
          let q := f.sig / d                                    -- math.Floor(num)
          let r := f.sig % d
          if q > 255 ∨ (q = 255 ∧ r > 0) then 255               -- num > 255
          else if 2 * r > d then Int.ofNat (q + 1)              -- f + 0.5 < num
          else if 2 * r < d then Int.ofNat q                    -- f + 0.5 > num
          else if q % 2 = 1 then Int.ofNat (q + 1) else Int.ofNat q

/-! ## ECMAScript definitions (ECMA-262 §7.1.5-7.1.12, 7.1.20, 7.1.22) on the denoted double -/

/-- `truncate(ℝ(number))`, and 0 for NaN, ±∞ (steps 1-3 of ToInt32 …). -/
def specIntOrZero (x : F64) : Int := if x.isFinite then x.truncInt else 0

/-- ToInt8/16/32: `int modulo 2^n`, minus `2^n` when `≥ 2^(n-1)`. -/
def specToIntS (n : Nat) (x : F64) : Int :=
  let m := specIntOrZero x % 2 ^ n
  if m ≥ 2 ^ (n - 1) then m - 2 ^ n else m

/-- ToUint8/16/32. -/
def specToIntU (n : Nat) (x : F64) : Int := specIntOrZero x % 2 ^ n

/-- ToIntegerOrInfinity clamped to the `int64` range (what a 64-bit `ToInteger()` can say). -/
def specToIntegerClamped (x : F64) : Int :=
  if x.isNaN then 0
  else if x.isInf then (if x.neg then minInt64 else maxInt64)
  else max minInt64 (min maxInt64 x.truncInt)

/-- ToLength: `min(max(ToIntegerOrInfinity, 0), 2^53 - 1)`. -/
def specToLength (x : F64) : Int :=
  if x.isNaN then 0
  else if x.isInf then (if x.neg then 0 else 2 ^ 53 - 1)
  else min (max x.truncInt 0) (2 ^ 53 - 1)

/-- ToIndex: RangeError unless `0 ≤ ToIntegerOrInfinity ≤ 2^53 - 1`. -/
def specToIndex (x : F64) : Option Int :=
  if x.isNaN then some 0
  else if x.isInf then none
  else if 0 ≤ x.truncInt ∧ x.truncInt ≤ 2 ^ 53 - 1 then some x.truncInt else none

/-- ArraySetLength's number test: `ToUint32(v) = ToNumber(v)`, else RangeError. -/
def specArrayLength (x : F64) : Option Int :=
  match x.toInt? with
  | some i => if 0 ≤ i ∧ i ≤ 4294967295 then some i else none
  | none => none

/-- ToUint8Clamp: clamp to [0,255], round half to even. -/
def specToUint8Clamp (x : F64) : Int :=
  if x.isNaN then 0
  else if x.neg then 0
  else if x.isInf then 255
  else if 1075 ≤ x.eff then (if x.isZero then 0 else 255)
  else
    let d := 2 ^ (1075 - x.eff)
    let q := x.sig / d
    let r := x.sig % d
    -- value = q + r/d
    let rounded := if 2 * r > d then q + 1 else if 2 * r < d then q else (if q % 2 = 0 then q else q + 1)
    if q ≥ 255 then 255 else Int.ofNat rounded

/-! ## Operator result wrappers (vm.go:1258-1830)

`r` is the IEEE result of the float path (`left.ToFloat() op right.ToFloat()`), supplied as data. -/

/-- Go's `%` on `int64` (truncated). -/
def goRem (x y : Int) : Int := Int.tmod x y
/-- Go's `/` on `int64` (truncated). -/
def goQuot (x y : Int) : Int := Int.tdiv x y

/-- vm.go:1258 `_add` on two Numbers (operands are NOT passed through `toNumeric`). -/
def opAdd (a b : Num) (r : F64) : Num :=
  match a, b with
  | int x, int y => intToValue (x + y)
  | _, _ => floatToValue r

/-- vm.go:1316 `_sub`. -/
def opSub (a b : Num) (r : F64) : Num :=
  match toNumeric a, toNumeric b with
  | int x, int y => intToValue (x - y)
  | _, _ => floatToValue r

/-- the condition guarding `result = _negativeZero` in `_mul` (fix bd78985):
`left == 0 && right < 0 || left < 0 && right == 0` -/
def mulNegZero (x y : Int) : Bool := decide ((x = 0 ∧ y < 0) ∨ (x < 0 ∧ y = 0))

/-- the guard BEFORE bd78985 (`left == 0 && right == -1 || left == -1 && right == 0`); regression witness only -/
def mulNegZeroPrefix (x y : Int) : Bool := decide ((x = 0 ∧ y = -1) ∨ (x = -1 ∧ y = 0))

/-- vm.go:1357 `_mul`. -/
def opMul (a b : Num) (r : F64) : Num :=
  match toNumeric a, toNumeric b with
  | int x, int y =>
      if mulNegZero x y then flt F64.negZero
      else
        let res := wrapS 64 (x * y)                      -- res := left * right  (int64, wraps)
        if x = 0 ∨ y = 0 ∨ goQuot res x = y then intToValue res
        else floatToValue r
  | _, _ => floatToValue r

/-- vm.go:1436 `_div`: the explicit special cases, then `floatToValue(left / right)`. -/
def opDiv (a b : Num) (r : F64) : Num :=
  let l := (toNumeric a).toF64
  let rt := (toNumeric b).toF64
  if l.isNaN || rt.isNaN then flt F64.canonNaN
  else if l.isInf && rt.isInf then flt F64.canonNaN
  else if l.isZero && rt.isZero then flt F64.canonNaN
  else if l.isInf then (if l.neg == rt.neg then flt F64.posInf else flt F64.negInf)
  else if rt.isInf then (if l.neg == rt.neg then int 0 else flt F64.negZero)
  else if rt.isZero then (if l.neg == rt.neg then flt F64.posInf else flt F64.negInf)
  else floatToValue r

/-- vm.go:1511 `_mod`. -/
def opMod (a b : Num) (r : F64) : Num :=
  match toNumeric a, toNumeric b with
  | int x, int y =>
      if y = 0 then flt F64.canonNaN
      else
        let m := goRem x y
        if m = 0 ∧ x < 0 then flt F64.negZero else intToValue m
  | _, _ => floatToValue r

/-- vm.go:1574 `_neg` (after fix 7eaf95e). -/
def opNeg (a : Num) (r : F64) : Num :=
  match toNumeric a with
  | int n => if n = 0 then flt F64.negZero else int (-n)
  | flt _ => floatToValue r

/-- vm.go:1613 `_inc` (after fix 7eaf95e). -/
def opInc (a : Num) (r : F64) : Num :=
  match a with
  | int n => intToValue (n + 1)
  | flt _ => floatToValue r

/-- vm.go:1633 `_dec`. -/
def opDec (a : Num) (r : F64) : Num :=
  match a with
  | int n => intToValue (n - 1)
  | flt _ => floatToValue r

def toInt32 (a : Num) : Int := toIntS 32 a
def toUint32 (a : Num) : Int := toIntU 32 a

/-- Bitwise AND/OR/XOR of two int32 values, through their low 32 bits. -/
def bit32 (f : Nat → Nat → Nat) (x y : Int) : Int :=
  wrapS 32 (Int.ofNat (f (wrapU 32 x).toNat (wrapU 32 y).toNat))

/-- vm.go:1653-1830: every bitwise operator is `intToValue(int64(<32-bit result>))`. -/
def opAnd (a b : Num) : Num :=
  intToValue (bit32 Nat.land (toInt32 (toNumeric a)) (toInt32 (toNumeric b)))
def opOr (a b : Num) : Num :=
  intToValue (bit32 Nat.lor (toInt32 (toNumeric a)) (toInt32 (toNumeric b)))
def opXor (a b : Num) : Num :=
  intToValue (bit32 Nat.xor (toInt32 (toNumeric a)) (toInt32 (toNumeric b)))
def opBnot (a : Num) : Num :=
  intToValue (-(toInt32 (toNumeric a)) - 1)
/-- `toInt32(left) << (toUint32(right) & 0x1F)` in `int32` arithmetic. -/
def opShl (a b : Num) : Num :=
  intToValue (wrapS 32 (toInt32 (toNumeric a) * 2 ^ ((toUint32 (toNumeric b)).toNat % 32)))
/-- `toInt32(left) >> (toUint32(right) & 0x1F)` (arithmetic shift = floor division; the Go expression has type
`int32`, hence the outer `wrapS 32`, which is the identity on the quotient). -/
def opSar (a b : Num) : Num :=
  intToValue (wrapS 32 (toInt32 (toNumeric a) / 2 ^ ((toUint32 (toNumeric b)).toNat % 32)))
/-- `toUint32(left) >> (toUint32(right) & 0x1F)` (type `uint32`). -/
def opShr (a b : Num) : Num :=
  intToValue (wrapU 32 (toUint32 (toNumeric a) / 2 ^ ((toUint32 (toNumeric b)).toNat % 32)))

/-! ## Spec results of the operators, on doubles

For `+ - * / %`, unary minus, `++`, `--` the spec result is the IEEE result `r` itself (data); the unique
canonical value denoting `r` is `floatToValue r` (theorems `canon_floatToValue`, `floatToValue_denotes`).
For the bitwise operators the spec result is an integer. -/

def specAnd (x y : F64) : Int := bit32 Nat.land (specToIntS 32 x) (specToIntS 32 y)
def specOr (x y : F64) : Int := bit32 Nat.lor (specToIntS 32 x) (specToIntS 32 y)
def specXor (x y : F64) : Int := bit32 Nat.xor (specToIntS 32 x) (specToIntS 32 y)
def specBnot (x : F64) : Int := -(specToIntS 32 x) - 1
def specShl (x y : F64) : Int := wrapS 32 (specToIntS 32 x * 2 ^ ((specToIntU 32 y).toNat % 32))
def specSar (x y : F64) : Int := wrapS 32 (specToIntS 32 x / 2 ^ ((specToIntU 32 y).toNat % 32))
def specShr (x y : F64) : Int := wrapU 32 (specToIntU 32 x / 2 ^ ((specToIntU 32 y).toNat % 32))

/-! ## BigInt → Number (`Number(bigint)`, `new Number(bigint)`) -/

/-- runtime.go `bigIntToNumber` (fix 9d4b1ca), used by `Number(bigint)` / `new Number(bigint)`:
`if b.IsInt64() { return intToValue(b.Int64()) }; f := big.Float(b).Float64(); return floatToValue(f)` — `Float64()` is
the nearest double, ties to even, ±Inf beyond the range (= `F64.ofInt`) -/
def numberOfBigInt (b : Int) : Num :=
  if minInt64 ≤ b ∧ b ≤ maxInt64 then intToValue b else floatToValue (F64.ofInt b)

/-- the conversion BEFORE 9d4b1ca: `intToValue(b.Int64())`, `Int64()` being the low 64 bits (regression witness only) -/
def numberOfBigIntPrefix (b : Int) : Num := intToValue (wrapS 64 b)

/-- ECMA-262 Number(bigint) = 𝔽(ℝ(b)): the nearest double, as the canonical value -/
def specNumberOfBigInt (b : Int) : Num := floatToValue (F64.ofInt b)

/-- Same-NaN-class equality of doubles: the observable identity of Number values (SameValue). -/
def sameDouble (x y : F64) : Bool := specSameValue x y

end GojaModel.C05
