/-
  IEEE-754 binary64 as a structure of its three fields (shared number model; core Lean only).

  A double is NOT a `Float` here: every definition is integer arithmetic on the decoded fields, so the
  same definitions are used by the executable driver and by the proofs.

    value(f) = (-1)^neg * sig * 2^(e-1075)      sig = man (+ 2^52 when exp ≠ 0),  e = max exp 1

  Owned by property C05; imported by C12 / C17 / C18.  Keep small.
-/
namespace GojaModel

/-- One IEEE-754 binary64 datum: sign bit, 11-bit biased exponent field, 52-bit fraction field. -/
structure F64 where
  neg : Bool
  exp : Nat
  man : Nat
  hexp : exp < 2048
  hman : man < 2 ^ 52
deriving DecidableEq

namespace F64

theorem ext' {a b : F64} (h1 : a.neg = b.neg) (h2 : a.exp = b.exp) (h3 : a.man = b.man) : a = b := by
  cases a; cases b; simp_all

/-! ### bit codec (the 64-bit pattern as a `Nat` below 2^64) -/

def ofBits (b : Nat) : F64 :=
  { neg := (b / 2 ^ 63) % 2 == 1
    exp := (b / 2 ^ 52) % 2048
    man := b % 2 ^ 52
    hexp := Nat.mod_lt _ (by decide)
    hman := Nat.mod_lt _ (Nat.two_pow_pos 52) }

def toBits (f : F64) : Nat :=
  (if f.neg then 2 ^ 63 else 0) + f.exp * 2 ^ 52 + f.man

theorem ofBits_toBits (f : F64) : ofBits f.toBits = f := by
  obtain ⟨n, e, m, he, hm⟩ := f
  apply ext'
  · simp only [ofBits, toBits]
    cases n <;> simp <;> omega
  · simp only [ofBits, toBits]
    cases n <;> simp <;> omega
  · simp only [ofBits, toBits]
    cases n <;> simp <;> omega

theorem toBits_lt (f : F64) : f.toBits < 2 ^ 64 := by
  obtain ⟨n, e, m, he, hm⟩ := f
  simp only [toBits]
  cases n <;> simp <;> omega

/-! ### constants -/

def mk' (neg : Bool) (exp man : Nat) (he : exp < 2048 := by decide) (hm : man < 2 ^ 52 := by decide) : F64 :=
  ⟨neg, exp, man, he, hm⟩

def posZero : F64 := mk' false 0 0
def negZero : F64 := mk' true 0 0
def posInf : F64 := mk' false 2047 0
def negInf : F64 := mk' true 2047 0
/-- Go's `math.NaN()` = 0x7FF8000000000001: the one NaN goja stores (`_NaN`, value.go:36). -/
def canonNaN : F64 := mk' false 2047 (2 ^ 51 + 1)

/-! ### classification -/

def isNaN (f : F64) : Bool := f.exp == 2047 && f.man != 0
def isInf (f : F64) : Bool := f.exp == 2047 && f.man == 0
def isZero (f : F64) : Bool := f.exp == 0 && f.man == 0
def isFinite (f : F64) : Bool := f.exp != 2047

/-- Integer significand: `man` for subnormals, `2^52 + man` for normals. -/
def sig (f : F64) : Nat := if f.exp = 0 then f.man else 2 ^ 52 + f.man

/-- Effective biased exponent (subnormals share the exponent of the smallest normals). -/
def eff (f : F64) : Nat := if f.exp = 0 then 1 else f.exp

/-! ### exact integer views of a finite double:  |value| = sig * 2^(eff-1075) -/

/-- `|trunc(value)|` for a finite double (meaningless, but total, on NaN/Inf). -/
def truncNat (f : F64) : Nat :=
  if 1075 ≤ f.eff then f.sig * 2 ^ (f.eff - 1075) else f.sig / 2 ^ (1075 - f.eff)

/-- Is the (finite) value an integer? -/
def isIntegral (f : F64) : Bool :=
  if 1075 ≤ f.eff then true else f.sig % 2 ^ (1075 - f.eff) == 0

/-- trunc(value) as a signed integer, for finite doubles. -/
def truncInt (f : F64) : Int :=
  if f.neg then - Int.ofNat f.truncNat else Int.ofNat f.truncNat

/-- The exact integer value when the double is finite and integral (`-0 ↦ 0`). -/
def toInt? (f : F64) : Option Int :=
  if f.isFinite && f.isIntegral then some f.truncInt else none

/-! ### comparisons as the hardware does them (NaN unordered, -0 = +0) -/

/-- IEEE `==`. -/
def feq (a b : F64) : Bool :=
  !a.isNaN && !b.isNaN && ((a.isZero && b.isZero) || (a.neg == b.neg && a.exp == b.exp && a.man == b.man))

/-- Magnitude key: monotone in |value| for non-NaN doubles. -/
def magKey (f : F64) : Nat := f.exp * 2 ^ 52 + f.man

/-- IEEE `<`. -/
def flt (a b : F64) : Bool :=
  !a.isNaN && !b.isNaN && !(a.isZero && b.isZero) &&
    (match a.neg, b.neg with
     | true, false => true
     | false, true => false
     | false, false => a.magKey < b.magKey
     | true, true => b.magKey < a.magKey)

def fle (a b : F64) : Bool := a.flt b || a.feq b

/-! ### integer → double (round to nearest, ties to even): Go's `float64(i)` -/

/-- Magnitude `n` with sign `neg`.  Exact when `n ≤ 2^53`; `n < 2^1024` assumed (callers pass `< 2^64`). -/
def ofNatSign (neg : Bool) (n : Nat) : F64 :=
  if h0 : n = 0 then ⟨neg, 0, 0, by decide, by decide⟩ else
  let k := n.log2                       -- 2^k ≤ n < 2^(k+1)
  if hk : k ≤ 52 then
    -- exact: shift left so that the leading bit sits at position 52
    let m := n * 2 ^ (52 - k) - 2 ^ 52
    if hm : m < 2 ^ 52 then
      if he : 1023 + k < 2048 then ⟨neg, 1023 + k, m, he, hm⟩ else ⟨neg, 2047, 0, by decide, by decide⟩
    else ⟨neg, 2047, 0, by decide, by decide⟩   -- unreachable (see `ofNatSign_small`)
  else
    let s := k - 52
    let q := n / 2 ^ s                  -- 2^52 ≤ q < 2^53
    let r := n % 2 ^ s
    let half := 2 ^ (s - 1)
    let up : Bool := decide (half < r) || (r == half && q % 2 == 1)
    let q' := if up then q + 1 else q
    -- q' may reach 2^53: renormalise
    let (e, m) := if q' ≥ 2 ^ 53 then (1023 + k + 1, 0) else (1023 + k, q' - 2 ^ 52)
    if he : e < 2047 then
      if hm : m < 2 ^ 52 then ⟨neg, e, m, by omega, hm⟩ else ⟨neg, 2047, 0, by decide, by decide⟩
    else ⟨neg, 2047, 0, by decide, by decide⟩

/-- Go's `float64(i)` for an `int64` (and the denotation of `valueInt(i)`, value.go:203 `ToFloat`). -/
def ofInt (i : Int) : F64 :=
  if i < 0 then ofNatSign true i.natAbs else ofNatSign false i.natAbs

end F64
end GojaModel
