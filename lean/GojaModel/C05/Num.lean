/-
  goja's two-representation Number (`valueInt` / `valueFloat`), its canonical form, the canonicalisers and the
  identity operations exactly as coded, next to the spec-level notions they must implement.  Core Lean only.

  Owned by property C05; imported by C12 / C17 / C18.
-/
import GojaModel.C05.F64

namespace GojaModel

/-- A goja Number value: `valueInt(i)` (an `int64`) or `valueFloat(f)` (a `float64`). -/
inductive Num where
  | int (i : Int)
  | flt (f : F64)
deriving DecidableEq

namespace Num

/-- vm.go:17 `maxInt = 1 << 53`. -/
def maxInt : Int := 2 ^ 53

def minInt64 : Int := -(2 ^ 63)
def maxInt64 : Int := 2 ^ 63 - 1
def InInt64 (i : Int) : Prop := minInt64 ≤ i ∧ i ≤ maxInt64

/-! ### Canonical form

A mathematical Number has exactly one canonical representation:
* an integer of magnitude ≤ 2^53 (other than -0) is a `valueInt`;
* everything else is a `valueFloat`, and NaN is the single bit pattern `_NaN`. -/

def Canon : Num → Prop
  | int i => -maxInt ≤ i ∧ i ≤ maxInt
  | flt f =>
      (f.isNaN = true → f = F64.canonNaN) ∧
      (∀ i, f.toInt? = some i → -maxInt ≤ i → i ≤ maxInt → f = F64.negZero)

instance : DecidablePred Canon := fun a =>
  match a with
  | int i => inferInstanceAs (Decidable (-maxInt ≤ i ∧ i ≤ maxInt))
  | flt f =>
      if hn : f.isNaN = true then
        if h : f = F64.canonNaN then
          isTrue ⟨fun _ => h, by
            intro i hi; subst h; simp [F64.toInt?, F64.canonNaN, F64.mk', F64.isFinite] at hi⟩
        else isFalse (fun c => h (c.1 hn))
      else
        match hti : f.toInt? with
        | none => isTrue ⟨fun h => absurd h hn, by intro i hi; simp [hti] at hi⟩
        | some j =>
            if hr : -maxInt ≤ j ∧ j ≤ maxInt then
              if hz : f = F64.negZero then isTrue ⟨fun h => absurd h hn, fun _ _ _ _ => hz⟩
              else isFalse (fun c => hz (c.2 j hti hr.1 hr.2))
            else isTrue ⟨fun h => absurd h hn, by
              intro i hi h1 h2; rw [hti] at hi; cases hi; exact absurd ⟨h1, h2⟩ hr⟩

/-! ### Denotation: the double a Number value stands for -/

/-- `ToFloat()` (value.go:203 / value.go:606). -/
def toF64 : Num → F64
  | int i => F64.ofInt i
  | flt f => f

/-! ### Spec-level identity on doubles (ECMA-262 7.2.10-7.2.12, 7.2.16 restricted to Numbers) -/

def specSameValue (x y : F64) : Bool := (x.isNaN && y.isNaN) || x == y
def specSameValueZero (x y : F64) : Bool := (x.isNaN && y.isNaN) || (x.isZero && y.isZero) || x == y
def specStrictEq (x y : F64) : Bool := F64.feq x y

/-! ### Mechanism: canonicalisers (vm.go:392-424) -/

/-- vm.go:402 `floatToInt`: the conjuncts in source order. -/
def floatToInt (f : F64) : Option Int :=
  if (!f.isZero || !f.neg)            -- (f != 0 || !math.Signbit(f))
      && !f.isInf                     -- !math.IsInf(f, 0)
      && (!f.isNaN && f.isIntegral)   -- f == math.Trunc(f)      (false for NaN; Inf excluded above)
      && decide (-maxInt ≤ f.truncInt)  -- f >= -maxInt
      && decide (f.truncInt ≤ maxInt)   -- f <= maxInt
  then some f.truncInt else none

/-- The part of `intToValue` below the cache test (the `intCache` fast path returns the same `valueInt`). -/
def intToValueSmall (i : Int) : Num := int i

/-- vm.go:409 `floatToValue`. -/
def floatToValue (f : F64) : Num :=
  match floatToInt f with
  | some i => intToValueSmall i        -- intToValue(i) with |i| ≤ 2^53: always the valueInt branch
  | none =>
    if f.isZero then flt F64.negZero           -- case f == 0: return _negativeZero
    else if f.isNaN then flt F64.canonNaN      -- case math.IsNaN(f): return _NaN
    else if f.isInf && !f.neg then flt F64.posInf
    else if f.isInf && f.neg then flt F64.negInf
    else flt f

/-- vm.go:392 `intToValue` for an `int64` (after fix 287714a): beyond ±2^53 the nearest double may again be a
safe integer (2^53+1 rounds to 2^53), so the tail goes through `floatToValue`. -/
def intToValue (i : Int) : Num :=
  if -maxInt ≤ i ∧ i ≤ maxInt then int i
  else floatToValue (F64.ofInt i)          -- return floatToValue(float64(i))

/-- `intToValue` BEFORE 287714a (`return valueFloat(i)`), kept only for the regression witnesses. -/
def intToValuePrefix (i : Int) : Num :=
  if -maxInt ≤ i ∧ i ≤ maxInt then int i else flt (F64.ofInt i)

/-- vm.go:426 `toNumeric` on a Number. -/
def toNumeric : Num → Num
  | int i => int i
  | flt f => floatToValue f

/-! ### Mechanism: identity (value.go:215-262, 618-694; map.go:26) -/

/-- `a.SameAs(b)`.  value.go:215: `valueInt.SameAs` is interface equality, so an int is never the same as a float. -/
def sameAs : Num → Num → Bool
  | int i, int j => i == j
  | int _, flt _ => false
  | flt f, flt g =>
      if f.isNaN && g.isNaN then true
      else
        let ret := F64.feq f g
        if ret && f.isZero then f.neg == g.neg else ret
  | flt f, int j =>
      let ret := F64.feq f (F64.ofInt j)
      if ret && f.isZero then !f.neg else ret

/-- `a.StrictEquals(b)` (value.go:238, 668). -/
def strictEquals : Num → Num → Bool
  | int i, int j => i == j
  | int i, flt g => F64.feq (F64.ofInt i) g
  | flt f, flt g => F64.feq f g
  | flt f, int j => F64.feq f (F64.ofInt j)

/-- `hash` (value.go:261, 691): `uint64(i)` resp. the raw bits, `0` when `f == _negativeZero` (true for ±0). -/
def hash : Num → Nat
  | int i => (i % (2 ^ 64 : Int)).toNat
  | flt f => if f.isZero then 0 else f.toBits

/-- map.go:27 / builtin_array.go:656: `if key == _negativeZero { key = intToValue(0) }`
(Go interface `==` on two `valueFloat`s is float `==`, so `+0.0` stored as a float matches too; NaN never). -/
def normKey : Num → Num
  | flt f => if f.isZero then int 0 else flt f
  | a => a

/-- Does looking up `probe` find an entry stored under `stored`?  (map.go:26-33: same hash bucket, then
`entry.key.SameAs(key)`; `stored` went through `normKey` when it was inserted.) -/
def mapFinds (stored probe : Num) : Bool :=
  let s := normKey stored
  let p := normKey probe
  hash s == hash p && sameAs s p

/-- builtin_array.go `arrayproto_includes` after dd517b9: the search value AND each element are normalised
(`== _negativeZero → _positiveZero`), then `searchElement.SameAs(val)`. -/
def includesFinds (probe elem : Num) : Bool := sameAs (normKey probe) (normKey elem)

end Num
end GojaModel
