/-
  C05 model driver: line protocol (one op per line in, one canonical answer line out).  Core Lean only.

  value token:  i<decimal int64>   |   f<16 hex digits of the IEEE bit pattern>

                            -> tail=<raw|canon> core=<raw|mod>        (regenerated from the Go source)
    canon <v>                      -> 1 | 0
    f2v <hex>                      -> <v>                                    floatToValue
    i2v <dec>                      -> <v> c=<0|1> s=<v>                      intToValue; s = canonical spec value
    f2i <hex>                      -> ok <dec> | no                          floatToInt
    tonum <v>                      -> <v>                                    toNumeric
    conv <name> <v>                -> <mech> <spec>                          (number or `err`)
    id <v1> <v2>                   -> m=<7 bits> s=<3 bits>
    op <name> <v1> <v2|-> <rhex>   -> <v> c=<0|1> s=<v>
-/
import GojaModel.Base.Proto
import GojaModel.C05.Model
import GojaModel.C05.StrNum
import GojaModel.C05.ParseInt

namespace GojaModel.C05.Driver
open GojaModel GojaModel.Num GojaModel.C05 GojaModel.Proto

def showVal : Num → String
  | int i => "i" ++ toString i
  | flt f => "f" ++ toHexW 16 f.toBits

def parseVal? (s : String) : Option Num :=
  match s.toList with
  | 'i' :: rest => (String.ofList rest).toInt?.map Num.int
  | 'f' :: rest => (parseHex? (String.ofList rest)).map (fun b => Num.flt (F64.ofBits b))
  | _ => none

def parseF? (s : String) : Option F64 := (parseHex? s).map F64.ofBits

def bit (b : Bool) : String := if b then "1" else "0"
def showOpt : Option Int → String
  | some i => toString i
  | none => "err"

/-- canonical value denoting the double `x` (the spec answer for a float-valued operation) -/
def specVal (x : F64) : Num := floatToValue x

def conv (name : String) (a : Num) : Option (String × String) :=
  let x := a.toF64
  match name with
  | "int8" => some (toString (toIntS 8 a), toString (specToIntS 8 x))
  | "uint8" => some (toString (toIntU 8 a), toString (specToIntU 8 x))
  | "int16" => some (toString (toIntS 16 a), toString (specToIntS 16 x))
  | "uint16" => some (toString (toIntU 16 a), toString (specToIntU 16 x))
  | "int32" => some (toString (toIntS 32 a), toString (specToIntS 32 x))
  | "uint32" => some (toString (toIntU 32 a), toString (specToIntU 32 x))
  | "clamp8" => some (toString (toUint8Clamp a), toString (specToUint8Clamp x))
  | "length" => some (toString (toLength a), toString (specToLength x))
  | "index" => some (showOpt (toIndex a), showOpt (specToIndex x))
  | "integer" => some (toString (toInteger a), toString (specToIntegerClamped x))
  | "lenu32" => some (showOpt (toLengthUint32 a), showOpt (specArrayLength x))
  | _ => none

def binop (name : String) (a b : Num) (r : F64) : Option (Num × Num) :=
  let x := a.toF64
  let y := b.toF64
  match name with
  | "add" => some (opAdd a b r, specVal r)
  | "sub" => some (opSub a b r, specVal r)
  | "mul" => some (opMul a b r, specVal r)
  | "div" => some (opDiv a b r, specVal r)
  | "mod" => some (opMod a b r, specVal r)
  | "and" => some (opAnd a b, int (specAnd x y))
  | "or" => some (opOr a b, int (specOr x y))
  | "xor" => some (opXor a b, int (specXor x y))
  | "shl" => some (opShl a b, int (specShl x y))
  | "sar" => some (opSar a b, int (specSar x y))
  | "shr" => some (opShr a b, int (specShr x y))
  | _ => none

def unop (name : String) (a : Num) (r : F64) : Option (Num × Num) :=
  match name with
  | "neg" => some (opNeg a r, specVal r)
  | "inc" => some (opInc a r, specVal r)
  | "dec" => some (opDec a r, specVal r)
  | "bnot" => some (opBnot a, int (specBnot a.toF64))
  | _ => none

def showRes (p : Num × Num) : String :=
  showVal p.1 ++ " c=" ++ bit (decide (Canon p.1)) ++ " s=" ++ showVal p.2

def showRes' : StrNum.Res → String
  | .nan => "nan"
  | .inf neg => if neg then "inf-" else "inf+"
  | .num neg m e => "num:" ++ (if neg then "-" else "+") ++ toString m ++ "e" ++ toString e

def parseUnits? (s : String) : Option (List Nat) :=
  if s == "-" then some [] else
  let cs := s.toList
  if cs.length % 4 ≠ 0 then none else
  let rec go (cs : List Char) (fuel : Nat) (acc : List Nat) : Option (List Nat) :=
    match fuel with
    | 0 => some acc.reverse
    | fuel + 1 =>
      match cs with
      | a :: b :: c :: d :: rest =>
          (match parseHex? (String.ofList [a, b, c, d]) with
           | some n => go rest fuel (n :: acc)
           | none => none)
      | [] => some acc.reverse
      | _ => none
  go cs (cs.length / 4 + 1) []

def step (line : String) : String :=
  match words line with
  | ["str", u] => match parseUnits? u with
      | some cps =>
          let m := StrNum.mech cps
          showRes' m ++ " " ++ showRes' (StrNum.spec cps) ++ " " ++ toHexW 16 m.toF64.toBits
      | none => "bad"
  | ["pint", r, u] => match r.toInt?, parseUnits? u with
      | some radix, some cps =>
          let m := ParseInt.mech cps radix
          (match m with
            | .nan => "nan"
            | .val neg n => "val:" ++ (if neg then "-" else "+") ++ toString n)
            ++ " " ++ (if ParseInt.spec cps radix == m then "spec=same" else "spec=DIFFERENT")
            ++ " " ++ toHexW 16 m.toF64.toBits
      | _, _ => "bad"
  | ["canon", v] => match parseVal? v with
      | some a => bit (decide (Canon a))
      | none => "bad"
  | ["f2v", h] => match parseF? h with
      | some f => showVal (floatToValue f)
      | none => "bad"
  | ["i2v", d] => match d.toInt? with
      | some i => showRes (intToValue i, specVal (F64.ofInt i))
      | none => "bad"
  | ["f2i", h] => match parseF? h with
      | some f => (match floatToInt f with | some i => "ok " ++ toString i | none => "no")
      | none => "bad"
  | ["tonum", v] => match parseVal? v with
      | some a => showVal (toNumeric a)
      | none => "bad"
  | ["conv", name, v] => match parseVal? v with
      | some a => (match conv name a with | some (m, s) => m ++ " " ++ s | none => "bad")
      | none => "bad"
  | ["id", v1, v2] => match parseVal? v1, parseVal? v2 with
      | some a, some b =>
          let x := a.toF64
          let y := b.toF64
          "m=" ++ bit (sameAs a b) ++ bit (sameAs b a) ++ bit (strictEquals a b) ++ bit (strictEquals b a)
            ++ bit (mapFinds a b) ++ bit (mapFinds b a) ++ bit (hash (normKey a) == hash (normKey b))
            ++ " s=" ++ bit (specSameValue x y) ++ bit (specSameValueZero x y) ++ bit (specStrictEq x y)
      | _, _ => "bad"
  | ["op", name, v1, v2, rh] => match parseVal? v1, parseF? rh with
      | some a, some r =>
          if v2 == "-" then (match unop name a r with | some p => showRes p | none => "bad")
          else (match parseVal? v2 with
            | some b => (match binop name a b r with | some p => showRes p | none => "bad")
            | none => "bad")
      | _, _ => "bad"
  | _ => "bad"

def main : IO Unit := lineMap step

end GojaModel.C05.Driver
