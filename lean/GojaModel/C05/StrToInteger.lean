/-
  C05 (deepening round 2) — `asciiString.ToInteger` (string_ascii.go, after c886782): `_toInt` first, then `_toFloat` clipped
  to int64, `0` when both fail.  Core Lean only.
-/
import GojaModel.C05.StrToFloat
import GojaModel.C05.Lemmas

namespace GojaModel.C05.StrNum
open GojaModel GojaModel.Num GojaModel.C05

/-- `asciiString.ToInteger` on the trimmed text -/
def mechToIntegerT (t : List Nat) : Int :=
  if t.isEmpty then 0
  else if t == str "Infinity" || t == str "+Infinity" then maxInt64
  else if t == str "-Infinity" then minInt64
  else match stringToInt t with
    | some i => i
    | none => match toFloatE t with
      | some f => floatToIntClip f.toF64          -- floatToIntClip(f)
      | none => 0                                 -- "not a numeric string at all"

/-- ToIntegerOrInfinity (clamped to int64) of a ToNumber decision -/
def specToIntegerOfRes (r : Res) : Int := specToIntegerClamped r.toF64

theorem specClamped_posZero : specToIntegerClamped ⟨false, 0, 0, by decide, by decide⟩ = 0 := by
  have hz : (⟨false, 0, 0, by decide, by decide⟩ : F64).isZero = true := by simp [F64.isZero]
  have ht : (⟨false, 0, 0, by decide, by decide⟩ : F64).truncInt = 0 := by simp [F64.truncInt, truncNat_of_zero hz]
  simp [specToIntegerClamped, F64.isNaN, F64.isInf, ht, minInt64, maxInt64]
  omega

/-- **`ToInteger` of a string, integer-text branch**: when the text is an integer literal within int64 (`_toInt` succeeds) the
result is that exact integer, and it is the integer `ToNumber` denotes (exactly — beyond 2^53 `ToInteger` is more precise than
ToIntegerOrInfinity(ToNumber), where every consumer clamps to ≤ 2^53 anyway). -/
theorem toInteger_int_branch {t : List Nat} {i : Int} (hne : t.isEmpty = false)
    (hinf : (t == str "Infinity" || t == str "+Infinity") = false) (hminf : (t == str "-Infinity") = false)
    (h : stringToInt t = some i) :
    mechToIntegerT t = i ∧ mechT t = Res.exactInt (decide (i < 0)) i.natAbs := by
  simp only [mechToIntegerT, mechT, hne, hinf, hminf, h, Bool.false_eq_true, if_false, and_self]

/-- **`ToInteger` of a string, every other text**: ToIntegerOrInfinity (clamped to int64) of the double `ToNumber` yields —
NaN (also for text that is not numeric at all) gives 0, ±Infinity the int64 limits, fractions are truncated. -/
theorem toInteger_float_branch {t : List Nat} (h : stringToInt t = none) :
    mechToIntegerT t = specToIntegerOfRes (mechT t) := by
  simp only [mechToIntegerT, mechT, specToIntegerOfRes]
  split
  · -- empty text: 0
    have : (Res.exactInt false 0).toF64 = ⟨false, 0, 0, by decide, by decide⟩ := by simp [Res.exactInt, Res.toF64]
    rw [this]; exact specClamped_posZero.symm
  · split
    · have : (Res.inf false).toF64 = ⟨false, 2047, 0, by decide, by decide⟩ := rfl
      rw [this]; decide
    · split
      · have : (Res.inf true).toF64 = ⟨true, 2047, 0, by decide, by decide⟩ := rfl
        rw [this]; decide
      · simp only [h]
        rw [toFloat_getD]
        cases toFloatE t with
        | some f => simp only [Option.getD_some]; exact floatToIntClip_spec' _
        | none =>
          simp only [Option.getD_none]
          have : Res.nan.toF64 = F64.canonNaN := rfl
          rw [this]; decide

end GojaModel.C05.StrNum
