/-  C05 StringToNumber: mechanism = spec recogniser for ALL strings (core Lean only). -/
import GojaModel.C05.StrLemmas
namespace GojaModel.C05.StrNum

/-! ### '+' sign: same lemmas as for `signed` -/

theorem parseDecimal_plus (d : Nat) (ds : List Nat) (h : (d :: ds).all isDecDigit = true) :
    parseDecimal (0x2B :: d :: ds) = some ⟨false, d :: ds, 0, 0⟩ := by
  have e : splitSign (0x2B :: d :: ds) = (false, d :: ds) := rfl
  simp only [parseDecimal, e, takeDigits_all h, fracPart, parseExp]
  simp

theorem specT_plus (d : Nat) (ds : List Nat) (h : (d :: ds).all isDecDigit = true) :
    specT (0x2B :: d :: ds) = Res.num false (digitsValue 10 (d :: ds)) 0 := by
  have hd : isDecDigit d = true := by simp only [List.all_cons, Bool.and_eq_true] at h; exact h.1
  have e : splitSign (0x2B :: d :: ds) = (false, d :: ds) := rfl
  have hdec : specT.dec (0x2B :: d :: ds) = Res.num false (digitsValue 10 (d :: ds)) 0 := by
    simp only [specT.dec, e, parseDecimal_plus d ds h, res_signed, str_Infinity]
    have : ((d :: ds) == [0x49,0x6E,0x66,0x69,0x6E,0x69,0x74,0x79]) = false := by
      simp [(dec_facts hd).2.2.2.1]
    simp [this]
  unfold specT
  simp only [List.isEmpty_cons, Bool.false_eq_true, if_false]
  exact hdec

theorem goSpecial_plus (d : Nat) (ds : List Nat) (h : (d :: ds).all isDecDigit = true) :
    goSpecial (0x2B :: d :: ds) = false := by
  have hd : isDecDigit d = true := by simp only [List.all_cons, Bool.and_eq_true] at h; exact h.1
  obtain ⟨_, _, _, _, _, n69, n6e, _⟩ := dec_facts hd
  have hl : (0x2B :: d :: ds).map lower = 0x2B :: d :: ds := by
    have := map_lower_digits h
    show lower 0x2B :: (d :: ds).map lower = _
    rw [this]; rfl
  have e : splitSign (0x2B :: d :: ds) = (false, d :: ds) := rfl
  simp only [goSpecial, hl, e, str_inf, str_infinity, str_nan]
  have a : ((d :: ds) == [0x69,0x6E,0x66]) = false := by simp [n69]
  have b : ((d :: ds) == [0x69,0x6E,0x66,0x69,0x6E,0x69,0x74,0x79]) = false := by simp [n69]
  have c : ((0x2B :: d :: ds) == [0x6E,0x61,0x6E]) = false := by simp
  simp [a, b, c]

theorem tail_plus (d : Nat) (ds : List Nat) (h : (d :: ds).all isDecDigit = true) :
    toFloat.tail (0x2B :: d :: ds) = Res.num false (digitsValue 10 (d :: ds)) 0 := by
  simp only [toFloat.tail, goSpecial_plus d ds h, parseDecimal_plus d ds h, res_signed]
  simp

theorem toFloat_plus (d : Nat) (ds : List Nat) (h : (d :: ds).all isDecDigit = true) :
    toFloat (0x2B :: d :: ds) = Res.num false (digitsValue 10 (d :: ds)) 0 := by
  have hd : isDecDigit d = true := by simp only [List.all_cons, Bool.and_eq_true] at h; exact h.1
  unfold toFloat
  have hm0 : ((0x2B :: d :: ds) == str "-0") = false := by rw [str_m0]; simp
  have hus : (0x2B :: d :: ds).contains 0x5F = false := by
    have := no_us h
    simp only [List.contains_cons, Bool.or_eq_false_iff]; exact ⟨by decide, by simpa [List.contains_cons] using this⟩
  have hrp : radixPrefix (0x2B :: d :: ds) = 0 := rfl
  have e : splitSign (0x2B :: d :: ds) = (false, d :: ds) := rfl
  simp only [hm0, hus, Bool.false_eq_true, if_false, hrp, ne_eq, not_true_eq_false, e]
  split
  · rename_i x _ heq
    injection heq with a b
    cases ds with
    | nil => cases b
    | cons y ys =>
      injection b with b1 b2; subst b1
      simp only [List.all_cons, Bool.and_eq_true] at h
      obtain ⟨_, _, _, _, _, _, _, n78, n58, _⟩ := dec_facts h.2.1
      have : ¬ (y = 0x78 ∨ y = 0x58) := by omega
      simp only [this, if_false]
      exact tail_plus d (y :: ys) (by simp [List.all_cons, h.1, h.2.1, h.2.2])
  · exact tail_plus d ds h

theorem mechT_plus (d : Nat) (ds : List Nat) (h : (d :: ds).all isDecDigit = true) :
    mechT (0x2B :: d :: ds) = Res.num false (digitsValue 10 (d :: ds)) 0 := by
  have hd : isDecDigit d = true := by simp only [List.all_cons, Bool.and_eq_true] at h; exact h.1
  obtain ⟨n2d, n2b, _, n49, _⟩ := dec_facts hd
  have hinf : ((0x2B :: d :: ds) == str "Infinity" || (0x2B :: d :: ds) == str "+Infinity") = false ∧
      ((0x2B :: d :: ds) == str "-Infinity") = false := by
    rw [str_Infinity, str_pInfinity, str_mInfinity]; simp [n49]
  simp only [mechT, List.isEmpty_cons, hinf.1, hinf.2, Bool.false_eq_true, if_false]
  have e : splitSign (0x2B :: d :: ds) = (false, d :: ds) := rfl
  have hgp : goParseInt (0x2B :: d :: ds) 10 =
      (if digitsValue 10 (d :: ds) < 2 ^ 63 then some ((digitsValue 10 (d :: ds) : Nat) : Int) else none) := by
    simp only [goParseInt, e, allDigits10 h]
    simp
  have hrp : radixPrefix (0x2B :: d :: ds) = 0 := rfl
  simp only [stringToInt, hrp, ne_eq, not_true_eq_false, if_false, hgp]
  generalize hn : digitsValue 10 (d :: ds) = n at *
  by_cases hr : n < 2 ^ 63
  · simp only [hr, if_true]
    have hh : ¬ ((n : Int) = 0 ∧ (0x2B :: d :: ds).head? = some 0x2D) := by
      intro hc; simp at hc
    simp only [hh, if_false, Res.exactInt]
    have : ¬ ((n : Int) < 0) := by omega
    simp [this]
  · simp only [hr, if_false]
    rw [toFloat_plus d ds h, hn]


theorem digitVal_lt10 (c : Nat) : digitVal c < 10 ↔ (0x30 ≤ c ∧ c ≤ 0x39) := by
  unfold digitVal
  constructor
  · intro h
    by_cases h1 : 0x30 ≤ c ∧ c ≤ 0x39
    · exact h1
    · rw [if_neg h1] at h
      by_cases h2 : 0x61 ≤ c ∧ c ≤ 0x7A
      · rw [if_pos h2] at h; omega
      · rw [if_neg h2] at h
        by_cases h3 : 0x41 ≤ c ∧ c ≤ 0x5A
        · rw [if_pos h3] at h; omega
        · rw [if_neg h3] at h; omega
  · intro h; rw [if_pos h]; omega

theorem isDec_iff (c : Nat) : decide (digitVal c < 10) = isDecDigit c := by
  rw [Bool.eq_iff_iff]
  simp only [isDecDigit, decide_eq_true_eq, Bool.and_eq_true]
  exact digitVal_lt10 c

theorem allDigits10_eq (ds : List Nat) : allDigits 10 ds = ds.all isDecDigit := by
  induction ds with
  | nil => rfl
  | cons a as ih =>
    simp only [allDigits, List.all_cons] at ih ⊢
    rw [isDec_iff, ih]

/-- the characters a string accepted by the decimal grammar can contain -/
def allowed (c : Nat) : Bool :=
  isDecDigit c || c == 0x2B || c == 0x2D || c == 0x2E || c == 0x65 || c == 0x45

theorem allowed_of_dec {c : Nat} (h : isDecDigit c = true) : allowed c = true := by simp [allowed, h]

theorem all_allowed_of_digits {ds : List Nat} (h : ds.all isDecDigit = true) : ds.all allowed = true := by
  induction ds with
  | nil => rfl
  | cons a as ih =>
    simp only [List.all_cons, Bool.and_eq_true] at h ⊢
    exact ⟨allowed_of_dec h.1, ih h.2⟩

theorem takeDigits_spec (s : List Nat) :
    s = (takeDigits s).1 ++ (takeDigits s).2 ∧ (takeDigits s).1.all isDecDigit = true := by
  induction s with
  | nil => exact ⟨rfl, rfl⟩
  | cons a as ih =>
    simp only [takeDigits]
    by_cases ha : isDecDigit a = true
    · simp only [ha, if_true]
      refine ⟨?_, ?_⟩
      · show a :: as = a :: ((takeDigits as).1 ++ (takeDigits as).2)
        rw [← ih.1]
      · show (a :: (takeDigits as).1).all isDecDigit = true
        simp only [List.all_cons, ha, ih.2, Bool.and_self]
    · simp only [ha, Bool.false_eq_true, if_false]
      exact ⟨rfl, rfl⟩

theorem splitSign_spec (t : List Nat) :
    ∃ pre, t = pre ++ (splitSign t).2 ∧ pre.all allowed = true := by
  unfold splitSign
  split
  · exact ⟨[0x2D], rfl, by decide⟩
  · exact ⟨[0x2B], rfl, by decide⟩
  · exact ⟨[], rfl, rfl⟩

theorem fracPart_spec (r : List Nat) :
    ∃ pre, r = pre ++ (fracPart r).2 ∧ pre.all allowed = true := by
  unfold fracPart
  split
  · rename_i q
    have := takeDigits_spec q
    refine ⟨0x2E :: (takeDigits q).1, ?_, ?_⟩
    · show 0x2E :: q = 0x2E :: ((takeDigits q).1 ++ (takeDigits q).2)
      rw [← this.1]
    · simp only [List.all_cons, all_allowed_of_digits this.2, Bool.and_true]; decide
  · exact ⟨[], rfl, rfl⟩

theorem parseExp_chars {r : List Nat} {e : Int} (h : parseExp r = some e) : r.all allowed = true := by
  unfold parseExp at h
  split at h
  · rfl
  · rename_i c q
    split at h
    · rename_i hc
      simp only at h
      split at h
      · cases h
      · rename_i hd
        simp only [Bool.or_eq_true, Bool.not_eq_true', not_or] at hd
        have hall : (splitSign q).2.all isDecDigit = true := by
          cases hx : (splitSign q).2.all isDecDigit with
          | true => rfl
          | false => exact absurd hx (by simpa using hd.2)
        obtain ⟨pre, h1, h2⟩ := splitSign_spec q
        have hce : allowed c = true := by rcases hc with h | h <;> subst h <;> decide
        simp only [List.all_cons, hce, Bool.true_and]
        rw [h1, List.all_append, h2, all_allowed_of_digits hall]; rfl
    · cases h

theorem parseDecimal_chars {t : List Nat} {d : Dec} (h : parseDecimal t = some d) : t.all allowed = true := by
  unfold parseDecimal at h
  simp only at h
  split at h
  · cases h
  · split at h
    · rename_i e he
      obtain ⟨p1, a1, a2⟩ := splitSign_spec t
      have b := takeDigits_spec (splitSign t).2
      obtain ⟨p3, c1, c2⟩ := fracPart_spec (takeDigits (splitSign t).2).2
      have d1 := parseExp_chars he
      rw [a1, List.all_append, a2, Bool.true_and, b.1, List.all_append, all_allowed_of_digits b.2, Bool.true_and,
        c1, List.all_append, c2, Bool.true_and]
      exact d1
    · cases h

/-- a text with a character outside the decimal alphabet that is not an Infinity form is NaN for the spec's
StrDecimalLiteral -/
theorem dec_nan_of_bad {t : List Nat} {c : Nat} (hc : c ∈ t) (hbad : allowed c = false)
    (hinf : ((splitSign t).2 == str "Infinity") = false) : specT.dec t = Res.nan := by
  simp only [specT.dec, hinf, Bool.false_eq_true, if_false]
  cases hp : parseDecimal t with
  | none => rfl
  | some d =>
    have := parseDecimal_chars hp
    rw [List.all_eq_true] at this
    have := this c hc
    rw [hbad] at this; cases this



theorem spec_eq_dec {t : List Nat} (hne : t.isEmpty = false) (hrp : radixPrefix t = 0) : specT t = specT.dec t := by
  unfold specT
  simp only [hne, Bool.false_eq_true, if_false]
  split
  · rename_i p d ds
    have : radixOfLetter p = 0 := hrp
    simp only [this, ne_eq, not_true_eq_false, if_false]
  · rfl

theorem splitSign_cases (t : List Nat) :
    (∃ r, t = 0x2D :: r ∧ splitSign t = (true, r)) ∨ (∃ r, t = 0x2B :: r ∧ splitSign t = (false, r)) ∨
    (splitSign t = (false, t) ∧ ∀ c r, t = c :: r → c ≠ 0x2D ∧ c ≠ 0x2B) := by
  unfold splitSign
  split
  · exact Or.inl ⟨_, rfl, rfl⟩
  · exact Or.inr (Or.inl ⟨_, rfl, rfl⟩)
  · rename_i h1 h2
    refine Or.inr (Or.inr ⟨rfl, ?_⟩)
    intro c r hc
    constructor
    · intro h; subst h; exact h1 r hc
    · intro h; subst h; exact h2 r hc

theorem mem_body {t : List Nat} {c : Nat} (h : c ∈ (splitSign t).2) : c ∈ t := by
  rcases splitSign_cases t with ⟨r, h1, h2⟩ | ⟨r, h1, h2⟩ | ⟨h2, _⟩
  · rw [h2] at h; rw [h1]; exact List.mem_cons_of_mem _ h
  · rw [h2] at h; rw [h1]; exact List.mem_cons_of_mem _ h
  · rw [h2] at h; exact h

/-- the body is "Infinity" only for the three texts handled first -/
theorem body_inf {t : List Nat} (h : ((splitSign t).2 == str "Infinity") = true) :
    (t == str "Infinity" || t == str "+Infinity") = true ∨ (t == str "-Infinity") = true := by
  have hb : (splitSign t).2 = str "Infinity" := by simpa using h
  rcases splitSign_cases t with ⟨r, h1, h2⟩ | ⟨r, h1, h2⟩ | ⟨h2, _⟩
  · right; rw [h2] at hb; simp only at hb; rw [h1, hb]; decide
  · left; rw [h2] at hb; simp only at hb; rw [h1, hb]; decide
  · left; rw [h2] at hb; simp only at hb; rw [hb]; decide


theorem lower_eq_n {c : Nat} (h : lower c = 0x6E) : c = 0x6E ∨ c = 0x4E := by
  unfold lower at h
  split at h <;> omega

/-- a text that `strconv.ParseFloat` reads as inf / infinity / nan contains an `n` or `N` -/
theorem goSpecial_has_n {t : List Nat} (h : goSpecial t = true) : ∃ c, c ∈ t ∧ (c = 0x6E ∨ c = 0x4E) := by
  have key : (0x6E : Nat) ∈ t.map lower := by
    simp only [goSpecial, str_inf, str_infinity, str_nan, Bool.or_eq_true, beq_iff_eq] at h
    rcases h with (h | h) | h
    · apply mem_body; rw [h]; decide
    · apply mem_body; rw [h]; decide
    · rw [h]; decide
  obtain ⟨c, hc, hl⟩ := List.mem_map.1 key
  exact ⟨c, hc, lower_eq_n hl⟩

theorem not_allowed_n {c : Nat} (h : c = 0x6E ∨ c = 0x4E) : allowed c = false := by
  rcases h with h | h <;> subst h <;> decide

/-- radix literal with an invalid digit (or a sign) after the prefix: NaN -/
theorem radix_invalid (p c : Nat) (rest : List Nat) (hp : radixOfLetter p ≠ 0)
    (hbad : allDigits (radixOfLetter p) (c :: rest) = false) : mechT (0x30 :: p :: c :: rest) = Res.nan := by
  have hrp : radixPrefix (0x30 :: p :: c :: rest) = radixOfLetter p := rfl
  obtain ⟨i1, i2⟩ := head_infinity_false 0x30 (p :: c :: rest) (by decide) (by decide) (by decide)
  have hsti : stringToInt (0x30 :: p :: c :: rest) = none := by
    simp only [stringToInt, hrp, hp, ne_eq, not_false_eq_true, if_true]
    by_cases hs : c = 0x2B ∨ c = 0x2D
    · simp [hs]
    · have n1 : c ≠ 0x2D := by omega
      have n2 : c ≠ 0x2B := by omega
      simp only [hs, if_false]
      rw [goParseInt_nosign c rest _ n1 n2]; simp [hbad]
  simp only [mechT, List.isEmpty_cons, Bool.false_eq_true, if_false, i1, i2, hsti]
  have e4 : ((0x30 :: p :: c :: rest) == str "-0") = false := by rw [str_m0]; simp
  simp only [toFloat, e4, Bool.false_eq_true, if_false, hrp, hp, ne_eq, not_false_eq_true, if_true, List.drop, hbad]
  split <;> rfl

theorem radixPrefix_shape {t : List Nat} (h : radixPrefix t ≠ 0) :
    ∃ p c rest, t = 0x30 :: p :: c :: rest ∧ radixOfLetter p ≠ 0 := by
  unfold radixPrefix at h
  split at h
  · rename_i p c rest; exact ⟨p, c, rest, rfl, h⟩
  · exact absurd rfl h


/-- a text whose body (after an optional sign) is a non-empty run of decimal digits: handled by the digit lemmas -/
theorem agree_digits {t : List Nat} (hne : (splitSign t).2 ≠ []) (hd : (splitSign t).2.all isDecDigit = true) :
    mechT t = specT t := by
  rcases splitSign_cases t with ⟨r, h1, h2⟩ | ⟨r, h1, h2⟩ | ⟨h2, _⟩
  · rw [h2] at hne hd; simp only at hne hd
    cases r with
    | nil => exact absurd rfl hne
    | cons d ds =>
      subst h1
      have a := mechT_signed true d ds hd
      have b := specT_signed true d ds hd
      unfold signed at a b
      exact a.trans b.symm
  · rw [h2] at hne hd; simp only at hne hd
    cases r with
    | nil => exact absurd rfl hne
    | cons d ds =>
      subst h1
      exact (mechT_plus d ds hd).trans (specT_plus d ds hd).symm
  · rw [h2] at hne hd; simp only at hne hd
    cases t with
    | nil => exact absurd rfl hne
    | cons d ds =>
      have a := mechT_signed false d ds hd
      have b := specT_signed false d ds hd
      unfold signed at a b
      exact a.trans b.symm

/-- **StringToNumber: the mechanism's decisions are the spec recogniser's, for every string.** -/
theorem mechT_eq_specT (t : List Nat) : mechT t = specT t := by
  cases hte : t.isEmpty with
  | true =>
    have : t = [] := by simpa using hte
    subst this; rfl
  | false =>
  by_cases hinf : (t == str "Infinity" || t == str "+Infinity") = true
  · -- "Infinity" / "+Infinity"
    have hm : mechT t = Res.inf false := by simp only [mechT, hte, hinf, Bool.false_eq_true, if_false, if_true]
    rw [hm]
    simp only [Bool.or_eq_true, beq_iff_eq] at hinf
    rcases hinf with h | h <;> subst h <;> decide
  · have hinf' : (t == str "Infinity" || t == str "+Infinity") = false := by simpa using hinf
    by_cases hminf : (t == str "-Infinity") = true
    · have hm : mechT t = Res.inf true := by simp only [mechT, hte, hinf', hminf, Bool.false_eq_true, if_false, if_true]
      rw [hm]
      have : t = str "-Infinity" := by simpa using hminf
      subst this; decide
    · have hminf' : (t == str "-Infinity") = false := by simpa using hminf
      have hbinf : ((splitSign t).2 == str "Infinity") = false := by
        cases hb : ((splitSign t).2 == str "Infinity") with
        | false => rfl
        | true => rcases body_inf hb with h | h
                  · rw [hinf'] at h; cases h
                  · rw [hminf'] at h; cases h
      by_cases hrp : radixPrefix t = 0
      · -- no radix prefix
        by_cases hdig : (splitSign t).2 ≠ [] ∧ (splitSign t).2.all isDecDigit = true
        · exact agree_digits hdig.1 hdig.2
        · -- not [sign]digits: the integer parse fails, `_toFloat` decides
          have hspec := spec_eq_dec hte hrp
          have hsti : stringToInt t = none := by
            have hg : goParseInt t 10 = none := by
              simp only [goParseInt, allDigits10_eq]
              have : ((splitSign t).2.isEmpty || !(splitSign t).2.all isDecDigit) = true := by
                cases he : (splitSign t).2.isEmpty with
                | true => rfl
                | false =>
                  have hne : (splitSign t).2 ≠ [] := by
                    intro h; rw [h] at he; cases he
                  cases ha : (splitSign t).2.all isDecDigit with
                  | false => rfl
                  | true => exact absurd ⟨hne, ha⟩ hdig
              simp only [this, if_true]
            simp only [stringToInt, hrp, ne_eq, not_true_eq_false, if_false, hg]
          have hm0 : (t == str "-0") = false := by
            cases hb : (t == str "-0") with
            | false => rfl
            | true =>
              have : t = str "-0" := by simpa using hb
              subst this
              exact absurd ⟨by decide, by decide⟩ hdig
          have hm : mechT t = toFloat t := by
            simp only [mechT, hte, hinf', hminf', hsti, Bool.false_eq_true, if_false]
          rw [hm, hspec]
          by_cases hus : t.contains 0x5F = true
          · have : toFloat t = Res.nan := by simp only [toFloat, hm0, hus, Bool.false_eq_true, if_false, if_true]
            rw [this]
            exact (dec_nan_of_bad (c := 0x5F) (by simpa using hus) (by decide) hbinf).symm
          · have hus' : t.contains 0x5F = false := by simpa using hus
            have htail : toFloat.tail t = specT.dec t := by
              by_cases hsp : goSpecial t = true
              · obtain ⟨c, hc, hn⟩ := goSpecial_has_n hsp
                simp only [toFloat.tail, hsp, if_true]
                exact (dec_nan_of_bad hc (not_allowed_n hn) hbinf).symm
              · have hsp' : goSpecial t = false := by simpa using hsp
                simp only [toFloat.tail, specT.dec, hsp', hbinf, Bool.false_eq_true, if_false]
            simp only [toFloat, hm0, hus', hrp, Bool.false_eq_true, if_false, ne_eq, not_true_eq_false]
            split
            · rename_i x r heq
              by_cases hx : x = 0x78 ∨ x = 0x58
              · simp only [hx, if_true]
                have hmem : x ∈ t := mem_body (by rw [heq]; simp)
                have hbad : allowed x = false := by rcases hx with h | h <;> subst h <;> decide
                exact (dec_nan_of_bad hmem hbad hbinf).symm
              · simp only [hx, if_false]; exact htail
            · exact htail
      · -- radix prefix 0x / 0o / 0b
        obtain ⟨p, c, rest, ht, hp⟩ := radixPrefix_shape hrp
        subst ht
        have hs : specT (0x30 :: p :: c :: rest) =
            if allDigits (radixOfLetter p) (c :: rest) then Res.exactInt false (digitsValue (radixOfLetter p) (c :: rest))
            else Res.nan := by
          simp only [specT, List.isEmpty_cons, Bool.false_eq_true, if_false, hp, ne_eq, not_false_eq_true, if_true]
        rw [hs]
        cases hall : allDigits (radixOfLetter p) (c :: rest) with
        | true =>
          simp only [if_true]
          exact radix_literal_exact' p (c :: rest) hp (by simp) hall
        | false =>
          simp only [Bool.false_eq_true, if_false]
          exact radix_invalid p c rest hp hall


theorem dropS_eq_dropWs (s : List Nat) : specTrim.dropS s = dropWs s := by
  induction s with
  | nil => rfl
  | cons a as ih => simp only [specTrim.dropS, dropWs, trimSet_eq_spec' a, ih]

theorem specTrim_eq_trim (s : List Nat) : specTrim s = trim s := by
  simp only [specTrim, trim, dropS_eq_dropWs]

/-- **string → number, untrimmed: goja's decisions (trim with `parser.WhitespaceChars`, then `asciiString.ToNumber`'s
flow) are ECMA-262 StringToNumber's (strip StrWhiteSpace, then StrNumericLiteral), for every string.** -/
theorem mech_eq_spec (s : List Nat) : mech s = spec s := by
  simp only [mech, spec, specTrim_eq_trim, mechT_eq_specT]


end GojaModel.C05.StrNum
