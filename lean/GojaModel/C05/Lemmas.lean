/-  C05 helper lemmas (core Lean only). -/
import GojaModel.C05.Model
namespace GojaModel.C05
open GojaModel GojaModel.Num

theorem floatToInt_some {f : F64} {i : Int} (h : floatToInt f = some i) :
    f.toInt? = some i ∧ -maxInt ≤ i ∧ i ≤ maxInt ∧ f ≠ F64.negZero := by
  unfold floatToInt at h
  split at h
  · rename_i hc
    simp only [Bool.and_eq_true, Bool.or_eq_true, Bool.not_eq_true', decide_eq_true_eq] at hc
    obtain ⟨⟨⟨⟨h1, h2⟩, h3, h4⟩, h5⟩, h6⟩ := hc
    cases h
    refine ⟨?_, h5, h6, ?_⟩
    · have hfin : f.isFinite = true := by
        simp [F64.isFinite, F64.isNaN, F64.isInf] at *
        intro he
        by_cases hm : f.man = 0
        · exact absurd (h2 he) (by simp [hm])
        · exact absurd (h3 he) (by simp [hm])
      simp [F64.toInt?, hfin, h4]
    · intro hz; subst hz
      simp [F64.negZero, F64.mk', F64.isZero] at h1
  · cases h

theorem floatToInt_none_of_nonfinite {f : F64} (h : f.isFinite = false) : floatToInt f = none := by
  unfold floatToInt
  have : f.isInf = true ∨ f.isNaN = true := by
    simp [F64.isFinite, F64.isNaN, F64.isInf] at *
    by_cases hm : f.man = 0 <;> simp [h, hm]
  rcases this with h | h <;> simp [h]

theorem canon_negZero : Canon (flt F64.negZero) := by
  refine ⟨by decide, fun _ _ _ _ => rfl⟩
theorem canon_canonNaN : Canon (flt F64.canonNaN) := by
  refine ⟨fun _ => rfl, ?_⟩
  intro i hi; simp [F64.toInt?, F64.canonNaN, F64.mk', F64.isFinite] at hi
theorem canon_posInf : Canon (flt F64.posInf) := by
  refine ⟨by decide, ?_⟩
  intro i hi; simp [F64.toInt?, F64.posInf, F64.mk', F64.isFinite] at hi
theorem canon_negInf : Canon (flt F64.negInf) := by
  refine ⟨by decide, ?_⟩
  intro i hi; simp [F64.toInt?, F64.negInf, F64.mk', F64.isFinite] at hi

theorem floatToInt_of_toInt {f : F64} {i : Int} (h : f.toInt? = some i) (h1 : -maxInt ≤ i) (h2 : i ≤ maxInt)
    (hz : f.isZero = false) : floatToInt f = some i := by
  unfold F64.toInt? at h
  split at h
  · rename_i hc
    simp only [Bool.and_eq_true] at hc
    cases h
    have hfin := hc.1
    have hnan : f.isNaN = false := by
      simp [F64.isFinite, F64.isNaN] at *; intro he; exact absurd he hfin
    have hinf : f.isInf = false := by
      simp [F64.isFinite, F64.isInf] at *; intro he; exact absurd he hfin
    simp [floatToInt, hz, hnan, hinf, hc.2, h1, h2]
  · cases h

theorem canon_floatToValue (f : F64) : Canon (floatToValue f) := by
  unfold floatToValue
  split
  · rename_i i hi
    have := floatToInt_some hi
    exact ⟨this.2.1, this.2.2.1⟩
  · rename_i hnone
    split
    · exact canon_negZero
    · split
      · exact canon_canonNaN
      · split
        · exact canon_posInf
        · split
          · exact canon_negInf
          · rename_i hz hn _ _
            refine ⟨fun h => absurd h hn, ?_⟩
            intro i hi h1 h2
            have := floatToInt_of_toInt hi h1 h2 (by simpa using hz)
            rw [hnone] at this; cases this

theorem log2_bounds {n : Nat} (hn : n ≠ 0) : 2 ^ n.log2 ≤ n ∧ n < 2 ^ (n.log2 + 1) :=
  ⟨Nat.log2_self_le hn, Nat.lt_log2_self⟩

/-- scaling window: for 2^k ≤ n < 2^(k+1), k ≤ 52:  2^52 ≤ n * 2^(52-k) < 2^53 -/
theorem scale_window {n k : Nat} (hk : k ≤ 52) (h1 : 2 ^ k ≤ n) (h2 : n < 2 ^ (k + 1)) :
    2 ^ 52 ≤ n * 2 ^ (52 - k) ∧ n * 2 ^ (52 - k) < 2 ^ 53 := by
  have e1 : 2 ^ k * 2 ^ (52 - k) = 2 ^ 52 := by rw [← Nat.pow_add]; congr 1; omega
  have e2 : 2 ^ (k + 1) * 2 ^ (52 - k) = 2 ^ 53 := by rw [← Nat.pow_add]; congr 1; omega
  have hp : 0 < 2 ^ (52 - k) := Nat.two_pow_pos _
  constructor
  · rw [← e1]; exact Nat.mul_le_mul_right _ h1
  · rw [← e2]; exact Nat.mul_lt_mul_of_pos_right h2 hp

theorem ofNatSign_small_fields (neg : Bool) {n : Nat} (hn : n ≠ 0) (hlt : n < 2 ^ 53) :
    (F64.ofNatSign neg n).neg = neg ∧ (F64.ofNatSign neg n).exp = 1023 + n.log2 ∧
    (F64.ofNatSign neg n).man = n * 2 ^ (52 - n.log2) - 2 ^ 52 ∧ n.log2 ≤ 52 := by
  obtain ⟨hb1, hb2⟩ := log2_bounds hn
  have hk : n.log2 ≤ 52 := by
    have : n.log2 < 53 := (Nat.log2_lt hn).2 hlt
    omega
  obtain ⟨w1, w2⟩ := scale_window hk hb1 hb2
  have hm : n * 2 ^ (52 - n.log2) - 2 ^ 52 < 2 ^ 52 := by omega
  have he : 1023 + n.log2 < 2048 := by omega
  unfold F64.ofNatSign
  simp only [dif_neg hn, dif_pos hk, dif_pos hm, dif_pos he]
  simp [hk]

/-- What "the double `f` is exactly the integer of magnitude `n` with sign `neg`" means. -/
structure ExactNat (f : F64) (neg : Bool) (n : Nat) : Prop where
  hneg : f.neg = neg
  fin : f.isFinite = true
  integral : f.isIntegral = true
  trunc : f.truncNat = n
  nan : f.isNaN = false
  inf : f.isInf = false
  zero : f.isZero = decide (n = 0)

theorem ofNatSign_exact_small (neg : Bool) {n : Nat} (hn : n ≠ 0) (hlt : n < 2 ^ 53) :
    ExactNat (F64.ofNatSign neg n) neg n := by
  obtain ⟨h1, h2, h3, hk⟩ := ofNatSign_small_fields neg hn hlt
  obtain ⟨hb1, hb2⟩ := log2_bounds hn
  obtain ⟨w1, w2⟩ := scale_window hk hb1 hb2
  generalize F64.ofNatSign neg n = f at *
  have hexp0 : f.exp ≠ 0 := by omega
  have hsig : f.sig = n * 2 ^ (52 - n.log2) := by
    simp only [F64.sig, if_neg hexp0, h3]; omega
  have heff : f.eff = 1023 + n.log2 := by rw [F64.eff, if_neg hexp0, h2]
  have hfin : f.isFinite = true := by simp [F64.isFinite, h2]; omega
  have hnan : f.isNaN = false := by simp [F64.isNaN, h2]; omega
  have hinf : f.isInf = false := by simp [F64.isInf, h2]; omega
  have hzero : f.isZero = decide (n = 0) := by simp [F64.isZero, hn]; intro h; exact absurd h hexp0
  by_cases hk52 : n.log2 = 52
  · have hs : f.sig = n := by rw [hsig, hk52]; simp
    refine ⟨h1, hfin, ?_, ?_, hnan, hinf, hzero⟩
    · simp [F64.isIntegral, heff, hk52]
    · simp [F64.truncNat, heff, hk52, hs]
  · have hlt' : ¬ (1075 ≤ f.eff) := by rw [heff]; omega
    have hd : 1075 - f.eff = 52 - n.log2 := by rw [heff]; omega
    refine ⟨h1, hfin, ?_, ?_, hnan, hinf, hzero⟩
    · simp only [F64.isIntegral, if_neg hlt', hd, hsig]; simp
    · simp only [F64.truncNat, if_neg hlt', hd, hsig]
      exact Nat.mul_div_cancel _ (Nat.two_pow_pos _)

theorem ofNatSign_exact (neg : Bool) {n : Nat} (hle : n ≤ 2 ^ 53) : ExactNat (F64.ofNatSign neg n) neg n := by
  by_cases h0 : n = 0
  · subst h0
    have hf : F64.ofNatSign neg 0 = ⟨neg, 0, 0, by decide, by decide⟩ := by simp [F64.ofNatSign]
    rw [hf]
    exact ⟨rfl, by simp [F64.isFinite], by simp [F64.isIntegral, F64.eff, F64.sig],
      by simp [F64.truncNat, F64.eff, F64.sig], by simp [F64.isNaN], by simp [F64.isInf], by simp [F64.isZero]⟩
  · by_cases hlt : n < 2 ^ 53
    · exact ofNatSign_exact_small neg h0 hlt
    · have : n = 2 ^ 53 := by omega
      subst this
      cases neg <;> exact ⟨by decide, by decide, by decide, by decide, by decide, by decide, by decide⟩

/-- Key exactness lemma: an `int64` of magnitude ≤ 2^53 converts to a double without rounding. -/
theorem ofInt_exact {i : Int} (h1 : -maxInt ≤ i) (h2 : i ≤ maxInt) :
    (F64.ofInt i).toInt? = some i ∧ (F64.ofInt i).isNaN = false ∧ (F64.ofInt i).isInf = false ∧
    ((F64.ofInt i).isZero = true → i = 0 ∧ (F64.ofInt i).neg = false) ∧ (i = 0 → F64.ofInt i = F64.posZero) := by
  have hm : maxInt = 2 ^ 53 := rfl
  rw [hm] at h1 h2
  have hle : i.natAbs ≤ 2 ^ 53 := by omega
  unfold F64.ofInt
  split
  · rename_i hneg
    have ex := ofNatSign_exact true hle
    refine ⟨?_, ex.nan, ex.inf, ?_, ?_⟩
    · simp only [F64.toInt?, ex.fin, ex.integral, F64.truncInt, ex.hneg, ex.trunc]
      simp; omega
    · intro hz; rw [ex.zero] at hz; simp at hz; omega
    · intro h; omega
  · rename_i hneg
    have ex := ofNatSign_exact false hle
    refine ⟨?_, ex.nan, ex.inf, ?_, ?_⟩
    · simp only [F64.toInt?, ex.fin, ex.integral, F64.truncInt, ex.hneg, ex.trunc]
      simp; omega
    · intro hz; rw [ex.zero] at hz; simp at hz
      exact ⟨by omega, ex.hneg⟩
    · intro h; subst h; decide

theorem toInt_of_isZero {f : F64} (h : f.isZero = true) : f.toInt? = some 0 := by
  simp [F64.isZero] at h
  obtain ⟨he, hm⟩ := h
  have hs : f.sig = 0 := by simp [F64.sig, he, hm]
  have hef : f.eff = 1 := by simp [F64.eff, he]
  have ht : f.truncNat = 0 := by simp [F64.truncNat, hef, hs]
  have hi : f.isIntegral = true := by simp [F64.isIntegral, hef, hs]
  have hf : f.isFinite = true := by simp [F64.isFinite, he]
  simp [F64.toInt?, hf, hi, F64.truncInt, ht]

theorem canon_zero {f : F64} (hc : Canon (flt f)) (h : f.isZero = true) : f = F64.negZero :=
  hc.2 0 (toInt_of_isZero h) (by decide) (by decide)

theorem feq_iff {f g : F64} (hf : f.isNaN = false) (hg : g.isNaN = false) :
    F64.feq f g = true ↔ (f.isZero = true ∧ g.isZero = true) ∨ f = g := by
  simp only [F64.feq, hf, hg]
  constructor
  · intro h
    simp at h
    rcases h with h | h
    · exact Or.inl h
    · exact Or.inr (F64.ext' h.1.1 h.1.2 h.2)
  · intro h
    rcases h with h | h
    · simp [h.1, h.2]
    · subst h; simp

theorem nan_not_finite {f : F64} (h : f.isNaN = true) : f.toInt? = none := by
  simp [F64.isNaN] at h
  simp [F64.toInt?, F64.isFinite, h.1]

/-- **Uniqueness of the canonical representation.** -/
theorem canon_unique' {a b : Num} (ha : Canon a) (hb : Canon b)
    (h : specSameValue a.toF64 b.toF64 = true) : a = b := by
  simp only [specSameValue, Bool.or_eq_true, Bool.and_eq_true, beq_iff_eq] at h
  cases a with
  | int i =>
    cases b with
    | int j =>
      obtain ⟨ei, ni, _, _, _⟩ := ofInt_exact ha.1 ha.2
      obtain ⟨ej, _, _, _, _⟩ := ofInt_exact hb.1 hb.2
      simp only [toF64] at h
      rcases h with h | h
      · rw [ni] at h; exact absurd h.1 (by simp)
      · rw [h] at ei; rw [ei] at ej; cases ej; rfl
    | flt g =>
      obtain ⟨ei, ni, _, hz, _⟩ := ofInt_exact ha.1 ha.2
      simp only [toF64] at h
      rcases h with h | h
      · rw [ni] at h; exact absurd h.1 (by simp)
      · rw [h] at ei hz
        have := hb.2 i ei ha.1 ha.2
        subst this
        have := (hz (by decide)).2
        exact absurd this (by decide)
  | flt f =>
    cases b with
    | int j =>
      obtain ⟨ej, nj, _, hz, _⟩ := ofInt_exact hb.1 hb.2
      simp only [toF64] at h
      rcases h with h | h
      · rw [nj] at h; exact absurd h.2 (by simp)
      · rw [← h] at ej hz
        have := ha.2 j ej hb.1 hb.2
        subst this
        have := (hz (by decide)).2
        exact absurd this (by decide)
    | flt g =>
      simp only [toF64] at h
      rcases h with h | h
      · rw [ha.1 h.1, hb.1 h.2]
      · rw [h]

theorem ofInt_notNaN {i : Int} (h1 : -maxInt ≤ i) (h2 : i ≤ maxInt) : (F64.ofInt i).isNaN = false :=
  (ofInt_exact h1 h2).2.1

theorem sameAs_refl_of_canon {a : Num} (ha : Canon a) : sameAs a a = true := by
  cases a with
  | int i => simp [sameAs]
  | flt f =>
    simp only [sameAs]
    by_cases hn : f.isNaN = true
    · simp [hn]
    · have hn' : f.isNaN = false := by simpa using hn
      have : F64.feq f f = true := (feq_iff hn' hn').2 (Or.inr rfl)
      simp [hn', this]

/-- mechanism `SameAs` says yes only on values denoting the same double -/
theorem sameAs_sound {a b : Num} (ha : Canon a) (hb : Canon b) (h : sameAs a b = true) :
    specSameValue a.toF64 b.toF64 = true := by
  cases a with
  | int i =>
    cases b with
    | int j => simp [sameAs] at h; subst h; simp [specSameValue]
    | flt g => simp [sameAs] at h
  | flt f =>
    cases b with
    | int j =>
      have nj := ofInt_notNaN hb.1 hb.2
      simp only [sameAs] at h
      by_cases hn : f.isNaN = true
      · simp [F64.feq, hn] at h
      · have hn' : f.isNaN = false := by simpa using hn
        by_cases hfe : F64.feq f (F64.ofInt j) = true
        · rcases (feq_iff hn' nj).1 hfe with hz | he
          · have := canon_zero ha hz.1
            subst this
            simp [hfe] at h
            exact absurd h (by decide)
          · simp [specSameValue, toF64, he]
        · simp [hfe] at h
    | flt g =>
      simp only [sameAs] at h
      by_cases hnn : (f.isNaN && g.isNaN) = true
      · simp [specSameValue, toF64, hnn]
      · simp only [hnn] at h
        by_cases hfe : F64.feq f g = true
        · have hfn : f.isNaN = false := by
            simp [F64.feq] at hfe; exact hfe.1.1
          have hgn : g.isNaN = false := by
            simp [F64.feq] at hfe; exact hfe.1.2
          rcases (feq_iff hfn hgn).1 hfe with hz | he
          · rw [canon_zero ha hz.1, canon_zero hb hz.2]; simp [specSameValue, toF64]
          · simp [specSameValue, toF64, he]
        · simp [hfe] at h

/-- **`SameAs` is SameValue on canonical values** (both argument orders, by symmetry of the spec side). -/
theorem sameAs_eq_spec' {a b : Num} (ha : Canon a) (hb : Canon b) :
    sameAs a b = specSameValue a.toF64 b.toF64 := by
  by_cases h : specSameValue a.toF64 b.toF64 = true
  · have := canon_unique' ha hb h
    subst this
    rw [h]; exact sameAs_refl_of_canon ha
  · by_cases h' : sameAs a b = true
    · exact absurd (sameAs_sound ha hb h') h
    · simp at h h'; rw [h, h']

theorem strictEquals_eq_spec' {a b : Num} (ha : Canon a) (hb : Canon b) :
    strictEquals a b = specStrictEq a.toF64 b.toF64 := by
  cases a with
  | int i =>
    cases b with
    | int j =>
      obtain ⟨ei, ni, _, zi, _⟩ := ofInt_exact ha.1 ha.2
      obtain ⟨ej, nj, _, zj, _⟩ := ofInt_exact hb.1 hb.2
      simp only [strictEquals, specStrictEq, toF64]
      by_cases h : i = j
      · subst h; simp; exact (feq_iff ni ni).2 (Or.inr rfl)
      · have : F64.feq (F64.ofInt i) (F64.ofInt j) = false := by
          cases hfe : F64.feq (F64.ofInt i) (F64.ofInt j) with
          | false => rfl
          | true =>
            rcases (feq_iff ni nj).1 hfe with hz | he
            · exact absurd ((zi hz.1).1.trans (zj hz.2).1.symm) h
            · rw [he] at ei; rw [ei] at ej; cases ej; exact absurd rfl h
        rw [this]; simp [h]
    | flt g => rfl
  | flt f =>
    cases b with
    | int j => rfl
    | flt g => rfl

/-- zero-normalisation on doubles (what `key == _negativeZero → intToValue(0)` does to the denotation) -/
def nz (x : F64) : F64 := if x.isZero then F64.posZero else x

theorem specSVZ_eq (x y : F64) : specSameValueZero x y = specSameValue (nz x) (nz y) := by
  simp only [specSameValueZero, specSameValue, nz]
  by_cases hx : x.isZero = true <;> by_cases hy : y.isZero = true
  · simp [hx, hy]
  · have hxn : x.isNaN = false := by simp [F64.isZero] at hx; simp [F64.isNaN, hx.1]
    have h1 : (x == y) = false := by
      apply beq_false_of_ne; intro h; subst h; exact hy hx
    have h2 : (F64.posZero == y) = false := by
      apply beq_false_of_ne; intro h; subst h; exact hy (by decide)
    have hp : F64.posZero.isNaN = false := by decide
    simp [hx, hy, hxn, h1, h2, hp]
  · have hyn : y.isNaN = false := by simp [F64.isZero] at hy; simp [F64.isNaN, hy.1]
    have h1 : (x == y) = false := by
      apply beq_false_of_ne; intro h; subst h; exact hx hy
    have h2 : (x == F64.posZero) = false := by
      apply beq_false_of_ne; intro h; subst h; exact hx (by decide)
    have hp : F64.posZero.isNaN = false := by decide
    simp [hx, hy, hyn, h1, h2, hp]
  · simp [hx, hy]

theorem canon_normKey {a : Num} (ha : Canon a) : Canon (normKey a) := by
  cases a with
  | int i => exact ha
  | flt f =>
    simp only [normKey]
    split
    · exact ⟨by decide, by decide⟩
    · exact ha

theorem toF64_normKey {a : Num} (ha : Canon a) : (normKey a).toF64 = nz a.toF64 := by
  cases a with
  | int i =>
    obtain ⟨_, _, _, zi, z0⟩ := ofInt_exact ha.1 ha.2
    show F64.ofInt i = nz (F64.ofInt i)
    unfold nz
    by_cases hz : (F64.ofInt i).isZero = true
    · simp only [hz, if_true]; exact z0 (zi hz).1
    · simp [hz]
  | flt f =>
    show (if f.isZero then int 0 else flt f).toF64 = nz f
    unfold nz
    by_cases hz : f.isZero = true
    · simp only [hz, if_true]; decide
    · simp [hz, toF64]

/-- **Map/Set lookup is SameValueZero on canonical keys.** -/
theorem mapFinds_eq_spec' {a b : Num} (ha : Canon a) (hb : Canon b) :
    mapFinds a b = specSameValueZero a.toF64 b.toF64 := by
  have ca := canon_normKey ha
  have cb := canon_normKey hb
  rw [specSVZ_eq, ← toF64_normKey ha, ← toF64_normKey hb, ← sameAs_eq_spec' ca cb]
  simp only [mapFinds]
  by_cases h : sameAs (normKey a) (normKey b) = true
  · have := canon_unique' ca cb (by rw [← sameAs_eq_spec' ca cb]; exact h)
    rw [this]; simp [sameAs_refl_of_canon cb]
  · simp at h; simp [h]

theorem toInt_some {f : F64} {i : Int} (h : f.toInt? = some i) : f.isFinite = true ∧ f.truncInt = i := by
  unfold F64.toInt? at h
  split at h
  · rename_i hc; simp at hc; cases h; exact ⟨hc.1, rfl⟩
  · cases h

theorem finite_iff (f : F64) : (!f.isNaN && !f.isInf) = f.isFinite := by
  simp only [F64.isNaN, F64.isInf, F64.isFinite]
  cases h1 : (f.exp == 2047) <;> cases h2 : (f.man == 0) <;> simp [bne, h1, h2]

theorem specIntOrZero_ofInt {i : Int} (h1 : -maxInt ≤ i) (h2 : i ≤ maxInt) : specIntOrZero (F64.ofInt i) = i := by
  obtain ⟨ei, _⟩ := ofInt_exact h1 h2
  obtain ⟨hf, ht⟩ := toInt_some ei
  simp [specIntOrZero, hf, ht]

theorem wrapS8 (x : Int) : wrapS 8 x = (let m := x % 2 ^ 8; if m ≥ 2 ^ (8 - 1) then m - 2 ^ 8 else m) := by
  simp only [wrapS]; split <;> omega
theorem wrapS16 (x : Int) : wrapS 16 x = (let m := x % 2 ^ 16; if m ≥ 2 ^ (16 - 1) then m - 2 ^ 16 else m) := by
  simp only [wrapS]; split <;> omega
theorem wrapS32 (x : Int) : wrapS 32 x = (let m := x % 2 ^ 32; if m ≥ 2 ^ (32 - 1) then m - 2 ^ 32 else m) := by
  simp only [wrapS]; split <;> omega
theorem wrapS_64_8 (x : Int) : wrapS 8 (wrapS 64 x) = wrapS 8 x := by simp only [wrapS]; omega
theorem wrapS_64_16 (x : Int) : wrapS 16 (wrapS 64 x) = wrapS 16 x := by simp only [wrapS]; omega
theorem wrapS_64_32 (x : Int) : wrapS 32 (wrapS 64 x) = wrapS 32 x := by simp only [wrapS]; omega
theorem wrapU_64_8 (x : Int) : wrapU 8 (wrapS 64 x) = wrapU 8 x := by simp only [wrapS, wrapU]; omega
theorem wrapU_64_16 (x : Int) : wrapU 16 (wrapS 64 x) = wrapU 16 x := by simp only [wrapS, wrapU]; omega
theorem wrapU_64_32 (x : Int) : wrapU 32 (wrapS 64 x) = wrapU 32 x := by simp only [wrapS, wrapU]; omega

/-- the repaired helper is reduction modulo 2^64 into the int64 range, for every finite double -/
theorem float64ToInt64Mod_eq (f : F64) : float64ToInt64Mod f = wrapS 64 f.truncInt := by
  simp only [float64ToInt64Mod, goModTwo64, wrapS]
  generalize f.truncInt = t
  split
  · omega
  · split
    · split
      · omega
      · split <;> omega
    · split
      · omega
      · split <;> omega

/-! conversions -/

theorem toIntS_mod_spec32 {a : Num} (ha : Canon a) : toIntS 32 a = specToIntS 32 a.toF64 := by
  cases a with
  | int i =>
    simp only [toIntS, specToIntS, toF64, specIntOrZero_ofInt ha.1 ha.2, wrapS32]
  | flt f =>
    simp only [toIntS, toF64, finite_iff, float64ToInt64Mod_eq, specToIntS, specIntOrZero]
    by_cases hf : f.isFinite = true
    · simp only [hf, ↓reduceIte, wrapS_64_32]; exact wrapS32 _
    · simp at hf; simp [hf]

theorem toIntS_mod_spec16 {a : Num} (ha : Canon a) : toIntS 16 a = specToIntS 16 a.toF64 := by
  cases a with
  | int i =>
    simp only [toIntS, specToIntS, toF64, specIntOrZero_ofInt ha.1 ha.2, wrapS16]
  | flt f =>
    simp only [toIntS, toF64, finite_iff, float64ToInt64Mod_eq, specToIntS, specIntOrZero]
    by_cases hf : f.isFinite = true
    · simp only [hf, ↓reduceIte, wrapS_64_16]; exact wrapS16 _
    · simp at hf; simp [hf]

theorem toIntS_mod_spec8 {a : Num} (ha : Canon a) : toIntS 8 a = specToIntS 8 a.toF64 := by
  cases a with
  | int i =>
    simp only [toIntS, specToIntS, toF64, specIntOrZero_ofInt ha.1 ha.2, wrapS8]
  | flt f =>
    simp only [toIntS, toF64, finite_iff, float64ToInt64Mod_eq, specToIntS, specIntOrZero]
    by_cases hf : f.isFinite = true
    · simp only [hf, ↓reduceIte, wrapS_64_8]; exact wrapS8 _
    · simp at hf; simp [hf]

theorem toIntU_mod_spec32 {a : Num} (ha : Canon a) : toIntU 32 a = specToIntU 32 a.toF64 := by
  cases a with
  | int i => simp only [toIntU, specToIntU, toF64, specIntOrZero_ofInt ha.1 ha.2, wrapU]
  | flt f =>
    simp only [toIntU, toF64, finite_iff, float64ToInt64Mod_eq, specToIntU, specIntOrZero]
    by_cases hf : f.isFinite = true
    · simp only [hf, ↓reduceIte, wrapU_64_32]; rfl
    · simp at hf; simp [hf]
theorem toIntU_mod_spec16 {a : Num} (ha : Canon a) : toIntU 16 a = specToIntU 16 a.toF64 := by
  cases a with
  | int i => simp only [toIntU, specToIntU, toF64, specIntOrZero_ofInt ha.1 ha.2, wrapU]
  | flt f =>
    simp only [toIntU, toF64, finite_iff, float64ToInt64Mod_eq, specToIntU, specIntOrZero]
    by_cases hf : f.isFinite = true
    · simp only [hf, ↓reduceIte, wrapU_64_16]; rfl
    · simp at hf; simp [hf]
theorem toIntU_mod_spec8 {a : Num} (ha : Canon a) : toIntU 8 a = specToIntU 8 a.toF64 := by
  cases a with
  | int i => simp only [toIntU, specToIntU, toF64, specIntOrZero_ofInt ha.1 ha.2, wrapU]
  | flt f =>
    simp only [toIntU, toF64, finite_iff, float64ToInt64Mod_eq, specToIntU, specIntOrZero]
    by_cases hf : f.isFinite = true
    · simp only [hf, ↓reduceIte, wrapU_64_8]; rfl
    · simp at hf; simp [hf]

theorem floatToIntClip_spec' (f : F64) : floatToIntClip f = specToIntegerClamped f := by
  simp only [floatToIntClip, specToIntegerClamped, minInt64, maxInt64]
  split
  · rfl
  · split
    · rfl
    · split
      · omega
      · split <;> omega

theorem toLength_flt (f : F64) : toLength (flt f) = specToLength f := by
  simp only [toLength, toInteger, specToLength, floatToIntClip, maxInt, minInt64, maxInt64]
  by_cases hn : f.isNaN = true
  · simp [hn]
  · by_cases hi : f.isInf = true
    · by_cases hs : f.neg = true <;> simp [hn, hi, hs]
    · simp only [hn, hi]; grind

theorem toLength_int (i : Int) : toLength (int i) = min (max i 0) (2 ^ 53 - 1) := by
  simp only [toLength, toInteger, maxInt]; grind

theorem toLength_spec' {a : Num} (ha : Canon a) : toLength a = specToLength a.toF64 := by
  cases a with
  | int i =>
    obtain ⟨ei, ni, ii, _, _⟩ := ofInt_exact ha.1 ha.2
    obtain ⟨_, ht⟩ := toInt_some ei
    rw [toLength_int]
    simp [specToLength, toF64, ni, ii, ht]
  | flt f => exact toLength_flt f

theorem toIndex_flt (f : F64) : toIndex (flt f) = specToIndex f := by
  simp only [toIndex, toInteger, specToIndex, floatToIntClip, maxInt, minInt64, maxInt64]
  by_cases hn : f.isNaN = true
  · simp [hn]
  · by_cases hi : f.isInf = true
    · by_cases hs : f.neg = true <;> simp [hn, hi, hs]
    · simp only [hn, hi]; grind

theorem toIndex_int (i : Int) : toIndex (int i) = if 0 ≤ i ∧ i ≤ 2 ^ 53 - 1 then some i else none := by
  simp only [toIndex, toInteger, maxInt]; grind

theorem toIndex_spec' {a : Num} (ha : Canon a) : toIndex a = specToIndex a.toF64 := by
  cases a with
  | int i =>
    obtain ⟨ei, ni, ii, _, _⟩ := ofInt_exact ha.1 ha.2
    obtain ⟨_, ht⟩ := toInt_some ei
    rw [toIndex_int]
    simp [specToIndex, toF64, ni, ii, ht]
  | flt f => exact toIndex_flt f

theorem canon_intToValue_canon (i : Int) : Canon (intToValue i) := by
  unfold intToValue
  split
  · rename_i h; exact h
  · exact canon_floatToValue _

theorem canon_intToValue_inrange {i : Int} (h1 : -maxInt ≤ i) (h2 : i ≤ maxInt) :
    Canon (intToValue i) := by
  unfold intToValue
  rw [if_pos ⟨h1, h2⟩]; exact ⟨h1, h2⟩

theorem canon_toNumeric {a : Num} (ha : Canon a) : Canon (toNumeric a) := by
  cases a with
  | int i => exact ha
  | flt f => exact canon_floatToValue f

theorem canon_int0 : Canon (int 0) := by decide


theorem opAdd_canon' (a b : Num) (r : F64) : Canon (opAdd a b r) := by
  unfold opAdd; split
  · exact canon_intToValue_canon _
  · exact canon_floatToValue _
theorem opSub_canon' (a b : Num) (r : F64) : Canon (opSub a b r) := by
  unfold opSub; split
  · exact canon_intToValue_canon _
  · exact canon_floatToValue _
theorem opMul_canon' (a b : Num) (r : F64) : Canon (opMul a b r) := by
  unfold opMul; split
  · split
    · exact canon_negZero
    · simp only
      split
      · exact canon_intToValue_canon _
      · exact canon_floatToValue _
  · exact canon_floatToValue _
theorem opDiv_canon' (a b : Num) (r : F64) : Canon (opDiv a b r) := by
  unfold opDiv
  simp only
  repeat' split
  all_goals first
    | exact canon_canonNaN | exact canon_posInf | exact canon_negInf | exact canon_negZero
    | exact canon_int0 | exact canon_floatToValue _
theorem opMod_canon' (a b : Num) (r : F64) : Canon (opMod a b r) := by
  unfold opMod; split
  · split
    · exact canon_canonNaN
    · simp only
      split
      · exact canon_negZero
      · exact canon_intToValue_canon _
  · exact canon_floatToValue _
theorem opNeg_canon' {a : Num} (ha : Canon a) (r : F64) : Canon (opNeg a r) := by
  unfold opNeg
  have hc := canon_toNumeric ha
  split
  · rename_i n hn
    rw [hn] at hc
    split
    · exact canon_negZero
    · exact ⟨by have := hc.2; omega, by have := hc.1; omega⟩
  · exact canon_floatToValue _
theorem opInc_canon' (a : Num) (r : F64) : Canon (opInc a r) := by
  unfold opInc; split
  · exact canon_intToValue_canon _
  · exact canon_floatToValue _
theorem opDec_canon' (a : Num) (r : F64) : Canon (opDec a r) := by
  unfold opDec; split
  · exact canon_intToValue_canon _
  · exact canon_floatToValue _

/-- 32-bit results always fit: with EITHER tail, `intToValue` of an int32/uint32 is a canonical int -/
theorem wrapS32_range (x : Int) : -maxInt ≤ wrapS 32 x ∧ wrapS 32 x ≤ maxInt := by
  simp only [wrapS, maxInt]; omega
theorem wrapU32_range (x : Int) : -maxInt ≤ wrapU 32 x ∧ wrapU 32 x ≤ maxInt := by
  simp only [wrapU, maxInt]; omega


theorem toIntS32_range (a : Num) : -maxInt ≤ toIntS 32 a ∧ toIntS 32 a ≤ maxInt := by
  cases a with
  | int i => exact wrapS32_range _
  | flt f =>
    simp only [toIntS]
    split
    · exact wrapS32_range _
    · decide

theorem bit32_range (f : Nat → Nat → Nat) (x y : Int) : -maxInt ≤ bit32 f x y ∧ bit32 f x y ≤ maxInt :=
  wrapS32_range _

theorem canon_bit32 (f : Nat → Nat → Nat) (x y : Int) : Canon (intToValue (bit32 f x y)) := by
  have h := bit32_range f x y
  generalize bit32 f x y = z at *
  exact canon_intToValue_inrange h.1 h.2

theorem opAnd_canon' (a b : Num) : Canon (opAnd a b) := by
  unfold opAnd
  have h := bit32_range Nat.land (toInt32 (toNumeric a)) (toInt32 (toNumeric b))
  generalize bit32 Nat.land (toInt32 (toNumeric a)) (toInt32 (toNumeric b)) = z at *
  exact canon_intToValue_inrange h.1 h.2

theorem opOr_canon' (a b : Num) : Canon (opOr a b) := by
  unfold opOr
  have h := bit32_range Nat.lor (toInt32 (toNumeric a)) (toInt32 (toNumeric b))
  generalize bit32 Nat.lor (toInt32 (toNumeric a)) (toInt32 (toNumeric b)) = z at *
  exact canon_intToValue_inrange h.1 h.2

theorem opXor_canon' (a b : Num) : Canon (opXor a b) := by
  unfold opXor
  have h := bit32_range Nat.xor (toInt32 (toNumeric a)) (toInt32 (toNumeric b))
  generalize bit32 Nat.xor (toInt32 (toNumeric a)) (toInt32 (toNumeric b)) = z at *
  exact canon_intToValue_inrange h.1 h.2

theorem log2_eq {n k : Nat} (h1 : 2 ^ k ≤ n) (h2 : n < 2 ^ (k + 1)) : n.log2 = k := by
  have hn : n ≠ 0 := by have := Nat.two_pow_pos k; omega
  have a := (Nat.log2_lt hn).2 h2
  have b := (Nat.le_log2 hn).2 h1
  omega

/-- A finite, integral, non-zero double of magnitude ≤ 2^53 is what `ofNatSign` builds from its magnitude:
uniqueness of the normalised representation, for integers. -/
theorem ofNatSign_truncNat {f : F64} (hfin : f.isFinite = true) (hint : f.isIntegral = true)
    (hnz : f.isZero = false) (hle : f.truncNat ≤ 2 ^ 53) : F64.ofNatSign f.neg f.truncNat = f := by
  obtain ⟨neg, exp, man, he, hm⟩ := f
  simp only [F64.isFinite, F64.isIntegral, F64.isZero, F64.truncNat, F64.eff, F64.sig] at *
  by_cases hexp0 : exp = 0
  · -- subnormal: integral forces man = 0, i.e. zero
    subst hexp0
    simp at hint hnz
    have hlt : man < 2 ^ 1074 := Nat.lt_of_lt_of_le hm (Nat.pow_le_pow_right (by decide) (by decide))
    rw [Nat.mod_eq_of_lt hlt] at hint
    exact absurd hint hnz
  · simp only [if_neg hexp0] at *
    by_cases hbig : 1075 ≤ exp
    · simp only [if_pos hbig] at hle ⊢
      -- 2^52 * 2^(exp-1075) ≤ n ≤ 2^53 forces exp - 1075 ≤ 1
      have hpos : 0 < 2 ^ (exp - 1075) := Nat.two_pow_pos _
      by_cases h0 : exp = 1075
      · subst h0
        have hn : (2 ^ 52 + man) * 2 ^ (1075 - 1075) = 2 ^ 52 + man := by simp
        rw [hn]
        have hlog : (2 ^ 52 + man).log2 = 52 := log2_eq (by omega) (by omega)
        obtain ⟨f1, f2, f3, _⟩ := ofNatSign_small_fields neg (n := 2 ^ 52 + man) (by omega) (by omega)
        apply F64.ext'
        · exact f1
        · rw [f2, hlog]
        · rw [f3, hlog]; simp
      · by_cases h1 : exp = 1076
        · subst h1
          have hn : (2 ^ 52 + man) * 2 ^ (1076 - 1075) = 2 * (2 ^ 52 + man) := by
            have : (1076 - 1075 : Nat) = 1 := rfl
            rw [this]; omega
          rw [hn] at hle ⊢
          have hman : man = 0 := by omega
          subst hman
          have k1 : F64.ofNatSign true (2 * (2 ^ 52 + 0)) = ⟨true, 1076, 0, by decide, by decide⟩ := by decide
          have k2 : F64.ofNatSign false (2 * (2 ^ 52 + 0)) = ⟨false, 1076, 0, by decide, by decide⟩ := by decide
          cases neg
          · rw [k2]
          · rw [k1]
        · exfalso
          have h2 : 2 ≤ exp - 1075 := by omega
          have : 2 ^ 2 ≤ 2 ^ (exp - 1075) := Nat.pow_le_pow_right (by decide) h2
          have : (2 ^ 52 + man) * 2 ^ 2 ≤ (2 ^ 52 + man) * 2 ^ (exp - 1075) := Nat.mul_le_mul_left _ this
          omega
    · simp only [if_neg hbig] at hint hle ⊢
      simp at hint
      -- sig = n * 2^d
      have hd : 1075 - exp ≥ 1 := by omega
      generalize hdd : 1075 - exp = d at *
      have hpos : 0 < 2 ^ d := Nat.two_pow_pos _
      have hsig : (2 ^ 52 + man) = ((2 ^ 52 + man) / 2 ^ d) * 2 ^ d := by
        have := Nat.div_add_mod (2 ^ 52 + man) (2 ^ d)
        rw [hint] at this; rw [Nat.mul_comm] at this; omega
      generalize hq : (2 ^ 52 + man) / 2 ^ d = n at *
      have hn0 : n ≠ 0 := by
        intro h; subst h; simp at hsig
      have hd52 : d ≤ 52 := by
        apply Classical.byContradiction; intro hc
        have : 2 ^ 53 ≤ 2 ^ d := Nat.pow_le_pow_right (by decide) (by omega)
        have : 1 * 2 ^ d ≤ n * 2 ^ d := Nat.mul_le_mul_right _ (by omega)
        omega
      have e1 : 2 ^ (52 - d) * 2 ^ d = 2 ^ 52 := by rw [← Nat.pow_add]; congr 1; omega
      have e2 : 2 ^ (52 - d + 1) * 2 ^ d = 2 ^ 53 := by rw [← Nat.pow_add]; congr 1; omega
      have hlo : 2 ^ (52 - d) ≤ n := by
        apply Nat.le_of_mul_le_mul_right _ hpos; rw [e1]; omega
      have hhi : n < 2 ^ (52 - d + 1) := by
        apply Nat.lt_of_mul_lt_mul_right (a := 2 ^ d); rw [e2]; omega
      have hlog : n.log2 = 52 - d := log2_eq hlo hhi
      have hn53 : n < 2 ^ 53 := by
        have : n * 1 ≤ n * 2 ^ d := Nat.mul_le_mul_left _ hpos
        omega
      obtain ⟨f1, f2, f3, _⟩ := ofNatSign_small_fields neg hn0 hn53
      apply F64.ext'
      · exact f1
      · rw [f2, hlog]; show 1023 + (52 - d) = exp; omega
      · rw [f3, hlog]
        have : 52 - (52 - d) = d := by omega
        rw [this]; show n * 2 ^ d - 2 ^ 52 = man; omega

theorem zero_fields {f : F64} (h : f.isZero = true) : f.exp = 0 ∧ f.man = 0 := by
  simpa [F64.isZero] using h

theorem truncNat_of_zero {f : F64} (h : f.isZero = true) : f.truncNat = 0 := by
  obtain ⟨he, hm⟩ := zero_fields h
  simp [F64.truncNat, F64.eff, F64.sig, he, hm]

/-- `floatToInt` succeeds only on the double that `float64(i)` gives back: the int branch loses nothing. -/
theorem floatToInt_ofInt {f : F64} {i : Int} (h : floatToInt f = some i) : F64.ofInt i = f := by
  have hs := floatToInt_some h
  obtain ⟨hfin, hti⟩ := toInt_some hs.1
  have hm : maxInt = 2 ^ 53 := rfl
  unfold floatToInt at h
  split at h
  · rename_i hc
    simp only [Bool.and_eq_true, Bool.or_eq_true, Bool.not_eq_true', decide_eq_true_eq] at hc
    obtain ⟨⟨⟨⟨h1, _⟩, _, h4⟩, _⟩, _⟩ := hc
    by_cases hz : f.isZero = true
    · have hneg : f.neg = false := by
        rcases h1 with h1 | h1
        · rw [hz] at h1; cases h1
        · exact h1
      obtain ⟨he, hmn⟩ := zero_fields hz
      have hi0 : i = 0 := by
        rw [← hti]; simp [F64.truncInt, truncNat_of_zero hz]
      subst hi0
      have : F64.ofInt 0 = F64.posZero := by decide
      rw [this]
      exact (F64.ext' hneg he hmn).symm
    · have hz' : f.isZero = false := by simpa using hz
      have hle : f.truncNat ≤ 2 ^ 53 := by
        have a := hs.2.1; have b := hs.2.2.1
        rw [hm] at a b
        rw [← hti] at a b
        cases hn : f.neg <;> simp only [F64.truncInt, hn, Int.ofNat_eq_natCast] at a b <;> simp at a b <;> omega
      have key := ofNatSign_truncNat hfin h4 hz' hle
      have hn0 : f.truncNat ≠ 0 := by
        intro h0
        rw [h0] at key
        have : (F64.ofNatSign f.neg 0).isZero = true := by simp [F64.ofNatSign, F64.isZero]
        rw [key] at this; rw [this] at hz'; cases hz'
      rw [← hti]
      have hpos : (0 : Int) < (f.truncNat : Int) := by omega
      by_cases hn : f.neg = true
      · have e : f.truncInt = -(f.truncNat : Int) := by simp [F64.truncInt, hn]
        rw [e]
        have : (-(f.truncNat : Int)) < 0 := by omega
        simp only [F64.ofInt, this, if_true, Int.natAbs_neg, Int.natAbs_natCast]
        rw [hn] at key; exact key
      · have hn' : f.neg = false := by simpa using hn
        have e : f.truncInt = (f.truncNat : Int) := by simp [F64.truncInt, hn']
        rw [e]
        have : ¬ ((f.truncNat : Int) < 0) := by omega
        simp only [F64.ofInt, this, if_false, Int.natAbs_natCast]
        rw [hn'] at key; exact key
  · cases h

theorem specSameValue_refl (x : F64) : specSameValue x x = true := by simp [specSameValue]

/-- a zero on which `floatToInt` fails is `-0` -/
theorem zero_floatToInt_none {f : F64} (hz : f.isZero = true) (h : floatToInt f = none) : f = F64.negZero := by
  obtain ⟨he, hm⟩ := zero_fields hz
  by_cases hn : f.neg = true
  · exact F64.ext' hn he hm
  · have hn' : f.neg = false := by simpa using hn
    have hint : f.isIntegral = true := by simp [F64.isIntegral, F64.eff, F64.sig, he, hm]
    have hinf : f.isInf = false := by simp [F64.isInf, he]
    have hnan : f.isNaN = false := by simp [F64.isNaN, he]
    have ht : f.truncInt = 0 := by simp [F64.truncInt, truncNat_of_zero hz]
    have : floatToInt f = some 0 := by
      simp [floatToInt, hz, hn', hinf, hnan, hint, ht, maxInt]
    rw [h] at this; cases this

theorem inf_fields {f : F64} (h : f.isInf = true) : f.exp = 2047 ∧ f.man = 0 := by
  simpa [F64.isInf] using h

/-- **`floatToValue` preserves the denoted double** (all NaNs being one value). -/
theorem floatToValue_denotes' (f : F64) : specSameValue (floatToValue f).toF64 f = true := by
  unfold floatToValue
  split
  · rename_i i hi
    show specSameValue (F64.ofInt i) f = true
    rw [floatToInt_ofInt hi]; exact specSameValue_refl f
  · rename_i hnone
    split
    · rename_i hz
      rw [← zero_floatToInt_none hz hnone]; exact specSameValue_refl f
    · split
      · rename_i _ hn
        have hc : F64.canonNaN.isNaN = true := by decide
        simp [specSameValue, toF64, hn, hc]
      · split
        · rename_i _ _ hc
          simp only [Bool.and_eq_true, Bool.not_eq_true'] at hc
          obtain ⟨he, hm⟩ := inf_fields hc.1
          have : f = F64.posInf := F64.ext' hc.2 he hm
          rw [← this]; exact specSameValue_refl f
        · split
          · rename_i _ _ _ hc
            simp only [Bool.and_eq_true] at hc
            obtain ⟨he, hm⟩ := inf_fields hc.1
            have : f = F64.negInf := F64.ext' hc.2 he hm
            rw [← this]; exact specSameValue_refl f
          · exact specSameValue_refl f

/-- **`intToValue` denotes `float64(i)`**: exactly `i` up to 2^53, the correctly rounded double beyond. -/
theorem intToValue_denotes' (i : Int) : specSameValue (intToValue i).toF64 (F64.ofInt i) = true := by
  unfold intToValue
  split
  · exact specSameValue_refl _
  · exact floatToValue_denotes' _

/-- hence: `floatToValue r` is THE canonical value denoting `r` -/
theorem floatToValue_unique' {a : Num} (ha : Canon a) {r : F64} (h : specSameValue a.toF64 r = true) :
    a = floatToValue r := by
  apply canon_unique' ha (canon_floatToValue r)
  have h2 := floatToValue_denotes' r
  -- SameValue is symmetric and transitive
  simp only [specSameValue, Bool.or_eq_true, Bool.and_eq_true, beq_iff_eq] at *
  rcases h with h | h <;> rcases h2 with h2 | h2
  · exact Or.inl ⟨h.1, h2.1⟩
  · rw [h2]; exact Or.inl h
  · rw [h]; exact Or.inl ⟨h2.2, h2.1⟩
  · rw [h, h2]; exact Or.inr rfl

theorem floatToInt_none_of_toInt_none {f : F64} (h : f.toInt? = none) : floatToInt f = none := by
  cases hf : floatToInt f with
  | none => rfl
  | some i => have := (floatToInt_some hf).1; rw [h] at this; cases this

theorem toLengthUint32_flt (f : F64) : toLengthUint32 (flt f) = specArrayLength f := by
  simp only [toLengthUint32, specArrayLength]
  by_cases hz : f.isZero = true
  · have := toInt_of_isZero hz
    simp [hz, this]
  · have hz' : f.isZero = false := by simpa using hz
    simp only [hz', Bool.false_and, Bool.false_eq_true, if_false]
    cases ht : f.toInt? with
    | none => simp [floatToInt_none_of_toInt_none ht]
    | some i =>
      by_cases hr : -maxInt ≤ i ∧ i ≤ maxInt
      · rw [floatToInt_of_toInt ht hr.1 hr.2 hz']
      · have : floatToInt f = none := by
          cases hf : floatToInt f with
          | none => rfl
          | some j =>
            have := floatToInt_some hf
            rw [ht] at this
            have e : i = j := by have := this.1; cases this; rfl
            subst e; exact absurd ⟨this.2.1, this.2.2.1⟩ hr
        rw [this]
        simp only [maxInt] at hr
        have : ¬ (0 ≤ i ∧ i ≤ 4294967295) := by omega
        simp [this]

theorem toLengthUint32_spec' {a : Num} (ha : Canon a) : toLengthUint32 a = specArrayLength a.toF64 := by
  cases a with
  | int i =>
    obtain ⟨ei, _⟩ := ofInt_exact ha.1 ha.2
    simp [toLengthUint32, specArrayLength, toF64, ei]
  | flt f => exact toLengthUint32_flt f


theorem toUint8Clamp_flt (f : F64) : toUint8Clamp (flt f) = specToUint8Clamp f := by
  simp only [toUint8Clamp, specToUint8Clamp]
  by_cases hn : f.isNaN = true
  · simp [hn]
  · simp only [hn, Bool.false_eq_true, if_false]
    by_cases hz : f.isZero = true
    · -- ±0: both sides 0
      obtain ⟨he, hm⟩ := zero_fields hz
      have hinf : f.isInf = false := by simp [F64.isInf, he]
      have heff : f.eff = 1 := by simp [F64.eff, he]
      have hsig : f.sig = 0 := by simp [F64.sig, he, hm]
      have hp : 0 < 2 ^ 1074 := Nat.two_pow_pos _
      cases hs : f.neg <;> simp [hz, hinf, heff, hsig, hs]
    · have hz' : f.isZero = false := by simpa using hz
      simp only [hz', Bool.not_false, Bool.and_true]
      by_cases hs : f.neg = true
      · simp [hs]
      · simp only [hs, Bool.false_eq_true, if_false]
        by_cases hi : f.isInf = true
        · simp [hi]
        · simp only [hi, Bool.false_eq_true, if_false]
          by_cases hb : 1075 ≤ f.eff
          · simp [hb]
          · simp only [hb, if_false]
            have hd : 0 < 2 ^ (1075 - f.eff) := Nat.two_pow_pos _
            have hr : f.sig % 2 ^ (1075 - f.eff) < 2 ^ (1075 - f.eff) := Nat.mod_lt _ hd
            generalize f.sig / 2 ^ (1075 - f.eff) = q at *
            generalize f.sig % 2 ^ (1075 - f.eff) = r at *
            generalize 2 ^ (1075 - f.eff) = d at *
            grind


/-- the spec's ToUint8Clamp on a double whose value is the integer `i` is the integer clamp -/
theorem specClamp_of_integral {g : F64} {i : Int} (h : g.toInt? = some i) :
    specToUint8Clamp g = (if i < 0 then 0 else if i ≤ 255 then i else 255) := by
  unfold F64.toInt? at h
  split at h
  · rename_i hc
    simp only [Bool.and_eq_true] at hc
    obtain ⟨hfin, hint⟩ := hc
    cases h
    have hnan : g.isNaN = false := by
      simp [F64.isFinite, F64.isNaN] at *; intro he; exact absurd he hfin
    have hinf : g.isInf = false := by
      simp [F64.isFinite, F64.isInf] at *; intro he; exact absurd he hfin
    simp only [specToUint8Clamp, hnan, hinf, Bool.false_eq_true, if_false]
    by_cases hs : g.neg = true
    · have : g.truncInt ≤ 0 := by simp [F64.truncInt, hs]
      simp only [hs, if_true]
      split
      · rfl
      · split <;> omega
    · have hs' : g.neg = false := by simpa using hs
      have ht : g.truncInt = (g.truncNat : Int) := by simp [F64.truncInt, hs']
      rw [ht]
      simp only [hs', Bool.false_eq_true, if_false]
      have hnn : ¬ ((g.truncNat : Int) < 0) := by omega
      simp only [hnn, if_false]
      by_cases hb : 1075 ≤ g.eff
      · simp only [hb, if_true, F64.truncNat]
        by_cases hz : g.isZero = true
        · obtain ⟨he, hm⟩ := zero_fields hz
          simp [hz, F64.sig, he, hm]
        · have hz' : g.isZero = false := by simpa using hz
          have hexp : g.exp ≠ 0 := by
            intro he; simp [F64.eff, he] at hb
          have hsig : 2 ^ 52 ≤ g.sig := by simp [F64.sig, hexp]
          have hpos : 0 < 2 ^ (g.eff - 1075) := Nat.two_pow_pos _
          have : g.sig * 1 ≤ g.sig * 2 ^ (g.eff - 1075) := Nat.mul_le_mul_left _ hpos
          simp only [hz', Bool.false_eq_true, if_false]
          generalize g.sig * 2 ^ (g.eff - 1075) = n at *
          have hbig : ¬ ((n : Int) ≤ 255) := by omega
          simp only [hbig, if_false]
      · simp only [hb, if_false, F64.truncNat]
        simp only [F64.isIntegral, hb, if_false] at hint
        have hr : g.sig % 2 ^ (1075 - g.eff) = 0 := by simpa using hint
        have hd : 0 < 2 ^ (1075 - g.eff) := Nat.two_pow_pos _
        simp only [hr]
        generalize g.sig / 2 ^ (1075 - g.eff) = q
        generalize 2 ^ (1075 - g.eff) = d at *
        grind
  · cases h

theorem toUint8Clamp_spec' {a : Num} (ha : Canon a) : toUint8Clamp a = specToUint8Clamp a.toF64 := by
  cases a with
  | int i =>
    obtain ⟨ei, _⟩ := ofInt_exact ha.1 ha.2
    show _ = specToUint8Clamp (F64.ofInt i)
    rw [specClamp_of_integral ei]; rfl
  | flt f => exact toUint8Clamp_flt f



/-- `Array.prototype.includes` (dd517b9) is SameValueZero on canonical values -/
theorem includesFinds_eq_spec' {a b : Num} (ha : Canon a) (hb : Canon b) :
    includesFinds a b = specSameValueZero a.toF64 b.toF64 := by
  unfold includesFinds
  rw [sameAs_eq_spec' (canon_normKey ha) (canon_normKey hb), toF64_normKey ha, toF64_normKey hb, ← specSVZ_eq]

theorem mul_int_zero_pos' (r : F64) {x y : Int} (hx : -maxInt ≤ x ∧ x ≤ maxInt) (hy : -maxInt ≤ y ∧ y ≤ maxInt)
    (h0 : x * y = 0) (h : ¬ ((x = 0 ∧ y < 0) ∨ (x < 0 ∧ y = 0))) :
    opMul (int x) (int y) r = int 0 := by
  have hz : x = 0 ∨ y = 0 := Int.mul_eq_zero.1 h0
  have hw : wrapS 64 (x * y) = 0 := by rw [h0]; decide
  simp only [opMul, toNumeric, mulNegZero, h, decide_false, Bool.false_eq_true, if_false, hw]
  have : x = 0 ∨ y = 0 ∨ goQuot 0 x = y := by rcases hz with h | h; exact Or.inl h; exact Or.inr (Or.inl h)
  simp only [this, if_true]
  decide


theorem tmod_abs_lt (a : Int) {b : Int} (hb : b ≠ 0) : -b.natAbs < a.tmod b ∧ a.tmod b < b.natAbs := by
  by_cases hpos : 0 < b
  · have h1 := Int.tmod_lt_of_pos a hpos
    have h2 := Int.lt_tmod_of_pos a hpos
    omega
  · have hneg : 0 < -b := by omega
    have h1 := Int.tmod_lt_of_pos a hneg
    have h2 := Int.lt_tmod_of_pos a hneg
    rw [Int.tmod_neg] at h1 h2
    omega

/-- **`_mul`'s overflow test is exact** (vm.go `res := left * right; if … res/left == right`): for operands of
magnitude ≤ 2^53 the wrapped int64 product divided by `left` gives back `right` exactly when the true product fits
an int64 — so the integer path is taken iff it is exact, and never with a wrapped value. -/
theorem mul_overflow_test {x y : Int} (hx : -maxInt ≤ x ∧ x ≤ maxInt) (hx0 : x ≠ 0) :
    goQuot (wrapS 64 (x * y)) x = y ↔ InInt64 (x * y) := by
  have hm : maxInt = 2 ^ 53 := rfl
  rw [hm] at hx
  constructor
  · intro h
    have hdiv := Int.mul_tdiv_add_tmod (wrapS 64 (x * y)) x
    simp only [goQuot] at h
    rw [h] at hdiv
    obtain ⟨t1, t2⟩ := tmod_abs_lt (wrapS 64 (x * y)) hx0
    have hxa : (x.natAbs : Int) ≤ 2 ^ 53 := by omega
    generalize (wrapS 64 (x * y)).tmod x = t at *
    -- wrapS 64 p = p + t, |t| < 2^53, and wrapS 64 p ≡ p (mod 2^64)  ⇒  t = 0
    have hw : wrapS 64 (x * y) = (x * y + 2 ^ 63) % 2 ^ 64 - 2 ^ 63 := by simp [wrapS]
    generalize x * y = p at *
    simp only [InInt64, minInt64, maxInt64]
    omega
  · intro h
    have hw : wrapS 64 (x * y) = x * y := by
      simp only [wrapS, InInt64, minInt64, maxInt64] at *
      generalize x * y = p at *
      omega
    rw [hw]; exact Int.mul_tdiv_cancel_left y hx0

instance (i : Int) : Decidable (InInt64 i) := inferInstanceAs (Decidable (minInt64 ≤ i ∧ i ≤ maxInt64))

/-- the int×int path of `*`, completely: for canonical ints the result is `-0` for a zero product with a negative
factor, the canonical value of the EXACT product when it fits an int64, and `floatToValue r` (the IEEE product) only
when the exact product does not fit — a wrapped product is never used. -/
theorem opMul_int_exact {x y : Int} (hx : -maxInt ≤ x ∧ x ≤ maxInt) (hy : -maxInt ≤ y ∧ y ≤ maxInt) (r : F64) :
    opMul (int x) (int y) r =
      if (x = 0 ∧ y < 0) ∨ (x < 0 ∧ y = 0) then flt F64.negZero
      else if InInt64 (x * y) then intToValue (x * y)
      else floatToValue r := by
  by_cases hz : (x = 0 ∧ y < 0) ∨ (x < 0 ∧ y = 0)
  · simp [opMul, toNumeric, mulNegZero, hz]
  · simp only [opMul, toNumeric, mulNegZero, hz, decide_false, Bool.false_eq_true, if_false]
    by_cases hx0 : x = 0
    · subst hx0
      have h1 : InInt64 (0 * y) := by simp [InInt64, minInt64, maxInt64]
      have h2 : wrapS 64 (0 * y) = 0 * y := by simp [wrapS]
      simp only [h1, h2, true_or, if_true]
    · by_cases hy0 : y = 0
      · subst hy0
        have h1 : InInt64 (x * 0) := by simp [InInt64, minInt64, maxInt64]
        have h2 : wrapS 64 (x * 0) = x * 0 := by simp [wrapS]
        simp only [h1, h2, true_or, or_true, if_true]
      · have key := mul_overflow_test (y := y) hx hx0
        by_cases hfit : InInt64 (x * y)
        · have hq := key.2 hfit
          have hw : wrapS 64 (x * y) = x * y := by
            simp only [wrapS, InInt64, minInt64, maxInt64] at *
            generalize x * y = p at *
            omega
          rw [hw] at hq ⊢
          simp only [hx0, hy0, hq, false_or, or_true, if_true, hfit]
        · have hq : ¬ goQuot (wrapS 64 (x * y)) x = y := fun h => hfit (key.1 h)
          simp only [hx0, hy0, hq, false_or, if_false, hfit]



/-- IEEE-754 division, special operands (§6.1, §6.3, §7.2, §7.3): NaN in → NaN; ∞/∞ and 0/0 invalid → NaN; ∞/y → ∞,
x/∞ → 0, x/0 → ∞ (division by zero), each with the XOR of the signs; `none` = ordinary operands (finite / finite
non-zero), where the result is the correctly rounded quotient `r` supplied as data -/
def specDivSpecial (l rt : F64) : Option F64 :=
  if l.isNaN || rt.isNaN then some F64.canonNaN
  else if (l.isInf && rt.isInf) || (l.isZero && rt.isZero) then some F64.canonNaN
  else if l.isInf || rt.isZero then some ⟨l.neg != rt.neg, 2047, 0, by decide, by decide⟩
  else if rt.isInf then some ⟨l.neg != rt.neg, 0, 0, by decide, by decide⟩
  else none

theorem floatToValue_zero (neg : Bool) :
    floatToValue ⟨neg, 0, 0, by decide, by decide⟩ = if neg then flt F64.negZero else int 0 := by
  have hz : (⟨neg, 0, 0, by decide, by decide⟩ : F64).isZero = true := by simp [F64.isZero]
  have hint : (⟨neg, 0, 0, by decide, by decide⟩ : F64).isIntegral = true := by simp [F64.isIntegral, F64.eff, F64.sig]
  have hinf : (⟨neg, 0, 0, by decide, by decide⟩ : F64).isInf = false := by simp [F64.isInf]
  have hnan : (⟨neg, 0, 0, by decide, by decide⟩ : F64).isNaN = false := by simp [F64.isNaN]
  have ht : (⟨neg, 0, 0, by decide, by decide⟩ : F64).truncInt = 0 := by simp [F64.truncInt, truncNat_of_zero hz]
  cases neg
  · have : floatToInt ⟨false, 0, 0, by decide, by decide⟩ = some 0 := by
      simp [floatToInt, hz, hinf, hnan, hint, ht, maxInt]
    simp [floatToValue, this, intToValueSmall]
  · have : floatToInt ⟨true, 0, 0, by decide, by decide⟩ = none := by
      simp [floatToInt, hz]
    simp [floatToValue, this, hz]

/-- **`/` refines IEEE division**: goja's explicit special cases (vm.go `_div`) give exactly the canonical value of the
IEEE result, and every other operand pair goes through `floatToValue r`. -/
theorem opDiv_refines' (a b : Num) (r : F64) :
    opDiv a b r = floatToValue ((specDivSpecial (toNumeric a).toF64 (toNumeric b).toF64).getD r) := by
  simp only [opDiv, specDivSpecial]
  generalize (toNumeric a).toF64 = l
  generalize (toNumeric b).toF64 = rt
  by_cases h1 : (l.isNaN || rt.isNaN) = true
  · simp only [h1, if_true, Option.getD_some]; decide
  · simp only [h1, Bool.false_eq_true, if_false]
    by_cases h2 : (l.isInf && rt.isInf) = true
    · simp only [h2, if_true, Bool.true_or, Option.getD_some]; decide
    · by_cases h3 : (l.isZero && rt.isZero) = true
      · simp only [h2, h3, Bool.false_eq_true, if_false, if_true, Bool.or_true, Option.getD_some]; decide
      · simp only [h2, h3, Bool.false_eq_true, if_false, Bool.or_self]
        by_cases h4 : l.isInf = true
        · simp only [h4, if_true, Bool.true_or, Option.getD_some]
          cases hl : l.neg <;> cases hr : rt.neg <;> decide
        · simp only [h4, Bool.false_eq_true, if_false, Bool.false_or]
          by_cases h5 : rt.isInf = true
          · have h6 : rt.isZero = false := by
              simp [F64.isInf, F64.isZero] at *; intro he; omega
            simp only [h5, h6, if_true, Bool.false_eq_true, if_false, Option.getD_some, floatToValue_zero]
            cases hl : l.neg <;> cases hr : rt.neg <;> simp
          · simp only [h5, Bool.false_eq_true, if_false]
            by_cases h6 : rt.isZero = true
            · simp only [h6, if_true, Option.getD_some]
              cases hl : l.neg <;> cases hr : rt.neg <;> decide
            · simp only [h6, Bool.false_eq_true, if_false, Option.getD_none]


theorem int_eq_floatToValue (i : Int) : intToValue i = floatToValue (F64.ofInt i) :=
  floatToValue_unique' (canon_intToValue_canon i) (intToValue_denotes' i)

end GojaModel.C05
