/-
  C05 — property theorems (every `theorem` here is one audited proof obligation).

  Reading guide.  `Num` is goja's two-representation Number, `Canon` its canonical form, `toF64` the double a
  value denotes.  Mechanism definitions (`floatToValue`, `intToValue`, `sameAs`, `strictEquals`, `mapFinds`,
  `toIntS`, …, `opAdd` …, `StrNum.mech`) transcribe the Go code of /repo as it is now (after the C05 `fix:` commits);
  `spec…` definitions are the ECMAScript abstract operations on the denoted double.  All statements are for ALL
  doubles / integers / operands; nothing is `_partial` any more.  `…_prefix_witness` lemmas are regression lemmas
  about the mechanism BEFORE a fix (they say why the fixed shape, pinned by `Tie.lean`, matters).
-/
import GojaModel.C05.Lemmas
import GojaModel.C05.StrLemmas
import GojaModel.C05.StrAgree
import GojaModel.C05.StrToFloat
import GojaModel.C05.StrToInteger
import GojaModel.C05.ParseInt
import GojaModel.C05.OpsSpec

namespace GojaModel.C05.Props
open GojaModel GojaModel.Num GojaModel.C05

/-! ## 1. Canonicalisers: canonical AND value preserving -/

/-- `floatToValue` canonicalises EVERY bit pattern (all NaN payloads ↦ the one `_NaN`, integral doubles of
magnitude ≤ 2^53 other than -0 ↦ `valueInt`, +0.0 ↦ int 0, …). -/
theorem canon_floatToValue (f : F64) : Canon (floatToValue f) := C05.canon_floatToValue f

/-- … and keeps the denoted double (SameValue, i.e. up to the NaN payload). -/
theorem floatToValue_denotes (f : F64) : specSameValue (floatToValue f).toF64 f = true := floatToValue_denotes' f

/-- so `floatToValue r` is THE canonical value denoting `r`: any canonical value denoting `r` equals it. -/
theorem floatToValue_unique {a : Num} (ha : Canon a) {r : F64} (h : specSameValue a.toF64 r = true) :
    a = floatToValue r := floatToValue_unique' ha h

/-- `toNumeric` re-canonicalises any `valueFloat`. -/
theorem canon_toNumeric_flt (f : F64) : Canon (toNumeric (flt f)) := C05.canon_floatToValue f

/-- `intToValue` is canonical for every integer … -/
theorem canon_intToValue (i : Int) : Canon (intToValue i) := canon_intToValue_canon i

/-- … and denotes `float64(i)`: `i` itself up to 2^53, the correctly rounded double beyond. -/
theorem intToValue_denotes (i : Int) : specSameValue (intToValue i).toF64 (F64.ofInt i) = true :=
  intToValue_denotes' i

/-- the int branch of `floatToValue` loses nothing: `floatToInt f = some i` only if `float64(i)` is `f` again. -/
theorem floatToInt_exact {f : F64} {i : Int} (h : floatToInt f = some i) : F64.ofInt i = f := floatToInt_ofInt h

/-- Regression lemma (before 287714a `intToValue` ended in `valueFloat(i)`): `intToValue(2^53+1)` was the float
2^53, not canonical, and `SameAs` then disagreed with itself in the two argument orders. -/
theorem intToValue_prefix_witness :
    ¬ Canon (intToValuePrefix (2 ^ 53 + 1)) ∧
    sameAs (int (2 ^ 53)) (intToValuePrefix (2 ^ 53 + 1)) = false ∧
    sameAs (intToValuePrefix (2 ^ 53 + 1)) (int (2 ^ 53)) = true := by decide

/-! ## 2. Canonical ⇒ unique ⇒ identity operations are the spec's -/

/-- Two canonical values denoting the same double (SameValue) are the same representation. -/
theorem canon_unique {a b : Num} (ha : Canon a) (hb : Canon b)
    (h : specSameValue a.toF64 b.toF64 = true) : a = b := canon_unique' ha hb h

/-- `SameAs` (Object.is, Map/Set bucket scan, includes) is SameValue on canonical values — in particular it is
symmetric there although `valueInt.SameAs` and `valueFloat.SameAs` are coded differently. -/
theorem sameAs_eq_spec {a b : Num} (ha : Canon a) (hb : Canon b) :
    sameAs a b = specSameValue a.toF64 b.toF64 := sameAs_eq_spec' ha hb

theorem sameAs_symm_of_canon {a b : Num} (ha : Canon a) (hb : Canon b) : sameAs a b = sameAs b a := by
  rw [sameAs_eq_spec' ha hb, sameAs_eq_spec' hb ha]
  simp only [specSameValue, Bool.and_comm]
  congr 1
  exact Bool.eq_iff_iff.2 ⟨fun h => by simpa using (beq_iff_eq.1 h).symm, fun h => by simpa using (beq_iff_eq.1 h).symm⟩

/-- `===` is IEEE equality of the denoted doubles. -/
theorem strictEquals_eq_spec {a b : Num} (ha : Canon a) (hb : Canon b) :
    strictEquals a b = specStrictEq a.toF64 b.toF64 := strictEquals_eq_spec' ha hb

/-- `==` between two Numbers takes the same decisions as `===` (`valueInt.Equals` / `valueFloat.Equals` restricted to Number
operands are `StrictEquals`, tied by translation in `DecTie2.equals_tie`), hence is IEEE equality of the denoted doubles. -/
theorem looseEquals_eq_spec {a b : Num} (ha : Canon a) (hb : Canon b) :
    strictEquals a b = specStrictEq a.toF64 b.toF64 := strictEquals_eq_spec' ha hb

/-- Map/Set lookup (key normalisation + hash bucket + `SameAs`) is SameValueZero on canonical keys. -/
theorem mapFinds_eq_spec {a b : Num} (ha : Canon a) (hb : Canon b) :
    mapFinds a b = specSameValueZero a.toF64 b.toF64 := mapFinds_eq_spec' ha hb

/-- `Array.prototype.includes` after dd517b9 (search value AND element normalised, then `SameAs`) is SameValueZero. -/
theorem includesFinds_eq_spec {a b : Num} (ha : Canon a) (hb : Canon b) :
    includesFinds a b = specSameValueZero a.toF64 b.toF64 := includesFinds_eq_spec' ha hb

/-- Regression lemma (before dd517b9 only the search value was normalised): an element -0 was never found. -/
theorem includes_prefix_witness :
    sameAs (normKey (flt F64.negZero)) (flt F64.negZero) = false ∧
    specSameValueZero F64.negZero F64.negZero = true := by
  refine ⟨by decide, by decide⟩

/-- hence: SameValueZero-equal canonical keys land in the same hash bucket. -/
theorem hash_eq_of_sameValueZero {a b : Num} (ha : Canon a) (hb : Canon b)
    (h : specSameValueZero a.toF64 b.toF64 = true) : hash (normKey a) = hash (normKey b) := by
  have := mapFinds_eq_spec' ha hb
  rw [h] at this
  simp only [mapFinds, Bool.and_eq_true, beq_iff_eq] at this
  exact this.1

/-- A non-canonical NaN payload would be lost as a Map key: why `Canon` pins the NaN bit pattern. -/
theorem mapFinds_nan_payload_witness :
    mapFinds (flt F64.canonNaN) (flt (F64.mk' true 2047 1)) = false ∧
    specSameValueZero F64.canonNaN (F64.mk' true 2047 1) = true := by decide

/-! ## 3. Operators: canonical results for ALL operands and ANY float-path result `r`;
the result is the canonical value of `r` on the float paths and of the exact integer result on the int paths -/

theorem add_canon (a b : Num) (r : F64) : Canon (opAdd a b r) := opAdd_canon' a b r
theorem sub_canon (a b : Num) (r : F64) : Canon (opSub a b r) := opSub_canon' a b r
theorem mul_canon (a b : Num) (r : F64) : Canon (opMul a b r) := opMul_canon' a b r
theorem div_canon (a b : Num) (r : F64) : Canon (opDiv a b r) := opDiv_canon' a b r
theorem mod_canon (a b : Num) (r : F64) : Canon (opMod a b r) := opMod_canon' a b r
theorem neg_canon {a : Num} (ha : Canon a) (r : F64) : Canon (opNeg a r) := opNeg_canon' ha r
theorem inc_canon (a : Num) (r : F64) : Canon (opInc a r) := opInc_canon' a r
theorem dec_canon (a : Num) (r : F64) : Canon (opDec a r) := opDec_canon' a r

theorem and_canon (a b : Num) : Canon (opAnd a b) := by
  unfold opAnd
  have h := bit32_range Nat.land (toInt32 (toNumeric a)) (toInt32 (toNumeric b))
  generalize bit32 Nat.land (toInt32 (toNumeric a)) (toInt32 (toNumeric b)) = z at *
  exact canon_intToValue_inrange h.1 h.2
theorem or_canon (a b : Num) : Canon (opOr a b) := by
  unfold opOr
  have h := bit32_range Nat.lor (toInt32 (toNumeric a)) (toInt32 (toNumeric b))
  generalize bit32 Nat.lor (toInt32 (toNumeric a)) (toInt32 (toNumeric b)) = z at *
  exact canon_intToValue_inrange h.1 h.2
theorem xor_canon (a b : Num) : Canon (opXor a b) := by
  unfold opXor
  have h := bit32_range Nat.xor (toInt32 (toNumeric a)) (toInt32 (toNumeric b))
  generalize bit32 Nat.xor (toInt32 (toNumeric a)) (toInt32 (toNumeric b)) = z at *
  exact canon_intToValue_inrange h.1 h.2
theorem bnot_canon (a : Num) : Canon (opBnot a) := by
  have h : -(2 ^ 31 : Int) ≤ toIntS 32 (toNumeric a) ∧ toIntS 32 (toNumeric a) < 2 ^ 31 := by
    cases toNumeric a with
    | int i => simp only [toIntS, wrapS]; omega
    | flt f =>
      simp only [toIntS]
      split
      · simp only [wrapS]; omega
      · omega
  unfold opBnot toInt32
  generalize toIntS 32 (toNumeric a) = z at *
  apply canon_intToValue_inrange <;> (simp only [maxInt]; omega)
theorem shl_canon (a b : Num) : Canon (opShl a b) := by
  unfold opShl; exact canon_intToValue_inrange (wrapS32_range _).1 (wrapS32_range _).2
theorem sar_canon (a b : Num) : Canon (opSar a b) := by
  unfold opSar; exact canon_intToValue_inrange (wrapS32_range _).1 (wrapS32_range _).2
theorem shr_canon (a b : Num) : Canon (opShr a b) := by
  unfold opShr; exact canon_intToValue_inrange (wrapU32_range _).1 (wrapU32_range _).2

/-- Float paths: whatever the operands, when the wrapper applied is `floatToValue r` the result is the unique
canonical value denoting the IEEE result `r` (stated for `+` on a float operand; the other float paths are the
same expression `floatToValue r`). -/
theorem add_float_path_denotes (f : F64) (b : Num) (r : F64) :
    specSameValue (opAdd (flt f) b r).toF64 r = true := by
  simp only [opAdd]; exact floatToValue_denotes' r

/-- Int paths of `+ - ++ --`: the result denotes `float64` of the EXACT integer result (which is what IEEE
addition of two exactly represented integers yields: the correctly rounded exact sum). -/
theorem add_int_path_denotes (x y : Int) (r : F64) :
    specSameValue (opAdd (int x) (int y) r).toF64 (F64.ofInt (x + y)) = true := intToValue_denotes' _
theorem sub_int_path_denotes (x y : Int) (r : F64) :
    specSameValue (opSub (int x) (int y) r).toF64 (F64.ofInt (x - y)) = true := intToValue_denotes' _
theorem inc_int_path_denotes (x : Int) (r : F64) :
    specSameValue (opInc (int x) r).toF64 (F64.ofInt (x + 1)) = true := intToValue_denotes' _
theorem dec_int_path_denotes (x : Int) (r : F64) :
    specSameValue (opDec (int x) r).toF64 (F64.ofInt (x - 1)) = true := intToValue_denotes' _

/-- `intToValue i` IS the canonical value of the double nearest to `i`; hence the int paths of `+ - ++ --` return
exactly what the float path would return on the correctly rounded exact result. -/
theorem intToValue_eq_floatToValue (i : Int) : intToValue i = floatToValue (F64.ofInt i) := int_eq_floatToValue i
theorem add_int_path_exact (x y : Int) (r : F64) : opAdd (int x) (int y) r = floatToValue (F64.ofInt (x + y)) :=
  int_eq_floatToValue _
theorem sub_int_path_exact (x y : Int) (r : F64) : opSub (int x) (int y) r = floatToValue (F64.ofInt (x - y)) :=
  int_eq_floatToValue _

/-- **`/` refines IEEE-754 division**: goja's explicit special cases (NaN operands, ∞/∞, 0/0, ∞/y, x/∞, x/0 with the
XOR of the signs) give exactly the canonical value of the IEEE result (`specDivSpecial`), every other operand pair goes
through `floatToValue r` — for ALL operands. -/
theorem div_refines (a b : Num) (r : F64) :
    opDiv a b r = floatToValue ((specDivSpecial (toNumeric a).toF64 (toNumeric b).toF64).getD r) := opDiv_refines' a b r

/-- **Unary minus on a canonical int is the canonical value of the negated double** (`-0` for `0`; `-MinInt64` cannot arise,
a canonical `valueInt` has magnitude ≤ 2^53). -/
theorem neg_int_exact {n : Int} (hc : Canon (int n)) (r : F64) : opNeg (int n) r = floatToValue (negF (F64.ofInt n)) :=
  opNeg_int_exact hc r

/-- `++` / `--` on an int: `floatToValue` of the correctly rounded exact result. -/
theorem inc_int_path_exact (x : Int) (r : F64) : opInc (int x) r = floatToValue (F64.ofInt (x + 1)) := opInc_int_exact x r
theorem dec_int_path_exact (x : Int) (r : F64) : opDec (int x) r = floatToValue (F64.ofInt (x - 1)) := opDec_int_exact x r

/-- `%` on two ints: NaN for a zero divisor, `-0` for a zero remainder of a negative dividend, else the canonical value of the
truncated remainder (sign of the dividend) — IEEE fmod on integer-valued operands. -/
theorem mod_int_exact (x y : Int) (r : F64) :
    opMod (int x) (int y) r =
      if y = 0 then flt F64.canonNaN
      else if goRem x y = 0 ∧ x < 0 then flt F64.negZero
      else floatToValue (F64.ofInt (goRem x y)) := opMod_int_exact x y r

/-- **The bitwise operators are ECMAScript's**, for all canonical operands: ToInt32 / ToUint32 of the denoted doubles, the
32-bit operation (shift counts mod 32), result as a canonical int. -/
theorem and_spec {a b : Num} (ha : Canon a) (hb : Canon b) : opAnd a b = int (specAnd a.toF64 b.toF64) := opAnd_spec ha hb
theorem or_spec {a b : Num} (ha : Canon a) (hb : Canon b) : opOr a b = int (specOr a.toF64 b.toF64) := opOr_spec ha hb
theorem xor_spec {a b : Num} (ha : Canon a) (hb : Canon b) : opXor a b = int (specXor a.toF64 b.toF64) := opXor_spec ha hb
theorem bnot_spec {a : Num} (ha : Canon a) : opBnot a = int (specBnot a.toF64) := opBnot_spec ha
theorem shl_spec {a b : Num} (ha : Canon a) (hb : Canon b) : opShl a b = int (specShl a.toF64 b.toF64) := opShl_spec ha hb
theorem sar_spec {a b : Num} (ha : Canon a) (hb : Canon b) : opSar a b = int (specSar a.toF64 b.toF64) := opSar_spec ha hb
theorem shr_spec {a b : Num} (ha : Canon a) (hb : Canon b) : opShr a b = int (specShr a.toF64 b.toF64) := opShr_spec ha hb

/-- `_mul` after bd78985: a zero product of two ints with a negative factor is `-0`, for ALL such operands … -/
theorem mul_int_zero_sign (r : F64) {x y : Int} (h : (x = 0 ∧ y < 0) ∨ (x < 0 ∧ y = 0)) :
    opMul (int x) (int y) r = flt F64.negZero := by
  simp [opMul, mulNegZero, toNumeric, h]

/-- … and every other zero product is `+0` (so the sign of an int×int zero is the IEEE sign, always). -/
theorem mul_int_zero_pos (r : F64) {x y : Int} (hx : -maxInt ≤ x ∧ x ≤ maxInt) (hy : -maxInt ≤ y ∧ y ≤ maxInt)
    (h0 : x * y = 0) (h : ¬ ((x = 0 ∧ y < 0) ∨ (x < 0 ∧ y = 0))) :
    opMul (int x) (int y) r = int 0 := mul_int_zero_pos' r hx hy h0 h

/-- **`_mul`'s overflow test is exact**: for canonical int operands the wrapped int64 product divided by `left` gives back
`right` exactly when the true product fits an int64. -/
theorem mul_overflow_test_exact {x y : Int} (hx : -maxInt ≤ x ∧ x ≤ maxInt) (hx0 : x ≠ 0) :
    goQuot (wrapS 64 (x * y)) x = y ↔ InInt64 (x * y) := mul_overflow_test hx hx0

/-- The int×int path of `*`, completely: `-0` for a zero product with a negative factor, the canonical value of the
EXACT product when it fits an int64, `floatToValue r` (IEEE product) only when it does not; a wrapped product is never
used. -/
theorem mul_int_exact {x y : Int} (hx : -maxInt ≤ x ∧ x ≤ maxInt) (hy : -maxInt ≤ y ∧ y ≤ maxInt) (r : F64) :
    opMul (int x) (int y) r =
      if (x = 0 ∧ y < 0) ∨ (x < 0 ∧ y = 0) then flt F64.negZero
      else if InInt64 (x * y) then intToValue (x * y)
      else floatToValue r := opMul_int_exact hx hy r

/-- Regression lemma (before bd78985 the guard was `0 * -1 | -1 * 0` only): `0 * -5` took the integer path. -/
theorem mul_prefix_witness : mulNegZeroPrefix 0 (-5) = false ∧ mulNegZero 0 (-5) = true := by decide

/-! ## 4. Integer conversions = ECMAScript abstract operations, for ALL doubles -/

/-- the helper of c5b41a6 is reduction modulo 2^64 into the int64 range, for every finite double -/
theorem float64ToInt64Mod_spec (f : F64) : float64ToInt64Mod f = wrapS 64 f.truncInt := float64ToInt64Mod_eq f

theorem toInt32_spec {a : Num} (ha : Canon a) : toIntS 32 a = specToIntS 32 a.toF64 := toIntS_mod_spec32 ha
theorem toInt16_spec {a : Num} (ha : Canon a) : toIntS 16 a = specToIntS 16 a.toF64 := toIntS_mod_spec16 ha
theorem toInt8_spec {a : Num} (ha : Canon a) : toIntS 8 a = specToIntS 8 a.toF64 := toIntS_mod_spec8 ha
theorem toUint32_spec {a : Num} (ha : Canon a) : toIntU 32 a = specToIntU 32 a.toF64 := toIntU_mod_spec32 ha
theorem toUint16_spec {a : Num} (ha : Canon a) : toIntU 16 a = specToIntU 16 a.toF64 := toIntU_mod_spec16 ha
theorem toUint8_spec {a : Num} (ha : Canon a) : toIntU 8 a = specToIntU 8 a.toF64 := toIntU_mod_spec8 ha

/-- Regression lemma (before c5b41a6 the float branch was `int32(int64(f))`): ToInt32(2^63 + 2^11) = 2048, the old
code gave 0 on amd64.  Bits 0x43E0000000000001. -/
theorem toInt32_prefix_witness :
    toInt32Prefix (flt (F64.mk' false 1086 1)) = 0 ∧ specToIntS 32 (F64.mk' false 1086 1) = 2048 ∧
    toIntS 32 (flt (F64.mk' false 1086 1)) = 2048 := by decide

/-- `floatToIntClip` (`valueFloat.ToInteger`) is ToIntegerOrInfinity clamped to int64, for all doubles. -/
theorem floatToIntClip_spec (f : F64) : floatToIntClip f = specToIntegerClamped f := floatToIntClip_spec' f

/-- `toLength` = ToLength, `toIndex` = ToIndex, `toUint8Clamp` = ToUint8Clamp, `toLengthUint32` = the ArraySetLength
number test, for all canonical values (all doubles). -/
theorem toLength_spec {a : Num} (ha : Canon a) : toLength a = specToLength a.toF64 := toLength_spec' ha
theorem toIndex_spec {a : Num} (ha : Canon a) : toIndex a = specToIndex a.toF64 := toIndex_spec' ha
theorem toUint8Clamp_spec {a : Num} (ha : Canon a) : toUint8Clamp a = specToUint8Clamp a.toF64 :=
  toUint8Clamp_spec' ha
theorem toLengthUint32_spec {a : Num} (ha : Canon a) : toLengthUint32 a = specArrayLength a.toF64 :=
  toLengthUint32_spec' ha

/-- **`Number(bigint)` = 𝔽(ℝ(b))** for EVERY BigInt (after 9d4b1ca): the canonical value of the nearest double, whichever
branch (`intToValue(Int64())` within int64, `big.Float` beyond) computes it. -/
theorem numberOfBigInt_spec (b : Int) : numberOfBigInt b = specNumberOfBigInt b := by
  simp only [numberOfBigInt, specNumberOfBigInt]
  split
  · exact floatToValue_unique' (canon_intToValue_canon b) (intToValue_denotes' b)
  · rfl

/-- Regression lemma (before 9d4b1ca the conversion was `intToValue(b.Int64())`): `Number(2n**64n)` was 0, the low 64 bits. -/
theorem numberOfBigInt_prefix_witness :
    numberOfBigIntPrefix (2 ^ 64) = int 0 ∧ specNumberOfBigInt (2 ^ 64) = flt (F64.mk' false 1087 0) ∧
    numberOfBigInt (2 ^ 64) = flt (F64.mk' false 1087 0) := by decide

/-! ## 5. String → number: grammar-level decisions of the fixed code (see `StrNum.lean`) -/

/-- The set goja trims (`parser.WhitespaceChars`, regenerated into `Tie`) is exactly WhiteSpace ∪ LineTerminator of
ECMA-262 (table check over the whole table, both inclusions). -/
theorem trimSet_eq_spec : ∀ c, StrNum.isTrimChar c = StrNum.specIsStrWhiteSpace c := StrNum.trimSet_eq_spec'

/-- Trimming removes exactly the maximal white-space prefix and suffix: what is left neither starts nor ends with
a trimmed code point, and nothing but trimmed code points was removed. -/
theorem trim_correct (s : List Nat) :
    (∃ pre suf, s = pre ++ StrNum.trim s ++ suf ∧ pre.all StrNum.isTrimChar = true ∧ suf.all StrNum.isTrimChar = true) ∧
    (∀ c rest, StrNum.trim s = c :: rest → StrNum.isTrimChar c = false) ∧
    (∀ c, (StrNum.trim s).getLast? = some c → StrNum.isTrimChar c = false) := StrNum.trim_correct' s

/-- U+0085 (NEL, trimmed by Go's `strings.TrimSpace` before e80e384) is not trimmed. -/
theorem nel_not_trimmed : StrNum.isTrimChar 0x85 = false := by decide

/-- **StringToNumber, full statement: for EVERY string goja's decisions — trim with `parser.WhitespaceChars`, the
Infinity forms, `stringToInt` (radix prefix, sign rules, int64 range, "-0…"), `_toFloat` ("-0", underscore, big radix
literal, hex-float rejection, `strconv.ParseFloat`'s specials and decimal grammar) — yield exactly what ECMA-262
StringToNumber yields (strip StrWhiteSpace, StrNumericLiteral): same NaN-ness, same sign, same exact decimal
value.** -/
theorem strToNum_mech_eq_spec (s : List Nat) : StrNum.mech s = StrNum.spec s := StrNum.mech_eq_spec s

/-- `Value.ToFloat()` of a string (used by `Math.*`, unary minus, `isNaN`, typed-array stores …) tries `_toFloat` first
and `_toInt` second; `ToNumber` tries them in the other order.  Both orders make the same decisions for EVERY string:
whenever the integer parse succeeds `_toFloat` succeeds with the same exact value, and an error of both is NaN. -/
theorem strToFloat_eq_toNumber (t : List Nat) : StrNum.mechToFloatT t = StrNum.mechT t := StrNum.mechToFloatT_eq_mechT t

/-- `Value.ToInteger()` of a string (`asciiString.ToInteger` after c886782), integer-text branch: when `_toInt` succeeds the result
is that exact integer, which is the integer `ToNumber` denotes. -/
theorem strToInteger_int_branch {t : List Nat} {i : Int} (hne : t.isEmpty = false)
    (hinf : (t == StrNum.str "Infinity" || t == StrNum.str "+Infinity") = false) (hminf : (t == StrNum.str "-Infinity") = false)
    (h : StrNum.stringToInt t = some i) :
    StrNum.mechToIntegerT t = i ∧ StrNum.mechT t = StrNum.Res.exactInt (decide (i < 0)) i.natAbs :=
  StrNum.toInteger_int_branch hne hinf hminf h

/-- … and for EVERY other text (empty, Infinity forms, fractions, exponents, integers beyond int64, invalid text): it is
ToIntegerOrInfinity, clamped to int64, of the double `ToNumber` yields (NaN ↦ 0, ±∞ ↦ the int64 limits). -/
theorem strToInteger_float_branch {t : List Nat} (h : StrNum.stringToInt t = none) :
    StrNum.mechToIntegerT t = StrNum.specToIntegerOfRes (StrNum.mechT t) := StrNum.toInteger_float_branch h

/-- the same on an already trimmed string -/
theorem strToNum_mechT_eq_specT (t : List Nat) : StrNum.mechT t = StrNum.specT t := StrNum.mechT_eq_specT t

/-- (`mechT`/`specT` are the decisions on the TRIMMED string; `mech = mechT ∘ trim`.)
A sign after a radix prefix is never accepted (d6061d6): for every base letter, sign and rest. -/
theorem radix_sign_rejected (p sgn : Nat) (rest : List Nat) (hp : StrNum.radixOfLetter p ≠ 0)
    (hs : sgn = 0x2B ∨ sgn = 0x2D) : StrNum.mechT (0x30 :: p :: sgn :: rest) = StrNum.Res.nan :=
  StrNum.radix_sign_rejected' p sgn rest hp hs

/-- A radix literal has NO int64 limit any more (d6061d6): for every base letter and every non-empty list of digits
valid in that base, the result is the exact integer value of the digits (arbitrarily large). -/
theorem radix_literal_exact (p : Nat) (ds : List Nat) (hp : StrNum.radixOfLetter p ≠ 0) (hne : ds ≠ [])
    (hd : ds.all (fun c => decide (StrNum.digitVal c < StrNum.radixOfLetter p)) = true) :
    StrNum.mechT (0x30 :: p :: ds) = StrNum.Res.exactInt false (StrNum.digitsValue (StrNum.radixOfLetter p) ds) :=
  StrNum.radix_literal_exact' p ds hp hne hd

/-- The mechanism's decisions agree with the spec-level recogniser of StringNumericLiteral on every string made of
an optional sign and decimal digits (7637e2e: "-0", "-00", … are -0; any number of digits is the exact integer). -/
theorem signed_digits_agree (neg : Bool) (ds : List Nat) (hne : ds ≠ [])
    (hd : ds.all StrNum.isDecDigit = true) :
    StrNum.mechT ((if neg then [0x2D] else []) ++ ds) = StrNum.specT ((if neg then [0x2D] else []) ++ ds) :=
  StrNum.signed_digits_agree' neg ds hne hd

/-- Whenever the mechanism falls through to `strconv.ParseFloat` (no integer parse, not "-0", no underscore, no radix
prefix, no hex-float prefix, not one of ParseFloat's special words inf/infinity/nan) and the text is not an Infinity
form, its answer is the spec recogniser's — for every such text (fractions, exponents, invalid remainders …). -/
theorem parseFloat_path_agree (t : List Nat) (hne : t.isEmpty = false)
    (hinf : (t == StrNum.str "Infinity" || t == StrNum.str "+Infinity") = false)
    (hminf : (t == StrNum.str "-Infinity") = false)
    (hsti : StrNum.stringToInt t = none) (hm0 : (t == StrNum.str "-0") = false) (hus : t.contains 0x5F = false)
    (hrp : StrNum.radixPrefix t = 0)
    (hhex : ∀ x r, (StrNum.splitSign t).2 = 0x30 :: x :: r → ¬ (x = 0x78 ∨ x = 0x58))
    (hsp : StrNum.goSpecial t = false) (hbinf : ((StrNum.splitSign t).2 == StrNum.str "Infinity") = false) :
    StrNum.mechT t = StrNum.specT t :=
  StrNum.parseFloat_path_agree' t hne hinf hminf hsti hm0 hus hrp hhex hsp hbinf

/-- non-vacuity of the hypotheses above: "1.5e3" satisfies them all -/
example : StrNum.mechT (StrNum.str "1.5e3") = StrNum.Res.num false 15 2 ∧ StrNum.stringToInt (StrNum.str "1.5e3") = none ∧
    StrNum.goSpecial (StrNum.str "1.5e3") = false := by decide

/-- `parseInt`'s accumulation loop (cutoff = MaxInt64/base + 1, `n >= cutoff`, `n1 < n || n1 > maxVal`) with Go's
WRAPPING int64 arithmetic never wraps: for every base 2..36 and every digit list, an int64 result is the exact value
of the digits read and lies in [0, MaxInt64]; otherwise `parseLargeInt` (math/big) takes over. -/
theorem parseInt_loop_no_wrap {base : Nat} (hb : 2 ≤ base) (hb36 : base ≤ 36) (ds : List Nat) (r : Int)
    (h : ParseInt.loop base 0 ds = .small r) : r = ParseInt.exact base 0 ds ∧ 0 ≤ r ∧ r ≤ maxInt64 :=
  ParseInt.loop_exact hb hb36 ds 0 r (by decide) (by decide) h

/-- … and the hand-over happens only for values ≥ cutoff (> 2^53), so `parseLargeInt`'s raw `valueFloat` is canonical. -/
theorem parseInt_large_is_big {base : Nat} (hb : 2 ≤ base) (hb36 : base ≤ 36) (ds : List Nat)
    (h : ParseInt.loop base 0 ds = .large) : ParseInt.cutoff base ≤ ParseInt.exact base 0 ds :=
  ParseInt.large_is_big hb hb36 ds 0 (by decide) (by decide) h

/-- `parseInt`'s digit phase returns the exact integer value of the longest valid digit prefix (or NaN when there is
none), whichever of its two paths (int64 accumulator / math/big) it takes — every base 2..36, every text. -/
theorem parseInt_digits_exact {base : Nat} (hb : 2 ≤ base) (hb36 : base ≤ 36) (ds : List Nat) :
    ParseInt.digitsResult base ds =
      (match ds with
       | [] => none
       | c :: _ => if StrNum.digitVal c ≥ base then none else some (ParseInt.exact base 0 ds)) :=
  ParseInt.digitsResult_exact hb hb36 ds

/-- **`parseInt(string, radix)` = ECMA-262 parseInt**, for every trimmed text and every radix value: sign, `0x` prefix
(only for radix 0 or 16), radix validation (2..36), and the exact value of the longest digit prefix whichever path
(int64 accumulator / math/big) computes it; NaN exactly when the spec says NaN. -/
theorem parseInt_mech_eq_spec (t : List Nat) (R : Int) : ParseInt.mech t R = ParseInt.spec t R :=
  ParseInt.mech_eq_spec t R

/-- Regression lemma (seeded change m3: `n > cutoff` for `n >= cutoff`): the accumulator wraps —
`parseInt("8000000000000000", 16)` would be -2^63; the real loop hands over. -/
theorem parseInt_gt_prefix_witness :
    ParseInt.loopGt 16 0 (ParseInt.cps "8000000000000000") = .small (-(2 ^ 63)) ∧
    ParseInt.loop 16 0 (ParseInt.cps "8000000000000000") = .large ∧
    ParseInt.exact 16 0 (ParseInt.cps "8000000000000000") = 2 ^ 63 := by decide

/-! ## 6. Hypotheses are satisfiable / non-vacuity (tests on literals) -/

example : Canon (int 7) ∧ Canon (flt F64.negZero) ∧ Canon (flt (F64.mk' false 1030 1)) :=
  ⟨by decide, canon_negZero, by decide⟩
example : ¬ Canon (flt (F64.mk' false 1024 0)) ∧ ¬ Canon (flt (F64.mk' true 2047 5)) := by decide
example : floatToValue (F64.mk' false 1025 (2 ^ 51)) = int 6 := by decide      -- 6.0 ↦ valueInt(6)
example : intToValue (2 ^ 53 + 1) = int (2 ^ 53) := by decide                  -- the repaired tail
example : toIntS 32 (flt (F64.mk' false 1086 1)) = 2048 := by decide

end GojaModel.C05.Props
