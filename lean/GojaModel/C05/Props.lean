/-
  C05 — property theorems (every `theorem` here is one audited proof obligation).

  Reading guide.  `Num` is goja's two-representation Number, `Canon` its canonical form, `toF64` the double a
  value denotes.  Mechanism definitions (`floatToValue`, `intToValue`, `sameAs`, `strictEquals`, `mapFinds`,
  `toIntS`, …, `opAdd` …) transcribe the Go code; `spec…` definitions are the ECMAScript abstract operations on
  the denoted double.  `Tail.raw`/`Core.raw` is the code at the pinned commit, `Tail.canon`/`Core.mod` the
  repaired shapes; which one the current source has is regenerated on every run (`Tie.lean`).
-/
import GojaModel.C05.Lemmas

namespace GojaModel.C05.Props
open GojaModel GojaModel.Num GojaModel.C05

/-! ## 1. Canonicalisers -/

/-- `floatToValue` canonicalises EVERY bit pattern (all NaN payloads ↦ the one `_NaN`, integral doubles of
magnitude ≤ 2^53 other than -0 ↦ `valueInt`, +0.0 ↦ int 0, …). -/
theorem canon_floatToValue (f : F64) : Canon (floatToValue f) := C05.canon_floatToValue f

/-- `toNumeric` re-canonicalises any `valueFloat`. -/
theorem canon_toNumeric_flt (f : F64) : Canon (toNumeric (flt f)) := C05.canon_floatToValue f

/-- With the repaired tail `intToValue` is canonical for every integer. -/
theorem canon_intToValue_fixed (i : Int) : Canon (intToValue .canon i) := canon_intToValue_canon i

/-- PARTIAL (code at the pinned commit): only integers of magnitude ≤ 2^53 are covered; missing: 2^53 < |i| < 2^63,
where the result is canonical except at ±(2^53+1) (see the witness below; the rest is checked by the
correspondence against `Canon`'s decision procedure, not proved). -/
theorem canon_intToValue_raw_partial {i : Int} (h1 : -maxInt ≤ i) (h2 : i ≤ maxInt) : Canon (intToValue .raw i) :=
  canon_intToValue_inrange .raw h1 h2

/-- DEFECT witness: `intToValue(2^53+1)` = `valueFloat(9007199254740992)`, not canonical. -/
theorem intToValue_raw_not_canon_witness : ¬ Canon (intToValue .raw (2 ^ 53 + 1)) := by decide

/-! ## 2. Canonical ⇒ unique ⇒ identity operations are the spec's -/

/-- Two canonical values denoting the same double (SameValue) are the same representation. -/
theorem canon_unique {a b : Num} (ha : Canon a) (hb : Canon b)
    (h : specSameValue a.toF64 b.toF64 = true) : a = b := canon_unique' ha hb h

/-- `SameAs` (Object.is, Map/Set bucket scan, includes) is SameValue on canonical values — in particular it is
symmetric there although `valueInt.SameAs` and `valueFloat.SameAs` are coded differently. -/
theorem sameAs_eq_spec {a b : Num} (ha : Canon a) (hb : Canon b) :
    sameAs a b = specSameValue a.toF64 b.toF64 := sameAs_eq_spec' ha hb

theorem sameAs_symm_of_canon {a b : Num} (ha : Canon a) (hb : Canon b) : sameAs a b = sameAs b a := by
  rw [sameAs_eq_spec' ha hb, sameAs_eq_spec' hb ha]
  simp only [specSameValue, Bool.and_comm]
  congr 1
  exact Bool.eq_iff_iff.2 ⟨fun h => by simpa using (beq_iff_eq.1 h).symm, fun h => by simpa using (beq_iff_eq.1 h).symm⟩

/-- The asymmetry is real without canonical form: the witness behind `Object.is(2^53, 2^53+1)`. -/
theorem sameAs_asymmetric_noncanon_witness :
    sameAs (int (2 ^ 53)) (intToValue .raw (2 ^ 53 + 1)) = false ∧
    sameAs (intToValue .raw (2 ^ 53 + 1)) (int (2 ^ 53)) = true := by decide

/-- `===` is IEEE equality of the denoted doubles. -/
theorem strictEquals_eq_spec {a b : Num} (ha : Canon a) (hb : Canon b) :
    strictEquals a b = specStrictEq a.toF64 b.toF64 := strictEquals_eq_spec' ha hb

/-- Map/Set lookup (key normalisation + hash bucket + `SameAs`) is SameValueZero on canonical keys. -/
theorem mapFinds_eq_spec {a b : Num} (ha : Canon a) (hb : Canon b) :
    mapFinds a b = specSameValueZero a.toF64 b.toF64 := mapFinds_eq_spec' ha hb

/-- hence: SameValueZero-equal canonical keys land in the same hash bucket. -/
theorem hash_eq_of_sameValueZero {a b : Num} (ha : Canon a) (hb : Canon b)
    (h : specSameValueZero a.toF64 b.toF64 = true) : hash (normKey a) = hash (normKey b) := by
  have := mapFinds_eq_spec' ha hb
  rw [h] at this
  simp only [mapFinds, Bool.and_eq_true, beq_iff_eq] at this
  exact this.1

/-- A non-canonical NaN payload would be lost as a Map key: why `Canon` pins the NaN bit pattern. -/
theorem mapFinds_nan_payload_witness :
    mapFinds (flt F64.canonNaN) (flt (F64.mk' true 2047 1)) = false ∧
    specSameValueZero F64.canonNaN (F64.mk' true 2047 1) = true := by decide

/-! ## 3. Operators produce canonical results (repaired tail: for ALL operands and ANY float-path result `r`) -/

theorem add_canon (c : Core) (z : MulZ) (a b : Num) (r : F64) : Canon (opAdd ⟨.canon, c, z⟩ a b r) := opAdd_canon' c z a b r
theorem sub_canon (c : Core) (z : MulZ) (a b : Num) (r : F64) : Canon (opSub ⟨.canon, c, z⟩ a b r) := opSub_canon' c z a b r
theorem mul_canon (c : Core) (z : MulZ) (a b : Num) (r : F64) : Canon (opMul ⟨.canon, c, z⟩ a b r) := opMul_canon' c z a b r
theorem div_canon (c : Core) (z : MulZ) (a b : Num) (r : F64) : Canon (opDiv ⟨.canon, c, z⟩ a b r) := opDiv_canon' c z a b r
theorem mod_canon (c : Core) (z : MulZ) (a b : Num) (r : F64) : Canon (opMod ⟨.canon, c, z⟩ a b r) := opMod_canon' c z a b r
theorem neg_canon (c : Core) (z : MulZ) {a : Num} (ha : Canon a) (r : F64) : Canon (opNeg ⟨.canon, c, z⟩ a r) := opNeg_canon' c z ha r
theorem inc_canon (c : Core) (z : MulZ) (a : Num) (r : F64) : Canon (opInc ⟨.canon, c, z⟩ a r) := opInc_canon' c z a r
theorem dec_canon (c : Core) (z : MulZ) (a : Num) (r : F64) : Canon (opDec ⟨.canon, c, z⟩ a r) := opDec_canon' c z a r

/-- Bitwise operators: canonical with EITHER tail (a 32-bit result never reaches `intToValue`'s tail). -/
theorem and_canon (s : Shapes) (a b : Num) : Canon (opAnd s a b) := by
  unfold opAnd
  have h := bit32_range Nat.land (toInt32 s (toNumeric a)) (toInt32 s (toNumeric b))
  generalize bit32 Nat.land (toInt32 s (toNumeric a)) (toInt32 s (toNumeric b)) = z at *
  exact canon_intToValue_inrange _ h.1 h.2
theorem or_canon (s : Shapes) (a b : Num) : Canon (opOr s a b) := by
  unfold opOr
  have h := bit32_range Nat.lor (toInt32 s (toNumeric a)) (toInt32 s (toNumeric b))
  generalize bit32 Nat.lor (toInt32 s (toNumeric a)) (toInt32 s (toNumeric b)) = z at *
  exact canon_intToValue_inrange _ h.1 h.2
theorem xor_canon (s : Shapes) (a b : Num) : Canon (opXor s a b) := by
  unfold opXor
  have h := bit32_range Nat.xor (toInt32 s (toNumeric a)) (toInt32 s (toNumeric b))
  generalize bit32 Nat.xor (toInt32 s (toNumeric a)) (toInt32 s (toNumeric b)) = z at *
  exact canon_intToValue_inrange _ h.1 h.2
theorem bnot_canon (s : Shapes) (a : Num) : Canon (opBnot s a) := by
  have h := toIntS32_range s.core (toNumeric a)
  apply canon_intToValue_inrange
  · simp only [toInt32, maxInt] at *; have := wrapS32_range 0; cases hx : toNumeric a <;> simp only [hx, toIntS] at * <;>
      first | (simp only [wrapS]; omega) | (split <;> simp only [wrapS] <;> omega)
  · simp only [toInt32, maxInt] at *; cases hx : toNumeric a <;> simp only [hx, toIntS] at * <;>
      first | (simp only [wrapS]; omega) | (split <;> simp only [wrapS] <;> omega)
theorem shl_canon (s : Shapes) (a b : Num) : Canon (opShl s a b) := by
  unfold opShl; exact canon_intToValue_inrange _ (wrapS32_range _).1 (wrapS32_range _).2
theorem sar_canon (s : Shapes) (a b : Num) : Canon (opSar s a b) := by
  unfold opSar; exact canon_intToValue_inrange _ (wrapS32_range _).1 (wrapS32_range _).2
theorem shr_canon (s : Shapes) (a b : Num) : Canon (opShr s a b) := by
  unfold opShr; exact canon_intToValue_inrange _ (wrapU32_range _).1 (wrapU32_range _).2

/-- PARTIAL (pinned-commit tail): `a + b` of two canonical ints is canonical unless the exact sum is ±(2^53+1)…
stated here only for sums within ±2^53; see `add_raw_not_canon_witness`. -/
theorem add_canon_raw_partial (c : Core) (z : MulZ) {x y : Int} (h1 : -maxInt ≤ x + y) (h2 : x + y ≤ maxInt) (r : F64) :
    Canon (opAdd ⟨.raw, c, z⟩ (int x) (int y) r) := canon_intToValue_inrange .raw h1 h2

/-- DEFECT witness: `2^53 + 1` on two ints. -/
theorem add_raw_not_canon_witness (c : Core) (z : MulZ) (r : F64) : ¬ Canon (opAdd ⟨.raw, c, z⟩ (int (2 ^ 53)) (int 1) r) := by
  simp only [opAdd]; decide

/-- DEFECT witness (value, not representation): the int fast path of `*` at the pinned commit gives `0 * -5 = +0`;
IEEE gives `-0`. -/
theorem mul_int_zero_sign_witness (t : Tail) (c : Core) (r : F64) :
    opMul ⟨t, c, .minusOne⟩ (int 0) (int (-5)) r = int 0 ∧ specSameValue (int 0).toF64 F64.negZero = false := by
  refine ⟨?_, by decide⟩
  cases t <;> simp [opMul, mulNegZero, toNumeric, intToValue, maxInt, wrapS, goQuot]

/-- Repaired `_mul`: a zero product of two ints with a negative factor is `-0`, for ALL such operands. -/
theorem mul_int_zero_sign_fixed (t : Tail) (c : Core) (r : F64) {x y : Int}
    (h : (x = 0 ∧ y < 0) ∨ (x < 0 ∧ y = 0)) :
    opMul ⟨t, c, .anyNeg⟩ (int x) (int y) r = flt F64.negZero := by
  simp [opMul, mulNegZero, toNumeric, h]

/-! ## 4. Integer conversions = ECMAScript abstract operations, for ALL doubles (repaired core) -/

theorem toInt32_spec {a : Num} (ha : Canon a) : toIntS .mod 32 a = specToIntS 32 a.toF64 := toIntS_mod_spec32 ha
theorem toInt16_spec {a : Num} (ha : Canon a) : toIntS .mod 16 a = specToIntS 16 a.toF64 := toIntS_mod_spec16 ha
theorem toInt8_spec {a : Num} (ha : Canon a) : toIntS .mod 8 a = specToIntS 8 a.toF64 := toIntS_mod_spec8 ha
theorem toUint32_spec {a : Num} (ha : Canon a) : toIntU .mod 32 a = specToIntU 32 a.toF64 := toIntU_mod_spec32 ha
theorem toUint16_spec {a : Num} (ha : Canon a) : toIntU .mod 16 a = specToIntU 16 a.toF64 := toIntU_mod_spec16 ha
theorem toUint8_spec {a : Num} (ha : Canon a) : toIntU .mod 8 a = specToIntU 8 a.toF64 := toIntU_mod_spec8 ha

/-- PARTIAL (pinned-commit `int64(f)`): equal to the spec whenever trunc(f) fits an `int64`
(|f| < 2^63); missing: 2^63 ≤ |f| < 2^84 (beyond that every double is a multiple of 2^32 and 0 is right). -/
theorem toInt32_spec_raw_partial {a : Num} (ha : Canon a) (h : ∀ f, a = flt f → InInt64 f.truncInt) :
    toIntS .raw 32 a = specToIntS 32 a.toF64 := by rw [toIntS_raw_eq_mod h]; exact toIntS_mod_spec32 ha
theorem toUint32_spec_raw_partial {a : Num} (ha : Canon a) (h : ∀ f, a = flt f → InInt64 f.truncInt) :
    toIntU .raw 32 a = specToIntU 32 a.toF64 := by rw [toIntU_raw_eq_mod h]; exact toIntU_mod_spec32 ha
theorem toInt16_spec_raw_partial {a : Num} (ha : Canon a) (h : ∀ f, a = flt f → InInt64 f.truncInt) :
    toIntS .raw 16 a = specToIntS 16 a.toF64 := by rw [toIntS_raw_eq_mod h]; exact toIntS_mod_spec16 ha
theorem toUint16_spec_raw_partial {a : Num} (ha : Canon a) (h : ∀ f, a = flt f → InInt64 f.truncInt) :
    toIntU .raw 16 a = specToIntU 16 a.toF64 := by rw [toIntU_raw_eq_mod h]; exact toIntU_mod_spec16 ha
theorem toInt8_spec_raw_partial {a : Num} (ha : Canon a) (h : ∀ f, a = flt f → InInt64 f.truncInt) :
    toIntS .raw 8 a = specToIntS 8 a.toF64 := by rw [toIntS_raw_eq_mod h]; exact toIntS_mod_spec8 ha
theorem toUint8_spec_raw_partial {a : Num} (ha : Canon a) (h : ∀ f, a = flt f → InInt64 f.truncInt) :
    toIntU .raw 8 a = specToIntU 8 a.toF64 := by rw [toIntU_raw_eq_mod h]; exact toIntU_mod_spec8 ha

/-- DEFECT witness: ToInt32(2^63 + 2^11) = 2048, the pinned code (amd64) gives 0.  Bits 0x43E0000000000001. -/
theorem toInt32_raw_witness :
    toIntS .raw 32 (flt (F64.mk' false 1086 1)) = 0 ∧ specToIntS 32 (F64.mk' false 1086 1) = 2048 := by decide

/-- `floatToIntClip` (`valueFloat.ToInteger`) is ToIntegerOrInfinity clamped to int64, for all doubles. -/
theorem floatToIntClip_spec (f : F64) : floatToIntClip f = specToIntegerClamped f := floatToIntClip_spec' f

/-- `toLength` = ToLength, `toIndex` = ToIndex for all canonical values (all doubles). -/
theorem toLength_spec {a : Num} (ha : Canon a) : toLength a = specToLength a.toF64 := toLength_spec' ha
theorem toIndex_spec {a : Num} (ha : Canon a) : toIndex a = specToIndex a.toF64 := toIndex_spec' ha

/-! ## 5. Hypotheses are satisfiable / non-vacuity (tests on literals) -/

example : Canon (int 7) ∧ Canon (flt F64.negZero) ∧ Canon (flt (F64.mk' false 1030 1)) :=
  ⟨by decide, canon_negZero, by decide⟩
example : ¬ Canon (flt (F64.mk' false 1024 0)) ∧ ¬ Canon (flt (F64.mk' true 2047 5)) := by decide
example : floatToValue (F64.mk' false 1025 (2 ^ 51)) = int 6 := by decide      -- 6.0 ↦ valueInt(6)
example : toIntS .mod 32 (flt (F64.mk' false 1086 1)) = 2048 := by decide

end GojaModel.C05.Props
