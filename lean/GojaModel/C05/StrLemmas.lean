/-  C05 StringToNumber lemmas, part B: optional sign + decimal digits (core Lean only). -/
import GojaModel.C05.StrLemmasA
namespace GojaModel.C05.StrNum

theorem dec_facts {c : Nat} (h : isDecDigit c = true) :
    c ≠ 0x2D ∧ c ≠ 0x2B ∧ c ≠ 0x5F ∧ c ≠ 0x49 ∧ c ≠ 0x2E ∧ c ≠ 0x69 ∧ c ≠ 0x6E ∧ c ≠ 0x78 ∧ c ≠ 0x58 ∧ c ≠ 0x65 ∧ c ≠ 0x45 ∧
    radixOfLetter c = 0 ∧ digitVal c < 10 ∧ lower c = c := by
  simp only [isDecDigit, Bool.and_eq_true, decide_eq_true_eq] at h
  refine ⟨by omega, by omega, by omega, by omega, by omega, by omega, by omega, by omega, by omega, by omega, by omega, ?_, ?_, ?_⟩
  · simp only [radixOfLetter]
    rw [if_neg (by omega), if_neg (by omega), if_neg (by omega)]
  · simp only [digitVal]; rw [if_pos (by omega)]; omega
  · simp only [lower]; rw [if_neg (by omega)]

theorem takeDigits_all {ds : List Nat} (h : ds.all isDecDigit = true) : takeDigits ds = (ds, []) := by
  induction ds with
  | nil => rfl
  | cons a as ih =>
    simp only [List.all_cons, Bool.and_eq_true] at h
    simp only [takeDigits, h.1, if_true, ih h.2]

theorem allDigits10 {ds : List Nat} (h : ds.all isDecDigit = true) : allDigits 10 ds = true := by
  induction ds with
  | nil => rfl
  | cons a as ih =>
    simp only [List.all_cons, Bool.and_eq_true] at h
    simp only [allDigits, List.all_cons, Bool.and_eq_true, decide_eq_true_eq]
    exact ⟨(dec_facts h.1).2.2.2.2.2.2.2.2.2.2.2.2.1, by simpa [allDigits] using ih h.2⟩

theorem no_us {ds : List Nat} (h : ds.all isDecDigit = true) : ds.contains 0x5F = false :=
  not_contains_us (base := 10) (by decide) (allDigits10 h)

theorem map_lower_digits {ds : List Nat} (h : ds.all isDecDigit = true) : ds.map lower = ds := by
  induction ds with
  | nil => rfl
  | cons a as ih =>
    simp only [List.all_cons, Bool.and_eq_true] at h
    simp only [List.map_cons, (dec_facts h.1).2.2.2.2.2.2.2.2.2.2.2.2.2, ih h.2]

/-- the string: optional minus, then the digits -/
def signed (neg : Bool) (ds : List Nat) : List Nat := (if neg then [0x2D] else []) ++ ds

theorem splitSign_signed (neg : Bool) (d : Nat) (ds : List Nat) (hd : isDecDigit d = true) :
    splitSign (signed neg (d :: ds)) = (neg, d :: ds) := by
  obtain ⟨n1, n2, _⟩ := dec_facts hd
  cases neg
  · exact splitSign_nosign d ds n1 n2
  · rfl

theorem parseDecimal_signed (neg : Bool) (d : Nat) (ds : List Nat) (h : (d :: ds).all isDecDigit = true) :
    parseDecimal (signed neg (d :: ds)) = some ⟨neg, d :: ds, 0, 0⟩ := by
  have hd : isDecDigit d = true := by simp only [List.all_cons, Bool.and_eq_true] at h; exact h.1
  simp only [parseDecimal, splitSign_signed neg d ds hd, takeDigits_all h, fracPart, parseExp]
  simp

theorem res_signed (neg : Bool) (ds : List Nat) :
    Dec.toRes ⟨neg, ds, 0, 0⟩ = Res.num neg (digitsValue 10 ds) 0 := by
  simp [Dec.toRes]


theorem signed_cons (neg : Bool) (d : Nat) (ds : List Nat) :
    signed neg (d :: ds) = if neg then 0x2D :: d :: ds else d :: ds := by cases neg <;> rfl

theorem radixPrefix_signed (neg : Bool) (d : Nat) (ds : List Nat) (h : (d :: ds).all isDecDigit = true) :
    radixPrefix (signed neg (d :: ds)) = 0 := by
  cases neg
  · show radixPrefix (d :: ds) = 0
    unfold radixPrefix
    split
    · rename_i p _ _ heq
      injection heq with a b; subst b
      simp only [List.all_cons, Bool.and_eq_true] at h
      exact (dec_facts h.2.1).2.2.2.2.2.2.2.2.2.2.2.1
    · rfl
  · rfl

theorem specT_signed (neg : Bool) (d : Nat) (ds : List Nat) (h : (d :: ds).all isDecDigit = true) :
    specT (signed neg (d :: ds)) = Res.num neg (digitsValue 10 (d :: ds)) 0 := by
  have hd : isDecDigit d = true := by simp only [List.all_cons, Bool.and_eq_true] at h; exact h.1
  have hdec : specT.dec (signed neg (d :: ds)) = Res.num neg (digitsValue 10 (d :: ds)) 0 := by
    simp only [specT.dec, splitSign_signed neg d ds hd, parseDecimal_signed neg d ds h, res_signed, str_Infinity]
    have : ((d :: ds) == [0x49,0x6E,0x66,0x69,0x6E,0x69,0x74,0x79]) = false := by
      simp [(dec_facts hd).2.2.2.1]
    simp [this]
  have hne : (signed neg (d :: ds)).isEmpty = false := by cases neg <;> rfl
  unfold specT
  simp only [hne, Bool.false_eq_true, if_false]
  split
  · rename_i p d2 ds2 heq
    have hp : radixOfLetter p = 0 := by
      have := radixPrefix_signed neg d ds h
      rw [heq] at this; exact this
    simp only [hp, ne_eq, not_true_eq_false, if_false]
    exact hdec
  · exact hdec


theorem goSpecial_signed (neg : Bool) (d : Nat) (ds : List Nat) (h : (d :: ds).all isDecDigit = true) :
    goSpecial (signed neg (d :: ds)) = false := by
  have hd : isDecDigit d = true := by simp only [List.all_cons, Bool.and_eq_true] at h; exact h.1
  obtain ⟨_, _, _, _, _, n69, n6e, _⟩ := dec_facts hd
  have hl : (signed neg (d :: ds)).map lower = signed neg (d :: ds) := by
    have := map_lower_digits h
    cases neg
    · exact this
    · show lower 0x2D :: (d :: ds).map lower = _
      rw [this]; rfl
  simp only [goSpecial, hl, splitSign_signed neg d ds hd, str_inf, str_infinity, str_nan]
  have a : ((d :: ds) == [0x69,0x6E,0x66]) = false := by simp [n69]
  have b : ((d :: ds) == [0x69,0x6E,0x66,0x69,0x6E,0x69,0x74,0x79]) = false := by simp [n69]
  have c : (signed neg (d :: ds) == [0x6E,0x61,0x6E]) = false := by
    cases neg
    · show ((d :: ds) == _) = false; simp [n6e]
    · show ((0x2D :: d :: ds) == _) = false; simp
  simp [a, b, c]

theorem tail_signed (neg : Bool) (d : Nat) (ds : List Nat) (h : (d :: ds).all isDecDigit = true) :
    toFloat.tail (signed neg (d :: ds)) = Res.num neg (digitsValue 10 (d :: ds)) 0 := by
  simp only [toFloat.tail, goSpecial_signed neg d ds h, parseDecimal_signed neg d ds h, res_signed]
  simp

theorem toFloat_signed (neg : Bool) (d : Nat) (ds : List Nat) (h : (d :: ds).all isDecDigit = true) :
    toFloat (signed neg (d :: ds)) = Res.num neg (digitsValue 10 (d :: ds)) 0 := by
  have hd : isDecDigit d = true := by simp only [List.all_cons, Bool.and_eq_true] at h; exact h.1
  unfold toFloat
  by_cases hm0 : (signed neg (d :: ds) == str "-0") = true
  · -- the text is exactly "-0"
    rw [str_m0] at hm0
    have : signed neg (d :: ds) = [0x2D, 0x30] := by simpa using hm0
    cases neg
    · have : d :: ds = [0x2D, 0x30] := this
      injection this with a _; exact absurd a (dec_facts hd).1
    · have : 0x2D :: d :: ds = [0x2D, 0x30] := this
      injection this with _ b; injection b with b1 b2; subst b1; subst b2
      simp only [str_m0]; decide
  · simp only [hm0, Bool.false_eq_true, if_false]
    have hus : (signed neg (d :: ds)).contains 0x5F = false := by
      have := no_us h
      cases neg
      · exact this
      · show (0x2D :: d :: ds).contains 0x5F = false
        simp only [List.contains_cons, Bool.or_eq_false_iff]; exact ⟨by decide, by simpa [List.contains_cons] using this⟩
    simp only [hus, Bool.false_eq_true, if_false, radixPrefix_signed neg d ds h, ne_eq, not_true_eq_false,
      splitSign_signed neg d ds hd]
    split
    · rename_i x _ heq
      injection heq with a b
      cases ds with
      | nil => cases b
      | cons e es =>
        injection b with b1 b2; subst b1
        simp only [List.all_cons, Bool.and_eq_true] at h
        obtain ⟨_, _, _, _, _, _, _, n78, n58, _⟩ := dec_facts h.2.1
        have : ¬ (e = 0x78 ∨ e = 0x58) := by omega
        simp only [this, if_false]
        exact tail_signed neg d (e :: es) (by simp [List.all_cons, h.1, h.2.1, h.2.2])
    · exact tail_signed neg d ds h


theorem mechT_signed (neg : Bool) (d : Nat) (ds : List Nat) (h : (d :: ds).all isDecDigit = true) :
    mechT (signed neg (d :: ds)) = Res.num neg (digitsValue 10 (d :: ds)) 0 := by
  have hd : isDecDigit d = true := by simp only [List.all_cons, Bool.and_eq_true] at h; exact h.1
  obtain ⟨n2d, n2b, _, n49, _⟩ := dec_facts hd
  have hne : (signed neg (d :: ds)).isEmpty = false := by cases neg <;> rfl
  have hinf : (signed neg (d :: ds) == str "Infinity" || signed neg (d :: ds) == str "+Infinity") = false ∧
      (signed neg (d :: ds) == str "-Infinity") = false := by
    rw [str_Infinity, str_pInfinity, str_mInfinity]
    cases neg
    · show ((d :: ds) == _ || (d :: ds) == _) = false ∧ ((d :: ds) == _) = false
      simp [n49, n2b, n2d]
    · show ((0x2D :: d :: ds) == _ || (0x2D :: d :: ds) == _) = false ∧ ((0x2D :: d :: ds) == _) = false
      simp [n49]
  simp only [mechT, hne, hinf.1, hinf.2, Bool.false_eq_true, if_false]
  -- stringToInt
  have hgp : goParseInt (signed neg (d :: ds)) 10 =
      (if neg then (if digitsValue 10 (d :: ds) ≤ 2 ^ 63 then some (-((digitsValue 10 (d :: ds) : Nat) : Int)) else none)
       else (if digitsValue 10 (d :: ds) < 2 ^ 63 then some ((digitsValue 10 (d :: ds) : Nat) : Int) else none)) := by
    simp only [goParseInt, splitSign_signed neg d ds hd, allDigits10 h]
    simp
  have hhead : (signed neg (d :: ds)).head? = some 0x2D ↔ neg = true := by
    cases neg
    · show (some d = some 0x2D) ↔ _
      simp [n2d]
    · simp [signed]
  simp only [stringToInt, radixPrefix_signed neg d ds h, ne_eq, not_true_eq_false, if_false, hgp]
  generalize hn : digitsValue 10 (d :: ds) = n at *
  cases neg
  · simp only [Bool.false_eq_true, if_false]
    by_cases hr : n < 2 ^ 63
    · simp only [hr, if_true]
      have hh : ¬ ((n : Int) = 0 ∧ (signed false (d :: ds)).head? = some 0x2D) := by
        intro hc; have := hhead.1 hc.2; cases this
      simp only [hh, if_false, Res.exactInt]
      have : ¬ ((n : Int) < 0) := by omega
      simp [this]
    · simp only [hr, if_false]
      rw [toFloat_signed false d ds h, hn]
  · simp only [if_true]
    by_cases hr : n ≤ 2 ^ 63
    · simp only [hr, if_true]
      by_cases h0 : n = 0
      · have hh : ((-(n : Int)) = 0 ∧ (signed true (d :: ds)).head? = some 0x2D) := ⟨by omega, hhead.2 rfl⟩
        simp only [hh, and_self, if_true]
        rw [toFloat_signed true d ds h, hn]
      · have hh : ¬ ((-(n : Int)) = 0 ∧ (signed true (d :: ds)).head? = some 0x2D) := by
          intro hc; omega
        simp only [hh, if_false, Res.exactInt]
        have : (-(n : Int)) < 0 := by omega
        simp [this]; omega
    · simp only [hr, if_false]
      rw [toFloat_signed true d ds h, hn]

/-- optional minus + decimal digits: mechanism and spec recogniser agree (exact value, sign of zero included) -/
theorem signed_digits_agree' (neg : Bool) (ds : List Nat) (hne : ds ≠ []) (hd : ds.all isDecDigit = true) :
    mechT ((if neg then [0x2D] else []) ++ ds) = specT ((if neg then [0x2D] else []) ++ ds) := by
  cases ds with
  | nil => exact absurd rfl hne
  | cons d ds' =>
    have a := mechT_signed neg d ds' hd
    have b := specT_signed neg d ds' hd
    unfold signed at a b
    rw [a, b]


/-- Whenever the mechanism falls through to `strconv.ParseFloat` (no integer parse, not "-0", no underscore, no radix
prefix, no hex-float prefix, not one of ParseFloat's special words) and the text is not an Infinity form, its answer
is the spec recogniser's: both read the text with the same decimal grammar. -/
theorem parseFloat_path_agree' (t : List Nat) (hne : t.isEmpty = false)
    (hinf : (t == str "Infinity" || t == str "+Infinity") = false) (hminf : (t == str "-Infinity") = false)
    (hsti : stringToInt t = none) (hm0 : (t == str "-0") = false) (hus : t.contains 0x5F = false)
    (hrp : radixPrefix t = 0)
    (hhex : ∀ x r, (splitSign t).2 = 0x30 :: x :: r → ¬ (x = 0x78 ∨ x = 0x58))
    (hsp : goSpecial t = false) (hbinf : ((splitSign t).2 == str "Infinity") = false) :
    mechT t = specT t := by
  have hm : mechT t = toFloat.tail t := by
    simp only [mechT, hne, hinf, hminf, hsti, Bool.false_eq_true, if_false]
    simp only [toFloat, hm0, hus, hrp, Bool.false_eq_true, if_false, ne_eq, not_true_eq_false]
    split
    · rename_i x r heq
      simp only [hhex x r heq, if_false]
    · rfl
  have hs : specT t = specT.dec t := by
    unfold specT
    simp only [hne, Bool.false_eq_true, if_false]
    split
    · rename_i p d ds
      have : radixOfLetter p = 0 := hrp
      simp only [this, ne_eq, not_true_eq_false, if_false]
    · rfl
  rw [hm, hs]
  simp only [toFloat.tail, specT.dec, hsp, hbinf, Bool.false_eq_true, if_false]


end GojaModel.C05.StrNum
