/-
  C05 tie: facts regenerated from /repo's Go source on every run, compared with what the model transcribes.
  Every expectation is EXACTLY the current (repaired) code; a revert of any C05 fix, a dropped canonicaliser or a
  changed guard breaks one of these theorems (and the correspondence then supplies the concrete input).

  * `numSites_ok`  : every place where a `valueFloat` is built WITHOUT a canonicaliser is one of the audited sites
                     (constants whose value is non-integral / ±Inf / -0 / the canonical NaN / > 2^53; the tail of
                     `floatToValue`, covered by `canon_floatToValue`; `parseLargeInt`, whose argument is ≥ 2^63).
  * `wrappers_ok`  : every result wrapper used by an arithmetic / bitwise / update operator is a canonical producer.
  * `…_tie`        : return expressions / guards / trimming calls of the transcribed functions, as text.
  * `whitespace_tie`: `parser.WhitespaceChars` is the table `StrNum.trimChars` (proved = WhiteSpace ∪ LineTerminator).
  * `maxInt_tie`   : the threshold the model uses is the one in vm.go.
-/
import GojaModel.C05.Model
import GojaModel.C05.StrNum
import GojaModel.Generated.C05_NumSites
import GojaModel.Generated.C05_Shapes

namespace GojaModel.C05.Tie
open GojaModel
namespace G
export GojaModel.Generated.C05_Shapes (facts whitespaceChars maxIntShift)
end G

def auditedSites : List (String × String × String) := [
  ("builtin_global.go", "parseLargeInt", "n"),
  ("builtin_math.go", "createMathTemplate", "math.E"),
  ("builtin_math.go", "createMathTemplate", "math.Ln10"),
  ("builtin_math.go", "createMathTemplate", "math.Ln2"),
  ("builtin_math.go", "createMathTemplate", "math.Log10E"),
  ("builtin_math.go", "createMathTemplate", "math.Log2E"),
  ("builtin_math.go", "createMathTemplate", "math.Pi"),
  ("builtin_math.go", "createMathTemplate", "sqrt1_2"),
  ("builtin_math.go", "createMathTemplate", "math.Sqrt2"),
  ("builtin_number.go", "createNumberTemplate", "math.SmallestNonzeroFloat64"),
  ("builtin_number.go", "createNumberTemplate", "math.MaxFloat64"),
  ("value.go", "<package>", "math.NaN()"),
  ("value.go", "<package>", "math.Inf(+1)"),
  ("value.go", "<package>", "math.Inf(-1)"),
  ("value.go", "<package>", "negativeZero"),
  ("value.go", "<package>", "2.2204460492503130808472633361816e-16"),
  ("vm.go", "floatToValue", "f")
]

def canonicalProducers : List String := [
  "intToValue", "floatToValue", "toNumeric", "pow", ".ToNumber", ".Concat",
  "_NaN", "_negativeZero", "_positiveZero", "_positiveInf", "_negativeInf",
  "neg:n"   -- `result = -n` on a canonical valueInt n ≠ 0 (theorem `neg_canon`)
]

theorem numSites_ok :
    Generated.C05_NumSites.sites.all (fun s => auditedSites.contains s) = true := by decide

theorem wrappers_ok :
    Generated.C05_NumSites.wrappers.all (fun p => p.2.all (fun w => canonicalProducers.contains w)) = true := by decide

theorem maxInt_tie : (2 : Int) ^ G.maxIntShift = Num.maxInt := by decide

theorem whitespace_tie : G.whitespaceChars = StrNum.trimChars := by decide

/-- vm.go canonicalisers: `intToValue` ends in `floatToValue(float64(i))` (287714a), `floatToInt`'s guard, `floatToValue`'s cases — what `Num.intToValue/floatToInt/floatToValue` transcribe -/
theorem canonicalisers_tie :
    G.facts.lookup "returns:intToValue" = some ["intCache[idx]", "valueInt(i)", "floatToValue(float64(i))"] ∧
    G.facts.lookup "conds:intToValue" = some ["idx >= 0 && idx < 256", "i >= -maxInt && i <= maxInt"] ∧
    G.facts.lookup "conds:floatToInt" = some ["(f != 0 || !math.Signbit(f)) && !math.IsInf(f, 0) && f == math.Trunc(f) && f >= -maxInt && f <= maxInt"] ∧
    G.facts.lookup "returns:floatToValue" = some ["intToValue(i)", "_negativeZero", "_NaN", "_positiveInf", "_negativeInf", "valueFloat(f)"] := by decide

/-- runtime.go / value.go conversions: every ToIntN goes through `float64ToInt64Mod` (c5b41a6); `floatToIntClip`, `toLength`, `toIndex` decisions -/
theorem conversions_tie :
    G.facts.lookup "returns:toInt8" = some ["int8(i)", "int8(float64ToInt64Mod(f))", "0"] ∧
    G.facts.lookup "returns:toUint8" = some ["uint8(i)", "uint8(float64ToInt64Mod(f))", "0"] ∧
    G.facts.lookup "returns:toInt16" = some ["int16(i)", "int16(float64ToInt64Mod(f))", "0"] ∧
    G.facts.lookup "returns:toUint16" = some ["uint16(i)", "uint16(float64ToInt64Mod(f))", "0"] ∧
    G.facts.lookup "returns:toInt32" = some ["int32(i)", "int32(float64ToInt64Mod(f))", "0"] ∧
    G.facts.lookup "returns:toUint32" = some ["uint32(i)", "uint32(float64ToInt64Mod(f))", "0"] ∧
    G.facts.lookup "conds:float64ToInt64Mod" = some ["f >= -two63 && f < two63", "f >= two63", "f < -two63"] ∧
    G.facts.lookup "returns:float64ToInt64Mod" = some ["int64(f)", "int64(f)"] ∧
    G.facts.lookup "conds:floatToIntClip" = some [] ∧
    G.facts.lookup "returns:floatToIntClip" = some ["0", "math.MaxInt64", "math.MinInt64", "int64(n)"] ∧
    G.facts.lookup "conds:toLength" = some ["v == nil", "i < 0", "i >= maxInt"] ∧
    G.facts.lookup "returns:toLength" = some ["0", "0", "maxInt - 1", "i"] ∧
    G.facts.lookup "conds:Runtime.toIndex" = some ["num >= 0 && num < maxInt", "bits.UintSize == 32 && num >= math.MaxInt32"] := by decide

/-- vm.go `_mul`: the `_negativeZero` guard (bd78985) and the overflow test -/
theorem mul_tie :
    G.facts.lookup "conds:_mul.exec" = some ["left == 0 && right < 0 || left < 0 && right == 0", "left == 0 || right == 0 || res/left == right", "ok", "ok"] := by decide

/-- string → number: every conversion trims with `parser.WhitespaceChars` (never `strings.TrimSpace`, e80e384), `radixPrefix`/`stringToInt` decisions (d6061d6, 7637e2e), `ToInteger` (c886782), UTF-16 strings delegate (6010fc8) -/
theorem strnum_tie :
    G.facts.lookup "conds:radixPrefix" = some ["len(ss) > 2 && ss[0] == '0'"] ∧
    G.facts.lookup "returns:radixPrefix" = some ["16", "8", "2", "0"] ∧
    G.facts.lookup "conds:stringToInt" = some ["ss == \"\"", "base != 0", "ss[2] == '+' || ss[2] == '-'", "err == nil && i == 0 && ss[0] == '-'"] ∧
    G.facts.lookup "returns:stringToInt" = some ["0, nil", "0, strconv.ErrSyntax", "strconv.ParseInt(ss[2:], base, 64)", "0, strconv.ErrSyntax", "i, err"] ∧
    G.facts.lookup "trims:trimWhitespace" = some ["strings.Trim(s, parser.WhitespaceChars)"] ∧
    G.facts.lookup "trims:asciiString.ToNumber" = some ["trimWhitespace(string(s))"] ∧
    G.facts.lookup "trims:asciiString.ToFloat" = some ["trimWhitespace(string(s))"] ∧
    G.facts.lookup "trims:asciiString.ToInteger" = some ["trimWhitespace(string(s))"] ∧
    G.facts.lookup "trims:asciiString.toTrimmedUTF8" = some ["trimWhitespace(string(s))"] ∧
    G.facts.lookup "trims:unicodeString.toTrimmedUTF8" = some ["strings.Trim(s.String(), parser.WhitespaceChars)"] ∧
    G.facts.lookup "trims:importedString.toTrimmedUTF8" = some ["strings.Trim(i.s, parser.WhitespaceChars)"] ∧
    G.facts.lookup "returns:asciiString.ToInteger" = some ["0", "math.MaxInt64", "math.MinInt64", "floatToIntClip(f)", "0", "i"] ∧
    G.facts.lookup "returns:unicodeString.ToNumber" = some ["asciiString(s.toTrimmedUTF8()).ToNumber()"] ∧
    G.facts.lookup "returns:unicodeString.ToFloat" = some ["asciiString(s.toTrimmedUTF8()).ToFloat()"] ∧
    G.facts.lookup "returns:unicodeString.ToInteger" = some ["asciiString(s.toTrimmedUTF8()).ToInteger()"] := by decide

/-- value.go / map.go identity: what `Num.sameAs/hash/normKey/mapFinds` transcribe -/
theorem identity_tie :
    G.facts.lookup "conds:valueFloat.SameAs" = some ["math.IsNaN(this) && math.IsNaN(o1)", "ret && this == 0", "ret && this == 0"] ∧
    G.facts.lookup "returns:valueInt.SameAs" = some ["i == other"] ∧
    G.facts.lookup "conds:valueFloat.hash" = some ["f == _negativeZero"] ∧
    G.facts.lookup "conds:orderedMap.lookup" = some ["key == _negativeZero"] := by decide

/-- builtin_array.go `includes`: search value and BOTH element loops normalise -0 (dd517b9) -/
theorem includes_tie :
    G.facts.lookup "conds:Runtime.arrayproto_includes" = some ["length == 0", "n >= length", "n < 0", "searchElement == _negativeZero", "arr != nil && int64(len(arr.values)) == length", "val == _negativeZero", "searchElement.SameAs(val)", "val == _negativeZero", "searchElement.SameAs(val)"] := by decide

/-- builtin_math.go `Math.sign` returns Numbers only (795f82e) -/
theorem mathsign_tie :
    G.facts.lookup "returns:Runtime.math_sign" = some ["floatToValue(num)", "intToValue(1)", "intToValue(-1)"] := by decide



end GojaModel.C05.Tie
