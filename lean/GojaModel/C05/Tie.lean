/-
  C05 tie: facts regenerated from /repo's Go source on every run, compared with what the proofs assume.

  * `numSites_ok`  : every place where a `valueFloat` is built WITHOUT a canonicaliser is one of the audited sites
                     below (constants whose value is non-integral / ±Inf / -0 / the canonical NaN / > 2^53; the tails
                     of `floatToValue` and `intToValue`, covered by `canon_floatToValue` and the `Tail` shape;
                     `parseLargeInt`, whose argument is ≥ 2^63/36 > 2^53).  A new raw site (e.g. a dropped
                     canonicaliser in an operator) is not in the list and breaks this theorem.
  * `wrappers_ok`  : every result wrapper used by an arithmetic / bitwise / update operator is a canonical producer.
  * `maxInt_tie`   : the threshold the model uses is the one in vm.go.
  * the shapes (`tail`, `core`) are consumed by the driver (`Driver.shapes`); both values are covered by theorems.
-/
import GojaModel.C05.Model
import GojaModel.Generated.C05_NumSites
import GojaModel.Generated.C05_Shapes

namespace GojaModel.C05.Tie
open GojaModel

def auditedSites : List (String × String × String) := [
  ("builtin_global.go", "parseLargeInt", "n"),
  ("builtin_math.go", "createMathTemplate", "math.E"),
  ("builtin_math.go", "createMathTemplate", "math.Ln10"),
  ("builtin_math.go", "createMathTemplate", "math.Ln2"),
  ("builtin_math.go", "createMathTemplate", "math.Log10E"),
  ("builtin_math.go", "createMathTemplate", "math.Log2E"),
  ("builtin_math.go", "createMathTemplate", "math.Pi"),
  ("builtin_math.go", "createMathTemplate", "sqrt1_2"),
  ("builtin_math.go", "createMathTemplate", "math.Sqrt2"),
  ("builtin_number.go", "createNumberTemplate", "math.SmallestNonzeroFloat64"),
  ("builtin_number.go", "createNumberTemplate", "math.MaxFloat64"),
  ("value.go", "<package>", "math.NaN()"),
  ("value.go", "<package>", "math.Inf(+1)"),
  ("value.go", "<package>", "math.Inf(-1)"),
  ("value.go", "<package>", "negativeZero"),
  ("value.go", "<package>", "2.2204460492503130808472633361816e-16"),
  ("vm.go", "intToValue", "i"),
  ("vm.go", "floatToValue", "f")
]

def canonicalProducers : List String := [
  "intToValue", "floatToValue", "toNumeric", "pow", ".ToNumber", ".Concat",
  "_NaN", "_negativeZero", "_positiveZero", "_positiveInf", "_negativeInf",
  "neg:n"   -- `result = -n` on a canonical valueInt n ≠ 0 (theorem `neg_canon`)
]

theorem numSites_ok :
    Generated.C05_NumSites.sites.all (fun s => auditedSites.contains s) = true := by decide

theorem wrappers_ok :
    Generated.C05_NumSites.wrappers.all (fun p => p.2.all (fun w => canonicalProducers.contains w)) = true := by decide

theorem maxInt_tie : (2 : Int) ^ Generated.C05_Shapes.maxIntShift = Num.maxInt := by decide

end GojaModel.C05.Tie
