/-
  C05 tie: facts regenerated from /repo's Go source on every run, compared with what the model transcribes.
  Every expectation is EXACTLY the current (repaired) code; a revert of any C05 fix, a dropped canonicaliser or a
  changed guard breaks one of these theorems (and the correspondence then supplies the concrete input).

  * `numSites_ok`  : every place where a `valueFloat` is built WITHOUT a canonicaliser is one of the audited sites
                     (constants whose value is non-integral / ±Inf / -0 / the canonical NaN / > 2^53; the tail of
                     `floatToValue`, covered by `canon_floatToValue`; `parseLargeInt`, whose argument is ≥ 2^63).
  * `wrappers_ok`  : every result wrapper used by an arithmetic / bitwise / update operator is a canonical producer.
  * `…_tie`        : return expressions / guards / trimming calls of the transcribed functions that are NOT in the
                     translatable subset, as text (the numeric decision functions are translated: `DecTie.lean`).
  * `whitespace_tie`: `parser.WhitespaceChars` is the table `StrNum.trimChars` (proved = WhiteSpace ∪ LineTerminator).
  * `maxInt_tie`   : the threshold the model uses is the one in vm.go.
-/
import GojaModel.C05.Model
import GojaModel.C05.StrNum
import GojaModel.Generated.C05_NumSites
import GojaModel.Generated.C05_Shapes

namespace GojaModel.C05.Tie
open GojaModel
namespace G
export GojaModel.Generated.C05_Shapes (facts_strnum
  facts_includes facts_mathsign facts_bigint facts_parseint whitespaceChars maxIntShift)
end G

def auditedSites : List (String × String × String) := [
  ("builtin_global.go", "parseLargeInt", "n"),
  ("builtin_math.go", "createMathTemplate", "math.E"),
  ("builtin_math.go", "createMathTemplate", "math.Ln10"),
  ("builtin_math.go", "createMathTemplate", "math.Ln2"),
  ("builtin_math.go", "createMathTemplate", "math.Log10E"),
  ("builtin_math.go", "createMathTemplate", "math.Log2E"),
  ("builtin_math.go", "createMathTemplate", "math.Pi"),
  ("builtin_math.go", "createMathTemplate", "sqrt1_2"),
  ("builtin_math.go", "createMathTemplate", "math.Sqrt2"),
  ("builtin_number.go", "createNumberTemplate", "math.SmallestNonzeroFloat64"),
  ("builtin_number.go", "createNumberTemplate", "math.MaxFloat64"),
  ("value.go", "<package>", "math.NaN()"),
  ("value.go", "<package>", "math.Inf(+1)"),
  ("value.go", "<package>", "math.Inf(-1)"),
  ("value.go", "<package>", "negativeZero"),
  ("value.go", "<package>", "2.2204460492503130808472633361816e-16"),
  ("vm.go", "floatToValue", "f")
]

/-- exactly the audited list, in source order: a new raw `valueFloat(…)` site (e.g. a dropped canonicaliser in an
operator, or the old tail of `intToValue`) or a removed one changes the regenerated list -/
theorem numSites_ok : Generated.C05_NumSites.sites = auditedSites := by rfl

/-- the result wrappers of every arithmetic / bitwise / update operator, in source order: each is a canonical
producer (`intToValue`, `floatToValue`, `toNumeric`, `pow`, constants; `neg:n` = `-n` on a canonical non-zero int,
theorem `neg_canon`) -/
def expectedWrappers : List (String × List String) := [
  ("_add", [".Concat", "intToValue", "floatToValue", "floatToValue"]),
  ("_sub", ["toNumeric", "toNumeric", "intToValue", "floatToValue"]),
  ("_mul", ["toNumeric", "toNumeric", "_negativeZero", "intToValue", "floatToValue"]),
  ("_div", ["toNumeric", "toNumeric", "_NaN", "_NaN", "_NaN", "_positiveInf", "_negativeInf", "_positiveZero", "_negativeZero", "_positiveInf", "_negativeInf", "floatToValue"]),
  ("_mod", ["toNumeric", "toNumeric", "_NaN", "_negativeZero", "intToValue", "floatToValue"]),
  ("_neg", ["toNumeric", "_negativeZero", "neg:n", "floatToValue"]),
  ("_inc", ["intToValue", "floatToValue"]),
  ("_dec", ["intToValue", "floatToValue"]),
  ("_and", ["toNumeric", "toNumeric", "intToValue"]),
  ("_or", ["toNumeric", "toNumeric", "intToValue"]),
  ("_xor", ["toNumeric", "toNumeric", "intToValue"]),
  ("_bnot", ["toNumeric", "intToValue"]),
  ("_sal", ["toNumeric", "toNumeric", "intToValue"]),
  ("_sar", ["toNumeric", "toNumeric", "intToValue"]),
  ("_shr", ["toNumeric", "toNumeric", "toNumeric", "intToValue"]),
  ("_exp", ["toNumeric", "toNumeric", "pow"]),
  ("_plus", [".ToNumber"])
]

theorem wrappers_ok : Generated.C05_NumSites.wrappers = expectedWrappers := by rfl

/-- … and none of them is a raw `valueFloat` / `valueInt` conversion -/
theorem wrappers_canonical :
    expectedWrappers.all (fun p => p.2.all (fun w => w != "valueFloat" && w != "valueInt")) = true := by decide

theorem maxInt_tie : (2 : Int) ^ G.maxIntShift = Num.maxInt := by decide

theorem whitespace_tie : G.whitespaceChars = StrNum.trimChars := by decide

/-- string → number: every conversion trims with `parser.WhitespaceChars` (never `strings.TrimSpace`, e80e384), `radixPrefix`/`stringToInt` decisions (d6061d6, 7637e2e), `ToInteger` (c886782), UTF-16 strings delegate (6010fc8) -/
theorem strnum_tie : G.facts_strnum = [
  ("trims:trimWhitespace", ["strings.Trim(s, parser.WhitespaceChars)"]),
  ("trims:asciiString.ToNumber", ["trimWhitespace(string(s))"]),
  ("trims:asciiString.ToFloat", ["trimWhitespace(string(s))"]),
  ("trims:asciiString.ToInteger", ["trimWhitespace(string(s))"]),
  ("trims:asciiString.toTrimmedUTF8", ["trimWhitespace(string(s))"]),
  ("trims:unicodeString.toTrimmedUTF8", ["strings.Trim(s.String(), parser.WhitespaceChars)"]),
  ("trims:importedString.toTrimmedUTF8", ["strings.Trim(i.s, parser.WhitespaceChars)"]),
  ("conds:asciiString.ToInteger", ["ss == \"\"", "ss == \"Infinity\" || ss == \"+Infinity\"", "ss == \"-Infinity\"", "err != nil", "err == nil"]),
  ("returns:asciiString.ToInteger", ["0", "math.MaxInt64", "math.MinInt64", "floatToIntClip(f)", "0", "i"]),
  ("conds:asciiString._toFloat", ["trimmed == \"\"", "trimmed == \"-0\"", "strings.ContainsRune(trimmed, '_')", "base != 0", "digitVal(digits[i]) >= base", "!ok", "len(trimmed) >= 2", "trimmed[0] == '-' || trimmed[0] == '+'", "len(prefix) >= 2 && prefix[0] == '0' && (prefix[1] == 'x' || prefix[1] == 'X')", "err == nil && math.IsInf(f, 0)", "strings.HasPrefix(ss, \"inf\") || strings.HasPrefix(ss, \"-inf\") || strings.HasPrefix(ss, \"+inf\")", "isRangeErr(err)"]),
  ("returns:asciiString._toFloat", ["0, nil", "-f, nil", "0, strconv.ErrSyntax", "0, strconv.ErrSyntax", "0, strconv.ErrSyntax", "f, nil", "0, strconv.ErrSyntax", "0, strconv.ErrSyntax", "f, err"]),
  ("conds:asciiString.ToFloat", ["ss == \"\"", "ss == \"Infinity\" || ss == \"+Infinity\"", "ss == \"-Infinity\"", "err != nil", "err == nil"]),
  ("returns:asciiString.ToFloat", ["0", "math.Inf(1)", "math.Inf(-1)", "float64(i)", "f"]),
  ("conds:asciiString.ToNumber", ["ss == \"\"", "ss == \"Infinity\" || ss == \"+Infinity\"", "ss == \"-Infinity\"", "err == nil", "err == nil"]),
  ("returns:asciiString.ToNumber", ["intToValue(0)", "_positiveInf", "_negativeInf", "intToValue(i)", "floatToValue(f)", "_NaN"]),
  ("returns:unicodeString.ToNumber", ["asciiString(s.toTrimmedUTF8()).ToNumber()"]),
  ("returns:unicodeString.ToFloat", ["asciiString(s.toTrimmedUTF8()).ToFloat()"]),
  ("returns:unicodeString.ToInteger", ["asciiString(s.toTrimmedUTF8()).ToInteger()"])
] := by rfl

/-- builtin_array.go `includes`: search value and BOTH element loops normalise -0 (dd517b9) -/
theorem includes_tie : G.facts_includes = [
  ("conds:Runtime.arrayproto_includes", ["length == 0", "n >= length", "n < 0", "searchElement == _negativeZero", "arr != nil && int64(len(arr.values)) == length", "val == _negativeZero", "searchElement.SameAs(val)", "val == _negativeZero", "searchElement.SameAs(val)"])
] := by rfl

/-- builtin_math.go `Math.sign` returns Numbers only (795f82e) -/
theorem mathsign_tie : G.facts_mathsign = [
  ("returns:Runtime.math_sign", ["floatToValue(num)", "intToValue(1)", "intToValue(-1)"])
] := by rfl

/-- builtin_global.go `parseInt`: `cutoff = MaxInt64/base + 1`, `maxVal = MaxInt64`, the wrapping updates, -0 and the
hand-over to `parseLargeInt` — what `ParseInt.loop` transcribes; the sign / `0x`-prefix / base-validation conditions of the part before the loop (which uses `goto`, outside the translatable subset; modelled in `ParseInt.mech`); the three GUARDS of the loop are in addition translated to Lean and tied in `DecTie.parseIntGuards_tie` -/
theorem parseint_tie : G.facts_parseint = [
  ("conds:parseInt", ["len(s) < 1", "len(s) < 1", "s[0] == '0' && len(s) > 1 && (s[1] == 'x' || s[1] == 'X')", "base == 0 || base == 16", "len(s) < 3", "n >= cutoff", "v >= base", "n1 < n || n1 > maxVal", "i == 0", "sign", "n == 0"]),
  ("assigns:parseInt", ["cutoff = math.MaxInt64/10 + 1", "cutoff = math.MaxInt64/16 + 1", "cutoff = math.MaxInt64/int64(base) + 1", "maxVal = math.MaxInt64", "n *= int64(base)", "n1 := n + int64(v)", "n = n1", "n = -n"]),
  ("returns:parseInt", ["parseLargeInt(s, base, sign)", "parseLargeInt(s, base, sign)", "_negativeZero, nil", "intToValue(n), nil", "_NaN, err"]),
  ("returns:parseLargeInt", ["_NaN, strconv.ErrSyntax", "valueFloat(n), nil"])
] := by rfl

/-- runtime.go `bigIntToNumber` (9d4b1ca): `IsInt64()` guard, `intToValue(b.Int64())` within int64, `floatToValue` of the
big.Float value beyond; `Number(bigint)` goes through it — what `numberOfBigInt` transcribes -/
theorem bigint_tie : G.facts_bigint = [
  ("conds:bigIntToNumber", ["b.IsInt64()"]),
  ("returns:bigIntToNumber", ["intToValue(b.Int64())", "floatToValue(f)"]),
  ("returns:Runtime.builtin_Number", ["bigIntToNumber((*big.Int)(bigint))", "primValue.ToNumber()", "bigIntToNumber((*big.Int)(t))", "t.ToNumber()", "valueInt(0)"])
] := by rfl

end GojaModel.C05.Tie
