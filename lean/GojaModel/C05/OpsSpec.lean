/-
  C05 (deepening round 2) — the bitwise operators equal the ECMAScript definitions; int paths of increment and decrement as
  floatToValue of the exact result.  Core Lean only.
-/
import GojaModel.C05.NegMod
namespace GojaModel.C05
open GojaModel GojaModel.Num

theorem toNumeric_of_canon {a : Num} (ha : Canon a) : toNumeric a = a := by
  cases a with
  | int i => rfl
  | flt f => exact (floatToValue_unique' ha (specSameValue_refl f)).symm

theorem intToValue_inrange {z : Int} (h : -maxInt ≤ z ∧ z ≤ maxInt) : intToValue z = int z := by
  simp only [intToValue, h, and_self, if_true]

theorem toInt32_eq {a : Num} (ha : Canon a) : toInt32 (toNumeric a) = specToIntS 32 a.toF64 := by
  rw [toNumeric_of_canon ha]; exact toIntS_mod_spec32 ha
theorem toUint32_eq {a : Num} (ha : Canon a) : toUint32 (toNumeric a) = specToIntU 32 a.toF64 := by
  rw [toNumeric_of_canon ha]; exact toIntU_mod_spec32 ha

/-- **the bitwise operators are ECMAScript's** (ToInt32/ToUint32 of the denoted doubles, 32-bit operation, result as a
canonical int), for all canonical operands -/
theorem opAnd_spec {a b : Num} (ha : Canon a) (hb : Canon b) : opAnd a b = int (specAnd a.toF64 b.toF64) := by
  unfold opAnd specAnd; rw [toInt32_eq ha, toInt32_eq hb]
  have h := bit32_range Nat.land (specToIntS 32 a.toF64) (specToIntS 32 b.toF64)
  generalize bit32 Nat.land (specToIntS 32 a.toF64) (specToIntS 32 b.toF64) = z at *
  exact intToValue_inrange h
theorem opOr_spec {a b : Num} (ha : Canon a) (hb : Canon b) : opOr a b = int (specOr a.toF64 b.toF64) := by
  unfold opOr specOr; rw [toInt32_eq ha, toInt32_eq hb]
  have h := bit32_range Nat.lor (specToIntS 32 a.toF64) (specToIntS 32 b.toF64)
  generalize bit32 Nat.lor (specToIntS 32 a.toF64) (specToIntS 32 b.toF64) = z at *
  exact intToValue_inrange h
theorem opXor_spec {a b : Num} (ha : Canon a) (hb : Canon b) : opXor a b = int (specXor a.toF64 b.toF64) := by
  unfold opXor specXor; rw [toInt32_eq ha, toInt32_eq hb]
  have h := bit32_range Nat.xor (specToIntS 32 a.toF64) (specToIntS 32 b.toF64)
  generalize bit32 Nat.xor (specToIntS 32 a.toF64) (specToIntS 32 b.toF64) = z at *
  exact intToValue_inrange h
theorem opBnot_spec {a : Num} (ha : Canon a) : opBnot a = int (specBnot a.toF64) := by
  unfold opBnot specBnot; rw [toInt32_eq ha]
  have h : -(2 ^ 31 : Int) ≤ specToIntS 32 a.toF64 ∧ specToIntS 32 a.toF64 < 2 ^ 31 := by
    simp only [specToIntS]; generalize specIntOrZero a.toF64 = t; split <;> omega
  generalize specToIntS 32 a.toF64 = z at *
  exact intToValue_inrange (by simp only [maxInt]; omega)
theorem opShl_spec {a b : Num} (ha : Canon a) (hb : Canon b) : opShl a b = int (specShl a.toF64 b.toF64) := by
  unfold opShl specShl; rw [toInt32_eq ha, toUint32_eq hb]
  exact intToValue_inrange (wrapS32_range _)
theorem opSar_spec {a b : Num} (ha : Canon a) (hb : Canon b) : opSar a b = int (specSar a.toF64 b.toF64) := by
  unfold opSar specSar; rw [toInt32_eq ha, toUint32_eq hb]
  exact intToValue_inrange (wrapS32_range _)
theorem opShr_spec {a b : Num} (ha : Canon a) (hb : Canon b) : opShr a b = int (specShr a.toF64 b.toF64) := by
  unfold opShr specShr; rw [toUint32_eq ha, toUint32_eq hb]
  exact intToValue_inrange (wrapU32_range _)

/-- the int paths of `++`, `--`, `*` as `floatToValue` of the correctly rounded exact result -/
theorem opInc_int_exact (x : Int) (r : F64) : opInc (int x) r = floatToValue (F64.ofInt (x + 1)) := int_eq_floatToValue _
theorem opDec_int_exact (x : Int) (r : F64) : opDec (int x) r = floatToValue (F64.ofInt (x - 1)) := int_eq_floatToValue _

end GojaModel.C05
