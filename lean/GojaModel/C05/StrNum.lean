/-
  C05 — StringToNumber: the grammar-level decisions of goja's string → number conversion as coded after the
  fixes e80e384, d6061d6, 7637e2e (string_ascii.go: `trimWhitespace`, `radixPrefix`, `stringToInt`, `_toFloat`,
  `asciiString.ToNumber`; string_unicode.go `ToNumber`), next to a spec-level recogniser of ECMA-262
  StringNumericLiteral (7.1.4.1).  Strings are lists of code points.  Core Lean only.

  Both sides produce a `Res`: NaN, ±Infinity, or an exact decimal value ±mant·10^exp10 (so the DECISIONS — which
  strings are numeric, which sign, which digits in which base — are compared exactly); `Res.toF64` turns the exact
  value into the nearest double (executable; its correctness is C12's subject, here it is checked against goja).
-/
import GojaModel.C05.Num

namespace GojaModel.C05.StrNum
open GojaModel

/-! ## white space -/

/-- `parser.WhitespaceChars` (parser/regexp.go), in source order; regenerated and compared in `Tie.lean`. -/
def trimChars : List Nat :=
  [0x20, 0x0C, 0x0A, 0x0D, 0x09, 0x0B, 0xA0, 0x1680, 0x2000, 0x2001, 0x2002, 0x2003, 0x2004, 0x2005, 0x2006,
   0x2007, 0x2008, 0x2009, 0x200A, 0x2028, 0x2029, 0x202F, 0x205F, 0x3000, 0xFEFF]

def isTrimChar (c : Nat) : Bool := trimChars.contains c

/-- Unicode general category Zs ("Space_Separator"), Unicode 15. -/
def isZs (c : Nat) : Bool :=
  c == 0x20 || c == 0xA0 || c == 0x1680 || (decide (0x2000 ≤ c) && decide (c ≤ 0x200A)) || c == 0x202F ||
  c == 0x205F || c == 0x3000

/-- ECMA-262 StrWhiteSpaceChar = WhiteSpace (TAB, VT, FF, ZWNBSP, USP) ∪ LineTerminator (LF, CR, LS, PS). -/
def specIsStrWhiteSpace (c : Nat) : Bool :=
  c == 0x09 || c == 0x0B || c == 0x0C || c == 0xFEFF || isZs c ||
  c == 0x0A || c == 0x0D || c == 0x2028 || c == 0x2029

/-- `strings.TrimLeft(s, cutset)` -/
def dropWs : List Nat → List Nat
  | [] => []
  | c :: cs => if isTrimChar c then dropWs cs else c :: cs

/-- `strings.Trim(s, parser.WhitespaceChars)` -/
def trim (s : List Nat) : List Nat := (dropWs (dropWs s).reverse).reverse

/-! ## results -/

inductive Res where
  | nan
  | inf (neg : Bool)
  /-- the exact value `(-1)^neg * mant * 10^exp10`; `neg ∧ mant = 0` is `-0` -/
  | num (neg : Bool) (mant : Nat) (exp10 : Int)
deriving DecidableEq, Repr

def Res.exactInt (neg : Bool) (n : Nat) : Res := .num neg n 0

/-! ## characters -/

/-- builtin_global.go `digitVal` (36 = not a digit) -/
def digitVal (c : Nat) : Nat :=
  if 0x30 ≤ c ∧ c ≤ 0x39 then c - 0x30
  else if 0x61 ≤ c ∧ c ≤ 0x7A then c - 0x61 + 10
  else if 0x41 ≤ c ∧ c ≤ 0x5A then c - 0x41 + 10
  else 36

def isDecDigit (c : Nat) : Bool := decide (0x30 ≤ c) && decide (c ≤ 0x39)

/-- base of the letter of a radix prefix: x/X 16, o/O 8, b/B 2, else 0 (string_ascii.go `radixPrefix`) -/
def radixOfLetter (c : Nat) : Nat :=
  if c = 0x78 ∨ c = 0x58 then 16 else if c = 0x6F ∨ c = 0x4F then 8 else if c = 0x62 ∨ c = 0x42 then 2 else 0

/-- `radixPrefix(ss)`: needs `len(ss) > 2` and `ss[0] == '0'` -/
def radixPrefix : List Nat → Nat
  | 0x30 :: p :: _ :: _ => radixOfLetter p
  | _ => 0

/-- value of a digit string in `base`, most significant first (Horner) -/
def digitsValue (base : Nat) (ds : List Nat) : Nat := ds.foldl (fun acc c => acc * base + digitVal c) 0

def allDigits (base : Nat) (ds : List Nat) : Bool := ds.all (fun c => decide (digitVal c < base))

def str (s : String) : List Nat := s.toList.map Char.toNat

/-- optional leading sign: (is '-', rest) -/
def splitSign : List Nat → Bool × List Nat
  | 0x2D :: r => (true, r)
  | 0x2B :: r => (false, r)
  | r => (false, r)

/-! ## mechanism -/

/-- `strconv.ParseInt(s, base, 64)` for `base ∈ {2,8,10,16}`: `none` = any error (syntax or range).
Optional sign, then at least one digit, all valid in `base`, value within int64. -/
def goParseInt (s : List Nat) (base : Nat) : Option Int :=
  let neg := (splitSign s).1
  let ds := (splitSign s).2
  if ds.isEmpty || !allDigits base ds then none
  else
    let n := digitsValue base ds
    if neg then (if n ≤ 2 ^ 63 then some (-(n : Int)) else none)
    else (if n < 2 ^ 63 then some (n : Int) else none)

/-- string_ascii.go `stringToInt` on a trimmed, non-empty string: `none` = error. -/
def stringToInt (t : List Nat) : Option Int :=
  let base := radixPrefix t
  if base ≠ 0 then
    match t with
    | _ :: _ :: c :: rest =>
        if c = 0x2B ∨ c = 0x2D then none                 -- a sign after the prefix: ErrSyntax
        else goParseInt (c :: rest) base
    | _ => none
  else
    match goParseInt t 10 with
    | some i => if i = 0 ∧ t.head? = some 0x2D then none else some i    -- "-0", "-00", …: not an integer
    | none => none

/-- the decimal grammar `strconv.ParseFloat` accepts once specials, underscores and hex floats are excluded:
`[sign] (digits [. digits*] | . digits+) [(e|E) [sign] digits+]`, everything consumed.  Result: sign, all mantissa
digits, number of fraction digits, exponent. -/
structure Dec where
  neg : Bool
  digits : List Nat
  frac : Nat
  exp : Int
deriving DecidableEq

def takeDigits : List Nat → List Nat × List Nat
  | [] => ([], [])
  | c :: cs => if isDecDigit c then let (d, r) := takeDigits cs; (c :: d, r) else ([], c :: cs)

def parseExp (s : List Nat) : Option Int :=
  match s with
  | [] => some 0
  | e :: r =>
    if e = 0x65 ∨ e = 0x45 then
      let neg := (splitSign r).1
      let ds := (splitSign r).2
      if ds.isEmpty || !ds.all isDecDigit then none
      else some (if neg then -(digitsValue 10 ds : Int) else (digitsValue 10 ds : Int))
    else none

/-- optional `. digits*` -/
def fracPart : List Nat → List Nat × List Nat
  | 0x2E :: q => takeDigits q
  | q => ([], q)

def parseDecimal (s : List Nat) : Option Dec :=
  let neg := (splitSign s).1
  let ip := (takeDigits (splitSign s).2).1
  let r1 := (takeDigits (splitSign s).2).2
  let fr := fracPart r1
  if ip.isEmpty && fr.1.isEmpty then none
  else match parseExp fr.2 with
    | some e => some ⟨neg, ip ++ fr.1, fr.1.length, e⟩
    | none => none

def Dec.toRes (d : Dec) : Res := .num d.neg (digitsValue 10 d.digits) (d.exp - d.frac)

def lower (c : Nat) : Nat := if 0x41 ≤ c ∧ c ≤ 0x5A then c + 32 else c

/-- does `strconv.ParseFloat` read the whole string as one of its special values inf / infinity / nan? -/
def goSpecial (t : List Nat) : Bool :=
  let l := t.map lower
  let body := (splitSign l).2
  body == str "inf" || body == str "infinity" || l == str "nan"

/-- string_ascii.go `_toFloat` on a trimmed, non-empty string that `stringToInt` rejected. -/
def toFloat (t : List Nat) : Res :=
  if t == str "-0" then .num true 0 0
  else if t.contains 0x5F then .nan                                  -- '_'
  else
    let base := radixPrefix t
    if base ≠ 0 then
      let ds := t.drop 2
      if allDigits base ds then Res.exactInt false (digitsValue base ds) else .nan    -- big.Int path: no int64 limit
    else
      match (splitSign t).2 with
      | 0x30 :: x :: _ => if x = 0x78 ∨ x = 0x58 then .nan else tail t        -- hex floats are not ECMAScript
      | _ => tail t
where
  tail (t : List Nat) : Res :=
    if goSpecial t then .nan                 -- "inf"/"infinity" are rejected by the explicit check, "nan" is NaN anyway
    else match parseDecimal t with
      | some d => d.toRes
      | none => .nan

/-- `asciiString.ToNumber` after trimming. -/
def mechT (t : List Nat) : Res :=
  if t.isEmpty then Res.exactInt false 0
  else if t == str "Infinity" || t == str "+Infinity" then .inf false
  else if t == str "-Infinity" then .inf true
  else match stringToInt t with
    | some i => Res.exactInt (decide (i < 0)) i.natAbs            -- intToValue(i)
    | none => toFloat t

/-- string → number as coded: trim with `parser.WhitespaceChars`, then decide. -/
def mech (s : List Nat) : Res := mechT (trim s)

/-! ## spec: ECMA-262 StringNumericLiteral -/

/-- StrNumericLiteral on a string without surrounding white space -/
def specT (t : List Nat) : Res :=
  if t.isEmpty then Res.exactInt false 0
  else
    -- NonDecimalIntegerLiteral: 0b / 0o / 0x + at least one digit of that base, no sign
    match t with
    | 0x30 :: p :: d :: ds =>
        if radixOfLetter p ≠ 0 then
          (if allDigits (radixOfLetter p) (d :: ds) then Res.exactInt false (digitsValue (radixOfLetter p) (d :: ds)) else .nan)
        else dec t
    | _ => dec t
where
  /-- StrDecimalLiteral: [+-] (Infinity | DecimalDigits . DecimalDigits? Exp? | . DecimalDigits Exp? | DecimalDigits Exp?) -/
  dec (t : List Nat) : Res :=
    if (splitSign t).2 == str "Infinity" then .inf (splitSign t).1
    else match parseDecimal t with
      | some d => d.toRes
      | none => .nan

def specTrim (s : List Nat) : List Nat :=
  let rec dropS : List Nat → List Nat
    | [] => []
    | c :: cs => if specIsStrWhiteSpace c then dropS cs else c :: cs
  (dropS (dropS s).reverse).reverse

def spec (s : List Nat) : Res := specT (specTrim s)

/-! ## exact value → nearest double (executable only; checked against goja on every case) -/

/-- nearest double (ties to even) to `num / den`, `num, den > 0` -/
def roundRat (neg : Bool) (num den : Nat) : F64 :=
  if num = 0 then ⟨neg, 0, 0, by decide, by decide⟩ else
  -- e with 2^e ≤ num/den < 2^(e+1) (off by at most one before the correction)
  let e0 : Int := (num.log2 : Int) - (den.log2 : Int)
  let scaled (e : Int) : Nat × Nat :=      -- (num', den') with num'/den' = (num/den) / 2^e
    if e ≥ 0 then (num, den * 2 ^ e.toNat) else (num * 2 ^ (-e).toNat, den)
  let e : Int := let (n', d') := scaled e0; if n' < d' then e0 - 1 else e0
  -- binary exponent of the unit in the last place: normal → e - 52, but never below -1074
  let u : Int := if e - 52 < -1074 then -1074 else e - 52
  let (n', d') := scaled u
  let q := n' / d'
  let r := n' % d'
  let q' := if 2 * r > d' ∨ (2 * r = d' ∧ q % 2 = 1) then q + 1 else q
  -- value = q' * 2^u ; q' ≤ 2^53
  let bitsMag : Int := if q' < 2 ^ 52 then (q' : Int)                 -- subnormal (u = -1074)
    else if q' = 2 ^ 53 then ((u + 1075 + 1) * 2 ^ 52 : Int)
    else ((u + 1075) * 2 ^ 52 + ((q' : Int) - 2 ^ 52))
  if bitsMag ≥ 2047 * 2 ^ 52 then ⟨neg, 2047, 0, by decide, by decide⟩
  else F64.ofBits ((if neg then 2 ^ 63 else 0) + bitsMag.toNat)

def Res.toF64 : Res → F64
  | .nan => F64.canonNaN
  | .inf neg => ⟨neg, 2047, 0, by decide, by decide⟩
  | .num neg mant e =>
      if mant = 0 then ⟨neg, 0, 0, by decide, by decide⟩
      else if e ≥ 0 then
        (if e > 400 then ⟨neg, 2047, 0, by decide, by decide⟩ else roundRat neg (mant * 10 ^ e.toNat) 1)
      else
        -- mant < 10^digits; anything below 10^-400 rounds to zero
        (if (-e).toNat > 400 + (Nat.log2 mant) then ⟨neg, 0, 0, by decide, by decide⟩ else roundRat neg mant (10 ^ (-e).toNat))

end GojaModel.C05.StrNum
