/-
  C05 (deepening round 2) — Tie for the translated `Runtime.toLengthUint32` (runtime.go; its `goto fail` / labels / mutable
  `intVal` are followed by the translator; the `String` and `default` arms of its type switch concern non-Number values and
  are outside the Number model).  Core Lean only.
-/
import GojaModel.C05.DecTie
namespace GojaModel.C05.DecTie
open GojaModel GojaModel.Num GojaModel.C05 GojaModel.C05.Gen

theorem wrapU32_id {i : Int} (h : 0 ≤ i ∧ i ≤ 4294967295) : wrapU 32 i = i := by
  simp only [wrapU]; omega

/-- **translated `toLengthUint32` = model**, for every Number value -/
theorem toLengthUint32_tie (v : Num) : Generated.C05_Decisions.toLengthUint32 v = C05.toLengthUint32 v := by
  cases v with
  | int i =>
    simp only [Generated.C05_Decisions.toLengthUint32, C05.toLengthUint32]
    by_cases h : 0 ≤ i ∧ i ≤ 4294967295
    · have : (decide (i ≥ 0) && decide (i ≤ 4294967295)) = true := by simp [h.1, h.2]
      rw [if_pos this, if_pos h, wrapU32_id h]
    · have : (decide (i ≥ 0) && decide (i ≤ 4294967295)) = false := by
        simp only [Bool.and_eq_false_iff, decide_eq_false_iff_not]; omega
      rw [this, if_neg h]; rfl
  | flt f =>
    simp only [Generated.C05_Decisions.toLengthUint32, C05.toLengthUint32, valueEqFloat, feq_negZero, floatToInt_tie]
    by_cases hz : f.isZero = true
    · have h0 : (decide ((0:Int) ≥ 0) && decide ((0:Int) ≤ 4294967295)) = true := by decide
      have w0 : wrapU 32 0 = 0 := by decide
      cases hs : f.neg <;> simp [hz, hs, h0, w0]
    · have hz' : f.isZero = false := by simpa using hz
      simp only [hz', Bool.not_false, if_true, Bool.false_and, Bool.false_eq_true, if_false]
      cases hfi : Num.floatToInt f with
      | none => rfl
      | some i =>
        simp only
        by_cases h : 0 ≤ i ∧ i ≤ 4294967295
        · have : (decide (i ≥ 0) && decide (i ≤ 4294967295)) = true := by simp [h.1, h.2]
          rw [if_pos this, if_pos h, wrapU32_id h]
        · have : (decide (i ≥ 0) && decide (i ≤ 4294967295)) = false := by
            simp only [Bool.and_eq_false_iff, decide_eq_false_iff_not]; omega
          rw [this, if_neg h]; rfl

/-- **translated `Equals` (`==`) on two Numbers = `StrictEquals`** (the other arms of the type switch — BigInt, String, Boolean,
Object — concern non-Number values) -/
theorem equals_tie (a b : Num) :
    strictEquals a b = (match a with
      | Num.flt f => Generated.C05_Decisions.floatEquals f b
      | Num.int i => Generated.C05_Decisions.intEquals i b) := by
  cases a <;> cases b <;> simp [Generated.C05_Decisions.floatEquals, Generated.C05_Decisions.intEquals, strictEquals, beq_int_decide]

end GojaModel.C05.DecTie
