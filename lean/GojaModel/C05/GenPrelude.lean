/-
  C05 — vocabulary for the Go → Lean translation of numeric decision functions (extract/c05_translate.go).
  Each definition is the meaning of one Go expression form on the `F64`/`Int` model.  Core Lean only.

  A comparison between a float64 variable and an integer-valued constant is the IEEE comparison, i.e. the comparison
  of the exact values: `f >= k ⟺ k ≤ ⌊f⌋`, `f > k ⟺ k < ⌈f⌉`, … (never true for NaN; ±Inf by sign).
-/
import GojaModel.C05.Model
import GojaModel.C05.StrNum

namespace GojaModel.C05.Gen
open GojaModel GojaModel.Num

/-- ⌊value⌋ of a finite double -/
def floorInt (f : F64) : Int := if f.neg && !f.isIntegral then f.truncInt - 1 else f.truncInt
/-- ⌈value⌉ of a finite double -/
def ceilInt (f : F64) : Int := if !f.neg && !f.isIntegral then f.truncInt + 1 else f.truncInt

/-- value of an integer constant after Go's conversion to float64 (exact up to 2^53 and for powers of two;
`math.MaxInt64` becomes 2^63) -/
def fconst (k : Int) : Int := (F64.ofInt k).truncInt

/-- `f >= k` -/
def geI (f : F64) (k : Int) : Bool := !f.isNaN && (if f.isInf then !f.neg else decide (k ≤ floorInt f))
/-- `f > k` -/
def gtI (f : F64) (k : Int) : Bool := !f.isNaN && (if f.isInf then !f.neg else decide (k < ceilInt f))
/-- `f <= k` -/
def leI (f : F64) (k : Int) : Bool := !f.isNaN && (if f.isInf then f.neg else decide (ceilInt f ≤ k))
/-- `f < k` -/
def ltI (f : F64) (k : Int) : Bool := !f.isNaN && (if f.isInf then f.neg else decide (floorInt f < k))
/-- `f == k` -/
def eqI (f : F64) (k : Int) : Bool := f.isFinite && f.isIntegral && decide (f.truncInt = k)
/-- `f != k` -/
def neI (f : F64) (k : Int) : Bool := !eqI f k
/-- `f == math.Trunc(f)` (true for ±Inf, false for NaN) -/
def eqTrunc (f : F64) : Bool := !f.isNaN && (f.isInf || f.isIntegral)
/-- `math.Signbit(f)` -/
def signbit (f : F64) : Bool := f.neg
/-- `math.IsNaN(f)` -/
def isNaN (f : F64) : Bool := f.isNaN
/-- `math.IsInf(f, s)` -/
def isInfS (f : F64) (s : Int) : Bool := f.isInf && (if s > 0 then !f.neg else if s < 0 then f.neg else true)
/-- `int64(f)` for a double whose truncation fits an int64 -/
def toInt64 (f : F64) : Int := f.truncInt
/-- `math.Mod(f, 2^64)` of an integral double, as an exact integer -/
def modTwo64 (f : F64) : Int := goModTwo64 f.truncInt

/-- `uint64(i)` of an int64 -/
def u64 (i : Int) : Nat := (i % (2 ^ 64 : Int)).toNat
/-- `v == c` for a Value `v` and a Value constant `c` of dynamic type valueFloat: equal dynamic types and float `==` -/
def valueEqFloat (v : Num) (c : F64) : Bool :=
  match v with
  | Num.flt f => F64.feq f c
  | Num.int _ => false

/-- `math.Floor(x)` of a finite double, as an exact integer -/
def floorF (f : F64) : Int := floorInt f

/-- exact value of `2·x` for a finite double, as `n / 2^k` -/
def twiceNum (x : F64) : Int :=
  let m : Int := if 1074 ≤ x.eff then (x.sig * 2 ^ (x.eff - 1074) : Nat) else (x.sig : Nat)
  if x.neg then -m else m
def twiceDenExp (x : F64) : Nat := if 1074 ≤ x.eff then 0 else 1074 - x.eff

/-- `h + 0.5 < x` for an integer-valued `h` (e.g. `math.Floor(..)`): comparison of the exact values, `2h+1 < 2x` -/
def halfLt (h : Int) (x : F64) : Bool :=
  !x.isNaN && (if x.isInf then !x.neg else decide ((2 * h + 1) * 2 ^ twiceDenExp x < twiceNum x))
/-- `h + 0.5 > x` -/
def halfGt (h : Int) (x : F64) : Bool :=
  !x.isNaN && (if x.isInf then x.neg else decide ((2 * h + 1) * 2 ^ twiceDenExp x > twiceNum x))

def two63 : Int := 2 ^ 63
def two64 : Int := 2 ^ 64
def maxInt32 : Int := 2147483647

end GojaModel.C05.Gen
