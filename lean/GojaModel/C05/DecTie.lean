/-
  C05 — Tie for the Go → Lean TRANSLATION of the numeric decision functions (extract/c05_translate.go →
  Generated/C05_Decisions.lean): each translated function is proved equal to the hand model the property theorems are
  about, for ALL inputs.  A change of any guard, comparison operator, constant or branch order in the Go source changes
  the generated definition and the corresponding theorem stops checking.
-/
import GojaModel.C05.Lemmas
import GojaModel.C05.ParseInt
import GojaModel.C05.StrAgree
import GojaModel.Generated.C05_Decisions
namespace GojaModel.C05.DecTie
open GojaModel GojaModel.Num GojaModel.C05 GojaModel.C05.Gen
namespace D
export GojaModel.Generated.C05_Decisions (floatToInt intToValue floatToValue floatToIntClip toLength toIndex float64ToInt64Mod)
end D

theorem fconst_zero : fconst 0 = 0 := by
  have h : F64.ofInt 0 = F64.posZero := by decide
  have hz : F64.posZero.isZero = true := by decide
  simp [fconst, h, F64.truncInt, truncNat_of_zero hz]

theorem fconst_vals : fconst 0 = 0 ∧ fconst maxInt = maxInt ∧ fconst (-maxInt) = -maxInt ∧ fconst maxInt64 = 2 ^ 63 ∧
    fconst minInt64 = -(2 ^ 63) ∧ fconst two63 = 2 ^ 63 ∧ fconst (-two63) = -(2 ^ 63) :=
  ⟨fconst_zero, by decide, by decide, by decide, by decide, by decide, by decide⟩

theorem nonfinite_cases (f : F64) : f.isFinite = true ∨ f.isInf = true ∨ f.isNaN = true := by
  simp only [F64.isFinite, F64.isNaN, F64.isInf]
  cases h1 : (f.exp == 2047) <;> cases h2 : (f.man == 0) <;> simp [bne, h1, h2]

theorem fin_not_nan_inf {f : F64} (h : f.isFinite = true) : f.isNaN = false ∧ f.isInf = false := by
  simp only [F64.isFinite, F64.isNaN, F64.isInf] at *
  cases h1 : (f.exp == 2047) <;> simp_all [bne]

theorem inf_not_nan {f : F64} (h : f.isInf = true) : f.isNaN = false ∧ f.isFinite = false := by
  simp only [F64.isFinite, F64.isNaN, F64.isInf] at *
  cases h1 : (f.exp == 2047) <;> cases h2 : (f.man == 0) <;> simp_all [bne]

theorem nan_not_inf {f : F64} (h : f.isNaN = true) : f.isInf = false ∧ f.isFinite = false := by
  simp only [F64.isFinite, F64.isNaN, F64.isInf] at *
  cases h1 : (f.exp == 2047) <;> cases h2 : (f.man == 0) <;> simp_all [bne]

/-- a finite integral double with value 0 is ±0 -/
theorem zero_of_trunc {f : F64} (hfin : f.isFinite = true) (hint : f.isIntegral = true) (h0 : f.truncInt = 0) :
    f.isZero = true := by
  have hn : f.truncNat = 0 := by
    simp only [F64.truncInt] at h0
    split at h0 <;> simp only [Int.ofNat_eq_natCast] at h0 <;> omega
  obtain ⟨neg, exp, man, he, hm⟩ := f
  simp only [F64.isFinite, F64.isIntegral, F64.isZero, F64.truncNat, F64.eff, F64.sig] at *
  by_cases hexp0 : exp = 0
  · subst hexp0
    simp at hint hn ⊢
    have hlt : man < 2 ^ 1074 := Nat.lt_of_lt_of_le hm (Nat.pow_le_pow_right (by decide) (by decide))
    rw [Nat.mod_eq_of_lt hlt] at hint; exact hint
  · exfalso
    simp only [if_neg hexp0] at hint hn
    by_cases hbig : 1075 ≤ exp
    · simp only [if_pos hbig] at hn
      have := Nat.two_pow_pos (exp - 1075)
      have h1 : 2 ^ 52 + man = 0 ∨ 2 ^ (exp - 1075) = 0 := Nat.mul_eq_zero.1 hn
      omega
    · simp only [if_neg hbig] at hint hn
      simp at hint
      have hd := Nat.two_pow_pos (1075 - exp)
      have := Nat.div_add_mod (2 ^ 52 + man) (2 ^ (1075 - exp))
      rw [hint, hn] at this; simp at this; omega

theorem eqI_zero (f : F64) : eqI f 0 = f.isZero := by
  rw [Bool.eq_iff_iff]
  constructor
  · intro h
    simp only [eqI, Bool.and_eq_true, decide_eq_true_eq] at h
    exact zero_of_trunc h.1.1 h.1.2 h.2
  · intro h
    have := toInt_of_isZero h
    obtain ⟨hf, ht⟩ := toInt_some this
    have hi : f.isIntegral = true := by
      simp only [F64.toInt?] at this
      split at this
      · rename_i hc; simp at hc; exact hc.2
      · cases this
    simp [eqI, hf, hi, ht]

theorem floorCeil_of_integral {f : F64} (h : f.isIntegral = true) : floorInt f = f.truncInt ∧ ceilInt f = f.truncInt := by
  simp [floorInt, ceilInt, h]

/-- **translated `floatToInt` = model** -/
theorem floatToInt_tie (f : F64) : D.floatToInt f = Num.floatToInt f := by
  obtain ⟨c0, c1, c2, _⟩ := fconst_vals
  simp only [Generated.C05_Decisions.floatToInt, Num.floatToInt, c0, c1, c2, neI, eqI_zero, signbit, isInfS, eqTrunc,
    geI, leI, toInt64]
  rcases nonfinite_cases f with h | h | h
  · obtain ⟨hn, hi⟩ := fin_not_nan_inf h
    by_cases hint : f.isIntegral = true
    · obtain ⟨e1, e2⟩ := floorCeil_of_integral hint
      simp [hn, hi, hint, e1, e2]
    · simp [hn, hi, hint]
  · obtain ⟨hn, _⟩ := inf_not_nan h
    simp [h, hn]
  · obtain ⟨hi, _⟩ := nan_not_inf h
    simp [h, hi]


/-- **translated `intToValue` = model** (the `intCache` fast path returns the same `valueInt`) -/
theorem intToValue_tie (i : Int) : D.intToValue i = Num.intToValue i := by
  have hm : maxInt = 2 ^ 53 := rfl
  simp only [Generated.C05_Decisions.intToValue, Num.intToValue]
  by_cases h2 : -maxInt ≤ i ∧ i ≤ maxInt
  · rw [if_pos h2]
    by_cases h1 : (256 + i ≥ 0 ∧ 256 + i < 256)
    · have : (decide (256 + i ≥ 0) && decide (256 + i < 256)) = true := by simp [h1.1, h1.2]
      rw [if_pos this]; congr 1; omega
    · have : (decide (256 + i ≥ 0) && decide (256 + i < 256)) = false := by
        simp only [Bool.and_eq_false_iff, decide_eq_false_iff_not]; omega
      rw [this]
      have : (decide (i ≥ -maxInt) && decide (i ≤ maxInt)) = true := by simp [h2.1, h2.2]
      simp only [Bool.false_eq_true, if_false, this, if_true]
  · rw [if_neg h2]
    have a : (decide (256 + i ≥ 0) && decide (256 + i < 256)) = false := by
      simp only [Bool.and_eq_false_iff, decide_eq_false_iff_not]; omega
    have b : (decide (i ≥ -maxInt) && decide (i ≤ maxInt)) = false := by
      simp only [Bool.and_eq_false_iff, decide_eq_false_iff_not]; omega
    simp only [a, b, Bool.false_eq_true, if_false]

/-- **translated `floatToValue` = model** -/
theorem floatToValue_tie (f : F64) : D.floatToValue f = Num.floatToValue f := by
  simp only [Generated.C05_Decisions.floatToValue, Num.floatToValue, floatToInt_tie, fconst_zero, eqI_zero, isNaN, isInfS]
  cases hfi : Num.floatToInt f with
  | some i =>
    have := floatToInt_some hfi
    simp only [Num.intToValue, intToValueSmall, this.2.1, this.2.2.1, and_self, if_true]
  | none =>
    simp only
    by_cases hz : f.isZero = true
    · simp [hz]
    · by_cases hn : f.isNaN = true
      · simp [hz, hn]
      · by_cases hi : f.isInf = true
        · by_cases hs : f.neg = true <;> simp [hz, hn, hi, hs]
        · simp [hz, hn, hi]

theorem toLength_tie (a : Num) : C05.toLength a = D.toLength (toInteger a) := by
  simp only [C05.toLength, Generated.C05_Decisions.toLength]
  generalize toInteger a = i
  by_cases h1 : i < 0
  · simp [h1]
  · by_cases h2 : i ≥ maxInt <;> simp [h1, h2]

theorem toIndex_tie (a : Num) : C05.toIndex a = D.toIndex (toInteger a) := by
  simp only [C05.toIndex, Generated.C05_Decisions.toIndex]
  generalize toInteger a = n
  by_cases h : n ≥ 0 ∧ n < maxInt
  · simp [h]
  · have : ¬ (0 ≤ n ∧ n < maxInt) := h
    simp [this]


theorem trunc_sign (f : F64) : (f.neg = true → f.truncInt ≤ 0) ∧ (f.neg = false → 0 ≤ f.truncInt) := by
  constructor <;> intro h <;> simp [F64.truncInt, h]

/-- a non-integral double is small: |trunc| < 2^52 -/
theorem trunc_small_of_nonintegral {f : F64} (h : f.isIntegral = false) : f.truncNat < 2 ^ 52 := by
  simp only [F64.isIntegral] at h
  split at h
  · cases h
  · rename_i hb
    simp only [F64.truncNat, if_neg hb]
    have hs : f.sig < 2 ^ 53 := by
      have := f.hman
      simp only [F64.sig]; split <;> omega
    have hd : 2 ≤ 2 ^ (1075 - f.eff) := by
      have : 2 ^ 1 ≤ 2 ^ (1075 - f.eff) := Nat.pow_le_pow_right (by decide) (by omega)
      simpa using this
    have h1 : f.sig / 2 ^ (1075 - f.eff) ≤ f.sig / 2 := Nat.div_le_div_left hd (by decide)
    omega

theorem truncInt_abs (f : F64) : f.truncInt = (f.truncNat : Int) ∨ f.truncInt = -(f.truncNat : Int) := by
  simp only [F64.truncInt]; split <;> simp

/-- **translated `floatToIntClip` = model** -/
theorem floatToIntClip_tie (n : F64) : D.floatToIntClip n = C05.floatToIntClip n := by
  obtain ⟨_, _, _, c3, c4, _, _⟩ := fconst_vals
  simp only [Generated.C05_Decisions.floatToIntClip, C05.floatToIntClip, c3, c4, isNaN, geI, leI, toInt64]
  rcases nonfinite_cases n with h | h | h
  · obtain ⟨hn, hi⟩ := fin_not_nan_inf h
    obtain ⟨s1, s2⟩ := trunc_sign n
    simp only [hn, hi, Bool.not_false, Bool.true_and, Bool.false_eq_true, if_false, minInt64, maxInt64]
    by_cases hint : n.isIntegral = true
    · obtain ⟨e1, e2⟩ := floorCeil_of_integral hint
      simp only [e1, e2, decide_eq_true_eq]
      repeat' split
      all_goals omega
    · have hint' : n.isIntegral = false := by simpa using hint
      have hsm := trunc_small_of_nonintegral hint'
      have habs := truncInt_abs n
      have a : ¬ (n.truncInt ≥ 2 ^ 63) := by omega
      have b : ¬ (n.truncInt ≤ -(2 ^ 63)) := by omega
      have c : ¬ ((2:Int) ^ 63 ≤ floorInt n) := by
        simp only [floorInt, hint']; split <;> omega
      have d : ¬ (ceilInt n ≤ -(2:Int) ^ 63) := by
        simp only [ceilInt, hint']; split <;> omega
      simp only [decide_eq_true_eq]
      repeat' split
      all_goals omega
  · obtain ⟨hn, _⟩ := inf_not_nan h
    by_cases hs : n.neg = true <;> simp [h, hn, hs]
  · simp [h]

/-- **translated `float64ToInt64Mod` = model**, on the finite doubles it is called with -/
theorem float64ToInt64Mod_tie {f : F64} (hfin : f.isFinite = true) :
    D.float64ToInt64Mod f = C05.float64ToInt64Mod f := by
  obtain ⟨_, _, _, _, _, c5, c6⟩ := fconst_vals
  obtain ⟨hn, hi⟩ := fin_not_nan_inf hfin
  have hfl : (-(2:Int) ^ 63 ≤ floorInt f ∧ floorInt f < 2 ^ 63) ↔ (-(2:Int) ^ 63 ≤ f.truncInt ∧ f.truncInt < 2 ^ 63) := by
    by_cases hint : f.isIntegral = true
    · rw [(floorCeil_of_integral hint).1]
    · have hint' : f.isIntegral = false := by simpa using hint
      have hsm := trunc_small_of_nonintegral hint'
      have habs := truncInt_abs f
      simp only [floorInt, hint']
      split <;> constructor <;> intro _ <;> omega
  have hg : (geI f (fconst (-two63)) && ltI f (fconst two63)) = decide (-(2:Int) ^ 63 ≤ f.truncInt ∧ f.truncInt < 2 ^ 63) := by
    rw [c5, c6]
    simp only [geI, ltI, hn, hi, Bool.not_false, Bool.true_and, Bool.false_eq_true, if_false]
    rw [Bool.eq_iff_iff]
    simp only [Bool.and_eq_true, decide_eq_true_eq]
    exact hfl
  unfold Generated.C05_Decisions.float64ToInt64Mod C05.float64ToInt64Mod
  rw [hg]
  by_cases hc : -(2:Int) ^ 63 ≤ f.truncInt ∧ f.truncInt < 2 ^ 63
  · simp only [hc, and_self, decide_true, if_true]; rfl
  · simp only [hc, decide_false, Bool.false_eq_true, if_false]
    show (let t := goModTwo64 f.truncInt
          let t := if decide (t ≥ (2:Int) ^ 63) then t - 2 ^ 64 else if decide (t < -(2:Int) ^ 63) then t + 2 ^ 64 else t
          t) = _
    simp only [decide_eq_true_eq]


/-! ### single guards of functions whose bodies are outside the translatable subset -/

/-- `_mul`: the `_negativeZero` guard is the model's -/
theorem mulNegZeroGuard_tie (x y : Int) : Generated.C05_Decisions.mulNegZeroGuard x y = mulNegZero x y := by
  simp only [Generated.C05_Decisions.mulNegZeroGuard, mulNegZero]
  rw [Bool.eq_iff_iff]; simp

/-- `_mul`: the overflow test is the condition `opMul` branches on -/
theorem mulFitsGuard_tie (res x y : Int) :
    Generated.C05_Decisions.mulFitsGuard res x y = decide (x = 0 ∨ y = 0 ∨ goQuot res x = y) := by
  simp only [Generated.C05_Decisions.mulFitsGuard]
  rw [Bool.eq_iff_iff]; simp [or_assoc]

/-- `_mod`: division by zero and the negative-zero guard are the conditions `opMod` branches on -/
theorem modGuards_tie (r x y : Int) :
    Generated.C05_Decisions.modDivZeroGuard y = decide (y = 0) ∧
    Generated.C05_Decisions.modNegZeroGuard r x = decide (r = 0 ∧ x < 0) := by
  refine ⟨rfl, ?_⟩
  simp only [Generated.C05_Decisions.modNegZeroGuard]
  rw [Bool.eq_iff_iff]; simp

/-- `parseInt`: the three guards of the accumulation loop are exactly those of `ParseInt.loop`
(`n >= cutoff` — not `>` —, `v >= base`, `n1 < n || n1 > maxVal`) -/
theorem parseIntGuards_tie (n n1 c v base maxVal : Int) :
    Generated.C05_Decisions.parseIntCutoffGuard n c = decide (n ≥ c) ∧
    Generated.C05_Decisions.parseIntBreakGuard v base = decide (v ≥ base) ∧
    Generated.C05_Decisions.parseIntOverflowGuard n n1 maxVal = decide (n1 < n ∨ n1 > maxVal) := by
  refine ⟨rfl, rfl, ?_⟩
  simp only [Generated.C05_Decisions.parseIntOverflowGuard]
  rw [Bool.eq_iff_iff]; simp

/-! ### the six ToIntN conversions (runtime.go) -/

theorem toIntN_tie (v : Num) :
    Generated.C05_Decisions.toInt8 v = toIntS 8 v ∧ Generated.C05_Decisions.toInt16 v = toIntS 16 v ∧
    Generated.C05_Decisions.toInt32 v = toIntS 32 v ∧ Generated.C05_Decisions.toUint8 v = toIntU 8 v ∧
    Generated.C05_Decisions.toUint16 v = toIntU 16 v ∧ Generated.C05_Decisions.toUint32 v = toIntU 32 v := by
  cases v with
  | int i => exact ⟨rfl, rfl, rfl, rfl, rfl, rfl⟩
  | flt f =>
    simp only [Generated.C05_Decisions.toInt8, Generated.C05_Decisions.toInt16, Generated.C05_Decisions.toInt32,
      Generated.C05_Decisions.toUint8, Generated.C05_Decisions.toUint16, Generated.C05_Decisions.toUint32,
      toIntS, toIntU, isNaN, isInfS]
    simp

/-! ### identity operations: `SameAs`, `StrictEquals`, `hash`, key normalisation (value.go, map.go, builtin_array.go) -/

theorem beq_int_decide (i j : Int) : (i == j) = decide (i = j) := by
  rw [Bool.eq_iff_iff]; simp

theorem feq_negZero (f : F64) : F64.feq f F64.negZero = f.isZero := by
  have hz : F64.negZero.isZero = true := by decide
  have hn : F64.negZero.isNaN = false := by decide
  rw [Bool.eq_iff_iff]
  constructor
  · intro h
    simp only [F64.feq, hz, hn, Bool.and_eq_true, Bool.or_eq_true, Bool.not_eq_true', Bool.and_true, beq_iff_eq] at h
    rcases h.2 with h2 | h2
    · exact h2
    · simp only [F64.isZero, Bool.and_eq_true, beq_iff_eq]
      exact ⟨h2.1.2, h2.2⟩
  · intro h
    obtain ⟨he, hm⟩ := zero_fields h
    have hnan : f.isNaN = false := by simp [F64.isNaN, he]
    simp [F64.feq, hz, hn, hnan, h]

/-- **translated `valueFloat.SameAs` / `valueInt.SameAs` = model `sameAs`** -/
theorem sameAs_tie (a b : Num) :
    sameAs a b = (match a with
      | Num.flt f => Generated.C05_Decisions.floatSameAs f b
      | Num.int i => Generated.C05_Decisions.intSameAs i b) := by
  cases a with
  | int i =>
    cases b with
    | int j => simp [Generated.C05_Decisions.intSameAs, sameAs, beq_int_decide]
    | flt g => simp [Generated.C05_Decisions.intSameAs, sameAs]
  | flt f =>
    cases b with
    | int j => simp only [Generated.C05_Decisions.floatSameAs, sameAs, fconst_zero, eqI_zero, signbit]
    | flt g => simp only [Generated.C05_Decisions.floatSameAs, sameAs, fconst_zero, eqI_zero, signbit, isNaN]

/-- **translated `StrictEquals` = model** -/
theorem strictEquals_tie (a b : Num) :
    strictEquals a b = (match a with
      | Num.flt f => Generated.C05_Decisions.floatStrictEquals f b
      | Num.int i => Generated.C05_Decisions.intStrictEquals i b) := by
  cases a <;> cases b <;> simp [Generated.C05_Decisions.floatStrictEquals, Generated.C05_Decisions.intStrictEquals, strictEquals, beq_int_decide]

/-- **translated `hash` = model** -/
theorem hash_tie (a : Num) :
    hash a = (match a with
      | Num.flt f => Generated.C05_Decisions.floatHash f
      | Num.int i => Generated.C05_Decisions.intHash i) := by
  cases a with
  | int i => rfl
  | flt f => simp only [Generated.C05_Decisions.floatHash, Num.hash, feq_negZero]

/-- **the key normalisation of `orderedMap.lookup` and of `includes` is `normKey`** -/
theorem normKey_tie (k : Num) :
    normKey k = (if Generated.C05_Decisions.lookupNormGuard k then int 0 else k) ∧
    Generated.C05_Decisions.includesSearchNormGuard k = Generated.C05_Decisions.lookupNormGuard k := by
  refine ⟨?_, rfl⟩
  cases k with
  | int i => simp [normKey, Generated.C05_Decisions.lookupNormGuard, valueEqFloat]
  | flt f => simp only [normKey, Generated.C05_Decisions.lookupNormGuard, valueEqFloat, feq_negZero]


/-! ### string → number helpers (string_ascii.go) -/

/-- **translated `radixPrefix` = model** -/
theorem radixPrefix_tie (ss : List Nat) : Generated.C05_Decisions.radixPrefix ss = (StrNum.radixPrefix ss : Int) := by
  unfold Generated.C05_Decisions.radixPrefix
  match ss with
  | [] => simp [StrNum.radixPrefix]
  | [a] => simp [StrNum.radixPrefix]
  | [a, b] => simp [StrNum.radixPrefix]
  | a :: p :: c :: rest =>
    have hl : ((a :: p :: c :: rest).length : Int) > 2 := by simp; omega
    simp only [hl, decide_true, Bool.true_and, List.getD_cons_zero, List.getD_cons_succ]
    by_cases ha : a = 0x30
    · subst ha
      simp only [decide_true, if_true, StrNum.radixPrefix, StrNum.radixOfLetter, Bool.or_eq_true, decide_eq_true_eq]
      by_cases h1 : p = 0x78 ∨ p = 0x58
      · simp [h1]
      · by_cases h2 : p = 0x6F ∨ p = 0x4F
        · simp [h1, h2]
        · by_cases h3 : p = 0x62 ∨ p = 0x42 <;> simp [h1, h2, h3]
    · have : StrNum.radixPrefix (a :: p :: c :: rest) = 0 := by
        unfold StrNum.radixPrefix
        split
        · rename_i heq; injection heq with h _; exact absurd h ha
        · rfl
      simp [ha, this]


/-- **translated `stringToInt` = model**, on the non-empty trimmed strings it is called with in `mechT` -/
theorem stringToInt_tie {ss : List Nat} (hne : ss ≠ []) :
    Generated.C05_Decisions.stringToInt ss = StrNum.stringToInt ss := by
  cases ss with
  | nil => exact absurd rfl hne
  | cons a as =>
  have hcons : decide (a :: as = ([] : List Nat)) = false := by simp
  by_cases hrp : StrNum.radixPrefix (a :: as) = 0
  · have hb : decide ((Generated.C05_Decisions.radixPrefix (a :: as)) ≠ 0) = false := by
      rw [radixPrefix_tie, hrp]; decide
    unfold Generated.C05_Decisions.stringToInt
    simp only [hcons, hb, Bool.false_eq_true, if_false, StrNum.stringToInt, hrp, ne_eq, not_true_eq_false]
    have h10 : ((10 : Int)).toNat = 10 := rfl
    rw [h10]
    cases hg : StrNum.goParseInt (a :: as) 10 with
    | none => simp
    | some i =>
      simp only [List.getD_cons_zero, List.head?_cons, Option.some.injEq, Bool.true_and]
      by_cases hc : i = 0 ∧ a = 0x2D
      · simp [hc.1, hc.2]
      · by_cases hi : i = 0
        · have ha : ¬ a = 0x2D := fun h => hc ⟨hi, h⟩
          simp [hi, ha]
        · simp [hi]
  · obtain ⟨p, c, rest, ht, hp⟩ := StrNum.radixPrefix_shape hrp
    injection ht with h1 h2
    subst h1; subst h2
    have hrp' : StrNum.radixPrefix (0x30 :: p :: c :: rest) = StrNum.radixOfLetter p := rfl
    have hb : decide ((Generated.C05_Decisions.radixPrefix (0x30 :: p :: c :: rest)) ≠ 0) = true := by
      rw [radixPrefix_tie, hrp']; simp; omega
    unfold Generated.C05_Decisions.stringToInt
    simp only [hcons, hb, Bool.false_eq_true, if_false, if_true, radixPrefix_tie, hrp', Int.toNat_natCast]
    simp only [StrNum.stringToInt, hrp', hp, ne_eq, not_false_eq_true, if_true, List.getD_cons_succ, List.getD_cons_zero,
      List.drop, Bool.or_eq_true, decide_eq_true_eq]
    have : ¬ ((StrNum.radixOfLetter p : Int) = 0) := by omega
    rw [if_pos this]


/-- the cache read by `intToValue` holds `valueInt(i - 256)` at index `i` (what the translation of `intCache[idx]` assumes) -/
theorem intCache_tie : Generated.C05_Decisions.intCacheInit = "intCache[i] = valueInt(i - 256)" := by rfl

end GojaModel.C05.DecTie
