/-
  C05 — the int64 accumulation loop of builtin_global.go `parseInt` (cutoff / maxVal overflow detection) with Go's
  wrapping arithmetic, and the proof that it never wraps before `parseLargeInt` takes over.  Core Lean only.
-/
import GojaModel.C05.Model
import GojaModel.C05.StrNum
namespace GojaModel.C05.ParseInt
open GojaModel GojaModel.Num GojaModel.C05

/-- outcome of the accumulation loop of builtin_global.go `parseInt`: the int64 accumulator when the digits end (or an
invalid digit is met), or the hand-over to `parseLargeInt` (which re-reads the digits with math/big) -/
inductive Out where
  | small (n : Int)
  | large
deriving DecidableEq, Repr

/-- `cutoff = math.MaxInt64/int64(base) + 1` ("the smallest number such that cutoff*base > maxInt64") -/
def cutoff (base : Nat) : Int := maxInt64 / (base : Int) + 1

/-- the loop `for ; i < len(s); i++ { if n >= cutoff {large}; v := digitVal(s[i]); if v >= base {break};
n *= base; n1 := n + v; if n1 < n || n1 > maxVal {large}; n = n1 }` with Go's WRAPPING int64 arithmetic -/
def loop (base : Nat) : Int → List Nat → Out
  | n, [] => .small n
  | n, c :: cs =>
    if n ≥ cutoff base then .large                        -- n >= cutoff
    else
      let v := StrNum.digitVal c
      if v ≥ base then .small n                           -- v >= base: break
      else
        let m := wrapS 64 (n * base)                      -- n *= int64(base)
        let n1 := wrapS 64 (m + v)                        -- n1 := n + int64(v)
        if n1 < m ∨ n1 > maxInt64 then .large             -- n1 < n || n1 > maxVal
        else loop base n1 cs

/-- the same loop with the seeded defect `n > cutoff` (regression witness only) -/
def loopGt (base : Nat) : Int → List Nat → Out
  | n, [] => .small n
  | n, c :: cs =>
    if n > cutoff base then .large
    else
      let v := StrNum.digitVal c
      if v ≥ base then .small n
      else
        let m := wrapS 64 (n * base)
        let n1 := wrapS 64 (m + v)
        if n1 < m ∨ n1 > maxInt64 then .large
        else loopGt base n1 cs

/-- exact (unbounded) value of the longest valid digit prefix, Horner from `n` -/
def exact (base : Nat) : Int → List Nat → Int
  | n, [] => n
  | n, c :: cs => if StrNum.digitVal c ≥ base then n else exact base (n * base + StrNum.digitVal c) cs

theorem mul_le_of_lt_cutoff {base : Nat} (hb : 2 ≤ base) {n : Int} (h : ¬ n ≥ cutoff base) : n * (base : Int) ≤ maxInt64 := by
  have hpos : (0 : Int) < (base : Int) := by omega
  have : n ≤ maxInt64 / (base : Int) := by simp only [cutoff] at h; omega
  exact (Int.le_ediv_iff_mul_le hpos).1 this

/-- **The int64 accumulation never wraps**: whenever the loop ends with an int64 result, that result is the exact
value of the digits read, and it fits (0 ≤ … ≤ MaxInt64); in every other case `parseLargeInt` takes over. -/
theorem loop_exact {base : Nat} (hb : 2 ≤ base) (hb36 : base ≤ 36) :
    ∀ (ds : List Nat) (n r : Int), 0 ≤ n → n ≤ maxInt64 → loop base n ds = .small r →
      r = exact base n ds ∧ 0 ≤ r ∧ r ≤ maxInt64 := by
  intro ds
  induction ds with
  | nil => intro n r h0 h1 h; simp only [loop] at h; cases h; exact ⟨rfl, h0, h1⟩
  | cons c cs ih =>
    intro n r h0 h1 h
    simp only [loop] at h
    split at h
    · cases h
    · rename_i hc
      split at h
      · cases h; rename_i hv; simp only [exact, hv, if_true]; exact ⟨trivial, h0, h1⟩
      · rename_i hv
        have hmul := mul_le_of_lt_cutoff hb hc
        have hnn : 0 ≤ n * (base : Int) := Int.mul_nonneg h0 (by omega)
        have hv' : (StrNum.digitVal c : Int) < 36 := by omega
        have hv0 : (0 : Int) ≤ (StrNum.digitVal c : Int) := by omega
        generalize hm : n * (base : Int) = m at *
        generalize hw : (StrNum.digitVal c : Int) = v at *
        have e1 : wrapS 64 m = m := by simp only [wrapS, maxInt64] at *; omega
        rw [e1] at h
        split at h
        · cases h
        · rename_i hov
          have hfit : m + v ≤ maxInt64 := by
            apply Classical.byContradiction; intro hc2
            apply hov; left
            simp only [wrapS, maxInt64] at *; omega
          have e2 : wrapS 64 (m + v) = m + v := by simp only [wrapS, maxInt64] at *; omega
          rw [e2] at h
          have := ih (m + v) r (by omega) hfit h
          simp only [exact, hv, if_false]
          rw [hm, hw]; exact this


theorem exact_mono {base : Nat} : ∀ (ds : List Nat) (n : Int), 0 ≤ n → n ≤ exact base n ds := by
  intro ds
  induction ds with
  | nil => intro n _; simp [exact]
  | cons c cs ih =>
    intro n h0
    simp only [exact]
    split
    · omega
    · by_cases hb : base = 0
      · subst hb; rename_i hv; exact absurd (Nat.zero_le _) hv
      · have h1 : n * 1 ≤ n * (base : Int) := Int.mul_le_mul_of_nonneg_left (by omega) h0
        have h2 : (0 : Int) ≤ (StrNum.digitVal c : Int) := by omega
        have := ih (n * (base : Int) + (StrNum.digitVal c : Int)) (by omega)
        omega

/-- the hand-over happens only for values of at least `cutoff` (> 2^53 for every base ≤ 36), so the raw `valueFloat`
built by `parseLargeInt` (an audited NumSites entry) can never be a safe integer -/
theorem large_is_big {base : Nat} (hb : 2 ≤ base) (hb36 : base ≤ 36) :
    ∀ (ds : List Nat) (n : Int), 0 ≤ n → n ≤ maxInt64 → loop base n ds = .large → cutoff base ≤ exact base n ds := by
  intro ds
  induction ds with
  | nil => intro n _ _ h; simp [loop] at h
  | cons c cs ih =>
    intro n h0 h1 h
    simp only [loop] at h
    split at h
    · rename_i hc
      exact Int.le_trans hc (exact_mono (c :: cs) n h0)
    · rename_i hc
      split at h
      · cases h
      · rename_i hv
        have hmul := mul_le_of_lt_cutoff hb hc
        have hnn : 0 ≤ n * (base : Int) := Int.mul_nonneg h0 (by omega)
        have hv' : (StrNum.digitVal c : Int) < 36 := by omega
        have hv0 : (0 : Int) ≤ (StrNum.digitVal c : Int) := by omega
        have hcut : cutoff base ≤ maxInt64 := by
          simp only [cutoff]
          have hq0 : 0 ≤ maxInt64 / (base : Int) := Int.ediv_nonneg (by decide) (by omega)
          have hq1 : maxInt64 / (base : Int) * (base : Int) ≤ maxInt64 := Int.ediv_mul_le _ (by omega)
          have hq2 : maxInt64 / (base : Int) * 2 ≤ maxInt64 / (base : Int) * (base : Int) :=
            Int.mul_le_mul_of_nonneg_left (by omega) hq0
          generalize maxInt64 / (base : Int) = q at *
          simp only [maxInt64] at *; omega
        simp only [exact, hv, if_false]
        generalize hm : n * (base : Int) = m at *
        generalize hw : (StrNum.digitVal c : Int) = v at *
        have e1 : wrapS 64 m = m := by simp only [wrapS, maxInt64] at *; omega
        rw [e1] at h
        split at h
        · -- overflow detected: exact value m + v > MaxInt64 ≥ cutoff
          rename_i hov
          have hbig : maxInt64 < m + v := by
            apply Classical.byContradiction; intro hc2
            have e2 : wrapS 64 (m + v) = m + v := by simp only [wrapS, maxInt64] at *; omega
            rw [e2] at hov; omega
          exact Int.le_trans (by omega) (exact_mono cs (m + v) (by omega))
        · rename_i hov
          have hfit : m + v ≤ maxInt64 := by
            apply Classical.byContradiction; intro hc2
            apply hov; left
            simp only [wrapS, maxInt64] at *; omega
          have e2 : wrapS 64 (m + v) = m + v := by simp only [wrapS, maxInt64] at *; omega
          rw [e2] at h
          exact ih (m + v) (by omega) hfit h


/-- what `parseInt` makes of the digits after sign and prefix: NaN when there is no valid leading digit (`i == 0`),
else the int64 accumulator, else (`parseLargeInt`, math/big) the exact value of the longest valid prefix -/
def digitsResult (base : Nat) (ds : List Nat) : Option Int :=
  match ds with
  | [] => none
  | c :: _ =>
    if StrNum.digitVal c ≥ base then none
    else match loop base 0 ds with
      | .small n => some n
      | .large => some (exact base 0 ds)

/-- **`parseInt` returns the exact integer value of the longest valid digit prefix** (to be rounded once to the
nearest double), for every base 2..36 and every text: the int64 fast path and the big-integer path agree with the
mathematical value. -/
theorem digitsResult_exact {base : Nat} (hb : 2 ≤ base) (hb36 : base ≤ 36) (ds : List Nat) :
    digitsResult base ds =
      (match ds with
       | [] => none
       | c :: _ => if StrNum.digitVal c ≥ base then none else some (exact base 0 ds)) := by
  cases ds with
  | nil => rfl
  | cons c cs =>
    simp only [digitsResult]
    split
    · rfl
    · cases h : loop base 0 (c :: cs) with
      | large => rfl
      | small n =>
        have := (loop_exact hb hb36 (c :: cs) 0 n (by decide) (by decide) h).1
        simp [this]

/-- ASCII code points of a digit string -/
def cps (s : String) : List Nat := s.toList.map Char.toNat

end GojaModel.C05.ParseInt
