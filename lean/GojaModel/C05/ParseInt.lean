/-
  C05 — the int64 accumulation loop of builtin_global.go `parseInt` (cutoff / maxVal overflow detection) with Go's
  wrapping arithmetic, and the proof that it never wraps before `parseLargeInt` takes over.  Core Lean only.
-/
import GojaModel.C05.Model
import GojaModel.C05.StrNum
namespace GojaModel.C05.ParseInt
open GojaModel GojaModel.Num GojaModel.C05

/-- outcome of the accumulation loop of builtin_global.go `parseInt`: the int64 accumulator when the digits end (or an
invalid digit is met), or the hand-over to `parseLargeInt` (which re-reads the digits with math/big) -/
inductive Out where
  | small (n : Int)
  | large
deriving DecidableEq, Repr

/-- `cutoff = math.MaxInt64/int64(base) + 1` ("the smallest number such that cutoff*base > maxInt64") -/
def cutoff (base : Nat) : Int := maxInt64 / (base : Int) + 1

/-- the loop `for ; i < len(s); i++ { if n >= cutoff {large}; v := digitVal(s[i]); if v >= base {break};
n *= base; n1 := n + v; if n1 < n || n1 > maxVal {large}; n = n1 }` with Go's WRAPPING int64 arithmetic -/
def loop (base : Nat) : Int → List Nat → Out
  | n, [] => .small n
  | n, c :: cs =>
    if n ≥ cutoff base then .large                        -- n >= cutoff
    else
      let v := StrNum.digitVal c
      if v ≥ base then .small n                           -- v >= base: break
      else
        let m := wrapS 64 (n * base)                      -- n *= int64(base)
        let n1 := wrapS 64 (m + v)                        -- n1 := n + int64(v)
        if n1 < m ∨ n1 > maxInt64 then .large             -- n1 < n || n1 > maxVal
        else loop base n1 cs

/-- the same loop with the seeded defect `n > cutoff` (regression witness only) -/
def loopGt (base : Nat) : Int → List Nat → Out
  | n, [] => .small n
  | n, c :: cs =>
    if n > cutoff base then .large
    else
      let v := StrNum.digitVal c
      if v ≥ base then .small n
      else
        let m := wrapS 64 (n * base)
        let n1 := wrapS 64 (m + v)
        if n1 < m ∨ n1 > maxInt64 then .large
        else loopGt base n1 cs

/-- exact (unbounded) value of the longest valid digit prefix, Horner from `n` -/
def exact (base : Nat) : Int → List Nat → Int
  | n, [] => n
  | n, c :: cs => if StrNum.digitVal c ≥ base then n else exact base (n * base + StrNum.digitVal c) cs

theorem mul_le_of_lt_cutoff {base : Nat} (hb : 2 ≤ base) {n : Int} (h : ¬ n ≥ cutoff base) : n * (base : Int) ≤ maxInt64 := by
  have hpos : (0 : Int) < (base : Int) := by omega
  have : n ≤ maxInt64 / (base : Int) := by simp only [cutoff] at h; omega
  exact (Int.le_ediv_iff_mul_le hpos).1 this

/-- **The int64 accumulation never wraps**: whenever the loop ends with an int64 result, that result is the exact
value of the digits read, and it fits (0 ≤ … ≤ MaxInt64); in every other case `parseLargeInt` takes over. -/
theorem loop_exact {base : Nat} (hb : 2 ≤ base) (hb36 : base ≤ 36) :
    ∀ (ds : List Nat) (n r : Int), 0 ≤ n → n ≤ maxInt64 → loop base n ds = .small r →
      r = exact base n ds ∧ 0 ≤ r ∧ r ≤ maxInt64 := by
  intro ds
  induction ds with
  | nil => intro n r h0 h1 h; simp only [loop] at h; cases h; exact ⟨rfl, h0, h1⟩
  | cons c cs ih =>
    intro n r h0 h1 h
    simp only [loop] at h
    split at h
    · cases h
    · rename_i hc
      split at h
      · cases h; rename_i hv; simp only [exact, hv, if_true]; exact ⟨trivial, h0, h1⟩
      · rename_i hv
        have hmul := mul_le_of_lt_cutoff hb hc
        have hnn : 0 ≤ n * (base : Int) := Int.mul_nonneg h0 (by omega)
        have hv' : (StrNum.digitVal c : Int) < 36 := by omega
        have hv0 : (0 : Int) ≤ (StrNum.digitVal c : Int) := by omega
        generalize hm : n * (base : Int) = m at *
        generalize hw : (StrNum.digitVal c : Int) = v at *
        have e1 : wrapS 64 m = m := by simp only [wrapS, maxInt64] at *; omega
        rw [e1] at h
        split at h
        · cases h
        · rename_i hov
          have hfit : m + v ≤ maxInt64 := by
            apply Classical.byContradiction; intro hc2
            apply hov; left
            simp only [wrapS, maxInt64] at *; omega
          have e2 : wrapS 64 (m + v) = m + v := by simp only [wrapS, maxInt64] at *; omega
          rw [e2] at h
          have := ih (m + v) r (by omega) hfit h
          simp only [exact, hv, if_false]
          rw [hm, hw]; exact this


theorem exact_mono {base : Nat} : ∀ (ds : List Nat) (n : Int), 0 ≤ n → n ≤ exact base n ds := by
  intro ds
  induction ds with
  | nil => intro n _; simp [exact]
  | cons c cs ih =>
    intro n h0
    simp only [exact]
    split
    · omega
    · by_cases hb : base = 0
      · subst hb; rename_i hv; exact absurd (Nat.zero_le _) hv
      · have h1 : n * 1 ≤ n * (base : Int) := Int.mul_le_mul_of_nonneg_left (by omega) h0
        have h2 : (0 : Int) ≤ (StrNum.digitVal c : Int) := by omega
        have := ih (n * (base : Int) + (StrNum.digitVal c : Int)) (by omega)
        omega

/-- the hand-over happens only for values of at least `cutoff` (> 2^53 for every base ≤ 36), so the raw `valueFloat`
built by `parseLargeInt` (an audited NumSites entry) can never be a safe integer -/
theorem large_is_big {base : Nat} (hb : 2 ≤ base) (hb36 : base ≤ 36) :
    ∀ (ds : List Nat) (n : Int), 0 ≤ n → n ≤ maxInt64 → loop base n ds = .large → cutoff base ≤ exact base n ds := by
  intro ds
  induction ds with
  | nil => intro n _ _ h; simp [loop] at h
  | cons c cs ih =>
    intro n h0 h1 h
    simp only [loop] at h
    split at h
    · rename_i hc
      exact Int.le_trans hc (exact_mono (c :: cs) n h0)
    · rename_i hc
      split at h
      · cases h
      · rename_i hv
        have hmul := mul_le_of_lt_cutoff hb hc
        have hnn : 0 ≤ n * (base : Int) := Int.mul_nonneg h0 (by omega)
        have hv' : (StrNum.digitVal c : Int) < 36 := by omega
        have hv0 : (0 : Int) ≤ (StrNum.digitVal c : Int) := by omega
        have hcut : cutoff base ≤ maxInt64 := by
          simp only [cutoff]
          have hq0 : 0 ≤ maxInt64 / (base : Int) := Int.ediv_nonneg (by decide) (by omega)
          have hq1 : maxInt64 / (base : Int) * (base : Int) ≤ maxInt64 := Int.ediv_mul_le _ (by omega)
          have hq2 : maxInt64 / (base : Int) * 2 ≤ maxInt64 / (base : Int) * (base : Int) :=
            Int.mul_le_mul_of_nonneg_left (by omega) hq0
          generalize maxInt64 / (base : Int) = q at *
          simp only [maxInt64] at *; omega
        simp only [exact, hv, if_false]
        generalize hm : n * (base : Int) = m at *
        generalize hw : (StrNum.digitVal c : Int) = v at *
        have e1 : wrapS 64 m = m := by simp only [wrapS, maxInt64] at *; omega
        rw [e1] at h
        split at h
        · -- overflow detected: exact value m + v > MaxInt64 ≥ cutoff
          rename_i hov
          have hbig : maxInt64 < m + v := by
            apply Classical.byContradiction; intro hc2
            have e2 : wrapS 64 (m + v) = m + v := by simp only [wrapS, maxInt64] at *; omega
            rw [e2] at hov; omega
          exact Int.le_trans (by omega) (exact_mono cs (m + v) (by omega))
        · rename_i hov
          have hfit : m + v ≤ maxInt64 := by
            apply Classical.byContradiction; intro hc2
            apply hov; left
            simp only [wrapS, maxInt64] at *; omega
          have e2 : wrapS 64 (m + v) = m + v := by simp only [wrapS, maxInt64] at *; omega
          rw [e2] at h
          exact ih (m + v) (by omega) hfit h


/-- what `parseInt` makes of the digits after sign and prefix: NaN when there is no valid leading digit (`i == 0`),
else the int64 accumulator, else (`parseLargeInt`, math/big) the exact value of the longest valid prefix -/
def digitsResult (base : Nat) (ds : List Nat) : Option Int :=
  match ds with
  | [] => none
  | c :: _ =>
    if StrNum.digitVal c ≥ base then none
    else match loop base 0 ds with
      | .small n => some n
      | .large => some (exact base 0 ds)

/-- **`parseInt` returns the exact integer value of the longest valid digit prefix** (to be rounded once to the
nearest double), for every base 2..36 and every text: the int64 fast path and the big-integer path agree with the
mathematical value. -/
theorem digitsResult_exact {base : Nat} (hb : 2 ≤ base) (hb36 : base ≤ 36) (ds : List Nat) :
    digitsResult base ds =
      (match ds with
       | [] => none
       | c :: _ => if StrNum.digitVal c ≥ base then none else some (exact base 0 ds)) := by
  cases ds with
  | nil => rfl
  | cons c cs =>
    simp only [digitsResult]
    split
    · rfl
    · cases h : loop base 0 (c :: cs) with
      | large => rfl
      | small n =>
        have := (loop_exact hb hb36 (c :: cs) 0 n (by decide) (by decide) h).1
        simp [this]


/-- result of `parseInt`: NaN or a signed exact integer (`neg ∧ n = 0` is `-0`) to be rounded once -/
inductive PRes where
  | nan
  | val (neg : Bool) (n : Int)
deriving DecidableEq, Repr

def isHexPrefix : List Nat → Bool
  | 0x30 :: x :: _ => decide (x = 0x78 ∨ x = 0x58)
  | _ => false

/-- builtin_global.go `parseInt(s, base)` on the trimmed text, `base` = ToInt32(radix) -/
def mech (t : List Nat) (base : Int) : PRes :=
  if t.isEmpty then .nan else                                   -- len(s) < 1
  let sign := decide (t.head? = some 0x2D)
  let s := if t.head? = some 0x2D ∨ t.head? = some 0x2B then t.drop 1 else t
  if s.isEmpty then .nan else                                   -- len(s) < 1 after the sign
  -- "Look for hex prefix": s[0]=='0' && len(s)>1 && (s[1]=='x'||'X'), only when base is 0 or 16
  let strip := isHexPrefix s && (decide (base = 0) || decide (base = 16))
  let s2 := if strip then s.drop 2 else s
  let b2 : Int := if strip then 16 else base
  if s2.isEmpty then .nan                                       -- case len(s) < 1
  else
    let b3 : Option Nat :=
      if 2 ≤ b2 ∧ b2 ≤ 36 then some b2.toNat                    -- valid base
      else if b2 = 0 then some 10                               -- base == 0 (a hex prefix was already consumed above)
      else none                                                 -- invalid base
    match b3 with
    | none => .nan
    | some b =>
      match digitsResult b s2 with
      | none => .nan                                            -- i == 0
      | some n => .val sign n                                   -- sign ∧ n = 0 ↦ _negativeZero, else intToValue(±n)

/-- ECMA-262 19.2.5 parseInt(string, radix), steps 3-16, on the trimmed text; `R` = ToInt32(radix) -/
def spec (t : List Nat) (R : Int) : PRes :=
  let sign := decide (t.head? = some 0x2D)                                              -- 4
  let s := if t.head? = some 0x2D ∨ t.head? = some 0x2B then t.drop 1 else t             -- 5
  if R ≠ 0 ∧ (R < 2 ∨ R > 36) then .nan                                                 -- 8.a
  else
    let stripPrefix := decide (R = 0) || decide (R = 16)                                 -- 7, 8.b
    let R1 : Int := if R = 0 then 10 else R                                             -- 9
    let strip := stripPrefix && isHexPrefix s                                            -- 10
    let s2 := if strip then s.drop 2 else s
    let R2 : Int := if strip then 16 else R1
    -- 11-16: Z = longest prefix of radix-R2 digits; empty → NaN; else the exact value, with the sign (−0 for a zero)
    match s2 with
    | [] => .nan
    | c :: _ =>
      if StrNum.digitVal c ≥ R2.toNat then .nan
      else .val sign (exact R2.toNat 0 s2)

theorem digits_cons {b : Nat} (hb : 2 ≤ b) (hb36 : b ≤ 36) (sign : Bool) (c : Nat) (cs : List Nat) :
    (match digitsResult b (c :: cs) with
      | none => PRes.nan
      | some n => PRes.val sign n) =
    if StrNum.digitVal c ≥ b then PRes.nan else PRes.val sign (exact b 0 (c :: cs)) := by
  rw [digitsResult_exact hb hb36]
  simp only
  by_cases h : StrNum.digitVal c ≥ b
  · simp only [h, if_true]
  · simp only [h, if_false]

/-- **`parseInt` = ECMA-262 parseInt**, for every trimmed text and every radix: sign, `0x` prefix, radix validation,
and the exact value of the longest digit prefix (to be rounded once to the nearest double). -/
theorem mech_eq_spec (t : List Nat) (R : Int) : mech t R = spec t R := by
  unfold mech spec
  by_cases hte : t.isEmpty = true
  · have : t = [] := by simpa using hte
    subst this
    simp only [List.isEmpty_nil, if_true]
    by_cases hR : R ≠ 0 ∧ (R < 2 ∨ R > 36)
    · rw [if_pos hR]
    · rw [if_neg hR]; simp [isHexPrefix]
  · simp only [hte, Bool.false_eq_true, if_false]
    generalize hs : (if t.head? = some 0x2D ∨ t.head? = some 0x2B then t.drop 1 else t) = s
    generalize decide (t.head? = some 0x2D) = sign
    by_cases hR : R ≠ 0 ∧ (R < 2 ∨ R > 36)
    · -- invalid radix: never 0 or 16, so no prefix is stripped and the base test fails
      rw [if_pos hR]
      have h0 : ¬ R = 0 := hR.1
      have h16 : ¬ R = 16 := by omega
      have hv : ¬ (2 ≤ R ∧ R ≤ 36) := by omega
      have hstrip : (isHexPrefix s && (decide (R = 0) || decide (R = 16))) = false := by simp [h0, h16]
      simp only [hstrip, Bool.false_eq_true, if_false]
      simp only [hv, h0, if_false]
      by_cases h1 : s.isEmpty = true
      · simp only [h1, if_true]
      · simp only [h1, Bool.false_eq_true, if_false]
    · rw [if_neg hR]
      by_cases hse : s.isEmpty = true
      · have : s = [] := by simpa using hse
        subst this
        simp [isHexPrefix]
      · simp only [hse, Bool.false_eq_true, if_false]
        by_cases hstrip : (isHexPrefix s && (decide (R = 0) || decide (R = 16))) = true
        · have hstrip' : ((decide (R = 0) || decide (R = 16)) && isHexPrefix s) = true := by
            rw [Bool.and_comm]; exact hstrip
          simp only [hstrip, hstrip', if_true]
          have hv : (2 : Int) ≤ 16 ∧ (16 : Int) ≤ 36 := by decide
          simp only [hv, and_self, if_true]
          have e16 : (16 : Int).toNat = 16 := rfl
          rw [e16]
          cases hd : s.drop 2 with
          | nil => simp
          | cons c cs =>
            simp only [List.isEmpty_cons, Bool.false_eq_true, if_false]
            exact digits_cons (by decide) (by decide) sign c cs
        · have hstrip1 : (isHexPrefix s && (decide (R = 0) || decide (R = 16))) = false := by simpa using hstrip
          have hstrip' : ((decide (R = 0) || decide (R = 16)) && isHexPrefix s) = false := by
            rw [Bool.and_comm]; exact hstrip1
          simp only [hstrip1, hstrip', Bool.false_eq_true, if_false, hse]
          cases s with
          | nil => simp at hse
          | cons c cs =>
            by_cases h0 : R = 0
            · subst h0
              have hv : ¬ ((2 : Int) ≤ 0 ∧ (0 : Int) ≤ 36) := by decide
              simp only [hv, if_false, if_true]
              have e10 : (10 : Int).toNat = 10 := rfl
              rw [e10]
              exact digits_cons (by decide) (by decide) sign c cs
            · have hv : 2 ≤ R ∧ R ≤ 36 := by omega
              simp only [hv, and_self, if_true, h0, if_false]
              exact digits_cons (by omega) (by omega) sign c cs


/-- the double `parseInt` returns: the exact value rounded once (ties to even), `-0` for a negative zero -/
def PRes.toF64 : PRes → F64
  | .nan => F64.canonNaN
  | .val neg n => if n = 0 then ⟨neg, 0, 0, by decide, by decide⟩ else F64.ofInt (if neg then -n else n)

/-- ASCII code points of a digit string -/
def cps (s : String) : List Nat := s.toList.map Char.toNat

end GojaModel.C05.ParseInt
