/-
  C16 — names maps: the invariant behind `names_program_maps_readonly`.
-/
import GojaModel.C16.Names
set_option linter.unusedSimpArgs false
set_option linter.unusedVariables false
namespace GojaModel.C16.Names

theorem target_mem {stk : List Stash} {t : Stash} (h : target stk = some t) : t ∈ stk := by
  unfold target at h
  split at h
  · next t' hf =>
    cases h
    exact List.mem_of_find?_eq_some hf
  · cases stk with
    | nil => simp at h
    | cons a rest => simp at h; subst h; exact List.mem_cons_self ..

theorem delTarget_some {maps : Nat → NMap} {n : String} :
    ∀ {stk : List Stash} {id : Nat}, delTarget maps stk n = some id →
      (∃ s ∈ stk, s.map = id) ∧ ∃ e ∈ maps id, e.deletable = true := by
  intro stk
  induction stk with
  | nil => intro id h; simp [delTarget] at h
  | cons s rest ih =>
    intro id h
    simp only [delTarget] at h
    split at h
    · next e he =>
      split at h
      · next hd =>
        cases h
        exact ⟨⟨s, List.mem_cons_self .., rfl⟩, e, List.mem_of_find?_eq_some he, hd⟩
      · simp at h
    · obtain ⟨⟨s', hs', hm⟩, he⟩ := ih h
      exact ⟨⟨s', List.mem_cons_of_mem _ hs', hm⟩, he⟩

/-- Program-owned maps are as compiled, have no deletable entries, and every stash either aliases a Program map
(not `own`) or holds a private copy allocated after `bound`. -/
structure NInv (bound : Nat) (m0 : Nat → NMap) (st : St) : Prop where
  bnd : bound ≤ st.next
  ro : ∀ id, id < bound → st.maps id = m0 id
  clean : ∀ id, id < bound → ∀ e ∈ m0 id, e.deletable = false
  shape : ∀ rt, ∀ s ∈ st.stacks rt, (s.own = false → s.map < bound) ∧ (s.own = true → bound ≤ s.map ∧ s.map < st.next)

theorem ninv_step {bound : Nat} {m0 : Nat → NMap} {st : St} (rt : Nat) (op : Op)
    (inv : NInv bound m0 st) (h : hOK st rt op = true) : NInv bound m0 (step bound st rt op) := by
  obtain ⟨bnd, ro, clean, shape⟩ := inv
  cases op with
  | enterFunc pm ext =>
    simp only [step]
    split
    · next hpm =>
      cases ext <;> simp only [if_true, if_false, Bool.false_eq_true, reduceIte]
      · -- alias
        refine ⟨bnd, ro, clean, ?_⟩
        intro r s hs
        simp only [setStack] at hs
        by_cases hr : r = rt
        · subst hr
          simp at hs
          rcases hs with rfl | hs
          · simp [hpm]
          · exact shape r s hs
        · simp [hr] at hs; exact shape r s hs
      · -- private copy
        refine ⟨by simp [setStack, setMap]; omega, ?_, clean, ?_⟩
        · intro id hid
          have : id ≠ st.next := by omega
          simp [setStack, setMap, this, ro id hid]
        · intro r s hs
          simp only [setStack, setMap] at hs ⊢
          by_cases hr : r = rt
          · subst hr
            simp at hs
            rcases hs with rfl | hs
            · simp; omega
            · have := shape r s hs
              constructor
              · exact this.1
              · intro ho; have := this.2 ho; omega
          · simp [hr] at hs
            have := shape r s hs
            constructor
            · exact this.1
            · intro ho; have := this.2 ho; omega
    · exact ⟨bnd, ro, clean, shape⟩
  | enterBlock pm =>
    simp only [step]
    split
    · next hpm =>
      refine ⟨bnd, ro, clean, ?_⟩
      intro r s hs
      simp only [setStack] at hs
      by_cases hr : r = rt
      · subst hr
        simp at hs
        rcases hs with rfl | hs
        · simp [hpm]
        · exact shape r s hs
      · simp [hr] at hs; exact shape r s hs
    · exact ⟨bnd, ro, clean, shape⟩
  | copyStash =>
    simp only [step]
    split
    · next s0 rest hst =>
      refine ⟨bnd, ro, clean, ?_⟩
      intro r s hs
      simp only [setStack] at hs
      by_cases hr : r = rt
      · subst hr
        simp at hs
        rcases hs with rfl | hs
        · exact shape r s0 (by rw [hst]; exact List.mem_cons_self ..)
        · exact shape r s (by rw [hst]; exact List.mem_cons_of_mem _ hs)
      · simp [hr] at hs; exact shape r s hs
    · exact ⟨bnd, ro, clean, shape⟩
  | leave =>
    simp only [step]
    refine ⟨bnd, ro, clean, ?_⟩
    intro r s hs
    simp only [setStack] at hs
    by_cases hr : r = rt
    · subst hr
      simp at hs
      exact shape r s (List.mem_of_mem_tail hs)
    · simp [hr] at hs; exact shape r s hs
  | bindVar n d =>
    simp only [step]
    split
    · next t ht =>
      have hown : t.own = true := by simpa [hOK, ht] using h
      have hmem := target_mem ht
      have hge := ((shape rt t hmem).2 hown).1
      refine ⟨bnd, ?_, clean, ?_⟩
      · intro id hid
        have : id ≠ t.map := by omega
        simp [setMap, this, ro id hid]
      · intro r s hs
        exact shape r s (by simpa [setMap] using hs)
    · exact ⟨bnd, ro, clean, shape⟩
  | deleteVar n =>
    simp only [step]
    split
    · next id hid =>
      obtain ⟨_, e, he, hd⟩ := delTarget_some hid
      have hge : bound ≤ id := by
        apply Nat.le_of_not_lt
        intro hlt
        rw [ro id hlt] at he
        have := clean id hlt e he
        rw [this] at hd
        exact absurd hd (by decide)
      refine ⟨bnd, ?_, clean, ?_⟩
      · intro id' hid'
        have : id' ≠ id := by omega
        simp [setMap, this, ro id' hid']
      · intro r s hs
        exact shape r s (by simpa [setMap] using hs)
    · exact ⟨bnd, ro, clean, shape⟩

theorem ninv_run {bound : Nat} {m0 : Nat → NMap} (ops : List (Nat × Op)) :
    ∀ st, NInv bound m0 st → allH bound st ops = true → NInv bound m0 (run bound st ops) := by
  induction ops with
  | nil => intro st inv _; exact inv
  | cons x rest ih =>
    intro st inv h
    obtain ⟨rt, op⟩ := x
    simp only [allH, Bool.and_eq_true] at h
    exact ih _ (ninv_step rt op inv h.1) h.2

/-! ### private copies are private: steps of other Runtimes are invisible -/

/-- A private copy held by one Runtime is referenced by no stash of another Runtime. -/
def Priv (st : St) : Prop :=
  ∀ q1 q2, q1 ≠ q2 → ∀ s1 ∈ st.stacks q1, ∀ s2 ∈ st.stacks q2, s1.own = true → s1.map ≠ s2.map

theorem stash_lt_next {bound : Nat} {m0 : Nat → NMap} {st : St} (inv : NInv bound m0 st) {rt : Nat} {s : Stash}
    (hs : s ∈ st.stacks rt) : s.map < st.next := by
  have := inv.shape rt s hs
  cases ho : s.own
  · have := this.1 ho; have := inv.bnd; omega
  · exact (this.2 ho).2

theorem priv_step {bound : Nat} {m0 : Nat → NMap} {st : St} (rt : Nat) (op : Op)
    (inv : NInv bound m0 st) (pv : Priv st) : Priv (step bound st rt op) := by
  -- membership in a stack after the step implies membership before, or being the freshly pushed stash
  cases op with
  | enterFunc pm ext =>
    simp only [step]
    split
    · next hpm =>
      cases ext <;> simp only [if_true, if_false, Bool.false_eq_true, reduceIte]
      · intro q1 q2 hne s1 h1 s2 h2 ho
        simp only [setStack] at h1 h2
        by_cases e1 : q1 = rt <;> by_cases e2 : q2 = rt <;> simp [e1, e2] at h1 h2
        · exact absurd (e1.trans e2.symm) hne
        · rcases h1 with rfl | h1
          · simp at ho
          · exact pv q1 q2 hne s1 (e1 ▸ h1) s2 h2 ho
        · rcases h2 with rfl | h2
          · have := ((inv.shape q1 s1 h1).2 ho).1; simp; omega
          · exact pv q1 q2 hne s1 h1 s2 (e2 ▸ h2) ho
        · exact pv q1 q2 hne s1 h1 s2 h2 ho
      · intro q1 q2 hne s1 h1 s2 h2 ho
        simp only [setStack, setMap] at h1 h2
        by_cases e1 : q1 = rt <;> by_cases e2 : q2 = rt <;> simp [e1, e2] at h1 h2
        · exact absurd (e1.trans e2.symm) hne
        · rcases h1 with rfl | h1
          · have := stash_lt_next inv h2; simp; omega
          · exact pv q1 q2 hne s1 (e1 ▸ h1) s2 h2 ho
        · rcases h2 with rfl | h2
          · have := stash_lt_next inv h1; simp; omega
          · exact pv q1 q2 hne s1 h1 s2 (e2 ▸ h2) ho
        · exact pv q1 q2 hne s1 h1 s2 h2 ho
    · exact pv
  | enterBlock pm =>
    simp only [step]
    split
    · next hpm =>
      intro q1 q2 hne s1 h1 s2 h2 ho
      simp only [setStack] at h1 h2
      by_cases e1 : q1 = rt <;> by_cases e2 : q2 = rt <;> simp [e1, e2] at h1 h2
      · exact absurd (e1.trans e2.symm) hne
      · rcases h1 with rfl | h1
        · simp at ho
        · exact pv q1 q2 hne s1 (e1 ▸ h1) s2 h2 ho
      · rcases h2 with rfl | h2
        · have := ((inv.shape q1 s1 h1).2 ho).1; simp; omega
        · exact pv q1 q2 hne s1 h1 s2 (e2 ▸ h2) ho
      · exact pv q1 q2 hne s1 h1 s2 h2 ho
    · exact pv
  | copyStash =>
    simp only [step]
    split
    · next s0 rest hst =>
      intro q1 q2 hne s1 h1 s2 h2 ho
      simp only [setStack] at h1 h2
      have mem0 : s0 ∈ st.stacks rt := by rw [hst]; exact List.mem_cons_self ..
      have memr : ∀ x, x ∈ rest → x ∈ st.stacks rt := fun x hx => by rw [hst]; exact List.mem_cons_of_mem _ hx
      by_cases e1 : q1 = rt <;> by_cases e2 : q2 = rt <;> simp [e1, e2] at h1 h2
      · exact absurd (e1.trans e2.symm) hne
      · rcases h1 with rfl | h1
        · exact pv rt q2 (e1 ▸ hne) s0 mem0 s2 h2 (by simpa using ho)
        · exact pv rt q2 (e1 ▸ hne) s1 (memr _ h1) s2 h2 ho
      · rcases h2 with rfl | h2
        · exact pv q1 rt (e2 ▸ hne) s1 h1 s0 mem0 ho
        · exact pv q1 rt (e2 ▸ hne) s1 h1 s2 (memr _ h2) ho
      · exact pv q1 q2 hne s1 h1 s2 h2 ho
    · exact pv
  | leave =>
    simp only [step]
    intro q1 q2 hne s1 h1 s2 h2 ho
    simp only [setStack] at h1 h2
    by_cases e1 : q1 = rt <;> by_cases e2 : q2 = rt <;> simp [e1, e2] at h1 h2
    · exact absurd (e1.trans e2.symm) hne
    · exact pv rt q2 (e1 ▸ hne) s1 (List.mem_of_mem_tail h1) s2 h2 ho
    · exact pv q1 rt (e2 ▸ hne) s1 h1 s2 (List.mem_of_mem_tail h2) ho
    · exact pv q1 q2 hne s1 h1 s2 h2 ho
  | bindVar n d =>
    simp only [step]
    split
    · intro q1 q2 hne s1 h1 s2 h2 ho
      exact pv q1 q2 hne s1 (by simpa [setMap] using h1) s2 (by simpa [setMap] using h2) ho
    · exact pv
  | deleteVar n =>
    simp only [step]
    split
    · intro q1 q2 hne s1 h1 s2 h2 ho
      exact pv q1 q2 hne s1 (by simpa [setMap] using h1) s2 (by simpa [setMap] using h2) ho
    · exact pv

/-- One step of another Runtime `q` does not change what Runtime `r` sees. -/
theorem view_step_other {bound : Nat} {m0 : Nat → NMap} {st : St} (q r : Nat) (op : Op) (hqr : q ≠ r)
    (inv : NInv bound m0 st) (pv : Priv st) (h : hOK st q op = true) : view (step bound st q op) r = view st r := by
  have hrq : ¬ r = q := fun e => hqr e.symm
  -- it suffices that the stack of r is unchanged and the maps it references are unchanged
  have key : ∀ st' : St, st'.stacks r = st.stacks r → (∀ s ∈ st.stacks r, st'.maps s.map = st.maps s.map) → view st' r = view st r := by
    intro st' hs hm
    unfold view
    rw [hs]
    apply List.map_congr_left
    intro s hsm
    rw [hm s hsm]
  cases op with
  | enterFunc pm ext =>
    simp only [step]
    split
    · cases ext <;> simp only [if_true, if_false, Bool.false_eq_true, reduceIte]
      · apply key
        · simp [setStack, hrq]
        · intro s hs; rfl
      · apply key
        · simp [setStack, setMap, hrq]
        · intro s hs
          have := stash_lt_next inv hs
          have hne : s.map ≠ st.next := by omega
          simp [setStack, setMap, hne]
    · rfl
  | enterBlock pm =>
    simp only [step]
    split
    · apply key
      · simp [setStack, hrq]
      · intro s hs; rfl
    · rfl
  | copyStash =>
    simp only [step]
    split
    · apply key
      · simp [setStack, hrq]
      · intro s hs; rfl
    · rfl
  | leave =>
    simp only [step]
    apply key
    · simp [setStack, hrq]
    · intro s hs; rfl
  | bindVar n d =>
    simp only [step]
    split
    · next t ht =>
      have hown : t.own = true := by simpa [hOK, ht] using h
      have hmem := target_mem ht
      apply key
      · simp [setMap]
      · intro s hs
        have hne : s.map ≠ t.map := fun e => pv q r hqr t hmem s hs hown e.symm
        simp [setMap, hne]
    · rfl
  | deleteVar n =>
    simp only [step]
    split
    · next id hid =>
      obtain ⟨⟨s0, hs0, hm0⟩, e, he, hd⟩ := delTarget_some hid
      -- the map belongs to a private copy of q (Program maps have no deletable entry)
      have hge : bound ≤ id := by
        apply Nat.le_of_not_lt
        intro hlt
        rw [inv.ro id hlt] at he
        have := inv.clean id hlt e he
        rw [this] at hd
        exact absurd hd (by decide)
      have hown : s0.own = true := by
        cases ho : s0.own
        · have := (inv.shape q s0 hs0).1 ho; omega
        · rfl
      apply key
      · simp [setMap]
      · intro s hs
        have hne : s.map ≠ id := fun e' => pv q r hqr s0 hs0 s hs hown (by rw [hm0, e'])
        simp [setMap, hne]
    · rfl

theorem others_invisible {bound : Nat} {m0 : Nat → NMap} (r : Nat) (ops : List (Nat × Op)) :
    ∀ st, NInv bound m0 st → Priv st → (∀ x ∈ ops, x.1 ≠ r) → allH bound st ops = true →
      view (run bound st ops) r = view st r := by
  induction ops with
  | nil => intro st _ _ _ _; rfl
  | cons x rest ih =>
    intro st inv pv hr h
    obtain ⟨q, op⟩ := x
    simp only [allH, Bool.and_eq_true] at h
    have hq : q ≠ r := hr (q, op) (List.mem_cons_self ..)
    simp only [run]
    rw [ih _ (ninv_step q op inv h.1) (priv_step q op inv pv) (fun y hy => hr y (List.mem_cons_of_mem _ hy)) h.2]
    exact view_step_other q r op hq inv pv h.1

end GojaModel.C16.Names
