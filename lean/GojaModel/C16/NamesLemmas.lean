/-
  C16 — names maps: the invariant behind `names_program_maps_readonly`.
-/
import GojaModel.C16.Names
set_option linter.unusedSimpArgs false
set_option linter.unusedVariables false
namespace GojaModel.C16.Names

theorem target_mem {stk : List Stash} {t : Stash} (h : target stk = some t) : t ∈ stk := by
  unfold target at h
  split at h
  · next t' hf =>
    cases h
    exact List.mem_of_find?_eq_some hf
  · cases stk with
    | nil => simp at h
    | cons a rest => simp at h; subst h; exact List.mem_cons_self ..

theorem delTarget_some {maps : Nat → NMap} {n : String} :
    ∀ {stk : List Stash} {id : Nat}, delTarget maps stk n = some id →
      (∃ s ∈ stk, s.map = id) ∧ ∃ e ∈ maps id, e.deletable = true := by
  intro stk
  induction stk with
  | nil => intro id h; simp [delTarget] at h
  | cons s rest ih =>
    intro id h
    simp only [delTarget] at h
    split at h
    · next e he =>
      split at h
      · next hd =>
        cases h
        exact ⟨⟨s, List.mem_cons_self .., rfl⟩, e, List.mem_of_find?_eq_some he, hd⟩
      · simp at h
    · obtain ⟨⟨s', hs', hm⟩, he⟩ := ih h
      exact ⟨⟨s', List.mem_cons_of_mem _ hs', hm⟩, he⟩

/-- Program-owned maps are as compiled, have no deletable entries; every stash a Runtime ever created either aliases
a Program map (not `own`) or holds a private copy allocated after `bound`; the current chain consists of such stashes. -/
structure NInv (bound : Nat) (m0 : Nat → NMap) (st : St) : Prop where
  bnd : bound ≤ st.next
  ro : ∀ id, id < bound → st.maps id = m0 id
  clean : ∀ id, id < bound → ∀ e ∈ m0 id, e.deletable = false
  shape : ∀ rt, ∀ s ∈ st.pool rt, (s.own = false → s.map < bound) ∧ (s.own = true → bound ≤ s.map ∧ s.map < st.next)
  sub : ∀ rt, ∀ s ∈ st.stacks rt, s ∈ st.pool rt

/-- membership in pool / chain after `push` -/
theorem mem_push_pool {st : St} {rt r : Nat} {s0 x : Stash} {rest : List Stash}
    (h : x ∈ (push st rt s0 rest).pool r) : (r = rt ∧ x = s0) ∨ x ∈ st.pool r := by
  simp only [push] at h
  by_cases hr : r = rt
  · simp [hr] at h
    rcases h with h | h
    · exact Or.inl ⟨hr, h⟩
    · exact Or.inr (hr ▸ h)
  · simp [hr] at h; exact Or.inr h

theorem mem_push_stack {st : St} {rt r : Nat} {s0 x : Stash} {rest : List Stash}
    (h : x ∈ (push st rt s0 rest).stacks r) : (r = rt ∧ (x = s0 ∨ x ∈ rest)) ∨ (r ≠ rt ∧ x ∈ st.stacks r) := by
  simp only [push] at h
  by_cases hr : r = rt
  · simp [hr] at h; exact Or.inl ⟨hr, h⟩
  · simp [hr] at h; exact Or.inr ⟨hr, h⟩

theorem push_sub {st : St} {rt : Nat} {s0 : Stash} {rest : List Stash}
    (hsub : ∀ r, ∀ s ∈ st.stacks r, s ∈ st.pool r) (hrest : ∀ x ∈ rest, x ∈ st.pool rt) :
    ∀ r, ∀ s ∈ (push st rt s0 rest).stacks r, s ∈ (push st rt s0 rest).pool r := by
  intro r s hs
  rcases mem_push_stack hs with ⟨hr, h⟩ | ⟨hr, h⟩
  · subst hr
    simp only [push]; simp
    rcases h with h | h
    · exact Or.inl h
    · exact Or.inr (hrest s h)
  · simp only [push]; simp [hr]; exact hsub r s h

theorem ninv_step {bound : Nat} {m0 : Nat → NMap} {st : St} (rt : Nat) (op : Op)
    (inv : NInv bound m0 st) (h : hOK st rt op = true) : NInv bound m0 (step bound st rt op) := by
  obtain ⟨bnd, ro, clean, shape, sub⟩ := inv
  cases op with
  | enterFunc pm ext =>
    simp only [step]
    split
    · next hpm =>
      cases ext <;> simp only [if_true, if_false, Bool.false_eq_true, reduceIte]
      · -- alias
        refine ⟨bnd, ro, clean, ?_, push_sub sub (sub rt)⟩
        intro r s hs
        rcases mem_push_pool hs with ⟨_, rfl⟩ | hs
        · simp [hpm]
        · exact shape r s hs
      · -- private copy
        refine ⟨by simp [push, setMap]; omega, ?_, clean, ?_, ?_⟩
        · intro id hid
          have : id ≠ st.next := by omega
          simp [push, setMap, this, ro id hid]
        · intro r s hs
          have hs' : (r = rt ∧ s = ⟨st.next, true, true⟩) ∨ s ∈ st.pool r := by
            have := mem_push_pool (st := setMap st st.next (st.maps pm)) (rest := st.stacks rt)
              (show s ∈ (push (setMap st st.next (st.maps pm)) rt ⟨st.next, true, true⟩ (st.stacks rt)).pool r from hs)
            simpa [setMap] using this
          rcases hs' with ⟨_, rfl⟩ | hs'
          · simp [push, setMap]; omega
          · have := shape r s hs'
            simp only [push, setMap]
            constructor
            · exact this.1
            · intro ho; have := this.2 ho; omega
        · have := push_sub (st := setMap st st.next (st.maps pm)) (rt := rt) (s0 := ⟨st.next, true, true⟩) (rest := st.stacks rt)
            (by simpa [setMap] using sub) (by simpa [setMap] using sub rt)
          simpa [push, setMap] using this
    · exact ⟨bnd, ro, clean, shape, sub⟩
  | enterBlock pm =>
    simp only [step]
    split
    · next hpm =>
      refine ⟨bnd, ro, clean, ?_, push_sub sub (sub rt)⟩
      intro r s hs
      rcases mem_push_pool hs with ⟨_, rfl⟩ | hs
      · simp [hpm]
      · exact shape r s hs
    · exact ⟨bnd, ro, clean, shape, sub⟩
  | copyStash =>
    simp only [step]
    split
    · next s0 rest hst =>
      have mem0 : s0 ∈ st.pool rt := sub rt s0 (by rw [hst]; exact List.mem_cons_self ..)
      have memr : ∀ x ∈ rest, x ∈ st.pool rt := fun x hx => sub rt x (by rw [hst]; exact List.mem_cons_of_mem _ hx)
      refine ⟨bnd, ro, clean, ?_, push_sub sub memr⟩
      intro r s hs
      rcases mem_push_pool hs with ⟨_, rfl⟩ | hs
      · exact shape rt s0 mem0
      · exact shape r s hs
    · exact ⟨bnd, ro, clean, shape, sub⟩
  | leave =>
    simp only [step]
    refine ⟨bnd, ro, clean, shape, ?_⟩
    intro r s hs
    simp only [setStack] at hs ⊢
    by_cases hr : r = rt
    · subst hr
      simp at hs
      exact sub r s (List.mem_of_mem_tail hs)
    · simp [hr] at hs; exact sub r s hs
  | switch chain =>
    simp only [step]
    refine ⟨bnd, ro, clean, shape, ?_⟩
    intro r s hs
    simp only [setStack] at hs ⊢
    by_cases hr : r = rt
    · subst hr
      simp at hs
      obtain ⟨i, _, hi⟩ := hs
      exact List.mem_of_getElem? hi
    · simp [hr] at hs; exact sub r s hs
  | bindVar n d =>
    simp only [step]
    split
    · next t ht =>
      have hown : t.own = true := by simpa [hOK, ht] using h
      have hmem := sub rt t (target_mem ht)
      have hge := ((shape rt t hmem).2 hown).1
      refine ⟨bnd, ?_, clean, ?_, ?_⟩
      · intro id hid
        have : id ≠ t.map := by omega
        simp [setMap, this, ro id hid]
      · intro r s hs
        exact shape r s (by simpa [setMap] using hs)
      · intro r s hs
        exact sub r s (by simpa [setMap] using hs)
    · exact ⟨bnd, ro, clean, shape, sub⟩
  | deleteVar n =>
    simp only [step]
    split
    · next id hid =>
      obtain ⟨_, e, he, hd⟩ := delTarget_some hid
      have hge : bound ≤ id := by
        apply Nat.le_of_not_lt
        intro hlt
        rw [ro id hlt] at he
        have := clean id hlt e he
        rw [this] at hd
        exact absurd hd (by decide)
      refine ⟨bnd, ?_, clean, ?_, ?_⟩
      · intro id' hid'
        have : id' ≠ id := by omega
        simp [setMap, this, ro id' hid']
      · intro r s hs
        exact shape r s (by simpa [setMap] using hs)
      · intro r s hs
        exact sub r s (by simpa [setMap] using hs)
    · exact ⟨bnd, ro, clean, shape, sub⟩

theorem ninv_run {bound : Nat} {m0 : Nat → NMap} (ops : List (Nat × Op)) :
    ∀ st, NInv bound m0 st → allH bound st ops = true → NInv bound m0 (run bound st ops) := by
  induction ops with
  | nil => intro st inv _; exact inv
  | cons x rest ih =>
    intro st inv h
    obtain ⟨rt, op⟩ := x
    simp only [allH, Bool.and_eq_true] at h
    exact ih _ (ninv_step rt op inv h.1) h.2

/-! ### private copies are private: steps of other Runtimes are invisible -/

/-- A private copy created by one Runtime is referenced by no stash of another Runtime (whether on a current chain,
captured by a closure or suspended in a generator). -/
def Priv (st : St) : Prop :=
  ∀ q1 q2, q1 ≠ q2 → ∀ s1 ∈ st.pool q1, ∀ s2 ∈ st.pool q2, s1.own = true → s1.map ≠ s2.map

theorem stash_lt_next {bound : Nat} {m0 : Nat → NMap} {st : St} (inv : NInv bound m0 st) {rt : Nat} {s : Stash}
    (hs : s ∈ st.pool rt) : s.map < st.next := by
  have := inv.shape rt s hs
  cases ho : s.own
  · have := this.1 ho; have := inv.bnd; omega
  · exact (this.2 ho).2

/-- `push` of a stash whose map no other Runtime's stash references, and that (if not own) is a Program map -/
theorem priv_push {bound : Nat} {m0 : Nat → NMap} {st : St} (inv : NInv bound m0 st) (pv : Priv st) (rt : Nat) (s0 : Stash) (rest : List Stash)
    (h1 : s0.own = true → ∀ q, q ≠ rt → ∀ s ∈ st.pool q, s0.map ≠ s.map)
    (h2 : ∀ q, q ≠ rt → ∀ s ∈ st.pool q, s.own = true → s.map ≠ s0.map) : Priv (push st rt s0 rest) := by
  intro q1 q2 hne s1 hs1 s2 hs2 ho
  rcases mem_push_pool hs1 with ⟨e1, rfl⟩ | hs1' <;> rcases mem_push_pool hs2 with ⟨e2, rfl⟩ | hs2'
  · exact absurd (e1.trans e2.symm) hne
  · exact h1 ho q2 (fun e => hne (e1.trans e.symm)) s2 hs2'
  · exact h2 q1 (fun e => hne (e.trans e2.symm)) s1 hs1' ho
  · exact pv q1 q2 hne s1 hs1' s2 hs2' ho

theorem priv_step {bound : Nat} {m0 : Nat → NMap} {st : St} (rt : Nat) (op : Op)
    (inv : NInv bound m0 st) (pv : Priv st) : Priv (step bound st rt op) := by
  cases op with
  | enterFunc pm ext =>
    simp only [step]
    split
    · next hpm =>
      cases ext <;> simp only [if_true, if_false, Bool.false_eq_true, reduceIte]
      · apply priv_push inv pv
        · intro ho; simp at ho
        · intro q _ s hs ho
          have := ((inv.shape q s hs).2 ho).1
          simp; omega
      · have inv' : NInv bound m0 (setMap st st.next (st.maps pm)) := by
          refine ⟨inv.bnd, ?_, inv.clean, inv.shape, inv.sub⟩
          intro id hid
          have := inv.bnd
          have hne : id ≠ st.next := by omega
          simp [setMap, hne, inv.ro id hid]
        have pv' : Priv (setMap st st.next (st.maps pm)) := pv
        have key := priv_push inv' pv' rt ⟨st.next, true, true⟩ (st.stacks rt)
          (by intro _ q _ s hs; have := stash_lt_next inv (by simpa [setMap] using hs); simp; omega)
          (by intro q _ s hs _; have := stash_lt_next inv (by simpa [setMap] using hs); simp; omega)
        intro q1 q2 hne s1 hs1 s2 hs2 ho
        exact key q1 q2 hne s1 (by simpa [push, setMap] using hs1) s2 (by simpa [push, setMap] using hs2) ho
    · exact pv
  | enterBlock pm =>
    simp only [step]
    split
    · next hpm =>
      apply priv_push inv pv
      · intro ho; simp at ho
      · intro q _ s hs ho
        have := ((inv.shape q s hs).2 ho).1
        simp; omega
    · exact pv
  | copyStash =>
    simp only [step]
    split
    · next s0 rest hst =>
      have mem0 : s0 ∈ st.pool rt := inv.sub rt s0 (by rw [hst]; exact List.mem_cons_self ..)
      apply priv_push inv pv
      · intro ho q hq s hs
        exact pv rt q (fun e => hq e.symm) s0 mem0 s hs (by simpa using ho)
      · intro q hq s hs ho
        exact pv q rt hq s hs s0 mem0 ho
    · exact pv
  | leave =>
    simp only [step]
    intro q1 q2 hne s1 h1 s2 h2 ho
    exact pv q1 q2 hne s1 (by simpa [setStack] using h1) s2 (by simpa [setStack] using h2) ho
  | switch chain =>
    simp only [step]
    intro q1 q2 hne s1 h1 s2 h2 ho
    exact pv q1 q2 hne s1 (by simpa [setStack] using h1) s2 (by simpa [setStack] using h2) ho
  | bindVar n d =>
    simp only [step]
    split
    · intro q1 q2 hne s1 h1 s2 h2 ho
      exact pv q1 q2 hne s1 (by simpa [setMap] using h1) s2 (by simpa [setMap] using h2) ho
    · exact pv
  | deleteVar n =>
    simp only [step]
    split
    · intro q1 q2 hne s1 h1 s2 h2 ho
      exact pv q1 q2 hne s1 (by simpa [setMap] using h1) s2 (by simpa [setMap] using h2) ho
    · exact pv

/-- One step of another Runtime `q` changes nothing Runtime `r` can reach: neither its current chain nor any stash
it ever created. -/
theorem view_step_other {bound : Nat} {m0 : Nat → NMap} {st : St} (q r : Nat) (op : Op) (hqr : q ≠ r)
    (inv : NInv bound m0 st) (pv : Priv st) (h : hOK st q op = true) :
    view (step bound st q op) r = view st r ∧ poolView (step bound st q op) r = poolView st r := by
  have hrq : ¬ r = q := fun e => hqr e.symm
  have key : ∀ st' : St, st'.stacks r = st.stacks r → st'.pool r = st.pool r →
      (∀ s ∈ st.pool r, st'.maps s.map = st.maps s.map) → view st' r = view st r ∧ poolView st' r = poolView st r := by
    intro st' hs hp hm
    unfold view poolView
    rw [hs, hp]
    constructor
    · apply List.map_congr_left
      intro s hsm
      rw [hm s (inv.sub r s hsm)]
    · apply List.map_congr_left
      intro s hsm
      rw [hm s hsm]
  cases op with
  | enterFunc pm ext =>
    simp only [step]
    split
    · cases ext <;> simp only [if_true, if_false, Bool.false_eq_true, reduceIte]
      · apply key
        · simp [push, hrq]
        · simp [push, hrq]
        · intro s hs; rfl
      · apply key
        · simp [push, setMap, hrq]
        · simp [push, setMap, hrq]
        · intro s hs
          have := stash_lt_next inv hs
          have hne : s.map ≠ st.next := by omega
          simp [push, setMap, hne]
    · exact ⟨rfl, rfl⟩
  | enterBlock pm =>
    simp only [step]
    split
    · apply key
      · simp [push, hrq]
      · simp [push, hrq]
      · intro s hs; rfl
    · exact ⟨rfl, rfl⟩
  | copyStash =>
    simp only [step]
    split
    · apply key
      · simp [push, hrq]
      · simp [push, hrq]
      · intro s hs; rfl
    · exact ⟨rfl, rfl⟩
  | leave =>
    simp only [step]
    apply key
    · simp [setStack, hrq]
    · simp [setStack]
    · intro s hs; rfl
  | switch chain =>
    simp only [step]
    apply key
    · simp [setStack, hrq]
    · simp [setStack]
    · intro s hs; rfl
  | bindVar n d =>
    simp only [step]
    split
    · next t ht =>
      have hown : t.own = true := by simpa [hOK, ht] using h
      have hmem := inv.sub q t (target_mem ht)
      apply key
      · simp [setMap]
      · simp [setMap]
      · intro s hs
        have hne : s.map ≠ t.map := fun e => pv q r hqr t hmem s hs hown e.symm
        simp [setMap, hne]
    · exact ⟨rfl, rfl⟩
  | deleteVar n =>
    simp only [step]
    split
    · next id hid =>
      obtain ⟨⟨s0, hs0, hm0⟩, e, he, hd⟩ := delTarget_some hid
      have hs0p := inv.sub q s0 hs0
      have hge : bound ≤ id := by
        apply Nat.le_of_not_lt
        intro hlt
        rw [inv.ro id hlt] at he
        have := inv.clean id hlt e he
        rw [this] at hd
        exact absurd hd (by decide)
      have hown : s0.own = true := by
        cases ho : s0.own
        · have := (inv.shape q s0 hs0p).1 ho; omega
        · rfl
      apply key
      · simp [setMap]
      · simp [setMap]
      · intro s hs
        have hne : s.map ≠ id := fun e' => pv q r hqr s0 hs0p s hs hown (by rw [hm0, e'])
        simp [setMap, hne]
    · exact ⟨rfl, rfl⟩

theorem others_invisible {bound : Nat} {m0 : Nat → NMap} (r : Nat) (ops : List (Nat × Op)) :
    ∀ st, NInv bound m0 st → Priv st → (∀ x ∈ ops, x.1 ≠ r) → allH bound st ops = true →
      view (run bound st ops) r = view st r ∧ poolView (run bound st ops) r = poolView st r := by
  induction ops with
  | nil => intro st _ _ _ _; exact ⟨rfl, rfl⟩
  | cons x rest ih =>
    intro st inv pv hr h
    obtain ⟨q, op⟩ := x
    simp only [allH, Bool.and_eq_true] at h
    have hq : q ≠ r := hr (q, op) (List.mem_cons_self ..)
    simp only [run]
    have h1 := ih _ (ninv_step q op inv h.1) (priv_step q op inv pv) (fun y hy => hr y (List.mem_cons_of_mem _ hy)) h.2
    have h2 := view_step_other q r op hq inv pv h.1
    exact ⟨h1.1.trans h2.1, h1.2.trans h2.2⟩

/-! ### the compiler's side: (R1)–(R4) give `allH` -/

theorem contract_find (cs : List CScope) :
    ∀ v, firstVar cs = some v → v.strict = false →
      (rtChain (markEval cs)).find? (·.isVar) = some ⟨v.mapId, true, true⟩ := by
  induction cs with
  | nil => intro v h; simp [firstVar] at h
  | cons sc rest ih =>
    intro v hv hs
    by_cases hsv : sc.isVar = true
    · have : v = sc := by simpa [firstVar, List.find?, hsv] using hv.symm
      subst this
      simp [markEval, hsv, hs, rtChain, List.find?]
    · have hsv' : sc.isVar = false := by simpa using hsv
      have hv' : firstVar rest = some v := by simpa [firstVar, List.find?, hsv'] using hv
      have := ih v hv' hs
      simp only [markEval, hsv', Bool.false_eq_true, if_false, rtChain, List.filterMap_cons]
      cases hds : (sc.dyn || sc.stash)
      · simpa [rtChain] using this
      · simp only [if_true, List.find?, hsv', Bool.false_eq_true]
        simpa [rtChain] using this

/-- If the innermost variable scope of the chain in which a direct eval is compiled is not strict, then at run time the
stash bindVars targets owns a private copy of its names map — (R1)–(R4) give `allH`. -/
theorem contract_target_own (cs : List CScope) (v : CScope) (hv : firstVar cs = some v) (hs : v.strict = false)
    (t : Stash) (ht : target (rtChain (markEval cs)) = some t) : t.own = true := by
  have hf := contract_find cs v hv hs
  simp [target, hf] at ht
  subst ht
  rfl

end GojaModel.C16.Names
