/-
  C16 — property theorems (every `theorem` here is one audited proof obligation).

  Scope note (`_partial`): the data-race-freedom statements are about the regenerated ACCESS TABLE and the PROTOCOL
  MODEL in the happens-before semantics of Model.lean (program order + atomic release/acquire + sync.Once), not about
  the Go binary; Go's memory model, the scheduler and sync/atomic are trusted.  The -race correspondence of
  run/c16.py exhibits actual races.
-/
import GojaModel.C16.Lemmas
import GojaModel.C16.NamesLemmas
import GojaModel.C16.Clone
import GojaModel.C16.Scopes
import GojaModel.Generated.C16_Share
namespace GojaModel.C16

/-! ### Program is read-only after compile; runs are isolated -/

/-- General form, full strength inside the sharing machine: for every access table in which every row is a private
write or a known-safe escape, Program memory is the same after ANY interleaving of ANY instructions run by ANY number
of runtimes, whatever the instructions compute. -/
theorem program_readonly_of_table (tbl : List ExecAcc) (h : tableReadonly tbl = true)
    (I : Interp) (sched : List (Nat × String)) (w : World) : (runW tbl I w sched).prog = w.prog :=
  runW_prog h I sched w

/-- General form of isolation: a run's result is a function of the Program and its own Runtime's state — after any
interleaving with any other runtimes, runtime r's memory equals what it is after running r's instructions alone. -/
theorem run_isolated_of_table (tbl : List ExecAcc) (h : tableReadonly tbl = true)
    (I : Interp) (r : Nat) (sched : List (Nat × String)) (w : World) :
    (runW tbl I w sched).own r = (runW tbl I w (onlyOf r sched)).own r :=
  runW_isolated_gen h I r sched w w rfl rfl

/-- The table regenerated from the CURRENT source is, row for row and in order, the audited table `safeRows`.
Any other row — a write through a receiver, a new escape, a dropped `.clone()` / `cloneTemplateValues`, a changed guard
such as a missing `!extensible` — falsifies this. -/
theorem exec_table_shape : Generated.execAcc = safeRows := by decide

/-- No `exec` method of vm.go (nor a helper method of an instruction type reached from one) writes through its
receiver or through an alias of a reference-typed field of it, and every escape / call row is an audited one. -/
theorem exec_table_readonly :
    tableReadonly Generated.execAcc = true ∧ (∀ a ∈ Generated.execAcc, a.kind = "write" → a.isLocal = true) :=
  ⟨exec_table_shape ▸ tableReadonly_safeRows, by decide⟩

/-- Program is read-only after compile, on the table of the current source and for EVERY schedule: Program memory is
the same after any interleaving of any instructions run by any number of runtimes, whatever the instructions compute.
(Table / sharing-machine level, see the scope note.) -/
theorem program_readonly (I : Interp) (sched : List (Nat × String)) (w : World) :
    (runW Generated.execAcc I w sched).prog = w.prog :=
  runW_prog exec_table_readonly.1 I sched w

/-- A run's result is a function of the Program and its own Runtime's state: after any interleaving with any other
runtimes, runtime r's memory equals what it is after running r's instructions alone from the same start. -/
theorem run_isolated (I : Interp) (r : Nat) (sched : List (Nat × String)) (w : World) :
    (runW Generated.execAcc I w sched).own r = (runW Generated.execAcc I w (onlyOf r sched)).own r :=
  runW_isolated_gen exec_table_readonly.1 I r sched w w rfl rfl

/-- Regression lemma about the mechanism BEFORE fix 85b307c (template slices handed straight to setArrayValues): the
only unsafe rows of that table were the two tagged-template rows … -/
theorem template_rows_prefix_witness :
    (∀ a ∈ execAccPrefix, a.noSharedWrite = false → a ∈ templateSharedRows) ∧
    (∀ a ∈ templateSharedRows, a ∈ execAccPrefix ∧ a.noSharedWrite = false) :=
  ⟨current_unsafe_rows, by decide⟩

/-- … and isolation really depended on them: with the tagged-template rows in the table (template slots reachable
from every runtime) there are instruction semantics and a schedule on which runtime 1's result depends on whether
runtime 0 ran — e.g. runtime 0 freezes the template object, runtime 1 reads the slot's flags. -/
theorem template_sharing_prefix_witness :
    ∃ (I : Interp) (sched : List (Nat × String)) (w : World),
      (runW templateSharedRows I w sched).own 1 0 ≠ (runW templateSharedRows I w (onlyOf 1 sched)).own 1 0 := by
  refine ⟨{ ownNext := fun _ p _ => p, progNext := fun _ _ _ => fun _ => 1 },
    [(0, "getTaggedTmplObject"), (1, "getTaggedTmplObject")], { prog := fun _ => 0, own := fun _ _ => 0 }, ?_⟩
  decide

/-! ### The lazy memo of importedString -/

/-- Data-race freedom of the once-style memo protocol (atomic flag + sync.Once), full strength inside the model:
any number of threads, any number of forcing / peeking client operations per thread, any schedule. -/
theorem memo_drf (sv : Nat) (sched : List (Nat × Op)) (h : ∀ x ∈ sched, x.2 ≠ .raw) :
    (runM onceCfg sv initM sched).raced = false :=
  (dinv_run sv sched h initM dinv_init).nr

/-- In the once-style protocol the scan runs at most once: `u` is written at most once, whatever the schedule. -/
theorem memo_once_single_write (sv : Nat) (sched : List (Nat × Op)) (h : ∀ x ∈ sched, x.2 ≠ .raw) :
    ∀ t, ((runM onceCfg sv initM sched).thr t).pc = .f3 → (runM onceCfg sv initM sched).histU = [] := by
  intro t ht
  have inv := dinv_run sv sched h initM dinv_init
  apply Classical.byContradiction
  intro hne
  exact inv.late2 hne t ht

/-- A string that was scanned by its constructor before being published (newScannedImportedString: Go strings of at
most 16 bytes with non-ASCII content, runtime.go toValue) is race free and value-correct as well: every thread sees the
flag set, nobody scans again, `u` is only ever read. -/
theorem memo_prescanned_drf (sv : Nat) (sched : List (Nat × Op)) (h : ∀ x ∈ sched, x.2 ≠ .raw) :
    (runM onceCfg sv (initScanned sv) sched).raced = false ∧ (runM onceCfg sv (initScanned sv) sched).bad = false ∧
    ∀ a ∈ (runM onceCfg sv (initScanned sv) sched).histU, a.wr = false :=
  let inv := pinv_run sv sched h _ (pinv_init sv)
  ⟨inv.nr, inv.nb, inv.rd⟩

/-- The schedule of `memo_unsync_prefix_witness`: thread 0 forces the scan to completion, then thread 1 tests the flag. -/
def raceSched : List (Nat × Op) :=
  [(0, .force), (0, .force), (0, .force), (0, .force), (0, .force), (0, .force), (1, .force), (1, .force)]

/-- Regression lemma about the protocol BEFORE fix 7f47297 (plain flag, no Once): it has a data race — thread 1's
plain read of `scanned` is unordered with thread 0's plain write of it ("importedString-lazy-scan-data-race"). -/
theorem memo_unsync_prefix_witness (sv : Nat) :
    (∀ x ∈ raceSched, x.2 ≠ Op.raw) ∧ (runM unsyncCfg sv initM raceSched).raced = true :=
  ⟨by decide, rfl⟩

/-- An atomic flag alone (no Once) is not enough: two threads that both saw `false` both write `u`. -/
theorem memo_atomic_flag_alone_race_witness (sv : Nat) :
    (runM ⟨.atomic, false⟩ sv initM
      [(0, .force), (1, .force), (0, .force), (1, .force), (0, .force), (1, .force), (0, .force), (1, .force),
       (0, .force), (1, .force)]).raced = true := rfl

/-- Even with the once-style protocol a client that reads `u` with no check at all (as importedString.StrictEquals
and asciiString.StrictEquals did before 7f47297) races with the scanning thread: why `memo_generated_drf` also pins
that no such reader exists. -/
theorem memo_raw_reader_race_witness (sv : Nat) :
    (runM onceCfg sv initM
      [(0, .force), (0, .force), (0, .force), (0, .force), (0, .force), (1, .raw), (1, .raw)]).raced = true := rfl

/-- Whichever thread scans, under whichever protocol shape and schedule (raw clients included), every client that
relies on the memoised value observes exactly Scan(s) — the same function of the bytes. -/
theorem memo_value_deterministic (c : Cfg) (sv : Nat) (sched : List (Nat × Op)) :
    (runM c sv initM sched).bad = false :=
  (vinv_run c sv sched initM (vinv_init sv)).1

/-- … and the cell itself only ever holds nil or Scan(s). -/
theorem memo_cell_values (c : Cfg) (sv : Nat) (sched : List (Nat × Op)) :
    (runM c sv initM sched).uval = sv ∨ (runM c sv initM sched).uval = 0 := by
  have key : ∀ (sched : List (Nat × Op)) (s : MState), (s.uval = sv ∨ s.uval = 0) →
      ((runM c sv s sched).uval = sv ∨ (runM c sv s sched).uval = 0) := by
    intro sched
    induction sched with
    | nil => intro s h; exact h
    | cons x rest ih =>
      intro s h
      obtain ⟨t, op⟩ := x
      apply ih
      obtain ⟨fs, uo⟩ := c
      cases hpc : (s.thr t).pc <;> cases fs <;> cases uo <;>
        simp only [stepM, hpc, loadFlag, readU, setThr] <;> grind
  exact key sched initM (Or.inr rfl)

/-- The protocol regenerated from the CURRENT source (scan / ensureScanned / isScanned of string_imported.go) is the
once-style one, no function of the package reads `u` without a preceding ensureScanned() or flag test, and therefore
the memo is data-race free for every number of threads, every number of client operations and every schedule.
(Protocol-model level, see the scope note.) -/
theorem memo_generated_drf :
    cfgOfProg Generated.memoProg = some onceCfg ∧
    (Generated.impAcc.all fun a => !(a.field == "u" && !a.write && a.sync == "plain" && a.dom == "raw")) = true ∧
    ∀ sv sched, (∀ x ∈ sched, x.2 ≠ Op.raw) → (runM onceCfg sv initM sched).raced = false :=
  ⟨by decide, by decide, fun sv sched h => memo_drf sv sched h⟩

/-! ### The escape rows of the `names` maps are safe (mechanism level, Names.lean)

The exec table lets `$.names` escape into `stash.names` (aliasing the Program's map) for block scopes and for
function scopes that are not `extensible`; the writers of a names map are createBinding / deleteBinding
(Tie.names_writers_expected, Tie.binding_call_sites).  `allH` is the compiler's side of the contract — bindVars only
ever targets a scope compiled `extensible` (every site sets `extensible: <scope>.dynamic`, Tie.extensible_sites). -/

/-- Under that contract NO sequence of scope entries/exits, per-iteration copies, closure calls / returns / generator
resumptions (`switch`: the current chain becomes any sequence of stashes the Runtime ever created), eval-var
declarations and deletions, run by ANY number of Runtimes in ANY interleaving, writes a Program-owned names map. -/
theorem names_program_maps_readonly (bound : Nat) (st : Names.St) (ops : List (Nat × Names.Op))
    (hb : bound ≤ st.next)
    (hclean : ∀ id, id < bound → ∀ e ∈ st.maps id, e.deletable = false)
    (hshape : ∀ rt, ∀ s ∈ st.pool rt, (s.own = false → s.map < bound) ∧ (s.own = true → bound ≤ s.map ∧ s.map < st.next))
    (hsub : ∀ rt, ∀ s ∈ st.stacks rt, s ∈ st.pool rt)
    (hH : Names.allH bound st ops = true) :
    ∀ id, id < bound → (Names.run bound st ops).maps id = st.maps id :=
  (Names.ninv_run ops st ⟨hb, fun _ _ => rfl, hclean, hshape, hsub⟩ hH).ro

/-- … and nothing Runtime r can reach — the names maps on its current scope chain AND on every stash it ever created
(captured by closures, suspended in generators) — is changed by any sequence of operations of the OTHER Runtimes:
private copies are private, shared maps are never written. -/
theorem names_others_invisible (bound : Nat) (st : Names.St) (r : Nat) (ops : List (Nat × Names.Op))
    (hb : bound ≤ st.next)
    (hclean : ∀ id, id < bound → ∀ e ∈ st.maps id, e.deletable = false)
    (hshape : ∀ rt, ∀ s ∈ st.pool rt, (s.own = false → s.map < bound) ∧ (s.own = true → bound ≤ s.map ∧ s.map < st.next))
    (hsub : ∀ rt, ∀ s ∈ st.stacks rt, s ∈ st.pool rt)
    (hpriv : Names.Priv st) (hr : ∀ x ∈ ops, x.1 ≠ r) (hH : Names.allH bound st ops = true) :
    Names.view (Names.run bound st ops) r = Names.view st r ∧
    Names.poolView (Names.run bound st ops) r = Names.poolView st r :=
  Names.others_invisible r ops st ⟨hb, fun _ _ => rfl, hclean, hshape, hsub⟩ hpriv hr hH

/-- The hypotheses are those of a freshly compiled Program before any Runtime touched it. -/
theorem names_initial_state_ok (bound : Nat) (maps : Nat → Names.NMap) :
    let st : Names.St := { maps := maps, next := bound, pool := fun _ => [], stacks := fun _ => [] }
    bound ≤ st.next ∧ (∀ rt, ∀ s ∈ st.pool rt, (s.own = false → s.map < bound) ∧ (s.own = true → bound ≤ s.map ∧ s.map < st.next)) ∧
    (∀ rt, ∀ s ∈ st.stacks rt, s ∈ st.pool rt) ∧ Names.Priv st := by
  refine ⟨Nat.le_refl _, ?_, ?_, ?_⟩
  · intro rt s hs; simp at hs
  · intro rt s hs; simp at hs
  · intro q1 q2 _ s1 h1; simp at h1

/-- The contract is needed: if a scope that gets an eval-declared variable aliases the Program's map (an
`extensible` copy dropped — the C16-m2 class), the Program's map is written and another Runtime sees the binding. -/
theorem names_alias_write_witness :
    let st : Names.St := { maps := fun _ => [⟨"a", 0, false⟩], next := 1, pool := fun _ => [], stacks := fun _ => [] }
    let ops : List (Nat × Names.Op) := [(0, .enterFunc 0 false), (1, .enterFunc 0 false), (0, .bindVar "q" true)]
    (Names.run 1 st ops).maps 0 ≠ st.maps 0 ∧ Names.view (Names.run 1 st ops) 1 ≠ Names.view (Names.run 1 st (Names.onlyOf 1 ops)) 1 := by
  decide

/-- The compiler's side of the contract, from the four tied facts (R1)–(R4) of Names.lean: when a direct eval is
compiled in a scope chain whose innermost variable scope is not strict, then at run time — whatever other scopes have
stashes — the stash bindVars targets owns a private copy, i.e. `hOK` holds for the eval's `var` declarations. -/
theorem compiler_contract_gives_hOK (st : Names.St) (rt : Nat) (cs : List Names.CScope) (v : Names.CScope)
    (hchain : st.stacks rt = Names.rtChain (Names.markEval cs))
    (hv : Names.firstVar cs = some v) (hs : v.strict = false) (n : String) (d : Bool) :
    Names.hOK st rt (.bindVar n d) = true := by
  simp only [Names.hOK]
  split
  · next t ht => exact Names.contract_target_own cs v hv hs t (hchain ▸ ht)
  · rfl

/-! ### How the compiler builds the scope chain (Scopes.lean): strictness is inherited inwards -/

/-- Every scope chain the compiler can build — any sequence of newScope (strict copied from the enclosing scope),
popScope, function prologues (`if !s.strict { s.strict = … }`), class bodies (`s.strict = true`) and eval markings —
is monotone: a scope is at least as strict as the scope enclosing it. -/
theorem scope_strictness_monotone (ops : List Scopes.COp) : Scopes.Mono (Scopes.crun [] ops) :=
  Scopes.mono_run ops [] trivial

/-- Hence an eval compiled in a non-strict scope has a non-strict innermost variable scope (the assumption
"strictness is inherited inwards" of `compiler_contract_gives_hOK`, discharged). -/
theorem sloppy_eval_first_var_sloppy (ops : List Scopes.COp) (v : Names.CScope)
    (hh : Scopes.enclosingStrict (Scopes.crun [] ops) = false) (hv : Names.firstVar (Scopes.crun [] ops) = some v) :
    v.strict = false :=
  Scopes.sloppy_eval_first_var_sloppy _ (Scopes.mono_run ops [] trivial) hh v hv

/-- The compiler contract without a strictness hypothesis on the variable scope: whatever scopes the compiler built
(unbounded `ops`), a direct eval compiled in a NON-STRICT scope — the only case in which the eval'd code declares
variables in the caller's chain (Tie2.eval_strict_plumbing) — finds, at run time, a target stash that owns a private
copy of its names map. -/
theorem eval_var_target_owns_copy (ops : List Scopes.COp) (v : Names.CScope)
    (hh : Scopes.enclosingStrict (Scopes.crun [] ops) = false) (hv : Names.firstVar (Scopes.crun [] ops) = some v)
    (t : Names.Stash) (ht : Names.target (Names.rtChain (Names.markEval (Scopes.crun [] ops))) = some t) : t.own = true :=
  Scopes.eval_var_target_owns_copy ops v hh hv t ht

/-! ### Per-use clones (Clone.lean): regexp literals and tagged templates -/

/-- As long as run-time objects are built on per-use clones (the `call $.pattern clone` / `arg0 cloneTemplateValues`
rows of the exec table), NO sequence of object creations and writes (lastIndex / match cache / createRegexp2 /
Object.freeze …) by ANY number of Runtimes in ANY interleaving changes a Program-owned cell. -/
theorem clone_program_cells_readonly (bound : Nat) (st : Clone.St) (ops : List (Nat × Clone.Op))
    (hinv : Clone.CInv bound st) (hops : ∀ x ∈ ops, Clone.usesClone x.2 = true) :
    ∀ c, c < bound → (Clone.run bound st ops).val c = st.val c :=
  (Clone.run_prog_unchanged ops st hinv hops).2

/-- … and the cells Runtime r holds references to (its RegExp objects' patterns and caches, its template arrays' slots)
are not changed by any sequence of operations of the other Runtimes. -/
theorem clone_others_invisible (bound : Nat) (st : Clone.St) (r : Nat) (ops : List (Nat × Clone.Op))
    (hinv : Clone.CInv bound st) (hops : ∀ x ∈ ops, Clone.usesClone x.2 = true) (hr : ∀ x ∈ ops, x.1 ≠ r) :
    (Clone.run bound st ops).wrefs r = st.wrefs r ∧ ∀ c ∈ st.wrefs r, (Clone.run bound st ops).val c = st.val c :=
  Clone.run_others_unchanged r ops st hinv hops hr

/-- The clones are needed (seeded change C16-m1, the pre-85b307c template code): an object built on the Program's own
cell lets one Runtime's write reach the Program and the other Runtime's object. -/
theorem clone_alias_write_witness :
    let st : Clone.St := { val := fun _ => 0, next := 1, wrefs := fun _ => [] }
    let ops : List (Nat × Clone.Op) := [(0, .aliasUse 0), (1, .aliasUse 0), (0, .write 0 7)]
    (Clone.run 1 st ops).val 0 ≠ st.val 0 ∧ 0 ∈ (Clone.run 1 st ops).wrefs 1 := by
  decide

/-- Read-only shared memory cannot race: a location whose history holds only reads never conflicts with another
read, whatever the readers know (Symbols — one immutable field, Tie.symbol_immutable —, `importedString.s`,
instruction fields, names maps under the theorem above). -/
theorem readonly_location_race_free (h : List Acc) (t : Nat) (K : Nat → Bool) (hr : ∀ a ∈ h, a.wr = false) :
    conflicts h t K false = false := by
  unfold conflicts
  apply Bool.eq_false_iff.mpr
  intro hc
  rw [List.any_eq_true] at hc
  obtain ⟨a, ha, hp⟩ := hc
  simp [hr a ha] at hp

/-! ### Objects do not cross runtimes -/

/-- A live Object created by runtime r' is rejected with a TypeError by toValue of any other runtime r. -/
theorem foreign_object_rejected (o : ObjRef) (r r' : Nat) (hn : o.isNil = false) (hs : o.selfNil = false)
    (ho : o.runtime = some r') (hne : r' ≠ r) : toValueObj o r = .typeError := by
  simp [toValueObj, hn, hs, ho, hne]

/-- Conversely toValue returns an Object unchanged only if it belongs to the converting runtime (or to none). -/
theorem object_accepted_iff (o : ObjRef) (r : Nat) :
    toValueObj o r = .same ↔ (o.isNil = false ∧ o.selfNil = false ∧ (o.runtime = none ∨ o.runtime = some r)) := by
  obtain ⟨n, s, rt⟩ := o
  cases n <;> cases s <;> cases rt <;> simp [toValueObj]

/-! ### Scan as a function of the bytes -/

/-- ASCII-only byte strings memoise nil; anything else memoises a BOM-prefixed UTF-16 array. -/
theorem scan_shape (b : List Nat) :
    (scanBytes b = none ↔ b.all (· < 0x80) = true) ∧ (∀ u, scanBytes b = some u → u.head? = some 0xFEFF) := by
  unfold scanBytes
  constructor
  · split <;> simp_all
  · intro u; split <;> simp_all
    intro h; subst h; rfl

/-! ### examples (tests on literals — they show the hypotheses above are satisfiable by non-trivial states) -/

example : (runM onceCfg 7 initM [(0, .force), (1, .force), (0, .force), (1, .force), (0, .force), (1, .force),
    (0, .force), (1, .force), (0, .force), (0, .force), (0, .force), (1, .force), (1, .force), (2, .peek), (2, .peek),
    (2, .peek), (2, .peek)]).histU.length = 3 := by decide
example : toValueObj ⟨false, false, some 1⟩ 2 = .typeError := by decide
example : toValueObj ⟨false, false, some 2⟩ 2 = .same := by decide
example : scanBytes [0x61, 0xC3, 0xA9, 0xF0, 0x9F, 0x98, 0x80, 0xFF] = some [0xFEFF, 0x61, 0xE9, 0xD83D, 0xDE00, 0xFFFD] := by decide

end GojaModel.C16
