/-
  C16 — property theorems (every `theorem` here is one audited proof obligation).

  Scope note (`_partial`): the data-race-freedom statements are about the regenerated ACCESS TABLE and the PROTOCOL
  MODEL in the happens-before semantics of Model.lean (program order + atomic release/acquire + sync.Once), not about
  the Go binary; Go's memory model, the scheduler and sync/atomic are trusted.  The -race correspondence of
  run/c16.py exhibits actual races.
-/
import GojaModel.C16.Lemmas
import GojaModel.Generated.C16_Share
namespace GojaModel.C16

/-! ### Program is read-only after compile; runs are isolated -/

/-- General form, full strength inside the sharing machine: for every access table in which every row is a private
write or a known-safe escape, Program memory is the same after ANY interleaving of ANY instructions run by ANY number
of runtimes, whatever the instructions compute. -/
theorem program_readonly_of_table (tbl : List ExecAcc) (h : tableReadonly tbl = true)
    (I : Interp) (sched : List (Nat × String)) (w : World) : (runW tbl I w sched).prog = w.prog :=
  runW_prog h I sched w

/-- General form of isolation: a run's result is a function of the Program and its own Runtime's state — after any
interleaving with any other runtimes, runtime r's memory equals what it is after running r's instructions alone. -/
theorem run_isolated_of_table (tbl : List ExecAcc) (h : tableReadonly tbl = true)
    (I : Interp) (r : Nat) (sched : List (Nat × String)) (w : World) :
    (runW tbl I w sched).own r = (runW tbl I w (onlyOf r sched)).own r :=
  runW_isolated_gen h I r sched w w rfl rfl

/-- The regenerated table is, row for row and in order, the audited table in one of its two states: as at the
pinned commit (template slices shared) or with template arrays cloned per use. Any other row — a new write through a
receiver, a new escape, a dropped `.clone()`, a changed guard such as a missing `!extensible` — falsifies this. -/
theorem exec_table_shape : Generated.execAcc = execAccCurrent ∨ Generated.execAcc = safeRows := by decide

theorem exec_unsafe_rows : ∀ a ∈ Generated.execAcc, a.noSharedWrite = false → a ∈ templateSharedRows := by
  intro a ha hn
  rcases exec_table_shape with h | h
  · exact current_unsafe_rows a (h ▸ ha) hn
  · rw [safe_of_mem_safeRows a (h ▸ ha)] at hn
    exact absurd hn (by decide)

/-- On the table regenerated from the CURRENT source: no `exec` method (nor a helper method of an instruction type
reached from one) writes through its receiver or an alias of a reference-typed field of it; every row that is not
known-safe is one of the two tagged-template rows; hence Program memory is unchanged by every interleaving that does
not evaluate a tagged template.
`_partial`: (1) tagged templates are excluded while `templateSharedRows` are in the table (known finding);
(2) about the access table / sharing machine, see the scope note. -/
theorem program_readonly_partial :
    (∀ a ∈ Generated.execAcc, a.kind = "write" → a.isLocal = true) ∧
    (∀ a ∈ Generated.execAcc, a.noSharedWrite = false → a ∈ templateSharedRows) ∧
    ∀ (I : Interp) (sched : List (Nat × String)) (w : World), (∀ x ∈ sched, x.2 ≠ "getTaggedTmplObject") →
      (runW Generated.execAcc I w sched).prog = w.prog := by
  have h3 : ∀ a ∈ Generated.execAcc, a.noSharedWrite = false → a.ty = "getTaggedTmplObject" :=
    fun a ha hn => template_rows_ty a (exec_unsafe_rows a ha hn)
  exact ⟨by decide, exec_unsafe_rows, fun I sched w hs => runW_prog_avoid h3 I sched hs w⟩

/-- Isolation on the regenerated table, same exclusion. -/
theorem run_isolated_partial (I : Interp) (r : Nat) (sched : List (Nat × String)) (w : World)
    (hs : ∀ x ∈ sched, x.2 ≠ "getTaggedTmplObject") :
    (runW Generated.execAcc I w sched).own r = (runW Generated.execAcc I w (onlyOf r sched)).own r :=
  runW_isolated_avoid (fun a ha hn => template_rows_ty a (exec_unsafe_rows a ha hn)) I r sched hs w w rfl rfl

/-- Which of the two it is for the source as it stands: either the whole table is safe (then read-only-ness and
isolation hold for EVERY schedule), or it is the table of the pinned commit whose unsafe rows are the two
tagged-template rows of the known finding. -/
theorem program_readonly_generated :
    (tableReadonly Generated.execAcc = true ∧
      ∀ (I : Interp) (r : Nat) (sched : List (Nat × String)) (w : World),
        (runW Generated.execAcc I w sched).prog = w.prog ∧
        (runW Generated.execAcc I w sched).own r = (runW Generated.execAcc I w (onlyOf r sched)).own r) ∨
    (Generated.execAcc = execAccCurrent ∧ ∀ a ∈ templateSharedRows, a ∈ Generated.execAcc ∧ a.noSharedWrite = false) := by
  rcases exec_table_shape with h | h
  · refine Or.inr ⟨h, ?_⟩
    rw [h]
    decide
  · have ht : tableReadonly Generated.execAcc = true := h ▸ tableReadonly_safeRows
    exact Or.inl ⟨ht, fun I r sched w => ⟨runW_prog ht I sched w, runW_isolated_gen ht I r sched w w rfl rfl⟩⟩

/-- Isolation really depends on the table: with the tagged-template rows in it (template slots reachable from every
runtime) there are instruction semantics and a schedule on which runtime 1's result depends on whether runtime 0 ran —
e.g. runtime 0 freezes the template object, runtime 1 reads the slot's flags. -/
theorem template_sharing_breaks_isolation_witness :
    ∃ (I : Interp) (sched : List (Nat × String)) (w : World),
      (runW templateSharedRows I w sched).own 1 0 ≠ (runW templateSharedRows I w (onlyOf 1 sched)).own 1 0 := by
  refine ⟨{ ownNext := fun _ p _ => p, progNext := fun _ _ _ => fun _ => 1 },
    [(0, "getTaggedTmplObject"), (1, "getTaggedTmplObject")], { prog := fun _ => 0, own := fun _ _ => 0 }, ?_⟩
  decide

/-! ### The lazy memo of importedString -/

/-- Data-race freedom of the once-style memo protocol (atomic flag + sync.Once), full strength inside the model:
any number of threads, any number of forcing / peeking client operations per thread, any schedule. -/
theorem memo_drf (sv : Nat) (sched : List (Nat × Op)) (h : ∀ x ∈ sched, x.2 ≠ .raw) :
    (runM onceCfg sv initM sched).raced = false :=
  (dinv_run sv sched h initM dinv_init).nr

/-- In the once-style protocol the scan runs at most once: `u` is written at most once, whatever the schedule. -/
theorem memo_once_single_write (sv : Nat) (sched : List (Nat × Op)) (h : ∀ x ∈ sched, x.2 ≠ .raw) :
    ∀ t, ((runM onceCfg sv initM sched).thr t).pc = .f3 → (runM onceCfg sv initM sched).histU = [] := by
  intro t ht
  have inv := dinv_run sv sched h initM dinv_init
  apply Classical.byContradiction
  intro hne
  exact inv.late2 hne t ht

/-- The schedule of `memo_race_witness`: thread 0 forces the scan to completion, then thread 1 tests the flag. -/
def raceSched : List (Nat × Op) :=
  [(0, .force), (0, .force), (0, .force), (0, .force), (0, .force), (0, .force), (1, .force), (1, .force)]

/-- The protocol AS CODED (plain flag, no Once: string_imported.go:31-40) has a data race: thread 1's plain read of
`scanned` is unordered with thread 0's plain write of it.  This is the known finding
"importedString-lazy-scan-data-race"; the schedule is the replay skeleton. -/
theorem memo_race_witness (sv : Nat) :
    (∀ x ∈ raceSched, x.2 ≠ Op.raw) ∧ (runM unsyncCfg sv initM raceSched).raced = true :=
  ⟨by decide, rfl⟩

/-- An atomic flag alone (no Once) is not enough: two threads that both saw `false` both write `u`. -/
theorem memo_atomic_flag_alone_race_witness (sv : Nat) :
    (runM ⟨.atomic, false⟩ sv initM
      [(0, .force), (1, .force), (0, .force), (1, .force), (0, .force), (1, .force), (0, .force), (1, .force),
       (0, .force), (1, .force)]).raced = true := rfl

/-- Even with the once-style protocol a client that reads `u` with no check at all (as importedString.StrictEquals
and asciiString.StrictEquals do today) races with the scanning thread. -/
theorem memo_raw_reader_race_witness (sv : Nat) :
    (runM onceCfg sv initM
      [(0, .force), (0, .force), (0, .force), (0, .force), (0, .force), (1, .raw), (1, .raw)]).raced = true := rfl

/-- Whichever thread scans, under whichever protocol shape and schedule (raw clients included), every client that
relies on the memoised value observes exactly Scan(s) — the same function of the bytes. -/
theorem memo_value_deterministic (c : Cfg) (sv : Nat) (sched : List (Nat × Op)) :
    (runM c sv initM sched).bad = false :=
  (vinv_run c sv sched initM (vinv_init sv)).1

/-- … and the cell itself only ever holds nil or Scan(s). -/
theorem memo_cell_values (c : Cfg) (sv : Nat) (sched : List (Nat × Op)) :
    (runM c sv initM sched).uval = sv ∨ (runM c sv initM sched).uval = 0 := by
  have key : ∀ (sched : List (Nat × Op)) (s : MState), (s.uval = sv ∨ s.uval = 0) →
      ((runM c sv s sched).uval = sv ∨ (runM c sv s sched).uval = 0) := by
    intro sched
    induction sched with
    | nil => intro s h; exact h
    | cons x rest ih =>
      intro s h
      obtain ⟨t, op⟩ := x
      apply ih
      obtain ⟨fs, uo⟩ := c
      cases hpc : (s.thr t).pc <;> cases fs <;> cases uo <;>
        simp only [stepM, hpc, loadFlag, readU, setThr] <;> grind
  exact key sched initM (Or.inr rfl)

/-- The protocol regenerated from the CURRENT source is one of the two analysed shapes, with the matching verdict:
either it is the unsynchronised one (and races on `raceSched`), or it is the once-style one with no raw reader of `u`
left (and is race free on every schedule).  `_partial`: about the protocol model, see the scope note. -/
theorem memo_generated_partial :
    (cfgOfProg Generated.memoProg = some unsyncCfg ∧ ∀ sv, (runM unsyncCfg sv initM raceSched).raced = true) ∨
    (cfgOfProg Generated.memoProg = some onceCfg ∧
      (Generated.impAcc.all fun a => !(a.field == "u" && a.sync == "plain" && a.dom == "raw" && a.fn != "importedString.scan")) = true ∧
      ∀ sv sched, (∀ x ∈ sched, x.2 ≠ Op.raw) → (runM onceCfg sv initM sched).raced = false) := by
  first
    | exact Or.inl ⟨by decide, fun sv => rfl⟩
    | exact Or.inr ⟨by decide, by decide, fun sv sched h => memo_drf sv sched h⟩

/-! ### Objects do not cross runtimes -/

/-- A live Object created by runtime r' is rejected with a TypeError by toValue of any other runtime r. -/
theorem foreign_object_rejected (o : ObjRef) (r r' : Nat) (hn : o.isNil = false) (hs : o.selfNil = false)
    (ho : o.runtime = some r') (hne : r' ≠ r) : toValueObj o r = .typeError := by
  simp [toValueObj, hn, hs, ho, hne]

/-- Conversely toValue returns an Object unchanged only if it belongs to the converting runtime (or to none). -/
theorem object_accepted_iff (o : ObjRef) (r : Nat) :
    toValueObj o r = .same ↔ (o.isNil = false ∧ o.selfNil = false ∧ (o.runtime = none ∨ o.runtime = some r)) := by
  obtain ⟨n, s, rt⟩ := o
  cases n <;> cases s <;> cases rt <;> simp [toValueObj]

/-! ### Scan as a function of the bytes -/

/-- ASCII-only byte strings memoise nil; anything else memoises a BOM-prefixed UTF-16 array. -/
theorem scan_shape (b : List Nat) :
    (scanBytes b = none ↔ b.all (· < 0x80) = true) ∧ (∀ u, scanBytes b = some u → u.head? = some 0xFEFF) := by
  unfold scanBytes
  constructor
  · split <;> simp_all
  · intro u; split <;> simp_all
    intro h; subst h; rfl

/-! ### examples (tests on literals — they show the hypotheses above are satisfiable by non-trivial states) -/

example : (runM onceCfg 7 initM [(0, .force), (1, .force), (0, .force), (1, .force), (0, .force), (1, .force),
    (0, .force), (1, .force), (0, .force), (0, .force), (0, .force), (1, .force), (1, .force), (2, .peek), (2, .peek),
    (2, .peek), (2, .peek)]).histU.length = 3 := by decide
example : toValueObj ⟨false, false, some 1⟩ 2 = .typeError := by decide
example : toValueObj ⟨false, false, some 2⟩ 2 = .same := by decide
example : scanBytes [0x61, 0xC3, 0xA9, 0xF0, 0x9F, 0x98, 0x80, 0xFF] = some [0xFEFF, 0x61, 0xE9, 0xD83D, 0xDE00, 0xFFFD] := by decide

end GojaModel.C16
