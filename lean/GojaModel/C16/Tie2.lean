/-
  C16 — Tie, part 2 (deepening round 2): the compiler facts Scopes.lean transcribes.  Separate file so that the
  first-round Tie stays untouched.
-/
import GojaModel.C16.Model
import GojaModel.Generated.C16_Share
namespace GojaModel.C16.Expected2
def strictSites : List (String × String) := [("compiler.compile", "scope.strict = strict"), ("compiledFunctionLiteral.compile", "if !s.strict { s.strict = e.strict != nil }"), ("compiledClassLiteral.emitGetter", "s.strict = true")]
def evalStrictBranch : List String := ["compiledCallExpr.emitGetter: if e.c.scope.strict { if e.isVariadic { e.c.emit(callEvalVariadicStrict) } else { e.c.emit(callEvalStrict(len(e.args))) } } else { if e.isVariadic { e.c.emit(callEvalVariadic) } else { e.c.emit(callEval(len(e.args))) } }"]
def compileEvalPlumbing : List String := ["ownVarScope := eval && strict", "if len(vars) > 0 && !ownVarScope && ownLexScope"]
def body_newScope : List String := ["strict := false", "if c.scope != nil { strict = c.scope.strict }", "c.scope = &scope{ c: c, prg: c.p, outer: c.scope, strict: strict, }"]
def body_callEval_exec : List String := ["vm.callEval(int(numargs), false)"]
def body_callEvalStrict_exec : List String := ["vm.callEval(int(numargs), true)"]
def body_callEvalVariadic_exec : List String := ["vm.callEval(vm.countVariadicArgs()-2, false)"]
def body_callEvalVariadicStrict_exec : List String := ["vm.callEval(vm.countVariadicArgs()-2, true)"]
/-- Files that may assign a (uniquely named) field of a struct reachable from a Program: the compiler. -/
def compilerFiles : List String := ["compiler.go", "compiler_expr.go", "compiler_stmt.go"]

/-- … and the run-time functions that may: they write a record that is NOT the Program's —
createRegexp2 runs on the per-use clone of a pattern (Clone.lean; newRegexp.exec passes `n.pattern.clone()`), clone
initialises the fresh copy it returns, createPrivateType fills a privateEnvType it has just allocated. -/
def allowedRuntimeWriters : List (String × String) := [
  ("regexpPattern.createRegexp2", "regexpPattern.regexp2Wrapper"),
  ("regexpPattern.clone", "regexpPattern.regexpWrapper"), ("regexpPattern.clone", "regexpPattern.regexp2Wrapper"),
  ("vm.createPrivateType", "privateEnvType.numFields"), ("vm.createPrivateType", "privateEnvType.numMethods")]

end GojaModel.C16.Expected2

namespace GojaModel.C16.Tie2

/-- newScope copies `strict` from the enclosing scope; the only assignments to a scope's `strict` are the outermost
scope of a compile, the function prologue (`if !s.strict { … }`: can only raise it) and the class body (`= true`) -/
theorem scope_strict_sites :
    Generated.body_newScope = Expected2.body_newScope ∧ Generated.strictSites = Expected2.strictSites := ⟨rfl, rfl⟩

/-- a direct eval is compiled as callEvalStrict iff the current scope is strict; the strict instructions pass
strict = true to vm.callEval; compile gives a strict eval its own variable scope and emits bindVars only otherwise -/
theorem eval_strict_plumbing :
    Generated.evalStrictBranch = Expected2.evalStrictBranch ∧ Generated.compileEvalPlumbing = Expected2.compileEvalPlumbing ∧
    Generated.body_callEval_exec = Expected2.body_callEval_exec ∧ Generated.body_callEvalStrict_exec = Expected2.body_callEvalStrict_exec ∧
    Generated.body_callEvalVariadic_exec = Expected2.body_callEvalVariadic_exec ∧
    Generated.body_callEvalVariadicStrict_exec = Expected2.body_callEvalVariadicStrict_exec := ⟨rfl, rfl, rfl, rfl, rfl, rfl⟩

/-- Everything reachable from a Program through goja's own struct types (Program incl. srcMap and nested Programs, all
258 instruction structs, regexp patterns and wrappers, private-name records …): every function that assigns — directly
or through an index / dereference — a field whose name is declared by exactly one struct type is either in the compiler
or one of the audited run-time writers of a non-Program record.  (Ambiguously named fields — `names`, `cache`, `pc`, … —
are covered by Tie.names_writers_expected / rx_cache_writers_expected / prog_field_writers_are_compiler and the Program
digest.) -/
theorem reachable_field_writers :
    ∀ w ∈ Generated.reachableFieldWrites, w.file ∈ Expected2.compilerFiles ∨ (w.fn, w.field) ∈ Expected2.allowedRuntimeWriters := by
  decide

/-- the walk really covered the instruction set and found fields to pin -/
theorem reachable_types_seen : Generated.reachableTypeCount ≥ 260 ∧ Generated.reachableUniqueFields ≥ 20 := by decide

end GojaModel.C16.Tie2
