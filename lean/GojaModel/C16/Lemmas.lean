/-
  C16 helper lemmas: the sharing machine (readonly ⇒ isolation), value determinism of the memo for every protocol
  shape, and the invariant that makes the once-style protocol data-race free for any number of threads, any number of
  client operations and any schedule.
-/
import GojaModel.C16.Model
set_option linter.unusedSimpArgs false
set_option linter.unusedVariables false
namespace GojaModel.C16

/-! ### A. sharing machine -/

theorem writesProg_false_of_readonly {tbl : List ExecAcc} (h : tableReadonly tbl = true) (ty : String) :
    writesProg tbl ty = false := by
  unfold writesProg
  unfold tableReadonly at h
  rw [List.all_eq_true] at h
  apply Bool.eq_false_iff.mpr
  intro hc
  rw [List.any_eq_true] at hc
  obtain ⟨a, ha, hp⟩ := hc
  have := h a ha
  simp [this] at hp

theorem stepW_prog {tbl : List ExecAcc} (h : tableReadonly tbl = true) (I : Interp) (w : World) (r : Nat) (ty : String) :
    (stepW tbl I w r ty).prog = w.prog := by
  simp [stepW, writesProg_false_of_readonly h]

theorem runW_prog {tbl : List ExecAcc} (h : tableReadonly tbl = true) (I : Interp) (sched : List (Nat × String)) :
    ∀ w : World, (runW tbl I w sched).prog = w.prog := by
  induction sched with
  | nil => intro w; rfl
  | cons x rest ih =>
    intro w
    obtain ⟨r, ty⟩ := x
    simp only [runW]
    rw [ih, stepW_prog h]

/-- Steps of other runtimes do not change what runtime `r` sees (its own memory and the Program). -/
theorem stepW_other {tbl : List ExecAcc} (h : tableReadonly tbl = true) (I : Interp) (w : World) (r q : Nat) (ty : String)
    (hq : q ≠ r) : (stepW tbl I w q ty).own r = w.own r ∧ (stepW tbl I w q ty).prog = w.prog := by
  refine ⟨?_, stepW_prog h I w q ty⟩
  simp [stepW]
  intro h'; exact absurd h'.symm hq

/-- Generalised isolation: two worlds that agree on the Program and on r's memory still agree after one of them
ran an arbitrary interleaving and the other only r's part of it. -/
theorem runW_isolated_gen {tbl : List ExecAcc} (h : tableReadonly tbl = true) (I : Interp) (r : Nat)
    (sched : List (Nat × String)) :
    ∀ w w' : World, w.prog = w'.prog → w.own r = w'.own r →
      (runW tbl I w sched).own r = (runW tbl I w' (onlyOf r sched)).own r := by
  induction sched with
  | nil => intro w w' _ ho; simpa [runW, onlyOf] using ho
  | cons x rest ih =>
    intro w w' hp ho
    obtain ⟨q, ty⟩ := x
    by_cases hq : q = r
    · subst hq
      have hf : onlyOf q ((q, ty) :: rest) = (q, ty) :: onlyOf q rest := by simp [onlyOf]
      rw [hf]
      simp only [runW]
      apply ih
      · rw [stepW_prog h, stepW_prog h]; exact hp
      · simp [stepW, hp, ho]
    · have hf : onlyOf r ((q, ty) :: rest) = onlyOf r rest := by
        simp [onlyOf, hq]
      rw [hf]
      simp only [runW]
      apply ih
      · rw [stepW_prog h]; exact hp
      · rw [(stepW_other h I w r q ty hq).1]; exact ho

/-! The audited table in its two states, and cheap derivations of row safety (so that no proof has to compare
every regenerated row with every safe row). -/

/-- The exec access table BEFORE fix 85b307c: the safe rows, with the two template rows still going straight into
setArrayValues (regression lemmas only). -/
def execAccPrefix : List ExecAcc :=
  safeRows.map fun a => if a.sink == "arg0 cloneTemplateValues" then { a with sink := "arg1 setArrayValues" } else a

theorem safeRows_no_write : ∀ a ∈ safeRows, (a.kind == "write") = false := by decide

theorem safe_of_mem_safeRows (a : ExecAcc) (h : a ∈ safeRows) : a.noSharedWrite = true := by
  unfold ExecAcc.noSharedWrite
  rw [safeRows_no_write a h]
  simp [h]

theorem tableReadonly_safeRows : tableReadonly safeRows = true := by
  unfold tableReadonly
  rw [List.all_eq_true]
  exact fun a h => safe_of_mem_safeRows a h

theorem cloned_rows_map_to_template_rows :
    ∀ b ∈ safeRows, (b.sink == "arg0 cloneTemplateValues") = true →
      { b with sink := "arg1 setArrayValues" } ∈ templateSharedRows := by decide

theorem current_unsafe_rows : ∀ a ∈ execAccPrefix, a.noSharedWrite = false → a ∈ templateSharedRows := by
  intro a ha hn
  unfold execAccPrefix at ha
  rw [List.mem_map] at ha
  obtain ⟨b, hb, rfl⟩ := ha
  by_cases hc : (b.sink == "arg0 cloneTemplateValues") = true
  · simp only [hc, if_true] at hn ⊢
    exact cloned_rows_map_to_template_rows b hb hc
  · have hc' : (b.sink == "arg0 cloneTemplateValues") = false := by simpa using hc
    simp only [hc'] at hn
    have hs := safe_of_mem_safeRows b hb
    simp at hn
    rw [hs] at hn
    exact absurd hn (by decide)

theorem template_rows_ty : ∀ a ∈ templateSharedRows, a.ty = "getTaggedTmplObject" := by decide

/-! Same two facts when only schedules that avoid the instruction types with unsafe rows are considered. -/

theorem writesProg_false_of_avoid {tbl : List ExecAcc} {bad ty : String}
    (h : ∀ a ∈ tbl, a.noSharedWrite = false → a.ty = bad) (hne : ty ≠ bad) : writesProg tbl ty = false := by
  unfold writesProg
  apply Bool.eq_false_iff.mpr
  intro hc
  rw [List.any_eq_true] at hc
  obtain ⟨a, ha, hp⟩ := hc
  simp at hp
  exact hne (hp.1 ▸ h a ha hp.2)

theorem runW_prog_avoid {tbl : List ExecAcc} {bad : String}
    (h : ∀ a ∈ tbl, a.noSharedWrite = false → a.ty = bad) (I : Interp) (sched : List (Nat × String)) :
    (∀ x ∈ sched, x.2 ≠ bad) → ∀ w : World, (runW tbl I w sched).prog = w.prog := by
  induction sched with
  | nil => intro _ w; rfl
  | cons x rest ih =>
    intro hs w
    obtain ⟨r, ty⟩ := x
    simp only [runW]
    rw [ih (fun y hy => hs y (List.mem_cons_of_mem _ hy))]
    simp [stepW, writesProg_false_of_avoid h (hs (r, ty) (List.mem_cons_self ..))]

theorem runW_isolated_avoid {tbl : List ExecAcc} {bad : String}
    (h : ∀ a ∈ tbl, a.noSharedWrite = false → a.ty = bad) (I : Interp) (r : Nat) (sched : List (Nat × String)) :
    (∀ x ∈ sched, x.2 ≠ bad) → ∀ w w' : World, w.prog = w'.prog → w.own r = w'.own r →
      (runW tbl I w sched).own r = (runW tbl I w' (onlyOf r sched)).own r := by
  induction sched with
  | nil => intro _ w w' _ ho; simpa [runW, onlyOf] using ho
  | cons x rest ih =>
    intro hs w w' hp ho
    obtain ⟨q, ty⟩ := x
    have hty : writesProg tbl ty = false := writesProg_false_of_avoid h (hs (q, ty) (List.mem_cons_self ..))
    have hrest : ∀ y ∈ rest, y.2 ≠ bad := fun y hy => hs y (List.mem_cons_of_mem _ hy)
    by_cases hq : q = r
    · subst hq
      have hf : onlyOf q ((q, ty) :: rest) = (q, ty) :: onlyOf q rest := by simp [onlyOf]
      rw [hf]
      simp only [runW]
      apply ih hrest
      · simp [stepW, hty, hp]
      · simp [stepW, hp, ho]
    · have hf : onlyOf r ((q, ty) :: rest) = onlyOf r rest := by simp [onlyOf, hq]
      rw [hf]
      simp only [runW]
      apply ih hrest
      · simp [stepW, hty, hp]
      · have hrq : ¬ r = q := fun h' => hq h'.symm
        simp [stepW, hrq, ho]

/-! ### B1. value determinism (every protocol shape, raw clients allowed) -/

/-- Nothing has been memoised yet and nobody believes otherwise. -/
def Unwritten (s : MState) : Prop :=
  s.flag = false ∧ s.onceDone = false ∧
  ∀ t, (s.thr t).r = false ∧ (s.thr t).pc ≠ .f4 ∧ (s.thr t).pc ≠ .f5 ∧ (s.thr t).pc ≠ .f6 ∧ (s.thr t).pc ≠ .p2

def VInv (sv : Nat) (s : MState) : Prop := s.bad = false ∧ (s.uval = sv ∨ Unwritten s)

theorem vinv_init (sv : Nat) : VInv sv initM := by
  refine ⟨rfl, Or.inr ⟨rfl, rfl, ?_⟩⟩
  intro t; simp [initM, initThread]

theorem vinv_step (c : Cfg) (sv : Nat) (s : MState) (t : Nat) (op : Op) (h : VInv sv s) : VInv sv (stepM c sv s t op) := by
  obtain ⟨fs, uo⟩ := c
  unfold VInv Unwritten at *
  cases hpc : (s.thr t).pc
  case idle => cases op <;> simp only [stepM, hpc, setThr] <;> grind
  case f0 => cases fs <;> simp only [stepM, hpc, loadFlag, setThr] <;> grind
  case f1 => simp only [stepM, hpc, setThr]; grind
  case f2 =>
    cases uo <;> simp only [stepM, hpc, setThr]
    · grind
    · simp only [if_true]
      split
      · grind
      · split <;> grind
  case f3 => simp only [stepM, hpc, setThr]; grind
  case f4 => cases fs <;> simp only [stepM, hpc, setThr] <;> grind
  case f5 => cases uo <;> simp only [stepM, hpc, setThr] <;> grind
  case f6 => simp only [stepM, hpc, readU, setThr]; grind
  case p0 => cases fs <;> simp only [stepM, hpc, loadFlag, setThr] <;> grind
  case p1 => simp only [stepM, hpc, setThr]; grind
  case p2 => simp only [stepM, hpc, readU, setThr]; grind
  case w0 => simp only [stepM, hpc, readU, setThr]; grind

theorem vinv_run (c : Cfg) (sv : Nat) (sched : List (Nat × Op)) :
    ∀ s, VInv sv s → VInv sv (runM c sv s sched) := by
  induction sched with
  | nil => intro s h; exact h
  | cons x rest ih =>
    intro s h
    obtain ⟨t, op⟩ := x
    exact ih _ (vinv_step c sv s t op h)

/-! ### B2. data-race freedom of the once-style protocol

`DInv` is an inductive invariant of `stepM onceCfg` under any schedule of forcing and peeking clients:
  * mutual exclusion of the scan (`m1`, `dn`) — what sync.Once provides;
  * before the first access to `u` nobody believes the value is there (`early`);
  * afterwards the scanning thread is past the write and nobody else can start one (`late1`, `late2`);
  * every thread that is about to read `u`, or holds a `true` flag in its register, is happens-after every write of `u`
    (`kw`); the atomic flag and the Once publish that knowledge (`kf`, `ko`).
-/

structure DInv (s : MState) : Prop where
  nr : s.raced = false
  m1 : ∀ t, ((s.thr t).pc = .f3 ∨ (s.thr t).pc = .f4 ∨ (s.thr t).pc = .f5) → s.onceRun = some t
  dn : s.onceDone = true → s.onceRun = none
  early : s.histU = [] → s.flag = false ∧ s.onceDone = false ∧
     ∀ t, (s.thr t).r = false ∧ (s.thr t).pc ≠ .f4 ∧ (s.thr t).pc ≠ .f5 ∧ (s.thr t).pc ≠ .f6 ∧ (s.thr t).pc ≠ .p2
  late1 : s.histU ≠ [] → s.onceDone = false → s.onceRun ≠ none
  late2 : s.histU ≠ [] → ∀ t, (s.thr t).pc ≠ .f3
  kw : ∀ t, ((s.thr t).r = true ∨ (s.thr t).pc = .f6 ∨ (s.thr t).pc = .p2 ∨ (s.thr t).pc = .f4 ∨ (s.thr t).pc = .f5) →
     ∀ a ∈ s.histU, a.wr = true → (s.thr t).K a.id = true
  kf : s.flag = true → ∀ a ∈ s.histU, a.wr = true → s.flagK a.id = true
  ko : s.onceDone = true → ∀ a ∈ s.histU, a.wr = true → s.onceK a.id = true
  nw : ∀ t, (s.thr t).pc ≠ .w0

theorem join_def (K K' : Nat → Bool) : join K K' = fun x => (K x || K' x) := rfl
theorem learn_def (K : Nat → Bool) (e : Nat) : learn K e = fun x => (K x || x == e) := rfl

theorem conflicts_false_of_KW (h : List Acc) (t : Nat) (K : Nat → Bool) (hk : ∀ a ∈ h, a.wr = true → K a.id = true) :
    conflicts h t K false = false := by
  unfold conflicts
  apply Bool.eq_false_iff.mpr
  intro hc
  rw [List.any_eq_true] at hc
  obtain ⟨a, ha, hp⟩ := hc
  have := hk a ha
  cases hw : a.wr <;> simp [hw] at hp this
  simp [this] at hp

theorem dinv_step (sv : Nat) (s : MState) (t : Nat) (op : Op) (hop : op ≠ .raw) (h : DInv s) :
    DInv (stepM onceCfg sv s t op) := by
  obtain ⟨nr, m1, dn, early, late1, late2, kw, kf, ko, nw⟩ := h
  cases hpc : (s.thr t).pc
  case idle =>
    cases op <;> simp only [stepM, hpc, setThr, onceCfg, join_def, learn_def] <;> first | (exact absurd rfl hop) | (constructor <;> dsimp only <;> grind)
  case f0 =>
    simp only [stepM, hpc, setThr, onceCfg, join_def, learn_def, loadFlag]
    constructor <;> dsimp only <;> grind
  case f1 =>
    simp only [stepM, hpc, setThr, onceCfg, join_def, learn_def]
    constructor <;> dsimp only <;> grind
  case f2 =>
    simp only [stepM, hpc, setThr, onceCfg, join_def, learn_def, if_true]
    split
    · constructor <;> dsimp only <;> grind
    · split
      · constructor <;> grind
      · constructor <;> dsimp only <;> grind
  case f3 =>
    have hempty : s.histU = [] := by
      apply Classical.byContradiction; intro hne; exact late2 hne t hpc
    simp only [stepM, hpc, setThr, onceCfg, join_def, learn_def, hempty, conflicts]
    constructor <;> dsimp only <;> grind
  case f4 =>
    simp only [stepM, hpc, setThr, onceCfg, join_def, learn_def]
    constructor <;> dsimp only <;> grind
  case f5 =>
    simp only [stepM, hpc, setThr, onceCfg, join_def, learn_def, if_true]
    constructor <;> dsimp only <;> grind
  case f6 =>
    have hk := kw t (by simp [hpc])
    have hne : s.histU ≠ [] := by
      intro h0; have := (early h0).2.2 t; simp [hpc] at this
    simp only [stepM, hpc, setThr, onceCfg, join_def, learn_def, readU, conflicts_false_of_KW _ _ _ hk]
    constructor <;> dsimp only <;> grind
  case p0 =>
    simp only [stepM, hpc, setThr, onceCfg, join_def, learn_def, loadFlag]
    constructor <;> dsimp only <;> grind
  case p1 =>
    simp only [stepM, hpc, setThr, onceCfg, join_def, learn_def]
    constructor <;> dsimp only <;> grind
  case p2 =>
    have hk := kw t (by simp [hpc])
    have hne : s.histU ≠ [] := by
      intro h0; have := (early h0).2.2 t; simp [hpc] at this
    simp only [stepM, hpc, setThr, onceCfg, join_def, learn_def, readU, conflicts_false_of_KW _ _ _ hk]
    constructor <;> dsimp only <;> grind
  case w0 => exact absurd hpc (nw t)

theorem dinv_init : DInv initM := by
  constructor <;> simp [initM, initThread]

theorem dinv_run (sv : Nat) (sched : List (Nat × Op)) (hs : ∀ x ∈ sched, x.2 ≠ .raw) :
    ∀ s, DInv s → DInv (runM onceCfg sv s sched) := by
  induction sched with
  | nil => intro s h; exact h
  | cons x rest ih =>
    intro s h
    obtain ⟨t, op⟩ := x
    exact ih (fun y hy => hs y (List.mem_cons_of_mem _ hy)) _ (dinv_step sv s t op (hs (t, op) (List.mem_cons_self ..)) h)

/-! ### B3. a string that was scanned before it was published (newScannedImportedString, runtime.go toValue ≤ 16 bytes) -/

/-- the state right after `newScannedImportedString`: `u` and the flag are set by the constructing goroutine before
the value is handed to anyone (no access history yet) -/
def initScanned (sv : Nat) : MState := { initM with flag := true, uval := sv }

/-- nobody ever scans again: every thread sees the flag set, `u` is only read -/
structure PInv (sv : Nat) (s : MState) : Prop where
  nr : s.raced = false
  nb : s.bad = false
  fl : s.flag = true
  uv : s.uval = sv
  rd : ∀ a ∈ s.histU, a.wr = false
  pcs : ∀ t, ((s.thr t).pc = .idle ∨ (s.thr t).pc = .f0 ∨ (s.thr t).pc = .p0 ∨ (s.thr t).pc = .f6 ∨ (s.thr t).pc = .p2 ∨
         (((s.thr t).pc = .f1 ∨ (s.thr t).pc = .p1) ∧ (s.thr t).r = true))

theorem conflicts_false_of_reads (h : List Acc) (t : Nat) (K : Nat → Bool) (hr : ∀ a ∈ h, a.wr = false) :
    conflicts h t K false = false := by
  unfold conflicts
  apply Bool.eq_false_iff.mpr
  intro hc
  rw [List.any_eq_true] at hc
  obtain ⟨a, ha, hp⟩ := hc
  simp [hr a ha] at hp

theorem pinv_step (sv : Nat) (s : MState) (t : Nat) (op : Op) (hop : op ≠ .raw) (h : PInv sv s) :
    PInv sv (stepM onceCfg sv s t op) := by
  obtain ⟨nr, nb, fl, uv, rd, pcs⟩ := h
  have hcf := conflicts_false_of_reads s.histU t (s.thr t).K rd
  have hp := pcs t
  cases hpc : (s.thr t).pc
  case idle =>
    cases op <;> simp only [stepM, hpc, setThr, onceCfg] <;> first | (exact absurd rfl hop) | (constructor <;> dsimp only <;> grind)
  case f0 => simp only [stepM, hpc, setThr, onceCfg, loadFlag, join_def]; constructor <;> dsimp only <;> grind
  case p0 => simp only [stepM, hpc, setThr, onceCfg, loadFlag, join_def]; constructor <;> dsimp only <;> grind
  case f1 => simp only [stepM, hpc, setThr, onceCfg]; constructor <;> dsimp only <;> grind
  case p1 => simp only [stepM, hpc, setThr, onceCfg]; constructor <;> dsimp only <;> grind
  case f6 => simp only [stepM, hpc, setThr, onceCfg, readU, learn_def, hcf]; constructor <;> dsimp only <;> grind
  case p2 => simp only [stepM, hpc, setThr, onceCfg, readU, learn_def, hcf]; constructor <;> dsimp only <;> grind
  all_goals (exfalso; simp [hpc] at hp)

theorem pinv_run (sv : Nat) (sched : List (Nat × Op)) (hs : ∀ x ∈ sched, x.2 ≠ .raw) :
    ∀ s, PInv sv s → PInv sv (runM onceCfg sv s sched) := by
  induction sched with
  | nil => intro s h; exact h
  | cons x rest ih =>
    intro s h
    obtain ⟨t, op⟩ := x
    exact ih (fun y hy => hs y (List.mem_cons_of_mem _ hy)) _ (pinv_step sv s t op (hs (t, op) (List.mem_cons_self ..)) h)

theorem pinv_init (sv : Nat) : PInv sv (initScanned sv) := by
  constructor <;> simp [initScanned, initM, initThread]

end GojaModel.C16
