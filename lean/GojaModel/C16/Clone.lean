/-
  C16 — per-use clones of the stateful things a Program owns (mechanism level).

  A compiled Program owns cells that run-time objects would like to write:
    * a regexp literal's *regexpPattern (createRegexp2 sets p.regexp2Wrapper lazily, regexp.go:111) and its
      regexp2Wrapper.cache (written on every cached match, regexp.go:231-252);
    * the *valueProperty slots and backing arrays of a tagged template (Object.freeze / defineProperty re-mark and
      re-store them, builtin_object.go object_freeze, array.go _defineIdxProperty).
  The exec methods never build a run-time object ON such a cell: newRegexp.exec passes `n.pattern.clone()`
  (vm.go newRegexp.exec; regexpPattern.clone / regexp2Wrapper.clone make fresh pattern + wrapper with an empty cache,
  sharing only the goroutine-safe engines), getTaggedTmplObject.exec passes `cloneTemplateValues(c.raw / c.cooked)`
  (fresh backing array + fresh slots).  Those are the `call $.pattern clone` and `arg0 cloneTemplateValues` rows of the
  exec access table; the clone bodies are pinned by Tie.clones_expected / Tie.clone_template_text.

  Model: cells below `bound` are Program-owned; a Runtime writes only through references it holds; `cloneUse` hands it a
  reference to a FRESH copy, `aliasUse` (what the clones prevent: seeded changes C16-m1, the pre-85b307c template code)
  a reference to the Program's own cell.
-/
namespace GojaModel.C16.Clone

structure St where
  val : Nat → Nat           -- cell contents
  next : Nat                -- next fresh cell
  wrefs : Nat → List Nat    -- per Runtime: the cells it holds a writable reference to

inductive Op
  | cloneUse (src : Nat)        -- build the run-time object on a per-use clone of Program cell `src`
  | aliasUse (src : Nat)        -- build it on the Program's cell itself
  | write (c : Nat) (v : Nat)   -- lastIndex / match cache / createRegexp2 / freeze …: through a held reference only
  deriving Repr

def step (bound : Nat) (st : St) (rt : Nat) : Op → St
  | .cloneUse src =>
    if src < bound then
      { val := fun x => if x = st.next then st.val src else st.val x
        next := st.next + 1
        wrefs := fun q => if q = rt then st.next :: st.wrefs q else st.wrefs q }
    else st
  | .aliasUse src =>
    if src < bound then { st with wrefs := fun q => if q = rt then src :: st.wrefs q else st.wrefs q } else st
  | .write c v =>
    if c ∈ st.wrefs rt then { st with val := fun x => if x = c then v else st.val x } else st

def run (bound : Nat) : St → List (Nat × Op) → St
  | st, [] => st
  | st, (rt, op) :: rest => run bound (step bound st rt op) rest

def usesClone : Op → Bool
  | .aliasUse _ => false
  | _ => true

/-- every writable reference points to a private cell, and no two Runtimes hold the same one -/
structure CInv (bound : Nat) (st : St) : Prop where
  bnd : bound ≤ st.next
  own : ∀ rt, ∀ c ∈ st.wrefs rt, bound ≤ c ∧ c < st.next
  disj : ∀ q1 q2, q1 ≠ q2 → ∀ c ∈ st.wrefs q1, c ∉ st.wrefs q2

theorem cinv_step {bound : Nat} {st : St} (rt : Nat) (op : Op) (inv : CInv bound st) (h : usesClone op = true) :
    CInv bound (step bound st rt op) := by
  obtain ⟨bnd, own, disj⟩ := inv
  cases op with
  | cloneUse src =>
    simp only [step]
    split
    · refine ⟨by simp; omega, ?_, ?_⟩
      · intro q c hc
        by_cases hq : q = rt
        · simp [hq] at hc
          rcases hc with rfl | hc
          · simp; omega
          · have := own rt c hc; simp; omega
        · simp [hq] at hc
          have := own q c hc; simp; omega
      · intro q1 q2 hne c hc hc2
        by_cases e1 : q1 = rt <;> by_cases e2 : q2 = rt <;> simp [e1, e2] at hc hc2
        · exact hne (e1.trans e2.symm)
        · rcases hc with rfl | hc
          · have := (own q2 _ hc2).2; omega
          · exact disj rt q2 (e1 ▸ hne) c hc hc2
        · rcases hc2 with rfl | hc2
          · have := (own q1 _ hc).2; omega
          · exact disj q1 rt (e2 ▸ hne) c hc hc2
        · exact disj q1 q2 hne c hc hc2
    · exact ⟨bnd, own, disj⟩
  | aliasUse src => simp [usesClone] at h
  | write c v =>
    simp only [step]
    split
    · exact ⟨bnd, own, disj⟩
    · exact ⟨bnd, own, disj⟩

theorem step_prog_unchanged {bound : Nat} {st : St} (rt : Nat) (op : Op) (inv : CInv bound st) (h : usesClone op = true) :
    ∀ c, c < bound → (step bound st rt op).val c = st.val c := by
  intro c hc
  cases op with
  | cloneUse src =>
    simp only [step]
    split
    · have := inv.bnd
      have : c ≠ st.next := by omega
      simp [this]
    · rfl
  | aliasUse src => simp [usesClone] at h
  | write c' v =>
    simp only [step]
    split
    · next hm =>
      have := (inv.own rt c' hm).1
      have : c ≠ c' := by omega
      simp [this]
    · rfl

/-- a step of Runtime q changes no cell Runtime r holds a reference to, and not r's set of references -/
theorem step_other_unchanged {bound : Nat} {st : St} (q r : Nat) (op : Op) (hqr : q ≠ r) (inv : CInv bound st)
    (h : usesClone op = true) :
    (step bound st q op).wrefs r = st.wrefs r ∧ ∀ c ∈ st.wrefs r, (step bound st q op).val c = st.val c := by
  have hrq : ¬ r = q := fun e => hqr e.symm
  cases op with
  | cloneUse src =>
    simp only [step]
    split
    · refine ⟨by simp [hrq], ?_⟩
      intro c hc
      have := (inv.own r c hc).2
      have : c ≠ st.next := by omega
      simp [this]
    · exact ⟨rfl, fun _ _ => rfl⟩
  | aliasUse src => simp [usesClone] at h
  | write c' v =>
    simp only [step]
    split
    · next hm =>
      refine ⟨rfl, ?_⟩
      intro c hc
      have : c ≠ c' := fun e => inv.disj q r hqr c' hm (e ▸ hc)
      simp [this]
    · exact ⟨rfl, fun _ _ => rfl⟩

theorem run_prog_unchanged {bound : Nat} (ops : List (Nat × Op)) :
    ∀ st, CInv bound st → (∀ x ∈ ops, usesClone x.2 = true) →
      CInv bound (run bound st ops) ∧ ∀ c, c < bound → (run bound st ops).val c = st.val c := by
  induction ops with
  | nil => intro st inv _; exact ⟨inv, fun _ _ => rfl⟩
  | cons x rest ih =>
    intro st inv h
    obtain ⟨rt, op⟩ := x
    have hop := h (rt, op) (List.mem_cons_self ..)
    have := ih _ (cinv_step rt op inv hop) (fun y hy => h y (List.mem_cons_of_mem _ hy))
    refine ⟨this.1, fun c hc => ?_⟩
    simp only [run]
    rw [this.2 c hc, step_prog_unchanged rt op inv hop c hc]

theorem run_others_unchanged {bound : Nat} (r : Nat) (ops : List (Nat × Op)) :
    ∀ st, CInv bound st → (∀ x ∈ ops, usesClone x.2 = true) → (∀ x ∈ ops, x.1 ≠ r) →
      (run bound st ops).wrefs r = st.wrefs r ∧ ∀ c ∈ st.wrefs r, (run bound st ops).val c = st.val c := by
  induction ops with
  | nil => intro st _ _ _; exact ⟨rfl, fun _ _ => rfl⟩
  | cons x rest ih =>
    intro st inv h hr
    obtain ⟨q, op⟩ := x
    have hop := h (q, op) (List.mem_cons_self ..)
    have hq : q ≠ r := hr (q, op) (List.mem_cons_self ..)
    have h1 := step_other_unchanged q r op hq inv hop
    have h2 := ih _ (cinv_step q op inv hop) (fun y hy => h y (List.mem_cons_of_mem _ hy)) (fun y hy => hr y (List.mem_cons_of_mem _ hy))
    simp only [run]
    refine ⟨h2.1.trans h1.1, fun c hc => ?_⟩
    rw [h2.2 c (h1.1 ▸ hc), h1.2 c hc]

end GojaModel.C16.Clone
