/-
  C16 — Programs and primitive values are shareable across goroutines.   Model `Share` (core Lean only).

  Four parts, each mirroring one anchor of the property:

  A. access tables (data regenerated from the Go source by extract/c16.go) and the abstract sharing machine on which
     `program_readonly` / `run_isolated` are proved:  n Runtimes interleave instructions of ONE Program; what an
     instruction type may write is read off the table.
  B. the lazy memo of `importedString` (string_imported.go:31 scan, :36 ensureScanned) as a multi-thread program in a
     small happens-before semantics (program order + release/acquire on atomics + sync.Once); the machine is
     parametrised by the protocol shape `Cfg` so that the protocol as coded today (plain flag, no Once) and a
     once-style protocol are two instances of the same definitions.
  C. the cross-runtime decision of Runtime.toValue for *Object (runtime.go:1797-1805).
  D. unistring.Scan (unistring/string.go:24) as a function of the bytes: Go's UTF-8 decoding of `range s` + UTF-16
     encoding with a leading BOM — "the memoised value".
-/
namespace GojaModel.C16

/-! ## A. access tables and the sharing machine -/

/-- One row of the exec access table (extract/c16.go).  `kind`:
  "write"         assignment / ++ / delete / copy-target through the receiver (or an alias of one of its fields)
  "escape"        a map / slice / pointer field of the instruction is stored somewhere or passed to a call
  "escape-iface"  same for an interface-typed field (a primitive Value/String constant)
  "addr"          the address of a field is taken
  "call"          method call on a reference-typed field
  "helper"        call of another method of the instruction type (analysed transitively)
`guard` is the INNERMOST enclosing condition of the access (e.g. `!($.extensible)` for the aliasing of a names map).
`isLocal` (writes only): the receiver is a value receiver and only its private copy is written. -/
structure ExecAcc where
  ty : String
  fn : String
  ptr : Bool
  kind : String
  path : String
  sink : String
  guard : String
  isLocal : Bool
  deriving DecidableEq, Repr

structure FieldWrite where
  file : String
  fn : String
  field : String
  deriving DecidableEq, Repr

/-- One access to a field of importedString.  `sync`: "plain" | "atomic" | "init" (composite literal, before the
value is published).  `dom`: what dominates the access inside its function: "ensure" (x.ensureScanned() was called),
"flag" (an enclosing condition tested x.scanned), "raw" (nothing), "init". -/
structure ImpAcc where
  file : String
  fn : String
  field : String
  write : Bool
  sync : String
  dom : String
  deriving DecidableEq, Repr

/-- The rows that are known to be harmless for sharing, with the reason (design/C16.md has the long form):
  * `names` maps reach `stash.names` only for NON-extensible scopes (enterFunc*/enterFuncBody copy the map when
    `extensible`; block scopes never get new bindings); the writers of a names map are tied in Tie.names_writers;
  * `prg`/`ctor`/`initFields` are nested Programs — read-only by the same argument;
  * `&raw`/`&cooked` are identities only; `raw`/`cooked` go through cloneTemplateValues (a per-use copy);
  * `pattern.clone()` is the per-use clone of the stateful regexp;
  * `privateFields`/`privateMethods`/`funcs`/`vars`/`lets`/`consts` are name slices that are only iterated;
  * `typ` (privateId) only occurs in eval-compiled code, whose Program is private to one runtime;
  * interface-typed fields hold primitive constants; `helper` rows are calls of other analysed methods. -/
def safeRows : List ExecAcc := [
  { ty := "bindGlobal", fn := "exec", ptr := true, kind := "escape", path := "$.funcs", sink := "arg0 vm.checkBindFuncsGlobal", guard := "", isLocal := false },
  { ty := "bindGlobal", fn := "exec", ptr := true, kind := "escape", path := "$.lets", sink := "arg0 vm.checkBindLexGlobal", guard := "", isLocal := false },
  { ty := "bindGlobal", fn := "exec", ptr := true, kind := "escape", path := "$.consts", sink := "arg0 vm.checkBindLexGlobal", guard := "", isLocal := false },
  { ty := "bindGlobal", fn := "exec", ptr := true, kind := "escape", path := "$.vars", sink := "arg0 vm.checkBindVarsGlobal", guard := "", isLocal := false },
  { ty := "bindGlobal", fn := "exec", ptr := true, kind := "escape", path := "$.funcs", sink := "arg0 vm.createGlobalFuncBindings", guard := "", isLocal := false },
  { ty := "bindGlobal", fn := "exec", ptr := true, kind := "escape", path := "$.vars", sink := "arg0 vm.createGlobalVarBindings", guard := "", isLocal := false },
  { ty := "definePrivateGetter", fn := "exec", ptr := true, kind := "helper", path := "$", sink := "definePrivateMethod.getPrivateMethods", guard := "", isLocal := false },
  { ty := "definePrivateMethod", fn := "exec", ptr := true, kind := "helper", path := "$", sink := "definePrivateMethod.getPrivateMethods", guard := "", isLocal := false },
  { ty := "definePrivateSetter", fn := "exec", ptr := true, kind := "helper", path := "$", sink := "definePrivateMethod.getPrivateMethods", guard := "", isLocal := false },
  { ty := "enterBlock", fn := "exec", ptr := true, kind := "escape", path := "$.names", sink := "= vm.stash.names", guard := "len($.names) > 0", isLocal := false },
  { ty := "enterCatchBlock", fn := "exec", ptr := true, kind := "escape", path := "$.names", sink := "= vm.stash.names", guard := "len($.names) > 0", isLocal := false },
  { ty := "enterFunc", fn := "exec", ptr := true, kind := "escape", path := "$.names", sink := "= stash.names", guard := "!($.extensible)", isLocal := false },
  { ty := "enterFunc1", fn := "exec", ptr := true, kind := "escape", path := "$.names", sink := "= stash.names", guard := "!($.extensible)", isLocal := false },
  { ty := "enterFuncBody", fn := "exec", ptr := true, kind := "escape", path := "$.names", sink := "= stash.names", guard := "!($.extensible)", isLocal := false },
  { ty := "getPrivatePropId", fn := "exec", ptr := true, kind := "escape", path := "$.typ", sink := "arg2 vm.getPrivateProp", guard := "", isLocal := false },
  { ty := "getPrivatePropIdCallee", fn := "exec", ptr := true, kind := "escape", path := "$.typ", sink := "arg2 vm.getPrivateProp", guard := "", isLocal := false },
  { ty := "getPrivatePropRes", fn := "exec", ptr := true, kind := "helper", path := "$", sink := "getPrivatePropRes._get", guard := "", isLocal := false },
  { ty := "getPrivateRefId", fn := "exec", ptr := true, kind := "escape", path := "$", sink := "lit privateRefId.id", guard := "", isLocal := false },
  { ty := "getPrivateRefRes", fn := "exec", ptr := true, kind := "escape", path := "$", sink := "lit privateRefRes.name", guard := "", isLocal := false },
  { ty := "getTaggedTmplObject", fn := "exec", ptr := true, kind := "escape", path := "$.cooked", sink := "arg0 cloneTemplateValues", guard := "", isLocal := false },
  { ty := "getTaggedTmplObject", fn := "exec", ptr := true, kind := "escape", path := "$.raw", sink := "arg0 cloneTemplateValues", guard := "", isLocal := false },
  { ty := "getTaggedTmplObject", fn := "exec", ptr := true, kind := "addr", path := "$.raw", sink := "lit taggedTemplateArray.idPtr", guard := "", isLocal := false },
  { ty := "getTaggedTmplObject", fn := "exec", ptr := true, kind := "addr", path := "$.cooked", sink := "lit taggedTemplateArray.idPtr", guard := "", isLocal := false },
  { ty := "initStaticElements", fn := "exec", ptr := true, kind := "escape", path := "$.privateFields", sink := "arg1 vm.fillPrivateNamesMap", guard := "h.privateEnvType != nil", isLocal := false },
  { ty := "initStaticElements", fn := "exec", ptr := true, kind := "escape", path := "$.privateMethods", sink := "arg2 vm.fillPrivateNamesMap", guard := "h.privateEnvType != nil", isLocal := false },
  { ty := "loadVal", fn := "exec", ptr := false, kind := "escape-iface", path := "$.v", sink := "arg0 vm.push", guard := "", isLocal := false },
  { ty := "newArrowFunc", fn := "_exec", ptr := true, kind := "escape", path := "$.prg", sink := "= obj.prg", guard := "", isLocal := false },
  { ty := "newArrowFunc", fn := "exec", ptr := true, kind := "helper", path := "$", sink := "newArrowFunc._exec", guard := "", isLocal := false },
  { ty := "newAsyncArrowFunc", fn := "exec", ptr := true, kind := "helper", path := "$", sink := "newArrowFunc._exec", guard := "", isLocal := false },
  { ty := "newAsyncFunc", fn := "exec", ptr := true, kind := "escape", path := "$.prg", sink := "= obj.prg", guard := "", isLocal := false },
  { ty := "newMethod", fn := "_exec", ptr := true, kind := "escape", path := "$.prg", sink := "= obj.prg", guard := "", isLocal := false },
  { ty := "newAsyncMethod", fn := "exec", ptr := true, kind := "helper", path := "$", sink := "newMethod._exec", guard := "", isLocal := false },
  { ty := "newClass", fn := "create", ptr := true, kind := "escape", path := "$.ctor", sink := "= f.prg", guard := "", isLocal := false },
  { ty := "newClass", fn := "create", ptr := true, kind := "escape", path := "$.initFields", sink := "= f.initFields", guard := "", isLocal := false },
  { ty := "newClass", fn := "create", ptr := true, kind := "escape", path := "$.privateFields", sink := "arg1 vm.fillPrivateNamesMap", guard := "$.hasPrivateEnv", isLocal := false },
  { ty := "newClass", fn := "create", ptr := true, kind := "escape", path := "$.privateMethods", sink := "arg2 vm.fillPrivateNamesMap", guard := "$.hasPrivateEnv", isLocal := false },
  { ty := "newClass", fn := "exec", ptr := true, kind := "helper", path := "$", sink := "newClass.create", guard := "", isLocal := false },
  { ty := "newDerivedClass", fn := "exec", ptr := true, kind := "helper", path := "$", sink := "newClass.create", guard := "", isLocal := false },
  { ty := "newFunc", fn := "exec", ptr := true, kind := "escape", path := "$.prg", sink := "= obj.prg", guard := "", isLocal := false },
  { ty := "newGeneratorFunc", fn := "exec", ptr := true, kind := "escape", path := "$.prg", sink := "= obj.prg", guard := "", isLocal := false },
  { ty := "newGeneratorMethod", fn := "exec", ptr := true, kind := "helper", path := "$", sink := "newMethod._exec", guard := "", isLocal := false },
  { ty := "newMethod", fn := "exec", ptr := true, kind := "helper", path := "$", sink := "newMethod._exec", guard := "", isLocal := false },
  { ty := "newRegexp", fn := "exec", ptr := true, kind := "call", path := "$.pattern", sink := "clone", guard := "", isLocal := false },
  { ty := "newRegexp", fn := "exec", ptr := true, kind := "escape-iface", path := "$.src", sink := "arg1 vm.r.newRegExpp", guard := "", isLocal := false },
  { ty := "newStaticFieldInit", fn := "exec", ptr := true, kind := "escape", path := "$.initFields", sink := "= f.initFields", guard := "", isLocal := false },
  { ty := "privateInId", fn := "exec", ptr := true, kind := "escape", path := "$.typ", sink := "arg0 obj.self.getPrivateEnv", guard := "", isLocal := false },
  { ty := "setPrivatePropId", fn := "exec", ptr := true, kind := "escape", path := "$.typ", sink := "arg2 vm.setPrivateProp", guard := "", isLocal := false },
  { ty := "setPrivatePropIdP", fn := "exec", ptr := true, kind := "escape", path := "$.typ", sink := "arg2 vm.setPrivateProp", guard := "", isLocal := false },
  { ty := "setPrivatePropRes", fn := "exec", ptr := true, kind := "helper", path := "$", sink := "setPrivatePropRes._set", guard := "", isLocal := false },
  { ty := "throwConst", fn := "exec", ptr := false, kind := "escape-iface", path := "$.v", sink := "arg0 vm.throw", guard := "", isLocal := false },
  { ty := "yieldMarker", fn := "exec", ptr := true, kind := "escape", path := "$", sink := "arg0 vm.push", guard := "", isLocal := false }
]

/-- The rows of the source BEFORE fix 85b307c that were NOT harmless (finding "tagged-template-object-shared-across-runtimes-race"):
the compiled slices of *valueProperty slots become the backing store of the template arrays of every runtime, and
Object.freeze / defineProperty / … on such an array write the slots. -/
def templateSharedRows : List ExecAcc := [
  { ty := "getTaggedTmplObject", fn := "exec", ptr := true, kind := "escape", path := "$.cooked", sink := "arg1 setArrayValues", guard := "", isLocal := false },
  { ty := "getTaggedTmplObject", fn := "exec", ptr := true, kind := "escape", path := "$.raw", sink := "arg1 setArrayValues", guard := "", isLocal := false }]

/-- A row is harmless for Program-immutability iff it is a write to the method's private copy only, or one of the
known-safe escapes / calls.  Any other row (a new write, a new escape, a changed guard) is treated as a shared write. -/
def ExecAcc.noSharedWrite (a : ExecAcc) : Bool := if a.kind == "write" then a.isLocal else safeRows.contains a

def unsafeRows (tbl : List ExecAcc) : List ExecAcc := tbl.filter (fun a => !a.noSharedWrite)

def tableReadonly (tbl : List ExecAcc) : Bool := tbl.all ExecAcc.noSharedWrite

/-- May instructions of type `ty` write memory reachable from the Program, according to the table? -/
def writesProg (tbl : List ExecAcc) (ty : String) : Bool :=
  tbl.any (fun a => a.ty == ty && !a.noSharedWrite)

abbrev Mem := Nat → Nat

/-- The world of the sharing machine: the memory reachable from the (one) Program, and the private memory of each
Runtime (stack, stashes, objects, per-use clones of regexps and template arrays …). -/
structure World where
  prog : Mem
  own : Nat → Mem

/-- Arbitrary semantics of instruction types: what an instruction computes from (Program memory, own memory).
`progNext` is what it WOULD store into Program memory if it wrote there. -/
structure Interp where
  ownNext : String → Mem → Mem → Mem
  progNext : String → Mem → Mem → Mem

/-- Runtime `r` executes one instruction of type `ty`.  It reads the Program and its own memory only; it writes its
own memory, and Program memory only when the access table says instructions of that type do. -/
def stepW (tbl : List ExecAcc) (I : Interp) (w : World) (r : Nat) (ty : String) : World :=
  { prog := if writesProg tbl ty then I.progNext ty w.prog (w.own r) else w.prog
    own := fun x => if x = r then I.ownNext ty w.prog (w.own r) else w.own x }

/-- A schedule is any interleaving: a list of (runtime id, instruction type). -/
def runW (tbl : List ExecAcc) (I : Interp) : World → List (Nat × String) → World
  | w, [] => w
  | w, (r, ty) :: rest => runW tbl I (stepW tbl I w r ty) rest

/-- The run of runtime `r` alone: the schedule restricted to r. -/
def onlyOf (r : Nat) (s : List (Nat × String)) : List (Nat × String) := s.filter (fun x => x.1 == r)

/-! ## B. the importedString memo protocol in a happens-before semantics -/

inductive Sync | plain | atomic
  deriving DecidableEq, Repr

/-- Instruction list produced by the extractor from scan()/ensureScanned(). -/
inductive PInstr
  | loadFlag (s : Sync)    -- read i.scanned
  | brSet                  -- if it was set skip to the matching label
  | onceBegin              -- i.once.Do(
  | scanStore              -- i.u = unistring.Scan(i.s)
  | storeFlag (s : Sync)   -- i.scanned = true
  | onceEnd                -- )
  | label
  deriving DecidableEq, Repr

/-- Shape of the protocol: how the flag is accessed and whether the scan runs under a sync.Once. -/
structure Cfg where
  flagSync : Sync
  useOnce : Bool
  deriving DecidableEq, Repr

def cfgProg (c : Cfg) : List PInstr :=
  [.loadFlag c.flagSync, .brSet] ++ (if c.useOnce then [.onceBegin] else []) ++
  [.scanStore, .storeFlag c.flagSync] ++ (if c.useOnce then [.onceEnd] else []) ++ [.label]

/-- The protocol before fix 7f47297: `if !i.scanned { i.u = Scan(i.s); i.scanned = true }` (regression lemmas only). -/
def unsyncCfg : Cfg := ⟨.plain, false⟩
/-- The protocol as coded (string_imported.go scan/ensureScanned):
`if !i.scanned.Load() { i.scanOnce.Do(func(){ i.u = Scan(i.s); i.scanned.Store(true) }) }`. -/
def onceCfg : Cfg := ⟨.atomic, true⟩

def allCfgs : List Cfg := [⟨.plain, false⟩, ⟨.plain, true⟩, ⟨.atomic, false⟩, ⟨.atomic, true⟩]

def cfgOfProg (p : List PInstr) : Option Cfg := allCfgs.find? (fun c => cfgProg c = p)

/-- Control points of a thread.  `f*`: a FORCING client (x.ensureScanned(); … x.u …), f0..f5 are the instructions of
`cfgProg`, f6 the read of `u` that follows.  `p*`: a PEEKING client (`if x.scanned { … x.u … }`).  `w0`: a RAW client
(reads x.u with no check at all). -/
inductive PC | idle | f0 | f1 | f2 | f3 | f4 | f5 | f6 | p0 | p1 | p2 | w0
  deriving DecidableEq, Repr

inductive Op | force | peek | raw
  deriving DecidableEq, Repr

/-- A plain (non-atomic) memory access recorded in the history of a location. -/
structure Acc where
  id : Nat
  tid : Nat
  wr : Bool

/-- `K` is the set of plain-access events that happen-before the thread's current point (what a vector clock
encodes). `r` is the register holding the last value read from the flag. -/
structure Thread where
  pc : PC
  r : Bool
  K : Nat → Bool

structure MState where
  thr : Nat → Thread
  flag : Bool            -- i.scanned
  flagK : Nat → Bool     -- knowledge published by the last atomic store of the flag (release)
  uval : Nat             -- i.u  (0 = nil)
  histU : List Acc       -- plain accesses to i.u so far
  histF : List Acc       -- plain accesses to i.scanned so far (only when the flag is accessed non-atomically)
  onceDone : Bool
  onceRun : Option Nat
  onceK : Nat → Bool     -- knowledge published by the completion of once.Do
  next : Nat             -- next event id
  raced : Bool           -- some plain access was not ordered after a conflicting access of another thread
  bad : Bool             -- some checked client observed a `u` different from Scan(s)

def initThread : Thread := ⟨.idle, false, fun _ => false⟩

def initM : MState :=
  { thr := fun _ => initThread, flag := false, flagK := fun _ => false, uval := 0, histU := [], histF := [],
    onceDone := false, onceRun := none, onceK := fun _ => false, next := 0, raced := false, bad := false }

/-- Does a plain access by thread `t` (knowing `K`) race with the history `h`?  Two accesses conflict when they come
from different threads and at least one is a write; they race when the earlier one is not known to (does not
happen-before) the later one. -/
def conflicts (h : List Acc) (t : Nat) (K : Nat → Bool) (wr : Bool) : Bool :=
  h.any (fun a => a.tid != t && (a.wr || wr) && !K a.id)

def setThr (s : MState) (t : Nat) (th : Thread) : MState :=
  { s with thr := fun x => if x = t then th else s.thr x }

def learn (K : Nat → Bool) (e : Nat) : Nat → Bool := fun x => K x || x == e
def join (K K' : Nat → Bool) : Nat → Bool := fun x => K x || K' x

/-- Plain read of `u` by thread t, continuing at `nxt`; `check`: the client relies on the value being Scan(s). -/
def readU (sv : Nat) (s : MState) (t : Nat) (nxt : PC) (check : Bool) : MState :=
  let th := s.thr t
  { setThr s t { th with pc := nxt, K := learn th.K s.next } with
    histU := ⟨s.next, t, false⟩ :: s.histU
    next := s.next + 1
    raced := s.raced || conflicts s.histU t th.K false
    bad := s.bad || (check && s.uval != sv) }

/-- Read of the flag (plain or atomic-acquire), continuing at `nxt`. -/
def loadFlag (c : Cfg) (s : MState) (t : Nat) (nxt : PC) : MState :=
  let th := s.thr t
  match c.flagSync with
  | .atomic => setThr s t { th with pc := nxt, r := s.flag, K := join th.K s.flagK }
  | .plain =>
    { setThr s t { th with pc := nxt, r := s.flag, K := learn th.K s.next } with
      histF := ⟨s.next, t, false⟩ :: s.histF
      next := s.next + 1
      raced := s.raced || conflicts s.histF t th.K false }

/-- One step of thread `t`; `op` is consulted only when the thread is idle (it chooses the next client operation).
`sv` is Scan(i.s). A thread blocked in once.Do does not move. -/
def stepM (c : Cfg) (sv : Nat) (s : MState) (t : Nat) (op : Op) : MState :=
  let th := s.thr t
  match th.pc with
  | .idle => setThr s t { th with pc := match op with | .force => .f0 | .peek => .p0 | .raw => .w0 }
  | .f0 => loadFlag c s t .f1                                              -- if !i.scanned
  | .f1 => setThr s t { th with pc := if th.r then .f6 else .f2 }
  | .f2 =>                                                                 -- once.Do( … entry
    if c.useOnce then
      if s.onceDone then setThr s t { th with pc := .f6, K := join th.K s.onceK }
      else match s.onceRun with
        | some _ => s
        | none => { setThr s t { th with pc := .f3 } with onceRun := some t }
    else setThr s t { th with pc := .f3 }
  | .f3 =>                                                                 -- i.u = unistring.Scan(i.s)   (plain write)
    { setThr s t { th with pc := .f4, K := learn th.K s.next } with
      uval := sv
      histU := ⟨s.next, t, true⟩ :: s.histU
      next := s.next + 1
      raced := s.raced || conflicts s.histU t th.K true }
  | .f4 =>                                                                 -- i.scanned = true
    match c.flagSync with
    | .atomic => { setThr s t { th with pc := .f5 } with flag := true, flagK := th.K }
    | .plain =>
      { setThr s t { th with pc := .f5, K := learn th.K s.next } with
        flag := true
        histF := ⟨s.next, t, true⟩ :: s.histF
        next := s.next + 1
        raced := s.raced || conflicts s.histF t th.K true }
  | .f5 =>                                                                 -- … ) once.Do returns
    if c.useOnce then { setThr s t { th with pc := .f6 } with onceDone := true, onceRun := none, onceK := th.K }
    else setThr s t { th with pc := .f6 }
  | .f6 => readU sv s t .idle true                                         -- … x.u …
  | .p0 => loadFlag c s t .p1                                              -- if x.scanned {
  | .p1 => setThr s t { th with pc := if th.r then .p2 else .idle }
  | .p2 => readU sv s t .idle true                                         --   … x.u … }
  | .w0 => readU sv s t .idle false                                        -- … x.u …   (no check, no reliance on the value)

def runM (c : Cfg) (sv : Nat) : MState → List (Nat × Op) → MState
  | s, [] => s
  | s, (t, op) :: rest => runM c sv (stepM c sv s t op) rest

/-! ## C. Runtime.toValue on an *Object (runtime.go:1797) -/

/-- What toValue looks at: `i == nil`, `i.self == nil`, `i.runtime` (nil or a runtime id). -/
structure ObjRef where
  isNil : Bool
  selfNil : Bool
  runtime : Option Nat
  deriving DecidableEq, Repr

inductive TVRes | null | typeError | same
  deriving DecidableEq, Repr

def toValueObj (o : ObjRef) (r : Nat) : TVRes :=
  if o.isNil || o.selfNil then .null                            -- if i == nil || i.self == nil { return _null }
  else if o.runtime.isSome && o.runtime != some r then .typeError  -- if i.runtime != nil && i.runtime != r { panic(TypeError) }
  else .same                                                    -- return i

/-- The clause as the extractor renders it (receiver → r, bound variable → o). -/
def expectedToValueObject : List (String × String) := [
  ("o == nil || o.self == nil", "return _null"),
  ("o.runtime != nil && o.runtime != r", "panic(r.NewTypeError(\"Illegal runtime transition of an Object\"))"),
  ("true", "return o")]

/-! ## D. unistring.Scan as a function of the bytes -/

/-- Go's `utf8.DecodeRuneInString` restricted to what `range s` needs: (rune, width) of the first encoding in `b`
(`b` non-empty). Invalid encodings give (U+FFFD, 1).  Mirrors the `first`/`acceptRanges` tables of unicode/utf8. -/
def decodeRune (b : List Nat) : Nat × Nat :=
  match b with
  | [] => (0xFFFD, 1)
  | b0 :: rest =>
    if b0 < 0x80 then (b0, 1)
    else if b0 < 0xC2 then (0xFFFD, 1)
    else if b0 < 0xE0 then
      match rest with
      | b1 :: _ => if 0x80 ≤ b1 ∧ b1 ≤ 0xBF then ((b0 % 0x20) * 64 + b1 % 64, 2) else (0xFFFD, 1)
      | _ => (0xFFFD, 1)
    else if b0 < 0xF0 then
      let lo := if b0 = 0xE0 then 0xA0 else 0x80
      let hi := if b0 = 0xED then 0x9F else 0xBF
      match rest with
      | b1 :: b2 :: _ =>
        if lo ≤ b1 ∧ b1 ≤ hi ∧ 0x80 ≤ b2 ∧ b2 ≤ 0xBF then ((b0 % 0x10) * 4096 + (b1 % 64) * 64 + b2 % 64, 3)
        else (0xFFFD, 1)
      | _ => (0xFFFD, 1)
    else if b0 < 0xF5 then
      let lo := if b0 = 0xF0 then 0x90 else 0x80
      let hi := if b0 = 0xF4 then 0x8F else 0xBF
      match rest with
      | b1 :: b2 :: b3 :: _ =>
        if lo ≤ b1 ∧ b1 ≤ hi ∧ 0x80 ≤ b2 ∧ b2 ≤ 0xBF ∧ 0x80 ≤ b3 ∧ b3 ≤ 0xBF then
          ((b0 % 8) * 262144 + (b1 % 64) * 4096 + (b2 % 64) * 64 + b3 % 64, 4)
        else (0xFFFD, 1)
      | _ => (0xFFFD, 1)
    else (0xFFFD, 1)

/-- UTF-16 code units of one rune (utf16.EncodeRune for > 0xFFFF). -/
def encodeUnits (r : Nat) : List Nat :=
  if r ≤ 0xFFFF then [r] else [0xD800 + (r - 0x10000) / 1024, 0xDC00 + (r - 0x10000) % 1024]

/-- `for _, chr := range s` with fuel (every iteration consumes ≥ 1 byte, so `b.length` fuel is enough). -/
def unitsFuel : Nat → List Nat → List Nat
  | 0, _ => []
  | _, [] => []
  | fuel + 1, b =>
    let (r, w) := decodeRune b
    encodeUnits r ++ unitsFuel fuel (b.drop w)

/-- unistring.Scan: `none` (nil) when every byte is < 0x80, else BOM :: UTF-16 units. -/
def scanBytes (b : List Nat) : Option (List Nat) :=
  if b.all (· < 0x80) then none else some (0xFEFF :: unitsFuel b.length b)

end GojaModel.C16
