/-
  C16 model driver (line protocol, core Lean only).
    tv <isNil> <selfNil> <runtime|-> <r>      → null | typeError | same          (toValueObj)
    memo <unsync|once|atomic|plainonce> <sv> <t:op,t:op,…>   (op ∈ f p w)
                                               → raced=<0|1> bad=<0|1> u=<n> flag=<0|1> nU=<n> nF=<n>
    scan <hex bytes>                           → nil | u16 <hex units>            (scanBytes)
    chain <tok tok …>  (outermost first; V sloppy function, S strict function, B block with stash, b block without; a direct
                       eval is compiled in the innermost scope)  → run-time chain innermost first + `|target=` + `|mode=strict|sloppy`
                                                                                   (Scopes.crun, Names.markEval/rtChain/target)
  The driver imports only the hand-written model (no Generated file, no Props/Tie): it builds and runs whatever the
  regenerated facts look like.
-/
import GojaModel.Base.Proto
import GojaModel.C16.Model
import GojaModel.C16.Scopes
namespace GojaModel.C16.Driver
open GojaModel.C16 GojaModel.Proto

def b01 (b : Bool) : String := if b then "1" else "0"

def cfgByName (n : String) : Option Cfg :=
  if n == "unsync" then some unsyncCfg
  else if n == "once" then some onceCfg
  else if n == "atomic" then some ⟨.atomic, false⟩
  else if n == "plainonce" then some ⟨.plain, true⟩
  else none

def cfgName (c : Option Cfg) : String :=
  match c with
  | some ⟨.plain, false⟩ => "unsync"
  | some ⟨.atomic, true⟩ => "once"
  | some ⟨.atomic, false⟩ => "atomic"
  | some ⟨.plain, true⟩ => "plainonce"
  | none => "unknown"

def parseSched (s : String) : Option (List (Nat × Op)) :=
  (s.splitOn ",").filter (· ≠ "") |>.mapM fun item =>
    match item.splitOn ":" with
    | [t, o] =>
      match t.toNat?, o with
      | some t, "f" => some (t, Op.force)
      | some t, "p" => some (t, Op.peek)
      | some t, "w" => some (t, Op.raw)
      | _, _ => none
    | _ => none

def parseHexBytes (s : String) : Option (List Nat) :=
  let rec go : List Char → Option (List Nat)
    | [] => some []
    | a :: b :: rest =>
      match hexDigit? a, hexDigit? b, go rest with
      | some x, some y, some r => some ((x * 16 + y) :: r)
      | _, _, _ => none
    | _ => none
  go s.toList

def handle (line : String) : String :=
  match words line with
  | ["tv", n, sn, rt, r] =>
    match r.toNat? with
    | none => "error"
    | some r =>
      let o : ObjRef := ⟨n == "1", sn == "1", if rt == "-" then none else rt.toNat?⟩
      match toValueObj o r with
      | .null => "null" | .typeError => "typeError" | .same => "same"
  | ["memo", cn, sv, sched] =>
    match cfgByName cn, sv.toNat?, parseSched sched with
    | some c, some sv, some sc =>
      let s := runM c sv initM sc
      s!"raced={b01 s.raced} bad={b01 s.bad} u={s.uval} flag={b01 s.flag} nU={s.histU.length} nF={s.histF.length}"
    | _, _, _ => "error"
  | ["scan", hex] =>
    match parseHexBytes hex with
    | none => "error"
    | some b =>
      match scanBytes b with
      | none => "nil"
      | some u => "u16 " ++ String.join (u.map (toHexW 4))
  | ["scan"] => "nil"
  | "chain" :: toks =>
    let ops : List Scopes.COp := (toks.zipIdx.map fun (tk, i) =>
      if tk == "V" then [Scopes.COp.newScope true true i]
      else if tk == "S" then [Scopes.COp.newScope true true i, Scopes.COp.directive true]
      else if tk == "B" then [Scopes.COp.newScope false true i]
      else [Scopes.COp.newScope false false i]).flatten
    let cs := Scopes.crun [] ops
    let strict := Scopes.enclosingStrict cs
    let chain := Names.rtChain (Names.markEval cs)
    let item := fun (st : Names.Stash) => (if st.isVar then "V" else "B") ++ (if st.own then "o" else "s")
    let tgt := match Names.target chain with | some t => item t | none => "none"
    ",".intercalate (chain.map item) ++ "|target=" ++ tgt ++ "|mode=" ++ (if strict then "strict" else "sloppy")
  | _ => "error"

def main : IO Unit := lineMap handle

end GojaModel.C16.Driver
