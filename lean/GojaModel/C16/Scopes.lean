/-
  C16 — how the compiler builds the scope chain, as far as strictness and dynamic var creation are concerned
  (new in deepening round 2; imports Names/NamesLemmas, nothing imports it but Props).

  compiler.go:371 newScope copies `strict` from the enclosing scope; the only later assignments to a scope's `strict`
  are   compiler_expr.go compiledFunctionLiteral.compile   `if !s.strict { s.strict = e.strict != nil }`   (function
  prologue, on the scope just created),   compiledClassLiteral.emitGetter   `s.strict = true`   (class body), and
  compiler.compile   `scope.strict = strict`   on the outermost scope (no enclosing scope).  All three act on the scope
  that has just been pushed, before any scope is created inside it.  (Tie.scope_strict_sites pins these texts.)

  A direct eval call is compiled as callEvalStrict iff the CURRENT scope is strict (compiledCallExpr.emitGetter
  `if e.c.scope.strict`); callEvalStrict.exec passes strict=true to vm.callEval → Runtime.eval → compiler.compile, where
  `ownVarScope := eval && strict` and bindVars is emitted only under `!ownVarScope` (Tie.eval_strict_plumbing).  So an
  eval declares variables in the caller's scope chain only if the scope it is called in is NOT strict.
-/
import GojaModel.C16.NamesLemmas
namespace GojaModel.C16.Scopes
open GojaModel.C16.Names

/-- compile-time operations on the scope chain (innermost first) -/
inductive COp
  | newScope (isVar stash : Bool) (mapId : Nat)   -- c.newScope() / newBlockScope(): `strict` copied from the enclosing scope
  | popScope
  | directive (b : Bool)                          -- function prologue: `if !s.strict { s.strict = b }`
  | classBody                                     -- `s.strict = true`
  | evalCall                                      -- a direct call to eval is compiled here (markEval)
  deriving Repr

def enclosingStrict (cs : List CScope) : Bool :=
  match cs with
  | [] => false
  | sc :: _ => sc.strict

def cstep (cs : List CScope) : COp → List CScope
  | .newScope v st m => ⟨v, enclosingStrict cs, false, st, m⟩ :: cs
  | .popScope => cs.tail
  | .directive b =>
    match cs with
    | [] => []
    | sc :: r => (if sc.strict then sc else { sc with strict := b }) :: r
  | .classBody =>
    match cs with
    | [] => []
    | sc :: r => { sc with strict := true } :: r
  | .evalCall => markEval cs

def crun : List CScope → List COp → List CScope
  | cs, [] => cs
  | cs, op :: rest => crun (cstep cs op) rest

/-- every scope is at least as strict as the scope enclosing it -/
def Mono : List CScope → Prop
  | [] => True
  | [_] => True
  | a :: b :: r => (b.strict = true → a.strict = true) ∧ Mono (b :: r)

theorem mono_tail {a : CScope} {r : List CScope} (h : Mono (a :: r)) : Mono r := by
  cases r with
  | nil => trivial
  | cons b r' => exact h.2

theorem mono_cons_of {a : CScope} {r : List CScope} (hr : Mono r) (h : enclosingStrict r = true → a.strict = true) :
    Mono (a :: r) := by
  cases r with
  | nil => trivial
  | cons b r' => exact ⟨fun hb => h (by simpa [enclosingStrict] using hb), hr⟩

/-- markEval touches only `dyn` -/
theorem markEval_strict (cs : List CScope) : (markEval cs).map (·.strict) = cs.map (·.strict) := by
  induction cs with
  | nil => rfl
  | cons sc rest ih =>
    simp only [markEval]
    split
    · split <;> simp
    · simp [ih]

theorem mono_of_strict_eq : ∀ (cs cs' : List CScope), cs'.map (·.strict) = cs.map (·.strict) → Mono cs → Mono cs' := by
  intro cs
  induction cs with
  | nil => intro cs' h _; cases cs' with
    | nil => trivial
    | cons _ _ => simp at h
  | cons a r ih =>
    intro cs' h hm
    cases cs' with
    | nil => simp at h
    | cons a' r' =>
      simp only [List.map_cons, List.cons.injEq] at h
      have hr := ih r' h.2 (mono_tail hm)
      apply mono_cons_of hr
      intro he
      cases r with
      | nil => cases r' with
        | nil => simp [enclosingStrict] at he
        | cons _ _ => simp at h
      | cons b r2 =>
        cases r' with
        | nil => simp at h
        | cons b' r2' =>
          simp only [List.map_cons, List.cons.injEq] at h
          have hb : b.strict = true := by rw [← h.2.1]; simpa [enclosingStrict] using he
          rw [h.1]; exact hm.1 hb

theorem mono_step (cs : List CScope) (op : COp) (h : Mono cs) : Mono (cstep cs op) := by
  cases op with
  | newScope v st m => exact mono_cons_of h (fun he => he)
  | popScope =>
    cases cs with
    | nil => trivial
    | cons a r => exact mono_tail h
  | directive b =>
    cases cs with
    | nil => trivial
    | cons sc r =>
      simp only [cstep]
      apply mono_cons_of (mono_tail h)
      intro he
      have hs : sc.strict = true := by
        cases r with
        | nil => simp [enclosingStrict] at he
        | cons b' r' => exact h.1 (by simpa [enclosingStrict] using he)
      simp [hs]
  | classBody =>
    cases cs with
    | nil => trivial
    | cons sc r => exact mono_cons_of (mono_tail h) (fun _ => rfl)
  | evalCall => exact mono_of_strict_eq cs _ (markEval_strict cs) h

theorem mono_run (ops : List COp) : ∀ cs, Mono cs → Mono (crun cs ops) := by
  induction ops with
  | nil => intro cs h; exact h
  | cons op rest ih => intro cs h; exact ih _ (mono_step cs op h)

/-- in a monotone chain a strict scope makes every scope inside it — in particular the innermost one — strict -/
theorem mono_head_strict : ∀ (cs : List CScope), Mono cs → ∀ x ∈ cs, x.strict = true → enclosingStrict cs = true := by
  intro cs
  induction cs with
  | nil => intro _ x hx; simp at hx
  | cons a r ih =>
    intro h x hx hs
    rcases List.mem_cons.mp hx with rfl | hx'
    · simpa [enclosingStrict] using hs
    · have hr := ih (mono_tail h) x hx' hs
      cases r with
      | nil => simp at hx'
      | cons b r' => exact h.1 (by simpa [enclosingStrict] using hr)

/-- An eval compiled in a non-strict scope of a monotone chain has a non-strict innermost variable scope: the
"strictness is inherited inwards" assumption of `compiler_contract_gives_hOK`, now a theorem. -/
theorem sloppy_eval_first_var_sloppy (cs : List CScope) (hm : Mono cs) (hh : enclosingStrict cs = false)
    (v : CScope) (hv : firstVar cs = some v) : v.strict = false := by
  cases hs : v.strict
  · rfl
  · have hmem : v ∈ cs := List.mem_of_find?_eq_some hv
    have := mono_head_strict cs hm v hmem hs
    rw [hh] at this
    exact absurd this (by decide)

/-- Whatever sequence of scope pushes / pops / function prologues / class bodies / earlier eval calls the compiler
performed (`ops`, unbounded), when a direct eval is compiled in a non-strict scope — the only case in which the eval'd
code declares variables in the caller's scope chain — the stash bindVars targets at run time owns a private copy of its
names map.  (For a strict scope the eval is compiled as callEvalStrict and gets its own variable scope:
`ownVarScope := eval && strict`, bindVars is not emitted — Tie.eval_strict_plumbing.) -/
theorem eval_var_target_owns_copy (ops : List COp) (v : CScope)
    (hh : enclosingStrict (crun [] ops) = false) (hv : firstVar (crun [] ops) = some v)
    (t : Stash) (ht : target (rtChain (markEval (crun [] ops))) = some t) : t.own = true :=
  contract_target_own _ v hv (sloppy_eval_first_var_sloppy _ (mono_run ops [] trivial) hh v hv) t ht

end GojaModel.C16.Scopes
