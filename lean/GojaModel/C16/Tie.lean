/-
  C16 — Tie: the facts regenerated from /repo's current source (GojaModel/Generated/C16_Share.lean, written by
  extract/c16.go on every run) against what the model and the safety argument of design/C16.md assume.
  Every theorem here is an obligation; when the source changes shape, the named equality fails.
-/
import GojaModel.C16.Lemmas
import GojaModel.Generated.C16_Share
namespace GojaModel.C16.Expected
open GojaModel.C16

def namesWrites : List FieldWrite := [
  { file := "compiler_expr.go", fn := "compiledFunctionLiteral.compile", field := "names" },
  { file := "compiler_expr.go", fn := "compiledClassLiteral.compileFieldsAndStaticBlocks", field := "names" },
  { file := "compiler_stmt.go", fn := "compiler.updateEnterBlock", field := "names" },
  { file := "vm.go", fn := "stash.createBinding", field := "names" },
  { file := "vm.go", fn := "stash.createLexBinding", field := "names" },
  { file := "vm.go", fn := "stash.deleteBinding", field := "names" },
  { file := "vm.go", fn := "enterBlock.exec", field := "names" },
  { file := "vm.go", fn := "enterCatchBlock.exec", field := "names" },
  { file := "vm.go", fn := "enterFunc.exec", field := "names" },
  { file := "vm.go", fn := "enterFunc1.exec", field := "names" },
  { file := "vm.go", fn := "enterFuncBody.exec", field := "names" },
  { file := "vm.go", fn := "copyStash.exec", field := "names" },
  { file := "vm.go", fn := "vm.fillPrivateNamesMap", field := "names" }
]

def rxCacheWrites : List FieldWrite := [
  { file := "object.go", fn := "objectExportCtx.put", field := "cache" },
  { file := "object.go", fn := "objectExportCtx.putTyped", field := "cache" },
  { file := "regexp.go", fn := "regexpPattern.createRegexp2", field := "regexp2Wrapper" },
  { file := "regexp.go", fn := "regexpPattern.clone", field := "regexpWrapper" },
  { file := "regexp.go", fn := "regexpPattern.clone", field := "regexp2Wrapper" },
  { file := "regexp.go", fn := "regexp2Wrapper.findUTF16Cached", field := "cache" },
  { file := "regexp.go", fn := "regexp2Wrapper.findUnicodeCached", field := "cache" }
]

def programFields : List (String × String) := [("code", "[]instruction"), ("funcName", "unistring.String"), ("src", "*file.File"), ("srcMap", "[]srcMapItem")]

def importedFieldsUnsync : List (String × String) := [("s", "string"), ("u", "unicodeString"), ("scanned", "bool")]
def importedFieldsOnce : List (String × String) := [("s", "string"), ("u", "unicodeString"), ("scanOnce", "sync.Once"), ("scanned", "atomic.Bool")]

def clone_regexpPattern : List String := ["src := $.src", "global := $.global", "ignoreCase := $.ignoreCase", "multiline := $.multiline", "dotAll := $.dotAll", "sticky := $.sticky", "unicode := $.unicode", "ret.regexpWrapper = $.regexpWrapper.clone()", "ret.regexp2Wrapper = $.regexp2Wrapper.clone()", "return ret"]
def clone_regexp2Wrapper : List String := ["rx := $.rx"]
def clone_regexpWrapper : List String := ["return $"]

/-- Files that may assign `code` / `srcMap` (fields only Program has): the compiler. -/
def compilerFiles : List String := ["compiler.go", "compiler_expr.go", "compiler_stmt.go"]

/-- The functions that read `x.u` of an importedString with no preceding ensureScanned() and no flag test — today. -/
def rawUReadersUnsync : List String := ["asciiString.StrictEquals", "importedString.StrictEquals"]

end GojaModel.C16.Expected

namespace GojaModel.C16.Tie
open GojaModel.C16

/-- Plain reads of `.u` dominated by nothing, outside scan() itself. -/
def rawUReaders (l : List ImpAcc) : List String :=
  (l.filter fun a => a.field == "u" && !a.write && a.sync == "plain" && a.dom == "raw").map (·.fn)

/-- Accesses of the memo cells outside construction (composite literals). -/
def live (l : List ImpAcc) : List ImpAcc := l.filter fun a => a.sync != "init" && (a.field == "u" || a.field == "scanned")

set_option maxRecDepth 8000 in
/-- the extractor saw the whole instruction set (vm.go has ~258 exec methods), not a fragment -/
theorem exec_methods_seen : Generated.execMethods.length ≥ 250 := by decide

theorem program_fields_expected : Generated.programFields = Expected.programFields := by decide

theorem prog_field_writers_are_compiler : ∀ w ∈ Generated.progFieldWrites, w.file ∈ Expected.compilerFiles := by decide

theorem names_writers_expected : Generated.namesWrites = Expected.namesWrites := by decide

theorem rx_cache_writers_expected : Generated.rxCacheWrites = Expected.rxCacheWrites := by decide

theorem clones_expected :
    Generated.clone_regexpPattern = Expected.clone_regexpPattern ∧
    Generated.clone_regexp2Wrapper = Expected.clone_regexp2Wrapper ∧
    Generated.clone_regexpWrapper = Expected.clone_regexpWrapper := by decide

theorem toValue_object_expected : Generated.toValueObject = expectedToValueObject := by decide

/-- `.s` is never written after construction; `.u` and `.scanned` are written only by scan(). -/
theorem imported_writers : ∀ a ∈ Generated.impAcc, a.write = true →
    a.sync = "init" ∨ (a.fn = "importedString.scan" ∧ a.field ≠ "s") ∨ (a.fn = "newScannedImportedString" ∧ a.field = "scanned") := by decide

/-- The memo protocol and its clients are in one of the two analysed shapes. -/
theorem memo_shape :
    (cfgOfProg Generated.memoProg = some unsyncCfg ∧ Generated.importedFields = Expected.importedFieldsUnsync ∧
      rawUReaders Generated.impAcc = Expected.rawUReadersUnsync ∧
      (live Generated.impAcc).all (fun a => a.sync == "plain") = true) ∨
    (cfgOfProg Generated.memoProg = some onceCfg ∧ Generated.importedFields = Expected.importedFieldsOnce ∧
      rawUReaders Generated.impAcc = [] ∧
      (live Generated.impAcc).all (fun a => if a.field == "scanned" then a.sync == "atomic" else a.sync == "plain") = true) := by
  decide

end GojaModel.C16.Tie
