/-
  C16 — Tie: the facts regenerated from /repo's current source (GojaModel/Generated/C16_Share.lean, written by
  extract/c16.go on every run) against what the model and the safety argument of design/C16.md assume.
  Every theorem here is an obligation; when the source changes shape, the named equality fails.
-/
import GojaModel.C16.Lemmas
import GojaModel.Generated.C16_Share
namespace GojaModel.C16.Expected
open GojaModel.C16

def namesWrites : List FieldWrite := [
  { file := "compiler_expr.go", fn := "compiledFunctionLiteral.compile", field := "names" },
  { file := "compiler_expr.go", fn := "compiledClassLiteral.compileFieldsAndStaticBlocks", field := "names" },
  { file := "compiler_stmt.go", fn := "compiler.updateEnterBlock", field := "names" },
  { file := "vm.go", fn := "stash.createBinding", field := "names" },
  { file := "vm.go", fn := "stash.createLexBinding", field := "names" },
  { file := "vm.go", fn := "stash.deleteBinding", field := "names" },
  { file := "vm.go", fn := "enterBlock.exec", field := "names" },
  { file := "vm.go", fn := "enterCatchBlock.exec", field := "names" },
  { file := "vm.go", fn := "enterFunc.exec", field := "names" },
  { file := "vm.go", fn := "enterFunc1.exec", field := "names" },
  { file := "vm.go", fn := "enterFuncBody.exec", field := "names" },
  { file := "vm.go", fn := "copyStash.exec", field := "names" },
  { file := "vm.go", fn := "vm.fillPrivateNamesMap", field := "names" }
]

def rxCacheWrites : List FieldWrite := [
  { file := "object.go", fn := "objectExportCtx.put", field := "cache" },
  { file := "object.go", fn := "objectExportCtx.putTyped", field := "cache" },
  { file := "regexp.go", fn := "regexpPattern.createRegexp2", field := "regexp2Wrapper" },
  { file := "regexp.go", fn := "regexpPattern.clone", field := "regexpWrapper" },
  { file := "regexp.go", fn := "regexpPattern.clone", field := "regexp2Wrapper" },
  { file := "regexp.go", fn := "regexp2Wrapper.findUTF16Cached", field := "cache" },
  { file := "regexp.go", fn := "regexp2Wrapper.findUnicodeCached", field := "cache" }
]

def programFields : List (String × String) := [("code", "[]instruction"), ("funcName", "unistring.String"), ("src", "*file.File"), ("srcMap", "[]srcMapItem")]

def importedFieldsOnce : List (String × String) := [("s", "string"), ("u", "unicodeString"), ("scanOnce", "sync.Once"), ("scanned", "atomic.Bool")]

def clone_regexpPattern : List String := ["src := $.src", "global := $.global", "ignoreCase := $.ignoreCase", "multiline := $.multiline", "dotAll := $.dotAll", "sticky := $.sticky", "unicode := $.unicode", "ret.regexpWrapper = $.regexpWrapper.clone()", "ret.regexp2Wrapper = $.regexp2Wrapper.clone()", "return ret"]
def clone_regexp2Wrapper : List String := ["rx := $.rx"]
def clone_regexpWrapper : List String := ["return $"]

/-- Files that may assign `code` / `srcMap` (fields only Program has): the compiler. -/
def compilerFiles : List String := ["compiler.go", "compiler_expr.go", "compiler_stmt.go"]

/-! names-map discipline (Names.lean transcribes exactly these texts) and Symbol -/

/-- Every construction of a function-entry instruction: `extensible` is the compile-time `dynamic` flag of the scope
(a direct sloppy eval can declare variables in it); the class-field initialiser never sets it — class bodies are strict
code, where eval has its own variable environment. -/
def extensibleSites : List (String × String) := [("compiledFunctionLiteral.compile:enterFunc", "s.dynamic"), ("compiledFunctionLiteral.compile:enterFuncBody", "e.c.scope.dynamic"), ("compiledFunctionLiteral.compile:enterFunc1", "s.dynamic"), ("compiledFunctionLiteral.compile:enterFuncBody", "e.c.scope.dynamic"), ("compiledFunctionLiteral.compile:enterFuncBody", "e.c.scope.dynamic"), ("compiledClassLiteral.compileFieldsAndStaticBlocks:enterFunc", "<unset>")]
def bindingCalls : List (String × String) := [("compiledFunctionLiteral.compile", "s.deleteBinding"), ("compiledFunctionLiteral.compile", "s.deleteBinding"), ("compiledClassLiteral.emitGetter", "s.deleteBinding"), ("compiledClassLiteral.compileFieldsAndStaticBlocks", "s.deleteBinding"), ("deleteVar.exec", "stash.deleteBinding"), ("bindVars.exec", "target.createBinding"), ("bindGlobal.exec", "s.createLexBinding"), ("bindGlobal.exec", "s.createLexBinding")]
def symbolWrites : List (String × String) := [("newSymbol", "init desc")]
def body_bindVars_exec : List String := ["var target *stash", "for _, name := range d.names { for s := vm.stash; s != nil; s = s.outer { if idx, exists := s.names[name]; exists && idx&maskVar == 0 { vm.throw(vm.alreadyDeclared(name)) return } if s.isVariable() { target = s break } } }", "if target == nil { target = vm.stash }", "deletable := d.deletable", "for _, name := range d.names { target.createBinding(name, deletable) }", "vm.pc++"]
def body_createBinding : List String := ["if s.names == nil { s.names = make(map[unistring.String]uint32) }", "if _, exists := s.names[name]; !exists { idx := uint32(len(s.names)) | maskVar if deletable { idx |= maskDeletable } s.names[name] = idx s.values = append(s.values, _undefined) }"]
def body_deleteBinding : List String := ["delete(s.names, name)"]
def body_isVariable : List String := ["return s.funcType != funcNone"]
def body_copyStash_exec : List String := ["oldStash := vm.stash", "newStash := &stash{ outer: oldStash.outer, }", "vm.stashAllocs++", "newStash.values = append([]Value(nil), oldStash.values...)", "newStash.names = oldStash.names", "vm.stash = newStash", "vm.pc++"]
def deleteVarGuards : List String := ["exists", "idx&(maskVar|maskDeletable) == maskVar|maskDeletable"]
def symbolFields : List (String × String) := [("desc", "String")]

/-! the compiler's side of the names contract (Names.lean (R1)–(R4)), the template clone, and what the callees of the
escape rows do with their argument -/
def dynamicSites : List (String × String) := [("compiler.compile", "scope.dynamic = true"), ("compiledCallExpr.emitGetter", "for sc := e.c.scope; sc != nil; sc = sc.outer { if !foundVar && (sc.variable || sc.isFunction()) { foundVar = true if !sc.strict { sc.dynamic = true } } sc.dynLookup = true }"), ("compiler.compileWithStatement", "c.scope.dynamic = true")]
def entrySites : List (String × String) := [("compiledFunctionLiteral.compile:enterFunc", "extensible=s.dynamic; funcType=e.typ; then if s.isDynamic() { enter1.names = s.makeNamesMap() }"), ("compiledFunctionLiteral.compile:enterFuncBody", "extensible=e.c.scope.dynamic; funcType=e.typ; then e.c.updateEnterBlock(&ef2.enterBlock)"), ("compiledFunctionLiteral.compile:enterFunc1", "extensible=s.dynamic; funcType=e.typ; then if s.isDynamic() { enter1.names = s.makeNamesMap() }"), ("compiledFunctionLiteral.compile:enterFuncBody", "extensible=e.c.scope.dynamic; funcType=e.typ; then e.c.updateEnterBlock(&ef2.enterBlock)"), ("compiledFunctionLiteral.compile:enterFuncBody", "extensible=e.c.scope.dynamic; funcType=e.typ; then e.c.updateEnterBlock(&ef2.enterBlock)"), ("compiledClassLiteral.compileFieldsAndStaticBlocks:enterFunc", "extensible=<unset>; funcType=funcClsInit; then if s.dynLookup { enter.names = s.makeNamesMap() }")]
def body_hasStash : List String := ["if s.dynamic { return true }"]
def body_isFunction : List String := ["return s.funcType != funcNone && !s.eval"]
def body_isDynamic : List String := ["return s.dynLookup || s.dynamic"]
def body_cloneTemplateValues : List String := ["dst := make([]Value, len(src))", "for i, v := range src { if p, ok := v.(*valueProperty); ok { cp := *p dst[i] = &cp } else { dst[i] = v } }", "return dst"]
def body_setArrayValues : List String := ["a.values = values", "a.length = uint32(len(values))", "a.objCount = len(values)", "return a"]
def calleeParamUse : List (String × String) := [("vm.checkBindFuncsGlobal#0", "read"), ("vm.checkBindLexGlobal#0", "read"), ("vm.checkBindVarsGlobal#0", "read"), ("vm.createGlobalFuncBindings#0", "read"), ("vm.createGlobalVarBindings#0", "read"), ("vm.getPrivateProp#2", "passed:obj.self.getPrivateEnv"), ("cloneTemplateValues#0", "read"), ("vm.fillPrivateNamesMap#1", "read"), ("vm.fillPrivateNamesMap#2", "read"), ("vm.push#0", "stored:vm.stack[vm.sp]"), ("vm.r.newRegExpp#1", "stored:o.source"), ("obj.self.getPrivateEnv#0", "read"), ("vm.setPrivateProp#2", "passed:obj.self.getPrivateEnv"), ("vm.throw#0", "passed:vm.handleThrow")]

end GojaModel.C16.Expected

namespace GojaModel.C16.Tie
open GojaModel.C16

/-- Plain reads of `.u` dominated by nothing, outside scan() itself. -/
def rawUReaders (l : List ImpAcc) : List String :=
  (l.filter fun a => a.field == "u" && !a.write && a.sync == "plain" && a.dom == "raw").map (·.fn)

/-- Accesses of the memo cells outside construction (composite literals). -/
def live (l : List ImpAcc) : List ImpAcc := l.filter fun a => a.sync != "init" && (a.field == "u" || a.field == "scanned")

set_option maxRecDepth 8000 in
/-- the extractor saw the whole instruction set (vm.go has ~258 exec methods), not a fragment -/
theorem exec_methods_seen : Generated.execMethods.length ≥ 250 := by decide

theorem program_fields_expected : Generated.programFields = Expected.programFields := by decide

theorem prog_field_writers_are_compiler : ∀ w ∈ Generated.progFieldWrites, w.file ∈ Expected.compilerFiles := by decide

theorem names_writers_expected : Generated.namesWrites = Expected.namesWrites := by decide

theorem rx_cache_writers_expected : Generated.rxCacheWrites = Expected.rxCacheWrites := by decide

theorem clones_expected :
    Generated.clone_regexpPattern = Expected.clone_regexpPattern ∧
    Generated.clone_regexp2Wrapper = Expected.clone_regexp2Wrapper ∧
    Generated.clone_regexpWrapper = Expected.clone_regexpWrapper := by decide

theorem toValue_object_expected : Generated.toValueObject = expectedToValueObject := by decide

/-- `.s` is never written after construction; `.u` and `.scanned` are written only by scan(). -/
theorem imported_writers : ∀ a ∈ Generated.impAcc, a.write = true →
    a.sync = "init" ∨ (a.fn = "importedString.scan" ∧ a.field ≠ "s") ∨ (a.fn = "newScannedImportedString" ∧ a.field = "scanned") := by decide

/-- The memo protocol, the struct and every live access are exactly the once-style shape: flag accessed atomically
everywhere, `u` written only by scan() (under the Once) and read only after ensureScanned() or under a flag test. -/
theorem memo_shape :
    cfgOfProg Generated.memoProg = some onceCfg ∧ Generated.importedFields = Expected.importedFieldsOnce ∧
    rawUReaders Generated.impAcc = [] ∧
    (live Generated.impAcc).all (fun a => if a.field == "scanned" then a.sync == "atomic" else a.sync == "plain") = true := by
  decide

/-- where `extensible` comes from at every function-entry construction site -/
theorem extensible_sites : Generated.extensibleSites = Expected.extensibleSites := by decide

/-- who calls the writers of a names map: bindVars (on its target), deleteVar, bindGlobal (global stash) — and the
compiler's own `scope.deleteBinding`, which is a different type -/
theorem binding_call_sites : Generated.bindingCalls = Expected.bindingCalls := by decide

/-- the five small functions the Names model transcribes, and the deletable test of deleteVar, are textually as
transcribed (bindVars target selection, createBinding, deleteBinding, isVariable, copyStash) -/
theorem names_mechanism_text :
    Generated.body_bindVars_exec = Expected.body_bindVars_exec ∧ Generated.body_createBinding = Expected.body_createBinding ∧
    Generated.body_deleteBinding = Expected.body_deleteBinding ∧ Generated.body_isVariable = Expected.body_isVariable ∧
    Generated.body_copyStash_exec = Expected.body_copyStash_exec ∧ Generated.deleteVarGuards = Expected.deleteVarGuards :=
  ⟨rfl, rfl, rfl, rfl, rfl, rfl⟩

/-- a Symbol has one field, set only by the composite literal in newSymbol: immutable after construction -/
theorem symbol_immutable :
    Generated.symbolFields = Expected.symbolFields ∧ Generated.symbolWrites = Expected.symbolWrites ∧
    (∀ w ∈ Generated.symbolWrites, w.2 = "init desc") := by decide

/-- (R1) every site that sets `scope.dynamic`: the top-level scope, the `with` block, and the marking loop run when a
direct eval call is compiled — textually the loop `markEval` transcribes -/
theorem dynamic_sites : Generated.dynamicSites = Expected.dynamicSites := rfl

/-- (R2)/(R4) every construction of a function-entry instruction: `extensible` and the names map come from the SAME
scope (`s` for enterFunc / enterFunc1, `e.c.scope` for enterFuncBody), `funcType` is the function's type; the
class-field initialiser (strict code) never sets `extensible` (seeded change C16-m2 breaks exactly this) -/
theorem entry_sites : Generated.entrySites = Expected.entrySites := rfl

/-- (R3) `hasStash` starts with `if s.dynamic { return true }`; isFunction / isDynamic as transcribed -/
theorem scope_predicates_text :
    Generated.body_hasStash = Expected.body_hasStash ∧ Generated.body_isFunction = Expected.body_isFunction ∧
    Generated.body_isDynamic = Expected.body_isDynamic := ⟨rfl, rfl, rfl⟩

/-- cloneTemplateValues makes a fresh backing array and a fresh copy of every slot; setArrayValues installs its argument
(the clone) as the array's storage -/
theorem clone_template_text :
    Generated.body_cloneTemplateValues = Expected.body_cloneTemplateValues ∧
    Generated.body_setArrayValues = Expected.body_setArrayValues := ⟨rfl, rfl⟩

/-- what every callee of an escape row does with the escaped argument: the name slices (`funcs`/`vars`/`lets`/`consts`,
`privateFields`/`privateMethods`) and `privateId.typ` are only read (ranged over, indexed, used as map key); the
remaining ones store or pass on an immutable primitive (`vm.push`, `newRegExpp`'s source String, `vm.throw`) -/
theorem callee_param_use : Generated.calleeParamUse = Expected.calleeParamUse := rfl

theorem callee_param_use_slices_readonly :
    ∀ u ∈ Generated.calleeParamUse, u.1 ∈ ["vm.push#0", "vm.r.newRegExpp#1", "vm.throw#0", "vm.getPrivateProp#2", "vm.setPrivateProp#2"] ∨ u.2 = "read" := by
  decide

end GojaModel.C16.Tie
