/-
  C16 — the `names` maps of compiled scopes (mechanism level).

  A Program owns one `map[unistring.String]uint32` per scope that needs dynamic lookup.  At run time
    * enterBlock / enterCatchBlock (vm.go:3660, 3684) ALIAS it into the new stash (`vm.stash.names = e.names`);
    * enterFunc / enterFunc1 / enterFuncBody (vm.go:3727, 3810, 3858) alias it too, unless the scope is `extensible`,
      in which case they install a fresh COPY;
    * copyStash (per-iteration copy of a loop scope) aliases the names of the stash it replaces;
    * a closure call / return / generator resume replaces the current chain by a chain of stashes created earlier
      (`switch`: any sequence of stashes of the Runtime's pool);
    * bindVars.exec (`eval('var x')`) creates bindings in the nearest stash with `isVariable()` — or, when there is
      none, in the innermost stash — through stash.createBinding (writes the map);
    * deleteVar.exec deletes a binding only if it carries maskVar|maskDeletable (stash.deleteBinding).
  Compiled maps never contain deletable entries (only createBinding(deletable=true) makes them).

  Model: a heap of maps; ids below `bound` are Program-owned (shared by every Runtime), ids from `bound` up are the
  private copies.  Theorems (Names section of Props.lean): under the compiler's invariant "a scope into which a direct
  sloppy eval can declare variables is compiled extensible" (hypothesis `allH`; the compiler sets
  `extensible: <scope>.dynamic` at every site — Tie.extensible_sites), NO operation sequence of any number of Runtimes
  writes a Program-owned map, and what one Runtime sees of its scope chain is independent of the other Runtimes.
-/
namespace GojaModel.C16.Names

structure Entry where
  name : String
  idx : Nat
  deletable : Bool
  deriving DecidableEq, Repr

abbrev NMap := List Entry

structure Stash where
  map : Nat
  isVar : Bool        -- stash.isVariable(): funcType != funcNone
  own : Bool          -- the names map is a private copy made on entry (extensible scope)
  deriving DecidableEq, Repr

structure St where
  maps : Nat → NMap
  next : Nat                  -- next fresh map id
  pool : Nat → List Stash     -- per Runtime: every stash it ever created (a closure / generator may keep any of them alive)
  stacks : Nat → List Stash   -- per Runtime: the current scope chain, innermost stash first

inductive Op
  | enterFunc (pm : Nat) (extensible : Bool)    -- enterFunc / enterFunc1 / enterFuncBody with len(names) > 0
  | enterBlock (pm : Nat)                       -- enterBlock / enterCatchBlock
  | copyStash
  | leave
  | bindVar (name : String) (deletable : Bool)  -- bindVars.exec, one name
  | deleteVar (name : String)
  /-- a closure is called, a call returns, a generator is resumed …: the current scope chain becomes ANY sequence of
  stashes this Runtime has created (vm.stash = f.stash; popCtx; generator resume) -/
  | switch (chain : List Nat)
  deriving Repr

def has (m : NMap) (n : String) : Bool := m.any (fun e => e.name == n)

/-- stash.createBinding (vm.go:563): append unless present. -/
def createBinding (m : NMap) (n : String) (d : Bool) : NMap :=
  if has m n then m else m ++ [⟨n, m.length, d⟩]

/-- stash.deleteBinding (vm.go:592). -/
def deleteBinding (m : NMap) (n : String) : NMap := m.filter (fun e => !(e.name == n))

/-- bindVars.exec's target: the nearest variable stash, else the innermost one (`target = vm.stash`). -/
def target (stk : List Stash) : Option Stash :=
  match stk.find? (·.isVar) with
  | some t => some t
  | none => stk.head?

/-- deleteVar.exec: the first stash of the chain that has the name decides; it is deleted only if deletable. -/
def delTarget (maps : Nat → NMap) : List Stash → String → Option Nat
  | [], _ => none
  | s :: rest, n =>
    match (maps s.map).find? (fun e => e.name == n) with
    | some e => if e.deletable then some s.map else none
    | none => delTarget maps rest n

def setMap (st : St) (id : Nat) (m : NMap) : St :=
  { st with maps := fun x => if x = id then m else st.maps x }

def setStack (st : St) (rt : Nat) (stk : List Stash) : St :=
  { st with stacks := fun x => if x = rt then stk else st.stacks x }

/-- a newly created stash becomes the innermost one of the current chain and joins the Runtime's pool -/
def push (st : St) (rt : Nat) (s : Stash) (rest : List Stash) : St :=
  { st with stacks := fun x => if x = rt then s :: rest else st.stacks x
            pool := fun x => if x = rt then s :: st.pool x else st.pool x }

/-- One instruction of Runtime `rt`.  `bound`: ids below it are Program-owned maps. -/
def step (bound : Nat) (st : St) (rt : Nat) : Op → St
  | .enterFunc pm ext =>
    if pm < bound then
      if ext then
        -- m := make(map…); for name, idx := range e.names { m[name] = idx }; stash.names = m
        let st1 := setMap st st.next (st.maps pm)
        { push st1 rt ⟨st.next, true, true⟩ (st.stacks rt) with next := st.next + 1 }
      else push st rt ⟨pm, true, false⟩ (st.stacks rt)                  -- stash.names = e.names
    else st
  | .enterBlock pm =>
    if pm < bound then push st rt ⟨pm, false, false⟩ (st.stacks rt) else st          -- vm.stash.names = e.names
  | .copyStash =>
    match st.stacks rt with
    | s :: rest => push st rt ⟨s.map, false, s.own⟩ rest                             -- newStash.names = oldStash.names
    | [] => st
  | .leave => setStack st rt (st.stacks rt).tail
  | .bindVar n d =>
    match target (st.stacks rt) with
    | some t => setMap st t.map (createBinding (st.maps t.map) n d)
    | none => st
  | .deleteVar n =>
    match delTarget st.maps (st.stacks rt) n with
    | some id => setMap st id (deleteBinding (st.maps id) n)
    | none => st
  | .switch chain => setStack st rt (chain.filterMap (fun i => (st.pool rt)[i]?))

def run (bound : Nat) : St → List (Nat × Op) → St
  | st, [] => st
  | st, (rt, op) :: rest => run bound (step bound st rt op) rest

/-- The compiler's invariant, as far as the VM can see it: whenever bindVars creates a binding, its target stash was
entered as an extensible scope (and therefore owns a private copy). -/
def hOK (st : St) (rt : Nat) : Op → Bool
  | .bindVar _ _ => match target (st.stacks rt) with | some t => t.own | none => true
  | _ => true

def allH (bound : Nat) : St → List (Nat × Op) → Bool
  | _, [] => true
  | st, (rt, op) :: rest => hOK st rt op && allH bound (step bound st rt op) rest

/-- What Runtime `rt` can observe of its current scope chain: the contents of the maps, innermost first. -/
def view (st : St) (rt : Nat) : List (NMap × Bool) := (st.stacks rt).map (fun s => (st.maps s.map, s.isVar))

/-- … and of every stash it ever created (whatever closure, generator or pending call still holds it). -/
def poolView (st : St) (rt : Nat) : List (NMap × Bool) := (st.pool rt).map (fun s => (st.maps s.map, s.isVar))

def onlyOf (r : Nat) (ops : List (Nat × Op)) : List (Nat × Op) := ops.filter (fun x => x.1 == r)

/-! ### The compiler's side of the contract

`allH` says: the stash bindVars targets was entered `extensible`.  Where that comes from, as coded:
  (R1) when a direct call to `eval` is compiled (compiler_expr.go, compiledCallExpr.emitGetter, `calleeName == "eval"`)
       the scope chain is walked outwards and the FIRST scope with `variable || isFunction()` gets `dynamic = true`
       unless it is strict (`markEval`);
  (R2) every function-entry instruction takes `extensible` from the `dynamic` flag of the scope whose stash it creates
       and copies the names map iff `extensible` (Tie.extensible_sites, exec table guards `!($.extensible)`);
  (R3) a dynamic scope always has a stash (`hasStash`: `if s.dynamic { return true }`);
  (R4) the stash of a variable / function scope has `funcType != funcNone`, a block stash has `funcNone`.
`rtChain` is the run-time scope chain these rules give for a compile-time chain. -/

structure CScope where
  isVar : Bool      -- scope.variable || scope.isFunction()
  strict : Bool
  dyn : Bool        -- scope.dynamic
  stash : Bool      -- has a stash for another reason (needStash / dynLookup / arguments …)
  mapId : Nat       -- the names map compiled for it
  deriving DecidableEq, Repr

/-- (R1) the loop run when a direct eval call is compiled with `cs` as scope chain (innermost first):
`if !foundVar && (sc.variable || sc.isFunction()) { foundVar = true; if !sc.strict { sc.dynamic = true } }`. -/
def markEval : List CScope → List CScope
  | [] => []
  | sc :: rest =>
    if sc.isVar then (if sc.strict then sc else { sc with dyn := true }) :: rest
    else sc :: markEval rest

/-- (R2)–(R4): the stashes on the run-time chain while code of the innermost scope runs. -/
def rtChain (cs : List CScope) : List Stash :=
  cs.filterMap fun sc => if sc.dyn || sc.stash then some ⟨sc.mapId, sc.isVar, sc.isVar && sc.dyn⟩ else none

/-- the first variable scope of a chain -/
def firstVar (cs : List CScope) : Option CScope := cs.find? (·.isVar)

end GojaModel.C16.Names
