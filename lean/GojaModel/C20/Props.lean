/-
  C20 property theorems.  Every `theorem` here is one audited proof obligation.
  The regex engines are opaque (`Finder`); theorems whose name ends in `_partial` say what is missing.
-/
import GojaModel.C20.Lemmas
import GojaModel.C20.SplitLemmas
import GojaModel.C20.SubstLemmas
import GojaModel.C20.RefLemmas
namespace GojaModel.C20

/-! ## PosMap -/

/-- The lenient decoder loses nothing: re-encoding the runes gives back the code units
(lone surrogates included). -/
theorem decode_lossless (units : List Nat) (h : ∀ u ∈ units, u < 0x10000) :
    encodeAll ((decode units).map Prod.fst) = units :=
  decode_lossless_aux units h

/-- `buildPosMap`: entry k of the map is the UTF-16 index of the boundary after k runes, for every k;
the map has one more entry than there are runes and ends at the length of the subject. -/
theorem posmap_correct (units : List Nat) (start : Nat) (h : ∀ u ∈ units, u < 0x10000) :
    let r := buildPosMap units start
    encodeAll r.runes = units ∧
    r.posMap.length = r.runes.length + 1 ∧
    (∀ k, k ≤ r.runes.length → r.posMap[k]? = some (encodeAll (r.runes.take k)).length) ∧
    r.posMap[r.runes.length]? = some units.length := by
  intro r
  have hb := buildLoop_posMap start (decode units) {}
  have hpm : r.posMap = bounds 0 (decode units) := by simpa [buildPosMap, r] using hb.1
  have hrn : r.runes = (decode units).map Prod.fst := by simpa [buildPosMap, r] using hb.2
  have hlen : r.runes.length = (decode units).length := by rw [hrn]; simp
  refine ⟨?_, ?_, ?_, ?_⟩
  · rw [hrn]; exact decode_lossless_aux units h
  · rw [hpm, bounds_length, hlen]
  · intro k hk
    rw [hpm, bounds_get (decode units) 0 k (by omega), hrn, ← List.map_take]
    rw [totalSize_eq_encode_len]
    · simp
    · intro p hp
      exact (decode_size_ok units h p (List.mem_of_mem_take hp)).1
  · rw [hpm, hlen, bounds_get (decode units) 0 _ (Nat.le_refl _)]
    simp [totalSize_decode]

/-- The map is strictly increasing (so `sort.SearchInts` is applicable and boundaries are distinct). -/
theorem posmap_strict_mono (units : List Nat) (start : Nat) :
    List.Pairwise (· < ·) (buildPosMap units start).posMap := by
  have hb := buildLoop_posMap start (decode units) {}
  have hpm : (buildPosMap units start).posMap = bounds 0 (decode units) := by simpa [buildPosMap] using hb.1
  rw [hpm]
  exact bounds_pairwise _ _ (decode_size_pos units)

/-- Index translation preserves order and stays inside the subject: a rune-level span a ≤ b maps to
UTF-16 indices s ≤ e ≤ |subject| (hence 0 ≤ start ≤ end ≤ |s| for the match and every capture, and a
capture inside the match at rune level stays inside it at code-unit level). -/
theorem span_match_bounds (units : List Nat) (start a b : Nat) (hab : a ≤ b)
    (hb : b ≤ (buildPosMap units start).runes.length) :
    ∃ s e, (buildPosMap units start).posMap[a]? = some s ∧ (buildPosMap units start).posMap[b]? = some e ∧
      s ≤ e ∧ e ≤ units.length := by
  have hbl := buildLoop_posMap start (decode units) {}
  have hpm : (buildPosMap units start).posMap = bounds 0 (decode units) := by simpa [buildPosMap] using hbl.1
  have hrn : (buildPosMap units start).runes = (decode units).map Prod.fst := by simpa [buildPosMap] using hbl.2
  have hlen : (buildPosMap units start).runes.length = (decode units).length := by rw [hrn]; simp
  rw [hlen] at hb
  refine ⟨0 + totalSize ((decode units).take a), 0 + totalSize ((decode units).take b), ?_, ?_, ?_, ?_⟩
  · rw [hpm]; exact bounds_get _ 0 a (by omega)
  · rw [hpm]; exact bounds_get _ 0 b hb
  · have := totalSize_take_mono (decode units) hab; omega
  · have := totalSize_take_le (decode units) b
    rw [totalSize_decode] at this; omega

/-- Where the start position lands: on a boundary (`splitPair = false`, the map sends `mappedStart`
back to `start`) or strictly inside the rune at `mappedStart` (`splitPair = true`). -/
theorem start_located (units : List Nat) (start : Nat) (h : start ≤ units.length) :
    let r := buildPosMap units start
    (r.splitPair = false → r.posMap[r.mappedStart]? = some start) ∧
    (r.splitPair = true → ∃ a b, r.posMap[r.mappedStart]? = some a ∧ r.posMap[r.mappedStart + 1]? = some b ∧
        a < start ∧ start < b) := by
  intro r
  have hbl := buildLoop_posMap start (decode units) {}
  have hpm : r.posMap = bounds 0 (decode units) := by simpa [buildPosMap, r] using hbl.1
  have hloc : (r.mappedStart, r.splitPair) = locate start (decode units) 0 0 := by
    have := buildLoop_locate start (decode units) {} rfl rfl rfl
    simpa [buildPosMap, r] using this
  have htot : start ≤ 0 + totalSize (decode units) := by rw [totalSize_decode]; omega
  rw [locate_eq_search start (decode units) 0 0 htot] at hloc
  have hlt := searchInts_lt start (decode units) 0 htot
  have hspec := searchInts_spec (bounds 0 (decode units)) start hlt
  simp only at hloc
  generalize hj : searchInts (bounds 0 (decode units)) start = j at hloc hlt hspec
  by_cases heq : (bounds 0 (decode units)).getD j 0 = start
  · have hb : ((bounds 0 (decode units)).getD j 0 == start) = true := beq_iff_eq.mpr heq
    rw [hb] at hloc
    simp only [if_true, Prod.mk.injEq, Nat.zero_add] at hloc
    constructor
    · intro _
      rw [hloc.1, hpm, getD_of_lt _ j hlt, heq]
    · intro hsp; rw [hloc.2] at hsp; simp at hsp
  · have hb : ((bounds 0 (decode units)).getD j 0 == start) = false := beq_eq_false_iff_ne.mpr heq
    rw [hb] at hloc
    simp only [Bool.false_eq_true, if_false, Prod.mk.injEq, Nat.zero_add] at hloc
    constructor
    · intro hsp; rw [hloc.2] at hsp; simp at hsp
    · intro _
      have hj0 : j ≠ 0 := by
        intro h0
        subst h0
        have h00 : (bounds 0 (decode units)).getD 0 0 = 0 := by
          cases hd : decode units with
          | nil => simp [bounds]
          | cons p l => obtain ⟨r', sz⟩ := p; simp [bounds]
        have := hspec.1
        rw [h00] at this heq
        omega
      have hprev := hspec.2 (j - 1) (by omega)
      refine ⟨(bounds 0 (decode units)).getD (j - 1) 0, (bounds 0 (decode units)).getD j 0, ?_, ?_, hprev, ?_⟩
      · rw [hloc.1, hpm]; exact getD_of_lt _ (j - 1) (by omega)
      · rw [hloc.1, hpm]
        have : j - 1 + 1 = j := by omega
        rw [this]; exact getD_of_lt _ j hlt
      · have := hspec.1; omega

/-- The cached path (`posMapReverseLookup` on the stored map) computes the same `(mappedStart,
splitPair)` as a fresh `buildPosMap`, for every start position inside the subject. -/
theorem reverse_lookup_correct (units : List Nat) (start : Nat) (h : start ≤ units.length) :
    let r := buildPosMap units start
    reverseLookup r.posMap start = (r.mappedStart, r.splitPair) := by
  intro r
  have hbl := buildLoop_posMap start (decode units) {}
  have hpm : r.posMap = bounds 0 (decode units) := by simpa [buildPosMap, r] using hbl.1
  have hloc : (r.mappedStart, r.splitPair) = locate start (decode units) 0 0 := by
    have := buildLoop_locate start (decode units) {} rfl rfl rfl
    simpa [buildPosMap, r] using this
  have htot : start ≤ 0 + totalSize (decode units) := by rw [totalSize_decode]; omega
  rw [hloc, locate_eq_search start (decode units) 0 0 htot, hpm]
  have hlt := searchInts_lt start (decode units) 0 htot
  simp only [reverseLookup, hlt, decide_true, Bool.true_and, Nat.zero_add]
  generalize (bounds 0 (decode units)).getD (searchInts (bounds 0 (decode units)) start) 0 = v
  by_cases hv : v = start
  · simp [hv]
  · simp [hv]

/-! ## flags -/

/-- The constructor accepts a flags string iff it is a duplicate-free string over "gimsuy". -/
theorem parseFlags_spec (fs : List Char) :
    (parseFlags fs).isSome = true ↔ (fs.Nodup ∧ ∀ c ∈ fs, c ∈ flagAlphabet) := by
  have hs := flagLoop_spec fs {}
  unfold parseFlags
  cases hl : flagLoop fs {} with
  | none =>
    have : ¬ ((flagLoop fs {}).isSome = true) := by simp [hl]
    rw [hs.1] at this
    simp only [Option.isSome_none, Bool.false_eq_true, false_iff]
    intro hcon
    apply this
    refine ⟨hcon.1, fun c hc => ⟨hcon.2 c hc, ?_⟩⟩
    simp [seen]
  | some st =>
    have herr := (hs.2 st hl).1
    have hsome : (flagLoop fs {}).isSome = true := by simp [hl]
    have := hs.1.mp hsome
    have he : st.err = false := by rw [herr]
    simp only [he, Bool.false_eq_true, if_false, Option.isSome_some, true_iff]
    exact ⟨this.1, fun c hc => (this.2 c hc).1⟩

/-- …and then each pattern flag is set exactly when its letter occurs. -/
theorem parseFlags_bits (fs : List Char) (st : FlagSt) (h : parseFlags fs = some st) :
    st.global = decide ('g' ∈ fs) ∧ st.ignoreCase = decide ('i' ∈ fs) ∧ st.multiline = decide ('m' ∈ fs) ∧
    st.dotAll = decide ('s' ∈ fs) ∧ st.unicode = decide ('u' ∈ fs) ∧ st.sticky = decide ('y' ∈ fs) := by
  unfold parseFlags at h
  cases hl : flagLoop fs {} with
  | none => rw [hl] at h; simp at h
  | some st0 =>
    rw [hl] at h
    simp only at h
    split at h
    · simp at h
    · simp only [Option.some.injEq] at h
      subst h
      have hseen := ((flagLoop_spec fs {}).2 st0 hl).2
      have hg := hseen 'g'; have hi := hseen 'i'; have hm := hseen 'm'
      have hs := hseen 's'; have hu := hseen 'u'; have hy := hseen 'y'
      simp [seen] at hg hi hm hs hu hy
      exact ⟨hg, hi, hm, hs, hu, hy⟩

/-! ## exec / lastIndex protocol -/

/-- `regexpObject.execRegexp` refines RegExpBuiltinExec (position scan from `lastIndex`, sticky = only
at `lastIndex`, `lastIndex > length ⇒ null and reset`, g/y write-back, non-global leaves `lastIndex`
alone), for every finder that returns leftmost matches. -/
theorem exec_lastIndex_protocol (fl : RFlags) (f : Finder) (n li : Nat) (hf : Leftmost f n) :
    execRegexp fl f n li = specExec fl f n li := by
  rw [execRegexp_core, getLastIndex_eq, execCore_eq_specScan fl.sticky f n hf]
  rfl

/-- The same protocol spelled out case by case (no assumption on the finder). -/
theorem exec_lastIndex_cases (fl : RFlags) (f : Finder) (n li : Nat) :
    (fl.global = false → fl.sticky = false → execRegexp fl f n li = (f 0, li)) ∧
    ((fl.global = true ∨ fl.sticky = true) → li > n → execRegexp fl f n li = (none, 0)) ∧
    (fl.global = true → fl.sticky = false → li ≤ n →
        execRegexp fl f n li = (f li, match f li with | some r => r.stop | none => 0)) ∧
    (fl.sticky = true → li ≤ n →
        execRegexp fl f n li = (matchAt f li, match matchAt f li with | some r => r.stop | none => 0)) := by
  obtain ⟨g, y, u⟩ := fl
  refine ⟨?_, ?_, ?_, ?_⟩
  · intro hg hy; simp only at hg hy; subst hg hy
    simp only [execRegexp, getLastIndex]
    cases h0 : f 0 <;> simp [h0]
  · intro hgy hli
    have hnot : ¬ li ≤ n := by omega
    rcases hgy with hg | hy
    · simp only at hg; subst hg; simp [execRegexp, getLastIndex, hnot]
    · simp only at hy; subst hy; simp [execRegexp, getLastIndex, hnot]
  · intro hg hy hli; simp only at hg hy; subst hg hy
    simp only [execRegexp, getLastIndex]
    cases h0 : f li <;> simp [hli, h0]
  · intro hy hli; simp only at hy; subst hy
    simp only [execRegexp, getLastIndex, matchAt]
    cases hfi : f li with
    | none => simp [hli, hfi]
    | some r => by_cases hs : r.start = li <;> simp [hli, hfi, hs]

/-- AdvanceStringIndex moves by one code unit, or by two exactly over a surrogate pair in unicode mode. -/
theorem advance_spec (units : List Nat) (pos : Nat) (u : Bool) :
    (advance units pos u = pos + 1 ∨ advance units pos u = pos + 2) ∧
    (advance units pos u = pos + 2 ↔
      (u = true ∧ pos + 1 < units.length ∧ isHi (units.getD pos 0) = true ∧ isLo (units.getD (pos + 1) 0) = true)) := by
  unfold advance
  cases u with
  | false => simp
  | true =>
    by_cases h1 : pos + 1 ≥ units.length
    · have : ¬ pos + 1 < units.length := by omega
      simp [h1, this]
    · have h1' : pos + 1 < units.length := by omega
      cases h2 : isHi (units.getD pos 0) <;> cases h3 : isLo (units.getD (pos + 1) 0) <;>
        simp [-List.getD_eq_getElem?_getD, h1, h1', h2, h3]

/-- Fast path of `Symbol.search` = generic path (same index, `lastIndex` restored). -/
theorem fastSearch_eq_generic (fl : RFlags) (f : Finder) (n li : Nat) (hf : Leftmost f n) :
    fastSearch fl f n li = genericSearch fl f n li := by
  simp only [fastSearch, genericSearch, exec_lastIndex_protocol fl f n 0 hf]

/-- The sweep the generic protocol performs for a global RegExp (`getGlobalRegexpMatches`: exec until null,
AdvanceStringIndex after an empty match, code-point steps in unicode mode) is the single "find all" sweep
`idealAll` — for EVERY flag combination, sticky included, and every finder.  This is the sweep
fixes/C20-sticky-fast-paths-use-generic-protocol.diff makes the sticky case use. -/
theorem idealSweep_eq_generic (fl : RFlags) (f : Finder) (units : List Nat) (hg : fl.global = true) :
    (genericGlobalMatches fl f units).1 = idealAll fl f units 0 none fl.sticky := by
  obtain ⟨g, y, u⟩ := fl
  simp only at hg; subst hg
  simp only [genericGlobalMatches, idealAll]
  have key : ∀ (fuel li : Nat),
      (globalLoop ⟨true, y, u⟩ f units fuel li).1 = idealAllLoop ⟨true, y, u⟩ f units y fuel li none := by
    intro fuel
    induction fuel with
    | zero => intro li; rfl
    | succ fuel ih =>
      intro li
      simp only [globalLoop, idealAllLoop, execRegexp, getLastIndex]
      by_cases hin : li ≤ units.length
      · have hnot : ¬ li > units.length := by omega
        cases hfi : f li with
        | none => simp [hin, hnot, hfi]
        | some r =>
          cases y with
          | false => simp [hin, hnot, hfi, ih]
          | true =>
            by_cases hs : r.start = li
            · simp [hin, hnot, hfi, hs, ih]
            · simp [hin, hnot, hfi, hs]
      · have hnot : li > units.length := by omega
        simp [hin, hnot]
  exact key _ 0

/-- The regexp2 wrapper loops as coded (`r2All`: sticky test against the END of the previous match) coincide
with the ideal sweep whenever the sticky filter is off. -/
theorem r2All_eq_ideal_nonsticky (fl : RFlags) (f : Finder) (units : List Nat) (start : Nat) (limit : Option Nat) :
    r2All fl f units start limit false = idealAll fl f units start limit false := by
  simp only [r2All, idealAll]
  have key : ∀ (fuel pos expect : Nat) (lim : Option Nat),
      r2AllLoop fl f units false fuel pos expect lim = idealAllLoop fl f units false fuel pos lim := by
    intro fuel
    induction fuel with
    | zero => intro pos expect lim; rfl
    | succ fuel ih =>
      intro pos expect lim
      simp only [r2AllLoop, idealAllLoop]
      split
      · rfl
      · cases f pos with
        | none => rfl
        | some r => simp [ih]
  exact key _ _ _ _

/-- `Symbol.match` of a global RegExp: optimised path = generic path, for every flag combination (sticky regexps are
routed to the generic protocol since /repo 15617dc) and every finder.  PARTIAL only because the engines' own
iteration is taken to be regexp2's FindNextMatch sweep as wrapped by goja (`r2All`); Go's FindAll is a different sweep
(`goAll_adjacent_empty_witness`, known finding go-adjacent-empty). -/
theorem fastMatch_eq_generic_partial (fl : RFlags) (f : Finder) (units : List Nat) (hg : fl.global = true) :
    (genericGlobalMatches fl f units).1 = (fastGlobalMatches fl f units).1 := by
  cases hy : fl.sticky with
  | true => simp [fastGlobalMatches, hy]
  | false =>
    rw [idealSweep_eq_generic fl f units hg]
    simp only [fastGlobalMatches, hy, Bool.false_eq_true, if_false]
    exact (r2All_eq_ideal_nonsticky fl f units 0 none).symm

/-- The idealised finder of /a*/ on "baa" (leftmost-longest at each start). -/
def witnessFinder : Finder := fun i =>
  if i = 0 then some ⟨[0, 0], none⟩ else if i = 1 then some ⟨[1, 3], none⟩
  else if i = 2 then some ⟨[2, 3], none⟩ else if i = 3 then some ⟨[3, 3], none⟩ else none

/-- Regression lemma for the defect repaired by /repo 15617dc: the sticky filter of the findAll wrappers (the next
match must start at the END of the previous one) is NOT the protocol's sweep — for /a*/gy on "baa" the protocol finds
"", "aa", "" and the coded sticky sweep stops after "".  (The coded sweep is no longer reached with sticky = true.) -/
theorem stickySweep_prefix_witness :
    ¬ (∀ (fl : RFlags) (f : Finder) (units : List Nat), fl.global = true →
        (genericGlobalMatches fl f units).1 = r2All fl f units 0 none fl.sticky) := by
  intro h
  have := h ⟨true, true, false⟩ witnessFinder [98, 97, 97] rfl
  revert this
  decide

/-- The finder of /a*/ on "baaac". -/
def witnessFinder2 : Finder := fun i =>
  if i = 0 then some ⟨[0, 0], none⟩ else if i = 1 then some ⟨[1, 4], none⟩ else if i = 2 then some ⟨[2, 4], none⟩
  else if i = 3 then some ⟨[3, 4], none⟩ else if i = 4 then some ⟨[4, 4], none⟩ else if i = 5 then some ⟨[5, 5], none⟩ else none

/-- Defect witness (known finding `fast-vs-generic:go-adjacent-empty`): Go's `FindAll` drops the empty match
at 4 that follows "aaa" in "baaac"; the protocol's sweep keeps it. -/
theorem goAll_adjacent_empty_witness :
    ¬ (∀ (fl : RFlags) (f : Finder) (units : List Nat), goAll fl f units = idealAll fl f units 0 none false) := by
  intro h
  have := h ⟨true, false, false⟩ witnessFinder2 [98, 97, 97, 97, 99]
  revert this
  decide

/-- Regression lemma for the defect repaired by /repo 5a3ab73: the OLD fast `Symbol.split` loop applied to the
complete sweep of /a*/ over "baaac" yields "b","","c"; the generic algorithm "b","c". -/
theorem fastSplit_prefix_witness :
    ¬ (∀ (f : Finder) (units : List Nat),
        fastSplitOld units ((idealAll {} f units 0 none false).map (·.idx)) none = genericSplit f units false none) := by
  intro h
  have := h witnessFinder2 [98, 97, 97, 97, 99]
  revert this
  decide

/-- Fast path of `Symbol.split` (the loop of `stdSplitter`, /repo 5a3ab73) applied to the complete sweep of the finder
IS the generic algorithm (ECMA-262 22.2.6.14) — with ANY limit (none, 0, n) and in BOTH modes (code units, and code
points under the u flag) — for every leftmost finder whose captures exec reports unchanged (`CapsAgree`) and whose
matches start on the AdvanceStringIndex chain of the search position (`OnChain`: code point boundaries in unicode
mode; automatic in code-unit mode, see the corollary). -/
theorem fastSplit_eq_generic (fl : RFlags) (f : Finder) (units : List Nat) (lim : Option Nat)
    (hf : Leftmost f units.length) (hc : CapsAgree f units) (hch : OnChain f units fl.unicode) :
    fastSplit units ((idealAll fl f units 0 none false).map (·.idx)) lim = genericSplit f units fl.unicode lim := by
  by_cases h0 : lim = some 0
  · subst h0; simp [fastSplit, genericSplit]
  have hl : (lim == some 0) = false := by
    cases lim with
    | none => rfl
    | some l => simp; intro h; apply h0; rw [h]
  by_cases hn : units.length = 0
  · simp only [fastSplit, genericSplit, hn, hl]
    simp only [idealAll, hn]
    cases h00 : f 0 with
    | none => simp [idealAllLoop, matchAt, h00]
    | some r =>
      have hin := hf.inside 0 r h00
      have hs : r.start = 0 := by omega
      simp [idealAllLoop, matchAt, h00, hs, hn]
  · have hmain := split_main fl f units lim hf hc hch (units.length + 1) 0 0 [] (2 * units.length + 4) (units.length + 2)
      (by omega) (by omega) (by omega) (by omega)
    have hne : (units.length == 0) = false := by simp [hn]
    simp only [fastSplit, genericSplit, hne, hl]
    simp only [G, S, F, finish, idealAll, List.length_nil] at hmain ⊢
    rw [hmain]
    rfl

/-- Code-unit mode (no u flag): the chain hypothesis is automatic. -/
theorem fastSplit_eq_generic_codeunits (fl : RFlags) (f : Finder) (units : List Nat) (lim : Option Nat)
    (hu : fl.unicode = false) (hf : Leftmost f units.length) (hc : CapsAgree f units) :
    fastSplit units ((idealAll fl f units 0 none false).map (·.idx)) lim = genericSplit f units false lim := by
  have := fastSplit_eq_generic fl f units lim hf hc (by rw [hu]; exact onChain_false f units hf)
  rw [hu] at this
  exact this

/-- Fast `Symbol.replace` accumulation (`stringReplace`: copy the piece before each match when
`start != lastIndex`, then the replacement, then the tail when `lastIndex != length`) = the generic
accumulation (`position ≥ nextSourcePosition`, `nextSourcePosition < length`) for every list of raw results
that is ordered, non-overlapping and inside the subject, and every replacement function. -/
theorem fastReplace_eq_generic (units : List Nat) (repl : List Int → List Nat) (raw : List (List Int))
    (h : Ordered units.length raw 0) :
    fastReplace units repl raw = genericReplace units (raw.map (fun r => (rS r, rE r - rS r, repl r))) := by
  cases raw with
  | nil =>
    simp only [fastReplace, genericReplace, genericReplaceLoop, List.map_nil, List.isEmpty_nil, if_true]
    by_cases hn : 0 < units.length
    · simp [hn, sub_all]
    · have : units = [] := List.eq_nil_of_length_eq_zero (by omega)
      simp [this]
  | cons r rest =>
    have hl := fastReplaceLoop_eq units repl units.length (r :: rest) 0 [] h
    simp only [fastReplace, genericReplace, List.isEmpty_cons, Bool.false_eq_true, if_false]
    rw [← hl.1]
    have hle := hl.2
    generalize fastReplaceLoop units repl (r :: rest) 0 [] = res at hle
    obtain ⟨buf, last⟩ := res
    simp only at hle ⊢
    by_cases hlast : last = units.length
    · have : ¬ last < units.length := by omega
      simp [hlast]
    · have : last < units.length := by omega
      simp [hlast, this]

/-- `$` templates: `writeSubstitution` (the index loop of builtin_regexp.go, used by both replace paths) computes
exactly GetSubstitution of ECMA-262 22.1.3.19.1 (ES2024 wording: `$$`, `` $` ``, `$&`, `$'`, `$n`/`$nn` with the
two-digit fallback, `$<name>`), for every subject, position, match, capture list, namedCaptures and template.
`mechNamed ns` is how the Go callbacks present namedCaptures (nil ⇔ undefined; a missing/undefined property ⇔ ""). -/
theorem substitute_eq_getSubstitution (units : List Nat) (position : Nat) (matched : List Nat)
    (captures : List (Option (List Nat))) (ns : Option (List Nat → Option (List Nat))) (repl : List Nat) :
    substitute units position (some matched :: captures) (mechNamed ns) repl =
      getSubstitution units position matched captures ns (repl.length + 1) repl := by
  have := subst_main units position matched captures ns repl repl.length 0 [] (repl.length + 1) (repl.length + 1)
    (by omega) (by omega) (by omega)
  simpa [substitute] using this

/-- `buildUTF8PosMap` / `positionMap.get` (the path that runs Go's FindAll over a UTF-8 copy of a well-formed
subject): the strict decoding is the lenient one, offset 0 maps to 0, and the UTF-8 offset of every rune
boundary maps to the UTF-16 offset of the same boundary. -/
theorem utf8map_correct (units : List Nat) (l : List (Nat × Nat)) (h : strictDecode units = some l) :
    l = decode units ∧
    buildUTF8PosMap units = some (utf8Loop l 0 0) ∧
    pmGet (utf8Loop l 0 0) 0 = some 0 ∧
    ∀ k, 1 ≤ k → k ≤ l.length → pmGet (utf8Loop l 0 0) (pre8 l k) = some (totalSize (l.take k)) := by
  refine ⟨strictDecode_eq_decode units l h, by simp [buildUTF8PosMap, h], by simp [pmGet], ?_⟩
  intro k h1 h2
  have hpos := pre8_pos l k h1 h2
  have hs := searchSrc_utf8Loop l 0 0 k h1 h2
  simp only [Nat.zero_add] at hs
  have hne : pre8 l k ≠ 0 := by omega
  simp [pmGet, hne, hs]

/-- Go's `FindAll` sweep (linear engine, start 0) IS the protocol's sweep whenever no empty match starts exactly where
the previous match ended — the precise circumstance of the remaining known finding go-adjacent-empty
(`goAll_adjacent_empty_witness` shows the hypothesis cannot be dropped). -/
theorem goAll_eq_ideal_of_no_adjacent_empty (fl : RFlags) (f : Finder) (units : List Nat)
    (h : NoAdjEmpty (idealAll fl f units 0 none false) none) :
    goAll fl f units = idealAll fl f units 0 none false :=
  goAllLoop_eq_ideal fl f units _ 0 none h

/-- …hence `Symbol.match` through Go's FindAll = the generic protocol for a global non-sticky RegExp in that case. -/
theorem fastMatch_go_eq_generic (fl : RFlags) (f : Finder) (units : List Nat) (hg : fl.global = true) (hy : fl.sticky = false)
    (h : NoAdjEmpty (idealAll fl f units 0 none false) none) :
    (genericGlobalMatches fl f units).1 = goAll fl f units := by
  rw [idealSweep_eq_generic fl f units hg, hy, goAll_eq_ideal_of_no_adjacent_empty fl f units h]

/-- exec's `lowerBound` rule (execResultToArray) changes nothing when captures are unset or listed in order — a
sufficient, checkable condition for the `CapsAgree` hypothesis of `fastSplit_eq_generic`. -/
theorem execCaptures_eq_plain (units : List Nat) (idx : List Int) (lower : Nat) (h : CapsWF idx lower) :
    captureVals units idx lower = captureValsPlain units idx :=
  captureVals_eq_plain units idx lower h

/-- Fast `Symbol.replace` with a `$` template, end to end: `stringReplace` + `writeSubstitution` over an ordered raw
list = the spec's accumulation of GetSubstitution results (composition of `fastReplace_eq_generic` and
`substitute_eq_getSubstitution`). -/
theorem fastReplaceTemplate_eq_spec (units : List Nat) (raw : List (List Int)) (tmpl : List Nat)
    (ns : List Int → Option (List Nat → Option (List Nat)))
    (h : Ordered units.length raw 0) :
    fastReplace units
        (fun r => substitute units (rS r) (some (sub units (rS r) (rE r)) :: captureValsPlain units (r.drop 2))
          (mechNamed (ns r)) tmpl) raw
      = genericReplace units (raw.map (fun r => (rS r, rE r - rS r,
          getSubstitution units (rS r) (sub units (rS r) (rE r)) (captureValsPlain units (r.drop 2)) (ns r)
            (tmpl.length + 1) tmpl))) := by
  rw [fastReplace_eq_generic units _ raw h]
  congr 1
  apply List.map_congr_left
  intro r _
  rw [substitute_eq_getSubstitution]


/-! ## reference matcher (Ref.lean) -/

/-- The three engine-forcing rewrites used by the check are semantically neutral for the reference semantics
(ECMA-262 continuation matcher): `(?=)(?:P)`, `(?:P)(?=)` and `(?:P|(?!))` run exactly like `P` from every state
and with every continuation (the fuel offsets are the extra AST levels). -/
theorem neutral_variants_equiv (o : Ref.Opts) (inp : Array Nat) (n : Nat) (p : Ref.Node) (st : Ref.St)
    (k : Ref.St → Option Ref.St) :
    Ref.run o inp (n + 3) (Ref.variant1 p) st k = Ref.run o inp (n + 1) p st k ∧
    Ref.run o inp (n + 3) (Ref.variant2 p) st k = Ref.run o inp (n + 1) p st k ∧
    Ref.run o inp (n + 4) (Ref.variant3 p) st k = Ref.run o inp (n + 2) p st k :=
  ⟨Ref.neutral_v1 o inp n p st k, Ref.neutral_v2 o inp n p st k, Ref.neutral_v3 o inp n p st k⟩

/-- Bounds of the reference matcher: a match searched from input position i starts at j ≥ i and ends at e with
j ≤ e ≤ |input| — for every pattern, option set (deviation switches included) and input. -/
theorem ref_match_bounds (o : Ref.Opts) (inp : Array Nat) (ncaps : Nat) (node : Ref.Node) (fuel i j : Nat) (r : Ref.St)
    (h : Ref.findFrom o inp ncaps node fuel i = some (j, r)) : i ≤ j ∧ j ≤ r.pos ∧ r.pos ≤ inp.size :=
  Ref.findFrom_bounds o inp ncaps node fuel i j r h

/-- …and every capture it reports is a span a ≤ b ≤ |input| (look-ahead captures and captures cleared by quantifier
iterations included). -/
theorem ref_caps_bounds (o : Ref.Opts) (inp : Array Nat) (ncaps : Nat) (node : Ref.Node) (fuel i j : Nat) (r : Ref.St)
    (h : Ref.findFrom o inp ncaps node fuel i = some (j, r)) : Ref.CapsIn inp r.caps :=
  Ref.findFrom_caps o inp ncaps node fuel i j r h

/-- The reference matcher's own finder (`Ref.refFind`, what `Ref.table` tabulates) satisfies, for EVERY pattern and
input, the three conditions the protocol theorems assume of an engine (`Leftmost`): matches lie at or after the
start and inside the input; the answer does not change while the start moves up to the match; no match from i ⇒
no match from any later start.  So the hypotheses of `exec_lastIndex_protocol`, `fastSplit_eq_generic`, … are
satisfiable by the ECMA-262 semantics itself, not only by hand-made finders. -/
theorem ref_finder_leftmost (o : Ref.Opts) (inp : Array Nat) (ncaps : Nat) (node : Ref.Node) :
    (∀ i j r, Ref.refFind o inp ncaps node i = some (j, r) → i ≤ j ∧ j ≤ r.pos ∧ r.pos ≤ inp.size) ∧
    (∀ i j r i', Ref.refFind o inp ncaps node i = some (j, r) → i ≤ i' → i' ≤ j →
        Ref.refFind o inp ncaps node i' = some (j, r)) ∧
    (∀ i i', Ref.refFind o inp ncaps node i = none → i ≤ i' → Ref.refFind o inp ncaps node i' = none) := by
  refine ⟨fun i j r h => Ref.findFrom_bounds o inp ncaps node _ i j r h, ?_, ?_⟩
  · intro i j r i' h h1 h2
    have := Ref.refFind_stable o inp ncaps node (i' - i) i j r h (by omega)
    rwa [show i + (i' - i) = i' by omega] at this
  · intro i i' h h1
    have := Ref.refFind_none_up o inp ncaps node (i' - i) i h
    rwa [show i + (i' - i) = i' by omega] at this

/-- With the ECMA-262 reference matcher itself as the engine (code-unit mode) goja's `execRegexp` IS
RegExpBuiltinExec and the fast `Symbol.search` IS the generic one — no hypothesis left: the reference finder is
`Leftmost` (`Ref.refFinderCU_leftmost`). -/
theorem exec_protocol_for_reference (o : Ref.Opts) (ncaps : Nat) (node : Ref.Node) (units : List Nat)
    (fl : RFlags) (li : Nat) :
    execRegexp fl (Ref.refFinderCU o ncaps node units) units.length li =
        specExec fl (Ref.refFinderCU o ncaps node units) units.length li ∧
    fastSearch fl (Ref.refFinderCU o ncaps node units) units.length li =
        genericSearch fl (Ref.refFinderCU o ncaps node units) units.length li :=
  ⟨exec_lastIndex_protocol fl _ _ li (Ref.refFinderCU_leftmost o ncaps node units),
   fastSearch_eq_generic fl _ _ li (Ref.refFinderCU_leftmost o ncaps node units)⟩

/-- Unicode mode, reference matcher + position map together: a match found from the rune position i and reported
through `bounds 0 (decode units)` (the map `buildPosMap` builds, `posmap_correct`) has UTF-16 indices
start ≤ s ≤ e ≤ |units| — the UTF-16 exactness the property demands, for the spec side. -/
theorem ref_unicode_indices (o : Ref.Opts) (ncaps : Nat) (node : Ref.Node) (units : List Nat) (i j : Nat) (st : Ref.St)
    (h : Ref.refFind o ((decode units).map Prod.fst).toArray ncaps node i = some (j, st)) :
    (bounds 0 (decode units)).getD i 0 ≤ (bounds 0 (decode units)).getD j 0 ∧
    (bounds 0 (decode units)).getD j 0 ≤ (bounds 0 (decode units)).getD st.pos 0 ∧
    (bounds 0 (decode units)).getD st.pos 0 ≤ units.length :=
  Ref.refFind_unicode_indices o ncaps node units i j st h

/-! ## non-vacuity examples (tests on literals, not theorems) -/

example : Leftmost witnessFinder 3 := by
  constructor
  · intro i r h; unfold witnessFinder at h; split at h
    · simp at h; subst h; simp [MatchR.start]; omega
    · split at h
      · simp at h; subst h; simp [MatchR.start]; omega
      · split at h
        · simp at h; subst h; simp [MatchR.start]; omega
        · split at h
          · simp at h; subst h; simp [MatchR.start]; omega
          · simp at h
  · intro i r h; unfold witnessFinder at h
    split at h
    · simp at h; subst h; simp [MatchR.start, MatchR.stop]
    · split at h
      · simp at h; subst h; simp [MatchR.start, MatchR.stop]
      · split at h
        · simp at h; subst h; simp [MatchR.start, MatchR.stop]
        · split at h
          · simp at h; subst h; simp [MatchR.start, MatchR.stop]
          · simp at h
  · intro i r j h h1 h2; unfold witnessFinder at h
    split at h
    · simp at h; subst h; simp [MatchR.start] at h2; have : j = 0 := by omega
      subst this; rename_i h0; subst h0; rfl
    · split at h
      · simp at h; subst h; simp [MatchR.start] at h2; have : j = 1 := by omega
        subst this; rfl
      · split at h
        · simp at h; subst h; simp [MatchR.start] at h2; have : j = 2 := by omega
          subst this; rfl
        · split at h
          · simp at h; subst h; simp [MatchR.start] at h2; have : j = 3 := by omega
            subst this; rfl
          · simp at h
  · intro i j h h1 h2; unfold witnessFinder at h
    split at h
    · simp at h
    · split at h
      · simp at h
      · split at h
        · simp at h
        · split at h
          · simp at h
          · omega

example : (buildPosMap [0x61, 0xD83D, 0xDE00, 0x62] 2).posMap = [0, 1, 3, 4] ∧
    (buildPosMap [0x61, 0xD83D, 0xDE00, 0x62] 2).mappedStart = 1 ∧
    (buildPosMap [0x61, 0xD83D, 0xDE00, 0x62] 2).splitPair = true := by decide

example : (parseFlags "gimsuy".toList).isSome = true ∧ parseFlags "uu".toList = none := by decide

end GojaModel.C20
